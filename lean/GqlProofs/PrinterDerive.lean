import GqlModel.Grammar
import GqlModel.PrinterWF
import GqlModel.StripLoc
/-! The plain token sequence of a well-formed tree is in the grammar S (`GqlModel/Grammar.lean`) and denotes the same
tree, locations aside — for tokens placed at arbitrary offsets.  Statement shape, per nonterminal `X`:

  `p.kvs = xT x ++ k → Follow k → ∃ x' p', DX p x' p' ∧ p'.kvs = k ∧ x'.stripLoc = x.stripLoc`

(`p.kvs` = kinds and values of the tokens ahead of position `p`; `k` = what follows the node; `Follow k` = the
look-ahead side conditions of the node's trailing optional parts). -/
namespace GqlModel.Printer
open GqlModel GqlModel.Grammar GqlModel.Reader

def kvOf (t : Token) : KV := (t.kind, t.value)

/-- kinds and values of the tokens ahead -/
def kvs (p : Pos) : List KV := p.ts.map kvOf

/-- the next token, if any, is not of kind `k` -/
def NextNe (k : TokenKind) (l : List KV) : Prop := ∀ x r, l = x :: r → x.1 ≠ k

/-- the next token, if any, is not the name `s` -/
def NextNotName (s : String) (l : List KV) : Prop := ∀ x r, l = x :: r → x ≠ (.name, s)

theorem tok_step {p : Pos} {k : TokenKind} {v : String} {rest : List KV} (h : kvs p = (k, v) :: rest) :
    ∃ t p', Tok k p t p' ∧ t.value = v ∧ kvs p' = rest ∧ p.start = t.start ∧ p'.e = t.stop := by
  obtain ⟨e, ts⟩ := p
  cases ts with
  | nil => simp [kvs] at h
  | cons t r =>
    simp only [kvs, List.map_cons, List.cons.injEq, kvOf, Prod.mk.injEq] at h
    exact ⟨t, ⟨t.stop, r⟩, Tok.mk e t r h.1.1, h.1.2, h.2, rfl, rfl⟩

theorem kind_ne_of_next {p : Pos} {k : TokenKind} {l : List KV} (h : kvs p = l) (hn : NextNe k l) (hk : k ≠ .eof) :
    p.kind ≠ k := by
  obtain ⟨e, ts⟩ := p
  cases ts with
  | nil => simpa [Pos.kind] using fun h => hk h.symm
  | cons t r =>
    simp only [kvs, List.map_cons] at h
    have := hn (kvOf t) (r.map kvOf) h.symm
    simpa [Pos.kind, kvOf] using this

theorem not_isName_of_next {p : Pos} {s : String} {l : List KV} (h : kvs p = l) (hn : NextNotName s l) :
    ¬ p.isName s := by
  obtain ⟨e, ts⟩ := p
  cases ts with
  | nil => simp [Pos.isName]
  | cons t r =>
    simp only [kvs, List.map_cons] at h
    have := hn (kvOf t) (r.map kvOf) h.symm
    simp only [Pos.isName]
    intro hc
    apply this
    simp [kvOf, hc.1, hc.2]

theorem nextNe_cons {k k' : TokenKind} {v : String} {r : List KV} (h : k' ≠ k) : NextNe k ((k', v) :: r) := by
  intro x r' e; simp at e; rw [← e.1]; exact h

theorem nextNe_nil (k : TokenKind) : NextNe k [] := by intro x r e; simp at e

theorem nextNotName_cons_kind {k : TokenKind} {v s : String} {r : List KV} (h : k ≠ .name) : NextNotName s ((k, v) :: r) := by
  intro x r' e; simp at e; rw [← e.1]; intro hc; simp at hc; exact h hc.1

theorem nextNotName_nil (s : String) : NextNotName s [] := by intro x r e; simp at e

/-- one name token -/
theorem derive_name {p : Pos} {s : String} {k : List KV} (h : kvs p = nT s ++ k) :
    ∃ n p', DName p n p' ∧ kvs p' = k ∧ n.value = s := by
  obtain ⟨t, p', ht, hv, hk, _, _⟩ := tok_step (by simpa [nT] using h)
  exact ⟨_, p', DName.mk ht, hk, hv⟩

/-- one keyword -/
theorem derive_kw {p : Pos} {s : String} {k : List KV} (h : kvs p = nT s ++ k) : ∃ p', Kw s p p' ∧ kvs p' = k := by
  obtain ⟨t, p', ht, hv, hk, _, _⟩ := tok_step (by simpa [nT] using h)
  exact ⟨p', Kw.mk ht hv, hk⟩

/-- one punctuator -/
theorem derive_punct {p : Pos} {c : TokenKind} {k : List KV} (h : kvs p = pT c ++ k) :
    ∃ t p', Tok c p t p' ∧ kvs p' = k := by
  obtain ⟨t, p', ht, _, hk, _, _⟩ := tok_step (by simpa [pT] using h)
  exact ⟨t, p', ht, hk⟩

/-! ## types -/

theorem derive_namedType {p : Pos} {t : TypeRef} {k : List KV} (hwf : WFNamedType t) (h : kvs p = typeT t ++ k) :
    ∃ t' p', DNamedType p t' p' ∧ kvs p' = k ∧ t'.stripLoc = t.stripLoc := by
  cases t with
  | named n l =>
    obtain ⟨nm, p', hn, hk, hv⟩ := derive_name (s := n) (by simpa [typeT] using h)
    exact ⟨_, p', DNamedType.mk hn, hk, by simp [TypeRef.stripLoc, hv]⟩
  | list t l => exact absurd hwf (by simp [WFNamedType])
  | nonNull t l => exact absurd hwf (by simp [WFNamedType])

theorem derive_type_aux : ∀ t : TypeRef, WFType t → ∀ (p : Pos) (k : List KV), kvs p = typeT t ++ k →
    (isBaseTypeB t = true → ∃ t' p', DBaseType p t' p' ∧ kvs p' = k ∧ t'.stripLoc = t.stripLoc) ∧
    (NextNe .bang k → ∃ t' p', DType p t' p' ∧ kvs p' = k ∧ t'.stripLoc = t.stripLoc) := by
  intro t
  induction t with
  | named n l =>
    intro hwf p k h
    have hb : ∃ t' p', DBaseType p t' p' ∧ kvs p' = k ∧ t'.stripLoc = (TypeRef.named n l).stripLoc := by
      obtain ⟨nm, p', hn, hk, hv⟩ := derive_name (s := n) (by simpa [typeT] using h)
      exact ⟨_, p', DBaseType.named (DNamedType.mk hn), hk, by simp [TypeRef.stripLoc, hv]⟩
    refine ⟨fun _ => hb, fun hnb => ?_⟩
    obtain ⟨t', p', hd, hk, hs⟩ := hb
    exact ⟨t', p', DType.plain hd (kind_ne_of_next hk hnb (by decide)), hk, hs⟩
  | list t l ih =>
    intro hwf p k h
    have hb : ∃ t' p', DBaseType p t' p' ∧ kvs p' = k ∧ t'.stripLoc = (TypeRef.list t l).stripLoc := by
      simp only [typeT, List.append_assoc] at h
      obtain ⟨o, p1, ho, h1⟩ := derive_punct h
      obtain ⟨t', p2, hd, h2, hs⟩ := (ih hwf p1 _ h1).2 (nextNe_cons (by decide))
      obtain ⟨cl, p3, hc, h3⟩ := derive_punct h2
      exact ⟨_, p3, DBaseType.list ho hd hc, h3, by simp [TypeRef.stripLoc, hs]⟩
    refine ⟨fun _ => hb, fun hnb => ?_⟩
    obtain ⟨t', p', hd, hk, hs⟩ := hb
    exact ⟨t', p', DType.plain hd (kind_ne_of_next hk hnb (by decide)), hk, hs⟩
  | nonNull t l ih =>
    intro hwf p k h
    obtain ⟨hwft, hbase⟩ := hwf
    have hbase' : isBaseTypeB t = true := by cases t <;> simp_all [isBaseTypeB]
    refine ⟨fun hb => by simp [isBaseTypeB] at hb, fun _ => ?_⟩
    simp only [typeT, List.append_assoc] at h
    obtain ⟨t', p1, hd, h1, hs⟩ := (ih hwft p _ h).1 hbase'
    obtain ⟨b, p2, hb, h2⟩ := derive_punct h1
    exact ⟨_, p2, DType.nonNull hd hb, h2, by simp [TypeRef.stripLoc, hs]⟩

theorem derive_type {t : TypeRef} (hwf : WFType t) {p : Pos} {k : List KV} (h : kvs p = typeT t ++ k)
    (hn : NextNe .bang k) : ∃ t' p', DType p t' p' ∧ kvs p' = k ∧ t'.stripLoc = t.stripLoc :=
  (derive_type_aux t hwf p k h).2 hn

/-! ## values -/

theorem str_ne_of_toList_ne {v : String} {s : String} (h : v.toList ≠ s.toList) : v ≠ s := by
  intro e; subst e; exact h rfl

theorem trueC_eq : "true".toList = trueC := by decide
theorem falseC_eq : "false".toList = falseC := by decide
theorem nullC_eq : "null".toList = nullC := by decide

mutual
theorem derive_value (c : Bool) : ∀ v : Value, WFValue v → (c = true → ConstValue v) → ∀ (p : Pos) (k : List KV),
    kvs p = valueT v ++ k → ∃ v' p', DValue c p v' p' ∧ kvs p' = k ∧ v'.stripLoc = v.stripLoc
  | .var n l, _, hc, p, k, h => by
    have hcf : c = false := by
      cases c with
      | false => rfl
      | true => exact absurd (hc rfl) (by simp [ConstValue])
    subst hcf
    simp only [valueT, List.append_assoc] at h
    obtain ⟨d, p1, hd, h1⟩ := derive_punct h
    obtain ⟨nm, p2, hn, h2, hv⟩ := derive_name h1
    exact ⟨_, p2, DValue.var (DVariable.mk hd hn), h2, by simp [Value.stripLoc, hv]⟩
  | .int raw l, _, _, p, k, h => by
    obtain ⟨t, p', ht, hv, hk, _, _⟩ := tok_step (k := .int) (v := raw) (by simpa [valueT] using h)
    exact ⟨_, p', DValue.int ht, hk, by simp [Value.stripLoc, hv]⟩
  | .float raw l, _, _, p, k, h => by
    obtain ⟨t, p', ht, hv, hk, _, _⟩ := tok_step (k := .float) (v := raw) (by simpa [valueT] using h)
    exact ⟨_, p', DValue.float ht, hk, by simp [Value.stripLoc, hv]⟩
  | .str s l, _, _, p, k, h => by
    obtain ⟨t, p', ht, hv, hk, _, _⟩ := tok_step (k := .string) (v := s) (by simpa [valueT] using h)
    exact ⟨_, p', DValue.string ht, hk, by simp [Value.stripLoc, hv]⟩
  | .bool true l, _, _, p, k, h => by
    obtain ⟨p', hkw, hk⟩ := derive_kw (s := "true") (by simpa [valueT] using h)
    exact ⟨_, p', DValue.tru hkw, hk, rfl⟩
  | .bool false l, _, _, p, k, h => by
    obtain ⟨p', hkw, hk⟩ := derive_kw (s := "false") (by simpa [valueT] using h)
    exact ⟨_, p', DValue.fls hkw, hk, rfl⟩
  | .enum v l, hwf, _, p, k, h => by
    obtain ⟨t, p', ht, hv, hk, _, _⟩ := tok_step (k := .name) (v := v) (by simpa [valueT, nT] using h)
    refine ⟨_, p', DValue.enum ht ?_ ?_ ?_, hk, by simp [Value.stripLoc, hv]⟩
    · rw [hv]; exact str_ne_of_toList_ne (by rw [trueC_eq]; exact hwf.2.1)
    · rw [hv]; exact str_ne_of_toList_ne (by rw [falseC_eq]; exact hwf.2.2.1)
    · rw [hv]; exact str_ne_of_toList_ne (by rw [nullC_eq]; exact hwf.2.2.2)
  | .list vs l, hwf, hc, p, k, h => by
    simp only [valueT, List.append_assoc] at h
    obtain ⟨o, p1, ho, h1⟩ := derive_punct h
    obtain ⟨vs', p2, hvs, h2, hs⟩ := derive_values c vs hwf hc p1 _ h1
    obtain ⟨cl, p3, hcl, h3⟩ := derive_punct h2
    exact ⟨_, p3, DValue.list ho hvs hcl, h3, by simp [Value.stripLoc, hs]⟩
  | .obj fs l, hwf, hc, p, k, h => by
    simp only [valueT, List.append_assoc] at h
    obtain ⟨o, p1, ho, h1⟩ := derive_punct h
    obtain ⟨fs', p2, hfs, h2, hs⟩ := derive_fields c fs hwf hc p1 _ h1
    obtain ⟨cl, p3, hcl, h3⟩ := derive_punct h2
    exact ⟨_, p3, DValue.obj ho hfs hcl, h3, by simp [Value.stripLoc, hs]⟩
theorem derive_values (c : Bool) : ∀ vs : List Value, WFValues vs → (c = true → ConstValues vs) → ∀ (p : Pos) (k : List KV),
    kvs p = valuesT vs ++ k → ∃ vs' p', DValues c p vs' p' ∧ kvs p' = k ∧ Value.stripLocList vs' = Value.stripLocList vs
  | [], _, _, p, k, h => ⟨[], p, DValues.nil, by simpa [valuesT] using h, rfl⟩
  | v :: vs, hwf, hc, p, k, h => by
    simp only [valuesT, List.append_assoc] at h
    obtain ⟨v', p1, hv, h1, hs1⟩ := derive_value c v hwf.1 (fun e => (hc e).1) p _ h
    obtain ⟨vs', p2, hvs, h2, hs2⟩ := derive_values c vs hwf.2 (fun e => (hc e).2) p1 _ h1
    exact ⟨v' :: vs', p2, DValues.cons hv hvs, h2, by simp [Value.stripLocList, hs1, hs2]⟩
theorem derive_field (c : Bool) : ∀ f : ObjField, WFField f → (c = true → ConstField f) → ∀ (p : Pos) (k : List KV),
    kvs p = fieldT f ++ k → ∃ f' p', DObjField c p f' p' ∧ kvs p' = k ∧ f'.stripLoc = f.stripLoc
  | .mk n v l, hwf, hc, p, k, h => by
    simp only [fieldT, List.append_assoc] at h
    obtain ⟨nm, p1, hn, h1, hnv⟩ := derive_name h
    obtain ⟨cl, p2, hcl, h2⟩ := derive_punct h1
    obtain ⟨v', p3, hv, h3, hs⟩ := derive_value c v hwf.2 (fun e => hc e) p2 _ h2
    exact ⟨_, p3, DObjField.mk hn hcl hv, h3, by simp [ObjField.stripLoc, Name.stripLoc, hnv, hs]⟩
theorem derive_fields (c : Bool) : ∀ fs : List ObjField, WFFields fs → (c = true → ConstFields fs) → ∀ (p : Pos) (k : List KV),
    kvs p = fieldsT fs ++ k →
      ∃ fs' p', DObjFields c p fs' p' ∧ kvs p' = k ∧ ObjField.stripLocList fs' = ObjField.stripLocList fs
  | [], _, _, p, k, h => ⟨[], p, DObjFields.nil, by simpa [fieldsT] using h, rfl⟩
  | f :: fs, hwf, hc, p, k, h => by
    simp only [fieldsT, List.append_assoc] at h
    obtain ⟨f', p1, hf, h1, hs1⟩ := derive_field c f hwf.1 (fun e => (hc e).1) p _ h
    obtain ⟨fs', p2, hfs, h2, hs2⟩ := derive_fields c fs hwf.2 (fun e => (hc e).2) p1 _ h1
    exact ⟨f' :: fs', p2, DObjFields.cons hf hfs, h2, by simp [ObjField.stripLocList, hs1, hs2]⟩
end

/-! ## arguments and directives -/

theorem derive_argument (a : Argument) (hwf : WFArgument a) {p : Pos} {k : List KV} (h : kvs p = argT a ++ k) :
    ∃ a' p', DArgument p a' p' ∧ kvs p' = k ∧ a'.stripLoc = a.stripLoc := by
  simp only [argT, List.append_assoc] at h
  obtain ⟨nm, p1, hn, h1, hnv⟩ := derive_name h
  obtain ⟨cl, p2, hcl, h2⟩ := derive_punct h1
  obtain ⟨v', p3, hv, h3, hs⟩ := derive_value false a.value hwf.2 (fun e => by cases e) p2 _ h2
  exact ⟨_, p3, DArgument.mk hn hcl hv, h3, by simp [Argument.stripLoc, Name.stripLoc, hnv, hs]⟩

theorem derive_argList : ∀ as : List Argument, WFArguments as → ∀ (p : Pos) (k : List KV), kvs p = argListT as ++ k →
    ∃ as' p', Many DArgument p as' p' ∧ kvs p' = k ∧ as'.map Argument.stripLoc = as.map Argument.stripLoc
  | [], _, p, k, h => ⟨[], p, Many.nil, by simpa [argListT] using h, rfl⟩
  | a :: as, hwf, p, k, h => by
    simp only [argListT, List.append_assoc] at h
    obtain ⟨a', p1, ha, h1, hs1⟩ := derive_argument a hwf.1 h
    obtain ⟨as', p2, has, h2, hs2⟩ := derive_argList as hwf.2 p1 k h1
    exact ⟨a' :: as', p2, Many.cons ha has, h2, by simp [hs1, hs2]⟩

theorem ne_nil_of_map_eq {α β : Type} {f : α → β} {g : α → β} {xs : List α} {y : α} {ys : List α}
    (h : xs.map f = (y :: ys).map g) : xs ≠ [] := by
  intro e; subst e; simp at h

theorem derive_arguments (as : List Argument) (hwf : WFArguments as) {p : Pos} {k : List KV} (h : kvs p = argsT as ++ k)
    (hf : as = [] → NextNe .parenL k) :
    ∃ as' p', DArguments p as' p' ∧ kvs p' = k ∧ as'.map Argument.stripLoc = as.map Argument.stripLoc := by
  cases as with
  | nil =>
    have hk : kvs p = k := by simpa [argsT] using h
    exact ⟨[], p, DArguments.none (kind_ne_of_next hk (hf rfl) (by decide)), hk, rfl⟩
  | cons a as =>
    simp only [argsT, List.append_assoc] at h
    obtain ⟨o, p1, ho, h1⟩ := derive_punct h
    obtain ⟨as', p2, has, h2, hs⟩ := derive_argList (a :: as) hwf p1 _ h1
    obtain ⟨cl, p3, hcl, h3⟩ := derive_punct h2
    exact ⟨as', p3, DArguments.some ho has (ne_nil_of_map_eq hs) hcl, h3, hs⟩

theorem derive_directive (d : Directive) (hwf : WFDirective d) {p : Pos} {k : List KV} (h : kvs p = directiveT d ++ k)
    (hf : d.args = [] → NextNe .parenL k) :
    ∃ d' p', DDirective p d' p' ∧ kvs p' = k ∧ d'.stripLoc = d.stripLoc := by
  simp only [directiveT, List.append_assoc] at h
  obtain ⟨a, p1, ha, h1⟩ := derive_punct h
  obtain ⟨nm, p2, hn, h2, hnv⟩ := derive_name h1
  obtain ⟨as', p3, has, h3, hs⟩ := derive_arguments d.args hwf.2 h2 hf
  exact ⟨_, p3, DDirective.mk ha hn has, h3, by simp [Directive.stripLoc, Name.stripLoc, hnv, hs]⟩

theorem directivesT_cons_head (d : Directive) (ds : List Directive) (k : List KV) :
    ∃ r, directivesT (d :: ds) ++ k = (.at, "") :: r := by
  simp [directivesT, directiveT, pT]

theorem nextNe_directivesT {c : TokenKind} (hc : c ≠ .at) (ds : List Directive) {k : List KV} (hk : NextNe c k) :
    NextNe c (directivesT ds ++ k) := by
  cases ds with
  | nil => simpa [directivesT] using hk
  | cons d ds =>
    obtain ⟨r, hr⟩ := directivesT_cons_head d ds k
    rw [hr]; exact nextNe_cons (fun e => hc e.symm)

theorem derive_directives : ∀ ds : List Directive, WFDirectives ds → ∀ (p : Pos) (k : List KV),
    kvs p = directivesT ds ++ k → NextNe .at k → NextNe .parenL k →
    ∃ ds' p', DDirectives p ds' p' ∧ kvs p' = k ∧ ds'.map Directive.stripLoc = ds.map Directive.stripLoc
  | [], _, p, k, h, hat, _ => by
    have hk : kvs p = k := by simpa [directivesT] using h
    exact ⟨[], p, DDirectives.nil (kind_ne_of_next hk hat (by decide)), hk, rfl⟩
  | d :: ds, hwf, p, k, h, hat, hpar => by
    simp only [directivesT, List.append_assoc] at h
    obtain ⟨d', p1, hd, h1, hs1⟩ := derive_directive d hwf.1 h
      (fun _ => nextNe_directivesT (by decide) ds hpar)
    obtain ⟨ds', p2, hds, h2, hs2⟩ := derive_directives ds hwf.2 p1 k h1 hat hpar
    exact ⟨d' :: ds', p2, DDirectives.cons hd hds, h2, by simp [hs1, hs2]⟩

/-! ## selections -/

/-- what may follow a selection / a member with trailing optional parts -/
structure FollowSel (k : List KV) : Prop where
  hColon : NextNe .colon k
  hParenL : NextNe .parenL k
  hAt : NextNe .at k
  hBraceL : NextNe .braceL k

theorem followSel_cons {kd : TokenKind} {v : String} {r : List KV} (h1 : kd ≠ .colon) (h2 : kd ≠ .parenL)
    (h3 : kd ≠ .at) (h4 : kd ≠ .braceL) : FollowSel ((kd, v) :: r) :=
  ⟨nextNe_cons h1, nextNe_cons h2, nextNe_cons h3, nextNe_cons h4⟩

theorem followSel_nil : FollowSel [] := ⟨nextNe_nil _, nextNe_nil _, nextNe_nil _, nextNe_nil _⟩

theorem selectionT_head (s : Selection) (k : List KV) :
    ∃ kd v r, selectionT s ++ k = (kd, v) :: r ∧ (kd = .name ∨ kd = .spread) := by
  cases s with
  | field alias name args dirs sel l =>
    cases alias with
    | none =>
      simp only [selectionT, aliasT, nT, List.nil_append, List.cons_append, List.append_assoc]
      exact ⟨_, _, _, rfl, Or.inl rfl⟩
    | some a =>
      simp only [selectionT, aliasT, nT, List.nil_append, List.cons_append, List.append_assoc]
      exact ⟨_, _, _, rfl, Or.inl rfl⟩
  | spread name dirs l =>
    simp only [selectionT, pT, List.nil_append, List.cons_append, List.append_assoc]
    exact ⟨_, _, _, rfl, Or.inr rfl⟩
  | inline tc dirs sel l =>
    simp only [selectionT, pT, List.nil_append, List.cons_append, List.append_assoc]
    exact ⟨_, _, _, rfl, Or.inr rfl⟩

theorem followSel_selections (ss : List Selection) (k : List KV) : FollowSel (selectionsT ss ++ (pT .braceR ++ k)) := by
  cases ss with
  | nil => simp only [selectionsT, List.nil_append, pT, List.cons_append]; exact followSel_cons (by decide) (by decide) (by decide) (by decide)
  | cons s ss =>
    obtain ⟨kd, v, r, hr, hkd⟩ := selectionT_head s (selectionsT ss ++ (pT .braceR ++ k))
    simp only [selectionsT, List.append_assoc]
    rw [hr]
    rcases hkd with rfl | rfl <;> exact followSel_cons (by decide) (by decide) (by decide) (by decide)

theorem selSetT_head (s : SelectionSet) (k : List KV) : ∃ r, selSetT s ++ k = (.braceL, "") :: r := by
  cases s with
  | mk sels l => simp [selSetT, pT]

theorem nextNe_optSelSetT {c : TokenKind} (hc : c ≠ .braceL) (s : Option SelectionSet) {k : List KV} (hk : NextNe c k) :
    NextNe c (optSelSetT s ++ k) := by
  cases s with
  | none => simpa [optSelSetT] using hk
  | some s =>
    obtain ⟨r, hr⟩ := selSetT_head s k
    simp only [optSelSetT]; rw [hr]; exact nextNe_cons (fun e => hc e.symm)

theorem derive_typeCond (tc : Option TypeRef) (hwf : WFTypeCond tc) {p : Pos} {k : List KV}
    (h : kvs p = typeCondT tc ++ k) (hf : NextNotName "on" k) :
    ∃ tc' p', DTypeCondition p tc' p' ∧ kvs p' = k ∧ tc'.map TypeRef.stripLoc = tc.map TypeRef.stripLoc := by
  cases tc with
  | none =>
    have hk : kvs p = k := by simpa [typeCondT] using h
    exact ⟨none, p, DTypeCondition.none (not_isName_of_next hk hf), hk, rfl⟩
  | some t =>
    simp only [typeCondT, List.append_assoc] at h
    obtain ⟨p1, hkw, h1⟩ := derive_kw h
    obtain ⟨t', p2, ht, h2, hs⟩ := derive_namedType hwf h1
    exact ⟨some t', p2, DTypeCondition.some hkw ht, h2, by simp [hs]⟩

mutual
theorem derive_selection : ∀ s : Selection, WFSelection s → ∀ (p : Pos) (k : List KV), kvs p = selectionT s ++ k →
    FollowSel k → ∃ s' p', DSelection p s' p' ∧ kvs p' = k ∧ s'.stripLoc = s.stripLoc
  | .field alias name args dirs sel l, hwf, p, k, h, hf => by
    obtain ⟨ha, hn, hargs, hd, hs⟩ := hwf
    -- what follows the arguments, the directives
    have hfArgs : args = [] → NextNe .parenL (directivesT dirs ++ (optSelSetT sel ++ k)) := fun _ =>
      nextNe_directivesT (by decide) dirs (nextNe_optSelSetT (by decide) sel hf.hParenL)
    have hfAt : NextNe .at (optSelSetT sel ++ k) := nextNe_optSelSetT (by decide) sel hf.hAt
    have hfPar : NextNe .parenL (optSelSetT sel ++ k) := nextNe_optSelSetT (by decide) sel hf.hParenL
    cases alias with
    | none =>
      simp only [selectionT, aliasT, List.nil_append, List.append_assoc] at h
      obtain ⟨nm, p1, hnm, h1, hnv⟩ := derive_name h
      have hcolon : p1.kind ≠ .colon := by
        refine kind_ne_of_next h1 ?_ (by decide)
        cases args with
        | nil =>
          simp only [argsT, List.nil_append]
          exact nextNe_directivesT (by decide) dirs (nextNe_optSelSetT (by decide) sel hf.hColon)
        | cons a as => simp only [argsT, pT, List.cons_append, List.append_assoc]; exact nextNe_cons (by decide)
      obtain ⟨as', p2, has, h2, hsa⟩ := derive_arguments args hargs h1 hfArgs
      obtain ⟨ds', p3, hds, h3, hsd⟩ := derive_directives dirs hd p2 _ h2 hfAt hfPar
      obtain ⟨sel', p4, hsel, h4, hss⟩ := derive_optSelSet sel hs p3 k h3 hf.hBraceL
      exact ⟨_, p4, DSelection.field hnm hcolon has hds hsel, h4,
        by simp [Selection.stripLoc, Name.stripLoc, hnv, hsa, hsd, hss]⟩
    | some a =>
      simp only [selectionT, aliasT, List.append_assoc] at h
      obtain ⟨am, p1, ham, h1, hav⟩ := derive_name h
      obtain ⟨cl, p2, hcl, h2⟩ := derive_punct h1
      obtain ⟨nm, p3, hnm, h3, hnv⟩ := derive_name h2
      obtain ⟨as', p4, has, h4, hsa⟩ := derive_arguments args hargs h3 hfArgs
      obtain ⟨ds', p5, hds, h5, hsd⟩ := derive_directives dirs hd p4 _ h4 hfAt hfPar
      obtain ⟨sel', p6, hsel, h6, hss⟩ := derive_optSelSet sel hs p5 k h5 hf.hBraceL
      exact ⟨_, p6, DSelection.aliased ham hcl hnm has hds hsel, h6,
        by simp [Selection.stripLoc, Name.stripLoc, hav, hnv, hsa, hsd, hss]⟩
  | .spread name dirs l, hwf, p, k, h, hf => by
    simp only [selectionT, List.append_assoc] at h
    obtain ⟨sp, p1, hsp, h1⟩ := derive_punct h
    obtain ⟨nm, p2, hnm, h2, hnv⟩ := derive_name h1
    obtain ⟨ds', p3, hds, h3, hsd⟩ := derive_directives dirs hwf.2.2 p2 k h2 hf.hAt hf.hParenL
    exact ⟨_, p3, DSelection.spread hsp (DFragmentName.mk hnm (by rw [hnv]; exact hwf.2.1)) hds, h3,
      by simp [Selection.stripLoc, Name.stripLoc, hnv, hsd]⟩
  | .inline tc dirs sel l, hwf, p, k, h, _ => by
    obtain ⟨htc, hd, hs⟩ := hwf
    simp only [selectionT, List.append_assoc] at h
    obtain ⟨sp, p1, hsp, h1⟩ := derive_punct h
    obtain ⟨r, hr⟩ := selSetT_head sel k
    have hnotOn : NextNotName "on" (directivesT dirs ++ (selSetT sel ++ k)) := by
      cases dirs with
      | nil => simp only [directivesT, List.nil_append]; rw [hr]; exact nextNotName_cons_kind (by decide)
      | cons d ds =>
        obtain ⟨r', hr'⟩ := directivesT_cons_head d ds (selSetT sel ++ k)
        rw [hr']; exact nextNotName_cons_kind (by decide)
    obtain ⟨tc', p2, htc', h2, hst⟩ := derive_typeCond tc htc h1 hnotOn
    obtain ⟨ds', p3, hds, h3, hsd⟩ := derive_directives dirs hd p2 _ h2
      (by rw [hr]; exact nextNe_cons (by decide)) (by rw [hr]; exact nextNe_cons (by decide))
    obtain ⟨sel', p4, hsel, h4, hss⟩ := derive_selSet sel hs p3 k h3
    exact ⟨_, p4, DSelection.inline hsp htc' hds hsel, h4, by simp [Selection.stripLoc, hst, hsd, hss]⟩
theorem derive_selSet : ∀ s : SelectionSet, WFSelSet s → ∀ (p : Pos) (k : List KV), kvs p = selSetT s ++ k →
    ∃ s' p', DSelectionSet p s' p' ∧ kvs p' = k ∧ s'.stripLoc = s.stripLoc
  | .mk sels l, hwf, p, k, h => by
    simp only [selSetT, List.append_assoc] at h
    obtain ⟨o, p1, ho, h1⟩ := derive_punct h
    obtain ⟨ss', p2, hss, h2, hs⟩ := derive_selections sels hwf.2 p1 k h1
    obtain ⟨cl, p3, hcl, h3⟩ := derive_punct h2
    have hne : ss' ≠ [] := by
      intro e; subst e
      cases sels with
      | nil => exact hwf.1 rfl
      | cons s ss => simp [Selection.stripLocList] at hs
    exact ⟨_, p3, DSelectionSet.mk ho hss hne hcl, h3, by simp [SelectionSet.stripLoc, hs]⟩
theorem derive_optSelSet : ∀ s : Option SelectionSet, WFOptSelSet s → ∀ (p : Pos) (k : List KV),
    kvs p = optSelSetT s ++ k → NextNe .braceL k →
    ∃ s' p', DOptSelectionSet p s' p' ∧ kvs p' = k ∧ SelectionSet.stripLocOpt s' = SelectionSet.stripLocOpt s
  | none, _, p, k, h, hf => by
    have hk : kvs p = k := by simpa [optSelSetT] using h
    exact ⟨none, p, DOptSelectionSet.none (kind_ne_of_next hk hf (by decide)), hk, rfl⟩
  | some s, hwf, p, k, h, _ => by
    obtain ⟨s', p', hs, hk, hst⟩ := derive_selSet s hwf p k h
    exact ⟨some s', p', DOptSelectionSet.some hs, hk, by simp [SelectionSet.stripLocOpt, hst]⟩
theorem derive_selections : ∀ ss : List Selection, WFSelections ss → ∀ (p : Pos) (k : List KV),
    kvs p = selectionsT ss ++ (pT .braceR ++ k) →
    ∃ ss' p', DSelections p ss' p' ∧ kvs p' = pT .braceR ++ k ∧ Selection.stripLocList ss' = Selection.stripLocList ss
  | [], _, p, k, h => ⟨[], p, DSelections.nil, by simpa [selectionsT] using h, rfl⟩
  | s :: ss, hwf, p, k, h => by
    simp only [selectionsT, List.append_assoc] at h
    obtain ⟨s', p1, hs, h1, hst⟩ := derive_selection s hwf.1 p _ h (followSel_selections ss k)
    obtain ⟨ss', p2, hss, h2, hsst⟩ := derive_selections ss hwf.2 p1 k h1
    exact ⟨s' :: ss', p2, DSelections.cons hs hss, h2, by simp [Selection.stripLocList, hst, hsst]⟩
end

end GqlModel.Printer
