import GqlModel.Cost
/-! # Lemmas about the planning cost model (C19 / C09)

* `potential_visit`: visiting a fragment that is in the table lowers the weighted count of unvisited fragment
  definitions by at least the weight of the definition found.
* `StepInv` / `collectSel_inv`…: ONE mutual induction over the syntax of a selection set, parametrised by a
  relation `P input output budget` between states; instantiated three times:
  - `Bounded`  (collect counter + potential never grows by more than the inline-fragment count),
  - `FuelRel`  (fuel: the number of unvisited fragment definitions bounds the nesting of fragment entries),
  - `EntRel`   (each fragment body is entered at most once per visited set).
* exec-level invariants of the memo log. -/
namespace GqlModel.Cost

/-! ## potential -/

theorem potential_nil_frags (w) (v : List String) : potential w [] v = 0 := by simp [potential]

theorem potential_cons_frag (w) (g) (gs : List (String × String × SelectionSet)) (v : List String) :
    potential w (g :: gs) v = (if g.1 ∈ v then 0 else w g) + potential w gs v := by
  unfold potential
  by_cases h : g.1 ∈ v
  · simp [h]
  · simp [h]

theorem potential_mono (w) (frags : List (String × String × SelectionSet)) (v : List String) (n : String) :
    potential w frags (n :: v) ≤ potential w frags v := by
  induction frags with
  | nil => simp [potential_nil_frags]
  | cons g gs ih =>
    rw [potential_cons_frag, potential_cons_frag]
    by_cases h1 : g.1 ∈ v
    · have h2 : g.1 ∈ n :: v := List.mem_cons_of_mem _ h1
      rw [if_pos h1, if_pos h2]; omega
    · by_cases h2 : g.1 ∈ n :: v
      · rw [if_neg h1, if_pos h2]; omega
      · rw [if_neg h1, if_neg h2]; omega

theorem potential_le_total (w) (frags : List (String × String × SelectionSet)) (v : List String) :
    potential w frags v ≤ potential w frags [] := by
  induction frags with
  | nil => simp [potential_nil_frags]
  | cons g gs ih =>
    rw [potential_cons_frag, potential_cons_frag]
    have h0 : ¬ g.1 ∈ ([] : List String) := by simp
    rw [if_neg h0]
    by_cases h1 : g.1 ∈ v
    · rw [if_pos h1]; omega
    · rw [if_neg h1]; omega

theorem potential_visit (w) (frags : List (String × String × SelectionSet)) (v : List String) (n : String)
    (f : String × String × SelectionSet)
    (hf : frags.find? (fun f => f.1 == n) = some f) (hn : n ∉ v) :
    potential w frags (n :: v) + w f ≤ potential w frags v := by
  induction frags with
  | nil => simp at hf
  | cons g gs ih =>
    rw [potential_cons_frag, potential_cons_frag]
    by_cases hg : g.1 = n
    · -- the definition found is `g`
      have hfg : f = g := by
        simp [hg] at hf; exact hf.symm
      subst hfg
      have h1 : ¬ f.1 ∈ v := by rw [hg]; exact hn
      have h2 : f.1 ∈ n :: v := by rw [hg]; exact List.mem_cons_self ..
      have := potential_mono w gs v n
      rw [if_neg h1, if_pos h2]; omega
    · have hne : (g.1 == n) = false := by simp [hg]
      have hf' : gs.find? (fun f => f.1 == n) = some f := by
        simpa [List.find?_cons, hne] using hf
      have ih' := ih hf'
      have hc : (g.1 ∈ n :: v) ↔ (g.1 ∈ v) := by
        simp [List.mem_cons, hg]
      by_cases h1 : g.1 ∈ v
      · rw [if_pos h1, if_pos (hc.2 h1)]; omega
      · rw [if_neg h1, if_neg (fun h => h1 (hc.1 h))]; omega

theorem potential_one_nil (frags : List (String × String × SelectionSet)) :
    potential (fun _ => 1) frags [] = frags.length := by
  induction frags with
  | nil => simp [potential_nil_frags]
  | cons g gs ih =>
    have h0 : ¬ g.1 ∈ ([] : List String) := by simp
    rw [potential_cons_frag, ih, if_neg h0]; simp; omega

/-! ## one induction over the syntax for every state relation -/

structure StepInv (c : Ctx) (rec : Chain → SelectionSet → St → St) (P : St → St → Nat → Prop) : Prop where
  refl : ∀ st, P st st 0
  trans : ∀ {a b d m n}, P a b m → P b d n → P a d (m + n)
  mono : ∀ {a b m n}, P a b m → m ≤ n → P a b n
  field : ∀ (st : St) fs, P st { st with fields := fs } 0
  enter : ∀ (st : St), P st { st with collect := st.collect + 1 } 1
  spread : ∀ (st : St) n f (chain : Chain), n ∉ st.visited → c.lookup n = some f →
    (c.applies (some f.2.1) = false → P st { st with visited := n :: st.visited } 0) ∧
    (c.applies (some f.2.1) = true →
      P st (rec (n :: chain) f.2.2 { st with visited := n :: st.visited, entered := n :: st.entered }) 0)

mutual
theorem collectSel_inv {c : Ctx} {rec} {P} (h : StepInv c rec P) (chain : Chain) :
    ∀ (sel : Selection) (st : St), P st (collectSel c rec chain sel st) (inlSel sel)
  | .field alias name args dirs sub loc, st => by
    simp only [collectSel, inlSel]
    split
    · exact h.refl st
    · exact h.field st _
  | .inline tc dirs ss loc, st => by
    simp only [collectSel, inlSel]
    split
    · exact h.mono (h.refl st) (Nat.zero_le _)
    · split
      · exact h.mono (h.refl st) (Nat.zero_le _)
      · exact collectSet_inv h chain ss st
  | .spread name dirs loc, st => by
    simp only [collectSel, inlSel]
    split
    · exact h.refl st
    · split
      · exact h.refl st
      · rename_i hv
        split
        · exact h.refl st
        · rename_i nm cond body hl
          have hv' : name.value ∉ st.visited := by
            intro hm
            exact hv (by simp [hm])
          have hs := h.spread st name.value (nm, cond, body) chain hv' hl
          split
          · rename_i ha
            exact hs.1 (by simpa using ha)
          · rename_i ha
            exact hs.2 (by simpa using ha)
theorem collectSet_inv {c : Ctx} {rec} {P} (h : StepInv c rec P) (chain : Chain) :
    ∀ (ss : SelectionSet) (st : St), P st (collectSet c rec chain ss st) (1 + inlSet ss)
  | .mk sels loc, st => by
    simp only [collectSet, inlSet]
    exact h.trans (h.enter st) (collectSels_inv h chain sels _)
theorem collectSels_inv {c : Ctx} {rec} {P} (h : StepInv c rec P) (chain : Chain) :
    ∀ (sels : List Selection) (st : St), P st (collectSels c rec chain sels st) (inlSels sels)
  | [], st => by simp only [collectSels, inlSels]; exact h.refl st
  | s :: rest, st => by
    simp only [collectSels, inlSels]
    exact h.trans (collectSel_inv h chain s st) (collectSels_inv h chain rest _)
end

/-! ## instance 1: the collect counter is bounded by the inline-fragment count plus the potential consumed -/

def Bounded (c : Ctx) (a b : St) (budget : Nat) : Prop :=
  b.collect + potential fragWeight c.frags b.visited ≤ a.collect + potential fragWeight c.frags a.visited + budget

theorem bounded_stepInv (c : Ctx) (rec : Chain → SelectionSet → St → St)
    (hrec : ∀ chain body st, Bounded c st (rec chain body st) (1 + inlSet body)) : StepInv c rec (Bounded c) where
  refl := fun st => by simp [Bounded]
  trans := fun h1 h2 => by simp only [Bounded] at *; omega
  mono := fun h1 h2 => by simp only [Bounded] at *; omega
  field := fun st fs => by simp [Bounded]
  enter := fun st => by simp only [Bounded]; omega
  spread := fun st n f chain hv hl => by
    have hp := potential_visit fragWeight c.frags st.visited n f hl hv
    constructor
    · intro _
      simp only [Bounded]; omega
    · intro _
      have := hrec (n :: chain) f.2.2 { st with visited := n :: st.visited, entered := n :: st.entered }
      simp only [Bounded, fragWeight] at *
      omega

theorem collectFuel_bounded (c : Ctx) : ∀ (n : Nat) (chain : Chain) (body : SelectionSet) (st : St),
    Bounded c st (collectFuel c n chain body st) (1 + inlSet body)
  | 0, chain, body, st => by simp [collectFuel, Bounded]
  | n + 1, chain, body, st => by
    simp only [collectFuel]
    exact collectSet_inv (bounded_stepInv c _ (collectFuel_bounded c n)) chain body st

theorem planMerged_bounded (c : Ctx) : ∀ (subs : List (SelectionSet × Chain)) (st : St),
    Bounded c st (planMerged c subs st) ((subs.map (fun ss => 1 + inlSet ss.1)).sum)
  | [], st => by simp [planMerged, Bounded]
  | (ss, chain) :: rest, st => by
    simp only [planMerged, List.map_cons, List.sum_cons]
    have h1 := collectFuel_bounded c (fuelFor c) chain ss st
    have h2 := planMerged_bounded c rest (collectTop c chain ss st)
    simp only [Bounded, collectTop] at *
    omega

/-- cost of collecting one selection set from a fresh state -/
theorem collectTop_collect_le (c : Ctx) (chain : Chain) (ss : SelectionSet) :
    (collectTop c chain ss {}).collect ≤ 1 + inlSet ss + fragsSize c.frags := by
  have h := collectFuel_bounded c (fuelFor c) chain ss {}
  simp only [Bounded, collectTop, fragsSize] at *
  have : ({} : St).collect = 0 := rfl
  have : ({} : St).visited = [] := rfl
  simp_all
  omega

/-- cost of one `planMergedSelectionsForType` call -/
theorem planMerged_collect_le (c : Ctx) (subs : List (SelectionSet × Chain)) :
    (planMerged c subs {}).collect ≤ levelSize c subs := by
  have h := planMerged_bounded c subs {}
  simp only [Bounded, levelSize, fragsSize] at *
  have : ({} : St).collect = 0 := rfl
  have : ({} : St).visited = [] := rfl
  simp_all
  omega

/-! ## instance 2: fuel -/

def mu (c : Ctx) (st : St) : Nat := potential (fun _ => 1) c.frags st.visited

def FuelRel (c : Ctx) (k : Nat) (a b : St) (_ : Nat) : Prop :=
  mu c b ≤ mu c a ∧ (mu c a ≤ k → b.oof = a.oof)

theorem fuel_stepInv (c : Ctx) (rec : Chain → SelectionSet → St → St) (k : Nat)
    (hrec : ∀ chain body st, mu c (rec chain body st) ≤ mu c st ∧ (mu c st + 1 ≤ k → (rec chain body st).oof = st.oof)) :
    StepInv c rec (FuelRel c k) where
  refl := fun st => by simp [FuelRel]
  trans := fun h1 h2 => by
    simp only [FuelRel] at *
    refine ⟨by omega, fun hk => ?_⟩
    rw [h2.2 (by omega), h1.2 hk]
  mono := fun h1 _ => h1
  field := fun st fs => by simp [FuelRel, mu]
  enter := fun st => by simp [FuelRel, mu]
  spread := fun st n f chain hv hl => by
    have hp := potential_visit (fun _ => 1) c.frags st.visited n f hl hv
    constructor
    · intro _
      refine ⟨?_, fun _ => rfl⟩
      simp only [mu]; omega
    · intro _
      have := hrec (n :: chain) f.2.2 { st with visited := n :: st.visited, entered := n :: st.entered }
      simp only [FuelRel, mu] at *
      refine ⟨by omega, fun hk => ?_⟩
      rw [this.2 (by omega)]

theorem collectFuel_fuel (c : Ctx) : ∀ (n : Nat) (chain : Chain) (body : SelectionSet) (st : St),
    mu c (collectFuel c n chain body st) ≤ mu c st ∧ (mu c st + 1 ≤ n → (collectFuel c n chain body st).oof = st.oof)
  | 0, chain, body, st => by simp [collectFuel, mu]
  | n + 1, chain, body, st => by
    simp only [collectFuel]
    have h := collectSet_inv (fuel_stepInv c _ n (collectFuel_fuel c n)) chain body st
    simp only [FuelRel] at h
    exact ⟨h.1, fun hk => h.2 (by omega)⟩

/-- with `fuelFor c` = number of fragment definitions + 1 the model never runs out of fuel, whatever the
fragment table looks like (cyclic, duplicated names, unknown names) and whatever was visited before -/
theorem collectTop_oof (c : Ctx) (chain : Chain) (ss : SelectionSet) (st : St) :
    (collectTop c chain ss st).oof = st.oof := by
  have h := (collectFuel_fuel c (fuelFor c) chain ss st).2
  apply h
  have := potential_le_total (fun _ => 1) c.frags st.visited
  rw [potential_one_nil] at this
  simp only [mu, fuelFor]
  omega

theorem planMerged_oof (c : Ctx) : ∀ (subs : List (SelectionSet × Chain)) (st : St), (planMerged c subs st).oof = st.oof
  | [], st => rfl
  | (ss, chain) :: rest, st => by
    simp only [planMerged]
    rw [planMerged_oof c rest, collectTop_oof]

/-! ## instance 3: each fragment body is entered at most once per visited set -/

def EntOK (st : St) : Prop := st.entered.Nodup ∧ ∀ x ∈ st.entered, x ∈ st.visited

def EntRel (a b : St) (_ : Nat) : Prop := EntOK a → EntOK b

theorem ent_stepInv (c : Ctx) (rec : Chain → SelectionSet → St → St)
    (hrec : ∀ chain body st, EntOK st → EntOK (rec chain body st)) : StepInv c rec EntRel where
  refl := fun st h => h
  trans := fun h1 h2 h => h2 (h1 h)
  mono := fun h1 _ => h1
  field := fun st fs h => h
  enter := fun st h => h
  spread := fun st n f chain hv hl => by
    have hnv : n ∉ st.visited := hv
    constructor
    · intro _ h
      exact ⟨h.1, fun x hx => List.mem_cons_of_mem _ (h.2 x hx)⟩
    · intro _ h
      apply hrec
      refine ⟨?_, ?_⟩
      · apply List.nodup_cons.2
        exact ⟨fun hm => hnv (h.2 n hm), h.1⟩
      · intro x hx
        rcases List.mem_cons.1 hx with rfl | hx
        · exact List.mem_cons_self ..
        · exact List.mem_cons_of_mem _ (h.2 x hx)

theorem collectFuel_ent (c : Ctx) : ∀ (n : Nat) (chain : Chain) (body : SelectionSet) (st : St),
    EntOK st → EntOK (collectFuel c n chain body st)
  | 0, chain, body, st => fun h => h
  | n + 1, chain, body, st => by
    simp only [collectFuel]
    exact collectSet_inv (ent_stepInv c _ (collectFuel_ent c n)) chain body st

theorem planMerged_ent (c : Ctx) : ∀ (subs : List (SelectionSet × Chain)) (st : St), EntOK st → EntOK (planMerged c subs st)
  | [], _ => fun h => h
  | (ss, chain) :: rest, st => fun h => planMerged_ent c rest _ (collectFuel_ent c _ chain ss st h)

/-! ## execution-time planning: invariants of the memo log -/

/-- what every log entry satisfies -/
def EntryOK (frags : List (String × String × SelectionSet)) (en : Entry) : Prop :=
  en.cost ≤ (en.subs.map (fun ss => 1 + inlSet ss.1)).sum + fragsSize frags ∧ en.oof = false

def LogOK (frags : List (String × String × SelectionSet)) (st : ESt) : Prop :=
  (st.log.map (·.id)).Nodup ∧ (∀ en ∈ st.log, EntryOK frags en) ∧ st.oof = false

theorem has_false_iff (st : ESt) (id : Path) : st.has id = false ↔ id ∉ st.log.map (·.id) := by
  simp only [ESt.has, List.mem_map, not_exists, not_and]
  constructor
  · intro h en hen heq
    have : st.log.any (fun e => e.id == id) = true := List.any_eq_true.2 ⟨en, hen, by simp [heq]⟩
    simp [this] at h
  · intro h
    cases hh : st.log.any (fun e => e.id == id) with
    | false => rfl
    | true =>
      obtain ⟨en, hen, heq⟩ := List.any_eq_true.1 hh
      exact absurd (by simpa using heq) (h en hen)

mutual
theorem execW_ok (e : Env) : ∀ (w : World) (fields : List FieldPlan) (path : Path) (st : ESt),
    LogOK e.frags st → LogOK e.frags (execW e fields path w st)
  | .node cs, fields, path, st => by
    simp only [execW]; exact execCs_ok e cs fields path st
theorem execCs_ok (e : Env) : ∀ (cs : Comps) (fields : List FieldPlan) (path : Path) (st : ESt),
    LogOK e.frags st → LogOK e.frags (execCs e fields path cs st)
  | .nil, fields, path, st => by simp only [execCs]; exact id
  | .cons k rt child rest, fields, path, st => by
    intro h
    simp only [execCs]
    apply execCs_ok e rest
    split
    · exact h
    · split
      · exact h
      · split
        · exact h
        · rename_i fp _ _ fd _ hadm
          apply execW_ok e child
          split
          · exact h
          · rename_i hhas
            have hhas' : st.has (path ++ [(k, rt)]) = false := by simpa using hhas
            have hnot := (has_false_iff st _).1 hhas'
            have hoof : (planMerged (e.ctx rt) fp.subs {}).oof = false := by
              rw [planMerged_oof]
            refine ⟨?_, ?_, ?_⟩
            · simp only [List.map_cons]
              exact List.nodup_cons.2 ⟨hnot, h.1⟩
            · intro en hen
              rcases List.mem_cons.1 hen with rfl | hen
              · refine ⟨?_, hoof⟩
                have := planMerged_collect_le (e.ctx rt) fp.subs
                simpa [levelSize, Env.ctx] using this
              · exact h.2.1 en hen
            · simp [h.2.2, hoof]
end

mutual
theorem execW_mem (e : Env) : ∀ (w : World) (fields : List FieldPlan) (path : Path) (st : ESt) (en : Entry),
    en ∈ (execW e fields path w st).log → en ∈ st.log ∨ en.id ∈ completedW e fields path w
  | .node cs, fields, path, st, en => by
    simp only [execW, completedW]; exact execCs_mem e cs fields path st en
theorem execCs_mem (e : Env) : ∀ (cs : Comps) (fields : List FieldPlan) (path : Path) (st : ESt) (en : Entry),
    en ∈ (execCs e fields path cs st).log → en ∈ st.log ∨ en.id ∈ completedCs e fields path cs
  | .nil, fields, path, st, en => by simp only [execCs]; exact Or.inl
  | .cons k rt child rest, fields, path, st, en => by
    intro h
    simp only [execCs] at h
    simp only [completedCs, List.mem_append]
    rcases execCs_mem e rest fields path _ en h with h1 | h1
    · -- entry produced by the head completion (or older)
      revert h1
      split
      · exact fun h1 => Or.inl h1
      · split
        · exact fun h1 => Or.inl h1
        · split
          · exact fun h1 => Or.inl h1
          · rename_i fp _ _ fd _ hadm
            intro h1
            rcases execW_mem e child _ _ _ en h1 with h2 | h2
            · revert h2
              split
              · exact fun h2 => Or.inl h2
              · intro h2
                rcases List.mem_cons.1 h2 with rfl | h2
                · exact Or.inr (Or.inl (List.mem_cons_self ..))
                · exact Or.inl h2
            · exact Or.inr (Or.inl (List.mem_cons_of_mem _ h2))
    · exact Or.inr (Or.inr h1)
end

mutual
theorem completedW_length (e : Env) : ∀ (w : World) (fields : List FieldPlan) (path : Path),
    (completedW e fields path w).length ≤ w.size
  | .node cs, fields, path => by simp only [completedW, World.size]; exact completedCs_length e cs fields path
theorem completedCs_length (e : Env) : ∀ (cs : Comps) (fields : List FieldPlan) (path : Path),
    (completedCs e fields path cs).length ≤ cs.size
  | .nil, fields, path => by simp [completedCs, Comps.size]
  | .cons k rt child rest, fields, path => by
    simp only [completedCs, Comps.size, List.length_append]
    have h2 := completedCs_length e rest fields path
    split
    · simp; omega
    · split
      · simp; omega
      · split
        · simp; omega
        · have h1 := completedW_length e child
            (planMerged (e.ctx rt) (by rename_i fp _ _ _ _ _; exact fp.subs) {}).fields (path ++ [(k, rt)])
          simp only [List.length_cons]
          omega
end

end GqlModel.Cost

/-! ## adding object types (implementers, union-free) does not change what a parent type sees -/
namespace GqlModel.Cost

def extend (s : Schema) (extra : List TypeDef) : Schema := { s with types := s.types ++ extra }

def isObjectDef : TypeDef → Bool
  | .object .. => true
  | _ => false

theorem find_extend (s : Schema) (extra : List TypeDef) (n : String) :
    (extend s extra).find? n = (s.find? n).or (extra.find? (fun t => t.name == n)) := by
  simp [extend, Schema.find?, List.find?_append]

theorem extra_find_object (extra : List TypeDef) (hobj : ∀ t ∈ extra, isObjectDef t = true) (n : String) (t : TypeDef)
    (h : extra.find? (fun t => t.name == n) = some t) : isObjectDef t = true ∧ t.name = n := by
  refine ⟨hobj t (List.mem_of_find?_eq_some h), ?_⟩
  have := List.find?_some h
  simpa using this

theorem isAbstract_extend (s : Schema) (extra : List TypeDef) (hobj : ∀ t ∈ extra, isObjectDef t = true) (c : String) :
    (extend s extra).isAbstract c = s.isAbstract c := by
  simp only [Schema.isAbstract, Schema.isInterface, Schema.isUnion, find_extend]
  cases h : s.find? c with
  | some t => simp
  | none =>
    simp only [Option.none_or]
    cases h2 : extra.find? (fun t => t.name == c) with
    | none => rfl
    | some t =>
      have := (extra_find_object extra hobj c t h2).1
      cases t <;> simp_all [isObjectDef]

theorem not_mem_filterMap_extra (F : TypeDef → Option String) (hF : ∀ t n, F t = some n → t.name = n)
    (extra : List TypeDef) (r : String) (hr : ∀ t ∈ extra, t.name ≠ r) : r ∉ extra.filterMap F := by
  intro hm
  obtain ⟨t, ht, heq⟩ := List.mem_filterMap.1 hm
  exact hr t ht (hF t r heq)

theorem applies_extend (s : Schema) (extra : List TypeDef) (hobj : ∀ t ∈ extra, isObjectDef t = true)
    (r : String) (hr : ∀ t ∈ extra, t.name ≠ r) (cond : Option String) :
    (extend s extra).typeConditionApplies cond r = s.typeConditionApplies cond r := by
  cases cond with
  | none => rfl
  | some c =>
    simp only [Schema.typeConditionApplies, isAbstract_extend s extra hobj]
    congr 1
    cases hab : s.isAbstract c with
    | false => simp
    | true =>
      simp only [Bool.true_and]
      -- `c` is defined in `s` (it is abstract there), so both schemas find the same definition
      have hsome : ∃ t, s.find? c = some t := by
        cases h : s.find? c with
        | some t => exact ⟨t, rfl⟩
        | none => simp [Schema.isAbstract, Schema.isInterface, Schema.isUnion, h] at hab
      obtain ⟨t, ht⟩ := hsome
      have ht' : (extend s extra).find? c = some t := by rw [find_extend, ht]; rfl
      simp only [Schema.isPossibleType, Schema.possibleTypes, ht, ht']
      cases t with
      | interface n fs b d =>
        simp only [extend, List.filterMap_append, List.contains_append]
        suffices h : ∀ F : TypeDef → Option String, (∀ t n, F t = some n → t.name = n) →
            ((s.types.filterMap F).contains r || (extra.filterMap F).contains r) = (s.types.filterMap F).contains r from
          h _ (by
            intro t n h
            cases t <;> simp only [reduceCtorEq] at h
            split at h
            · simpa [TypeDef.name] using h
            · simp at h)
        intro F hF
        have h2 : (extra.filterMap F).contains r = false := by
          simpa using not_mem_filterMap_extra F hF extra r hr
        rw [h2]; simp
      | _ => rfl

theorem objectFields_extend (s : Schema) (extra : List TypeDef) (r : String) (hr : ∀ t ∈ extra, t.name ≠ r) :
    (extend s extra).objectFields r = s.objectFields r := by
  simp only [Schema.objectFields, find_extend]
  cases h : s.find? r with
  | some t => simp
  | none =>
    simp only [Option.none_or]
    cases h2 : extra.find? (fun t => t.name == r) with
    | none => rfl
    | some t =>
      have hm := List.mem_of_find?_eq_some h2
      have hn := List.find?_some h2
      exact absurd (by simpa using hn) (hr t hm)

theorem ctx_extend (s : Schema) (extra : List TypeDef) (hobj : ∀ t ∈ extra, isObjectDef t = true)
    (r : String) (hr : ∀ t ∈ extra, t.name ≠ r) (frags) (pv) :
    (Env.ctx ⟨extend s extra, frags, pv⟩ r) = (Env.ctx ⟨s, frags, pv⟩ r) := by
  simp only [Env.ctx]
  congr 1
  · funext cond; exact applies_extend s extra hobj r hr cond
  · funext fname
    simp only [getFieldDef, objectFields_extend s extra r hr]
    rfl

theorem selectOp_extend (s : Schema) (extra : List TypeDef) (doc : Document) (opName : String) :
    selectOp (extend s extra) doc opName = selectOp s doc opName := by
  simp only [selectOp]
  rfl

end GqlModel.Cost
