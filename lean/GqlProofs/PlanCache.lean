import GqlModel.PlanCache
/-! Helper lemmas for C06: decimal rendering, the split-at-colon lemma, list lemmas for `findKey` /
`removeKey` / `evictLoop`, the two invariants (`Inv`: bounded + distinct keys, `InvT`: every entry is what
building from scratch gives) and their preservation by `lookup`, `store`, `reset`. Core Lean only. -/
set_option linter.unusedSectionVars false
namespace GqlModel.PlanCache

/-! ## decimal -/

theorem digit_ne_colon (d : Nat) : digit d ≠ 58 := by
  unfold digit; split <;> decide

theorem digit_inj_fin : ∀ a b : Fin 10, digit a.val = digit b.val → a = b := by decide

theorem digit_inj {a b : Nat} (ha : a < 10) (hb : b < 10) (h : digit a = digit b) : a = b := by
  have := digit_inj_fin ⟨a, ha⟩ ⟨b, hb⟩ h
  exact congrArg Fin.val this

theorem decAux_fuel : ∀ (f f' n : Nat), n < f → n < f' → decAux f n = decAux f' n := by
  intro f
  induction f with
  | zero => intro f' n h; omega
  | succ f ih =>
    intro f' n h h'
    cases f' with
    | zero => omega
    | succ f' =>
      simp only [decAux]
      split
      · rfl
      · rw [ih f' (n / 10) (by omega) (by omega)]

theorem dec_unfold (n : Nat) : dec n = if n < 10 then [digit n] else dec (n / 10) ++ [digit (n % 10)] := by
  have hd : ∀ m, dec m = decAux (m + 1) m := fun _ => rfl
  rw [hd n]
  simp only [decAux]
  split
  · rfl
  · rw [decAux_fuel n (n / 10 + 1) (n / 10) (by omega) (by omega), hd (n / 10)]

theorem dec_ne_nil (n : Nat) : dec n ≠ [] := by
  rw [dec_unfold]; split <;> simp

theorem dec_no_colon : ∀ (n : Nat), ∀ b ∈ dec n, b ≠ 58 := by
  intro n
  induction n using Nat.strongRecOn with
  | _ n ih =>
    intro b hb
    rw [dec_unfold] at hb
    split at hb
    · simp only [List.mem_singleton] at hb; subst hb; exact digit_ne_colon n
    · rcases List.mem_append.mp hb with hb | hb
      · exact ih (n / 10) (by omega) b hb
      · simp only [List.mem_singleton] at hb; subst hb; exact digit_ne_colon _

theorem dec_injective : ∀ (n m : Nat), dec n = dec m → n = m := by
  intro n
  induction n using Nat.strongRecOn with
  | _ n ih =>
    intro m h
    rw [dec_unfold n, dec_unfold m] at h
    by_cases hn : n < 10 <;> by_cases hm : m < 10 <;> simp only [hn, hm, if_true, if_false] at h
    · exact digit_inj hn hm (by simpa using h)
    · exfalso
      have hl := congrArg List.length h
      have := List.length_pos_iff.mpr (dec_ne_nil (m / 10))
      simp only [List.length_append, List.length_cons, List.length_nil] at hl; omega
    · exfalso
      have hl := congrArg List.length h
      have := List.length_pos_iff.mpr (dec_ne_nil (n / 10))
      simp only [List.length_append, List.length_cons, List.length_nil] at hl; omega
    · have h2 := List.append_inj' h rfl
      have h3 := ih (n / 10) (by omega) (m / 10) h2.1
      have h4 : n % 10 = m % 10 := digit_inj (Nat.mod_lt _ (by omega)) (Nat.mod_lt _ (by omega)) (by simpa using h2.2)
      omega

/-- a prefix without `:` followed by `:` splits uniquely -/
theorem split_at_colon : ∀ (a a' r r' : Bytes), (∀ b ∈ a, b ≠ 58) → (∀ b ∈ a', b ≠ 58) →
    a ++ 58 :: r = a' ++ 58 :: r' → a = a' ∧ r = r' := by
  intro a
  induction a with
  | nil =>
    intro a' r r' _ h' h
    cases a' with
    | nil => simpa using h
    | cons x xs =>
      simp only [List.nil_append, List.cons_append, List.cons.injEq] at h
      exact absurd h.1.symm (h' x (by simp))
  | cons y ys ih =>
    intro a' r r' h0 h' h
    cases a' with
    | nil =>
      simp only [List.nil_append, List.cons_append, List.cons.injEq] at h
      exact absurd h.1 (h0 y (by simp))
    | cons x xs =>
      simp only [List.cons_append, List.cons.injEq] at h
      obtain ⟨h1, h2⟩ := ih xs r r' (fun b hb => h0 b (by simp [hb])) (fun b hb => h' b (by simp [hb])) h.2
      exact ⟨by rw [h.1, h1], h2⟩

/-- the same for any separator byte -/
theorem split_at_sep (sep : UInt8) : ∀ (a a' r r' : Bytes), (∀ b ∈ a, b ≠ sep) → (∀ b ∈ a', b ≠ sep) →
    a ++ sep :: r = a' ++ sep :: r' → a = a' ∧ r = r' := by
  intro a
  induction a with
  | nil =>
    intro a' r r' _ h' h
    cases a' with
    | nil => simpa using h
    | cons x xs =>
      simp only [List.nil_append, List.cons_append, List.cons.injEq] at h
      exact absurd h.1.symm (h' x (by simp))
  | cons y ys ih =>
    intro a' r r' h0 h' h
    cases a' with
    | nil =>
      simp only [List.nil_append, List.cons_append, List.cons.injEq] at h
      exact absurd h.1 (h0 y (by simp))
    | cons x xs =>
      simp only [List.cons_append, List.cons.injEq] at h
      obtain ⟨h1, h2⟩ := ih xs r r' (fun b hb => h0 b (by simp [hb])) (fun b hb => h' b (by simp [hb])) h.2
      exact ⟨by rw [h.1, h1], h2⟩

/-- `operationName + "\x00" + key` splits uniquely at its LAST NUL when the keys contain none -/
theorem nulJoin_inj (op k op' k' : Bytes) (hk : ∀ b ∈ k, b ≠ 0) (hk' : ∀ b ∈ k', b ≠ 0)
    (h : nulJoin op k = nulJoin op' k') : op = op' ∧ k = k' := by
  unfold nulJoin at h
  have hr := congrArg List.reverse h
  simp only [List.reverse_append, List.reverse_cons, List.append_assoc, List.singleton_append] at hr
  obtain ⟨h1, h2⟩ := split_at_sep 0 k.reverse k'.reverse op.reverse op'.reverse
    (fun b hb => hk b (List.mem_reverse.mp hb)) (fun b hb => hk' b (List.mem_reverse.mp hb)) hr
  exact ⟨List.reverse_inj.mp h2, List.reverse_inj.mp h1⟩

/-- the raw key determines operation name and query (stated as the property theorem `rawKey_injective`) -/
theorem rawKey_inj (op q op' q' : Bytes) (h : rawKey op q = rawKey op' q') : op = op' ∧ q = q' := by
  unfold rawKey at h
  obtain ⟨h1, h2⟩ := split_at_colon _ _ _ _ (dec_no_colon _) (dec_no_colon _) h
  have hlen : op.length = op'.length := dec_injective _ _ h1
  exact List.append_inj h2 hlen

variable {S R A : Type} [DecidableEq S]

/-! ## findKey / removeKey / evictLoop -/

theorem findKey_some {k : Bytes} {l : List (Entry S R)} {e : Entry S R} (h : findKey k l = some e) :
    e ∈ l ∧ e.key = k := by
  induction l with
  | nil => simp [findKey] at h
  | cons x xs ih =>
    simp only [findKey] at h
    split at h
    · cases h; exact ⟨by simp, by assumption⟩
    · exact ⟨by simp [(ih h).1], (ih h).2⟩

theorem findKey_none {k : Bytes} {l : List (Entry S R)} (h : findKey k l = none) : k ∉ l.map (·.key) := by
  induction l with
  | nil => simp
  | cons x xs ih =>
    simp only [findKey] at h
    split at h
    · cases h
    · simp only [List.map_cons, List.mem_cons, not_or]
      exact ⟨fun hk => by simp_all, ih h⟩

theorem findKey_isSome_of_mem {k : Bytes} {l : List (Entry S R)} (h : k ∈ l.map (·.key)) :
    (findKey k l).isSome := by
  cases hf : findKey k l with
  | none => exact absurd h (findKey_none hf)
  | some _ => rfl

theorem mem_removeKey {k : Bytes} {l : List (Entry S R)} {x : Entry S R} (h : x ∈ removeKey k l) : x ∈ l := by
  induction l with
  | nil => simp [removeKey] at h
  | cons y ys ih =>
    simp only [removeKey] at h
    split at h
    · simp [h]
    · rcases List.mem_cons.mp h with rfl | h
      · simp
      · simp [ih h]

theorem removeKey_length {k : Bytes} {l : List (Entry S R)} {e : Entry S R} (h : findKey k l = some e) :
    (removeKey k l).length + 1 = l.length := by
  induction l with
  | nil => simp [findKey] at h
  | cons y ys ih =>
    simp only [findKey] at h
    simp only [removeKey]
    split at h
    · simp_all
    · rename_i hne
      simp only [hne, if_false, List.length_cons]
      rw [ih h]

theorem removeKey_keys_sublist (k : Bytes) (l : List (Entry S R)) :
    ((removeKey k l).map (·.key)).Sublist (l.map (·.key)) := by
  induction l with
  | nil => simp [removeKey]
  | cons y ys ih =>
    simp only [removeKey]
    split
    · simp
    · simpa using ih

theorem removeKey_not_mem {k : Bytes} {l : List (Entry S R)} (hn : (l.map (·.key)).Nodup) :
    k ∉ (removeKey k l).map (·.key) := by
  induction l with
  | nil => simp [removeKey]
  | cons y ys ih =>
    simp only [List.map_cons, List.nodup_cons] at hn
    simp only [removeKey]
    split
    · rename_i hk; rw [← hk]; exact hn.1
    · rename_i hk
      simp only [List.map_cons, List.mem_cons, not_or]
      exact ⟨fun h => hk h.symm, ih hn.2⟩

theorem mem_evictLoop {cap f : Nat} {l : List (Entry S R)} {x : Entry S R} (h : x ∈ evictLoop cap f l) : x ∈ l := by
  induction f generalizing l with
  | zero => simpa [evictLoop] using h
  | succ f ih =>
    simp only [evictLoop] at h
    split at h
    · split at h
      · exact h
      · exact List.dropLast_subset _ (ih h)
    · exact h

/-- with enough fuel the eviction loop keeps exactly the `cap` most recently used entries -/
theorem evictLoop_eq_take (cap : Nat) : ∀ (f : Nat) (l : List (Entry S R)), l.length ≤ cap + f →
    evictLoop cap f l = l.take cap := by
  intro f
  induction f with
  | zero => intro l h; simp only [evictLoop]; rw [List.take_of_length_le (by omega)]
  | succ f ih =>
    intro l h
    simp only [evictLoop]
    split
    · rename_i hgt
      cases hl : l.getLast? with
      | none =>
        have : l = [] := by simpa using hl
        subst this; simp at hgt
      | some _ =>
        simp only []
        rw [ih l.dropLast (by simp; omega), List.dropLast_eq_take, List.take_take]
        congr 1; omega
    · rw [List.take_of_length_le (by omega)]

/-! ## Invariants -/

/-- bounded, and the key list has no duplicates (map and list of the Go code in bijection) -/
def Inv (c : Cache S R) : Prop := c.items.length ≤ c.cap ∧ (keysOf c).Nodup

theorem lookup_cfg (c : Cache S R) (s : S) (k : Bytes) :
    (lookup c s k).1.cap = c.cap ∧ (lookup c s k).1.maxBytes = c.maxBytes ∧ (lookup c s k).1.normalize = c.normalize := by
  unfold lookup; split
  · simp
  · split <;> simp

theorem store_cfg (c : Cache S R) (s : S) (k : Bytes) (r : R) :
    (store c s k r).cap = c.cap ∧ (store c s k r).maxBytes = c.maxBytes ∧ (store c s k r).normalize = c.normalize ∧
    (store c s k r).hits = c.hits ∧ (store c s k r).misses = c.misses := by
  unfold store; split <;> simp

theorem lookup_inv (c : Cache S R) (s : S) (k : Bytes) (h : Inv c) : Inv (lookup c s k).1 := by
  unfold lookup
  cases hf : findKey k c.items with
  | none => exact h
  | some e =>
    have hlen := removeKey_length hf
    have hsub := removeKey_keys_sublist k c.items
    have hnd : ((removeKey k c.items).map (·.key)).Nodup := List.Nodup.sublist hsub h.2
    have hk := (findKey_some hf).2
    simp only []
    split
    · exact ⟨by show (removeKey k c.items).length ≤ c.cap; have := h.1; omega, hnd⟩
    · refine ⟨by show (e :: removeKey k c.items).length ≤ c.cap; have := h.1; simp only [List.length_cons]; omega, ?_⟩
      show ((e :: removeKey k c.items).map (·.key)).Nodup
      simp only [List.map_cons, List.nodup_cons]
      exact ⟨by rw [hk]; exact removeKey_not_mem h.2, hnd⟩

theorem store_inv (c : Cache S R) (s : S) (k : Bytes) (r : R) (h : Inv c) : Inv (store c s k r) := by
  unfold store
  cases hf : findKey k c.items with
  | some e =>
    have hlen := removeKey_length hf
    have hnd : ((removeKey k c.items).map (·.key)).Nodup := List.Nodup.sublist (removeKey_keys_sublist k c.items) h.2
    refine ⟨by show (_ :: removeKey k c.items).length ≤ c.cap; have := h.1; simp only [List.length_cons]; omega, ?_⟩
    show ((_ :: removeKey k c.items).map (·.key)).Nodup
    simp only [List.map_cons, List.nodup_cons]
    exact ⟨removeKey_not_mem h.2, hnd⟩
  | none =>
    simp only []
    rw [evictLoop_eq_take c.cap _ _ (by simp only [List.length_cons]; omega)]
    refine ⟨by show (List.take _ _).length ≤ c.cap; simp only [List.length_take]; omega, ?_⟩
    show ((List.take c.cap (_ :: c.items)).map (·.key)).Nodup
    rw [List.map_take]
    apply List.Nodup.sublist (List.take_sublist _ _)
    simp only [List.map_cons, List.nodup_cons]
    exact ⟨findKey_none hf, h.2⟩

theorem reset_inv (c : Cache S R) : Inv (reset c) := ⟨by simp [reset], by simp [reset, keysOf]⟩

/-- every entry holds what building from scratch gives for the request its key encodes -/
def InvT (keyOf : Bytes → Bytes → Bytes) (build : S → Bytes → Bytes → R) (c : Cache S R) : Prop :=
  ∀ e ∈ c.items, ∃ q op, e.key = keyOf op q ∧ e.res = build e.schema q op

theorem lookup_invT {keyOf : Bytes → Bytes → Bytes} {build : S → Bytes → Bytes → R}
    (hinj : ∀ op q op' q', keyOf op q = keyOf op' q' → op = op' ∧ q = q')
    (c : Cache S R) (s : S) (q op : Bytes) (h : InvT keyOf build c) :
    InvT keyOf build (lookup c s (keyOf op q)).1 ∧ ∀ r, (lookup c s (keyOf op q)).2 = some r → r = build s q op := by
  unfold lookup
  cases hf : findKey (keyOf op q) c.items with
  | none => exact ⟨h, by simp⟩
  | some e =>
    obtain ⟨hm, hk⟩ := findKey_some hf
    have hsub : ∀ x ∈ removeKey (keyOf op q) c.items, ∃ q op, x.key = keyOf op q ∧ x.res = build x.schema q op :=
      fun x hx => h x (mem_removeKey hx)
    simp only []
    split
    · exact ⟨hsub, by simp⟩
    · rename_i hs
      have hs : e.schema = s := by simpa using hs
      refine ⟨?_, ?_⟩
      · intro x hx
        rcases List.mem_cons.mp hx with rfl | hx
        · exact h _ hm
        · exact hsub x hx
      · intro r hr
        obtain ⟨q0, op0, hk0, hr0⟩ := h e hm
        obtain ⟨h1, h2⟩ := hinj op0 q0 op q (by rw [← hk0, hk])
        have : e.res = r := by simpa using hr
        rw [← this, hr0, hs, h1, h2]

theorem store_invT {keyOf : Bytes → Bytes → Bytes} {build : S → Bytes → Bytes → R}
    (c : Cache S R) (s : S) (q op : Bytes) (h : InvT keyOf build c) :
    InvT keyOf build (store c s (keyOf op q) (build s q op)) := by
  unfold store
  split
  · intro x hx
    rcases List.mem_cons.mp hx with rfl | hx
    · exact ⟨q, op, rfl, rfl⟩
    · exact h x (mem_removeKey hx)
  · intro x hx
    rcases List.mem_cons.mp (mem_evictLoop hx) with rfl | hx
    · exact ⟨q, op, rfl, rfl⟩
    · exact h x hx

/-! ## Reachability, step lemmas (moved here so that Props/C06.lean holds property theorems only) -/

/-- States reachable from `NewPlanCache(o)` by any interleaving of the three state-changing primitives with
any arguments.  Every `Get` (raw or normalising) and `Reset` is a composition of these. -/
inductive Reach (o : Opts) : Cache S R → Prop where
  | new : Reach o (newPlanCache o)
  | lookup {c} (s : S) (k : Bytes) : Reach o c → Reach o (lookup c s k).1
  | store {c} (s : S) (k : Bytes) (r : R) : Reach o c → Reach o (store c s k r)
  | reset {c} : Reach o c → Reach o (reset c)

/-- the capacity `NewPlanCache` configures: the default 1024 when `MaxEntries ≤ 0` -/
def capOf (o : Opts) : Nat := if o.maxEntries ≤ 0 then 1024 else o.maxEntries.toNat

theorem capOf_pos (o : Opts) : 1 ≤ capOf o := by
  unfold capOf; split <;> omega

theorem reach_inv {o : Opts} {c : Cache S R} (h : Reach o c) : Inv c ∧ c.cap = capOf o ∧
    c.maxBytes = (newPlanCache o : Cache S R).maxBytes := by
  induction h with
  | new => exact ⟨⟨by simp [newPlanCache], by simp [newPlanCache, keysOf]⟩, rfl, rfl⟩
  | @lookup c0 s k _ ih =>
    have := lookup_cfg c0 s k
    exact ⟨lookup_inv _ s k ih.1, by rw [this.1, ih.2.1], by rw [this.2.1, ih.2.2]⟩
  | @store c0 s k r _ ih =>
    have := store_cfg c0 s k r
    exact ⟨store_inv _ s k r ih.1, by rw [this.1, ih.2.1], by rw [this.2.1, ih.2.2]⟩
  | reset _ ih => exact ⟨reset_inv _, ih.2.1, ih.2.2⟩


theorem getRawWith_reach {o : Opts} (keyOf : Bytes → Bytes → Bytes) (build : S → Bytes → Bytes → R)
    {c : Cache S R} (s : S) (q op : Bytes) (h : Reach o c) : Reach o (getRawWith keyOf build c s q op).1 := by
  have hl := Reach.lookup s (keyOf op q) h
  rcases hlk : lookup c s (keyOf op q) with ⟨c', r⟩
  rw [hlk] at hl
  cases r with
  | some r => simpa only [getRawWith, hlk] using hl
  | none => simpa only [getRawWith, hlk] using Reach.store s (keyOf op q) (build s q op) hl

theorem getNorm_reach {o : Opts} (fb : KeyShape) (norm : S → Bytes → Bytes → NormOut A) (errRes buildN : S → Bytes → Bytes → R)
    (failed : R → Bool) {c : Cache S R} (s : S) (q op : Bytes) (h : Reach o c) :
    Reach o (getNorm fb norm errRes buildN failed c s q op).1 := by
  unfold getNorm
  cases norm s q op with
  | parseErr => exact h
  | normErr => exact h
  | ok nk sy =>
    have hl := Reach.lookup s (normCacheKey fb op q nk) h
    rcases hlk : lookup c s (normCacheKey fb op q nk) with ⟨c', r⟩
    rw [hlk] at hl
    cases r with
    | some r => simpa only [hlk] using hl
    | none => simpa only [hlk] using Reach.store s (normCacheKey fb op q nk) (buildN s q op) hl


theorem getRawWith_spec {keyOf : Bytes → Bytes → Bytes} {build : S → Bytes → Bytes → R}
    (hinj : ∀ op q op' q', keyOf op q = keyOf op' q' → op = op' ∧ q = q')
    (c : Cache S R) (s : S) (q op : Bytes) (h : InvT keyOf build c) :
    (getRawWith keyOf build c s q op).2.1 = build s q op ∧ InvT keyOf build (getRawWith keyOf build c s q op).1 := by
  have hl := lookup_invT hinj c s q op h
  rcases hlk : lookup c s (keyOf op q) with ⟨c', r⟩
  rw [hlk] at hl
  cases r with
  | some r => simp only [getRawWith, hlk]; exact ⟨hl.2 r rfl, hl.1⟩
  | none => simp only [getRawWith, hlk]; exact ⟨by first | rfl | trivial, store_invT c' s q op hl.1⟩


/-- honest entries, lifted to a possibly nil cache -/
def InvTO (build : S → Bytes → Bytes → R) : Option (Cache S R) → Prop
  | none => True
  | some c => InvT rawKey build c

theorem get_spec (build : S → Bytes → Bytes → R) (c : Option (Cache S R)) (s : S) (q op : Bytes)
    (h : InvTO build c) : (get build c s q op).2.1 = build s q op ∧ InvTO build (get build c s q op).1 := by
  cases c with
  | none => exact ⟨rfl, trivial⟩
  | some c =>
    simp only [get]
    split
    · exact ⟨rfl, h⟩
    · exact getRawWith_spec rawKey_inj c s q op h


theorem lookup_counters (c : Cache S R) (s : S) (k : Bytes) :
    (∀ r, (lookup c s k).2 = some r → (lookup c s k).1.hits = c.hits + 1 ∧ (lookup c s k).1.misses = c.misses) ∧
    ((lookup c s k).2 = none → (lookup c s k).1.hits = c.hits ∧ (lookup c s k).1.misses = c.misses + 1) := by
  unfold lookup
  split
  · simp
  · split <;> simp

/-- one `Get` on a non-nil cache: bypass iff over-size; otherwise exactly one of the counters moves, by one,
matching the outcome -/
theorem get_counters (build : S → Bytes → Bytes → R) (c : Cache S R) (s : S) (q op : Bytes) :
    ∃ c', (get build (some c) s q op).1 = some c' ∧ c'.maxBytes = c.maxBytes ∧
      ((shouldCache c q.length = false ∧ (get build (some c) s q op).2.2 = .bypass ∧ c' = c) ∨
       (shouldCache c q.length = true ∧ (get build (some c) s q op).2.2 = .hit ∧ c'.hits = c.hits + 1 ∧ c'.misses = c.misses) ∨
       (shouldCache c q.length = true ∧ (get build (some c) s q op).2.2 = .miss ∧ c'.hits = c.hits ∧ c'.misses = c.misses + 1)) := by
  cases hsc : shouldCache c q.length with
  | false =>
    have hg : get build (some c) s q op = (some c, build s q op, .bypass) := by simp [get, hsc]
    rw [hg]; exact ⟨c, rfl, rfl, Or.inl ⟨rfl, rfl, rfl⟩⟩
  | true =>
    have hg : get build (some c) s q op = (some (getRawWith rawKey build c s q op).1,
        (getRawWith rawKey build c s q op).2.1, (getRawWith rawKey build c s q op).2.2) := by simp [get, hsc]
    rw [hg]
    have hc := lookup_counters c s (rawKey op q)
    have hcfg := lookup_cfg c s (rawKey op q)
    rcases hlk : lookup c s (rawKey op q) with ⟨c', r⟩
    rw [hlk] at hc hcfg
    cases r with
    | some r =>
      simp only [getRawWith, hlk]
      exact ⟨c', rfl, hcfg.2.1, Or.inr (Or.inl ⟨by first | rfl | trivial, by first | rfl | trivial, hc.1 r rfl⟩)⟩
    | none =>
      simp only [getRawWith, hlk]
      have hst := store_cfg c' s (rawKey op q) (build s q op)
      refine ⟨_, rfl, by rw [hst.2.1, hcfg.2.1], Or.inr (Or.inr ⟨by first | rfl | trivial, by first | rfl | trivial, ?_, ?_⟩)⟩
      · rw [hst.2.2.2.1]; exact (hc.2 rfl).1
      · rw [hst.2.2.2.2]; exact (hc.2 rfl).2

theorem shouldCache_congr {c c' : Cache S R} (h : c'.maxBytes = c.maxBytes) (n : Nat) :
    shouldCache c' n = shouldCache c n := by simp [shouldCache, h]


theorem mem_keys_store {c : Cache S R} {s : S} {k k' : Bytes} {r : R} (h : k' ∈ keysOf (store c s k r)) :
    k' = k ∨ k' ∈ keysOf c := by
  unfold keysOf at h ⊢
  obtain ⟨e, he, hk⟩ := List.mem_map.mp h
  unfold store at he
  split at he
  · rcases List.mem_cons.mp he with rfl | he
    · exact Or.inl hk.symm
    · exact Or.inr (List.mem_map.mpr ⟨e, mem_removeKey he, hk⟩)
  · rcases List.mem_cons.mp (mem_evictLoop he) with rfl | he
    · exact Or.inl hk.symm
    · exact Or.inr (List.mem_map.mpr ⟨e, he, hk⟩)

theorem mem_keys_lookup {c : Cache S R} {s : S} {k k' : Bytes} (h : k' ∈ keysOf (lookup c s k).1) : k' ∈ keysOf c := by
  unfold keysOf at h ⊢
  obtain ⟨e, he, hk⟩ := List.mem_map.mp h
  unfold lookup at he
  split at he
  · exact List.mem_map.mpr ⟨e, he, hk⟩
  · rename_i e0 hf
    split at he
    · exact List.mem_map.mpr ⟨e, mem_removeKey he, hk⟩
    · rcases List.mem_cons.mp he with rfl | he
      · exact List.mem_map.mpr ⟨e, (findKey_some hf).1, hk⟩
      · exact List.mem_map.mpr ⟨e, mem_removeKey he, hk⟩


/-- entries of the normalising cache are honest w.r.t. `buildN` -/
def InvN (fb : KeyShape) (norm : S → Bytes → Bytes → NormOut A) (buildN : S → Bytes → Bytes → R) (c : Cache S R) : Prop :=
  ∀ e ∈ c.items, ∃ q op nk sy, norm e.schema q op = .ok nk sy ∧ e.key = normCacheKey fb op q nk ∧ e.res = buildN e.schema q op


/-! ## the normalising cache up to an equivalence of results (used with "documents equal up to source locations") -/

/-- every entry is `E`-equivalent to what its key's request builds -/
def InvE (fb : KeyShape) (E : R → R → Prop) (norm : S → Bytes → Bytes → NormOut A) (buildN : S → Bytes → Bytes → R) (c : Cache S R) : Prop :=
  ∀ e ∈ c.items, ∃ q op nk sy, norm e.schema q op = .ok nk sy ∧ e.key = normCacheKey fb op q nk ∧ E e.res (buildN e.schema q op)

/-- **the assumption on the cache key**, as a named predicate: two requests to one schema that get the same cache key
build `E`-equivalent results. For the key as coded (hex of the 64-bit FNV-1a hash of the structural fingerprint, and
`"raw:" + FNV(query)` when normalisation is not applicable) this is NOT provable — it fails on constructed collisions
(D-06k) — and is assumed; for a key that is the printed normalised document it follows from C08's `parse_print`. -/
def KeyFaithful (fb : KeyShape) (E : R → R → Prop) (norm : S → Bytes → Bytes → NormOut A) (buildN : S → Bytes → Bytes → R) : Prop :=
  ∀ s q op q' op' nk sy nk' sy', norm s q op = .ok nk sy → norm s q' op' = .ok nk' sy' →
    normCacheKey fb op q nk = normCacheKey fb op' q' nk' → E (buildN s q op) (buildN s q' op')

/-- what a history's outputs must satisfy: every `Get` that went through the cache (hit or miss) returned a result
`E`-equivalent to what its own request builds -/
def OutsFaithful (fb : KeyShape) (E : R → R → Prop) (buildN : S → Bytes → Bytes → R) :
    List (Op S) → List (Option (NormResult R A × Outcome)) → Prop
  | [], [] => True
  | .get s q op :: ops, some (r, oc) :: outs =>
    ((oc = .hit ∨ oc = .miss) → E r.res (buildN s q op)) ∧ OutsFaithful fb E buildN ops outs
  | .reset :: ops, _ :: outs => OutsFaithful fb E buildN ops outs
  | .get _ _ _ :: ops, none :: outs => OutsFaithful fb E buildN ops outs
  | _, _ => False

end GqlModel.PlanCache
