import GqlModel.Introspection
/-! # Helper lemmas for C10 (introspection)

1. sorting by name commutes with maps that keep the name; description → rebuild is the normal form, piece by piece;
2. the depth-first type-map traversal `visit` (model of `typeMapReducer`): monotone, duplicate-free, closed under
   reference once the fuel exceeds the number of names not yet seen, and sound for reachability;
3. possible types: one entry per implementing object when interface lists are duplicate-free. -/
namespace GqlModel.Introspection
open GqlModel

/-! ## 1. rebuild ∘ describe = normalise, piecewise -/

theorem insertOn_map {α β : Type} (k : α → String) (k' : β → String) (g : α → β) (h : ∀ x, k' (g x) = k x)
    (x : α) (ys : List α) : (insertOn k x ys).map g = insertOn k' (g x) (ys.map g) := by
  induction ys with
  | nil => rfl
  | cons y ys ih =>
    simp only [insertOn, List.map_cons, h]
    split <;> simp [ih]

theorem sortOn_map {α β : Type} (k : α → String) (k' : β → String) (g : α → β) (h : ∀ x, k' (g x) = k x)
    (l : List α) : (sortOn k l).map g = sortOn k' (l.map g) := by
  induction l with
  | nil => rfl
  | cons x xs ih =>
    simp only [sortOn, List.foldr_cons, List.map_cons] at *
    rw [insertOn_map k k' g h, ih]

theorem rebuildRef_describeRef (all : List TypeDef) (t : GType) : rebuildRef (describeRef all t) = t := by
  induction t with
  | named n => rfl
  | list t ih => simp [describeRef, rebuildRef, ih]
  | nonNull t ih => simp [describeRef, rebuildRef, ih]

theorem rebuildArg_argI (all : List TypeDef) (a : ArgDef) : rebuildArg (argI all a) = normArg all a := by
  simp [rebuildArg, argI, normArg, rebuildRef_describeRef]

theorem rebuildInput_inputI (all : List TypeDef) (f : InputFieldS) : rebuildInput (inputI all f) = normInput all f := by
  simp [rebuildInput, inputI, normInput, rebuildRef_describeRef]

theorem deprecationOf_reasonOf (d : String) : deprecationOf (d != "") (reasonOf d) = d := by
  unfold deprecationOf reasonOf
  by_cases h : d = "" <;> simp [h]

theorem rebuildField_fieldI (all : List TypeDef) (f : FieldDefS) : rebuildField (fieldI all f) = normField all f := by
  simp only [rebuildField, fieldI, normField, rebuildRef_describeRef, deprecationOf_reasonOf]
  rw [sortOn_map (·.name) (·.name) rebuildArg (fun _ => rfl), List.map_map]
  congr 2
  exact List.map_congr_left (fun a _ => rebuildArg_argI all a)

theorem rebuildEnumValue_enumValueI (ev : EnumValueS) : rebuildEnumValue (enumValueI ev) = normEnumValue ev := by
  simp [rebuildEnumValue, enumValueI, normEnumValue, deprecationOf_reasonOf]

theorem rebuildType_describeType (all defs : List TypeDef) (td : TypeDef) :
    rebuildType (describeType all defs td) = normType all td := by
  cases td with
  | scalar n k d => simp [describeType, rebuildType, normType]
  | object n ifaces fs ito d =>
    simp only [describeType, rebuildType, normType]
    simp only [show ("OBJECT" == "OBJECT") = true from by decide, if_true, Option.getD_some]
    rw [sortOn_map (·.name) (·.name) rebuildField (fun _ => rfl), List.map_map, List.map_map]
    congr 1
    · simp [Function.comp_def, describeRef, TRef.name]
    · congr 1
      exact List.map_congr_left (fun a _ => rebuildField_fieldI all a)
  | interface n fs rt d =>
    simp only [describeType, rebuildType, normType]
    simp only [show ("INTERFACE" == "OBJECT") = false from by decide, show ("INTERFACE" == "INTERFACE") = true from by decide,
      if_true, Option.getD_some, Bool.false_eq_true, if_false]
    rw [sortOn_map (·.name) (·.name) rebuildField (fun _ => rfl), List.map_map]
    congr 2
    exact List.map_congr_left (fun a _ => rebuildField_fieldI all a)
  | union n ms rt d =>
    simp only [describeType, rebuildType, normType]
    simp only [show ("UNION" == "OBJECT") = false from by decide, show ("UNION" == "INTERFACE") = false from by decide,
      show ("UNION" == "UNION") = true from by decide, if_true, Option.getD_some, Bool.false_eq_true, if_false]
    simp [Function.comp_def, describeRef, TRef.name]
  | enum n vals d =>
    simp only [describeType, rebuildType, normType]
    simp only [show ("ENUM" == "OBJECT") = false from by decide, show ("ENUM" == "INTERFACE") = false from by decide,
      show ("ENUM" == "UNION") = false from by decide, show ("ENUM" == "ENUM") = true from by decide,
      if_true, Option.getD_some, Bool.false_eq_true, if_false]
    rw [sortOn_map (·.name) (·.name) rebuildEnumValue (fun _ => rfl), List.map_map]
    congr 2
    exact List.map_congr_left (fun a _ => rebuildEnumValue_enumValueI a)
  | inputObject n fs d =>
    simp only [describeType, rebuildType, normType]
    simp only [show ("INPUT_OBJECT" == "OBJECT") = false from by decide, show ("INPUT_OBJECT" == "INTERFACE") = false from by decide,
      show ("INPUT_OBJECT" == "UNION") = false from by decide, show ("INPUT_OBJECT" == "ENUM") = false from by decide,
      show ("INPUT_OBJECT" == "INPUT_OBJECT") = true from by decide,
      if_true, Option.getD_some, Bool.false_eq_true, if_false]
    rw [sortOn_map (·.name) (·.name) rebuildInput (fun _ => rfl), List.map_map]
    congr 2
    exact List.map_congr_left (fun a _ => rebuildInput_inputI all a)

theorem rebuildDirective_directiveI (all : List TypeDef) (d : DirectiveDefS) :
    rebuildDirective (directiveI all d) = normDirective all d := by
  simp only [rebuildDirective, directiveI, normDirective]
  rw [sortOn_map (·.name) (·.name) rebuildArg (fun _ => rfl), List.map_map]
  congr 2
  exact List.map_congr_left (fun a _ => rebuildArg_argI all a)


/-! ## 2. the type map is the reachable closure -/

/-! closure -/

theorem filter_length_le {α : Type} (p q : α → Bool) (h : ∀ x, p x = true → q x = true) (l : List α) :
    (l.filter p).length ≤ (l.filter q).length := by
  induction l with
  | nil => simp
  | cons a l ih =>
    simp only [List.filter_cons]
    by_cases hp : p a = true
    · simp [hp, h a hp]; exact ih
    · by_cases hq : q a = true
      · simp [hp, hq]; omega
      · simp [hp, hq]; exact ih

theorem filter_length_lt {α : Type} (p q : α → Bool) (h : ∀ x, p x = true → q x = true) (l : List α)
    (a : α) (ha : a ∈ l) (hq : q a = true) (hp : p a = false) :
    (l.filter p).length < (l.filter q).length := by
  induction l with
  | nil => simp at ha
  | cons b l ih =>
    simp only [List.filter_cons]
    rcases List.mem_cons.mp ha with rfl | hmem
    · simp [hp, hq]
      have := filter_length_le p q h l
      omega
    · have := ih hmem
      by_cases hpb : p b = true
      · simp [hpb, h b hpb]; exact this
      · by_cases hqb : q b = true
        · simp [hpb, hqb]; omega
        · simp [hpb, hqb]; exact this

/-- number of declared names not yet in the map -/
def miss (all : List TypeDef) (seen : List String) : Nat :=
  ((all.map (·.name)).filter (fun u => !seen.contains u)).length

theorem miss_mono (all : List TypeDef) {seen seen' : List String} (h : ∀ x ∈ seen, x ∈ seen') :
    miss all seen' ≤ miss all seen := by
  apply filter_length_le
  intro x hx
  simp only [Bool.not_eq_eq_eq_not, Bool.not_true, List.contains_eq_mem, decide_eq_false_iff_not] at hx ⊢
  exact fun hm => hx (h x hm)

theorem findType_name {all : List TypeDef} {n : String} {td : TypeDef} (h : findType all n = some td) : td.name = n := by
  have := List.find?_some h
  simpa using this

theorem findType_mem {all : List TypeDef} {n : String} {td : TypeDef} (h : findType all n = some td) :
    n ∈ all.map (·.name) := by
  have hm := List.mem_of_find?_eq_some h
  have := findType_name h
  exact List.mem_map.mpr ⟨td, hm, this⟩

theorem miss_lt (all : List TypeDef) {seen : List String} {n : String} {td : TypeDef}
    (h : findType all n = some td) (hn : n ∉ seen) : miss all (n :: seen) < miss all seen := by
  apply filter_length_lt _ _ _ _ n (findType_mem h)
  · simpa using hn
  · simp
  · intro x hx
    simp only [Bool.not_eq_eq_eq_not, Bool.not_true, List.contains_eq_mem, decide_eq_false_iff_not, List.mem_cons, not_or] at hx ⊢
    exact hx.2

theorem visit_mono (all : List TypeDef) : ∀ (fuel : Nat) (seen : List String) (n : String), ∀ x ∈ seen, x ∈ visit all fuel seen n := by
  intro fuel
  induction fuel with
  | zero => intro seen n x hx; simpa [visit] using hx
  | succ fuel ih =>
    intro seen n x hx
    simp only [visit]
    split
    · exact hx
    · split
      · exact hx
      · rename_i td _
        have : ∀ (cs : List String) (acc : List String), x ∈ acc → x ∈ cs.foldl (visit all fuel) acc := by
          intro cs
          induction cs with
          | nil => intro acc h; simpa using h
          | cons c cs ihc => intro acc h; simp only [List.foldl_cons]; exact ihc _ (ih acc c x h)
        exact this _ _ (List.mem_cons_of_mem _ hx)

theorem foldl_visit_mono (all : List TypeDef) (fuel : Nat) : ∀ (cs : List String) (acc : List String), ∀ x ∈ acc, x ∈ cs.foldl (visit all fuel) acc := by
  intro cs
  induction cs with
  | nil => intro acc x h; simpa using h
  | cons c cs ihc => intro acc x h; simp only [List.foldl_cons]; exact ihc _ x (visit_mono all fuel acc c x h)

/-- `m`'s references that resolve are in `R` -/
def ClosedAt (all : List TypeDef) (R : List String) (m : String) : Prop :=
  ∀ td, findType all m = some td → ∀ c ∈ typeRefs td, (findType all c).isSome → c ∈ R

theorem ClosedAt.mono {all : List TypeDef} {R R' : List String} {m : String} (h : ClosedAt all R m) (hs : ∀ x ∈ R, x ∈ R') :
    ClosedAt all R' m := fun td htd c hc hr => hs c (h td htd c hc hr)

def Good (all : List TypeDef) (seen R : List String) (targets : List String) : Prop :=
  (∀ m ∈ R, m ∉ seen → ClosedAt all R m) ∧ (∀ c ∈ targets, (findType all c).isSome → c ∈ R)

theorem foldl_good (all : List TypeDef) (fuel : Nat)
    (ih : ∀ seen n, miss all seen < fuel → Good all seen (visit all fuel seen n) [n]) :
    ∀ (cs : List String) (seen : List String), miss all seen < fuel → Good all seen (cs.foldl (visit all fuel) seen) cs := by
  intro cs
  induction cs with
  | nil => intro seen _; exact ⟨fun m hm hn => absurd (by simpa using hm) hn, fun c hc => by simp at hc⟩
  | cons c cs ihc =>
    intro seen hmiss
    simp only [List.foldl_cons]
    have h1 := ih seen c hmiss
    have hsub1 : ∀ x ∈ seen, x ∈ visit all fuel seen c := visit_mono all fuel seen c
    have hmiss1 : miss all (visit all fuel seen c) < fuel := Nat.lt_of_le_of_lt (miss_mono all hsub1) hmiss
    have h2 := ihc (visit all fuel seen c) hmiss1
    have hsub2 := foldl_visit_mono all fuel cs (visit all fuel seen c)
    refine ⟨fun m hm hn => ?_, fun c' hc' hr => ?_⟩
    · by_cases hm1 : m ∈ visit all fuel seen c
      · exact (h1.1 m hm1 hn).mono hsub2
      · exact h2.1 m hm hm1
    · rcases List.mem_cons.mp hc' with rfl | hc''
      · exact hsub2 _ (h1.2 _ (by simp) hr)
      · exact h2.2 c' hc'' hr

theorem visit_good (all : List TypeDef) : ∀ (fuel : Nat) (seen : List String) (n : String),
    miss all seen < fuel → Good all seen (visit all fuel seen n) [n] := by
  intro fuel
  induction fuel with
  | zero => intro seen n h; omega
  | succ fuel ih =>
    intro seen n hmiss
    simp only [visit]
    split
    · rename_i hc
      refine ⟨fun m hm hn => absurd hm hn, fun c hc' _ => ?_⟩
      have : c = n := by simpa using hc'
      subst this
      simpa using hc
    · rename_i hc
      split
      · rename_i hnone
        refine ⟨fun m hm hn => absurd hm hn, fun c hc' hr => ?_⟩
        have : c = n := by simpa using hc'
        subst this
        simp [hnone] at hr
      · rename_i td htd
        have hnot : n ∉ seen := by simpa using hc
        have hmiss' : miss all (n :: seen) < fuel := by
          have := miss_lt all htd hnot
          omega
        have hf := foldl_good all fuel ih (typeRefs td) (n :: seen) hmiss'
        have hsub := foldl_visit_mono all fuel (typeRefs td) (n :: seen)
        refine ⟨fun m hm hn => ?_, fun c hc' _ => ?_⟩
        · by_cases hmn : m = n
          · subst hmn
            intro td' htd' c hcm hr
            rw [htd] at htd'
            cases htd'
            exact hf.2 c hcm hr
          · exact hf.1 m hm (by simp [hmn, hn])
        · have : c = n := by simpa using hc'
          subst this
          exact hsub _ (by simp)

/-- reachability: the least set containing the (resolving) initial names and closed under (resolving) references -/
inductive Reachable (all : List TypeDef) (init : List String) : String → Prop
  | init {n : String} : n ∈ init → (findType all n).isSome → Reachable all init n
  | step {m n : String} {td : TypeDef} : Reachable all init m → findType all m = some td → n ∈ typeRefs td →
      (findType all n).isSome → Reachable all init n

theorem visit_sound (all : List TypeDef) (Q : String → Prop)
    (hstep : ∀ m td c, Q m → findType all m = some td → c ∈ typeRefs td → (findType all c).isSome → Q c) :
    ∀ (fuel : Nat) (seen : List String) (n : String), (∀ x ∈ seen, Q x) → ((findType all n).isSome → Q n) →
      ∀ x ∈ visit all fuel seen n, Q x := by
  intro fuel
  induction fuel with
  | zero => intro seen n hs _ x hx; exact hs x (by simpa [visit] using hx)
  | succ fuel ih =>
    intro seen n hs hn x hx
    simp only [visit] at hx
    split at hx
    · exact hs x hx
    · split at hx
      · exact hs x hx
      · rename_i td htd
        have hQn : Q n := hn (by simp [htd])
        have : ∀ (cs : List String) (acc : List String), (∀ c ∈ cs, (findType all c).isSome → Q c) → (∀ y ∈ acc, Q y) →
            ∀ y ∈ cs.foldl (visit all fuel) acc, Q y := by
          intro cs
          induction cs with
          | nil => intro acc _ ha y hy; exact ha y (by simpa using hy)
          | cons c cs ihc =>
            intro acc hcs ha y hy
            simp only [List.foldl_cons] at hy
            exact ihc _ (fun c' hc' => hcs c' (List.mem_cons_of_mem _ hc'))
              (ih acc c ha (hcs c (by simp))) y hy
        refine this (typeRefs td) (n :: seen) (fun c hc hr => hstep n td c hQn htd hc hr) ?_ x hx
        intro y hy
        rcases List.mem_cons.mp hy with rfl | hy'
        · exact hQn
        · exact hs y hy'


theorem foldl_visit_sound (all : List TypeDef) (Q : String → Prop)
    (hstep : ∀ m td c, Q m → findType all m = some td → c ∈ typeRefs td → (findType all c).isSome → Q c) (fuel : Nat) :
    ∀ (cs : List String) (acc : List String), (∀ c ∈ cs, (findType all c).isSome → Q c) → (∀ y ∈ acc, Q y) →
      ∀ y ∈ cs.foldl (visit all fuel) acc, Q y := by
  intro cs
  induction cs with
  | nil => intro acc _ ha y hy; exact ha y (by simpa using hy)
  | cons c cs ihc =>
    intro acc hcs ha y hy
    simp only [List.foldl_cons] at hy
    exact ihc _ (fun c' hc' => hcs c' (List.mem_cons_of_mem _ hc'))
      (visit_sound all Q hstep fuel acc c ha (hcs c (by simp))) y hy

theorem miss_nil (all : List TypeDef) : miss all [] = all.length := by
  simp [miss, List.filter_eq_self.mpr]

theorem mem_reach_iff (s : Schema) (supplied : List String) (n : String) :
    n ∈ reach s supplied ↔ Reachable (allTypes s) (initialNames s supplied) n := by
  constructor
  · intro h
    exact foldl_visit_sound (allTypes s) (Reachable (allTypes s) (initialNames s supplied))
      (fun m td c hm htd hc hr => Reachable.step hm htd hc hr) _ (initialNames s supplied) []
      (fun c hc hr => Reachable.init hc hr) (fun y hy => by simp at hy) n h
  · intro h
    have hg := foldl_good (allTypes s) ((allTypes s).length + 1)
      (fun seen n hm => visit_good (allTypes s) _ seen n hm) (initialNames s supplied) []
      (by rw [miss_nil]; omega)
    induction h with
    | init hi hr => exact hg.2 _ hi hr
    | step _ htd hc hr ih => exact hg.1 _ ih (by simp) _ htd _ hc hr

theorem Reachable.resolves {all : List TypeDef} {init : List String} {n : String} (h : Reachable all init n) :
    (findType all n).isSome := by
  cases h with
  | init _ hr => exact hr
  | step _ _ _ hr => exact hr

theorem mem_insertOn {α : Type} (k : α → String) (x y : α) (l : List α) : y ∈ insertOn k x l ↔ y = x ∨ y ∈ l := by
  induction l with
  | nil => simp [insertOn]
  | cons a l ih =>
    simp only [insertOn]
    split
    · simp [ih]; constructor
      · rintro (h | h | h) <;> simp [h]
      · rintro (h | h | h) <;> simp [h]
    · simp

theorem mem_sortOn {α : Type} (k : α → String) (y : α) (l : List α) : y ∈ sortOn k l ↔ y ∈ l := by
  induction l with
  | nil => simp [sortOn]
  | cons a l ih =>
    simp only [sortOn, List.foldr_cons] at ih ⊢
    rw [mem_insertOn, ih]; simp

theorem mem_typesClosure_iff (s : Schema) (supplied : List String) (n : String) :
    n ∈ typesClosure s supplied ↔ Reachable (allTypes s) (initialNames s supplied) n := by
  unfold typesClosure
  rw [mem_sortOn, mem_reach_iff]

theorem filterMap_findType_names (all : List TypeDef) : ∀ (l : List String), (∀ n ∈ l, (findType all n).isSome) →
    (l.filterMap (findType all)).map (·.name) = l := by
  intro l
  induction l with
  | nil => intro _; rfl
  | cons n l ih =>
    intro h
    have hn := h n (by simp)
    rcases hf : findType all n with _ | td
    · simp [hf] at hn
    · simp only [List.filterMap_cons, hf, List.map_cons, findType_name hf]
      rw [ih (fun m hm => h m (List.mem_cons_of_mem _ hm))]

theorem describeType_name (all defs : List TypeDef) (td : TypeDef) : (describeType all defs td).name = td.name := by
  cases td <;> rfl

theorem introspect_type_names (s : Schema) (supplied : List String) :
    (introspect s supplied).types.map (·.name) = typesClosure s supplied := by
  simp only [introspect, List.map_map, closureDefs]
  have : ((fun x => x.name) ∘ describeType (allTypes s) (List.filterMap (findType (allTypes s)) (typesClosure s supplied))) = (fun td : TypeDef => td.name) := by
    funext td; simp [describeType_name]
  rw [this]
  exact filterMap_findType_names _ _ (fun n hn => ((mem_typesClosure_iff s supplied n).mp hn).resolves)

/-! ## 3. possible types are listed once -/

theorem nodup_insertOn {α : Type} (k : α → String) (x : α) (l : List α) (hx : x ∉ l) (hl : l.Nodup) : (insertOn k x l).Nodup := by
  induction l with
  | nil => simp [insertOn]
  | cons a l ih =>
    simp only [insertOn]
    have ha : a ∉ l := (List.nodup_cons.mp hl).1
    have hl' : l.Nodup := (List.nodup_cons.mp hl).2
    split
    · refine List.nodup_cons.mpr ⟨?_, ih (fun h => hx (List.mem_cons_of_mem _ h)) hl'⟩
      rw [mem_insertOn]
      rintro (h | h)
      · exact hx (by simp [h])
      · exact ha h
    · exact List.nodup_cons.mpr ⟨hx, hl⟩

theorem nodup_sortOn {α : Type} (k : α → String) (l : List α) (hl : l.Nodup) : (sortOn k l).Nodup := by
  induction l with
  | nil => simp [sortOn]
  | cons a l ih =>
    have ha : a ∉ l := (List.nodup_cons.mp hl).1
    have hl' : l.Nodup := (List.nodup_cons.mp hl).2
    simp only [sortOn, List.foldr_cons]
    exact nodup_insertOn k a _ (fun h => ha ((mem_sortOn k a l).mp h)) (ih hl')

theorem visit_nodup (all : List TypeDef) : ∀ (fuel : Nat) (seen : List String) (n : String), seen.Nodup → (visit all fuel seen n).Nodup := by
  intro fuel
  induction fuel with
  | zero => intro seen n h; simpa [visit] using h
  | succ fuel ih =>
    intro seen n h
    simp only [visit]
    split
    · exact h
    · rename_i hc
      split
      · exact h
      · have : ∀ (cs : List String) (acc : List String), acc.Nodup → (cs.foldl (visit all fuel) acc).Nodup := by
          intro cs
          induction cs with
          | nil => intro acc h; simpa using h
          | cons c cs ihc => intro acc h; simp only [List.foldl_cons]; exact ihc _ (ih acc c h)
        exact this _ _ (List.nodup_cons.mpr ⟨by simpa using hc, h⟩)

theorem reach_nodup (s : Schema) (supplied : List String) : (reach s supplied).Nodup := by
  unfold reach
  generalize (allTypes s).length + 1 = fuel
  have : ∀ (cs : List String) (acc : List String), acc.Nodup → (cs.foldl (visit (allTypes s) fuel) acc).Nodup := by
    intro cs
    induction cs with
    | nil => intro acc h; simpa using h
    | cons c cs ihc => intro acc h; simp only [List.foldl_cons]; exact ihc _ (visit_nodup _ fuel acc c h)
  exact this _ _ List.nodup_nil

theorem typesClosure_nodup (s : Schema) (supplied : List String) : (typesClosure s supplied).Nodup :=
  nodup_sortOn _ _ (reach_nodup s supplied)

theorem filter_eq_nodup (l : List String) (a : String) (h : l.Nodup) : l.filter (· == a) = [] ∨ l.filter (· == a) = [a] := by
  induction l with
  | nil => simp
  | cons b l ih =>
    have hb : b ∉ l := (List.nodup_cons.mp h).1
    rcases ih (List.nodup_cons.mp h).2 with h0 | h1
    · by_cases hba : b = a
      · subst hba; right; simp [h0]
      · left; simp [hba, h0]
    · by_cases hba : b = a
      · subst hba
        have : b ∈ l.filter (· == b) := by rw [h1]; simp
        exact absurd (List.mem_filter.mp this).1 hb
      · right; simp [hba, h1]

theorem flatMap_nodup_of_names (f : TypeDef → List String) :
    ∀ (defs : List TypeDef), (∀ td ∈ defs, f td = [] ∨ f td = [td.name]) → (defs.map (·.name)).Nodup →
      (defs.flatMap f).Nodup ∧ ∀ x ∈ defs.flatMap f, x ∈ defs.map (·.name) := by
  intro defs
  induction defs with
  | nil => intro _ _; simp
  | cons a defs ih =>
    intro hf h
    have ha : a.name ∉ defs.map (·.name) := (List.nodup_cons.mp (by simpa using h)).1
    have ⟨ihn, ihm⟩ := ih (fun td htd => hf td (List.mem_cons_of_mem _ htd)) (List.nodup_cons.mp (by simpa using h)).2
    simp only [List.flatMap_cons]
    rcases hf a (by simp) with h0 | h1
    · rw [h0]; simp only [List.nil_append]
      exact ⟨ihn, fun x hx => by simp only [List.map_cons]; exact List.mem_cons_of_mem _ (ihm x hx)⟩
    · rw [h1]
      refine ⟨?_, ?_⟩
      · simp only [List.singleton_append]
        exact List.nodup_cons.mpr ⟨fun hx => ha (ihm _ hx), ihn⟩
      · intro x hx
        simp only [List.singleton_append, List.mem_cons] at hx
        rcases hx with rfl | hx
        · simp
        · simp only [List.map_cons]; exact List.mem_cons_of_mem _ (ihm x hx)

theorem metaTypes_membersOnce : metaTypes.all membersOnce = true := by decide

theorem findType_mem_all {all : List TypeDef} {n : String} {td : TypeDef} (h : findType all n = some td) : td ∈ all :=
  List.mem_of_find?_eq_some h

theorem mem_closureDefs {s : Schema} {supplied : List String} {td : TypeDef} (h : td ∈ closureDefs s supplied) :
    td ∈ allTypes s := by
  simp only [closureDefs, List.mem_filterMap] at h
  obtain ⟨n, _, hn⟩ := h
  exact findType_mem_all hn

theorem name_describeRef_named (all : List TypeDef) (o : String) : (describeRef all (.named o)).name = o := rfl

theorem possibleTypes_nodup_aux (s : Schema) (supplied : List String) (hnames : ((closureDefs s supplied).map (·.name)).Nodup)
    (h : s.types.all membersOnce = true) :
    ∀ t ∈ (introspect s supplied).types, ∀ pts, t.possibleTypes = some pts → (pts.map TRef.name).Nodup := by
  intro t ht pts hp
  simp only [introspect, List.mem_map] at ht
  obtain ⟨td, htd, rfl⟩ := ht
  have hall : ∀ td ∈ allTypes s, membersOnce td = true := by
    intro td htd
    simp only [allTypes, List.mem_append] at htd
    rcases htd with h1 | h2
    · exact List.all_eq_true.mp h td h1
    · exact List.all_eq_true.mp metaTypes_membersOnce td h2
  cases td with
  | scalar => simp [describeType] at hp
  | object => simp [describeType] at hp
  | enum => simp [describeType] at hp
  | inputObject => simp [describeType] at hp
  | union n ms rt d =>
    simp only [describeType, Option.some.injEq] at hp
    subst hp
    have := hall _ (mem_closureDefs htd)
    simp only [membersOnce, decide_eq_true_eq] at this
    simpa [List.map_map, Function.comp_def, name_describeRef_named] using this
  | interface n fs rt d =>
    simp only [describeType, Option.some.injEq] at hp
    subst hp
    simp only [List.map_map, Function.comp_def, name_describeRef_named, List.map_id']
    refine (flatMap_nodup_of_names _ (closureDefs s supplied) ?_ hnames).1
    intro td' htd'
    have hm := hall _ (mem_closureDefs htd')
    cases td' with
    | object n' ifaces fs' ito d' =>
      simp only [membersOnce, decide_eq_true_eq] at hm
      rcases filter_eq_nodup ifaces n hm with h0 | h1
      · left; simp [h0]
      · right; simp [h1, TypeDef.name]
    | _ => left; rfl

theorem mem_implementers (defs : List TypeDef) (iface o : String) :
    o ∈ implementers defs iface ↔ ∃ ifaces fs ito d, TypeDef.object o ifaces fs ito d ∈ defs ∧ iface ∈ ifaces := by
  unfold implementers
  simp only [List.mem_flatMap]
  constructor
  · rintro ⟨td, htd, hm⟩
    cases td with
    | object n ifaces fs ito d =>
      simp only [List.mem_map, List.mem_filter, beq_iff_eq] at hm
      obtain ⟨i, ⟨hi, rfl⟩, rfl⟩ := hm
      exact ⟨ifaces, fs, ito, d, htd, hi⟩
    | _ => simp at hm
  · rintro ⟨ifaces, fs, ito, d, htd, hi⟩
    refine ⟨_, htd, ?_⟩
    exact List.mem_map.mpr ⟨iface, List.mem_filter.mpr ⟨hi, by simp⟩, rfl⟩

end GqlModel.Introspection
