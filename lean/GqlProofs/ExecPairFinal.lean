import GqlProofs.ExecMix2
/-! C04 two-world theorem: from the two paired invariants to the canonical nulled ancestor. Along the way to `p` at most
ONE position holds `null` in either response; the two responses agree outside that position (outside `p` if there is none). -/
namespace GqlModel.Exec
open GqlModel.Coerce

/-- the position `r` holds `null` in one of the two trees -/
def NullIn (D1 D2 : JVal) (r : Path) : Prop := D1.getAt r = some .null ∨ D2.getAt r = some .null

/-- along the way to `p`, all `null`s of the two trees sit at one and the same position -/
theorem nullIn_unique {D1 D2 : JVal} {p : Path} (hm : MaxOK p D1 D2) {r1 r2 : Path}
    (h1 : r1 <+: p) (h2 : r2 <+: p) (n1 : NullIn D1 D2 r1) (n2 : NullIn D1 D2 r2) : r1 = r2 := by
  -- w.l.o.g. r1 is a prefix of r2
  have key : ∀ {a b : Path}, a <+: b → b <+: p → NullIn D1 D2 a → NullIn D1 D2 b → a = b := by
    intro a b hab hb na nb
    refine Classical.byContradiction fun hne => ?_
    have hm' := hm a b hab hb hne
    rcases na with na | na
    · rcases nb with nb | nb
      · rw [getAt_below_null hab hne na] at nb; cases nb
      · exact hm'.1 na nb
    · rcases nb with nb | nb
      · exact hm'.2 na nb
      · rw [getAt_below_null hab hne na] at nb; cases nb
  rcases List.prefix_or_prefix_of_prefix h1 h2 with h | h
  · exact key h h2 n1 n2
  · exact (key h h1 n2 n1).symm

theorem errsOutside_of_prefix {q qm : Path} (h : q <+: qm) (l : List (Path × Bool)) :
    errsOutside q l = errsOutside q (errsOutside qm l) := by
  simp only [errsOutside, List.filter_filter]
  apply List.filter_congr
  intro e _
  by_cases hq : q.isPrefixOf e.1 = true
  · simp [hq]
  · have : qm.isPrefixOf e.1 = false := by
      cases hqm : qm.isPrefixOf e.1 with
      | false => rfl
      | true =>
        exact absurd (List.isPrefixOf_iff_prefix.mpr (h.trans (List.isPrefixOf_iff_prefix.mp hqm))) hq
    simp [hq, this]

theorem logOutside_of_prefix {q qm : Path} (h : q <+: qm) (l : List LogEntry) :
    logOutside q l = logOutside q (logOutside qm l) := by
  simp only [logOutside, List.filter_filter]
  apply List.filter_congr
  intro e _
  by_cases hq : q.isPrefixOf e.path = true
  · simp [hq]
  · have : qm.isPrefixOf e.path = false := by
      cases hqm : qm.isPrefixOf e.path with
      | false => rfl
      | true =>
        exact absurd (List.isPrefixOf_iff_prefix.mpr (h.trans (List.isPrefixOf_iff_prefix.mp hqm))) hq
    simp [hq, this]

/-- from some divergence position `qm` to the canonical one -/
theorem canonical_of_good {D1 D2 : JVal} {p qm : Path} {e1 e2 : List (Path × Bool)} {l1 l2 : List LogEntry}
    (hm : MaxOK p D1 D2) (hqm : qm <+: p) (hnull : qm = p ∨ NullIn D1 D2 qm)
    (hval : ∀ r, ¬ qm <+: r → ¬ r <+: qm → D1.getAt r = D2.getAt r)
    (herr : errsOutside qm e1 = errsOutside qm e2) (hlog : logOutside qm l1 = logOutside qm l2) :
    ∃ q, q <+: p ∧ (∀ r, r <+: p → NullIn D1 D2 r → r = q) ∧ (q = p ∨ NullIn D1 D2 q) ∧
      (∀ r, ¬ q <+: r → ¬ r <+: q → D1.getAt r = D2.getAt r) ∧
      errsOutside q e1 = errsOutside q e2 ∧ logOutside q l1 = logOutside q l2 := by
  -- the canonical position and the fact that it is a prefix of `qm`
  have hex : ∃ q, q <+: p ∧ (∀ r, r <+: p → NullIn D1 D2 r → r = q) ∧ (q = p ∨ NullIn D1 D2 q) ∧ q <+: qm := by
    by_cases hN : ∃ r, r <+: p ∧ NullIn D1 D2 r
    · obtain ⟨r0, hr0, hn0⟩ := hN
      refine ⟨r0, hr0, fun r hr hn => nullIn_unique hm hr hr0 hn hn0, Or.inr hn0, ?_⟩
      rcases hnull with rfl | hn
      · exact hr0
      · rw [nullIn_unique hm hr0 hqm hn0 hn]; exact List.prefix_refl _
    · refine ⟨p, List.prefix_refl _, fun r hr hn => absurd ⟨r, hr, hn⟩ hN, Or.inl rfl, ?_⟩
      rcases hnull with rfl | hn
      · exact List.prefix_refl _
      · exact absurd ⟨qm, hqm, hn⟩ hN
  obtain ⟨q, hq, huniq, hqn, hqqm⟩ := hex
  refine ⟨q, hq, huniq, hqn, ?_, ?_, ?_⟩
  · intro r h1 h2
    apply hval r
    · intro h; exact h1 (hqqm.trans h)
    · intro h
      rcases List.prefix_or_prefix_of_prefix h hqqm with h' | h'
      · exact h2 h'
      · exact h1 h'
  · rw [errsOutside_of_prefix hqqm e1, errsOutside_of_prefix hqqm e2, herr]
  · rw [logOutside_of_prefix hqqm l1, logOutside_of_prefix hqqm l2, hlog]

end GqlModel.Exec
