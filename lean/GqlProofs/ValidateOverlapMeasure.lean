import GqlProofs.ValidateOverlapCov2
/-! # C02 completeness, part 3a: a measure on selection sets that decreases along nesting and along spreads
(acyclic fragment tables): `μ X = (#fragments deep-reachable from X) · (nSets + 1) + (#selection sets below X)`. -/
namespace GqlModel.Validate.Overlap
open GqlModel.Validate GqlModel.Validate.Graph

/-- number of entries of `names` that occur in `l` -/
def cntIn : List String → List String → Nat
  | [], _ => 0
  | m :: ms, l => (if m ∈ l then 1 else 0) + cntIn ms l

theorem cntIn_mono (names : List String) {l l' : List String} (h : ∀ x, x ∈ l → x ∈ l') :
    cntIn names l ≤ cntIn names l' := by
  induction names with
  | nil => simp [cntIn]
  | cons m ms ih =>
    simp only [cntIn]
    by_cases h1 : m ∈ l
    · simp only [h1, h _ h1, if_true]; omega
    · simp only [h1, if_false]; split <;> omega

theorem cntIn_strict (names : List String) {l l' : List String} (h : ∀ x, x ∈ l → x ∈ l') (g : String)
    (hg : g ∈ names) (hg' : g ∈ l') (hgn : g ∉ l) : cntIn names l < cntIn names l' := by
  induction names with
  | nil => cases hg
  | cons m ms ih =>
    simp only [cntIn]
    by_cases hm : m = g
    · subst hm
      have := cntIn_mono ms h
      simp only [hg', hgn, if_true, if_false]; omega
    · have hg2 : g ∈ ms := by
        rcases List.mem_cons.1 hg with h' | h'
        · exact absurd h'.symm hm
        · exact h'
      have := ih hg2
      by_cases h1 : m ∈ l
      · simp only [h1, h _ h1, if_true]; omega
      · simp only [h1, if_false]; split <;> omega

/-- names of the defined fragments reachable from the spreads of `X` (deep spread graph) -/
def usedNames (tbl : List Frag) (X : SelectionSet) : List String :=
  (recursivelyReferenced tbl X).map (·.name.value)

theorem mem_usedNames {tbl : List Frag} {X : SelectionSet} {n : String} :
    n ∈ usedNames tbl X ↔ FragUsed tbl X n ∧ n ∈ fragNames tbl := by
  simp only [usedNames, List.mem_map]
  constructor
  · rintro ⟨f, hf, rfl⟩
    have := ((rrf_spec tbl X).2 f).1 hf
    exact ⟨this.1, lookupFrag_mem_names this.2⟩
  · rintro ⟨hu, hd⟩
    rcases lookupFrag_of_mem_names hd with ⟨f, hf⟩
    have hn := (lookupFrag_some hf).2
    exact ⟨f, ((rrf_spec tbl X).2 f).2 ⟨hn ▸ hu, hn ▸ hf⟩, hn⟩

def mu (d : Document) (tbl : List Frag) (X : SelectionSet) : Nat :=
  cntIn (fragNames tbl) (usedNames tbl X) * (nSets d + 1) + setsSet X

/-- strictly nested selection sets are smaller -/
theorem mu_nested {d : Document} {tbl : List Frag} {sels : List Selection} {l : Loc} {Y : SelectionSet}
    (hY : Y ∈ belowSels sels) : mu d tbl Y < mu d tbl (.mk sels l) := by
  have h1 : cntIn (fragNames tbl) (usedNames tbl Y) ≤ cntIn (fragNames tbl) (usedNames tbl (.mk sels l)) := by
    refine cntIn_mono _ (fun n hn => ?_)
    rcases mem_usedNames.1 hn with ⟨⟨r, hr, hreach⟩, hd⟩
    refine mem_usedNames.2 ⟨⟨r, ?_, hreach⟩, hd⟩
    rcases List.mem_map.1 hr with ⟨sp, hsp, rfl⟩
    exact List.mem_map.2 ⟨sp, by simpa [spreadsSet] using spreads_below_sels sels Y hY sp hsp, rfl⟩
  have h2 := sets_le_sels sels Y hY
  have h3 := Nat.mul_le_mul_right (nSets d + 1) h1
  simp only [mu, setsSet]
  omega

/-- the body of a fragment spread (anywhere) below `X` is smaller, on acyclic tables -/
theorem mu_spread {d : Document} {tbl : List Frag} (hac : ¬ Cyclic tbl) {X : SelectionSet} {g : String} {f : Frag}
    (hg : g ∈ spreadNames X) (hl : lookupFrag tbl g = some f) (hf : f.sel ∈ allSets d) :
    mu d tbl f.sel < mu d tbl X := by
  have hsub : ∀ n, n ∈ usedNames tbl f.sel → n ∈ usedNames tbl X := by
    intro n hn
    rcases mem_usedNames.1 hn with ⟨⟨r, hr, hreach⟩, hd⟩
    exact mem_usedNames.2 ⟨⟨g, hg, .step (spreadEdge_iff.2 ⟨f, hl, hr⟩) hreach⟩, hd⟩
  have hgX : g ∈ usedNames tbl X := mem_usedNames.2 ⟨⟨g, hg, .refl g⟩, lookupFrag_mem_names hl⟩
  have hgf : g ∉ usedNames tbl f.sel := by
    intro h
    rcases (mem_usedNames.1 h).1 with ⟨r, hr, hreach⟩
    exact hac ⟨g, r, spreadEdge_iff.2 ⟨f, hl, hr⟩, hreach⟩
  have h1 := cntIn_strict (fragNames tbl) hsub g (lookupFrag_mem_names hl) hgX hgf
  have h2 := setsSet_le_nSets hf
  have h3 : (cntIn (fragNames tbl) (usedNames tbl f.sel) + 1) * (nSets d + 1) ≤
      cntIn (fragNames tbl) (usedNames tbl X) * (nSets d + 1) := Nat.mul_le_mul_right _ h1
  rw [Nat.succ_mul] at h3
  simp only [mu]
  omega

/-! ## fields of a selection set have strictly nested sub-selections; shallow spreads are spreads -/

mutual
theorem direct_sel_below_sel (e : Env) : ∀ (pt : Option String) (x : Selection) (a : FieldOcc) (s' : SelectionSet),
    a ∈ directSel e pt x → a.node.sel = some s' → s' ∈ belowSel x
  | pt, .field al nm args ds sel l, a, s', ha, hs => by
    simp only [directSel, List.mem_singleton] at ha
    subst ha
    simp only at hs
    subst hs
    simp only [belowSel, belowOpt]
    exact self_below s'
  | pt, .spread .., a, s', ha, _ => by simp [directSel] at ha
  | pt, .inline tc ds ss l, a, s', ha, hs => by
    simp only [directSel] at ha
    simp only [belowSel]
    have := direct_sel_below_set e _ ss a s' ha hs
    cases ss with
    | mk sels l' =>
      simp only [belowSet, List.mem_cons]
      exact .inr this
theorem direct_sel_below_set (e : Env) : ∀ (pt : Option String) (x : SelectionSet) (a : FieldOcc) (s' : SelectionSet),
    a ∈ directSet e pt x → a.node.sel = some s' → s' ∈ belowSels x.sels
  | pt, .mk sels l, a, s', ha, hs => by
    simp only [directSet] at ha
    exact direct_sel_below_sels e pt sels a s' ha hs
theorem direct_sel_below_sels (e : Env) : ∀ (pt : Option String) (x : List Selection) (a : FieldOcc) (s' : SelectionSet),
    a ∈ directSels e pt x → a.node.sel = some s' → s' ∈ belowSels x
  | pt, [], a, s', ha, _ => by simp [directSels] at ha
  | pt, x :: xs, a, s', ha, hs => by
    simp only [directSels, List.mem_append] at ha
    simp only [belowSels, List.mem_append]
    rcases ha with ha | ha
    · exact .inl (direct_sel_below_sel e pt x a s' ha hs)
    · exact .inr (direct_sel_below_sels e pt xs a s' ha hs)
end

mutual
theorem shallow_sub_sel : ∀ (x : Selection) (n : String), n ∈ shallowSel x → n ∈ (spreadsSel x).map (·.name)
  | .field .., n, h => by simp [shallowSel] at h
  | .spread nm ds l, n, h => by simpa [shallowSel, spreadsSel] using h
  | .inline tc ds ss l, n, h => by
    simp only [shallowSel] at h
    simp only [spreadsSel]
    exact shallow_sub_set ss n h
theorem shallow_sub_set : ∀ (x : SelectionSet) (n : String), n ∈ shallowSet x → n ∈ (spreadsSet x).map (·.name)
  | .mk sels l, n, h => by
    simp only [shallowSet] at h
    simp only [spreadsSet]
    exact shallow_sub_sels sels n h
theorem shallow_sub_sels : ∀ (x : List Selection) (n : String), n ∈ shallowSels x → n ∈ (spreadsSels x).map (·.name)
  | [], n, h => by simp [shallowSels] at h
  | x :: xs, n, h => by
    simp only [shallowSels, List.mem_append] at h
    simp only [spreadsSels, List.map_append, List.mem_append]
    rcases h with h | h
    · exact .inl (shallow_sub_sel x n h)
    · exact .inr (shallow_sub_sels xs n h)
end

theorem shallow_sub_deep {X : SelectionSet} {n : String} (h : n ∈ shallowSet X) : n ∈ spreadNames X :=
  shallow_sub_set X n h

/-- the shallow spread graph is a subgraph of the deep one -/
theorem sh_reaches_deep {tbl : List Frag} {a b : String} (h : Reaches (shTbl tbl) a b) : Reaches tbl a b := by
  induction h with
  | refl => exact .refl _
  | step hedge _ ih =>
    rcases shEdge_iff.1 hedge with ⟨f, hf, hb⟩
    exact .step (spreadEdge_iff.2 ⟨f, hf, shallow_sub_deep hb⟩) ih

end GqlModel.Validate.Overlap
