import GqlProofs.ParserDerivs
/-! Locations (C03): the end offset threaded through the derivation relations is the end of the last token of the
derived span, so every node's location `⟨p.start, p'.e⟩` runs from the start of its first token to the end of its
last token. -/
namespace GqlModel.Grammar
open GqlModel

/-- end offset after consuming `mid`, starting from end offset `d` -/
def lastStopD (d : Nat) (mid : List Token) : Nat :=
  match mid.getLast? with
  | some t => t.stop
  | none => d

theorem lastStopD_nil (d : Nat) : lastStopD d [] = d := rfl

theorem lastStopD_append (d : Nat) (m1 m2 : List Token) : lastStopD d (m1 ++ m2) = lastStopD (lastStopD d m1) m2 := by
  cases m2 with
  | nil => simp [lastStopD]
  | cons t r =>
    cases h : (t :: r).getLast? with
    | none => simp at h
    | some l =>
      have h1 : (m1 ++ t :: r).getLast? = some l := by
        rw [List.getLast?_append, h]; rfl
      simp only [lastStopD, h1, h]

/-- `p'` is reached from `p` by consuming the tokens `mid`, and its end offset is the end of the last of them -/
def SpanLe (p p' : Pos) : Prop := ∃ mid, p.ts = mid ++ p'.ts ∧ p'.e = lastStopD p.e mid

theorem SpanLe.refl (p : Pos) : SpanLe p p := ⟨[], by simp, rfl⟩

theorem SpanLe.trans {p p1 p2 : Pos} (h1 : SpanLe p p1) (h2 : SpanLe p1 p2) : SpanLe p p2 := by
  obtain ⟨m1, e1, s1⟩ := h1
  obtain ⟨m2, e2, s2⟩ := h2
  exact ⟨m1 ++ m2, by rw [e1, e2, List.append_assoc], by rw [s2, s1, lastStopD_append]⟩

theorem tok_span {k : TokenKind} {p : Pos} {t : Token} {p' : Pos} (h : Tok k p t p') : SpanLe p p' := by
  cases h with
  | mk e t r hk => exact ⟨[t], rfl, rfl⟩

theorem kw_span {s : String} {p p' : Pos} (h : Kw s p p') : SpanLe p p' := by
  cases h with
  | mk ht _ => exact tok_span ht

theorem dname_span {p : Pos} {n : Name} {p' : Pos} (h : DName p n p') : SpanLe p p' := by
  cases h with
  | mk ht => exact tok_span ht

theorem many_span {α} {D : Pos → α → Pos → Prop} (hD : ∀ p x p', D p x p' → SpanLe p p')
    {p : Pos} {xs : List α} {p' : Pos} (h : Many D p xs p') : SpanLe p p' := by
  induction h with
  | nil => exact .refl _
  | cons hx _ ih => exact (hD _ _ _ hx).trans ih

theorem sepBy_span {α} {sep : TokenKind} {D : Pos → α → Pos → Prop} (hD : ∀ p x p', D p x p' → SpanLe p p')
    {p : Pos} {xs : List α} {p' : Pos} (h : SepBy sep D p xs p') : SpanLe p p' := by
  induction h with
  | one hx _ => exact hD _ _ _ hx
  | cons hx hs _ ih => exact ((hD _ _ _ hx).trans (tok_span hs)).trans ih

theorem dvariable_span {p : Pos} {r : Name × Loc} {p' : Pos} (h : DVariable p r p') : SpanLe p p' := by
  cases h with
  | mk hd hn => exact (tok_span hd).trans (dname_span hn)

mutual
theorem DValue.span : ∀ {c p v p'}, DValue c p v p' → SpanLe p p'
  | _, _, _, _, .var h => dvariable_span h
  | _, _, _, _, .int h => tok_span h
  | _, _, _, _, .float h => tok_span h
  | _, _, _, _, .string h => tok_span h
  | _, _, _, _, .blockString h => tok_span h
  | _, _, _, _, .tru h => kw_span h
  | _, _, _, _, .fls h => kw_span h
  | _, _, _, _, .enum h _ _ _ => tok_span h
  | _, _, _, _, .list ho hvs hc => ((tok_span ho).trans (DValues.span hvs)).trans (tok_span hc)
  | _, _, _, _, .obj ho hfs hc => ((tok_span ho).trans (DObjFields.span hfs)).trans (tok_span hc)
theorem DValues.span : ∀ {c p vs p'}, DValues c p vs p' → SpanLe p p'
  | _, _, _, _, .nil => .refl _
  | _, _, _, _, .cons hv hvs => (DValue.span hv).trans (DValues.span hvs)
theorem DObjFields.span : ∀ {c p fs p'}, DObjFields c p fs p' → SpanLe p p'
  | _, _, _, _, .nil => .refl _
  | _, _, _, _, .cons hf hfs => (DObjField.span hf).trans (DObjFields.span hfs)
theorem DObjField.span : ∀ {c p f p'}, DObjField c p f p' → SpanLe p p'
  | _, _, _, _, .mk hn hc hv => ((dname_span hn).trans (tok_span hc)).trans (DValue.span hv)
end

theorem dargument_span {p : Pos} {a : Argument} {p' : Pos} (h : DArgument p a p') : SpanLe p p' := by
  cases h with
  | mk hn hc hv => exact ((dname_span hn).trans (tok_span hc)).trans (DValue.span hv)

theorem darguments_span {p : Pos} {as : List Argument} {p' : Pos} (h : DArguments p as p') : SpanLe p p' := by
  cases h with
  | none _ => exact .refl _
  | some ho hm _ hc => exact ((tok_span ho).trans (many_span (fun _ _ _ => dargument_span) hm)).trans (tok_span hc)

theorem ddirective_span {p : Pos} {d : Directive} {p' : Pos} (h : DDirective p d p') : SpanLe p p' := by
  cases h with
  | mk ha hn hargs => exact ((tok_span ha).trans (dname_span hn)).trans (darguments_span hargs)

theorem ddirectives_span {p : Pos} {ds : List Directive} {p' : Pos} (h : DDirectives p ds p') : SpanLe p p' := by
  induction h with
  | nil _ => exact .refl _
  | cons hd _ ih => exact (ddirective_span hd).trans ih

theorem dnamedType_span {p : Pos} {t : TypeRef} {p' : Pos} (h : DNamedType p t p') : SpanLe p p' := by
  cases h with
  | mk hn => exact dname_span hn

mutual
theorem DBaseType.span : ∀ {p t p'}, DBaseType p t p' → SpanLe p p'
  | _, _, _, .named h => dnamedType_span h
  | _, _, _, .list ho ht hc => ((tok_span ho).trans (DType.span ht)).trans (tok_span hc)
theorem DType.span : ∀ {p t p'}, DType p t p' → SpanLe p p'
  | _, _, _, .plain h _ => DBaseType.span h
  | _, _, _, .nonNull h hb => (DBaseType.span h).trans (tok_span hb)
end

theorem dfragmentName_span {p : Pos} {n : Name} {p' : Pos} (h : DFragmentName p n p') : SpanLe p p' := by
  cases h with
  | mk hn _ => exact dname_span hn

theorem dtypeCondition_span {p : Pos} {t : Option TypeRef} {p' : Pos} (h : DTypeCondition p t p') : SpanLe p p' := by
  cases h with
  | none _ => exact .refl _
  | some hk ht => exact (kw_span hk).trans (dnamedType_span ht)

mutual
theorem DSelectionSet.span : ∀ {p s p'}, DSelectionSet p s p' → SpanLe p p'
  | _, _, _, .mk ho hs _ hc => ((tok_span ho).trans (DSelections.span hs)).trans (tok_span hc)
theorem DSelections.span : ∀ {p ss p'}, DSelections p ss p' → SpanLe p p'
  | _, _, _, .nil => .refl _
  | _, _, _, .cons h hs => (DSelection.span h).trans (DSelections.span hs)
theorem DSelection.span : ∀ {p s p'}, DSelection p s p' → SpanLe p p'
  | _, _, _, .field hn _ ha hd hs =>
      (((dname_span hn).trans (darguments_span ha)).trans (ddirectives_span hd)).trans (DOptSelectionSet.span hs)
  | _, _, _, .aliased ha hc hn hargs hd hs =>
      (((((dname_span ha).trans (tok_span hc)).trans (dname_span hn)).trans (darguments_span hargs)).trans
        (ddirectives_span hd)).trans (DOptSelectionSet.span hs)
  | _, _, _, .spread hs hn hd => ((tok_span hs).trans (dfragmentName_span hn)).trans (ddirectives_span hd)
  | _, _, _, .inline hs ht hd hss =>
      (((tok_span hs).trans (dtypeCondition_span ht)).trans (ddirectives_span hd)).trans (DSelectionSet.span hss)
theorem DOptSelectionSet.span : ∀ {p s p'}, DOptSelectionSet p s p' → SpanLe p p'
  | _, _, _, .none _ => .refl _
  | _, _, _, .some h => DSelectionSet.span h
end

theorem dopType_span {p : Pos} {op : OpType} {p' : Pos} (h : DOpType p op p') : SpanLe p p' := by
  cases h <;> (rename_i hk; exact kw_span hk)

theorem ddefault_span {p : Pos} {d : Option Value} {p' : Pos} (h : DDefault p d p') : SpanLe p p' := by
  cases h with
  | none _ => exact .refl _
  | some hq hv => exact (tok_span hq).trans (DValue.span hv)

theorem dvarDef_span {p : Pos} {v : VarDef} {p' : Pos} (h : DVarDef p v p') : SpanLe p p' := by
  cases h with
  | mk hv hc ht hd => exact (((dvariable_span hv).trans (tok_span hc)).trans (DType.span ht)).trans (ddefault_span hd)

theorem dvarDefs_span {p : Pos} {vs : List VarDef} {p' : Pos} (h : DVarDefs p vs p') : SpanLe p p' := by
  cases h with
  | none _ => exact .refl _
  | some ho hm _ hc => exact ((tok_span ho).trans (many_span (fun _ _ _ => dvarDef_span) hm)).trans (tok_span hc)

theorem doptName_span {p : Pos} {n : Option Name} {p' : Pos} (h : DOptName p n p') : SpanLe p p' := by
  cases h with
  | none _ => exact .refl _
  | some hn => exact dname_span hn

theorem ddescription_span {p : Pos} {d : Option String} {p' : Pos} (h : DDescription p d p') : SpanLe p p' := by
  cases h with
  | none _ _ => exact .refl _
  | string ht => exact tok_span ht
  | blockString ht => exact tok_span ht

theorem dopTypeDef_span {p : Pos} {d : OpTypeDef} {p' : Pos} (h : DOpTypeDef p d p') : SpanLe p p' := by
  cases h with
  | mk ho hc ht => exact ((dopType_span ho).trans (tok_span hc)).trans (dnamedType_span ht)

theorem dimplements_span {p : Pos} {ts : List TypeRef} {p' : Pos} (h : DImplements p ts p') : SpanLe p p' := by
  cases h with
  | none _ => exact .refl _
  | plain hk _ hs => exact (kw_span hk).trans (sepBy_span (fun _ _ _ => dnamedType_span) hs)
  | leadingAmp hk ha hs => exact ((kw_span hk).trans (tok_span ha)).trans (sepBy_span (fun _ _ _ => dnamedType_span) hs)

theorem dinputValueDef_span {p : Pos} {d : InputValueDef} {p' : Pos} (h : DInputValueDef p d p') : SpanLe p p' := by
  cases h with
  | mk hde hn hc ht hd hdirs =>
    exact (((((ddescription_span hde).trans (dname_span hn)).trans (tok_span hc)).trans (DType.span ht)).trans
      (ddefault_span hd)).trans (ddirectives_span hdirs)

theorem dargumentDefs_span {p : Pos} {ds : List InputValueDef} {p' : Pos} (h : DArgumentDefs p ds p') : SpanLe p p' := by
  cases h with
  | none _ => exact .refl _
  | some ho hm _ hc => exact ((tok_span ho).trans (many_span (fun _ _ _ => dinputValueDef_span) hm)).trans (tok_span hc)

theorem dfieldDef_span {p : Pos} {d : FieldDef} {p' : Pos} (h : DFieldDef p d p') : SpanLe p p' := by
  cases h with
  | mk hde hn ha hc ht hdirs =>
    exact (((((ddescription_span hde).trans (dname_span hn)).trans (dargumentDefs_span ha)).trans (tok_span hc)).trans
      (DType.span ht)).trans (ddirectives_span hdirs)

theorem denumValueDef_span {p : Pos} {d : EnumValueDef} {p' : Pos} (h : DEnumValueDef p d p') : SpanLe p p' := by
  cases h with
  | mk hde hn hdirs => exact ((ddescription_span hde).trans (dname_span hn)).trans (ddirectives_span hdirs)

theorem braced_span {α} {D : Pos → α → Pos → Prop} (hD : ∀ p x p', D p x p' → SpanLe p p')
    {p : Pos} {xs : List α} {p' : Pos} (h : Braced D p xs p') : SpanLe p p' := by
  cases h with
  | mk ho hm hc => exact ((tok_span ho).trans (many_span hD hm)).trans (tok_span hc)

theorem dobjectDef_span {p : Pos} {d : ObjectDef} {p' : Pos} (h : DObjectDef p d p') : SpanLe p p' := by
  cases h with
  | mk hde hk hn hi hd hb =>
    exact (((((ddescription_span hde).trans (kw_span hk)).trans (dname_span hn)).trans (dimplements_span hi)).trans
      (ddirectives_span hd)).trans (braced_span (fun _ _ _ => dfieldDef_span) hb)

theorem ddefinition_span {p : Pos} {d : Definition} {p' : Pos} (h : DDefinition p d p') : SpanLe p p' := by
  cases h with
  | query hs => exact DSelectionSet.span hs
  | operation ho hn hv hd hs =>
    exact ((((dopType_span ho).trans (doptName_span hn)).trans (dvarDefs_span hv)).trans (ddirectives_span hd)).trans
      (DSelectionSet.span hs)
  | fragment hk hn hk2 ht hd hs =>
    exact (((((kw_span hk).trans (dfragmentName_span hn)).trans (kw_span hk2)).trans (dnamedType_span ht)).trans
      (ddirectives_span hd)).trans (DSelectionSet.span hs)
  | schema hk hd ho hm _ hc =>
    exact ((((kw_span hk).trans (ddirectives_span hd)).trans (tok_span ho)).trans
      (many_span (fun _ _ _ => dopTypeDef_span) hm)).trans (tok_span hc)
  | scalar hde hk hn hd =>
    exact (((ddescription_span hde).trans (kw_span hk)).trans (dname_span hn)).trans (ddirectives_span hd)
  | object ho => exact dobjectDef_span ho
  | interface hde hk hn hd hb =>
    exact ((((ddescription_span hde).trans (kw_span hk)).trans (dname_span hn)).trans (ddirectives_span hd)).trans
      (braced_span (fun _ _ _ => dfieldDef_span) hb)
  | union hde hk hn hd hq hs =>
    exact (((((ddescription_span hde).trans (kw_span hk)).trans (dname_span hn)).trans (ddirectives_span hd)).trans
      (tok_span hq)).trans (sepBy_span (fun _ _ _ => dnamedType_span) hs)
  | enum hde hk hn hd hb =>
    exact ((((ddescription_span hde).trans (kw_span hk)).trans (dname_span hn)).trans (ddirectives_span hd)).trans
      (braced_span (fun _ _ _ => denumValueDef_span) hb)
  | inputObject hde hk hn hd hb =>
    exact ((((ddescription_span hde).trans (kw_span hk)).trans (dname_span hn)).trans (ddirectives_span hd)).trans
      (braced_span (fun _ _ _ => dinputValueDef_span) hb)
  | extend hk ho => exact (kw_span hk).trans (dobjectDef_span ho)
  | directive hde hk ha hn hargs hk2 hs =>
    exact ((((((ddescription_span hde).trans (kw_span hk)).trans (tok_span ha)).trans (dname_span hn)).trans
      (dargumentDefs_span hargs)).trans (kw_span hk2)).trans (sepBy_span (fun _ _ _ => dname_span) hs)

/-! ## the location of a node delimits its tokens -/

/-- a derivation that consumes at least one token: its span `⟨p.start, p'.e⟩` is first-token start … last-token end -/
theorem span_delimits {p p' : Pos} (hs : SpanLe p p') (hlt : p'.ts.length < p.ts.length) :
    ∃ consumed first last, p.ts = consumed ++ p'.ts ∧ consumed.head? = some first ∧ consumed.getLast? = some last ∧
      p.start = first.start ∧ p'.e = last.stop := by
  obtain ⟨mid, e1, s1⟩ := hs
  cases mid with
  | nil => simp at e1; rw [e1] at hlt; exact absurd hlt (Nat.lt_irrefl _)
  | cons t r =>
    have hl : ∃ last, (t :: r).getLast? = some last := by
      cases h : (t :: r).getLast? with
      | none => simp at h
      | some l => exact ⟨l, rfl⟩
    obtain ⟨last, hlast⟩ := hl
    refine ⟨t :: r, t, last, e1, rfl, hlast, ?_, ?_⟩
    · simp [Pos.start, e1]
    · rw [s1]; simp [lastStopD, hlast]

end GqlModel.Grammar
