import GqlProofs.NormalizeCheck
/-! C06: the executor model does not look at source locations. Two documents with the same `stripLoc` image execute
alike (`execute_of_stripEq`), via the relation of `NormalizeRel` (same variable map, selections equal up to locations)
and the simulation of `NormalizeExec`. Also: hereditary uniformity transfers along related groups (`HUAll_transfer`). -/
set_option linter.unusedSimpArgs false
set_option linter.unusedVariables false
set_option linter.unusedSectionVars false
namespace GqlModel.Normalize
open GqlModel GqlModel.Coerce GqlModel.Exec

/-! ## arguments and directives up to locations -/

theorem argLookup_strip (as : List Argument) (k : String) :
    argLookup (as.map Argument.stripLoc) k = (argLookup as k).map Value.stripLoc := by
  induction as with
  | nil => rfl
  | cons a as ih =>
    simp only [List.map_cons, argLookup, ih, Argument.stripLoc, Name.stripLoc]
    cases argLookup as k with
    | some w => rfl
    | none =>
      simp only [Option.map_none]
      by_cases h : (a.name.value == k) = true <;> simp [h]

theorem valueFromAST_strip_opt (s : Schema) (t : GType) (l : Option Value) (vars : Vars) :
    valueFromAST s t (l.map Value.stripLoc) vars = valueFromAST s t l vars := by
  cases l with
  | none => rfl
  | some v => exact valueFromAST_strip s t v vars

theorem getArgumentValues_strip (s : Schema) (defs : List ArgDef) (as : List Argument) (vars : Vars) :
    getArgumentValues s defs (as.map Argument.stripLoc) vars = getArgumentValues s defs as vars := by
  unfold getArgumentValues
  congr 1
  apply filterMap_congr'
  intro d _
  simp only [argEntry, argLookup_strip, valueFromAST_strip_opt]

/-- arguments with the same location-free image evaluate alike -/
theorem getArgumentValues_of_stripEq (s : Schema) (defs : List ArgDef) (as as' : List Argument) (vars : Vars)
    (h : as.map Argument.stripLoc = as'.map Argument.stripLoc) :
    getArgumentValues s defs as' vars = getArgumentValues s defs as vars := by
  rw [← getArgumentValues_strip s defs as', ← h, getArgumentValues_strip]

theorem included_strip (s : Schema) (vars : Vars) (dirs : List Directive) :
    included s vars (dirs.map Directive.stripLoc) = included s vars dirs := by
  have hfilter : ∀ n : String, (dirs.map Directive.stripLoc).filter (fun d => d.name.value == n) =
      (dirs.filter (fun d => d.name.value == n)).map Directive.stripLoc := by
    intro n
    rw [List.filter_map]
    rfl
  unfold included
  simp only [hfilter, List.getLast?_map]
  cases hs : (dirs.filter (fun d => d.name.value == "skip")).getLast? with
  | none =>
    cases hi : (dirs.filter (fun d => d.name.value == "include")).getLast? with
    | none => rfl
    | some di => simp only [Option.map_some, Option.map_none, Directive.stripLoc, getArgumentValues_strip]
  | some ds =>
    cases hi : (dirs.filter (fun d => d.name.value == "include")).getLast? with
    | none => simp only [Option.map_some, Option.map_none, Directive.stripLoc, getArgumentValues_strip]
    | some di => simp only [Option.map_some, Directive.stripLoc, getArgumentValues_strip]

theorem included_of_stripEq (s : Schema) (vars : Vars) (dirs dirs' : List Directive)
    (h : dirs.map Directive.stripLoc = dirs'.map Directive.stripLoc) : included s vars dirs' = included s vars dirs := by
  rw [← included_strip s vars dirs', ← h, included_strip]

theorem namedName_strip (t : TypeRef) : t.stripLoc.namedName = t.namedName := by
  induction t with
  | named n l => rfl
  | list t l ih => simpa [TypeRef.stripLoc, TypeRef.namedName] using ih
  | nonNull t l ih => simpa [TypeRef.stripLoc, TypeRef.namedName] using ih

theorem condApplies_of_stripEq (s : Schema) (tc tc' : Option TypeRef) (h : tc.map TypeRef.stripLoc = tc'.map TypeRef.stripLoc)
    (Q : String) : condApplies s tc' Q = condApplies s tc Q := by
  cases tc with
  | none => cases tc' with
    | none => rfl
    | some _ => simp at h
  | some t => cases tc' with
    | none => simp at h
    | some t' =>
      simp only [Option.map_some, Option.some.injEq] at h
      have : t'.namedName = t.namedName := by rw [← namedName_strip t', ← h, namedName_strip]
      simp only [condApplies, this]

/-! ## selections equal up to locations are related (same variable map) at every type -/

mutual
theorem RSel_of_stripEq (s : Schema) (vars : Vars) : ∀ (x y : Selection) (P : String), x.stripLoc = y.stripLoc →
    RSel s vars vars P x y
  | .field al nm args dirs sel loc, y, P, h => by
    cases y with
    | field al' nm' args' dirs' sel' loc' =>
      simp only [Selection.stripLoc, Selection.field.injEq] at h
      obtain ⟨hal, hnm, hargs, hdirs, hsel, _⟩ := h
      simp only [RSel]
      refine ⟨al', nm', args', dirs', sel', loc', rfl, ?_, ?_, included_of_stripEq s vars dirs dirs' hdirs, ?_⟩
      · have := congrArg (Option.map (·.value)) hal
        simp only [Option.map_map] at this
        have e : ((fun n : Name => n.value) ∘ Name.stripLoc) = (fun n : Name => n.value) := rfl
        rw [e] at this
        exact this.symm
      · have := congrArg (·.value) hnm
        exact this.symm
      · intro fd _
        exact ⟨getArgumentValues_of_stripEq s fd.args args args' vars hargs, fun T _ => ROpt_of_stripEq s vars sel sel' T hsel⟩
    | inline _ _ _ _ => simp [Selection.stripLoc] at h
    | spread _ _ _ => simp [Selection.stripLoc] at h
  | .inline tc dirs ss loc, y, P, h => by
    cases y with
    | inline tc' dirs' ss' loc' =>
      simp only [Selection.stripLoc, Selection.inline.injEq] at h
      obtain ⟨htc, hdirs, hss, _⟩ := h
      simp only [RSel]
      exact ⟨tc', dirs', ss', loc', rfl, condApplies_of_stripEq s tc tc' htc, included_of_stripEq s vars dirs dirs' hdirs,
        fun _ => RSet_of_stripEq s vars ss ss' P hss⟩
    | field _ _ _ _ _ _ => simp [Selection.stripLoc] at h
    | spread _ _ _ => simp [Selection.stripLoc] at h
  | .spread n d l, y, P, h => by
    cases y with
    | spread n' d' l' =>
      simp only [Selection.stripLoc, Selection.spread.injEq] at h
      obtain ⟨hn, hd, _⟩ := h
      simp only [RSel]
      exact ⟨n', d', l', rfl, (congrArg (·.value) hn).symm, included_of_stripEq s vars d d' hd⟩
    | field _ _ _ _ _ _ => simp [Selection.stripLoc] at h
    | inline _ _ _ _ => simp [Selection.stripLoc] at h
theorem ROpt_of_stripEq (s : Schema) (vars : Vars) : ∀ (x y : Option SelectionSet) (P : String),
    SelectionSet.stripLocOpt x = SelectionSet.stripLocOpt y → ROpt s vars vars P x y
  | none, y, P, h => by
    cases y with
    | none => simp [ROpt]
    | some _ => simp [SelectionSet.stripLocOpt] at h
  | some ss, y, P, h => by
    cases y with
    | none => simp [SelectionSet.stripLocOpt] at h
    | some ss' =>
      simp only [SelectionSet.stripLocOpt, Option.some.injEq] at h
      simp only [ROpt]
      exact ⟨ss', rfl, RSet_of_stripEq s vars ss ss' P h⟩
theorem RSet_of_stripEq (s : Schema) (vars : Vars) : ∀ (x y : SelectionSet) (P : String), x.stripLoc = y.stripLoc →
    RSet s vars vars P x y
  | .mk sels loc, .mk sels' loc', P, h => by
    simp only [SelectionSet.stripLoc, SelectionSet.mk.injEq, and_true] at h
    simp only [RSet]
    exact ⟨sels', loc', rfl, RList_of_stripEq s vars sels sels' P h⟩
theorem RList_of_stripEq (s : Schema) (vars : Vars) : ∀ (xs ys : List Selection) (P : String),
    Selection.stripLocList xs = Selection.stripLocList ys → RList s vars vars P xs ys
  | [], ys, P, h => by
    cases ys with
    | nil => simp [RList]
    | cons _ _ => simp [Selection.stripLocList] at h
  | x :: xs, ys, P, h => by
    cases ys with
    | nil => simp [Selection.stripLocList] at h
    | cons y ys =>
      simp only [Selection.stripLocList, List.cons.injEq] at h
      simp only [RList]
      exact ⟨y, ys, rfl, RSel_of_stripEq s vars x y P h.1, RList_of_stripEq s vars xs ys P h.2⟩
end

/-! ## documents equal up to locations -/

/-- `a` and `b` have the same location-free image -/
def SE (a b : Definition) : Prop := a.stripLoc = b.stripLoc

theorem all2_of_map_eq {α β : Type} (f : α → β) : ∀ (xs ys : List α), xs.map f = ys.map f → All2 (fun a b => f a = f b) xs ys
  | [], [], _ => trivial
  | x :: xs, y :: ys, h => by
    simp only [List.map_cons, List.cons.injEq] at h
    exact ⟨h.1, all2_of_map_eq f xs ys h.2⟩
  | [], _ :: _, h => by simp at h
  | _ :: _, [], h => by simp at h

theorem typeOfRef_of_stripEq {t t' : TypeRef} (h : t.stripLoc = t'.stripLoc) : typeOfRef t = typeOfRef t' ∧ t.render = t'.render := by
  induction t generalizing t' with
  | named n l => cases t' <;> simp_all [TypeRef.stripLoc, typeOfRef, TypeRef.render]
  | list t l ih =>
    cases t' with
    | list t2 l2 =>
      simp only [TypeRef.stripLoc, TypeRef.list.injEq, and_true] at h
      simp only [typeOfRef, TypeRef.render, (ih h).1, (ih h).2, and_self]
    | _ => simp [TypeRef.stripLoc] at h
  | nonNull t l ih =>
    cases t' with
    | nonNull t2 l2 =>
      simp only [TypeRef.stripLoc, TypeRef.nonNull.injEq, and_true] at h
      simp only [typeOfRef, TypeRef.render, (ih h).1, (ih h).2, and_self]
    | _ => simp [TypeRef.stripLoc] at h

theorem getVariableValue_of_stripEq (s : Schema) (a b : VarDef) (h : a.stripLoc = b.stripLoc) (input : JVal) :
    getVariableValue s b input = getVariableValue s a input := by
  obtain ⟨av, avl, at_, ad, al⟩ := a
  obtain ⟨bv, bvl, bt, bd, bl⟩ := b
  simp only [VarDef.stripLoc, VarDef.mk.injEq, Name.stripLoc, Name.mk.injEq, and_true, true_and] at h
  obtain ⟨hv, ht, hd⟩ := h
  unfold getVariableValue
  simp only [hv]
  cases at_ with
  | none => cases bt with
    | none => rfl
    | some _ => simp at ht
  | some ta => cases bt with
    | none => simp at ht
    | some tb =>
      simp only [Option.map_some, Option.some.injEq] at ht
      obtain ⟨h1, h2⟩ := typeOfRef_of_stripEq ht
      simp only [h1, h2]
      cases ad with
      | none => cases bd with
        | none => rfl
        | some _ => simp at hd
      | some da => cases bd with
        | none => simp at hd
        | some db =>
          simp only [Option.map_some, Option.some.injEq] at hd
          have := valueFromAST_of_same_shape s (typeOfRef tb) da db [] hd
          cases input.isNull <;> simp only [this]

theorem getVariableValues_of_stripEq (s : Schema) (inputs : Vars) : ∀ (as bs : List VarDef) (acc : Vars),
    as.map VarDef.stripLoc = bs.map VarDef.stripLoc →
    getVariableValuesGo s inputs bs acc = getVariableValuesGo s inputs as acc
  | [], [], _, _ => rfl
  | a :: as, b :: bs, acc, h => by
    simp only [List.map_cons, List.cons.injEq] at h
    have hv : b.var.value = a.var.value := by
      have := congrArg (fun d : VarDef => d.var.value) h.1
      simpa [VarDef.stripLoc, Name.stripLoc] using this.symm
    simp only [getVariableValuesGo, hv, getVariableValue_of_stripEq s a b h.1]
    cases getVariableValue s a (lookupD inputs a.var.value) with
    | error e => rfl
    | ok v => exact getVariableValues_of_stripEq s inputs as bs _ h.2
  | [], _ :: _, _, h => by simp at h
  | _ :: _, [], _, h => by simp at h

/-! ### operation selection -/

theorem go_stripEq (opName : String) : ∀ (defs defs' : List Definition) (cur cur' : Option Definition),
    All2 SE defs defs' → cur.map Definition.stripLoc = cur'.map Definition.stripLoc →
    (∃ e, selectOperation.go opName defs cur = .error e ∧ selectOperation.go opName defs' cur' = .error e) ∨
    (∃ r r', selectOperation.go opName defs cur = .ok r ∧ selectOperation.go opName defs' cur' = .ok r' ∧
      r.map Definition.stripLoc = r'.map Definition.stripLoc) := by
  intro defs
  induction defs with
  | nil =>
    intro defs' cur cur' h hc
    cases defs' with
    | nil => exact Or.inr ⟨cur, cur', rfl, rfl, hc⟩
    | cons _ _ => cases h
  | cons d ds ih =>
    intro defs' cur cur' h hc
    cases defs' with
    | nil => cases h
    | cons d' ds' =>
      obtain ⟨hq, hrest⟩ := h
      have hsome : cur'.isSome = cur.isSome := by
        cases cur <;> cases cur' <;> simp_all
      unfold SE at hq
      cases d with
      | operation o nm vs ds0 sl lc =>
        cases d' with
        | operation o' nm' vs' ds0' sl' lc' =>
          simp only [Definition.stripLoc, Definition.operation.injEq] at hq
          obtain ⟨ho, hnm, _, _, _, _⟩ := hq
          have hname : nm'.map (·.value) = nm.map (·.value) := by
            have := congrArg (Option.map (fun n : Name => n.value)) hnm
            simp only [Option.map_map] at this
            exact this.symm
          simp only [selectOperation.go, hsome, hname]
          by_cases h1 : (opName == "" && cur.isSome) = true
          · simp only [h1, if_true]; exact Or.inl ⟨_, rfl, rfl⟩
          · simp only [h1, Bool.false_eq_true, if_false]
            by_cases h2 : (opName == "" || (nm.map (·.value)) == some opName) = true
            · simp only [h2, if_true]
              refine ih ds' _ _ hrest ?_
              simp only [Option.map_some, Definition.stripLoc, Option.some.injEq, Definition.operation.injEq]
              exact ⟨ho, hnm, by assumption, by assumption, by assumption, trivial⟩
            · simp only [h2, Bool.false_eq_true, if_false]
              exact ih ds' _ _ hrest hc
        | _ => simp [Definition.stripLoc] at hq
      | fragment a b c0 d0 e0 =>
        cases d' with
        | fragment _ _ _ _ _ => simp only [selectOperation.go]; exact ih ds' _ _ hrest hc
        | _ => simp [Definition.stripLoc] at hq
      | schema _ _ _ => cases d' <;> simp [Definition.stripLoc] at hq <;> (simp only [selectOperation.go]; exact Or.inl ⟨_, rfl, rfl⟩)
      | scalar _ _ _ _ => cases d' <;> simp [Definition.stripLoc] at hq <;> (simp only [selectOperation.go]; exact Or.inl ⟨_, rfl, rfl⟩)
      | object _ => cases d' <;> simp [Definition.stripLoc] at hq <;> (simp only [selectOperation.go]; exact Or.inl ⟨_, rfl, rfl⟩)
      | interface _ _ _ _ _ => cases d' <;> simp [Definition.stripLoc] at hq <;> (simp only [selectOperation.go]; exact Or.inl ⟨_, rfl, rfl⟩)
      | union _ _ _ _ _ => cases d' <;> simp [Definition.stripLoc] at hq <;> (simp only [selectOperation.go]; exact Or.inl ⟨_, rfl, rfl⟩)
      | «enum» _ _ _ _ _ => cases d' <;> simp [Definition.stripLoc] at hq <;> (simp only [selectOperation.go]; exact Or.inl ⟨_, rfl, rfl⟩)
      | inputObject _ _ _ _ _ => cases d' <;> simp [Definition.stripLoc] at hq <;> (simp only [selectOperation.go]; exact Or.inl ⟨_, rfl, rfl⟩)
      | extend _ _ => cases d' <;> simp [Definition.stripLoc] at hq <;> (simp only [selectOperation.go]; exact Or.inl ⟨_, rfl, rfl⟩)
      | directive _ _ _ _ _ => cases d' <;> simp [Definition.stripLoc] at hq <;> (simp only [selectOperation.go]; exact Or.inl ⟨_, rfl, rfl⟩)

/-! ### fragment tables -/

/-- entries of two fragment tables: same key, definitions with the same location-free image -/
def FE (p q : String × Definition) : Prop := q.1 = p.1 ∧ p.2.stripLoc = q.2.stripLoc

theorem fragOf_stripEq {a b : Definition} (h : SE a b) :
    (fragOf a = none ∧ fragOf b = none) ∨ ∃ p q, fragOf a = some p ∧ fragOf b = some q ∧ FE p q := by
  unfold SE at h
  cases a <;> cases b <;> simp [Definition.stripLoc] at h <;> simp [fragOf, FE, Definition.stripLoc]
  rename_i n1 t1 d1 s1 l1 n2 t2 d2 s2 l2
  obtain ⟨hn, ht, hd, hs⟩ := h
  refine ⟨?_, hn, ht, hd, hs⟩
  have := congrArg (fun n : Name => n.value) hn
  simpa [Name.stripLoc] using this.symm

theorem all2_filterMap_fragOf : ∀ (xs ys : List Definition), All2 SE xs ys →
    All2 FE (xs.filterMap fragOf) (ys.filterMap fragOf)
  | [], [], _ => trivial
  | x :: xs, y :: ys, h => by
    have ih := all2_filterMap_fragOf xs ys h.2
    rcases fragOf_stripEq h.1 with ⟨h1, h2⟩ | ⟨p, q, h1, h2, hfe⟩
    · simp only [List.filterMap_cons, h1, h2]; exact ih
    · simp only [List.filterMap_cons, h1, h2]; exact ⟨hfe, ih⟩
  | [], _ :: _, h => by cases h
  | _ :: _, [], h => by cases h

theorem all2_filter_key (n : String) : ∀ (xs ys : List (String × Definition)), All2 FE xs ys →
    All2 FE (xs.filter (fun p => p.1 == n)) (ys.filter (fun p => p.1 == n))
  | [], [], _ => trivial
  | x :: xs, y :: ys, h => by
    have ih := all2_filter_key n xs ys h.2
    simp only [List.filter_cons, h.1.1]
    split
    · exact ⟨h.1, ih⟩
    · exact ih
  | [], _ :: _, h => by cases h
  | _ :: _, [], h => by cases h

theorem all2_getLast {α β : Type} {R : α → β → Prop} : ∀ (xs : List α) (ys : List β), All2 R xs ys →
    (xs.getLast? = none ∧ ys.getLast? = none) ∨ ∃ a b, xs.getLast? = some a ∧ ys.getLast? = some b ∧ R a b
  | [], [], _ => Or.inl ⟨rfl, rfl⟩
  | [x], [y], h => Or.inr ⟨x, y, rfl, rfl, h.1⟩
  | x :: x2 :: xs, y :: y2 :: ys, h => by
    rcases all2_getLast (x2 :: xs) (y2 :: ys) h.2 with ⟨h1, _⟩ | ⟨a, b, h1, h2, hr⟩
    · simp at h1
    · exact Or.inr ⟨a, b, by rw [List.getLast?_cons_cons]; exact h1, by rw [List.getLast?_cons_cons]; exact h2, hr⟩
  | [], _ :: _, h => by cases h
  | _ :: _, [], h => by cases h
  | [_], _ :: _ :: _, h => by cases h.2
  | _ :: _ :: _, [_], h => by cases h.2

/-- two fragment tables with entrywise equal location-free images are related (same variable map) -/
theorem fragsRel_of_stripEq (c : Ctx) (frags' : List (String × Definition)) (h : All2 FE c.frags frags') :
    FragsRel c c.vars frags' := by
  intro n
  have hl := all2_getLast _ _ (all2_filter_key n c.frags frags' h)
  have hfr' : (ctx' c c.vars frags').frag? n =
      match (frags'.filter (fun p => p.1 == n)).getLast? with
      | some (_, .fragment _ tc _ sel _) => some (tc, sel)
      | _ => none := rfl
  rw [hfr']
  unfold Ctx.frag?
  rcases hl with ⟨h1, h2⟩ | ⟨a, b, h1, h2, hfe⟩
  · rw [h1, h2]; exact Or.inl ⟨rfl, rfl⟩
  · rw [h1, h2]
    obtain ⟨ka, da⟩ := a
    obtain ⟨kb, db⟩ := b
    obtain ⟨_, hse⟩ := hfe
    simp only at hse
    cases da with
    | fragment n1 t1 d1 s1 l1 =>
      cases db with
      | fragment n2 t2 d2 s2 l2 =>
        simp only [Definition.stripLoc, Definition.fragment.injEq] at hse
        obtain ⟨_, ht, _, hs, _⟩ := hse
        refine Or.inr ⟨t1, s1, t2, s2, rfl, rfl, ?_, fun rt => RSet_of_stripEq c.schema c.vars s1 s2 rt hs⟩
        intro rt
        exact condApplies_of_stripEq c.schema (some t1) (some t2) (by simp [ht]) rt
      | _ => simp [Definition.stripLoc] at hse
    | _ => cases db <;> simp [Definition.stripLoc] at hse <;> exact Or.inl ⟨rfl, rfl⟩

/-! ### the whole request -/

/-- **the executor model ignores source locations**: two documents with the same location-free image give the same
response (data, errors, log, request errors, fuel exhaustion) on the same inputs — provided the first execution merges
only same-named fields (`ExecUniform`, the premise the simulation needs). -/
theorem execute_of_stripEq (s : Schema) (d1 d2 : Document) (opName : String) (inputs : Vars) (w : World) (fuel : Nat)
    (h : d1.stripLoc = d2.stripLoc) (hu : ExecUniform s d1 opName inputs w) :
    execute s d2 opName inputs w fuel = execute s d1 opName inputs w fuel := by
  have hdefs : All2 SE d1.defs d2.defs := by
    have : d1.defs.map Definition.stripLoc = d2.defs.map Definition.stripLoc := by
      have := congrArg Document.defs h
      simpa [Document.stripLoc] using this
    exact all2_of_map_eq Definition.stripLoc _ _ this
  have hfrags : All2 FE d1.fragments d2.fragments := by
    rw [fragments_eq, fragments_eq]; exact all2_filterMap_fragOf _ _ hdefs
  rw [execute_eq, execute_eq]
  unfold selectOperation
  rcases go_stripEq opName d1.defs d2.defs none none hdefs rfl with ⟨e, h1, h2⟩ | ⟨r, r', h1, h2, hq⟩
  · rw [h1, h2]
  · rw [h1, h2]
    cases r with
    | none => cases r' with
      | none => rfl
      | some _ => simp at hq
    | some a => cases r' with
      | none => simp at hq
      | some b =>
        simp only [Option.map_some, Option.some.injEq] at hq
        simp only []
        cases a with
        | operation op name vars dirs sel loc =>
          cases b with
          | operation op' name' vars' dirs' sel' loc' =>
            simp only [Definition.stripLoc, Definition.operation.injEq] at hq
            obtain ⟨hop, _, hvars, _, hsel, _⟩ := hq
            subst hop
            simp only [runOp]
            cases hroot : s.rootFor op.toString with
            | none => rfl
            | some root =>
              simp only []
              have hgv : getVariableValues s vars' inputs = getVariableValues s vars inputs := by
                unfold getVariableValues
                exact getVariableValues_of_stripEq s inputs vars vars' [] hvars
              rw [hgv]
              cases hv : getVariableValues s vars inputs with
              | error e => rfl
              | ok v =>
                simp only []
                let c : Ctx := ⟨s, d1.fragments, v, w⟩
                have hfr : FragsRel c c.vars d2.fragments := fragsRel_of_stripEq c d2.fragments hfrags
                have hlen : d2.fragments.length = c.frags.length := (All2.length_eq hfrags).symm
                have hcol := collect_sim c c.vars d2.fragments hfr hlen root sel sel' [] [] []
                  (RSet_of_stripEq s v sel sel' root hsel) trivial
                have hsel1 : selectOperation d1 opName = .ok (.operation op name vars dirs sel loc) := by
                  unfold selectOperation; rw [h1]
                have hsim := (sim_all c c.vars d2.fragments hfr hlen fuel).1 false root .nil [] _ _ [] St.empty hcol.1
                  (hu op name vars dirs sel loc root v hsel1 hroot hv)
                have hc' : ctx' c c.vars d2.fragments = ⟨s, d2.fragments, v, w⟩ := rfl
                rw [hc'] at hsim
                rw [hsim]
          | _ => simp [Definition.stripLoc] at hq
        | fragment _ _ _ _ _ => cases b <;> simp [Definition.stripLoc] at hq <;> rfl
        | schema _ _ _ => cases b <;> simp [Definition.stripLoc] at hq <;> rfl
        | scalar _ _ _ _ => cases b <;> simp [Definition.stripLoc] at hq <;> rfl
        | object _ => cases b <;> simp [Definition.stripLoc] at hq <;> rfl
        | interface _ _ _ _ _ => cases b <;> simp [Definition.stripLoc] at hq <;> rfl
        | union _ _ _ _ _ => cases b <;> simp [Definition.stripLoc] at hq <;> rfl
        | «enum» _ _ _ _ _ => cases b <;> simp [Definition.stripLoc] at hq <;> rfl
        | inputObject _ _ _ _ _ => cases b <;> simp [Definition.stripLoc] at hq <;> rfl
        | extend _ _ => cases b <;> simp [Definition.stripLoc] at hq <;> rfl
        | directive _ _ _ _ _ => cases b <;> simp [Definition.stripLoc] at hq <;> rfl

end GqlModel.Normalize
