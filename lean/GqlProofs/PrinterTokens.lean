import GqlModel.PrinterTokens
/-! `render (docI d) = documentC d`, and every separator of `docI d` consists of Ignored characters only. -/
namespace GqlModel.Printer
open GqlModel

/-! ## rendering is a homomorphism for the helpers -/

@[simp] theorem render_nil : render [] = [] := rfl
@[simp] theorem render_cons (i : Item) (is : List Item) : render (i :: is) = i.text ++ render is := rfl

@[simp] theorem render_append (a b : List Item) : render (a ++ b) = render a ++ render b := by
  induction a with
  | nil => rfl
  | cons i is ih => simp [ih]

@[simp] theorem render_pI (k : TokenKind) (t : Chars) : render (pI k t) = t := by simp [pI, Item.text]
@[simp] theorem render_nI (s : String) : render (nI s) = s.toList := by simp [nI, Item.text]
@[simp] theorem render_kI (s : Chars) : render (kI s) = s := by simp [kI, Item.text]
@[simp] theorem render_sI (s : Chars) : render (sI s) = s := by simp [sI, Item.text]

theorem indentC_append (a b : Chars) : indentC (a ++ b) = indentC a ++ indentC b := by
  induction a with
  | nil => rfl
  | cons c cs ih => by_cases h : c = '\n' <;> simp [indentC, h, ih]

@[simp] theorem render_indentI (is : List Item) : render (indentI is) = indentC (render is) := by
  induction is with
  | nil => rfl
  | cons i is ih =>
    have : render (indentI is) = indentC (render is) := ih
    cases i <;> simp [indentI, Item.indent, Item.text, indentC_append] <;> exact this

theorem render_interI (sep : List Item) : ∀ xs : List (List Item),
    render (interI sep xs) = interC (render sep) (xs.map render)
  | [] => rfl
  | [x] => by simp [interI, interC]
  | x :: y :: rest => by
    have := render_interI sep (y :: rest)
    simp only [List.map_cons] at this
    simp [interI, interC, this]

@[simp] theorem render_joinI (xs : List (List Item)) (sep : List Item) :
    render (joinI xs sep) = joinC (xs.map render) (render sep) := by
  simp only [joinI, joinC, render_interI, List.filter_map]
  rfl

@[simp] theorem render_wrapI (a m b : List Item) : render (wrapI a m b) = wrapC (render a) (render m) (render b) := by
  simp only [wrapI, wrapC]
  split <;> simp

@[simp] theorem render_blockI (xs : List (List Item)) : render (blockI xs) = blockC (xs.map render) := by
  simp only [blockI, blockC]
  cases xs with
  | nil => simp
  | cons x xs => simp

@[simp] theorem render_spI : render spI = sp := rfl
@[simp] theorem render_commaSpI : render commaSpI = commaSp := rfl
@[simp] theorem render_colonSpI : render colonSpI = colonSp := rfl
@[simp] theorem render_spreadI : render spreadI = ['.', '.', '.'] := rfl
@[simp] theorem render_onI : render onI = kwOn := by simp [onI, kwOn]
@[simp] theorem render_ampI : render ampI = [' ', '&', ' '] := rfl
@[simp] theorem render_pipeI : render pipeI = [' ', '|', ' '] := rfl

@[simp] theorem render_descI (d : Option String) : render (descI d) = descC d := by
  cases d <;> simp [descI, Item.text, descC]

@[simp] theorem render_withDescTopI (d : Option String) (s : List Item) :
    render (withDescTopI d s) = withDescTop d (render s) := by
  simp only [withDescTopI, withDescTop, render_descI]
  split <;> simp

@[simp] theorem render_withDescMemberI (d : Option String) (s : List Item) :
    render (withDescMemberI d s) = withDescMember d (render s) := by
  simp only [withDescMemberI, withDescMember, render_descI]
  split <;> simp

/-! ## separators stay ignorable -/

@[simp] theorem sepsIgnored_append (a b : List Item) : sepsIgnored (a ++ b) = (sepsIgnored a && sepsIgnored b) := by
  induction a with
  | nil => simp [sepsIgnored]
  | cons i is ih => cases i <;> simp [sepsIgnored, ih, Bool.and_assoc]

@[simp] theorem sepsIgnored_pI (k : TokenKind) (t : Chars) : sepsIgnored (pI k t) = true := rfl
@[simp] theorem sepsIgnored_nI (s : String) : sepsIgnored (nI s) = true := rfl
@[simp] theorem sepsIgnored_kI (s : Chars) : sepsIgnored (kI s) = true := rfl
@[simp] theorem sepsIgnored_nil : sepsIgnored [] = true := rfl
@[simp] theorem sepsIgnored_sI_nl : sepsIgnored (sI ['\n']) = true := rfl
@[simp] theorem sepsIgnored_spI : sepsIgnored spI = true := rfl
@[simp] theorem sepsIgnored_commaSpI : sepsIgnored commaSpI = true := rfl
@[simp] theorem sepsIgnored_colonSpI : sepsIgnored colonSpI = true := rfl
@[simp] theorem sepsIgnored_spreadI : sepsIgnored spreadI = true := rfl
@[simp] theorem sepsIgnored_onI : sepsIgnored onI = true := rfl
@[simp] theorem sepsIgnored_ampI : sepsIgnored ampI = true := rfl
@[simp] theorem sepsIgnored_pipeI : sepsIgnored pipeI = true := rfl

theorem all_ignored_indentC (t : Chars) (h : t.all isIgnoredChar = true) : (indentC t).all isIgnoredChar = true := by
  induction t with
  | nil => rfl
  | cons c cs ih =>
    simp only [List.all_cons, Bool.and_eq_true] at h
    by_cases hc : c = '\n'
    · subst hc; simp [indentC, ih h.2]; decide
    · simp [indentC, hc, h.1, ih h.2]

theorem sepsIgnored_indentI (is : List Item) (h : sepsIgnored is = true) : sepsIgnored (indentI is) = true := by
  induction is with
  | nil => rfl
  | cons i is ih =>
    cases i with
    | tok k v t => simp only [indentI, List.map_cons, Item.indent, sepsIgnored] at h ⊢; exact ih h
    | sep t =>
      simp only [indentI, List.map_cons, Item.indent, sepsIgnored, Bool.and_eq_true] at h ⊢
      exact ⟨all_ignored_indentC t h.1, ih h.2⟩

theorem sepsIgnored_interI (sep : List Item) (hs : sepsIgnored sep = true) : ∀ xs : List (List Item),
    (∀ x ∈ xs, sepsIgnored x = true) → sepsIgnored (interI sep xs) = true
  | [], _ => rfl
  | [x], h => by simpa [interI] using h x (by simp)
  | x :: y :: rest, h => by
    have h1 := h x (by simp)
    have h2 := sepsIgnored_interI sep hs (y :: rest) (fun z hz => h z (by simp at hz ⊢; right; exact hz))
    simp [interI, h1, hs, h2]

theorem sepsIgnored_joinI (xs : List (List Item)) (sep : List Item) (hs : sepsIgnored sep = true)
    (h : ∀ x ∈ xs, sepsIgnored x = true) : sepsIgnored (joinI xs sep) = true := by
  apply sepsIgnored_interI sep hs
  intro x hx
  exact h x (List.mem_filter.mp hx).1

theorem sepsIgnored_wrapI (a m b : List Item) (ha : sepsIgnored a = true) (hm : sepsIgnored m = true)
    (hb : sepsIgnored b = true) : sepsIgnored (wrapI a m b) = true := by
  simp only [wrapI]; split <;> simp [ha, hm, hb]

theorem sepsIgnored_blockI (xs : List (List Item)) (h : ∀ x ∈ xs, sepsIgnored x = true) :
    sepsIgnored (blockI xs) = true := by
  simp only [blockI]
  split
  · rfl
  · have hj := sepsIgnored_joinI xs (sI ['\n']) rfl h
    have : sepsIgnored (pI .braceL ['{'] ++ sI ['\n'] ++ joinI xs (sI ['\n'])) = true := by
      simp [hj]
    have h2 := sepsIgnored_indentI _ this
    simp only [List.append_assoc] at h2
    simp [h2]

theorem sepsIgnored_descI (d : Option String) : sepsIgnored (descI d) = true := by cases d <;> rfl

theorem sepsIgnored_withDescTopI (d : Option String) (s : List Item) (h : sepsIgnored s = true) :
    sepsIgnored (withDescTopI d s) = true := by
  simp only [withDescTopI]; split
  · exact h
  · simp [sepsIgnored_descI, h]

theorem sepsIgnored_withDescMemberI (d : Option String) (s : List Item) (h : sepsIgnored s = true) :
    sepsIgnored (withDescMemberI d s) = true := by
  simp only [withDescMemberI]; split
  · exact h
  · simp [sepsIgnored_descI, h]

/-! ## every printer function -/

theorem render_typeI : ∀ t : TypeRef, render (typeI t) = typeC t
  | .named _ _ => by simp [typeI, typeC]
  | .list t _ => by simp [typeI, typeC, render_typeI t]
  | .nonNull t _ => by simp [typeI, typeC, render_typeI t]

theorem seps_typeI : ∀ t : TypeRef, sepsIgnored (typeI t) = true
  | .named _ _ => rfl
  | .list t _ => by simp [typeI, seps_typeI t]
  | .nonNull t _ => by simp [typeI, seps_typeI t]

@[simp] theorem render_optTypeI (t : Option TypeRef) : render (optTypeI t) = optTypeC t := by
  cases t <;> simp [optTypeI, optTypeC, render_typeI]

theorem seps_optTypeI (t : Option TypeRef) : sepsIgnored (optTypeI t) = true := by
  cases t <;> simp [optTypeI, seps_typeI]

mutual
theorem render_valueI : ∀ v : Value, render (valueI v) = valueC v
  | .var _ _ => by simp [valueI, valueC]
  | .int _ _ => by simp [valueI, valueC, Item.text]
  | .float _ _ => by simp [valueI, valueC, Item.text]
  | .str _ _ => by simp [valueI, valueC, Item.text]
  | .bool b _ => by cases b <;> simp [valueI, valueC]
  | .enum _ _ => by simp [valueI, valueC]
  | .list vs _ => by simp [valueI, valueC, render_valuesI vs]
  | .obj fs _ => by simp [valueI, valueC, render_fieldsI fs]
theorem render_valuesI : ∀ vs : List Value, (valuesI vs).map render = valuesC vs
  | [] => rfl
  | v :: vs => by simp [valuesI, valuesC, render_valueI v, render_valuesI vs]
theorem render_fieldI : ∀ f : ObjField, render (fieldI f) = fieldC f
  | .mk n v _ => by simp [fieldI, fieldC, render_valueI v]
theorem render_fieldsI : ∀ fs : List ObjField, (fieldsI fs).map render = fieldsC fs
  | [] => rfl
  | f :: fs => by simp [fieldsI, fieldsC, render_fieldI f, render_fieldsI fs]
end

mutual
theorem seps_valueI : ∀ v : Value, sepsIgnored (valueI v) = true
  | .var _ _ => rfl
  | .int _ _ => rfl
  | .float _ _ => rfl
  | .str _ _ => rfl
  | .bool b _ => by cases b <;> rfl
  | .enum _ _ => rfl
  | .list vs _ => by simp [valueI, sepsIgnored_joinI _ _ sepsIgnored_commaSpI (seps_valuesI vs)]
  | .obj fs _ => by simp [valueI, sepsIgnored_joinI _ _ sepsIgnored_commaSpI (seps_fieldsI fs)]
theorem seps_valuesI : ∀ vs : List Value, ∀ x ∈ valuesI vs, sepsIgnored x = true
  | [], x, h => by simp [valuesI] at h
  | v :: vs, x, h => by
    simp only [valuesI, List.mem_cons] at h
    rcases h with rfl | h
    · exact seps_valueI v
    · exact seps_valuesI vs x h
theorem seps_fieldI : ∀ f : ObjField, sepsIgnored (fieldI f) = true
  | .mk n v _ => by simp [fieldI, seps_valueI v]
theorem seps_fieldsI : ∀ fs : List ObjField, ∀ x ∈ fieldsI fs, sepsIgnored x = true
  | [], x, h => by simp [fieldsI] at h
  | f :: fs, x, h => by
    simp only [fieldsI, List.mem_cons] at h
    rcases h with rfl | h
    · exact seps_fieldI f
    · exact seps_fieldsI fs x h
end

@[simp] theorem render_optValueI (v : Option Value) : render (optValueI v) = optValueC v := by
  cases v <;> simp [optValueI, optValueC, render_valueI]

theorem seps_optValueI (v : Option Value) : sepsIgnored (optValueI v) = true := by
  cases v <;> simp [optValueI, seps_valueI]

@[simp] theorem render_argI (a : Argument) : render (argI a) = argC a := by simp [argI, argC, render_valueI]
theorem seps_argI (a : Argument) : sepsIgnored (argI a) = true := by simp [argI, seps_valueI]

theorem map_render {α : Type} (fI : α → List Item) (fC : α → Chars) (h : ∀ x, render (fI x) = fC x) (xs : List α) :
    (xs.map fI).map render = xs.map fC := by
  simp [List.map_map, Function.comp_def, h]

theorem seps_map {α : Type} (fI : α → List Item) (h : ∀ x, sepsIgnored (fI x) = true) (xs : List α) :
    ∀ y ∈ xs.map fI, sepsIgnored y = true := by
  intro y hy
  obtain ⟨x, _, rfl⟩ := List.mem_map.mp hy
  exact h x

theorem seps_argsParen (args : List Argument) :
    sepsIgnored (wrapI (pI .parenL ['(']) (joinI (args.map argI) commaSpI) (pI .parenR [')'])) = true :=
  sepsIgnored_wrapI _ _ _ rfl (sepsIgnored_joinI _ _ sepsIgnored_commaSpI (seps_map argI seps_argI args)) rfl

@[simp] theorem render_directiveI (d : Directive) : render (directiveI d) = directiveC d := by
  simp [directiveI, directiveC, map_render argI argC render_argI]

theorem seps_directiveI (d : Directive) : sepsIgnored (directiveI d) = true := by
  simp [directiveI, seps_argsParen]

@[simp] theorem render_directivesI (ds : List Directive) : render (directivesI ds) = directivesC ds := by
  simp [directivesI, directivesC, map_render directiveI directiveC render_directiveI]

theorem seps_directivesI (ds : List Directive) : sepsIgnored (directivesI ds) = true :=
  sepsIgnored_joinI _ _ sepsIgnored_spI (seps_map directiveI seps_directiveI ds)

@[simp] theorem render_optNameI (n : Option Name) : render (optNameI n) = optNameC n := by
  cases n <;> simp [optNameI, optNameC]

theorem seps_optNameI (n : Option Name) : sepsIgnored (optNameI n) = true := by cases n <;> rfl

mutual
theorem render_selectionI : ∀ s : Selection, render (selectionI s) = selectionC s
  | .field alias name args dirs sel _ => by
    simp [selectionI, selectionC, map_render argI argC render_argI, render_optSelSetI sel]
  | .spread name dirs _ => by simp [selectionI, selectionC]
  | .inline tc dirs sel _ => by simp [selectionI, selectionC, render_selSetI sel, kwOnW, sp]
theorem render_selSetI : ∀ s : SelectionSet, render (selSetI s) = selSetC s
  | .mk sels _ => by simp [selSetI, selSetC, render_selectionsI sels]
theorem render_optSelSetI : ∀ s : Option SelectionSet, render (optSelSetI s) = optSelSetC s
  | none => rfl
  | some s => by simp [optSelSetI, optSelSetC, render_selSetI s]
theorem render_selectionsI : ∀ ss : List Selection, (selectionsI ss).map render = selectionsC ss
  | [] => rfl
  | s :: ss => by simp [selectionsI, selectionsC, render_selectionI s, render_selectionsI ss]
end

mutual
theorem seps_selectionI : ∀ s : Selection, sepsIgnored (selectionI s) = true
  | .field alias name args dirs sel _ => by
    apply sepsIgnored_joinI _ _ sepsIgnored_spI
    intro x hx
    simp only [List.mem_cons, List.mem_nil_iff, or_false] at hx
    rcases hx with rfl | rfl | rfl
    · simp [seps_argsParen, sepsIgnored_wrapI [] _ colonSpI rfl (seps_optNameI alias) rfl]
    · exact seps_directivesI dirs
    · exact seps_optSelSetI sel
  | .spread name dirs _ => by
    simp [selectionI, sepsIgnored_wrapI spI _ [] rfl (seps_directivesI dirs) rfl]
  | .inline tc dirs sel _ => by
    apply sepsIgnored_joinI _ _ sepsIgnored_spI
    intro x hx
    simp only [List.mem_cons, List.mem_nil_iff, or_false] at hx
    rcases hx with rfl | rfl | rfl | rfl
    · rfl
    · exact sepsIgnored_wrapI _ _ _ rfl (seps_optTypeI tc) rfl
    · exact seps_directivesI dirs
    · exact seps_selSetI sel
theorem seps_selSetI : ∀ s : SelectionSet, sepsIgnored (selSetI s) = true
  | .mk sels _ => sepsIgnored_blockI _ (seps_selectionsI sels)
theorem seps_optSelSetI : ∀ s : Option SelectionSet, sepsIgnored (optSelSetI s) = true
  | none => rfl
  | some s => seps_selSetI s
theorem seps_selectionsI : ∀ ss : List Selection, ∀ x ∈ selectionsI ss, sepsIgnored x = true
  | [], x, h => by simp [selectionsI] at h
  | s :: ss, x, h => by
    simp only [selectionsI, List.mem_cons] at h
    rcases h with rfl | h
    · exact seps_selectionI s
    · exact seps_selectionsI ss x h
end

/-! ## definitions -/

@[simp] theorem render_varDefI (v : VarDef) : render (varDefI v) = varDefC v := by
  simp [varDefI, varDefC, sp]

theorem seps_varDefI (v : VarDef) : sepsIgnored (varDefI v) = true := by
  simp [varDefI, seps_optTypeI, sepsIgnored_wrapI (spI ++ (pI .equals ['='] ++ spI)) _ [] rfl (seps_optValueI v.default) rfl]

@[simp] theorem render_inputValueDefI (d : InputValueDef) : render (inputValueDefI d) = inputValueDefC d := by
  simp [inputValueDefI, inputValueDefC, render_typeI, sp]

theorem seps_inputValueDefI (d : InputValueDef) : sepsIgnored (inputValueDefI d) = true := by
  apply sepsIgnored_withDescMemberI
  apply sepsIgnored_joinI _ _ sepsIgnored_spI
  intro x hx
  simp only [List.mem_cons, List.mem_nil_iff, or_false] at hx
  rcases hx with rfl | rfl | rfl
  · simp [seps_typeI]
  · exact sepsIgnored_wrapI _ _ _ rfl (seps_optValueI d.default) rfl
  · exact seps_directivesI d.dirs

@[simp] theorem render_argDefsI (args : List InputValueDef) : render (argDefsI args) = argDefsC args := by
  simp only [argDefsI, argDefsC]
  split <;> simp [map_render inputValueDefI inputValueDefC render_inputValueDefI]

theorem seps_argDefsI (args : List InputValueDef) : sepsIgnored (argDefsI args) = true := by
  simp only [argDefsI]
  split
  · apply sepsIgnored_wrapI _ _ _ rfl _ rfl
    apply sepsIgnored_indentI
    simp [sepsIgnored_joinI _ _ sepsIgnored_sI_nl (seps_map inputValueDefI seps_inputValueDefI args)]
  · exact sepsIgnored_wrapI _ _ _ rfl
      (sepsIgnored_joinI _ _ sepsIgnored_commaSpI (seps_map inputValueDefI seps_inputValueDefI args)) rfl

@[simp] theorem render_fieldDefI (d : FieldDef) : render (fieldDefI d) = fieldDefC d := by
  simp [fieldDefI, fieldDefC, render_typeI]

theorem seps_fieldDefI (d : FieldDef) : sepsIgnored (fieldDefI d) = true := by
  apply sepsIgnored_withDescMemberI
  simp [seps_argDefsI, seps_typeI, sepsIgnored_wrapI spI _ [] rfl (seps_directivesI d.dirs) rfl]

@[simp] theorem render_enumValueDefI (d : EnumValueDef) : render (enumValueDefI d) = enumValueDefC d := by
  simp [enumValueDefI, enumValueDefC]

theorem seps_enumValueDefI (d : EnumValueDef) : sepsIgnored (enumValueDefI d) = true := by
  apply sepsIgnored_withDescMemberI
  apply sepsIgnored_joinI _ _ sepsIgnored_spI
  intro x hx
  simp only [List.mem_cons, List.mem_nil_iff, or_false] at hx
  rcases hx with rfl | rfl
  · rfl
  · exact seps_directivesI d.dirs

@[simp] theorem render_opTypeDefI (d : OpTypeDef) : render (opTypeDefI d) = opTypeDefC d := by
  simp [opTypeDefI, opTypeDefC, render_typeI]

theorem seps_opTypeDefI (d : OpTypeDef) : sepsIgnored (opTypeDefI d) = true := by
  simp [opTypeDefI, seps_typeI]

theorem render_operationI (op : OpType) (name : Option Name) (vars : List VarDef) (dirs : List Directive)
    (sel : SelectionSet) : render (operationI op name vars dirs sel) = operationC op name vars dirs sel := by
  have hv : List.map (render ∘ varDefI) vars = List.map varDefC vars := by
    simp [Function.comp_def]
  simp only [operationI, operationC, render_optNameI, render_directivesI, render_wrapI, render_joinI, render_pI,
    render_commaSpI, map_render varDefI varDefC render_varDefI]
  split <;> simp [render_selSetI, hv]

theorem seps_operationI (op : OpType) (name : Option Name) (vars : List VarDef) (dirs : List Directive)
    (sel : SelectionSet) : sepsIgnored (operationI op name vars dirs sel) = true := by
  have hv : sepsIgnored (wrapI (pI .parenL ['(']) (joinI (vars.map varDefI) commaSpI) (pI .parenR [')'])) = true :=
    sepsIgnored_wrapI _ _ _ rfl (sepsIgnored_joinI _ _ sepsIgnored_commaSpI (seps_map varDefI seps_varDefI vars)) rfl
  simp only [operationI]
  split
  · exact seps_selSetI sel
  · apply sepsIgnored_joinI _ _ sepsIgnored_spI
    intro x hx
    simp only [List.mem_cons, List.mem_nil_iff, or_false] at hx
    rcases hx with rfl | rfl | rfl | rfl
    · rfl
    · apply sepsIgnored_joinI _ _ rfl
      intro y hy
      simp only [List.mem_cons, List.mem_nil_iff, or_false] at hy
      rcases hy with rfl | rfl
      · exact seps_optNameI name
      · exact hv
    · exact seps_directivesI dirs
    · exact seps_selSetI sel

theorem render_fragmentI (name : Name) (tc : TypeRef) (dirs : List Directive) (sel : SelectionSet) :
    render (fragmentI name tc dirs sel) = fragmentC name tc dirs sel := by
  simp [fragmentI, fragmentC, render_typeI, render_selSetI, kwFragment]

theorem seps_fragmentI (name : Name) (tc : TypeRef) (dirs : List Directive) (sel : SelectionSet) :
    sepsIgnored (fragmentI name tc dirs sel) = true := by
  simp [fragmentI, seps_typeI, seps_selSetI, sepsIgnored_wrapI [] _ spI rfl (seps_directivesI dirs) rfl]

theorem seps_join3 (a b c : List Item) (ha : sepsIgnored a = true) (hb : sepsIgnored b = true)
    (hc : sepsIgnored c = true) : sepsIgnored (joinI [a, b, c] spI) = true := by
  apply sepsIgnored_joinI _ _ sepsIgnored_spI
  intro x hx
  simp only [List.mem_cons, List.mem_nil_iff, or_false] at hx
  rcases hx with rfl | rfl | rfl <;> assumption

theorem seps_join4 (a b c d : List Item) (ha : sepsIgnored a = true) (hb : sepsIgnored b = true)
    (hc : sepsIgnored c = true) (hd : sepsIgnored d = true) : sepsIgnored (joinI [a, b, c, d] spI) = true := by
  apply sepsIgnored_joinI _ _ sepsIgnored_spI
  intro x hx
  simp only [List.mem_cons, List.mem_nil_iff, or_false] at hx
  rcases hx with rfl | rfl | rfl | rfl <;> assumption

theorem render_schemaI (dirs : List Directive) (ops : List OpTypeDef) : render (schemaI dirs ops) = schemaC dirs ops := by
  simp [schemaI, schemaC, map_render opTypeDefI opTypeDefC render_opTypeDefI]

theorem seps_schemaI (dirs : List Directive) (ops : List OpTypeDef) : sepsIgnored (schemaI dirs ops) = true :=
  seps_join3 _ _ _ rfl (seps_directivesI dirs) (sepsIgnored_blockI _ (seps_map opTypeDefI seps_opTypeDefI ops))

theorem render_scalarI (desc : Option String) (name : Name) (dirs : List Directive) :
    render (scalarI desc name dirs) = scalarC desc name dirs := by
  simp [scalarI, scalarC]

theorem seps_scalarI (desc : Option String) (name : Name) (dirs : List Directive) :
    sepsIgnored (scalarI desc name dirs) = true :=
  sepsIgnored_withDescTopI _ _ (seps_join3 _ _ _ rfl rfl (seps_directivesI dirs))

theorem render_objectDefI (d : ObjectDef) : render (objectDefI d) = objectDefC d := by
  simp [objectDefI, objectDefC, map_render typeI typeC render_typeI, map_render fieldDefI fieldDefC render_fieldDefI,
    kwImplements]

theorem seps_objectDefI (d : ObjectDef) : sepsIgnored (objectDefI d) = true := by
  apply sepsIgnored_withDescTopI
  apply sepsIgnored_joinI _ _ sepsIgnored_spI
  intro x hx
  simp only [List.mem_cons, List.mem_nil_iff, or_false] at hx
  rcases hx with rfl | rfl | rfl | rfl | rfl
  · rfl
  · rfl
  · exact sepsIgnored_wrapI _ _ _ rfl (sepsIgnored_joinI _ _ sepsIgnored_ampI (seps_map typeI seps_typeI d.interfaces)) rfl
  · exact seps_directivesI d.dirs
  · exact sepsIgnored_blockI _ (seps_map fieldDefI seps_fieldDefI d.fields)

theorem render_interfaceI (desc : Option String) (name : Name) (dirs : List Directive) (fields : List FieldDef) :
    render (interfaceI desc name dirs fields) = interfaceC desc name dirs fields := by
  simp [interfaceI, interfaceC, map_render fieldDefI fieldDefC render_fieldDefI]

theorem seps_interfaceI (desc : Option String) (name : Name) (dirs : List Directive) (fields : List FieldDef) :
    sepsIgnored (interfaceI desc name dirs fields) = true :=
  sepsIgnored_withDescTopI _ _ (seps_join4 _ _ _ _ rfl rfl (seps_directivesI dirs)
    (sepsIgnored_blockI _ (seps_map fieldDefI seps_fieldDefI fields)))

theorem render_unionI (desc : Option String) (name : Name) (dirs : List Directive) (types : List TypeRef) :
    render (unionI desc name dirs types) = unionC desc name dirs types := by
  simp [unionI, unionC, map_render typeI typeC render_typeI, sp]

theorem seps_unionI (desc : Option String) (name : Name) (dirs : List Directive) (types : List TypeRef) :
    sepsIgnored (unionI desc name dirs types) = true := by
  apply sepsIgnored_withDescTopI
  refine seps_join4 _ _ _ _ rfl rfl (seps_directivesI dirs) ?_
  simp [sepsIgnored_joinI _ _ sepsIgnored_pipeI (seps_map typeI seps_typeI types)]

theorem render_enumI (desc : Option String) (name : Name) (dirs : List Directive) (values : List EnumValueDef) :
    render (enumI desc name dirs values) = enumC desc name dirs values := by
  simp [enumI, enumC, map_render enumValueDefI enumValueDefC render_enumValueDefI]

theorem seps_enumI (desc : Option String) (name : Name) (dirs : List Directive) (values : List EnumValueDef) :
    sepsIgnored (enumI desc name dirs values) = true :=
  sepsIgnored_withDescTopI _ _ (seps_join4 _ _ _ _ rfl rfl (seps_directivesI dirs)
    (sepsIgnored_blockI _ (seps_map enumValueDefI seps_enumValueDefI values)))

theorem render_inputObjectI (desc : Option String) (name : Name) (dirs : List Directive) (fields : List InputValueDef) :
    render (inputObjectI desc name dirs fields) = inputObjectC desc name dirs fields := by
  simp [inputObjectI, inputObjectC, map_render inputValueDefI inputValueDefC render_inputValueDefI]

theorem seps_inputObjectI (desc : Option String) (name : Name) (dirs : List Directive) (fields : List InputValueDef) :
    sepsIgnored (inputObjectI desc name dirs fields) = true :=
  sepsIgnored_withDescTopI _ _ (seps_join4 _ _ _ _ rfl rfl (seps_directivesI dirs)
    (sepsIgnored_blockI _ (seps_map inputValueDefI seps_inputValueDefI fields)))

theorem render_extendI (d : ObjectDef) : render (extendI d) = extendC d := by
  simp [extendI, extendC, render_objectDefI, kwExtend]

theorem seps_extendI (d : ObjectDef) : sepsIgnored (extendI d) = true := by
  simp [extendI, seps_objectDefI]

theorem render_directiveDefI (desc : Option String) (name : Name) (args : List InputValueDef) (locations : List Name) :
    render (directiveDefI desc name args locations) = directiveDefC desc name args locations := by
  simp [directiveDefI, directiveDefC, kwDirectiveAt, List.map_map, Function.comp_def]

theorem seps_directiveDefI (desc : Option String) (name : Name) (args : List InputValueDef) (locations : List Name) :
    sepsIgnored (directiveDefI desc name args locations) = true := by
  apply sepsIgnored_withDescTopI
  simp [seps_argDefsI, sepsIgnored_joinI _ _ sepsIgnored_pipeI (seps_map (fun n : Name => nI n.value) (fun _ => rfl) locations)]

theorem render_definitionI (d : Definition) : render (definitionI d) = definitionC d := by
  cases d <;> simp only [definitionI, definitionC, render_operationI, render_fragmentI, render_schemaI, render_scalarI,
    render_objectDefI, render_interfaceI, render_unionI, render_enumI, render_inputObjectI, render_extendI,
    render_directiveDefI]

theorem seps_definitionI (d : Definition) : sepsIgnored (definitionI d) = true := by
  cases d <;> simp only [definitionI, seps_operationI, seps_fragmentI, seps_schemaI, seps_scalarI,
    seps_objectDefI, seps_interfaceI, seps_unionI, seps_enumI, seps_inputObjectI, seps_extendI,
    seps_directiveDefI]

theorem render_docI (d : Document) : render (docI d) = documentC d := by
  simp [docI, documentC, map_render definitionI definitionC render_definitionI]

theorem seps_docI (d : Document) : sepsIgnored (docI d) = true := by
  have : sepsIgnored (sI ['\n', '\n']) = true := rfl
  simp [docI, sepsIgnored_joinI _ _ this (seps_map definitionI seps_definitionI d.defs)]

end GqlModel.Printer
