import GqlModel.Grammar
/-! Big-step semantics `Run` of the generic EBNF interpreter `Grammar.run` (C03, `recognise_iff_derives`):
`Run g ts o` — on the tokens `ts` the right-hand side `g` fails (`o = no`) or matches leaving `r` (`o = rest r`).
`run` with enough fuel computes exactly `Run` (`run_sound`, `run_complete`); hence `Run` is deterministic. -/
namespace GqlModel.Grammar
open GqlModel

inductive Out
  | no
  | rest (ts : List Token)

def Out.toR : Out → R
  | .no => .no
  | .rest r => .rest r

inductive Run : G → List Token → Out → Prop
  | tok_ok {k t r} : t.kind = k → Run (.tok k) (t :: r) (.rest r)
  | tok_no {k t r} : t.kind ≠ k → Run (.tok k) (t :: r) .no
  | tok_nil {k} : Run (.tok k) [] .no
  | kw_ok {s t r} : (t.kind = .name ∧ t.value = s) → Run (.kw s) (t :: r) (.rest r)
  | kw_no {s t r} : ¬ (t.kind = .name ∧ t.value = s) → Run (.kw s) (t :: r) .no
  | kw_nil {s} : Run (.kw s) [] .no
  | nb_ok {ex t r} : (t.kind = .name ∧ ¬ t.value ∈ ex) → Run (.nameBut ex) (t :: r) (.rest r)
  | nb_no {ex t r} : ¬ (t.kind = .name ∧ ¬ t.value ∈ ex) → Run (.nameBut ex) (t :: r) .no
  | nb_nil {ex} : Run (.nameBut ex) [] .no
  | eps {ts} : Run .eps ts (.rest ts)
  | seq_ok {a b ts r o} : Run a ts (.rest r) → Run b r o → Run (.seq a b) ts o
  | seq_no {a b ts} : Run a ts .no → Run (.seq a b) ts .no
  | alt_l {a b ts r} : Run a ts (.rest r) → Run (.alt a b) ts (.rest r)
  | alt_r {a b ts o} : Run a ts .no → Run b ts o → Run (.alt a b) ts o
  | opt_some {a ts r} : Run a ts (.rest r) → Run (.opt a) ts (.rest r)
  | opt_none {a ts} : Run a ts .no → Run (.opt a) ts (.rest ts)
  | star_done {a ts} : Run a ts .no → Run (.star a) ts (.rest ts)
  | star_more {a ts r o} : Run a ts (.rest r) → r.length < ts.length → Run (.star a) r o → Run (.star a) ts o
  | star_stuck {a ts r} : Run a ts (.rest r) → ¬ r.length < ts.length → Run (.star a) ts (.rest r)
  | optIf_yes {c a ts o} : c.holds ts = true → Run a ts o → Run (.optIf c a) ts o
  | optIf_no {c a ts} : c.holds ts = false → Run (.optIf c a) ts (.rest ts)
  | starIf_done {c a ts} : c.holds ts = false → Run (.starIf c a) ts (.rest ts)
  | starIf_no {c a ts} : c.holds ts = true → Run a ts .no → Run (.starIf c a) ts .no
  | starIf_more {c a ts r o} : c.holds ts = true → Run a ts (.rest r) → r.length < ts.length → Run (.starIf c a) r o →
      Run (.starIf c a) ts o
  | starIf_stuck {c a ts r} : c.holds ts = true → Run a ts (.rest r) → ¬ r.length < ts.length → Run (.starIf c a) ts (.rest r)
  | nt {x ts o} : Run (rule x) ts o → Run (.nt x) ts o

/-- the interpreter is sound for the big-step semantics -/
theorem run_sound : ∀ (n : Nat) (g : G) (ts : List Token) (o : Out), run n g ts = o.toR → Run g ts o := by
  intro n
  induction n with
  | zero => intro g ts o h; cases o <;> simp [run, Out.toR] at h
  | succ n ih =>
    intro g ts o h
    cases g with
    | tok k =>
      cases ts with
      | nil => cases o <;> simp [run, Out.toR] at h; exact .tok_nil
      | cons t r =>
        simp only [run] at h
        split at h
        · cases o <;> simp [Out.toR] at h; subst h; exact .tok_ok ‹_›
        · cases o <;> simp [Out.toR] at h; exact .tok_no ‹_›
    | kw s =>
      cases ts with
      | nil => cases o <;> simp [run, Out.toR] at h; exact .kw_nil
      | cons t r =>
        simp only [run] at h
        split at h
        · cases o <;> simp [Out.toR] at h; subst h; exact .kw_ok ‹_›
        · cases o <;> simp [Out.toR] at h; exact .kw_no ‹_›
    | nameBut ex =>
      cases ts with
      | nil => cases o <;> simp [run, Out.toR] at h; exact .nb_nil
      | cons t r =>
        simp only [run] at h
        split at h
        · cases o <;> simp [Out.toR] at h; subst h; exact .nb_ok ‹_›
        · cases o <;> simp [Out.toR] at h; exact .nb_no ‹_›
    | eps => cases o <;> simp [run, Out.toR] at h; subst h; exact .eps
    | seq a b =>
      simp only [run] at h
      cases ha : run n a ts with
      | fuel => simp [ha] at h; cases o <;> simp [Out.toR] at h
      | no => simp [ha] at h; cases o <;> simp [Out.toR] at h; exact .seq_no (ih a ts .no ha)
      | rest r => simp [ha] at h; exact .seq_ok (ih a ts (.rest r) ha) (ih b r o h)
    | alt a b =>
      simp only [run] at h
      cases ha : run n a ts with
      | fuel => simp [ha] at h; cases o <;> simp [Out.toR] at h
      | no => simp [ha] at h; exact .alt_r (ih a ts .no ha) (ih b ts o h)
      | rest r => simp [ha] at h; cases o <;> simp [Out.toR] at h; subst h; exact .alt_l (ih a ts (.rest r) ha)
    | opt a =>
      simp only [run] at h
      cases ha : run n a ts with
      | fuel => simp [ha] at h; cases o <;> simp [Out.toR] at h
      | no => simp [ha] at h; cases o <;> simp [Out.toR] at h; subst h; exact .opt_none (ih a ts .no ha)
      | rest r => simp [ha] at h; cases o <;> simp [Out.toR] at h; subst h; exact .opt_some (ih a ts (.rest r) ha)
    | star a =>
      simp only [run] at h
      cases ha : run n a ts with
      | fuel => simp [ha] at h; cases o <;> simp [Out.toR] at h
      | no => simp [ha] at h; cases o <;> simp [Out.toR] at h; subst h; exact .star_done (ih a ts .no ha)
      | rest r =>
        simp only [ha] at h
        split at h
        · exact .star_more (ih a ts (.rest r) ha) ‹_› (ih (.star a) r o h)
        · cases o <;> simp [Out.toR] at h; subst h; exact .star_stuck (ih a ts (.rest r) ha) ‹_›
    | optIf c a =>
      simp only [run] at h
      split at h
      · exact .optIf_yes ‹_› (ih a ts o h)
      · cases o <;> simp [Out.toR] at h; subst h; exact .optIf_no (Bool.eq_false_iff.mpr ‹¬ _›)
    | starIf c a =>
      simp only [run] at h
      split at h
      · rename_i hc
        cases ha : run n a ts with
        | fuel => simp [ha] at h; cases o <;> simp [Out.toR] at h
        | no => simp [ha] at h; cases o <;> simp [Out.toR] at h; exact .starIf_no hc (ih a ts .no ha)
        | rest r =>
          simp only [ha] at h
          split at h
          · exact .starIf_more hc (ih a ts (.rest r) ha) ‹_› (ih (.starIf c a) r o h)
          · cases o <;> simp [Out.toR] at h; subst h; exact .starIf_stuck hc (ih a ts (.rest r) ha) ‹_›
      · cases o <;> simp [Out.toR] at h; subst h; exact .starIf_done (Bool.eq_false_iff.mpr ‹¬ _›)
    | nt x => simp only [run] at h; exact .nt (ih (rule x) ts o h)

/-- with enough fuel the interpreter computes the big-step result -/
theorem run_complete {g : G} {ts : List Token} {o : Out} (h : Run g ts o) : ∃ N, ∀ n, N ≤ n → run n g ts = o.toR := by
  induction h with
  | tok_ok hk => exact ⟨1, fun n hn => by obtain ⟨m, rfl⟩ : ∃ m, n = m + 1 := ⟨n - 1, by omega⟩; simp [run, hk, Out.toR]⟩
  | tok_no hk => exact ⟨1, fun n hn => by obtain ⟨m, rfl⟩ : ∃ m, n = m + 1 := ⟨n - 1, by omega⟩; simp [run, hk, Out.toR]⟩
  | tok_nil => exact ⟨1, fun n hn => by obtain ⟨m, rfl⟩ : ∃ m, n = m + 1 := ⟨n - 1, by omega⟩; simp [run, Out.toR]⟩
  | kw_ok hk => exact ⟨1, fun n hn => by obtain ⟨m, rfl⟩ : ∃ m, n = m + 1 := ⟨n - 1, by omega⟩; simp [run, hk, Out.toR]⟩
  | kw_no hk => exact ⟨1, fun n hn => by obtain ⟨m, rfl⟩ : ∃ m, n = m + 1 := ⟨n - 1, by omega⟩; simp only [run, if_neg hk, Out.toR]⟩
  | kw_nil => exact ⟨1, fun n hn => by obtain ⟨m, rfl⟩ : ∃ m, n = m + 1 := ⟨n - 1, by omega⟩; simp [run, Out.toR]⟩
  | nb_ok hk => exact ⟨1, fun n hn => by obtain ⟨m, rfl⟩ : ∃ m, n = m + 1 := ⟨n - 1, by omega⟩; simp only [run, if_pos hk, Out.toR]⟩
  | nb_no hk => exact ⟨1, fun n hn => by obtain ⟨m, rfl⟩ : ∃ m, n = m + 1 := ⟨n - 1, by omega⟩; simp only [run, if_neg hk, Out.toR]⟩
  | nb_nil => exact ⟨1, fun n hn => by obtain ⟨m, rfl⟩ : ∃ m, n = m + 1 := ⟨n - 1, by omega⟩; simp [run, Out.toR]⟩
  | eps => exact ⟨1, fun n hn => by obtain ⟨m, rfl⟩ : ∃ m, n = m + 1 := ⟨n - 1, by omega⟩; simp [run, Out.toR]⟩
  | seq_ok _ _ iha ihb =>
    obtain ⟨Na, ha⟩ := iha; obtain ⟨Nb, hb⟩ := ihb
    refine ⟨max Na Nb + 1, fun n hn => ?_⟩
    obtain ⟨m, rfl⟩ : ∃ m, n = m + 1 := ⟨n - 1, by omega⟩
    simp only [run, ha m (by omega), Out.toR, hb m (by omega)]
  | seq_no _ iha =>
    obtain ⟨Na, ha⟩ := iha
    refine ⟨Na + 1, fun n hn => ?_⟩
    obtain ⟨m, rfl⟩ : ∃ m, n = m + 1 := ⟨n - 1, by omega⟩
    simp only [run, ha m (by omega), Out.toR]
  | alt_l _ iha =>
    obtain ⟨Na, ha⟩ := iha
    refine ⟨Na + 1, fun n hn => ?_⟩
    obtain ⟨m, rfl⟩ : ∃ m, n = m + 1 := ⟨n - 1, by omega⟩
    simp only [run, ha m (by omega), Out.toR]
  | alt_r _ _ iha ihb =>
    obtain ⟨Na, ha⟩ := iha; obtain ⟨Nb, hb⟩ := ihb
    refine ⟨max Na Nb + 1, fun n hn => ?_⟩
    obtain ⟨m, rfl⟩ : ∃ m, n = m + 1 := ⟨n - 1, by omega⟩
    simp only [run, ha m (by omega), Out.toR, hb m (by omega)]
  | opt_some _ iha =>
    obtain ⟨Na, ha⟩ := iha
    refine ⟨Na + 1, fun n hn => ?_⟩
    obtain ⟨m, rfl⟩ : ∃ m, n = m + 1 := ⟨n - 1, by omega⟩
    simp only [run, ha m (by omega), Out.toR]
  | opt_none _ iha =>
    obtain ⟨Na, ha⟩ := iha
    refine ⟨Na + 1, fun n hn => ?_⟩
    obtain ⟨m, rfl⟩ : ∃ m, n = m + 1 := ⟨n - 1, by omega⟩
    simp only [run, ha m (by omega), Out.toR]
  | star_done _ iha =>
    obtain ⟨Na, ha⟩ := iha
    refine ⟨Na + 1, fun n hn => ?_⟩
    obtain ⟨m, rfl⟩ : ∃ m, n = m + 1 := ⟨n - 1, by omega⟩
    simp only [run, ha m (by omega), Out.toR]
  | star_more _ hlt _ iha ihb =>
    obtain ⟨Na, ha⟩ := iha; obtain ⟨Nb, hb⟩ := ihb
    refine ⟨max Na Nb + 1, fun n hn => ?_⟩
    obtain ⟨m, rfl⟩ : ∃ m, n = m + 1 := ⟨n - 1, by omega⟩
    simp only [run, ha m (by omega), Out.toR, if_pos hlt, hb m (by omega)]
  | star_stuck _ hlt iha =>
    obtain ⟨Na, ha⟩ := iha
    refine ⟨Na + 1, fun n hn => ?_⟩
    obtain ⟨m, rfl⟩ : ∃ m, n = m + 1 := ⟨n - 1, by omega⟩
    simp only [run, ha m (by omega), Out.toR, if_neg hlt]
  | optIf_yes hc _ iha =>
    obtain ⟨Na, ha⟩ := iha
    refine ⟨Na + 1, fun n hn => ?_⟩
    obtain ⟨m, rfl⟩ : ∃ m, n = m + 1 := ⟨n - 1, by omega⟩
    simp only [run, hc, if_true, ha m (by omega)]
  | optIf_no hc =>
    refine ⟨1, fun n hn => ?_⟩
    obtain ⟨m, rfl⟩ : ∃ m, n = m + 1 := ⟨n - 1, by omega⟩
    simp [run, hc, Out.toR]
  | starIf_done hc =>
    refine ⟨1, fun n hn => ?_⟩
    obtain ⟨m, rfl⟩ : ∃ m, n = m + 1 := ⟨n - 1, by omega⟩
    simp [run, hc, Out.toR]
  | starIf_no hc _ iha =>
    obtain ⟨Na, ha⟩ := iha
    refine ⟨Na + 1, fun n hn => ?_⟩
    obtain ⟨m, rfl⟩ : ∃ m, n = m + 1 := ⟨n - 1, by omega⟩
    simp only [run, hc, if_true, ha m (by omega), Out.toR]
  | starIf_more hc _ hlt _ iha ihb =>
    obtain ⟨Na, ha⟩ := iha; obtain ⟨Nb, hb⟩ := ihb
    refine ⟨max Na Nb + 1, fun n hn => ?_⟩
    obtain ⟨m, rfl⟩ : ∃ m, n = m + 1 := ⟨n - 1, by omega⟩
    simp only [run, hc, if_true, ha m (by omega), Out.toR, if_pos hlt, hb m (by omega)]
  | starIf_stuck hc _ hlt iha =>
    obtain ⟨Na, ha⟩ := iha
    refine ⟨Na + 1, fun n hn => ?_⟩
    obtain ⟨m, rfl⟩ : ∃ m, n = m + 1 := ⟨n - 1, by omega⟩
    simp only [run, hc, if_true, ha m (by omega), Out.toR, if_neg hlt]
  | nt _ ih =>
    obtain ⟨N, h⟩ := ih
    refine ⟨N + 1, fun n hn => ?_⟩
    obtain ⟨m, rfl⟩ : ∃ m, n = m + 1 := ⟨n - 1, by omega⟩
    simp only [run, h m (by omega)]

/-- a match never returns more tokens than it was given -/
theorem Run.le {g : G} {ts : List Token} {o : Out} (h : Run g ts o) : ∀ r, o = .rest r → r.length ≤ ts.length := by
  induction h with
  | tok_ok _ => intro r h; cases h; simp
  | kw_ok _ => intro r h; cases h; simp
  | nb_ok _ => intro r h; cases h; simp
  | eps => intro r h; cases h; exact Nat.le_refl _
  | seq_ok _ _ iha ihb => intro r h; exact Nat.le_trans (ihb r h) (iha _ rfl)
  | alt_l _ iha => intro r h; exact iha r h
  | alt_r _ _ _ ihb => intro r h; exact ihb r h
  | opt_some _ iha => intro r h; exact iha r h
  | opt_none _ _ => intro r h; cases h; exact Nat.le_refl _
  | star_done _ _ => intro r h; cases h; exact Nat.le_refl _
  | star_more _ hlt _ _ ihb => intro r h; exact Nat.le_trans (ihb r h) (Nat.le_of_lt hlt)
  | star_stuck _ _ iha => intro r h; exact iha r h
  | optIf_yes _ _ iha => intro r h; exact iha r h
  | optIf_no _ => intro r h; cases h; exact Nat.le_refl _
  | starIf_done _ => intro r h; cases h; exact Nat.le_refl _
  | starIf_more _ _ hlt _ _ ihb => intro r h; exact Nat.le_trans (ihb r h) (Nat.le_of_lt hlt)
  | starIf_stuck _ _ _ iha => intro r h; exact iha r h
  | nt _ ih => intro r h; exact ih r h
  | _ => intro r h; cases h

theorem Out.toR_inj {a b : Out} (h : a.toR = b.toR) : a = b := by
  cases a <;> cases b <;> simp [Out.toR] at h <;> simp [h]

/-- the big-step semantics is deterministic -/
theorem Run.det {g : G} {ts : List Token} {o o' : Out} (h : Run g ts o) (h' : Run g ts o') : o = o' := by
  obtain ⟨N, hN⟩ := run_complete h
  obtain ⟨N', hN'⟩ := run_complete h'
  have a := hN (max N N') (by omega)
  have b := hN' (max N N') (by omega)
  exact Out.toR_inj (a.symm.trans b)

end GqlModel.Grammar
