import GqlProofs.ValidateOverlapMeasure
/-! # C02 completeness, part 3b: semantic helper lemmas (flag weakening, self pairs, shape of `flat`, call lists) -/
namespace GqlModel.Validate.Overlap
open GqlModel.Validate GqlModel.Validate.Graph

variable {d : Document} {e : Env} {π : SelectionSet → Option String}

/-- a conflict that exists even under mutual exclusivity exists under any flag -/
theorem PairConflict.weaken {a b : FieldOcc} (h : PairConflict e true a b) : ∀ x, PairConflict e x a b := by
  generalize hx : true = t at h
  induction h with
  | base hb =>
    subst hx
    intro x
    refine .base ?_
    simp only [baseConflict, exclOf, Bool.true_or, Bool.not_true, Bool.false_and, Bool.false_or] at hb
    simp only [baseConflict, hb, Bool.or_true]
  | sub s1 s2 a' b' h1 h2 ha hb hk _ ih =>
    subst hx
    intro x
    rename_i a0 b0 _
    have : exclOf e true a0 b0 = true := by simp [exclOf]
    exact .sub s1 s2 a' b' h1 h2 ha hb hk (ih this.symm _)

theorem PairConflict.toFalse {x : Bool} {a b : FieldOcc} (h : PairConflict e x a b) : PairConflict e false a b := by
  cases x with
  | false => exact h
  | true => exact h.weaken false

/-- no conflict under the stored flag `s` implies none under a query flag `x` that `Has` accepts -/
theorem noPC_of_stored {s x : Bool} (hsx : x = true ∨ s = false) {a b : FieldOcc} (h : ¬ PairConflict e s a b) :
    ¬ PairConflict e x a b := by
  intro hp
  apply h
  rcases hsx with rfl | rfl
  · cases s with
    | true => exact hp
    | false => exact hp.toFalse
  · exact hp.toFalse

mutual
theorem valueEq_refl : ∀ v : Value, valueEq v v = true
  | .var _ _ => by simp [valueEq]
  | .int _ _ => by simp [valueEq]
  | .float _ _ => by simp [valueEq]
  | .str _ _ => by simp [valueEq]
  | .bool _ _ => by simp [valueEq]
  | .enum _ _ => by simp [valueEq]
  | .list xs _ => by simp only [valueEq]; exact valuesEq_refl xs
  | .obj xs _ => by simp only [valueEq]; exact objFieldsEq_refl xs
theorem valuesEq_refl : ∀ xs : List Value, valuesEq xs xs = true
  | [] => by simp [valuesEq]
  | x :: xs => by simp only [valuesEq, valueEq_refl x, valuesEq_refl xs, Bool.and_self]
theorem objFieldEq_refl : ∀ f : ObjField, objFieldEq f f = true
  | .mk n v _ => by simp only [objFieldEq, beq_self_eq_true, valueEq_refl v, Bool.and_self]
theorem objFieldsEq_refl : ∀ xs : List ObjField, objFieldsEq xs xs = true
  | [] => by simp [objFieldsEq]
  | x :: xs => by simp only [objFieldsEq, objFieldEq_refl x, objFieldsEq_refl xs, Bool.and_self]
end

theorem argsIncl_refl (xs : List Argument) : argsIncl xs xs = true := by
  simp only [argsIncl, List.all_eq_true, List.any_eq_true, Bool.and_eq_true, beq_iff_eq]
  exact fun x hx => ⟨x, hx, rfl, valueEq_refl _⟩

theorem sameShapeTypes_refl (s : Schema) : ∀ t : GType, sameShapeTypes s t t = true
  | .named a => by simp [sameShapeTypes]
  | .list t => by simp only [sameShapeTypes]; exact sameShapeTypes_refl s t
  | .nonNull t => by simp only [sameShapeTypes]; exact sameShapeTypes_refl s t

theorem exclusive_self (s : Schema) (p : Option String) : exclusive s p p = false := by
  cases p <;> simp [exclusive]

theorem baseConflict_self (a : FieldOcc) : baseConflict e false a a = false := by
  have h1 : sameArgsS a.node.args a.node.args = true := by simp [sameArgsS, argsIncl_refl]
  have h2 : shapeConflict e.s a a = false := by
    unfold shapeConflict
    cases a.fdef <;> simp [sameShapeTypes_refl]
  simp [baseConflict, h1, h2]

/-- a field conflicts with itself only through its own sub-selection -/
theorem pc_self {a : FieldOcc} (h : PairConflict e false a a) :
    ∃ s1 a' b', a.node.sel = some s1 ∧ a' ∈ flat e a.subParent s1 ∧ b' ∈ flat e a.subParent s1 ∧
      a'.node.key = b'.node.key ∧ PairConflict e false a' b' := by
  cases h with
  | base hb => rw [baseConflict_self] at hb; cases hb
  | sub s1 s2 a' b' h1 h2 ha hb hk hp =>
    rw [h1] at h2; cases h2
    have : exclOf e false a a = false := by simp [exclOf, exclusive_self]
    rw [this] at hp
    exact ⟨s1, a', b', h1, ha, hb, hk, hp⟩

theorem shapeConflict_eq (s : Schema) (a b : FieldOcc) : shapeConflict s a b = typesConflict s a b := by
  unfold shapeConflict typesConflict
  cases a.fdef <;> cases b.fdef <;> simp [doTypesConflict_eq]

/-- `flat` is the direct fields plus the fields of fragments reachable from a top-level spread -/
theorem flat_cases {pt : Option String} {ss : SelectionSet} {a : FieldOcc} (h : a ∈ flat e pt ss) :
    a ∈ directSet e pt ss ∨ ∃ r, r ∈ shallowSet ss ∧ FlatFrag e r a := by
  rcases List.mem_append.1 h with h | h
  · exact .inl h
  · rcases List.mem_flatMap.1 h with ⟨f, hf, ha⟩
    rcases mem_shallowFrags.1 hf with ⟨n, ⟨r, hr, hreach⟩, hl⟩
    exact .inr ⟨r, hr, n, f, hreach, hl, ha⟩

theorem flatFrag_defined {n : String} {a : FieldOcc} (h : FlatFrag e n a) : ∃ f, lookupFrag e.tbl n = some f := by
  rcases h with ⟨m, f, hr, hl, _⟩
  cases hr with
  | refl => exact ⟨f, hl⟩
  | step hedge _ => rcases shEdge_iff.1 hedge with ⟨g, hg, _⟩; exact ⟨g, hg⟩

/-- the fields of `FlatFrag n` are in the flattened body of `n` -/
theorem flatFrag_in_body (hc : Coh d e π) {n : String} {f : Frag} (hl : lookupFrag e.tbl n = some f)
    {a : FieldOcc} (h : FlatFrag e n a) : a ∈ flat e (π f.sel) f.sel := by
  rcases h with ⟨m, fm, hr, hlm, ha⟩
  cases hr with
  | refl =>
    rw [hl] at hlm; cases hlm
    rw [hc.frag f (lookupFrag_some hl).1]
    exact mem_flat_of_direct ha
  | step hedge hrest =>
    rcases shEdge_iff.1 hedge with ⟨g, hg, hb⟩
    rw [hl] at hg; cases hg
    exact mem_flat_of_flatFrag _ hb ⟨m, fm, hrest, hlm, ha⟩

/-- step B / C calls of a visit -/
theorem top_ff_mem (info : FieldsInfo) (fs : List String) (f : String) (h : f ∈ fs) :
    Call.ff false info f ∈ topFragCalls info fs := by
  induction fs with
  | nil => cases h
  | cons g rest ih =>
    simp only [topFragCalls, List.mem_cons, List.mem_append, List.mem_map]
    rcases List.mem_cons.1 h with rfl | h
    · exact .inl rfl
    · exact .inr (.inr (ih h))

theorem top_bf_mem (info : FieldsInfo) (fs : List String) (f g : String) (hf : f ∈ fs) (hg : g ∈ fs) (hne : f ≠ g) :
    Call.bf false f g ∈ topFragCalls info fs ∨ Call.bf false g f ∈ topFragCalls info fs := by
  induction fs with
  | nil => cases hf
  | cons h rest ih =>
    simp only [topFragCalls, List.mem_cons, List.mem_append, List.mem_map]
    rcases List.mem_cons.1 hf with rfl | hf' <;> rcases List.mem_cons.1 hg with rfl | hg'
    · exact absurd rfl hne
    · exact .inl (.inr (.inl ⟨g, hg', rfl⟩))
    · exact .inr (.inr (.inl ⟨f, hf', rfl⟩))
    · rcases ih hf' hg' with h' | h'
      · exact .inl (.inr (.inr h'))
      · exact .inr (.inr (.inr h'))

end GqlModel.Validate.Overlap
