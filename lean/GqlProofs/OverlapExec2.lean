import GqlProofs.OverlapExec
/-! # Bridge C02 → C01/C06, part 2: static field definitions vs the runtime field definition (schema covariance) -/
namespace GqlModel.OverlapExec
open GqlModel GqlModel.Validate GqlModel.Validate.Graph GqlModel.Validate.Overlap

/-- what schema construction guarantees and the bridge relies on -/
structure SchemaCov (s : Schema) : Prop where
  /-- an implementer has every field of its interface, with the same named type or — for an abstract field type — a
  possible object type of it -/
  impl : ∀ I rt name fdI, s.isInterface I = true → s.isPossibleType I rt = true →
    (s.fieldsOf I).find? (fun f => f.name == name) = some fdI →
    ∃ fd, (s.objectFields rt).find? (fun f => f.name == name) = some fd ∧
      (fd.type.namedName = fdI.type.namedName ∨
        (s.isObject fd.type.namedName = true ∧ s.isPossibleType fdI.type.namedName fd.type.namedName = true))
  /-- object types that fields refer to are declared types -/
  declared : ∀ P name fd, (s.objectFields P).find? (fun f => f.name == name) = some fd →
    s.objectT fd.type.namedName = true → s.isObject fd.type.namedName = true
  /-- no declared field is called `__typename`, and `String` is a leaf -/
  noTypename : ∀ P fd, fd ∈ s.fieldsOf P → fd.name ≠ "__typename"
  stringLeaf : s.objectT "String" = false ∧ s.isInterface "String" = false

/-- every field of a flattened set carries the definition the rule's lookup assigns under its parent type -/
def FdefOK (s : Schema) (a : FieldOcc) : Prop := a.fdef = a.parent.bind (fun p => lkFields s p a.node.name.value)

mutual
theorem directSel_fdef (s : Schema) (d : Document) : ∀ (pt : Option String) (x : Selection) (a : FieldOcc),
    a ∈ directSel (envM s d) pt x → FdefOK s a
  | pt, .field al nm args ds sel l, a, h => by
    simp only [directSel, List.mem_singleton] at h
    subst h
    rfl
  | pt, .spread .., a, h => by simp [directSel] at h
  | pt, .inline tc ds ss l, a, h => by
    simp only [directSel] at h
    exact directSet_fdef s d _ ss a h
theorem directSet_fdef (s : Schema) (d : Document) : ∀ (pt : Option String) (x : SelectionSet) (a : FieldOcc),
    a ∈ directSet (envM s d) pt x → FdefOK s a
  | pt, .mk sels l, a, h => by
    simp only [directSet] at h
    exact directSels_fdef s d pt sels a h
theorem directSels_fdef (s : Schema) (d : Document) : ∀ (pt : Option String) (x : List Selection) (a : FieldOcc),
    a ∈ directSels (envM s d) pt x → FdefOK s a
  | pt, [], a, h => by simp [directSels] at h
  | pt, x :: xs, a, h => by
    simp only [directSels, List.mem_append] at h
    rcases h with h | h
    · exact directSel_fdef s d pt x a h
    · exact directSels_fdef s d pt xs a h
end

theorem flat_fdef (s : Schema) (d : Document) (pt : Option String) (ss : SelectionSet) (a : FieldOcc)
    (h : a ∈ flat (envM s d) pt ss) : FdefOK s a := by
  rcases flat_cases h with h | ⟨r, _, m, f, _, _, ha⟩
  · exact directSet_fdef s d pt ss a h
  · exact directSet_fdef s d _ f.sel a ha

/-- `fieldsOf` (type map) and `objectFields` (declared types) agree on declared object / interface types -/
theorem fieldsOf_eq_objectFields {s : Schema} {m : String} (h : (s.find? m).isSome = true)
    (hk : s.objectT m = true ∨ s.isInterface m = true) : s.fieldsOf m = s.objectFields m := by
  unfold Schema.fieldsOf Schema.objectFields Schema.lookup
  cases hfm : s.find? m with
  | none => rw [hfm] at h; cases h
  | some td =>
    simp only
    by_cases hc : (isSpecScalarDef td && !(m == "String" || m == "Boolean" || s.referenced.contains m)) = true
    · exfalso
      have : isSpecScalarDef td = true := by
        simp only [Bool.and_eq_true] at hc; exact hc.1
      rcases hk with hk | hk
      · have := isObject_of_objectT hk h
        unfold Schema.isObject at this
        rw [hfm] at this
        cases td <;> simp_all [isSpecScalarDef]
      · unfold Schema.isInterface at hk
        rw [hfm] at hk
        cases td <;> simp_all [isSpecScalarDef]
    · rw [if_neg hc]
      cases td <;> rfl

theorem fieldsOf_nil {s : Schema} {m : String} (h1 : s.objectT m = false) (h2 : s.isInterface m = false) :
    s.fieldsOf m = [] := by
  unfold Schema.fieldsOf
  unfold Schema.objectT at h1
  cases hl : s.lookup m with
  | none => rfl
  | some td =>
    rw [hl] at h1
    cases td with
    | object => simp at h1
    | interface n fs b dsc =>
      exfalso
      -- an interface in the type map is a declared interface
      unfold Schema.lookup at hl
      cases hfm : s.find? m with
      | none =>
        rw [hfm] at hl
        simp only at hl
        have := List.find?_some hl
        have hmem := List.mem_of_find?_eq_some hl
        simp [introspectionTypes] at hmem
      | some td' =>
        rw [hfm] at hl
        simp only at hl
        split at hl
        · cases hl
        · cases hl
          unfold Schema.isInterface at h2
          rw [hfm] at h2
          simp at h2
    | _ => rfl

theorem not_objectT_of_possible {s : Schema} {N x : String} (h : s.isPossibleType N x = true) : s.objectT N = false := by
  unfold Schema.isPossibleType Schema.possibleTypes at h
  unfold Schema.objectT Schema.lookup
  cases hfm : s.find? N with
  | none => rw [hfm] at h; simp at h
  | some td =>
    rw [hfm] at h
    simp only
    by_cases hc : (isSpecScalarDef td && !(N == "String" || N == "Boolean" || s.referenced.contains N)) = true
    · rw [if_pos hc]
    · rw [if_neg hc]
      cases td <;> simp_all

theorem find_isSome_of_objectFields {s : Schema} {m : String} {p : FieldDefS → Bool} {fd : FieldDefS}
    (h : (s.objectFields m).find? p = some fd) : (s.find? m).isSome = true := by
  unfold Schema.objectFields at h
  cases hfm : s.find? m with
  | none => rw [hfm] at h; simp at h
  | some td => rfl

/-- the named type of the static definition of a collected field admits every runtime type the executor can descend
to through that field -/
theorem subParent_adm {s : Schema} (hcov : SchemaCov s) {rt ot : String} {a : FieldOcc} (hok : FdefOK s a)
    (hp : PtAdm s rt a.parent) {fd : FieldDefS} (hfd : Exec.fieldDef? s rt a.node.name.value = some fd)
    (h1 : s.isObject fd.type.namedName = true → ot = fd.type.namedName)
    (h2 : s.isAbstract fd.type.namedName = true →
      s.isObject ot = true ∧ s.isPossibleType fd.type.namedName ot = true) :
    PtAdm s ot a.subParent := by
  intro N hN
  unfold FieldOcc.subParent at hN
  cases hfa : a.fdef with
  | none => rw [hfa] at hN; cases hN
  | some fdA =>
    rw [hfa] at hN
    simp only [Option.map_some, Option.some.injEq] at hN
    subst hN
    unfold FdefOK at hok
    rw [hfa] at hok
    cases hpar : a.parent with
    | none => rw [hpar] at hok; cases hok
    | some m =>
      rw [hpar] at hok
      simp only [Option.bind_some] at hok
      have hadm := hp m hpar
      -- the admissibility of the runtime field type itself
      have admN0 : Adm s ot fd.type.namedName := by
        constructor
        · intro ho
          have hfdo : ∃ P name, (s.objectFields P).find? (fun f => f.name == name) = some fd ∨
              fd.type.namedName = "String" := by
            unfold Exec.fieldDef? at hfd
            split at hfd
            · cases hfd; exact ⟨"", "", .inr rfl⟩
            · exact ⟨rt, a.node.name.value, .inl hfd⟩
          rcases hfdo with ⟨P, name, h | h⟩
          · exact (h1 (hcov.declared P name fd h ho)).symm
          · rw [h] at ho; rw [hcov.stringLeaf.1] at ho; cases ho
        · intro hi
          have : s.isAbstract fd.type.namedName = true := by simp [Schema.isAbstract, hi]
          exact .inr (h2 this).2
      unfold lkFields at hok
      cases hfind : (s.fieldsOf m).find? (fun dd => dd.name == a.node.name.value) with
      | none =>
        rw [hfind] at hok
        simp only at hok
        split at hok
        · cases hok
          refine ⟨fun ho => ?_, fun hi => ?_⟩
          · have : (typeNameMetaField).type.namedName = "String" := rfl
            rw [this, hcov.stringLeaf.1] at ho; cases ho
          · have : (typeNameMetaField).type.namedName = "String" := rfl
            rw [this, hcov.stringLeaf.2] at hi; cases hi
        · cases hok
      | some dA =>
        rw [hfind] at hok
        simp only [Option.some.injEq] at hok
        subst hok
        have hmem := List.mem_of_find?_eq_some hfind
        have hname : fdA.name = a.node.name.value := by simpa using List.find?_some hfind
        have hnt : ¬ (a.node.name.value == "__typename") = true := by
          have := hcov.noTypename m fdA hmem
          rw [hname] at this
          simpa using this
        have hfd' : (s.objectFields rt).find? (fun f => f.name == a.node.name.value) = some fd := by
          unfold Exec.fieldDef? at hfd
          rw [if_neg hnt] at hfd
          exact hfd
        have hfindrt := find_isSome_of_objectFields hfd'
        have hkind : s.objectT m = true ∨ s.isInterface m = true := by
          cases h1' : s.objectT m with
          | true => exact .inl rfl
          | false =>
            cases h2' : s.isInterface m with
            | true => exact .inr rfl
            | false => rw [fieldsOf_nil h1' h2'] at hmem; cases hmem
        have same : m = rt → fdA.type.namedName = fd.type.namedName := by
          intro hm
          subst hm
          rw [fieldsOf_eq_objectFields hfindrt hkind, hfd'] at hfind
          cases hfind; rfl
        rcases hkind with hobj | hint
        · rw [same (hadm.1 hobj)]; exact admN0
        · rcases hadm.2 hint with hm | hposs
          · rw [same hm]; exact admN0
          · rcases hcov.impl m rt _ fdA hint hposs hfind with ⟨fd', hfd'', hrel⟩
            rw [hfd'] at hfd''
            cases hfd''
            rcases hrel with heq | ⟨hobjN0, hpossN⟩
            · rw [← heq]; exact admN0
            · have hot := h1 hobjN0
              refine ⟨fun ho => ?_, fun _ => .inr (hot ▸ hpossN)⟩
              rw [not_objectT_of_possible hpossN] at ho; cases ho

end GqlModel.OverlapExec
