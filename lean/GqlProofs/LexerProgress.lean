import GqlProofs.LexerLoop
/-! Progress and termination: every lexeme of the spec scan has length ≥ 1 and stays inside the input; hence every
successful `readToken` is EOF or moves the cursor forward, and the fuel `len(body)+1` never runs out. -/
namespace GqlModel.Lexer
open GqlModel.Utf8 GqlModel.Lexer.Spec

/-- a scan result whose lexeme has between `lo` and `n` bytes, or an error that is not "out of fuel" -/
def ScanOk (x : Scan) (lo n : Nat) : Prop :=
  match x with
  | .ok (len, _) => lo ≤ len ∧ len ≤ n
  | .error (_, k) => k ≠ .fuel

theorem ScanOk_adv {x : Scan} {lo n : Nat} (k : Nat) (bs : Bytes) (lo' n' : Nat) (h : ScanOk x lo n) (hlo : lo' ≤ lo + k)
    (hn : n + k ≤ n') : ScanOk (adv k bs x) lo' n' := by
  match x with
  | .ok (len, v) => simp only [ScanOk, adv_ok] at h ⊢; omega
  | .error (o, e) => simpa [ScanOk] using h

theorem stringBody_bound : ∀ (n : Nat) (bs : Bytes), bs.length ≤ n → ScanOk (stringBody bs) 1 bs.length := by
  intro n
  induction n with
  | zero => intro bs h; match bs with
    | [] => simp [stringBody, ScanOk]
  | succ n ih =>
    intro bs h
    match bs with
    | [] => simp [stringBody, ScanOk]
    | c :: r =>
      simp only [List.length_cons] at h
      rw [stringBody_cons]
      split
      · simp [ScanOk]
      split
      · simp [ScanOk]
      split
      · simp [ScanOk]
      split
      · match r with
        | [] => simp [ScanOk]
        | e :: r1 =>
          simp only [List.length_cons] at h ⊢
          cases escapedCharacter e with
          | some b => exact ScanOk_adv 2 _ 1 _ (ih r1 (by omega)) (by omega) (by omega)
          | none =>
            simp only
            split
            · match r1 with
              | h1 :: h2 :: h3 :: h4 :: r2 =>
                simp only [List.length_cons] at h ⊢
                cases escapedUnicode h1 h2 h3 h4 with
                | some u => exact ScanOk_adv 6 _ 1 _ (ih r2 (by omega)) (by omega) (by omega)
                | none => simp [ScanOk]
              | [] => simp [ScanOk]
              | [_] => simp [ScanOk]
              | [_, _] => simp [ScanOk]
              | [_, _, _] => simp [ScanOk]
            · simp [ScanOk]
      · exact ScanOk_adv 1 _ 1 _ (ih r (by omega)) (by omega) (by simp)

theorem blockBody_bound : ∀ (n : Nat) (bs : Bytes), bs.length ≤ n → ScanOk (blockBody bs) 3 bs.length := by
  intro n
  induction n with
  | zero => intro bs h; match bs with
    | [] => simp [blockBody, ScanOk]
  | succ n ih =>
    intro bs h
    match bs with
    | [] => simp [blockBody, ScanOk]
    | c :: r =>
      simp only [List.length_cons] at h
      rw [blockBody_cons]
      split
      · rename_i hq
        match r, hq with
        | q1 :: q2 :: r3, _ => simp [ScanOk]
        | [q1], hq => simp at hq
        | [], hq => simp at hq
      split
      · simp [ScanOk]
      split
      · rename_i hq
        match r, hq with
        | q1 :: q2 :: q3 :: r3, _ =>
          simp only [List.length_cons] at h ⊢
          exact ScanOk_adv 4 _ 3 _ (ih _ (by simp; omega)) (by omega) (by simp)
        | [_, _], hq => simp at hq
        | [_], hq => simp at hq
        | [], hq => simp at hq
      · exact ScanOk_adv 1 _ 3 _ (ih r (by omega)) (by omega) (by simp)

theorem digitsLen_le (bs : Bytes) : digitsLen bs ≤ bs.length := spanLen_le _ bs
theorem nameLen_le (bs : Bytes) : nameLen bs ≤ bs.length := spanLen_le _ bs

def NatOk (x : Except (Nat × ErrKind) Nat) (lo n : Nat) : Prop :=
  match x with
  | .ok i => lo ≤ i ∧ i ≤ n
  | .error (_, k) => k ≠ .fuel

@[simp] theorem NatOk_ok (i lo n : Nat) : NatOk (.ok i) lo n ↔ lo ≤ i ∧ i ≤ n := Iff.rfl
@[simp] theorem NatOk_error (o : Nat) (k : ErrKind) (lo n : Nat) : NatOk (.error (o, k)) lo n ↔ k ≠ .fuel := Iff.rfl

theorem integerPart_bound (bs : Bytes) : NatOk (integerPart bs) 1 bs.length := by
  unfold integerPart
  match bs with
  | [] => simp
  | c :: r =>
    simp only
    by_cases hm : c = 45
    · simp only [hm, if_true, List.drop_succ_cons, List.drop_zero]
      match r with
      | [] => simp
      | c2 :: r2 =>
        simp only
        split
        · match r2 with
          | [] => simp
          | d :: r3 => simp only; split <;> simp
        · split
          · have := digitsLen_le (c2 :: r2); simp only [List.length_cons, NatOk_ok] at this ⊢; omega
          · simp
    · simp only [hm, if_false, List.drop_zero]
      split
      · match r with
        | [] => simp
        | d :: r3 => simp only; split <;> simp
      · split
        · rename_i hd
          have := digitsLen_le (c :: r)
          have h1 : 1 ≤ digitsLen (c :: r) := by rw [digitsLen_cons, if_pos hd]; omega
          simp only [List.length_cons, NatOk_ok] at this ⊢; omega
        · simp

theorem fractionalPart_bound (bs : Bytes) : NatOk (fractionalPart bs) 0 bs.length := by
  unfold fractionalPart
  match bs with
  | [] => simp
  | c :: r =>
    simp only
    split
    · split
      · simp
      · have := digitsLen_le r; simp only [List.length_cons, NatOk_ok]; omega
    · simp

theorem exponentPart_bound (bs : Bytes) : NatOk (exponentPart bs) 0 bs.length := by
  unfold exponentPart
  match bs with
  | [] => simp
  | c :: r =>
    simp only
    split
    · match r with
      | [] => simp [digitsLen, spanLen]
      | s :: r2 =>
        simp only
        split
        · split
          · simp
          · have := digitsLen_le ((s :: r2).drop 1)
            simp only [List.length_cons, List.drop_succ_cons, List.drop_zero, NatOk_ok] at this ⊢; omega
        · split
          · simp
          · have := digitsLen_le ((s :: r2).drop 0)
            simp only [List.length_cons, List.drop_zero, NatOk_ok] at this ⊢; omega
    · simp

theorem number_bound (bs : Bytes) :
    match number bs with
    | .ok (_, len) => 1 ≤ len ∧ len ≤ bs.length
    | .error (_, k) => k ≠ .fuel := by
  unfold number
  have h1 := integerPart_bound bs
  match hi : integerPart bs with
  | .error (o, e) => rw [hi] at h1; simpa using h1
  | .ok i =>
    rw [hi] at h1; simp only [NatOk_ok] at h1 ⊢
    have h2 := fractionalPart_bound (bs.drop i)
    match hf : fractionalPart (bs.drop i) with
    | .error (o, e) => rw [hf] at h2; simpa using h2
    | .ok fl =>
      rw [hf] at h2; simp only [List.length_drop, NatOk_ok] at h2 ⊢
      have h3 := exponentPart_bound (bs.drop (i + fl))
      match hx : exponentPart (bs.drop (i + fl)) with
      | .error (o, e) => rw [hx] at h3; simpa using h3
      | .ok x =>
        rw [hx] at h3; simp only [List.length_drop, NatOk_ok] at h3 ⊢
        omega

/-- a token scan whose lexeme has between 1 and `n` bytes, or an error that is not "out of fuel" -/
def TokOk (x : Except (Nat × ErrKind) (TokenKind × Nat × Bytes)) (n : Nat) : Prop :=
  match x with
  | .ok (_, len, _) => 1 ≤ len ∧ len ≤ n
  | .error (_, k) => k ≠ .fuel

@[simp] theorem TokOk_ok (k : TokenKind) (len : Nat) (v : Bytes) (n : Nat) : TokOk (.ok (k, len, v)) n ↔ 1 ≤ len ∧ len ≤ n := Iff.rfl
@[simp] theorem TokOk_error (o : Nat) (k : ErrKind) (n : Nat) : TokOk (.error (o, k)) n ↔ k ≠ .fuel := Iff.rfl

/-- every lexeme of the spec scan has at least one byte and lies inside the input; errors are never "fuel" -/
theorem token_bound (c : UInt8) (r : Bytes) : TokOk (token (c :: r)) (c :: r).length := by
  by_cases hctl : isCtrl c
  · rw [token_ctrl c r hctl]; simp
  cases hp : punctuatorByte c with
  | some k' => rw [token_punct c r hctl hp]; simp
  | none =>
    by_cases hdot : c = 46
    · subst hdot; rw [token_dot]
      by_cases hq : r.head? = some 46 ∧ (r.drop 1).head? = some 46
      · rw [if_pos hq]
        match r, hq with
        | q1 :: q2 :: r3, _ => simp
        | [q1], hq => simp at hq
        | [], hq => simp at hq
      · rw [if_neg hq]; simp
    by_cases hns : isNameStartByte c
    · rw [token_name c r hctl hp hdot hns]
      have := nameLen_le (c :: r)
      have h1 : 1 ≤ nameLen (c :: r) := by
        have : isNameContByte c := Or.inl hns
        rw [nameLen_cons, if_pos this]; omega
      simp only [TokOk_ok]; omega
    by_cases hnum : c = 45 ∨ isDigitByte c
    · rw [token_number c r hctl hp hdot hns hnum]
      have := number_bound (c :: r)
      match hn : number (c :: r) with
      | .ok (k', len') => rw [hn] at this; simpa using this
      | .error (o, e) => rw [hn] at this; simpa using this
    by_cases hq : c = 34
    · subst hq; rw [token_quote]
      by_cases hb : r.head? = some 34 ∧ (r.drop 1).head? = some 34
      · rw [if_pos hb]
        have := blockBody_bound _ (r.drop 2) (Nat.le_refl _)
        match hbb : blockBody (r.drop 2) with
        | .ok (len, raw) =>
          rw [hbb] at this; simp only [ScanOk, List.length_drop] at this
          match r, hb, this with
          | q1 :: q2 :: r3, _, this => simp only [List.length_cons, TokOk_ok] at this ⊢; omega
          | [q1], hb, _ => simp at hb
          | [], hb, _ => simp at hb
        | .error (o, e) => rw [hbb] at this; simpa [ScanOk] using this
      · rw [if_neg hb]
        have := stringBody_bound _ r (Nat.le_refl _)
        match hsb : stringBody r with
        | .ok (len, v) => rw [hsb] at this; simp only [ScanOk] at this; simp only [List.length_cons, TokOk_ok]; omega
        | .error (o, e) => rw [hsb] at this; simpa [ScanOk] using this
    · rw [token_other c r hctl hp hdot hns hnum hq]; simp

/-- what `lex_progress` says about one call of `readToken` from byte offset `p` in a body of `n` bytes -/
def Progress (x : Except LexErr LTok) (p n : Nat) : Prop :=
  match x with
  | .ok t => (t.kind = .eof ∧ t.start = t.stop) ∨ (t.kind ≠ .eof ∧ p < t.stop ∧ t.stop ≤ n)
  | .error e => e.kind ≠ .fuel

@[simp] theorem Progress_ok (t : LTok) (p n : Nat) :
    Progress (.ok t) p n ↔ ((t.kind = .eof ∧ t.start = t.stop) ∨ (t.kind ≠ .eof ∧ p < t.stop ∧ t.stop ≤ n)) := Iff.rfl
@[simp] theorem Progress_error (e : LexErr) (p n : Nat) : Progress (.error e) p n ↔ e.kind ≠ .fuel := Iff.rfl

theorem readToken_progress (body : Bytes) (p : Nat) : Progress (readToken body p) p body.length := by
  obtain ⟨k, hle, -, hstep⟩ := readToken_spec body p
  match hd : (body.drop p).drop (ignoredLen false (body.drop p)) with
  | [] =>
    rw [hd] at hstep; simp only at hstep
    rw [hstep]; simp [makeToken]
  | c :: r =>
    rw [hd] at hstep; simp only at hstep
    have hlen : ignoredLen false (body.drop p) + (r.length + 1) = body.length - p := by
      have := congrArg List.length hd
      simp only [List.length_drop, List.length_cons] at this; omega
    have hb := token_bound c r
    match ht : token (c :: r) with
    | .ok (kind, len, v) =>
      rw [ht] at hstep hb; simp only [TokOk_ok, List.length_cons] at hstep hb
      rw [hstep]
      have hk : kind ≠ .eof := token_ne_eof ht
      simp only [Progress_ok, makeToken]
      right
      refine ⟨hk, ?_, ?_⟩ <;> split <;> omega
    | .error (o, ek) =>
      rw [ht] at hstep hb; simp only [TokOk_error] at hstep hb
      obtain ⟨q, hq, -⟩ := hstep
      rw [hq]; simpa using hb

theorem lexLoop_no_fuel (body : Bytes) : ∀ (f p : Nat), body.length - p < f →
    ∀ e, (lexLoop f body p).err = some e → e.kind ≠ .fuel := by
  intro f
  induction f with
  | zero => intro p h; omega
  | succ f ih =>
    intro p hf e he
    have hp := readToken_progress body p
    unfold lexLoop at he
    match hr : readToken body p with
    | .error e' =>
      rw [hr] at hp he; simp only [Progress_error] at hp
      simp only [Option.some.injEq] at he; subst he; exact hp
    | .ok t =>
      rw [hr] at hp he; simp only [Progress_ok] at hp
      rcases hp with ⟨hk, -⟩ | ⟨hk, h1, h2⟩
      · simp [hk] at he
      · simp only [hk, if_false] at he
        exact ih t.stop (by omega) e he

/-- the tokens of a finished scan: every token but the last is not EOF, the last one is -/
theorem lexLoop_shape (body : Bytes) : ∀ (f p : Nat),
    (∀ t ∈ (lexLoop f body p).tokens.dropLast, t.kind ≠ .eof) ∧
    ((lexLoop f body p).err = none → ∃ t, (lexLoop f body p).tokens.getLast? = some t ∧ t.kind = .eof) := by
  intro f
  induction f with
  | zero => intro p; simp [lexLoop]
  | succ f ih =>
    intro p
    unfold lexLoop
    match hr : readToken body p with
    | .error e' => simp
    | .ok t =>
      simp only
      by_cases hk : t.kind = .eof
      · simp [hk]
      · simp only [hk, if_false]
        obtain ⟨h1, h2⟩ := ih t.stop
        constructor
        · intro t' ht'
          match hl : (lexLoop f body t.stop).tokens with
          | [] => rw [hl] at ht'; simp at ht'
          | x :: xs =>
            rw [hl, List.dropLast_cons_cons] at ht'
            rcases List.mem_cons.mp ht' with rfl | hm
            · exact hk
            · exact h1 t' (by rw [hl]; exact hm)
        · intro hnone
          obtain ⟨t', ht', hk'⟩ := h2 hnone
          refine ⟨t', ?_, hk'⟩
          match hl : (lexLoop f body t.stop).tokens with
          | [] => rw [hl] at ht'; simp at ht'
          | x :: xs => rw [hl] at ht'; simpa [List.getLast?_cons_cons] using ht'

end GqlModel.Lexer
