import GqlProofs.NormalizeKey
/-! C06 (normaliser): `tryExtract` / `normArgs` keep every argument value, synthetic names are fresh and pairwise
distinct, the walk only replaces argument values (shape preserved). -/
set_option linter.unusedSimpArgs false
set_option linter.unusedVariables false
namespace GqlModel.Normalize
open GqlModel GqlModel.Coerce

/-! ## synthetic names -/

theorem toDigits_inj {a b : Nat} (h : Nat.toDigits 10 a = Nat.toDigits 10 b) : a = b := by
  have h1 := natOfDigits_toDigits a
  have h2 := natOfDigits_toDigits b
  rw [h] at h1; rw [h1] at h2; exact Option.some.inj h2

theorem synthName_inj {a b : Nat} (h : synthName a = synthName b) : a = b := by
  unfold synthName at h
  have := String.ofList_injective h
  exact toDigits_inj (List.append_cancel_left this)

theorem nextNameAux_spec : ∀ (fuel : Nat) (tk : List String) (c : Nat), tk.length ≤ fuel →
    (nextNameAux fuel tk c).1 ∉ tk ∧ c < (nextNameAux fuel tk c).2 ∧
    ∃ c', c ≤ c' ∧ c' < (nextNameAux fuel tk c).2 ∧ (nextNameAux fuel tk c).1 = synthName c' := by
  intro fuel
  induction fuel with
  | zero =>
    intro tk c h
    have : tk = [] := List.eq_nil_of_length_eq_zero (Nat.le_zero.mp h)
    subst this
    exact ⟨by simp, by simp [nextNameAux], c, Nat.le_refl _, by simp [nextNameAux], rfl⟩
  | succ fuel ih =>
    intro tk c h
    simp only [nextNameAux]
    by_cases hc : tk.contains (synthName c) = true
    · simp only [hc, if_true]
      have hmem : synthName c ∈ tk := by simpa using hc
      have hlen : (tk.erase (synthName c)).length ≤ fuel := by
        rw [List.length_erase_of_mem hmem]; omega
      obtain ⟨h1, h2, c', h3, h4, h5⟩ := ih (tk.erase (synthName c)) (c + 1) hlen
      refine ⟨?_, by omega, c', by omega, h4, h5⟩
      intro hin
      apply h1
      rw [h5] at hin ⊢
      have hne : synthName c' ≠ synthName c := fun e => by have := synthName_inj e; omega
      exact (List.mem_erase_of_ne hne).mpr hin
    · simp only [hc, Bool.false_eq_true, if_false]
      exact ⟨by simpa using hc, by omega, c, Nat.le_refl _, by omega, rfl⟩

/-- `nextName` returns a name that no user variable definition has, built from a counter value ≥ the current one -/
theorem nextName_spec (taken : List String) (c : Nat) :
    (nextName taken c).1 ∉ taken ∧ ∃ c', c ≤ c' ∧ c' < (nextName taken c).2 ∧ (nextName taken c).1 = synthName c' := by
  obtain ⟨h1, _, h3⟩ := nextNameAux_spec taken.length taken c (Nat.le_refl _)
  exact ⟨h1, h3⟩

/-- invariant of the walk: every entry's name is `synthName c'` for some `c' < counter`, is not a user variable
name, and names are pairwise distinct -/
def NamesOK (st : NState) : Prop :=
  (∀ e ∈ st.entries, e.name ∉ st.taken ∧ ∃ c', c' < st.counter ∧ e.name = synthName c') ∧
  (st.entries.map (·.name)).Nodup

/-! ## what is recorded is valid; what the final environment must provide -/

def EntriesOK (s : Schema) (es : List Entry) : Prop :=
  ∀ e ∈ es, hasVars e.lit = false ∧ canonInts e.lit = true ∧ isValidLiteralValue s e.type (some e.lit) = true ∧
    isInputType s e.type = true ∧ Reader.WFValue e.lit ∧ Reader.WFType (typeRefOf e.type)

/-- the variable map of the normalised request gives every synthetic variable the coerced client form of its literal -/
def Realises (s : Schema) (vars' : Vars) (es : List Entry) : Prop :=
  ∀ e ∈ es, lookupD vars' e.name = coerceValue s e.type (lti e.lit)

theorem valueFromAST_var (s : Schema) (t : GType) (x : String) (loc : Loc) (vars : Vars) :
    valueFromAST s t (some (.var x loc)) vars = lookupD vars x := by
  unfold valueFromAST valueFromASTF
  simp only [optLitDepth, litDepth, iter]
  cases t <;> simp [fromASTStep]

/-- premise on an argument literal about to be normalised: it is a well-formed value (names are GraphQL names, number
tokens have the lexer's shape — what the parser produces) at a position whose type is well-formed. (Validity for the
type is NOT a premise: `tryExtract` checks it before extracting, 4210b3d.) -/
def LitOK (s : Schema) (t : GType) (v : Value) : Prop :=
  Reader.WFValue v ∧ Reader.WFType (typeRefOf t)

theorem tryExtract_entries (s : Schema) (st : NState) (v : Value) (t : GType) :
    (∃ es, (tryExtract s st v t).2.entries = st.entries ++ es) ∧ (tryExtract s st v t).2.taken = st.taken := by
  unfold tryExtract
  split
  · exact ⟨⟨[], by simp⟩, rfl⟩
  split
  · exact ⟨⟨[], by simp⟩, rfl⟩
  · split
    · exact ⟨⟨[], by simp⟩, rfl⟩
    · split
      · exact ⟨⟨[], by simp⟩, rfl⟩
      · split
        · exact ⟨⟨[], by simp⟩, rfl⟩
        · exact ⟨⟨_, rfl⟩, rfl⟩

theorem tryExtract_entriesOK (s : Schema) (st : NState) (v : Value) (t : GType)
    (h : EntriesOK s st.entries) (hl : LitOK s t v) (hit : isInputType s t = true) :
    EntriesOK s (tryExtract s st v t).2.entries := by
  unfold tryExtract
  split
  · exact h
  rename_i hv
  split
  · exact h
  · split
    · exact h
    · rename_i hval
      split
      · exact h
      · split
        · exact h
        · intro e he
          rcases List.mem_append.mp he with he | he
          · exact h e he
          · simp only [List.mem_singleton] at he; subst he
            have hv' : hasVars v = false := by simpa using hv
            exact ⟨hv', canonInts_of_wf v hl.1, by simpa using hval, hit, hl.1, hl.2⟩

theorem tryExtract_namesOK (s : Schema) (st : NState) (v : Value) (t : GType) (h : NamesOK st) :
    NamesOK (tryExtract s st v t).2 := by
  unfold tryExtract
  split
  · exact h
  split
  · exact h
  · split
    · exact h
    · split
      · exact h
      · split
        · exact h
        · obtain ⟨hfresh, c', hc1, hc2, hc3⟩ := nextName_spec st.taken st.counter
          refine ⟨?_, ?_⟩
          · intro e he
            rcases List.mem_append.mp he with he | he
            · obtain ⟨h1, c0, h2, h3⟩ := h.1 e he
              exact ⟨h1, c0, by simp only; omega, h3⟩
            · simp only [List.mem_singleton] at he; subst he
              exact ⟨hfresh, c', hc2, hc3⟩
          · simp only [List.map_append, List.map_cons, List.map_nil]
            apply List.nodup_append.mpr
            refine ⟨h.2, by simp, ?_⟩
            intro a ha b hb
            simp only [List.mem_singleton] at hb; subst hb
            obtain ⟨e, he, rfl⟩ := List.mem_map.mp ha
            obtain ⟨_, c0, h2, h3⟩ := h.1 e he
            rw [h3, hc3]
            intro e'
            have := synthName_inj e'
            omega

/-- **one extraction is transparent**: under the final variable map the (possibly replaced) value evaluates to what
the original literal evaluates to under the request's own variables -/
theorem tryExtract_transparent (s : Schema) (hcc : customLti s)
    (st : NState) (v : Value) (t : GType) (vars vars' : Vars)
    (hes : EntriesOK s st.entries) (hl : LitOK s t v)
    (hre : Realises s vars' (tryExtract s st v t).2.entries)
    (huser : hasVars v = true → valueFromAST s t (some v) vars' = valueFromAST s t (some v) vars) :
    valueFromAST s t (some (tryExtract s st v t).1) vars' = valueFromAST s t (some v) vars := by
  unfold tryExtract at hre ⊢
  by_cases hv : hasVars v = true
  · simp only [hv, if_true]; exact huser hv
  · have hv' : hasVars v = false := by simpa using hv
    simp only [hv', Bool.false_eq_true, if_false] at hre ⊢
    by_cases hdup : dupFields v = true
    · simp only [hdup, if_true]
      exact valueFromAST_novars s t (some v) vars' vars hv'
    simp only [hdup, Bool.false_eq_true, if_false] at hre ⊢
    by_cases hval : isValidLiteralValue s t (some v) = true
    case neg =>
      simp only [hval, Bool.not_false, if_true]
      exact valueFromAST_novars s t (some v) vars' vars hv'
    simp only [hval, Bool.not_true, Bool.false_eq_true, if_false] at hre ⊢
    by_cases hn : (valueFromAST s t (some v) []).isNull = true
    · simp only [hn, if_true]
      exact valueFromAST_novars s t (some v) vars' vars hv'
    · simp only [hn, Bool.false_eq_true, if_false] at hre ⊢
      cases hfind : st.entries.find? (fun e => litKey e.type e.lit == litKey t v) with
      | some e =>
        simp only [hfind] at hre ⊢
        have hmem := List.mem_of_find?_eq_some hfind
        have hkey : litKey e.type e.lit = litKey t v := by simpa using List.find?_some hfind
        obtain ⟨h1, h2, h3, _, h5, h6⟩ := hes e hmem
        obtain ⟨ht, hval⟩ := litKey_sound s e.type t e.lit v h6 hl.2 h5 hl.1 hkey
        rw [valueFromAST_var, hre e hmem, (lti_agree s hcc e.type e.lit vars h1 h2 h3).2, hval vars]
      | none =>
        simp only [hfind] at hre ⊢
        rw [valueFromAST_var, hre ⟨_, t, v⟩ (by simp)]
        exact (lti_agree s hcc t v vars hv' (canonInts_of_wf v hl.1) hval).2

/-! ## the argument list of one field -/

/-- premises on the argument list of a field with argument definitions `defs`: well-formed values; the argument's
declared type is a (well-formed) input type (schema construction guarantees it, C11) -/
def ArgsOK (s : Schema) (defs : List ArgDef) (as : List Argument) : Prop :=
  ∀ a ∈ as, ∀ d, defs.find? (fun d => d.name == a.name.value) = some d →
    LitOK s d.type a.value ∧ isInputType s d.type = true

/-- adding the synthetic variables does not disturb what the user's own variables evaluate to -/
def UserOK (s : Schema) (vars vars' : Vars) (as : List Argument) : Prop :=
  ∀ a ∈ as, hasVars a.value = true → ∀ t, valueFromAST s t (some a.value) vars' = valueFromAST s t (some a.value) vars

theorem normArgs_entries (s : Schema) (defs : List ArgDef) : ∀ (as : List Argument) (st : NState),
    (∃ es, (normArgs s defs as st).2.entries = st.entries ++ es) ∧ (normArgs s defs as st).2.taken = st.taken ∧
    (normArgs s defs as st).1.map (·.name) = as.map (·.name) := by
  intro as
  induction as with
  | nil => intro st; exact ⟨⟨[], by simp [normArgs]⟩, rfl, rfl⟩
  | cons a as ih =>
    intro st
    simp only [normArgs]
    split
    · obtain ⟨⟨es, h1⟩, h2, h3⟩ := ih st
      exact ⟨⟨es, h1⟩, h2, by simp [h3]⟩
    · rename_i d _
      obtain ⟨⟨es0, h0⟩, ht0⟩ := tryExtract_entries s st a.value d.type
      obtain ⟨⟨es, h1⟩, h2, h3⟩ := ih (tryExtract s st a.value d.type).2
      exact ⟨⟨es0 ++ es, by rw [h1, h0, List.append_assoc]⟩, by rw [h2, ht0], by simp [h3]⟩

theorem normArgs_entriesOK (s : Schema) (defs : List ArgDef) : ∀ (as : List Argument) (st : NState),
    EntriesOK s st.entries → ArgsOK s defs as → EntriesOK s (normArgs s defs as st).2.entries := by
  intro as
  induction as with
  | nil => intro st h _; exact h
  | cons a as ih =>
    intro st h ha
    have ha' : ArgsOK s defs as := fun b hb => ha b (List.mem_cons_of_mem _ hb)
    simp only [normArgs]
    split
    · exact ih st h ha'
    · rename_i d hd
      exact ih _ (tryExtract_entriesOK s st a.value d.type h (ha a List.mem_cons_self d hd).1
        (ha a List.mem_cons_self d hd).2) ha'

theorem normArgs_namesOK (s : Schema) (defs : List ArgDef) : ∀ (as : List Argument) (st : NState),
    NamesOK st → NamesOK (normArgs s defs as st).2 := by
  intro as
  induction as with
  | nil => intro st h; exact h
  | cons a as ih =>
    intro st h
    simp only [normArgs]
    split
    · exact ih st h
    · exact ih _ (tryExtract_namesOK s st _ _ h)

theorem realises_prefix {s : Schema} {vars' : Vars} {es es' : List Entry} (h : Realises s vars' (es ++ es')) :
    Realises s vars' es := fun e he => h e (List.mem_append_left _ he)

theorem argLookup_isSome_of_names {as bs : List Argument} (h : as.map (·.name) = bs.map (·.name)) (k : String) :
    (argLookup as k).isSome = (argLookup bs k).isSome := by
  induction as generalizing bs with
  | nil => cases bs with
    | nil => rfl
    | cons b bs => simp at h
  | cons a as ih =>
    cases bs with
    | nil => simp at h
    | cons b bs =>
      simp only [List.map_cons, List.cons.injEq] at h
      have := ih h.2
      have hn : a.name = b.name := h.1
      simp only [argLookup]
      cases h1 : argLookup as k <;> cases h2 : argLookup bs k
      · simp only [hn]; by_cases hk : (b.name.value == k) = true <;> simp [hk]
      · rw [h1, h2] at this; simp at this
      · rw [h1, h2] at this; simp at this
      · rfl

/-- per argument name that has a definition: the normalised argument evaluates, under the final variable map, to
what the original argument evaluates to under the request's variables -/
theorem normArgs_lookup (s : Schema) (hcc : customLti s) (defs : List ArgDef) (vars vars' : Vars) :
    ∀ (as : List Argument) (st : NState), EntriesOK s st.entries → ArgsOK s defs as → UserOK s vars vars' as →
      Realises s vars' (normArgs s defs as st).2.entries →
      ∀ k d, defs.find? (fun d => d.name == k) = some d →
        valueFromAST s d.type (argLookup (normArgs s defs as st).1 k) vars' =
        valueFromAST s d.type (argLookup as k) vars := by
  intro as
  induction as with
  | nil =>
    intro st _ _ _ _ k d _
    simp only [normArgs, argLookup]
    exact valueFromAST_novars s d.type none vars' vars rfl
  | cons a as ih =>
    intro st hes ha hu hre k d hd
    have ha' : ArgsOK s defs as := fun b hb => ha b (List.mem_cons_of_mem _ hb)
    have hu' : UserOK s vars vars' as := fun b hb => hu b (List.mem_cons_of_mem _ hb)
    simp only [normArgs] at hre ⊢
    cases hfd : defs.find? (fun d => d.name == a.name.value) with
    | none =>
      simp only [hfd] at hre ⊢
      have hih := ih st hes ha' hu' hre k d hd
      have hsome := argLookup_isSome_of_names (normArgs_entries s defs as st).2.2 k
      simp only [argLookup]
      cases h1 : argLookup (normArgs s defs as st).1 k with
      | some w =>
        cases h2 : argLookup as k with
        | some w' => rw [h1, h2] at hih; exact hih
        | none => rw [h1, h2] at hsome; cases hsome
      | none =>
        cases h2 : argLookup as k with
        | some w' => rw [h1, h2] at hsome; cases hsome
        | none =>
          -- the head argument has no definition, so its name is not `k`
          have hne : (a.name.value == k) = false := by
            cases hk : (a.name.value == k) with
            | false => rfl
            | true =>
              have : a.name.value = k := by simpa using hk
              rw [this] at hfd; rw [hfd] at hd; cases hd
          simp only [hne, Bool.false_eq_true, if_false]
          exact valueFromAST_novars s d.type none vars' vars rfl
    | some da =>
      simp only [hfd] at hre ⊢
      have hes1 := tryExtract_entriesOK s st a.value da.type hes (ha a List.mem_cons_self da hfd).1
        (ha a List.mem_cons_self da hfd).2
      have hih := ih _ hes1 ha' hu' hre k d hd
      have hsome := argLookup_isSome_of_names (normArgs_entries s defs as (tryExtract s st a.value da.type).2).2.2 k
      simp only [argLookup]
      cases h1 : argLookup (normArgs s defs as (tryExtract s st a.value da.type).2).1 k with
      | some w =>
        cases h2 : argLookup as k with
        | some w' => rw [h1, h2] at hih; exact hih
        | none => rw [h1, h2] at hsome; cases hsome
      | none =>
        cases h2 : argLookup as k with
        | some w' => rw [h1, h2] at hsome; cases hsome
        | none =>
          by_cases hk : (a.name.value == k) = true
          · simp only [hk, if_true]
            have hkk : a.name.value = k := by simpa using hk
            rw [hkk] at hfd; rw [hfd] at hd
            have hdd : da = d := Option.some.inj hd
            subst hdd
            obtain ⟨es, hes2⟩ := (normArgs_entries s defs as (tryExtract s st a.value da.type).2).1
            have hre1 : Realises s vars' (tryExtract s st a.value da.type).2.entries := by
              rw [hes2] at hre; exact realises_prefix hre
            exact tryExtract_transparent s hcc st a.value da.type vars vars' hes
              (ha a List.mem_cons_self da (by rw [hkk]; exact hfd)).1 hre1
              (fun hv => hu a List.mem_cons_self hv da.type)
          · simp only [hk, Bool.false_eq_true, if_false]
            exact valueFromAST_novars s d.type none vars' vars rfl

/-! ## shape: the walk only replaces argument values -/

mutual
/-- a selection with every argument VALUE erased -/
def eraseSel : Selection → Selection
  | .field alias name args dirs sel loc =>
    .field alias name (args.map (fun a => { a with value := .bool false Loc.none })) dirs (eraseOpt sel) loc
  | .inline tc dirs ss loc => .inline tc dirs (eraseSet ss) loc
  | .spread n d l => .spread n d l
def eraseOpt : Option SelectionSet → Option SelectionSet
  | none => none
  | some ss => some (eraseSet ss)
def eraseSet : SelectionSet → SelectionSet
  | .mk sels loc => .mk (eraseList sels) loc
def eraseList : List Selection → List Selection
  | [] => []
  | x :: xs => eraseSel x :: eraseList xs
end

theorem normArgs_erase (s : Schema) (defs : List ArgDef) : ∀ (as : List Argument) (st : NState),
    (normArgs s defs as st).1.map (fun a => ({ a with value := .bool false Loc.none } : Argument)) =
    as.map (fun a => ({ a with value := .bool false Loc.none } : Argument)) := by
  intro as
  induction as with
  | nil => intro st; rfl
  | cons a as ih =>
    intro st
    simp only [normArgs]
    split <;> simp [ih]

mutual
theorem normSel_shape (s : Schema) : ∀ (x : Selection) (parent : String) (st : NState),
    eraseSel (normSel s keep parent x st).1 = eraseSel x
  | .field alias name args dirs sel loc, parent, st => by
    cases hfd : fieldDefN s parent name.value with
    | none => simp only [normSel, hfd]
    | some fd =>
      by_cases ho : s.isObject fd.type.namedName = true
      · simp only [normSel, hfd, ho, if_true, eraseSel, normArgs_erase, normOpt_shape s sel]
      · simp [normSel, hfd, ho, eraseSel, normArgs_erase]
  | .inline tc dirs ss loc, parent, st => by
    simp only [normSel, eraseSel, normSet_shape s ss]
  | .spread n d l, parent, st => by simp [normSel]
theorem normOpt_shape (s : Schema) : ∀ (x : Option SelectionSet) (parent : String) (st : NState),
    eraseOpt (normOpt s keep parent x st).1 = eraseOpt x
  | none, parent, st => by simp [normOpt]
  | some ss, parent, st => by simp only [normOpt, eraseOpt, normSet_shape s ss]
theorem normSet_shape (s : Schema) : ∀ (x : SelectionSet) (parent : String) (st : NState),
    eraseSet (normSet s keep parent x st).1 = eraseSet x
  | .mk sels loc, parent, st => by simp only [normSet, eraseSet, normList_shape s sels]
theorem normList_shape (s : Schema) : ∀ (xs : List Selection) (parent : String) (st : NState),
    eraseList (normList s keep parent xs st).1 = eraseList xs
  | [], parent, st => by simp [normList, eraseList]
  | x :: xs, parent, st => by
    simp only [normList, eraseList, normSel_shape s x, normList_shape s xs]
end

/-! ## fields whose response key occurs in a fragment definition keep their arguments (D-06n) -/

theorem normArgs_nil (s : Schema) : ∀ (as : List Argument) (st : NState), normArgs s [] as st = (as, st) := by
  intro as
  induction as with
  | nil => intro st; rfl
  | cons a as ih => intro st; simp only [normArgs, List.find?_nil, ih]

theorem argDefsFor_cases (keep : List String) (k : String) (fd : FieldDefS) :
    (keep.contains k = true ∧ argDefsFor keep k fd = []) ∨ (keep.contains k = false ∧ argDefsFor keep k fd = fd.args) := by
  unfold argDefsFor
  cases h : keep.contains k
  · exact Or.inr ⟨rfl, by simp⟩
  · exact Or.inl ⟨rfl, by simp⟩

theorem mem_argDefsFor {keep : List String} {k : String} {fd : FieldDefS} {d : ArgDef} (h : d ∈ argDefsFor keep k fd) :
    d ∈ fd.args := by
  rcases argDefsFor_cases keep k fd with ⟨_, h'⟩ | ⟨_, h'⟩
  · rw [h'] at h; cases h
  · rw [h'] at h; exact h

/-! ## the walk keeps the name invariant -/

mutual
theorem normSel_namesOK (s : Schema) : ∀ (x : Selection) (parent : String) (st : NState),
    NamesOK st → NamesOK (normSel s keep parent x st).2 ∧ (normSel s keep parent x st).2.taken = st.taken
  | .field alias name args dirs sel loc, parent, st, h => by
    cases hfd : fieldDefN s parent name.value with
    | none => simp only [normSel, hfd]; exact ⟨h, by first | rfl | trivial⟩
    | some fd =>
      have ha := normArgs_namesOK s (argDefsFor keep (respKey alias name) fd) args st h
      have ht := (normArgs_entries s (argDefsFor keep (respKey alias name) fd) args st).2.1
      by_cases ho : s.isObject fd.type.namedName = true
      · simp only [normSel, hfd, ho, if_true]
        obtain ⟨h1, h2⟩ := normOpt_namesOK s sel fd.type.namedName _ ha
        exact ⟨h1, by rw [h2, ht]⟩
      · simp only [normSel, hfd, ho, Bool.false_eq_true, if_false]; exact ⟨ha, ht⟩
  | .inline tc dirs ss loc, parent, st, h => by
    simp only [normSel]
    exact normSet_namesOK s ss _ st h
  | .spread n d l, parent, st, h => ⟨h, rfl⟩
theorem normOpt_namesOK (s : Schema) : ∀ (x : Option SelectionSet) (parent : String) (st : NState),
    NamesOK st → NamesOK (normOpt s keep parent x st).2 ∧ (normOpt s keep parent x st).2.taken = st.taken
  | none, parent, st, h => ⟨h, rfl⟩
  | some ss, parent, st, h => by simp only [normOpt]; exact normSet_namesOK s ss parent st h
theorem normSet_namesOK (s : Schema) : ∀ (x : SelectionSet) (parent : String) (st : NState),
    NamesOK st → NamesOK (normSet s keep parent x st).2 ∧ (normSet s keep parent x st).2.taken = st.taken
  | .mk sels loc, parent, st, h => by simp only [normSet]; exact normList_namesOK s sels parent st h
theorem normList_namesOK (s : Schema) : ∀ (xs : List Selection) (parent : String) (st : NState),
    NamesOK st → NamesOK (normList s keep parent xs st).2 ∧ (normList s keep parent xs st).2.taken = st.taken
  | [], parent, st, h => ⟨h, rfl⟩
  | x :: xs, parent, st, h => by
    simp only [normList]
    obtain ⟨h1, h2⟩ := normSel_namesOK s x parent st h
    obtain ⟨h3, h4⟩ := normList_namesOK s xs parent _ h1
    exact ⟨h3, by rw [h4, h2]⟩
end

/-! ## the user's variables: evaluation only looks at the variables a literal mentions -/

def optVars : Option Value → List String
  | none => []
  | some l => valueVars l

theorem valueVars_mem_list {x : String} {v : Value} {ls : List Value} (hv : v ∈ ls) (hx : x ∈ valueVars v) :
    x ∈ valuesVars ls := by
  induction ls with
  | nil => cases hv
  | cons y ys ih =>
    simp only [valuesVars, List.mem_append]
    rcases List.mem_cons.mp hv with rfl | hv'
    · exact Or.inl hx
    · exact Or.inr (ih hv')

theorem valueVars_litLookup {x : String} {fs : List ObjField} {k : String} {v : Value}
    (hl : litLookup fs k = some v) (hx : x ∈ valueVars v) : x ∈ fieldsVars fs := by
  induction fs with
  | nil => cases hl
  | cons f fs ih =>
    obtain ⟨nm, w, l⟩ := f
    simp only [fieldsVars, List.mem_append]
    simp only [litLookup] at hl
    cases hl' : litLookup fs k with
    | some w' =>
      rw [hl'] at hl; simp only [Option.some.injEq] at hl; subst hl
      exact Or.inr (ih hl')
    | none =>
      rw [hl'] at hl
      simp only [ObjField.name, ObjField.value] at hl
      by_cases hk : (nm.value == k) = true
      · simp only [hk, if_true, Option.some.injEq] at hl; subst hl; exact Or.inl hx
      · simp [hk] at hl

theorem fromASTStep_congr (s : Schema) (vars1 vars2 : Vars) (f g : GType → Option Value → JVal)
    (ih : ∀ t l, (∀ x ∈ optVars l, lookupD vars1 x = lookupD vars2 x) → f t l = g t l) :
    ∀ t l, (∀ x ∈ optVars l, lookupD vars1 x = lookupD vars2 x) →
      fromASTStep s vars1 f t l = fromASTStep s vars2 g t l := by
  intro t
  induction t with
  | nonNull t iht =>
    intro l h
    cases l with
    | none => rfl
    | some l =>
      cases l with
      | var x loc => simp only [fromASTStep]; exact h x (by simp [optVars, valueVars])
      | _ => simp only [fromASTStep]; exact iht _ h
  | list t iht =>
    intro l h
    cases l with
    | none => rfl
    | some l =>
      cases l with
      | var x loc => simp only [fromASTStep]; exact h x (by simp [optVars, valueVars])
      | list ls loc =>
        simp only [fromASTStep]
        rw [map_congr' _ _ ls (fun v hv => iht (some v) (fun x hx => h x (by
          simp only [optVars, valueVars] at hx ⊢; exact valueVars_mem_list hv hx)))]
      | _ => simp only [fromASTStep]; rw [iht _ h]
  | named n =>
    intro l h
    cases l with
    | none => rfl
    | some l =>
      cases l with
      | var x loc => simp only [fromASTStep]; exact h x (by simp [optVars, valueVars])
      | obj fs loc =>
        simp only [fromASTStep]
        have : ∀ fields : List InputFieldS,
            fields.filterMap (fun fl => fieldEntry fl (f fl.type (litLookup fs fl.name))) =
            fields.filterMap (fun fl => fieldEntry fl (g fl.type (litLookup fs fl.name))) := fun fields =>
          filterMap_congr' _ _ fields (fun fl _ => by
            rw [ih _ _ (fun x hx => h x (by
              cases hl : litLookup fs fl.name with
              | none => rw [hl] at hx; cases hx
              | some v =>
                rw [hl] at hx
                simp only [optVars, valueVars] at hx ⊢
                exact valueVars_litLookup hl hx))])
        simp only [this]
      | _ => rfl

theorem valueFromASTF_congr (s : Schema) (vars1 vars2 : Vars) :
    ∀ (n : Nat) (t : GType) (l : Option Value), (∀ x ∈ optVars l, lookupD vars1 x = lookupD vars2 x) →
      valueFromASTF s vars1 n t l = valueFromASTF s vars2 n t l := by
  intro n
  induction n with
  | zero => intro t l _; rfl
  | succ n ih => intro t l h; exact fromASTStep_congr s vars1 vars2 _ _ ih t l h

/-- evaluating a literal only looks at the variables it mentions -/
theorem valueFromAST_congr (s : Schema) (t : GType) (l : Option Value) (vars1 vars2 : Vars)
    (h : ∀ x ∈ optVars l, lookupD vars1 x = lookupD vars2 x) : valueFromAST s t l vars1 = valueFromAST s t l vars2 :=
  valueFromASTF_congr s vars1 vars2 _ t l h

/-- `UserOK` holds as soon as the two variable maps agree on the variables the argument list mentions -/
theorem userOK_of_agree (s : Schema) (vars vars' : Vars) (as : List Argument)
    (h : ∀ x ∈ argsVars as, lookupD vars' x = lookupD vars x) : UserOK s vars vars' as := by
  intro a ha _ t
  apply valueFromAST_congr
  intro x hx
  apply h
  simp only [argsVars, List.mem_flatMap]
  exact ⟨a, ha, hx⟩

/-! ## entries only grow along the walk; the per-field transparency theorem in the form the end-to-end proof uses -/

mutual
theorem normSel_entries_ext (s : Schema) : ∀ (x : Selection) (P : String) (st : NState),
    ∃ es, (normSel s keep P x st).2.entries = st.entries ++ es
  | .field al nm args dirs sel loc, P, st => by
    cases hfd : fieldDefN s P nm.value with
    | none => simp only [normSel, hfd]; exact ⟨[], by simp⟩
    | some fd =>
      obtain ⟨⟨esA, hA⟩, _, _⟩ := normArgs_entries s (argDefsFor keep (respKey al nm) fd) args st
      by_cases ho : s.isObject fd.type.namedName = true
      · simp only [normSel, hfd, ho, if_true]
        obtain ⟨esO, hO⟩ := normOpt_entries_ext s sel fd.type.namedName (normArgs s (argDefsFor keep (respKey al nm) fd) args st).2
        exact ⟨esA ++ esO, by rw [hO, hA, List.append_assoc]⟩
      · simp only [normSel, hfd, ho, Bool.false_eq_true, if_false]; exact ⟨esA, hA⟩
  | .inline tc dirs ss loc, P, st => by
    simp only [normSel]; exact normSet_entries_ext s ss _ st
  | .spread n d l, P, st => ⟨[], by simp [normSel]⟩
theorem normOpt_entries_ext (s : Schema) : ∀ (x : Option SelectionSet) (P : String) (st : NState),
    ∃ es, (normOpt s keep P x st).2.entries = st.entries ++ es
  | none, P, st => ⟨[], by simp [normOpt]⟩
  | some ss, P, st => by simp only [normOpt]; exact normSet_entries_ext s ss P st
theorem normSet_entries_ext (s : Schema) : ∀ (x : SelectionSet) (P : String) (st : NState),
    ∃ es, (normSet s keep P x st).2.entries = st.entries ++ es
  | .mk sels loc, P, st => by simp only [normSet]; exact normList_entries_ext s sels P st
theorem normList_entries_ext (s : Schema) : ∀ (xs : List Selection) (P : String) (st : NState),
    ∃ es, (normList s keep P xs st).2.entries = st.entries ++ es
  | [], P, st => ⟨[], by simp [normList]⟩
  | x :: xs, P, st => by
    simp only [normList]
    obtain ⟨e1, h1⟩ := normSel_entries_ext s x P st
    obtain ⟨e2, h2⟩ := normList_entries_ext s xs P (normSel s keep P x st).2
    exact ⟨e1 ++ e2, by rw [h2, h1, List.append_assoc]⟩
end

theorem find_of_nodup (defs : List ArgDef) (hnd : (defs.map (·.name)).Nodup) (d : ArgDef) (hd : d ∈ defs) :
    defs.find? (fun d' => d'.name == d.name) = some d := by
  induction defs with
  | nil => cases hd
  | cons x xs ih =>
    simp only [List.map_cons, List.nodup_cons] at hnd
    rcases List.mem_cons.mp hd with rfl | hd'
    · simp [List.find?]
    · have hne : (x.name == d.name) = false := by
        simp only [beq_eq_false_iff_ne, ne_eq]
        intro e; exact hnd.1 (e ▸ List.mem_map.mpr ⟨d, hd', rfl⟩)
      simp only [List.find?, hne]
      exact ih hnd.2 hd'

/-- per field: the normalised argument list under `vars'` gives the resolver the argument map the original gives under `vars` -/
theorem normalize_args_transparent_core (s : Schema) (hcc : customLti s)
    (defs : List ArgDef) (hnd : (defs.map (·.name)).Nodup) (as : List Argument) (st : NState) (vars vars' : Vars)
    (hes : EntriesOK s st.entries) (ha : ArgsOK s defs as)
    (hagree : ∀ x ∈ argsVars as, lookupD vars' x = lookupD vars x)
    (hre : Realises s vars' (normArgs s defs as st).2.entries) :
    getArgumentValues s defs (normArgs s defs as st).1 vars' = getArgumentValues s defs as vars := by
  unfold getArgumentValues
  congr 1
  apply filterMap_congr'
  intro d hd
  simp only [argEntry]
  rw [normArgs_lookup s hcc defs vars vars' as st hes ha (userOK_of_agree s vars vars' as hagree) hre d.name d
    (find_of_nodup defs hnd d hd)]

end GqlModel.Normalize
