import GqlProofs.CoerceBasic
/-! C05: fuel bounds. Each step function consults `self` only on strictly shallower values (object-nesting
depth), hence every fuel above the depth gives the same result (`iter_stable`). -/
set_option linter.unusedSimpArgs false
namespace GqlModel.Coerce
open Spec

theorem mapE_congr {α β : Type} (f g : α → Except Err β) (xs : List α) (h : ∀ x ∈ xs, f x = g x) :
    mapE f xs = mapE g xs := by
  induction xs with
  | nil => rfl
  | cons x xs ih =>
    simp only [mapE, h x (by simp), ih (fun y hy => h y (by simp [hy]))]

theorem all_congr' {α : Type} (f g : α → Bool) (xs : List α) (h : ∀ x ∈ xs, f x = g x) : xs.all f = xs.all g := by
  induction xs with
  | nil => rfl
  | cons x xs ih => simp only [List.all_cons, h x (by simp), ih (fun y hy => h y (by simp [hy]))]

theorem filterMap_congr' {α β : Type} (f g : α → Option β) (xs : List α) (h : ∀ x ∈ xs, f x = g x) :
    xs.filterMap f = xs.filterMap g := by
  induction xs with
  | nil => rfl
  | cons x xs ih => simp only [List.filterMap_cons, h x (by simp), ih (fun y hy => h y (by simp [hy]))]

theorem map_congr' {α β : Type} (f g : α → β) (xs : List α) (h : ∀ x ∈ xs, f x = g x) : xs.map f = xs.map g := by
  induction xs with
  | nil => rfl
  | cons x xs ih => simp only [List.map_cons, h x (by simp), ih (fun y hy => h y (by simp [hy]))]

theorem odepth_elem_lt {x : JVal} {xs : List JVal} (h : x ∈ xs) {v' : JVal} (hv : odepth v' < odepth x) :
    odepth v' < odepth (.list xs) := by
  simp only [odepth]; exact Nat.lt_of_lt_of_le hv (odepth_mem_list h)

theorem odepth_field_lt (kv : List (String × JVal)) (k : String) : odepth (lookupD kv k) < odepth (.obj kv) := by
  simp only [odepth]; exact Nat.lt_succ_of_le (odepth_lookupD kv k)

/-! ## values -/

theorem coerceStep_local (s : Schema) (f g : GType → JVal → JVal) :
    ∀ t v, (∀ t' v', odepth v' < odepth v → f t' v' = g t' v') → coerceStep s f t v = coerceStep s g t v := by
  intro t
  induction t with
  | nonNull t ih => intro v h; simp only [coerceStep, ih v h]
  | list t ih =>
    intro v h
    cases v with
    | list xs =>
      simp only [coerceStep]
      rw [map_congr' _ _ xs (fun x hx => ih x (fun t' v' hv => h t' v' (odepth_elem_lt hx hv)))]
    | _ => simp only [coerceStep, ih _ h]
  | named n =>
    intro v h
    simp only [coerceStep]
    cases v with
    | obj kv =>
      have : ∀ fields : List InputFieldS,
          fields.filterMap (fun fl => fieldEntry fl (f fl.type (lookupD kv fl.name))) =
          fields.filterMap (fun fl => fieldEntry fl (g fl.type (lookupD kv fl.name))) := fun fields =>
        filterMap_congr' _ _ fields (fun fl _ => by rw [h _ _ (odepth_field_lt kv fl.name)])
      simp only [this]
    | _ => rfl

theorem validStep_local (s : Schema) (f g : GType → JVal → Bool) :
    ∀ t v, (∀ t' v', odepth v' < odepth v → f t' v' = g t' v') → validStep s f t v = validStep s g t v := by
  intro t
  induction t with
  | nonNull t ih => intro v h; simp only [validStep, ih v h]
  | list t ih =>
    intro v h
    cases v with
    | list xs =>
      simp only [validStep]
      rw [all_congr' _ _ xs (fun x hx => ih x (fun t' v' hv => h t' v' (odepth_elem_lt hx hv)))]
    | _ => simp only [validStep, ih _ h]
  | named n =>
    intro v h
    simp only [validStep]
    cases v with
    | obj kv =>
      have : ∀ fields : List InputFieldS,
          fields.all (fun fl => f fl.type (lookupD kv fl.name)) =
          fields.all (fun fl => g fl.type (lookupD kv fl.name)) := fun fields =>
        all_congr' _ _ fields (fun fl _ => by rw [h _ _ (odepth_field_lt kv fl.name)])
      simp only [this]
    | _ => rfl

theorem strictStep_local (s : Schema) (f g : GType → JVal → Bool) :
    ∀ t v, (∀ t' v', odepth v' < odepth v → f t' v' = g t' v') → strictStep s f t v = strictStep s g t v := by
  intro t
  induction t with
  | nonNull t ih => intro v h; simp only [strictStep, ih v h]
  | list t ih =>
    intro v h
    cases v with
    | list xs =>
      simp only [strictStep]
      rw [all_congr' _ _ xs (fun x hx => ih x (fun t' v' hv => h t' v' (odepth_elem_lt hx hv)))]
    | _ => simp only [strictStep, ih _ h]
  | named n =>
    intro v h
    simp only [strictStep]
    cases v with
    | obj kv =>
      have : ∀ fields : List InputFieldS,
          fields.all (fun fl => f fl.type (lookupD kv fl.name)) =
          fields.all (fun fl => g fl.type (lookupD kv fl.name)) := fun fields =>
        all_congr' _ _ fields (fun fl _ => by rw [h _ _ (odepth_field_lt kv fl.name)])
      simp only [this]
    | _ => rfl

theorem varStep_local (s : Schema) (f g : GType → JVal → Except Err JVal) :
    ∀ t v, (∀ t' v', odepth v' < odepth v → f t' v' = g t' v') → varStep s f t v = varStep s g t v := by
  intro t
  induction t with
  | nonNull t ih => intro v h; simp only [varStep, ih v h]
  | list t ih =>
    intro v h
    cases v with
    | list xs =>
      simp only [varStep]
      rw [mapE_congr _ _ xs (fun x hx => ih x (fun t' v' hv => h t' v' (odepth_elem_lt hx hv)))]
    | _ => simp only [varStep, ih _ h]
  | named n =>
    intro v h
    simp only [varStep]
    cases v with
    | obj kv =>
      have : ∀ fields : List InputFieldS,
          mapE (fun fl => fieldResult fl (f fl.type (lookupD kv fl.name))) fields =
          mapE (fun fl => fieldResult fl (g fl.type (lookupD kv fl.name))) fields := fun fields =>
        mapE_congr _ _ fields (fun fl _ => by rw [h _ _ (odepth_field_lt kv fl.name)])
      simp only [this]
    | _ => rfl


/-! ## literals -/

theorem litDepth_elem_lt {x : Value} {ls : List Value} {loc : Loc} (h : x ∈ ls) {l' : Option Value}
    (hv : optLitDepth l' < optLitDepth (some x)) : optLitDepth l' < optLitDepth (some (.list ls loc)) := by
  simp only [optLitDepth, litDepth] at hv ⊢; exact Nat.lt_of_lt_of_le hv (litDepth_mem_list h)

theorem litDepth_field_lt (fs : List ObjField) (loc : Loc) (k : String) :
    optLitDepth (litLookup fs k) < optLitDepth (some (.obj fs loc)) := by
  simp only [optLitDepth, litDepth]; exact Nat.lt_succ_of_le (optLitDepth_litLookup fs k)

theorem validLitStep_local (s : Schema) (f g : GType → Option Value → Bool) :
    ∀ t l, (∀ t' l', optLitDepth l' < optLitDepth l → f t' l' = g t' l') →
      validLitStep s f t l = validLitStep s g t l := by
  intro t
  induction t with
  | nonNull t ih =>
    intro l h
    cases l with
    | none => rfl
    | some l => simp only [validLitStep, ih _ h]
  | list t ih =>
    intro l h
    cases l with
    | none => rfl
    | some l =>
      cases l with
      | list ls loc =>
        simp only [validLitStep]
        rw [all_congr' _ _ ls (fun x hx => ih (some x) (fun t' l' hv => h t' l' (litDepth_elem_lt hx hv)))]
      | var x loc => rfl
      | _ => simp only [validLitStep, ih _ h]
  | named n =>
    intro l h
    cases l with
    | none => rfl
    | some l =>
      cases l with
      | obj fs loc =>
        simp only [validLitStep]
        have : ∀ fields : List InputFieldS,
            fields.all (fun fl => f fl.type (litLookup fs fl.name)) =
            fields.all (fun fl => g fl.type (litLookup fs fl.name)) := fun fields =>
          all_congr' _ _ fields (fun fl _ => by rw [h _ _ (litDepth_field_lt fs loc fl.name)])
        simp only [this]
      | _ => rfl

theorem varsProvidedStep_local (s : Schema) (vars : Vars) (f g : GType → Option Value → Bool) :
    ∀ t l, (∀ t' l', optLitDepth l' < optLitDepth l → f t' l' = g t' l') →
      varsProvidedStep s vars f t l = varsProvidedStep s vars g t l := by
  intro t
  induction t with
  | nonNull t ih =>
    intro l h
    cases l with
    | none => rfl
    | some l =>
      cases l with
      | var x loc => rfl
      | _ => simp only [varsProvidedStep, ih _ h]
  | list t ih =>
    intro l h
    cases l with
    | none => rfl
    | some l =>
      cases l with
      | list ls loc =>
        simp only [varsProvidedStep]
        rw [all_congr' _ _ ls (fun x hx => ih (some x) (fun t' l' hv => h t' l' (litDepth_elem_lt hx hv)))]
      | var x loc => rfl
      | _ => simp only [varsProvidedStep, ih _ h]
  | named n =>
    intro l h
    cases l with
    | none => rfl
    | some l =>
      cases l with
      | obj fs loc =>
        simp only [varsProvidedStep]
        have : ∀ fields : List InputFieldS,
            fields.all (fun fl => f fl.type (litLookup fs fl.name)) =
            fields.all (fun fl => g fl.type (litLookup fs fl.name)) := fun fields =>
          all_congr' _ _ fields (fun fl _ => by rw [h _ _ (litDepth_field_lt fs loc fl.name)])
        simp only [this]
      | _ => rfl

theorem fromASTStep_local (s : Schema) (vars : Vars) (f g : GType → Option Value → JVal) :
    ∀ t l, (∀ t' l', optLitDepth l' < optLitDepth l → f t' l' = g t' l') →
      fromASTStep s vars f t l = fromASTStep s vars g t l := by
  intro t
  induction t with
  | nonNull t ih =>
    intro l h
    cases l with
    | none => rfl
    | some l =>
      cases l with
      | var x loc => rfl
      | _ => simp only [fromASTStep, ih _ h]
  | list t ih =>
    intro l h
    cases l with
    | none => rfl
    | some l =>
      cases l with
      | list ls loc =>
        simp only [fromASTStep]
        rw [map_congr' _ _ ls (fun x hx => ih (some x) (fun t' l' hv => h t' l' (litDepth_elem_lt hx hv)))]
      | var x loc => rfl
      | _ => simp only [fromASTStep, ih _ h]
  | named n =>
    intro l h
    cases l with
    | none => rfl
    | some l =>
      cases l with
      | obj fs loc =>
        simp only [fromASTStep]
        have : ∀ fields : List InputFieldS,
            fields.filterMap (fun fl => fieldEntry fl (f fl.type (litLookup fs fl.name))) =
            fields.filterMap (fun fl => fieldEntry fl (g fl.type (litLookup fs fl.name))) := fun fields =>
          filterMap_congr' _ _ fields (fun fl _ => by rw [h _ _ (litDepth_field_lt fs loc fl.name)])
        simp only [this]
      | _ => rfl

theorem litStep_local (s : Schema) (vars : Vars) (f g : GType → Option Value → Except Err JVal) :
    ∀ t l, (∀ t' l', optLitDepth l' < optLitDepth l → f t' l' = g t' l') →
      litStep s vars f t l = litStep s vars g t l := by
  intro t
  induction t with
  | nonNull t ih =>
    intro l h
    cases l with
    | none => rfl
    | some l =>
      cases l with
      | var x loc => rfl
      | _ => simp only [litStep, ih _ h]
  | list t ih =>
    intro l h
    cases l with
    | none => rfl
    | some l =>
      cases l with
      | list ls loc =>
        simp only [litStep]
        rw [mapE_congr _ _ ls (fun x hx => ih (some x) (fun t' l' hv => h t' l' (litDepth_elem_lt hx hv)))]
      | var x loc => rfl
      | _ => simp only [litStep, ih _ h]
  | named n =>
    intro l h
    cases l with
    | none => rfl
    | some l =>
      cases l with
      | obj fs loc =>
        simp only [litStep]
        have : ∀ fields : List InputFieldS,
            mapE (fun fl => fieldResult fl (f fl.type (litLookup fs fl.name))) fields =
            mapE (fun fl => fieldResult fl (g fl.type (litLookup fs fl.name))) fields := fun fields =>
          mapE_congr _ _ fields (fun fl _ => by rw [h _ _ (litDepth_field_lt fs loc fl.name)])
        simp only [this]
      | _ => rfl

/-! ## The bounds: every fuel above the object-nesting depth gives the result of the fuel-free API -/

theorem coerceValueF_stable (s : Schema) (n : Nat) (t : GType) (v : JVal) (h : odepth v < n) :
    coerceValueF s n t v = coerceValue s t v :=
  iter_stable odepth _ _ (coerceStep_local s) n _ t v h (Nat.lt_succ_self _)

theorem isValidInputValueF_stable (s : Schema) (n : Nat) (t : GType) (v : JVal) (h : odepth v < n) :
    isValidInputValueF s n t v = isValidInputValue s t v :=
  iter_stable odepth _ _ (validStep_local s) n _ t v h (Nat.lt_succ_self _)

theorem strictlyTypedF_stable (s : Schema) (n : Nat) (t : GType) (v : JVal) (h : odepth v < n) :
    strictlyTypedF s n t v = strictlyTyped s v t :=
  iter_stable odepth _ _ (strictStep_local s) n _ t v h (Nat.lt_succ_self _)

theorem coerceVariableF_stable (s : Schema) (n : Nat) (t : GType) (v : JVal) (h : odepth v < n) :
    coerceVariableF s n t v = coerceVariable s t (some v) :=
  iter_stable odepth _ _ (varStep_local s) n _ t v h (Nat.lt_succ_self _)

theorem isValidLiteralValueF_stable (s : Schema) (n : Nat) (t : GType) (l : Option Value) (h : optLitDepth l < n) :
    isValidLiteralValueF s n t l = isValidLiteralValue s t l :=
  iter_stable optLitDepth _ _ (validLitStep_local s) n _ t l h (Nat.lt_succ_self _)

theorem valueFromASTF_stable (s : Schema) (vars : Vars) (n : Nat) (t : GType) (l : Option Value)
    (h : optLitDepth l < n) : valueFromASTF s vars n t l = valueFromAST s t l vars :=
  iter_stable optLitDepth _ _ (fromASTStep_local s vars) n _ t l h (Nat.lt_succ_self _)

theorem coerceLiteralF_stable (s : Schema) (vars : Vars) (n : Nat) (t : GType) (l : Option Value)
    (h : optLitDepth l < n) : coerceLiteralF s vars n t l = coerceLiteral s t l vars :=
  iter_stable optLitDepth _ _ (litStep_local s vars) n _ t l h (Nat.lt_succ_self _)

theorem varsProvidedF_stable (s : Schema) (vars : Vars) (n : Nat) (t : GType) (l : Option Value)
    (h : optLitDepth l < n) : varsProvidedF s vars n t l = varsProvided s t l vars :=
  iter_stable optLitDepth _ _ (varsProvidedStep_local s vars) n _ t l h (Nat.lt_succ_self _)

/-- The specification never runs out of fuel at the fuel the API gives it. -/
theorem coerceVariable_no_fuel_error (s : Schema) (t : GType) (v : JVal) (n : Nat) (h : odepth v < n) :
    coerceVariableF s n t v = coerceVariable s t (some v) := coerceVariableF_stable s n t v h

end GqlModel.Coerce
