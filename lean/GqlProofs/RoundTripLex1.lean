import GqlProofs.RoundTripUtf8
import GqlProofs.LexerToken
import GqlModel.ValueReader
/-! # C08 byte level — NAME tokens: a printed name followed by a delimiter lexes to that name (spec tokeniser)

`Lexer.Spec.token` on `utf8 name ++ rest`, where `name` satisfies `Reader.isNameC` (what `WFDocument` demands of every
name) and `rest` is empty or starts with a byte that cannot continue a name / number (`DelimB`).  Maximal munch stops
exactly at the end of the name. -/
namespace GqlModel.RoundTrip
open GqlModel GqlModel.Lexer GqlModel.Lexer.Spec

/-- byte of an ASCII character -/
def B (c : Char) : UInt8 := UInt8.ofNat c.toNat

theorem utf8_cons_ascii (c : Char) (cs : Chars) (h : c.toNat < 128) : utf8 (c :: cs) = B c :: utf8 cs := by
  rw [utf8_cons, enc_ascii c h]; rfl

theorem B_toNat (c : Char) (h : c.toNat < 128) : (B c).toNat = c.toNat := by
  simp only [B, UInt8.toNat_ofNat']; omega

/-- the bytes the printer puts after a token: space, newline, comma, or one of the one-byte punctuators -/
def isDelimByte (b : UInt8) : Prop :=
  b = 32 ∨ b = 10 ∨ b = 44 ∨ b = 33 ∨ b = 36 ∨ b = 38 ∨ b = 40 ∨ b = 41 ∨ b = 58 ∨ b = 61 ∨ b = 64 ∨ b = 91 ∨ b = 93 ∨
    b = 123 ∨ b = 124 ∨ b = 125
instance (b : UInt8) : Decidable (isDelimByte b) := by unfold isDelimByte; infer_instance

/-- the continuation is empty or starts with a delimiter byte -/
def DelimB (rest : Bytes) : Prop :=
  match rest with
  | [] => True
  | b :: _ => isDelimByte b

theorem delim_toNat {b : UInt8} (h : isDelimByte b) :
    b.toNat = 32 ∨ b.toNat = 10 ∨ b.toNat = 44 ∨ b.toNat = 33 ∨ b.toNat = 36 ∨ b.toNat = 38 ∨ b.toNat = 40 ∨ b.toNat = 41 ∨
      b.toNat = 58 ∨ b.toNat = 61 ∨ b.toNat = 64 ∨ b.toNat = 91 ∨ b.toNat = 93 ∨ b.toNat = 123 ∨ b.toNat = 124 ∨ b.toNat = 125 := by
  unfold isDelimByte at h
  bnorm at h
  exact h

theorem delim_not_nameCont {b : UInt8} (h : isDelimByte b) : ¬ isNameContByte b := by
  have := delim_toNat h
  unfold isNameContByte isNameStartByte isDigitByte
  bnorm; omega

theorem delim_not_digit {b : UInt8} (h : isDelimByte b) : ¬ isDigitByte b := by
  have := delim_toNat h
  unfold isDigitByte; omega

theorem delim_not_num {b : UInt8} (h : isDelimByte b) : b ≠ 46 ∧ b ≠ 69 ∧ b ≠ 101 ∧ b ≠ 34 := by
  have := delim_toNat h
  bnorm; omega

/-! ## spans -/

theorem spanLen_append (p : UInt8 → Bool) : ∀ (l rest : Bytes), (∀ b ∈ l, p b = true) →
    (∀ d, rest.head? = some d → p d = false) → spanLen p (l ++ rest) = l.length
  | [], rest, _, hr => by
    cases rest with
    | nil => rfl
    | cons d r => simp [spanLen, hr d rfl]
  | b :: l, rest, hl, hr => by
    simp only [List.cons_append, spanLen, hl b (by simp), if_true, List.length_cons]
    rw [spanLen_append p l rest (fun x hx => hl x (by simp [hx])) hr]

/-! ## names -/

theorem nameStart_ascii {c : Char} (h : Reader.isNameStart c = true) : c.toNat < 128 := by
  simp only [Reader.isNameStart, Bool.or_eq_true, Bool.and_eq_true, decide_eq_true_eq] at h; omega

theorem digit_ascii {c : Char} (h : Reader.isDigit c = true) : c.toNat < 128 := by
  simp only [Reader.isDigit, Bool.and_eq_true, decide_eq_true_eq] at h; omega

theorem nameCont_ascii {c : Char} (h : Reader.isNameCont c = true) : c.toNat < 128 := by
  simp only [Reader.isNameCont, Bool.or_eq_true] at h
  rcases h with h | h
  · exact nameStart_ascii h
  · exact digit_ascii h

theorem nameStart_B {c : Char} (h : Reader.isNameStart c = true) : isNameStartByte (B c) := by
  have ha := nameStart_ascii h
  simp only [Reader.isNameStart, Bool.or_eq_true, Bool.and_eq_true, decide_eq_true_eq] at h
  unfold isNameStartByte
  rw [B_toNat c ha]
  bnorm
  rw [B_toNat c ha]
  omega

theorem digit_B {c : Char} (h : Reader.isDigit c = true) : isDigitByte (B c) := by
  have ha := digit_ascii h
  simp only [Reader.isDigit, Bool.and_eq_true, decide_eq_true_eq] at h
  unfold isDigitByte
  rw [B_toNat c ha]
  omega

theorem nameCont_B {c : Char} (h : Reader.isNameCont c = true) : isNameContByte (B c) := by
  simp only [Reader.isNameCont, Bool.or_eq_true] at h
  rcases h with h | h
  · exact Or.inl (nameStart_B h)
  · exact Or.inr (digit_B h)

theorem asciiC_of_all {p : Char → Bool} (hp : ∀ c, p c = true → c.toNat < 128) {cs : Chars} (h : cs.all p = true) :
    asciiC cs := by
  intro c hc
  exact hp c (List.all_eq_true.mp h c hc)

theorem all_B {p : Char → Bool} {q : UInt8 → Prop} (hp : ∀ c, p c = true → c.toNat < 128) (hq : ∀ c, p c = true → q (B c))
    {cs : Chars} (h : cs.all p = true) : ∀ b ∈ utf8 cs, q b := by
  intro b hb
  rw [utf8_ascii cs (asciiC_of_all hp h)] at hb
  obtain ⟨c, hc, rfl⟩ := List.mem_map.mp hb
  exact hq c (List.all_eq_true.mp h c hc)

theorem isNameC_ascii {nm : Chars} (h : Reader.isNameC nm = true) : asciiC nm := by
  match nm, h with
  | c :: r, h =>
    simp only [Reader.isNameC, Bool.and_eq_true] at h
    intro x hx
    rcases List.mem_cons.mp hx with rfl | hx
    · exact nameStart_ascii h.1
    · exact nameCont_ascii (List.all_eq_true.mp h.2 x hx)

theorem nameStartByte_facts {c : UInt8} (h : isNameStartByte c) : ¬ isCtrl c ∧ punctuatorByte c = none ∧ ¬ c = 46 := by
  unfold isNameStartByte at h
  bnorm at h
  refine ⟨?_, ?_, ?_⟩
  · unfold isCtrl; omega
  · unfold punctuatorByte
    rw [if_neg (by bnorm; omega), if_neg (by bnorm; omega), if_neg (by bnorm; omega), if_neg (by bnorm; omega),
      if_neg (by bnorm; omega), if_neg (by bnorm; omega), if_neg (by bnorm; omega), if_neg (by bnorm; omega),
      if_neg (by bnorm; omega), if_neg (by bnorm; omega), if_neg (by bnorm; omega), if_neg (by bnorm; omega),
      if_neg (by bnorm; omega)]
  · bnorm; omega

theorem delimB_head {rest : Bytes} (h : DelimB rest) : ∀ d, rest.head? = some d → isDelimByte d := by
  intro d hd
  cases rest with
  | nil => simp at hd
  | cons b r => simp only [List.head?_cons, Option.some.injEq] at hd; subst hd; exact h

/-- **NAME**: maximal munch stops exactly at the end of a printed name -/
theorem token_name_lit (nm : Chars) (rest : Bytes) (h : Reader.isNameC nm = true) (hr : DelimB rest) :
    token (utf8 nm ++ rest) = .ok (.name, (utf8 nm).length, utf8 nm) := by
  match nm, h with
  | c :: r, h =>
    simp only [Reader.isNameC, Bool.and_eq_true] at h
    have hs := nameStart_B h.1
    obtain ⟨h1, h2, h3⟩ := nameStartByte_facts hs
    have hall : ∀ b ∈ utf8 (c :: r), (fun x => decide (isNameContByte x)) b = true := by
      intro b hb
      rw [utf8_cons_ascii c r (nameStart_ascii h.1)] at hb
      rcases List.mem_cons.mp hb with rfl | hb
      · exact decide_eq_true (Or.inl hs : isNameContByte (B c))
      · exact decide_eq_true (all_B (fun c => nameCont_ascii) (fun c => nameCont_B) h.2 b hb)
    have hlen : nameLen (utf8 (c :: r) ++ rest) = (utf8 (c :: r)).length := by
      apply spanLen_append _ _ _ hall
      intro d hd
      simpa using delim_not_nameCont (delimB_head hr d hd)
    have e : utf8 (c :: r) ++ rest = B c :: (utf8 r ++ rest) := by
      rw [utf8_cons_ascii c r (nameStart_ascii h.1)]; rfl
    rw [e, token_name _ _ h1 h2 h3 hs, ← e, hlen, List.take_left']
    rfl

end GqlModel.RoundTrip
