import GqlModel.Grammar
import GqlModel.PrinterWF
/-! # C08 `parse_ok_WF`, grammar half (1): what a derivation over well-formed tokens denotes is well-formed

`TokWF t`: a NAME token's value is a GraphQL name, an INT / FLOAT token's value a well-formed number text (what the
lexer guarantees — GqlProofs/RoundTripWF3.lean).  `AllWF p`: every token ahead of position `p` is such.
For every derivation relation of C03's grammar S: if the tokens are well-formed, the denoted node satisfies the `WF…`
predicate of GqlModel/PrinterWF.lean (and the remaining tokens are still well-formed). -/
namespace GqlModel.RoundTrip
open GqlModel GqlModel.Grammar GqlModel.Printer GqlModel.Reader

def TokWF (t : Token) : Prop :=
  match t.kind with
  | .name => isNameC t.value.toList = true
  | .int => isIntLit t.value.toList = true
  | .float => IsFloatLit t.value.toList
  | _ => True

def AllWF (p : Pos) : Prop := ∀ t ∈ p.ts, TokWF t

theorem tok_wf {k : TokenKind} {p : Pos} {t : Token} {p' : Pos} (h : Tok k p t p') (a : AllWF p) :
    (TokWF t ∧ t.kind = k) ∧ AllWF p' := by
  cases h with
  | mk e t r hk => exact ⟨⟨a t (by simp), hk⟩, fun x hx => a x (by simp [hx])⟩

theorem kw_wf {s : String} {p p' : Pos} (h : Kw s p p') (a : AllWF p) : AllWF p' := by
  cases h with
  | mk ht _ => exact (tok_wf ht a).2

theorem dname_wf {p : Pos} {n : Name} {p' : Pos} (h : DName p n p') (a : AllWF p) : WFName n.value ∧ AllWF p' := by
  cases h with
  | mk ht =>
    obtain ⟨⟨w, hk⟩, a'⟩ := tok_wf ht a
    refine ⟨?_, a'⟩
    simp only [TokWF, hk] at w
    exact w

theorem many_wf {α : Type} {item : Pos → α → Pos → Prop} {Q : α → Prop} {QL : List α → Prop} (hnil : QL [])
    (hcons : ∀ x xs, Q x → QL xs → QL (x :: xs))
    (hitem : ∀ p x p', item p x p' → AllWF p → Q x ∧ AllWF p') :
    ∀ {p xs p'}, Many item p xs p' → AllWF p → QL xs ∧ AllWF p'
  | _, _, _, .nil, a => ⟨hnil, a⟩
  | _, _, _, .cons h hs, a => by
    obtain ⟨w, a1⟩ := hitem _ _ _ h a
    obtain ⟨ws, a2⟩ := many_wf hnil hcons hitem hs a1
    exact ⟨hcons _ _ w ws, a2⟩

theorem sepBy_wf {α : Type} {sep : TokenKind} {item : Pos → α → Pos → Prop} {Q : α → Prop} {QL : List α → Prop} (hnil : QL [])
    (hcons : ∀ x xs, Q x → QL xs → QL (x :: xs))
    (hitem : ∀ p x p', item p x p' → AllWF p → Q x ∧ AllWF p') :
    ∀ {p xs p'}, SepBy sep item p xs p' → AllWF p → (QL xs ∧ xs ≠ []) ∧ AllWF p'
  | _, _, _, .one h _, a => by
    obtain ⟨w, a1⟩ := hitem _ _ _ h a
    exact ⟨⟨hcons _ _ w hnil, by simp⟩, a1⟩
  | _, _, _, .cons h hs hr, a => by
    obtain ⟨w, a1⟩ := hitem _ _ _ h a
    obtain ⟨_, a2⟩ := tok_wf hs a1
    obtain ⟨⟨ws, _⟩, a3⟩ := sepBy_wf hnil hcons hitem hr a2
    exact ⟨⟨hcons _ _ w ws, by simp⟩, a3⟩

theorem braced_wf {α : Type} {item : Pos → α → Pos → Prop} {Q : α → Prop} {QL : List α → Prop} (hnil : QL [])
    (hcons : ∀ x xs, Q x → QL xs → QL (x :: xs))
    (hitem : ∀ p x p', item p x p' → AllWF p → Q x ∧ AllWF p')
    {p : Pos} {xs : List α} {p' : Pos} (h : Braced item p xs p') (a : AllWF p) : QL xs ∧ AllWF p' := by
  cases h with
  | mk ho hm hc =>
    obtain ⟨_, a1⟩ := tok_wf ho a
    obtain ⟨w, a2⟩ := many_wf hnil hcons hitem hm a1
    obtain ⟨_, a3⟩ := tok_wf hc a2
    exact ⟨w, a3⟩

/-! ## values -/

theorem ne_of_toList_ne {s : String} {l : List Char} {lit : String} (hl : lit.toList = l) (h : s ≠ lit) : s.toList ≠ l := by
  intro e
  apply h
  rw [← String.ofList_toList (s := s), ← String.ofList_toList (s := lit), e, hl]

mutual
theorem DValue.wf : ∀ {c p v p'}, DValue c p v p' → AllWF p → (WFValue v ∧ (c = true → ConstValue v)) ∧ AllWF p'
  | _, _, _, _, .var h, a => by
    cases h with
    | mk hd hn =>
      obtain ⟨_, a1⟩ := tok_wf hd a
      obtain ⟨w, a2⟩ := dname_wf hn a1
      exact ⟨⟨w, fun hc => by cases hc⟩, a2⟩
  | _, _, _, _, .int h, a => by
    obtain ⟨⟨w, hk⟩, a1⟩ := tok_wf h a
    simp only [TokWF, hk] at w
    exact ⟨⟨w, fun _ => trivial⟩, a1⟩
  | _, _, _, _, .float h, a => by
    obtain ⟨⟨w, hk⟩, a1⟩ := tok_wf h a
    simp only [TokWF, hk] at w
    exact ⟨⟨w, fun _ => trivial⟩, a1⟩
  | _, _, _, _, .string h, a => ⟨⟨trivial, fun _ => trivial⟩, (tok_wf h a).2⟩
  | _, _, _, _, .blockString h, a => ⟨⟨trivial, fun _ => trivial⟩, (tok_wf h a).2⟩
  | _, _, _, _, .tru h, a => ⟨⟨trivial, fun _ => trivial⟩, kw_wf h a⟩
  | _, _, _, _, .fls h, a => ⟨⟨trivial, fun _ => trivial⟩, kw_wf h a⟩
  | _, _, _, _, .enum h h1 h2 h3, a => by
    obtain ⟨⟨w, hk⟩, a1⟩ := tok_wf h a
    simp only [TokWF, hk] at w
    exact ⟨⟨⟨w, ne_of_toList_ne rfl h1, ne_of_toList_ne rfl h2, ne_of_toList_ne rfl h3⟩, fun _ => trivial⟩, a1⟩
  | _, _, _, _, .list ho hvs hc, a => by
    obtain ⟨_, a1⟩ := tok_wf ho a
    obtain ⟨w, a2⟩ := DValues.wf hvs a1
    obtain ⟨_, a3⟩ := tok_wf hc a2
    exact ⟨w, a3⟩
  | _, _, _, _, .obj ho hfs hc, a => by
    obtain ⟨_, a1⟩ := tok_wf ho a
    obtain ⟨w, a2⟩ := DObjFields.wf hfs a1
    obtain ⟨_, a3⟩ := tok_wf hc a2
    exact ⟨w, a3⟩
theorem DValues.wf : ∀ {c p vs p'}, DValues c p vs p' → AllWF p → (WFValues vs ∧ (c = true → ConstValues vs)) ∧ AllWF p'
  | _, _, _, _, .nil, a => ⟨⟨trivial, fun _ => trivial⟩, a⟩
  | _, _, _, _, .cons hv hvs, a => by
    obtain ⟨⟨w1, c1⟩, a1⟩ := DValue.wf hv a
    obtain ⟨⟨w2, c2⟩, a2⟩ := DValues.wf hvs a1
    exact ⟨⟨⟨w1, w2⟩, fun hc => ⟨c1 hc, c2 hc⟩⟩, a2⟩
theorem DObjFields.wf : ∀ {c p fs p'}, DObjFields c p fs p' → AllWF p → (WFFields fs ∧ (c = true → ConstFields fs)) ∧ AllWF p'
  | _, _, _, _, .nil, a => ⟨⟨trivial, fun _ => trivial⟩, a⟩
  | _, _, _, _, .cons hf hfs, a => by
    obtain ⟨⟨w1, c1⟩, a1⟩ := DObjField.wf hf a
    obtain ⟨⟨w2, c2⟩, a2⟩ := DObjFields.wf hfs a1
    exact ⟨⟨⟨w1, w2⟩, fun hc => ⟨c1 hc, c2 hc⟩⟩, a2⟩
theorem DObjField.wf : ∀ {c p f p'}, DObjField c p f p' → AllWF p → (WFField f ∧ (c = true → ConstField f)) ∧ AllWF p'
  | _, _, _, _, .mk hn hc hv, a => by
    obtain ⟨wn, a1⟩ := dname_wf hn a
    obtain ⟨_, a2⟩ := tok_wf hc a1
    obtain ⟨⟨wv, cv⟩, a3⟩ := DValue.wf hv a2
    exact ⟨⟨⟨wn, wv⟩, cv⟩, a3⟩
end

/-! ## arguments, directives -/

theorem dargument_wf {p : Pos} {x : Argument} {p' : Pos} (h : DArgument p x p') (a : AllWF p) : WFArgument x ∧ AllWF p' := by
  cases h with
  | mk hn hc hv =>
    obtain ⟨wn, a1⟩ := dname_wf hn a
    obtain ⟨_, a2⟩ := tok_wf hc a1
    obtain ⟨⟨wv, _⟩, a3⟩ := DValue.wf hv a2
    exact ⟨⟨wn, wv⟩, a3⟩

theorem darguments_wf {p : Pos} {xs : List Argument} {p' : Pos} (h : DArguments p xs p') (a : AllWF p) :
    WFArguments xs ∧ AllWF p' := by
  cases h with
  | none _ => exact ⟨trivial, a⟩
  | some ho hm _ hc =>
    obtain ⟨_, a1⟩ := tok_wf ho a
    obtain ⟨w, a2⟩ := many_wf (QL := WFArguments) trivial (fun _ _ x y => ⟨x, y⟩) (fun _ _ _ => dargument_wf) hm a1
    obtain ⟨_, a3⟩ := tok_wf hc a2
    exact ⟨w, a3⟩

theorem ddirective_wf {p : Pos} {x : Directive} {p' : Pos} (h : DDirective p x p') (a : AllWF p) : WFDirective x ∧ AllWF p' := by
  cases h with
  | mk hat hn hargs =>
    obtain ⟨_, a1⟩ := tok_wf hat a
    obtain ⟨wn, a2⟩ := dname_wf hn a1
    obtain ⟨wa, a3⟩ := darguments_wf hargs a2
    exact ⟨⟨wn, wa⟩, a3⟩

theorem ddirectives_wf : ∀ {p : Pos} {xs : List Directive} {p' : Pos}, DDirectives p xs p' → AllWF p → WFDirectives xs ∧ AllWF p'
  | _, _, _, .nil _, a => ⟨trivial, a⟩
  | _, _, _, .cons h hs, a => by
    obtain ⟨w, a1⟩ := ddirective_wf h a
    obtain ⟨ws, a2⟩ := ddirectives_wf hs a1
    exact ⟨⟨w, ws⟩, a2⟩

/-! ## types -/

theorem dnamedType_wf {p : Pos} {t : TypeRef} {p' : Pos} (h : DNamedType p t p') (a : AllWF p) :
    (WFNamedType t ∧ WFType t ∧ isBaseTypeB t = true) ∧ AllWF p' := by
  cases h with
  | mk hn =>
    obtain ⟨w, a1⟩ := dname_wf hn a
    exact ⟨⟨w, w, rfl⟩, a1⟩

theorem wfType_nonNull {t : TypeRef} {l : Loc} (h : WFType t) (hb : isBaseTypeB t = true) : WFType (.nonNull t l) := by
  cases t with
  | named _ _ => exact ⟨h, trivial⟩
  | list _ _ => exact ⟨h, trivial⟩
  | nonNull _ _ => cases hb

mutual
theorem DBaseType.wf : ∀ {p t p'}, DBaseType p t p' → AllWF p → (WFType t ∧ isBaseTypeB t = true) ∧ AllWF p'
  | _, _, _, .named h, a => by
    obtain ⟨⟨_, w, b⟩, a1⟩ := dnamedType_wf h a
    exact ⟨⟨w, b⟩, a1⟩
  | _, _, _, .list ho ht hc, a => by
    obtain ⟨_, a1⟩ := tok_wf ho a
    obtain ⟨w, a2⟩ := DType.wf ht a1
    obtain ⟨_, a3⟩ := tok_wf hc a2
    exact ⟨⟨w, rfl⟩, a3⟩
theorem DType.wf : ∀ {p t p'}, DType p t p' → AllWF p → WFType t ∧ AllWF p'
  | _, _, _, .plain h _, a => by
    obtain ⟨⟨w, _⟩, a1⟩ := DBaseType.wf h a
    exact ⟨w, a1⟩
  | _, _, _, .nonNull h hb, a => by
    obtain ⟨⟨w, b⟩, a1⟩ := DBaseType.wf h a
    obtain ⟨_, a2⟩ := tok_wf hb a1
    exact ⟨wfType_nonNull w b, a2⟩
end

/-! ## selections -/

theorem dfragmentName_wf {p : Pos} {n : Name} {p' : Pos} (h : DFragmentName p n p') (a : AllWF p) :
    (WFName n.value ∧ n.value ≠ "on") ∧ AllWF p' := by
  cases h with
  | mk hn hne =>
    obtain ⟨w, a1⟩ := dname_wf hn a
    exact ⟨⟨w, hne⟩, a1⟩

theorem dtypeCondition_wf {p : Pos} {t : Option TypeRef} {p' : Pos} (h : DTypeCondition p t p') (a : AllWF p) :
    WFTypeCond t ∧ AllWF p' := by
  cases h with
  | none _ => exact ⟨trivial, a⟩
  | some hk ht =>
    obtain ⟨⟨w, _⟩, a2⟩ := dnamedType_wf ht (kw_wf hk a)
    exact ⟨w, a2⟩

mutual
theorem DSelectionSet.wf : ∀ {p s p'}, DSelectionSet p s p' → AllWF p → WFSelSet s ∧ AllWF p'
  | _, _, _, .mk ho hs hne hc, a => by
    obtain ⟨_, a1⟩ := tok_wf ho a
    obtain ⟨w, a2⟩ := DSelections.wf hs a1
    obtain ⟨_, a3⟩ := tok_wf hc a2
    exact ⟨⟨hne, w⟩, a3⟩
theorem DSelections.wf : ∀ {p ss p'}, DSelections p ss p' → AllWF p → WFSelections ss ∧ AllWF p'
  | _, _, _, .nil, a => ⟨trivial, a⟩
  | _, _, _, .cons h hs, a => by
    obtain ⟨w, a1⟩ := DSelection.wf h a
    obtain ⟨ws, a2⟩ := DSelections.wf hs a1
    exact ⟨⟨w, ws⟩, a2⟩
theorem DSelection.wf : ∀ {p s p'}, DSelection p s p' → AllWF p → WFSelection s ∧ AllWF p'
  | _, _, _, .field hn _ ha hd hs, a => by
    obtain ⟨wn, a1⟩ := dname_wf hn a
    obtain ⟨wa, a2⟩ := darguments_wf ha a1
    obtain ⟨wd, a3⟩ := ddirectives_wf hd a2
    obtain ⟨ws, a4⟩ := DOptSelectionSet.wf hs a3
    exact ⟨⟨trivial, wn, wa, wd, ws⟩, a4⟩
  | _, _, _, .aliased hal hc hn ha hd hs, a => by
    obtain ⟨wal, a0⟩ := dname_wf hal a
    obtain ⟨_, a0'⟩ := tok_wf hc a0
    obtain ⟨wn, a1⟩ := dname_wf hn a0'
    obtain ⟨wa, a2⟩ := darguments_wf ha a1
    obtain ⟨wd, a3⟩ := ddirectives_wf hd a2
    obtain ⟨ws, a4⟩ := DOptSelectionSet.wf hs a3
    exact ⟨⟨wal, wn, wa, wd, ws⟩, a4⟩
  | _, _, _, .spread hsp hn hd, a => by
    obtain ⟨_, a1⟩ := tok_wf hsp a
    obtain ⟨⟨wn, hne⟩, a2⟩ := dfragmentName_wf hn a1
    obtain ⟨wd, a3⟩ := ddirectives_wf hd a2
    exact ⟨⟨wn, hne, wd⟩, a3⟩
  | _, _, _, .inline hsp ht hd hss, a => by
    obtain ⟨_, a1⟩ := tok_wf hsp a
    obtain ⟨wt, a2⟩ := dtypeCondition_wf ht a1
    obtain ⟨wd, a3⟩ := ddirectives_wf hd a2
    obtain ⟨ws, a4⟩ := DSelectionSet.wf hss a3
    exact ⟨⟨wt, wd, ws⟩, a4⟩
theorem DOptSelectionSet.wf : ∀ {p s p'}, DOptSelectionSet p s p' → AllWF p → WFOptSelSet s ∧ AllWF p'
  | _, _, _, .none _, a => ⟨trivial, a⟩
  | _, _, _, .some h, a => DSelectionSet.wf h a
end

end GqlModel.RoundTrip
