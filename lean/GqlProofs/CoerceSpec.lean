import GqlProofs.CoerceBasic
/-! C05: the library's validity/coercion functions agree with the specification (step lemmas and fuel induction). -/
set_option linter.unusedSimpArgs false
namespace GqlModel.Coerce
open Spec

theorem isNumericString_false {x : String} (h : isNumericString x = false) : parseDec x.toList = none := by
  unfold isNumericString at h
  cases hp : parseDec x.toList <;> simp [hp] at h ⊢

theorem scalar_agree (n : String) (k : ScalarKind) (v : JVal) (hv : v.isNull = false)
    (hs : strictScalar k v = true) :
    Agree (!(parseValue k v).isNull) (scalarValue n k v) (parseValue k v) := by
  unfold Agree
  cases k with
  | custom sv pv pl =>
    cases v <;> simp only [parseValue, scalarValue] <;>
      (generalize tableLookup pv _ = r; cases r <;> simp [JVal.isNull])
  | int =>
    cases v <;> simp_all [strictScalar, parseValue, scalarValue, coerceInt, JVal.isNull]
    · rename_i i; by_cases hi : inInt32 i = true <;> simp [hi]
    · simp [isNumericString_false hs]
  | float =>
    cases v <;> simp_all [strictScalar, parseValue, scalarValue, coerceFloat, JVal.isNull]
    · simp [isNumericString_false hs]
  | string => cases v <;> simp_all [strictScalar, parseValue, scalarValue, fmtV, JVal.isNull]
  | boolean => cases v <;> simp_all [strictScalar, parseValue, scalarValue, coerceBool, JVal.isNull]
  | id => cases v <;> simp_all [strictScalar, parseValue, scalarValue, fmtV, JVal.isNull]

theorem enum_agree (n : String) (vals : List EnumValueS) (v : JVal) (hv : v.isNull = false) :
    Agree (!(enumParseValue vals v).isNull)
      (match v with
       | .str x => enumValue n vals x
       | _ => .error (.unknownEnumValue n)) (enumParseValue vals v) := by
  unfold Agree
  cases v <;> simp_all [enumParseValue, JVal.isNull]
  rename_i x
  simp only [enumByName, enumValue]
  cases h : vals.find? (fun ev => ev.name == x) with
  | none => simp
  | some ev => simp; have := enumInternal_ne_null ev; simpa [JVal.isNull] using this

theorem varStep_agree (s : Schema) (selfT selfV : GType → JVal → Bool) (selfC : GType → JVal → JVal)
    (selfS : GType → JVal → Except Err JVal)
    (ih : ∀ t v, selfT t v = true → Agree (selfV t v) (selfS t v) (selfC t v)) :
    ∀ t v, strictStep s selfT t v = true →
      Agree (validStep s selfV t v) (varStep s selfS t v) (coerceStep s selfC t v) := by
  intro t
  induction t with
  | nonNull t iht =>
    intro v hs
    simp only [strictStep, validStep, varStep, coerceStep] at hs ⊢
    by_cases hn : v.isNull = true
    · right; simp [hn]
    · simp only [hn] at hs ⊢
      exact iht v (by simpa using hs)
  | list t iht =>
    intro v hs
    cases v with
    | null => left; simp [validStep, varStep, coerceStep]
    | list xs =>
      simp only [strictStep, List.all_eq_true] at hs
      have := mapE_agree (validStep s selfV t) (varStep s selfS t) (coerceStep s selfC t) xs
        (fun x hx => iht x (hs x hx))
      simp only [validStep, varStep, coerceStep]
      rcases this with ⟨h1, h2⟩ | ⟨h1, e, h2⟩
      · left; simp [h1, h2]
      · right; simp [h1, h2]
    | _ =>
      simp only [strictStep] at hs
      have := iht _ hs
      simp only [validStep, varStep, coerceStep]
      rcases this with ⟨h1, h2⟩ | ⟨h1, e, h2⟩
      · left; simp [h1, h2]
      · right; simp [h1, h2]
  | named n =>
    intro v hs
    simp only [strictStep, validStep, varStep, coerceStep] at hs ⊢
    by_cases hn : v.isNull = true
    · left; simp [hn]
    · simp only [hn] at hs ⊢
      cases hf : s.find? n with
      | none => simp [hf] at hs
      | some td =>
        cases td with
        | scalar nm k d =>
          simp only [hf] at hs ⊢
          exact scalar_agree n k v (by simpa using hn) (by simpa using hs)
        | enum nm vals d =>
          simp only [hf] at hs ⊢
          exact enum_agree n vals v (by simpa using hn)
        | inputObject nm fields d =>
          simp only [hf] at hs ⊢
          cases v with
          | obj kv =>
            simp only [Bool.false_eq_true, if_false, List.all_eq_true] at hs
            have hfs := mapE_agree (fun f => selfV f.type (lookupD kv f.name))
              (fun f => fieldResult f (selfS f.type (lookupD kv f.name)))
              (fun f => Coerce.fieldEntry f (selfC f.type (lookupD kv f.name))) fields
              (fun f hf' => by
                rcases ih f.type (lookupD kv f.name) (hs f hf') with ⟨h1, h2⟩ | ⟨h1, e, h2⟩
                · left; simp [h1, h2, fieldResult, spec_fieldEntry_eq]
                · right; simp [h1, h2, fieldResult])
            by_cases hk : (kv.all (fun p => knownField fields p.1)) = true
            · rcases hfs with ⟨h1, h2⟩ | ⟨h1, e, h2⟩
              · left; simp [hk, h1, h2, objectOf, filterMap_id_map]
              · right; simp [hk, h1, h2]
            · right; simp [hk]
          | _ => right; simp
        | _ => simp [hf] at hs
theorem normDec_ne_null (m : Int) (e : Nat) : (normDec m e).isNull = false := by
  induction e generalizing m with
  | zero => rfl
  | succ e ih =>
    simp only [normDec]
    split
    · exact ih _
    · rfl

theorem parseFloatLit_ne_null {cs : List Char} {r : JVal} (h : parseFloatLit cs = some r) : r.isNull = false := by
  unfold parseFloatLit at h
  split at h
  · simp only [Option.map_eq_some_iff] at h
    obtain ⟨p, _, rfl⟩ := h
    exact normDec_ne_null _ _
  · split at h
    · simp only [Option.some.injEq] at h
      subst h
      unfold scale10
      split
      · rfl
      · exact normDec_ne_null _ _
    · cases h

theorem scalarLit_agree (n : String) (k : ScalarKind) (l : Value) :
    Agree (!(parseLiteral k l).isNull) (scalarLiteral n k l) (parseLiteral k l) := by
  unfold Agree
  cases k with
  | custom sv pv pl =>
    cases l <;> simp only [parseLiteral, scalarLiteral] <;>
      (generalize tableLookup pl _ = r; cases r <;> simp [JVal.isNull])
  | int =>
    cases l <;> simp [parseLiteral, scalarLiteral, JVal.isNull]
    rename_i raw _
    cases h : intOfChars raw.toList with
    | none => simp
    | some i => by_cases hi : inInt32 i = true <;> simp [hi]
  | float =>
    cases l <;> simp [parseLiteral, scalarLiteral, JVal.isNull]
    all_goals
      rename_i raw _
      cases h : parseFloatLit raw.toList with
      | none => simp
      | some r => have := parseFloatLit_ne_null h; simp; simpa [JVal.isNull] using this
  | string => cases l <;> simp [parseLiteral, scalarLiteral, JVal.isNull]
  | boolean => cases l <;> simp [parseLiteral, scalarLiteral, JVal.isNull]
  | id => cases l <;> simp [parseLiteral, scalarLiteral, JVal.isNull]

theorem enumLit_agree (n : String) (vals : List EnumValueS) (l : Value) :
    Agree (!(enumParseLiteral vals l).isNull)
      (match l with
       | .enum x _ => enumValue n vals x
       | _ => .error (.unknownEnumValue n)) (enumParseLiteral vals l) := by
  unfold Agree
  cases l <;> simp_all [enumParseLiteral, JVal.isNull]
  rename_i x _
  simp only [enumByName, enumValue]
  cases h : vals.find? (fun ev => ev.name == x) with
  | none => simp
  | some ev => simp; have := enumInternal_ne_null ev; simpa [JVal.isNull] using this


theorem validLitStep_var (s : Schema) (selfV : GType → Option Value → Bool) (t : GType) (x : String) (loc : Loc) :
    validLitStep s selfV t (some (.var x loc)) = true := by
  induction t with
  | named n => simp [validLitStep]
  | list t ih => simp [validLitStep]
  | nonNull t ih => simpa [validLitStep] using ih

theorem litStep_agree (s : Schema) (vars : Vars) (selfP selfV : GType → Option Value → Bool)
    (selfA : GType → Option Value → JVal) (selfS : GType → Option Value → Except Err JVal)
    (ih : ∀ t l, selfP t l = true → Agree (selfV t l) (selfS t l) (selfA t l)) :
    ∀ t l, varsProvidedStep s vars selfP t l = true →
      Agree (validLitStep s selfV t l) (litStep s vars selfS t l) (fromASTStep s vars selfA t l) := by
  intro t
  induction t with
  | nonNull t iht =>
    intro lit hp
    cases lit with
    | none => right; simp [validLitStep, litStep]
    | some l =>
      cases l with
      | var x loc =>
        simp only [varsProvidedStep] at hp
        have hv : validLitStep s selfV (.nonNull t) (some (.var x loc)) = true := by
          simp only [validLitStep]
          exact validLitStep_var s selfV t x loc
        left
        refine ⟨hv, ?_⟩
        simp only [litStep, fromASTStep]
        simp at hp
        simp [hp]
      | _ =>
        simp only [varsProvidedStep] at hp
        have := iht _ hp
        simpa only [validLitStep, litStep, fromASTStep] using this
  | list t iht =>
    intro lit hp
    cases lit with
    | none => left; simp [validLitStep, litStep, fromASTStep]
    | some l =>
      cases l with
      | var x loc => left; simp [validLitStep, litStep, fromASTStep]
      | list ls loc =>
        simp only [varsProvidedStep, List.all_eq_true] at hp
        have := mapE_agree (fun l => validLitStep s selfV t (some l)) (fun l => litStep s vars selfS t (some l))
          (fun l => fromASTStep s vars selfA t (some l)) ls (fun x hx => iht _ (hp x hx))
        simp only [validLitStep, litStep, fromASTStep]
        rcases this with ⟨h1, h2⟩ | ⟨h1, e, h2⟩
        · left; simp [h1, h2]
        · right; simp [h1, h2]
      | _ =>
        simp only [varsProvidedStep] at hp
        have := iht _ hp
        simp only [validLitStep, litStep, fromASTStep]
        rcases this with ⟨h1, h2⟩ | ⟨h1, e, h2⟩
        · left; simp [h1, h2]
        · right; simp [h1, h2]
  | named n =>
    intro lit hp
    cases lit with
    | none => left; simp [validLitStep, litStep, fromASTStep]
    | some l =>
      cases l with
      | var x loc => left; simp [validLitStep, litStep, fromASTStep]
      | obj fs loc =>
        simp only [varsProvidedStep, validLitStep, litStep, fromASTStep] at hp ⊢
        cases hf : s.find? n with
        | none => simp [hf] at hp
        | some td =>
          cases td with
          | scalar nm k d => simp only [hf]; exact scalarLit_agree n k _
          | enum nm vals d => simp only [hf]; exact enumLit_agree n vals _
          | inputObject nm fields d =>
            simp only [hf] at hp ⊢
            simp only [List.all_eq_true] at hp
            have hfs := mapE_agree (fun f => selfV f.type (litLookup fs f.name))
              (fun f => fieldResult f (selfS f.type (litLookup fs f.name)))
              (fun f => Coerce.fieldEntry f (selfA f.type (litLookup fs f.name))) fields
              (fun f hf' => by
                rcases ih f.type (litLookup fs f.name) (hp f hf') with ⟨h1, h2⟩ | ⟨h1, e, h2⟩
                · left; simp [h1, h2, fieldResult, spec_fieldEntry_eq]
                · right; simp [h1, h2, fieldResult])
            by_cases hk : (fs.all (fun f => knownField fields f.name.value)) = true
            · rcases hfs with ⟨h1, h2⟩ | ⟨h1, e, h2⟩
              · left; simp [hk, h1, h2, objectOf, filterMap_id_map]
              · right; simp [hk, h1, h2]
            · right; simp [hk]
          | _ => simp [hf] at hp
      | _ =>
        simp only [varsProvidedStep, validLitStep, litStep, fromASTStep] at hp ⊢
        cases hf : s.find? n with
        | none => simp [hf] at hp
        | some td =>
          cases td with
          | scalar nm k d => simp only [hf]; exact scalarLit_agree n k _
          | enum nm vals d => simp only [hf]; exact enumLit_agree n vals _
          | inputObject nm fields d => right; simp [hf]
          | _ => simp [hf] at hp

/-! ## Fuel induction -/

theorem var_agreeF (s : Schema) : ∀ (n : Nat) (t : GType) (v : JVal), strictlyTypedF s n t v = true →
    Agree (isValidInputValueF s n t v) (coerceVariableF s n t v) (coerceValueF s n t v) := by
  intro n
  induction n with
  | zero => intro t v h; simp [strictlyTypedF, iter] at h
  | succ n ih =>
    intro t v h
    exact varStep_agree s _ _ _ _ ih t v h

theorem lit_agreeF (s : Schema) (vars : Vars) : ∀ (n : Nat) (t : GType) (l : Option Value),
    varsProvidedF s vars n t l = true →
    Agree (isValidLiteralValueF s n t l) (coerceLiteralF s vars n t l) (valueFromASTF s vars n t l) := by
  intro n
  induction n with
  | zero =>
    intro t l _
    right
    exact ⟨rfl, .fuel, rfl⟩
  | succ n ih =>
    intro t l h
    exact litStep_agree s vars _ _ _ _ ih t l h

end GqlModel.Coerce
