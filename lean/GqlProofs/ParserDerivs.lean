import GqlProofs.ParserBasics
/-! Facts about derivations of the grammar S alone (C03): every nonterminal consumes tokens (`_lt`) or at least
does not produce any (`_le`), and the kind of the first token of a derivation. -/
namespace GqlModel.Grammar
open GqlModel

theorem tok_lt {k : TokenKind} {p : Pos} {t : Token} {p' : Pos} (h : Tok k p t p') : p'.ts.length < p.ts.length := by
  cases h; simp

theorem tok_kind' {k : TokenKind} {p : Pos} {t : Token} {p' : Pos} (h : Tok k p t p') : p.kind = k := by
  cases h with
  | mk e t r hk => exact hk

theorem kw_lt {s : String} {p p' : Pos} (h : Kw s p p') : p'.ts.length < p.ts.length := by
  cases h with
  | mk ht _ => exact tok_lt ht

theorem kw_kind {s : String} {p p' : Pos} (h : Kw s p p') : p.kind = .name := by
  cases h with
  | mk ht _ => exact tok_kind' ht

theorem kw_isName {s : String} {p p' : Pos} (h : Kw s p p') : p.isName s := by
  cases h with
  | mk ht hv => cases ht with | mk e t r hk => exact ⟨hk, hv⟩

theorem dname_lt {p : Pos} {n : Name} {p' : Pos} (h : DName p n p') : p'.ts.length < p.ts.length := by
  cases h with
  | mk ht => exact tok_lt ht

theorem dname_kind {p : Pos} {n : Name} {p' : Pos} (h : DName p n p') : p.kind = .name := by
  cases h with
  | mk ht => exact tok_kind' ht

theorem many_le {α} {D : Pos → α → Pos → Prop} (hD : ∀ p x p', D p x p' → p'.ts.length < p.ts.length)
    {p : Pos} {xs : List α} {p' : Pos} (h : Many D p xs p') : xs.length + p'.ts.length ≤ p.ts.length := by
  induction h with
  | nil => simp
  | cons hx _ ih => have := hD _ _ _ hx; simp; omega

theorem sepBy_lt {α} {sep : TokenKind} {D : Pos → α → Pos → Prop} (hD : ∀ p x p', D p x p' → p'.ts.length < p.ts.length)
    {p : Pos} {xs : List α} {p' : Pos} (h : SepBy sep D p xs p') : xs.length + p'.ts.length ≤ p.ts.length := by
  induction h with
  | one hx _ => have := hD _ _ _ hx; simp; omega
  | cons hx hs _ ih => have := hD _ _ _ hx; have := tok_lt hs; simp; omega

theorem dvariable_lt {p : Pos} {r : Name × Loc} {p' : Pos} (h : DVariable p r p') : p'.ts.length < p.ts.length := by
  cases h with
  | mk hd hn => have := tok_lt hd; have := dname_lt hn; omega

/-! ## values -/

mutual
theorem DValue.lt : ∀ {c p v p'}, DValue c p v p' → p'.ts.length < p.ts.length
  | _, _, _, _, .var h => dvariable_lt h
  | _, _, _, _, .int h => tok_lt h
  | _, _, _, _, .float h => tok_lt h
  | _, _, _, _, .string h => tok_lt h
  | _, _, _, _, .blockString h => tok_lt h
  | _, _, _, _, .tru h => kw_lt h
  | _, _, _, _, .fls h => kw_lt h
  | _, _, _, _, .enum h _ _ _ => tok_lt h
  | _, _, _, _, .list ho hvs hc => by have := tok_lt ho; have := DValues.le hvs; have := tok_lt hc; omega
  | _, _, _, _, .obj ho hfs hc => by have := tok_lt ho; have := DObjFields.le hfs; have := tok_lt hc; omega
theorem DValues.le : ∀ {c p vs p'}, DValues c p vs p' → vs.length + p'.ts.length ≤ p.ts.length
  | _, _, _, _, .nil => by simp
  | _, _, _, _, .cons hv hvs => by have := DValue.lt hv; have := DValues.le hvs; simp; omega
theorem DObjFields.le : ∀ {c p fs p'}, DObjFields c p fs p' → fs.length + p'.ts.length ≤ p.ts.length
  | _, _, _, _, .nil => by simp
  | _, _, _, _, .cons hf hfs => by have := DObjField.lt hf; have := DObjFields.le hfs; simp; omega
theorem DObjField.lt : ∀ {c p f p'}, DObjField c p f p' → p'.ts.length < p.ts.length
  | _, _, _, _, .mk hn hc hv => by have := dname_lt hn; have := tok_lt hc; have := DValue.lt hv; omega
end

/-- a value does not start with `]`, `}`, `)` -/
theorem DValue.kind {c : Bool} {p : Pos} {v : Value} {p' : Pos} (h : DValue c p v p') :
    p.kind ≠ .bracketR ∧ p.kind ≠ .braceR ∧ p.kind ≠ .parenR := by
  have hk : ∀ {k : TokenKind} {t : Token} {q : Pos}, Tok k p t q → k ≠ .bracketR → k ≠ .braceR → k ≠ .parenR →
      p.kind ≠ .bracketR ∧ p.kind ≠ .braceR ∧ p.kind ≠ .parenR := by
    intro k t q ht h1 h2 h3
    rw [tok_kind' ht]; exact ⟨h1, h2, h3⟩
  cases h with
  | var h => cases h with | mk hd _ => exact hk hd (by decide) (by decide) (by decide)
  | int h => exact hk h (by decide) (by decide) (by decide)
  | float h => exact hk h (by decide) (by decide) (by decide)
  | string h => exact hk h (by decide) (by decide) (by decide)
  | blockString h => exact hk h (by decide) (by decide) (by decide)
  | tru h => cases h with | mk ht _ => exact hk ht (by decide) (by decide) (by decide)
  | fls h => cases h with | mk ht _ => exact hk ht (by decide) (by decide) (by decide)
  | enum h _ _ _ => exact hk h (by decide) (by decide) (by decide)
  | list ho _ _ => exact hk ho (by decide) (by decide) (by decide)
  | obj ho _ _ => exact hk ho (by decide) (by decide) (by decide)

theorem DObjField.kind {c : Bool} {p : Pos} {f : ObjField} {p' : Pos} (h : DObjField c p f p') : p.kind = .name := by
  cases h with
  | mk hn _ _ => exact dname_kind hn

/-! ## arguments, directives, types -/

theorem dargument_lt {p : Pos} {a : Argument} {p' : Pos} (h : DArgument p a p') : p'.ts.length < p.ts.length := by
  cases h with
  | mk hn hc hv => have := dname_lt hn; have := tok_lt hc; have := DValue.lt hv; omega

theorem dargument_kind {p : Pos} {a : Argument} {p' : Pos} (h : DArgument p a p') : p.kind = .name := by
  cases h with
  | mk hn _ _ => exact dname_kind hn

theorem darguments_le {p : Pos} {as : List Argument} {p' : Pos} (h : DArguments p as p') : p'.ts.length ≤ p.ts.length := by
  cases h with
  | none _ => exact Nat.le_refl _
  | some ho hm _ hc => have := tok_lt ho; have := many_le (fun _ _ _ => dargument_lt) hm; have := tok_lt hc; omega

theorem ddirective_lt {p : Pos} {d : Directive} {p' : Pos} (h : DDirective p d p') : p'.ts.length < p.ts.length := by
  cases h with
  | mk ha hn hargs => have := tok_lt ha; have := dname_lt hn; have := darguments_le hargs; omega

theorem ddirectives_le {p : Pos} {ds : List Directive} {p' : Pos} (h : DDirectives p ds p') :
    ds.length + p'.ts.length ≤ p.ts.length := by
  induction h with
  | nil _ => simp
  | cons hd _ ih => have := ddirective_lt hd; simp; omega

theorem dnamedType_lt {p : Pos} {t : TypeRef} {p' : Pos} (h : DNamedType p t p') : p'.ts.length < p.ts.length := by
  cases h with
  | mk hn => exact dname_lt hn

theorem dnamedType_kind {p : Pos} {t : TypeRef} {p' : Pos} (h : DNamedType p t p') : p.kind = .name := by
  cases h with
  | mk hn => exact dname_kind hn

mutual
theorem DBaseType.lt : ∀ {p t p'}, DBaseType p t p' → p'.ts.length < p.ts.length
  | _, _, _, .named h => dnamedType_lt h
  | _, _, _, .list ho ht hc => by have := tok_lt ho; have := DType.lt ht; have := tok_lt hc; omega
theorem DType.lt : ∀ {p t p'}, DType p t p' → p'.ts.length < p.ts.length
  | _, _, _, .plain h _ => DBaseType.lt h
  | _, _, _, .nonNull h hb => by have := DBaseType.lt h; have := tok_lt hb; omega
end

/-! ## selection sets -/

theorem dfragmentName_lt {p : Pos} {n : Name} {p' : Pos} (h : DFragmentName p n p') : p'.ts.length < p.ts.length := by
  cases h with
  | mk hn _ => exact dname_lt hn

theorem dtypeCondition_le {p : Pos} {t : Option TypeRef} {p' : Pos} (h : DTypeCondition p t p') : p'.ts.length ≤ p.ts.length := by
  cases h with
  | none _ => exact Nat.le_refl _
  | some hk ht => have := kw_lt hk; have := dnamedType_lt ht; omega

mutual
theorem DSelectionSet.lt : ∀ {p s p'}, DSelectionSet p s p' → p'.ts.length < p.ts.length
  | _, _, _, .mk ho hs _ hc => by have := tok_lt ho; have := DSelections.le hs; have := tok_lt hc; omega
theorem DSelections.le : ∀ {p ss p'}, DSelections p ss p' → ss.length + p'.ts.length ≤ p.ts.length
  | _, _, _, .nil => by simp
  | _, _, _, .cons h hs => by have := DSelection.lt h; have := DSelections.le hs; simp; omega
theorem DSelection.lt : ∀ {p s p'}, DSelection p s p' → p'.ts.length < p.ts.length
  | _, _, _, .field hn _ ha hd hs => by
      have := dname_lt hn; have := darguments_le ha; have := ddirectives_le hd; have := DOptSelectionSet.le hs; omega
  | _, _, _, .aliased ha hc hn hargs hd hs => by
      have := dname_lt ha; have := tok_lt hc; have := dname_lt hn; have := darguments_le hargs
      have := ddirectives_le hd; have := DOptSelectionSet.le hs; omega
  | _, _, _, .spread hs hn hd => by have := tok_lt hs; have := dfragmentName_lt hn; have := ddirectives_le hd; omega
  | _, _, _, .inline hs ht hd hss => by
      have := tok_lt hs; have := dtypeCondition_le ht; have := ddirectives_le hd; have := DSelectionSet.lt hss; omega
theorem DOptSelectionSet.le : ∀ {p s p'}, DOptSelectionSet p s p' → p'.ts.length ≤ p.ts.length
  | _, _, _, .none _ => Nat.le_refl _
  | _, _, _, .some h => Nat.le_of_lt (DSelectionSet.lt h)
end

theorem DSelection.kind {p : Pos} {s : Selection} {p' : Pos} (h : DSelection p s p') : p.kind ≠ .braceR := by
  cases h with
  | field hn _ _ _ _ => rw [dname_kind hn]; decide
  | aliased ha _ _ _ _ _ => rw [dname_kind ha]; decide
  | spread hs _ _ => rw [tok_kind' hs]; decide
  | inline hs _ _ _ => rw [tok_kind' hs]; decide

/-! ## operations -/

theorem dopType_lt {p : Pos} {op : OpType} {p' : Pos} (h : DOpType p op p') : p'.ts.length < p.ts.length := by
  cases h <;> (rename_i hk; exact kw_lt hk)

theorem dopType_kind {p : Pos} {op : OpType} {p' : Pos} (h : DOpType p op p') : p.kind = .name := by
  cases h <;> (rename_i hk; exact kw_kind hk)

theorem ddefault_le {p : Pos} {d : Option Value} {p' : Pos} (h : DDefault p d p') : p'.ts.length ≤ p.ts.length := by
  cases h with
  | none _ => exact Nat.le_refl _
  | some hq hv => have := tok_lt hq; have := DValue.lt hv; omega

theorem dvarDef_lt {p : Pos} {v : VarDef} {p' : Pos} (h : DVarDef p v p') : p'.ts.length < p.ts.length := by
  cases h with
  | mk hv hc ht hd => have := dvariable_lt hv; have := tok_lt hc; have := DType.lt ht; have := ddefault_le hd; omega

theorem dvarDef_kind {p : Pos} {v : VarDef} {p' : Pos} (h : DVarDef p v p') : p.kind = .dollar := by
  cases h with
  | mk hv _ _ _ => cases hv with | mk hd _ => exact tok_kind' hd

theorem dvarDefs_le {p : Pos} {vs : List VarDef} {p' : Pos} (h : DVarDefs p vs p') : p'.ts.length ≤ p.ts.length := by
  cases h with
  | none _ => exact Nat.le_refl _
  | some ho hm _ hc => have := tok_lt ho; have := many_le (fun _ _ _ => dvarDef_lt) hm; have := tok_lt hc; omega

theorem doptName_le {p : Pos} {n : Option Name} {p' : Pos} (h : DOptName p n p') : p'.ts.length ≤ p.ts.length := by
  cases h with
  | none _ => exact Nat.le_refl _
  | some hn => exact Nat.le_of_lt (dname_lt hn)

/-! ## type system -/

theorem ddescription_le {p : Pos} {d : Option String} {p' : Pos} (h : DDescription p d p') : p'.ts.length ≤ p.ts.length := by
  cases h with
  | none _ _ => exact Nat.le_refl _
  | string ht => exact Nat.le_of_lt (tok_lt ht)
  | blockString ht => exact Nat.le_of_lt (tok_lt ht)

/-- what a (possibly absent) description followed by a name starts with -/
theorem ddescription_kind {p : Pos} {d : Option String} {p1 : Pos} (h : DDescription p d p1) (hk : p1.kind = .name) :
    p.kind = .name ∨ p.kind = .string ∨ p.kind = .blockString := by
  cases h with
  | none _ _ => exact .inl hk
  | string ht => exact .inr (.inl (tok_kind' ht))
  | blockString ht => exact .inr (.inr (tok_kind' ht))

theorem dopTypeDef_lt {p : Pos} {d : OpTypeDef} {p' : Pos} (h : DOpTypeDef p d p') : p'.ts.length < p.ts.length := by
  cases h with
  | mk ho hc ht => have := dopType_lt ho; have := tok_lt hc; have := dnamedType_lt ht; omega

theorem dopTypeDef_kind {p : Pos} {d : OpTypeDef} {p' : Pos} (h : DOpTypeDef p d p') : p.kind = .name := by
  cases h with
  | mk ho _ _ => exact dopType_kind ho

theorem dimplements_le {p : Pos} {ts : List TypeRef} {p' : Pos} (h : DImplements p ts p') : p'.ts.length ≤ p.ts.length := by
  cases h with
  | none _ => exact Nat.le_refl _
  | plain hk _ hs => have := kw_lt hk; have := sepBy_lt (fun _ _ _ => dnamedType_lt) hs; omega
  | leadingAmp hk ha hs => have := kw_lt hk; have := tok_lt ha; have := sepBy_lt (fun _ _ _ => dnamedType_lt) hs; omega

theorem dinputValueDef_lt {p : Pos} {d : InputValueDef} {p' : Pos} (h : DInputValueDef p d p') : p'.ts.length < p.ts.length := by
  cases h with
  | mk hde hn hc ht hd hdirs =>
    have := ddescription_le hde; have := dname_lt hn; have := tok_lt hc; have := DType.lt ht
    have := ddefault_le hd; have := ddirectives_le hdirs; omega

theorem dinputValueDef_kind {p : Pos} {d : InputValueDef} {p' : Pos} (h : DInputValueDef p d p') :
    p.kind = .name ∨ p.kind = .string ∨ p.kind = .blockString := by
  cases h with
  | mk hde hn _ _ _ _ => exact ddescription_kind hde (dname_kind hn)

theorem dargumentDefs_le {p : Pos} {ds : List InputValueDef} {p' : Pos} (h : DArgumentDefs p ds p') : p'.ts.length ≤ p.ts.length := by
  cases h with
  | none _ => exact Nat.le_refl _
  | some ho hm _ hc => have := tok_lt ho; have := many_le (fun _ _ _ => dinputValueDef_lt) hm; have := tok_lt hc; omega

theorem dfieldDef_lt {p : Pos} {d : FieldDef} {p' : Pos} (h : DFieldDef p d p') : p'.ts.length < p.ts.length := by
  cases h with
  | mk hde hn ha hc ht hdirs =>
    have := ddescription_le hde; have := dname_lt hn; have := dargumentDefs_le ha; have := tok_lt hc; have := DType.lt ht
    have := ddirectives_le hdirs; omega

theorem dfieldDef_kind {p : Pos} {d : FieldDef} {p' : Pos} (h : DFieldDef p d p') :
    p.kind = .name ∨ p.kind = .string ∨ p.kind = .blockString := by
  cases h with
  | mk hde hn _ _ _ _ => exact ddescription_kind hde (dname_kind hn)

theorem denumValueDef_lt {p : Pos} {d : EnumValueDef} {p' : Pos} (h : DEnumValueDef p d p') : p'.ts.length < p.ts.length := by
  cases h with
  | mk hde hn hdirs => have := ddescription_le hde; have := dname_lt hn; have := ddirectives_le hdirs; omega

theorem denumValueDef_kind {p : Pos} {d : EnumValueDef} {p' : Pos} (h : DEnumValueDef p d p') :
    p.kind = .name ∨ p.kind = .string ∨ p.kind = .blockString := by
  cases h with
  | mk hde hn _ => exact ddescription_kind hde (dname_kind hn)

theorem braced_lt {α} {D : Pos → α → Pos → Prop} (hD : ∀ p x p', D p x p' → p'.ts.length < p.ts.length)
    {p : Pos} {xs : List α} {p' : Pos} (h : Braced D p xs p') : p'.ts.length < p.ts.length := by
  cases h with
  | mk ho hm hc => have := tok_lt ho; have := many_le hD hm; have := tok_lt hc; omega

theorem dobjectDef_lt {p : Pos} {d : ObjectDef} {p' : Pos} (h : DObjectDef p d p') : p'.ts.length < p.ts.length := by
  cases h with
  | mk hde hk hn hi hd hb =>
    have := ddescription_le hde; have := kw_lt hk; have := dname_lt hn; have := dimplements_le hi
    have := ddirectives_le hd; have := braced_lt (fun _ _ _ => dfieldDef_lt) hb; omega

theorem ddefinition_lt {p : Pos} {d : Definition} {p' : Pos} (h : DDefinition p d p') : p'.ts.length < p.ts.length := by
  cases h with
  | query hs => exact DSelectionSet.lt hs
  | operation ho hn hv hd hs =>
    have := dopType_lt ho; have := doptName_le hn; have := dvarDefs_le hv; have := ddirectives_le hd
    have := DSelectionSet.lt hs; omega
  | fragment hk hn hk2 ht hd hs =>
    have := kw_lt hk; have := dfragmentName_lt hn; have := kw_lt hk2; have := dnamedType_lt ht
    have := ddirectives_le hd; have := DSelectionSet.lt hs; omega
  | schema hk hd ho hm _ hc =>
    have := kw_lt hk; have := ddirectives_le hd; have := tok_lt ho; have := many_le (fun _ _ _ => dopTypeDef_lt) hm
    have := tok_lt hc; omega
  | scalar hde hk hn hd => have := ddescription_le hde; have := kw_lt hk; have := dname_lt hn; have := ddirectives_le hd; omega
  | object ho => exact dobjectDef_lt ho
  | interface hde hk hn hd hb =>
    have := ddescription_le hde; have := kw_lt hk; have := dname_lt hn; have := ddirectives_le hd
    have := braced_lt (fun _ _ _ => dfieldDef_lt) hb; omega
  | union hde hk hn hd hq hs =>
    have := ddescription_le hde; have := kw_lt hk; have := dname_lt hn; have := ddirectives_le hd; have := tok_lt hq
    have := sepBy_lt (fun _ _ _ => dnamedType_lt) hs; omega
  | enum hde hk hn hd hb =>
    have := ddescription_le hde; have := kw_lt hk; have := dname_lt hn; have := ddirectives_le hd
    have := braced_lt (fun _ _ _ => denumValueDef_lt) hb; omega
  | inputObject hde hk hn hd hb =>
    have := ddescription_le hde; have := kw_lt hk; have := dname_lt hn; have := ddirectives_le hd
    have := braced_lt (fun _ _ _ => dinputValueDef_lt) hb; omega
  | extend hk ho => have := kw_lt hk; have := dobjectDef_lt ho; omega
  | directive hde hk ha hn hargs hk2 hs =>
    have := ddescription_le hde; have := kw_lt hk; have := tok_lt ha; have := dname_lt hn; have := dargumentDefs_le hargs
    have := kw_lt hk2; have := sepBy_lt (fun _ _ _ => dname_lt) hs; omega

end GqlModel.Grammar
