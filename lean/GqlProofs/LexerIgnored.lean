import GqlProofs.LexerUtf8
import GqlModel.LexerSpec
/-! M = S, part 1: `runeAt` summary, `positionAfterWhitespace` vs `Spec.ignoredLen`, `readName` vs `Spec.nameLen`. -/
namespace GqlModel.Lexer
open GqlModel.Utf8 GqlModel.Lexer.Spec

theorem runeAt_nil : runeAt [] = (-1, 65533) := rfl

theorem runeAt_ascii (c : UInt8) (r : Bytes) (h : c.toNat < 128) : runeAt (c :: r) = ((c.toNat : Int), 1) := by
  simp [runeAt, h]

/-- what a proof needs to know about `runeAt` at a non-empty input -/
theorem runeAt_spec (c : UInt8) (r : Bytes) :
    (c.toNat < 128 ∧ runeAt (c :: r) = ((c.toNat : Int), 1)) ∨
    (128 ≤ c.toNat ∧ ∃ (code n : Nat), runeAt (c :: r) = ((code : Int), n) ∧ 128 ≤ code ∧ 1 ≤ n ∧ n ≤ r.length + 1 ∧
      (∀ b ∈ (c :: r).take n, 128 ≤ b.toNat) ∧
      (code = 0xFEFF ↔ ∃ r', c = 0xEF ∧ r = 0xBB :: 0xBF :: r') ∧ (code = 0xFEFF → n = 3)) := by
  by_cases h : c.toNat < 128
  · exact Or.inl ⟨h, runeAt_ascii c r h⟩
  · have h' : 128 ≤ c.toNat := by omega
    obtain ⟨h1, h2, h3, h4, h5, h6⟩ := decodeRune_high c r h'
    refine Or.inr ⟨h', (decodeRune (c :: r)).1, (decodeRune (c :: r)).2, ?_, h1, h2, by simpa using h3, h4, h5, h6⟩
    simp [runeAt, h]

/-! ### the code of the rune at a byte, compared with ASCII constants, is decided by the byte -/
section code
variable (c : UInt8) (r : Bytes)

theorem code_eq (k : Int) (hk : k < 128) : (runeAt (c :: r)).1 = k ↔ (c.toNat : Int) = k := by
  rcases runeAt_spec c r with ⟨h, e⟩ | ⟨h, code, n, e, hc, -⟩ <;> rw [e] <;> simp only <;> omega
theorem code_le (k : Int) (hk : k < 128) : (runeAt (c :: r)).1 ≤ k ↔ (c.toNat : Int) ≤ k := by
  rcases runeAt_spec c r with ⟨h, e⟩ | ⟨h, code, n, e, hc, -⟩ <;> rw [e] <;> simp only <;> omega
theorem le_code (k : Int) (hk : k ≤ 128) : k ≤ (runeAt (c :: r)).1 ↔ k ≤ (c.toNat : Int) := by
  rcases runeAt_spec c r with ⟨h, e⟩ | ⟨h, code, n, e, hc, -⟩ <;> rw [e] <;> simp only <;> omega
theorem code_lt (k : Int) (hk : k ≤ 128) : (runeAt (c :: r)).1 < k ↔ (c.toNat : Int) < k := by
  rcases runeAt_spec c r with ⟨h, e⟩ | ⟨h, code, n, e, hc, -⟩ <;> rw [e] <;> simp only <;> omega
theorem lt_code (k : Int) (hk : k < 128) : k < (runeAt (c :: r)).1 ↔ k < (c.toNat : Int) := by
  rcases runeAt_spec c r with ⟨h, e⟩ | ⟨h, code, n, e, hc, -⟩ <;> rw [e] <;> simp only <;> omega
theorem code_gt (k : Int) (hk : k < 128) : (runeAt (c :: r)).1 > k ↔ (c.toNat : Int) > k := lt_code c r k hk
theorem code_ne (k : Int) (hk : k < 128) : (runeAt (c :: r)).1 ≠ k ↔ (c.toNat : Int) ≠ k :=
  not_congr (code_eq c r k hk)
theorem width_ascii (h : c.toNat < 128) : (runeAt (c :: r)).2 = 1 := by rw [runeAt_ascii c r h]
end code

theorem hasHigh_cons (c : UInt8) (l : Bytes) : hasHigh (c :: l) = (decide (128 ≤ c.toNat) || hasHigh l) := by
  simp [hasHigh]

theorem hasHigh_append (a b : Bytes) : hasHigh (a ++ b) = (hasHigh a || hasHigh b) := by
  simp [hasHigh]

@[simp] theorem hasHigh_nil : hasHigh [] = false := rfl

theorem hasHigh_of_mem {l : Bytes} {b : UInt8} (hb : b ∈ l) (h : 128 ≤ b.toNat) : hasHigh l = true := by
  simp only [hasHigh, List.any_eq_true]; exact ⟨b, hb, by simpa using h⟩

/-! ## comments -/

/-- length of the run of comment bytes -/
def commentLen : Bytes → Nat
  | [] => 0
  | c :: r => if isCommentByte c then commentLen r + 1 else 0

theorem ignoredLen_false_cons (d : UInt8) (t : Bytes) : ignoredLen false (d :: t) =
    if d = 9 ∨ d = 32 ∨ d = 10 ∨ d = 13 ∨ d = 44 then ignoredLen false t + 1
    else if d = 35 then ignoredLen true t + 1
    else if d = 0xEF then
      match t with
      | b1 :: b2 :: r' => if b1 = 0xBB ∧ b2 = 0xBF then ignoredLen false r' + 3 else 0
      | _ => 0
    else 0 := by
  match t with
  | [] => rfl
  | [_] => rfl
  | _ :: _ :: _ => rfl

theorem ignoredLen_true_cons (c : UInt8) (r : Bytes) : ignoredLen true (c :: r) =
    if c = 10 ∨ c = 13 then ignoredLen false r + 1
    else if isCommentByte c then ignoredLen true r + 1
    else 0 := by
  match r with
  | [] => rfl
  | [_] => rfl
  | _ :: _ :: _ => rfl

theorem isCommentByte_iff (c : UInt8) : isCommentByte c ↔ (c.toNat = 9 ∨ 32 ≤ c.toNat) := by
  unfold isCommentByte; bnorm

theorem ignoredLen_true (rest : Bytes) :
    ignoredLen true rest = commentLen rest + ignoredLen false (rest.drop (commentLen rest)) := by
  induction rest with
  | nil => simp [ignoredLen, commentLen]
  | cons c r ih =>
    have hc := c.toNat_lt
    rw [ignoredLen_true_cons, commentLen]
    by_cases h2 : isCommentByte c
    · have h1 : ¬ (c = 10 ∨ c = 13) := by
        rw [isCommentByte_iff] at h2; bnorm; omega
      rw [if_neg h1, if_pos h2, if_pos h2, ih, List.drop_succ_cons]
      omega
    · rw [if_neg h2, if_neg h2, List.drop_zero, Nat.zero_add, ignoredLen_false_cons]
      rw [isCommentByte_iff] at h2
      by_cases h1 : c = 10 ∨ c = 13
      · have h3 : (c = 9 ∨ c = 32 ∨ c = 10 ∨ c = 13 ∨ c = 44) := by
          bnorm at h1 ⊢; omega
        rw [if_pos h1, if_pos h3]
      · have h3 : ¬ (c = 9 ∨ c = 32 ∨ c = 10 ∨ c = 13 ∨ c = 44) := by
          bnorm at h1 ⊢; omega
        have h4 : ¬ c = 35 := by bnorm; omega
        have h5 : ¬ c = 0xEF := by bnorm; omega
        rw [if_neg h1, if_neg h3, if_neg h4, if_neg h5]

theorem commentLen_le (rest : Bytes) : commentLen rest ≤ rest.length := by
  induction rest with
  | nil => simp [commentLen]
  | cons c r ih => simp only [commentLen]; split <;> simp <;> omega

/-- a run of `n` bytes ≥ 0x80 at the head is inside the comment run -/
theorem commentLen_high : ∀ (n : Nat) (rest : Bytes), n ≤ rest.length → (∀ b ∈ rest.take n, 128 ≤ b.toNat) →
    commentLen rest = n + commentLen (rest.drop n) := by
  intro n
  induction n with
  | zero => intro rest _ _; simp
  | succ n ih =>
    intro rest hlen hall
    match rest with
    | [] => simp at hlen
    | c :: r =>
      have hc : 128 ≤ c.toNat := hall c (by simp)
      have : isCommentByte c := Or.inr (by omega)
      simp only [commentLen, this, if_true, List.drop_succ_cons]
      rw [ih r (by simpa using hlen) (fun b hb => hall b (by simp [List.take_succ_cons, hb]))]
      omega

theorem skipComment_spec : ∀ (f : Nat) (rest : Bytes) (p rp : Nat), rest.length < f →
    ∃ k, skipComment f rest p rp = (rest.drop (commentLen rest), p + commentLen rest, rp + k) ∧ k ≤ commentLen rest ∧
      (hasHigh (rest.take (commentLen rest)) = false → k = commentLen rest) := by
  intro f
  induction f with
  | zero => intro rest p rp h; omega
  | succ f ih =>
    intro rest p rp hlen
    match rest with
    | [] => exact ⟨0, by simp [skipComment, commentLen]⟩
    | c :: r =>
      have hc := c.toNat_lt
      simp only [skipComment, ne_eq, reduceCtorEq, not_false_eq_true, true_and]
      simp (disch := omega) only [code_eq, code_gt]
      by_cases hcm : isCommentByte c
      · have hcond : (¬ (c.toNat : Int) = 0 ∧ ((c.toNat : Int) > 0x1F ∨ (c.toNat : Int) = 9) ∧ ¬ (c.toNat : Int) = 10 ∧ ¬ (c.toNat : Int) = 13) := by
          rw [isCommentByte_iff] at hcm
          omega
        rw [if_pos hcond]
        rcases runeAt_spec c r with ⟨hlt, hr⟩ | ⟨hge, code, n, hr, hcode, hn1, hn2, hall, -, -⟩
        · obtain ⟨k, hk, hle, hasc⟩ := ih r (p + 1) (rp + 1) (by simp at hlen; omega)
          refine ⟨k + 1, ?_, ?_, ?_⟩
          · simp only [hr, commentLen, hcm, if_true, List.drop_succ_cons, List.drop_zero]
            rw [hk]; simp only [Prod.mk.injEq, true_and]; omega
          · simp only [commentLen, hcm, if_true]; omega
          · simp only [commentLen, hcm, if_true, List.take_succ_cons, hasHigh_cons, Bool.or_eq_false_iff]
            intro h; have := hasc h.2; omega
        · have hlen' : ((c :: r).drop n).length < f := by simp only [List.length_drop, List.length_cons] at hlen ⊢; omega
          obtain ⟨k, hk, hle, -⟩ := ih ((c :: r).drop n) (p + n) (rp + 1) hlen'
          have hsplit := commentLen_high n (c :: r) (by simpa using hn2) hall
          refine ⟨k + 1, ?_, by omega, ?_⟩
          · simp only [hr]
            rw [hk, hsplit]; simp only [List.drop_drop, Prod.mk.injEq]
            exact ⟨trivial, by omega, by omega⟩
          · intro h
            have : hasHigh ((c :: r).take (commentLen (c :: r))) = true := by
              apply hasHigh_of_mem (b := c) _ hge
              simp only [commentLen, hcm, if_true, List.take_succ_cons]; simp
            rw [this] at h; exact absurd h (by simp)
      · have hcond : ¬ (¬ (c.toNat : Int) = 0 ∧ ((c.toNat : Int) > 0x1F ∨ (c.toNat : Int) = 9) ∧ ¬ (c.toNat : Int) = 10 ∧ ¬ (c.toNat : Int) = 13) := by
          rw [isCommentByte_iff] at hcm
          omega
        rw [if_neg hcond]
        exact ⟨0, by simp [commentLen, hcm], by simp, by simp [commentLen, hcm]⟩

/-! ## positionAfterWhitespace -/

theorem isIgnoredCode_iff (c : UInt8) (r : Bytes) : isIgnoredCode (runeAt (c :: r)).1 ↔
    ((c = 9 ∨ c = 32 ∨ c = 10 ∨ c = 13 ∨ c = 44) ∨ ∃ r', c = 0xEF ∧ r = 0xBB :: 0xBF :: r') := by
  have hc := c.toNat_lt
  unfold isIgnoredCode
  rcases runeAt_spec c r with ⟨hlt, hr⟩ | ⟨hge, code, n, hr, hcode, hn1, hn2, hall, hbom, -⟩
  · rw [hr]; simp only
    constructor
    · intro h; left; bnorm; omega
    · rintro (h | ⟨r', h, -⟩)
      · bnorm at h; omega
      · bnorm at h; omega
  · rw [hr]; simp only
    constructor
    · intro h; right; exact hbom.mp (by omega)
    · rintro (h | h)
      · bnorm at h; omega
      · have := hbom.mpr h; omega

theorem paw_spec : ∀ (f : Nat) (rest : Bytes) (p rp : Nat), rest.length < f →
    ∃ k, positionAfterWhitespace f rest p rp = (rest.drop (ignoredLen false rest), p + ignoredLen false rest, rp + k) ∧
      k ≤ ignoredLen false rest ∧ (hasHigh (rest.take (ignoredLen false rest)) = false → k = ignoredLen false rest) := by
  intro f
  induction f with
  | zero => intro rest p rp h; omega
  | succ f ih =>
    intro rest p rp hlen
    match rest with
    | [] => exact ⟨0, by simp [positionAfterWhitespace, ignoredLen]⟩
    | c :: r =>
      have hc := c.toNat_lt
      simp only [List.length_cons] at hlen
      simp only [positionAfterWhitespace, ne_eq, reduceCtorEq, not_false_eq_true, if_true]
      rw [ignoredLen_false_cons]
      by_cases hws : (c = 9 ∨ c = 32 ∨ c = 10 ∨ c = 13 ∨ c = 44)
      · -- white space, line terminator, comma
        have hlt : c.toNat < 128 := by bnorm at hws; omega
        rw [if_pos ((isIgnoredCode_iff c r).mpr (Or.inl hws)), if_pos hws, width_ascii c r hlt]
        obtain ⟨k, hk, hle, hasc⟩ := ih r (p + 1) (rp + 1) (by omega)
        refine ⟨k + 1, ?_, by omega, ?_⟩
        · simp only [List.drop_succ_cons, List.drop_zero]
          rw [hk]; simp only [Prod.mk.injEq, true_and]; omega
        · simp only [List.take_succ_cons, hasHigh_cons, Bool.or_eq_false_iff]
          intro h; have := hasc h.2; omega
      · rw [if_neg hws]
        by_cases hbom : ∃ r', c = 0xEF ∧ r = 0xBB :: 0xBF :: r'
        · -- BOM
          rw [if_pos ((isIgnoredCode_iff c r).mpr (Or.inr hbom))]
          obtain ⟨r', rfl, rfl⟩ := hbom
          have hw : (runeAt (0xEF :: 0xBB :: 0xBF :: r')).2 = 3 := by
            simp [runeAt, decodeRune_bom]
          rw [hw]
          obtain ⟨k, hk, hle, hasc⟩ := ih r' (p + 3) (rp + 1) (by simp at hlen; omega)
          refine ⟨k + 1, ?_, ?_, ?_⟩
          · simp only [List.drop_succ_cons, List.drop_zero]
            rw [hk]
            simp (decide := true) only [if_true, if_false, List.drop_succ_cons, Prod.mk.injEq, true_and]
            omega
          · simp (decide := true) only [if_true, if_false]; omega
          · simp (decide := true) only [if_true, if_false, List.take_succ_cons, hasHigh_cons]
            simp
        · rw [if_neg (by rw [isIgnoredCode_iff]; exact fun h => h.elim hws hbom)]
          simp (disch := omega) only [code_eq]
          by_cases h35 : c = 35
          · -- comment
            have hlt : c.toNat < 128 := by bnorm at h35; omega
            have h35' : (c.toNat : Int) = 35 := by bnorm at h35; omega
            rw [if_pos h35', if_pos h35, width_ascii c r hlt]
            simp only [List.drop_succ_cons, List.drop_zero]
            obtain ⟨k1, hk1, hle1, hasc1⟩ := skipComment_spec f r (p + 1) (rp + 1) (by omega)
            rw [hk1]; simp only
            have hl2 : (r.drop (commentLen r)).length < f := by simp only [List.length_drop]; omega
            obtain ⟨k2, hk2, hle2, hasc2⟩ := ih (r.drop (commentLen r)) (p + 1 + commentLen r) (rp + 1 + k1) hl2
            rw [hk2, ignoredLen_true]
            refine ⟨1 + k1 + k2, ?_, by omega, ?_⟩
            · simp only [List.drop_drop, Prod.mk.injEq]
              exact ⟨trivial, by omega, by omega⟩
            · intro h
              have e : commentLen r + ignoredLen false (List.drop (commentLen r) r) + 1 =
                  (commentLen r + ignoredLen false (List.drop (commentLen r) r)) + 1 := rfl
              rw [List.take_succ_cons, hasHigh_cons, List.take_add, hasHigh_append] at h
              simp only [Bool.or_eq_false_iff] at h
              have := hasc1 h.2.1
              have := hasc2 h.2.2
              omega
          · have h35' : ¬ (c.toNat : Int) = 35 := by bnorm at h35; omega
            rw [if_neg h35', if_neg h35]
            refine ⟨0, ?_, by simp, ?_⟩
            · by_cases hef : c = 0xEF
              · rw [if_pos hef]
                match r with
                | [] => simp
                | [_] => simp
                | b1 :: b2 :: r' =>
                  have : ¬ (b1 = 0xBB ∧ b2 = 0xBF) := by
                    rintro ⟨rfl, rfl⟩; exact hbom ⟨r', hef, rfl⟩
                  simp [this]
              · simp [hef]
            · intro _
              by_cases hef : c = 0xEF
              · rw [if_pos hef]
                match r with
                | [] => simp
                | [_] => simp
                | b1 :: b2 :: r' =>
                  have : ¬ (b1 = 0xBB ∧ b2 = 0xBF) := by
                    rintro ⟨rfl, rfl⟩; exact hbom ⟨r', hef, rfl⟩
                  simp [this]
              · simp [hef]

/-! ## names -/

theorem isNameCont_iff (c : UInt8) (r : Bytes) : isNameCont (runeAt (c :: r)).1 ↔ isNameContByte c := by
  have hc := c.toNat_lt
  unfold isNameCont isNameContByte isNameStartByte isDigitByte
  simp (disch := omega) only [code_eq, code_le, le_code]
  bnorm; omega

theorem isNameStart_iff (c : UInt8) (r : Bytes) : isNameStart (runeAt (c :: r)).1 ↔ isNameStartByte c := by
  have hc := c.toNat_lt
  unfold isNameStart isNameStartByte
  simp (disch := omega) only [code_eq, code_le, le_code]
  bnorm; omega

theorem isDigitCode_iff (c : UInt8) (r : Bytes) : isDigitCode (runeAt (c :: r)).1 ↔ isDigitByte c := by
  have hc := c.toNat_lt
  unfold isDigitCode isDigitByte
  simp (disch := omega) only [code_le, le_code]
  omega

theorem nameLen_cons (c : UInt8) (r : Bytes) :
    nameLen (c :: r) = if isNameContByte c then nameLen r + 1 else 0 := by
  simp [nameLen, spanLen]

theorem digitsLen_cons (c : UInt8) (r : Bytes) :
    digitsLen (c :: r) = if isDigitByte c then digitsLen r + 1 else 0 := by
  simp [digitsLen, spanLen]

theorem spanLen_le (p : UInt8 → Bool) (l : Bytes) : spanLen p l ≤ l.length := by
  induction l with
  | nil => simp [spanLen]
  | cons c r ih => simp only [spanLen]; split <;> simp <;> omega

theorem readNameLoop_spec : ∀ (r : Bytes) (eb er : Nat), readNameLoop r eb er = (eb + nameLen r, er + nameLen r) := by
  intro r
  induction r with
  | nil => intro eb er; simp [readNameLoop, nameLen, spanLen]
  | cons c r ih =>
    intro eb er
    rw [readNameLoop, nameLen_cons]
    simp only [isNameCont_iff]
    split
    · rw [ih]; simp only [Prod.mk.injEq]; omega
    · simp

theorem readName_spec (c : UInt8) (r : Bytes) (p rp : Nat) (h : isNameStartByte c) :
    readName (c :: r) p rp = makeToken .name rp (rp + nameLen (c :: r)) ((c :: r).take (nameLen (c :: r))) := by
  have hcont : isNameContByte c := Or.inl h
  simp only [readName, List.drop_succ_cons, List.drop_zero, readNameLoop_spec, nameLen_cons, hcont, if_true]
  congr 1
  · omega
  · congr 1; omega

end GqlModel.Lexer
