import GqlModel.LexerSpec
import GqlProofs.LexerUtf8
/-! # C08 byte level — the UTF-8 bridge between the printer's characters and the lexer's bytes

The printer model works on `List Char`, the lexer model on `List UInt8`.  `utf8 cs` is the UTF-8 encoding of a
character list, *defined through Lean's own encoder* `String.utf8EncodeChar`, so that
`(String.ofList cs).toUTF8.data.toList = utf8 cs` holds by unfolding (`toUTF8_ofList`).  This file relates it to the
lexer model's view of UTF-8 (`Utf8.decodeRune`, the model of Go's `utf8.DecodeRune`):

* an ASCII character is one byte, its code; every byte of a non-ASCII character is ≥ 0x80;
* `decodeRune (encode c ++ rest) = (c, width)` — Go's decoder reads back what Lean's encoder wrote;
* hence `Lexer.bytesToString (utf8 cs) = String.ofList cs` (the `LTok → Token` conversion loses nothing on the
  values of printed tokens). -/
namespace GqlModel.RoundTrip
open GqlModel GqlModel.Lexer
open GqlModel.Utf8 (decodeRune isCont lo3 hi3 lo4 hi4)

abbrev Chars := List Char

/-- UTF-8 encoding of a character list (Lean's encoder, character by character) -/
def utf8 (cs : Chars) : Bytes := cs.flatMap String.utf8EncodeChar

@[simp] theorem utf8_nil : utf8 [] = [] := rfl
@[simp] theorem utf8_cons (c : Char) (cs : Chars) : utf8 (c :: cs) = String.utf8EncodeChar c ++ utf8 cs := by
  simp [utf8]
@[simp] theorem utf8_append (a b : Chars) : utf8 (a ++ b) = utf8 a ++ utf8 b := by simp [utf8]

/-- the bytes of a Lean `String` are `utf8` of its characters -/
theorem toUTF8_ofList (cs : Chars) : (String.ofList cs).toUTF8.data.toList = utf8 cs := by
  simp [String.toUTF8, String.ofList, List.utf8Encode, utf8]

theorem toUTF8_eq (s : String) : s.toUTF8.data.toList = utf8 s.toList := by
  rw [← toUTF8_ofList, String.ofList_toList]

/-! ## one character -/

theorem enc_ascii (c : Char) (h : c.toNat < 128) : String.utf8EncodeChar c = [UInt8.ofNat c.toNat] := by
  have h' : c.val.toNat ≤ 127 := by have : c.toNat = c.val.toNat := rfl; omega
  simp only [String.utf8EncodeChar, h', if_true]
  rfl

theorem enc_ascii_toNat (c : Char) (h : c.toNat < 128) : ∃ b : UInt8, String.utf8EncodeChar c = [b] ∧ b.toNat = c.toNat := by
  refine ⟨UInt8.ofNat c.toNat, enc_ascii c h, ?_⟩
  simp only [UInt8.toNat_ofNat']; omega

theorem enc_ne_nil (c : Char) : String.utf8EncodeChar c ≠ [] := by
  simp only [String.utf8EncodeChar]
  split
  · simp
  · split
    · simp
    · split <;> simp

/-- every byte of a non-ASCII character is ≥ 0x80 -/
theorem enc_high (c : Char) (h : 128 ≤ c.toNat) : ∀ b ∈ String.utf8EncodeChar c, 128 ≤ b.toNat := by
  have hv : c.toNat = c.val.toNat := rfl
  have h' : ¬ c.val.toNat ≤ 127 := by omega
  intro b hb
  simp only [String.utf8EncodeChar, h', if_false] at hb
  split at hb
  · simp only [List.mem_cons, List.mem_nil_iff, or_false] at hb
    rcases hb with rfl | rfl <;> simp only [UInt8.toNat_ofNat'] <;> omega
  · split at hb
    · simp only [List.mem_cons, List.mem_nil_iff, or_false] at hb
      rcases hb with rfl | rfl | rfl <;> simp only [UInt8.toNat_ofNat'] <;> omega
    · simp only [List.mem_cons, List.mem_nil_iff, or_false] at hb
      rcases hb with rfl | rfl | rfl | rfl <;> simp only [UInt8.toNat_ofNat'] <;> omega

/-- the first byte of a character's encoding is < 0x80 exactly for ASCII, and then it is the code -/
theorem enc_head (c : Char) : ∃ b bs, String.utf8EncodeChar c = b :: bs ∧
    (c.toNat < 128 → b.toNat = c.toNat ∧ bs = []) ∧ (128 ≤ c.toNat → 128 ≤ b.toNat) := by
  by_cases h : c.toNat < 128
  · obtain ⟨b, hb, hn⟩ := enc_ascii_toNat c h
    exact ⟨b, [], hb, fun _ => ⟨hn, rfl⟩, fun h2 => by omega⟩
  · match he : String.utf8EncodeChar c with
    | [] => exact absurd he (enc_ne_nil c)
    | b :: bs =>
      refine ⟨b, bs, rfl, fun h2 => absurd h2 h, fun h2 => ?_⟩
      exact enc_high c h2 b (by rw [he]; simp)

/-! ## Go's decoder reads back Lean's encoder -/

theorem decode_enc (c : Char) (rest : Bytes) :
    decodeRune (String.utf8EncodeChar c ++ rest) = (c.toNat, (String.utf8EncodeChar c).length) := by
  have hv : c.toNat = c.val.toNat := rfl
  have hvalid := c.valid
  simp only [UInt32.isValidChar, Nat.isValidChar] at hvalid
  rw [hv]
  simp only [String.utf8EncodeChar]
  generalize c.val.toNat = v at hvalid ⊢
  by_cases h1 : v ≤ 127
  · simp only [h1, if_true, List.singleton_append, decodeRune, UInt8.toNat_ofNat', List.length_cons, List.length_nil]
    have e : v % 2 ^ 8 = v := by omega
    rw [e, if_pos (by omega)]
  · by_cases h2 : v ≤ 2047
    · simp only [h1, h2, if_true, if_false, List.cons_append, List.nil_append, decodeRune, UInt8.toNat_ofNat',
        List.length_cons, List.length_nil, isCont]
      have e0 : (v / 64 % 32 + 192) % 2 ^ 8 = v / 64 % 32 + 192 := by omega
      have e1 : (v % 64 + 128) % 2 ^ 8 = v % 64 + 128 := by omega
      rw [e0, e1, if_neg (by omega), if_neg (by omega), if_pos (by omega), if_pos (by simp; omega)]
      congr 1; omega
    · by_cases h3 : v ≤ 65535
      · simp only [h1, h2, h3, if_true, if_false, List.cons_append, List.nil_append, decodeRune, UInt8.toNat_ofNat',
          List.length_cons, List.length_nil, isCont, lo3, hi3]
        have e0 : (v / 4096 % 16 + 224) % 2 ^ 8 = v / 4096 % 16 + 224 := by omega
        have e1 : (v / 64 % 64 + 128) % 2 ^ 8 = v / 64 % 64 + 128 := by omega
        have e2 : (v % 64 + 128) % 2 ^ 8 = v % 64 + 128 := by omega
        rw [e0, e1, e2, if_neg (by omega), if_neg (by omega), if_neg (by omega), if_pos (by omega)]
        rw [if_pos]
        · congr 1; omega
        · refine ⟨?_, ?_, ?_⟩
          · split <;> omega
          · split <;> omega
          · simp; omega
      · simp only [h1, h2, h3, if_false, List.cons_append, List.nil_append, decodeRune, UInt8.toNat_ofNat',
          List.length_cons, List.length_nil, isCont, lo4, hi4]
        have e0 : (v / 262144 % 8 + 240) % 2 ^ 8 = v / 262144 % 8 + 240 := by omega
        have e1 : (v / 4096 % 64 + 128) % 2 ^ 8 = v / 4096 % 64 + 128 := by omega
        have e2 : (v / 64 % 64 + 128) % 2 ^ 8 = v / 64 % 64 + 128 := by omega
        have e3 : (v % 64 + 128) % 2 ^ 8 = v % 64 + 128 := by omega
        rw [e0, e1, e2, e3, if_neg (by omega), if_neg (by omega), if_neg (by omega), if_neg (by omega),
          if_pos (by omega)]
        rw [if_pos]
        · congr 1; omega
        · refine ⟨?_, ?_, ?_, ?_⟩
          · split <;> omega
          · split <;> omega
          · simp; omega
          · simp; omega

theorem enc_length_pos (c : Char) : 0 < (String.utf8EncodeChar c).length := by
  have := enc_ne_nil c
  match h : String.utf8EncodeChar c with
  | [] => exact absurd h this
  | _ :: _ => simp

/-! ## token values survive the `LTok → Token` conversion -/

theorem bytesToStringAux_utf8 : ∀ (cs : Chars) (f : Nat), (utf8 cs).length ≤ f → bytesToStringAux f (utf8 cs) = cs
  | [], f, _ => by cases f <;> rfl
  | c :: cs, f, hf => by
    have hpos := enc_length_pos c
    simp only [utf8_cons, List.length_append] at hf
    match f, hf with
    | 0, hf => omega
    | f + 1, hf =>
      match he : String.utf8EncodeChar c ++ utf8 cs with
      | [] => exact absurd (List.append_eq_nil_iff.mp he).1 (enc_ne_nil c)
      | b :: r =>
        simp only [utf8_cons, he, bytesToStringAux]
        rw [← he, decode_enc]
        simp only [Char.ofNat_toNat, List.drop_left]
        rw [bytesToStringAux_utf8 cs f (by omega)]

theorem bytesToString_utf8 (cs : Chars) : bytesToString (utf8 cs) = String.ofList cs := by
  simp [bytesToString, bytesToStringAux_utf8 cs _ (Nat.le_refl _)]

theorem bytesToString_utf8_toList (s : String) : bytesToString (utf8 s.toList) = s := by
  rw [bytesToString_utf8, String.ofList_toList]

/-! ## ASCII texts -/

/-- all characters below 0x80 -/
def asciiC (cs : Chars) : Prop := ∀ c ∈ cs, c.toNat < 128

theorem utf8_ascii : ∀ cs : Chars, asciiC cs → utf8 cs = cs.map (fun c => UInt8.ofNat c.toNat)
  | [], _ => rfl
  | c :: cs, h => by
    rw [utf8_cons, enc_ascii c (h c (by simp)), utf8_ascii cs (fun x hx => h x (by simp [hx]))]
    rfl

theorem utf8_ascii_length (cs : Chars) (h : asciiC cs) : (utf8 cs).length = cs.length := by
  rw [utf8_ascii cs h, List.length_map]

theorem hasHigh_utf8_ascii (cs : Chars) (h : asciiC cs) : Spec.hasHigh (utf8 cs) = false := by
  rw [utf8_ascii cs h]
  simp only [Spec.hasHigh, List.any_eq_false, List.mem_map, decide_eq_true_eq, Nat.not_le]
  rintro b ⟨c, hc, rfl⟩
  have := h c hc
  simp only [UInt8.toNat_ofNat']; omega

end GqlModel.RoundTrip
