import GqlProofs.PlanFx
import GqlProofs.PlanExec2
/-! # Pending effects of a value under construction; the accounting relation -/
namespace GqlModel.Plan
open GqlModel.Exec GqlModel.Coerce

section pend
variable (c : Ctx) (F : Nat)

/-- the algorithm's in-place forcing of what the closure will call, from the empty state, with the request's fuel -/
def wRun (cl : Closure) (v : GoVal) : Res JVal × St :=
  complete c F true cl.t cl.rt cl.fp.fieldName cl.fp.fieldNodes cl.path v St.empty

/-- the effects the algorithm records for the deferred value the closure stands for -/
def wFx (cl : Closure) : Fx :=
  match cl.r with
  | some (.ok v) => fxS (wRun c F cl v).2
  | _ => ⟨[(cl.path, true)], []⟩

mutual
/-- the effects still pending in the closures of a value under construction -/
def pend : PVal → Fx
  | .leaf _ => Fx.nil
  | .list xs => pendL xs
  | .obj fs => pendF fs
  | .deferred cl => wFx c F cl
def pendL : List PVal → Fx
  | [] => Fx.nil
  | x :: xs => (pend x).app (pendL xs)
def pendF : List (String × PVal) → Fx
  | [] => Fx.nil
  | (_, x) :: xs => (pend x).app (pendF xs)
end

variable {c F}

theorem pendL_append (xs ys : List PVal) : pendL c F (xs ++ ys) = (pendL c F xs).app (pendL c F ys) := by
  induction xs with
  | nil => simp [pendL]
  | cons x xs ih => simp [pendL, ih]

theorem pendF_append (xs ys : List (String × PVal)) : pendF c F (xs ++ ys) = (pendF c F xs).app (pendF c F ys) := by
  induction xs with
  | nil => simp [pendF]
  | cons x xs ih => obtain ⟨k, x⟩ := x; simp [pendF, ih]

theorem pendL_snoc (xs : List PVal) (x : PVal) : pendL c F (xs ++ [x]) = (pendL c F xs).app (pend c F x) := by
  rw [pendL_append]; simp [pendL]

theorem pendF_snoc (xs : List (String × PVal)) (k : String) (x : PVal) :
    pendF c F (xs ++ [(k, x)]) = (pendF c F xs).app (pend c F x) := by
  rw [pendF_append]; simp [pendF]

theorem wFx_allDf (cl : Closure) : (wFx c F cl).AllDf := by
  unfold wFx
  split
  · exact (trueP (c := c) F).complete _ _ _ _ _ _ _ (by rw [fxS_empty]; exact Fx.allDf_nil)
  · exact ⟨fun e he => by simp at he; rw [he], fun _ he => by cases he⟩

mutual
theorem pend_allDf : ∀ v : PVal, (pend c F v).AllDf
  | .leaf _ => by simp only [pend]; exact Fx.allDf_nil
  | .list xs => by simp only [pend]; exact pendL_allDf xs
  | .obj fs => by simp only [pend]; exact pendF_allDf fs
  | .deferred cl => by simp only [pend]; exact wFx_allDf cl
theorem pendL_allDf : ∀ xs : List PVal, (pendL c F xs).AllDf
  | [] => by simp only [pendL]; exact Fx.allDf_nil
  | x :: xs => by simp only [pendL]; exact (pend_allDf x).app (pendL_allDf xs)
theorem pendF_allDf : ∀ fs : List (String × PVal), (pendF c F fs).AllDf
  | [] => by simp only [pendF]; exact Fx.allDf_nil
  | (_, x) :: xs => by simp only [pendF]; exact (pend_allDf x).app (pendF_allDf xs)
end

mutual
theorem pend_noDef : ∀ v : PVal, NoDef v → pend c F v = Fx.nil
  | .leaf _, _ => by simp only [pend]
  | .list xs, h => by simp only [pend]; exact pendL_noDef xs (by simpa [NoDef, PVal.AllCl] using h)
  | .obj fs, h => by simp only [pend]; exact pendF_noDef fs (by simpa [NoDef, PVal.AllCl] using h)
  | .deferred cl, h => absurd (allCl_deferred.1 h) id
theorem pendL_noDef : ∀ xs : List PVal, PVal.AllClList (fun _ => False) xs → pendL c F xs = Fx.nil
  | [], _ => by simp only [pendL]
  | x :: xs, h => by
    simp only [PVal.AllClList] at h
    simp only [pendL, pend_noDef x h.1, pendL_noDef xs h.2, Fx.nil_app]
theorem pendF_noDef : ∀ fs : List (String × PVal), PVal.AllClFields (fun _ => False) fs → pendF c F fs = Fx.nil
  | [], _ => by simp only [pendF]
  | (_, x) :: xs, h => by
    simp only [PVal.AllClFields] at h
    simp only [pendF, pend_noDef x h.1, pendF_noDef xs h.2, Fx.nil_app]
end

end pend

/-! ## accounting -/

/-- the algorithm's effects `dS`, together with what was pending before (`Pin`), are M's effects `dM`, what is pending afterwards
(`Pout`) and what was dropped; outside deferred values the two runs record the same, in the same order -/
def Acct (dS dM Pin Pout : Fx) (dfr : Bool) : Prop :=
  (∃ D, Fx.Perm (dS.app Pin) (dM.app (Pout.app D))) ∧ (dfr = false → dS.nd = dM.nd)

theorem acct_refl (P : Fx) (dfr : Bool) : Acct Fx.nil Fx.nil P P dfr :=
  ⟨⟨Fx.nil, by simpa using Fx.Perm.refl P⟩, fun _ => rfl⟩

theorem acct_same (d P : Fx) (dfr : Bool) : Acct d d P P dfr :=
  ⟨⟨Fx.nil, by simpa using Fx.Perm.refl (d.app P)⟩, fun _ => rfl⟩

theorem acct_seq {dA dMA dB dMB Pin Pmid Pout : Fx} {dfr : Bool} (h1 : Acct dA dMA Pin Pmid dfr)
    (h2 : Acct dB dMB Pmid Pout dfr) : Acct (dB.app dA) (dMB.app dMA) Pin Pout dfr := by
  obtain ⟨⟨D1, p1⟩, n1⟩ := h1
  obtain ⟨⟨D2, p2⟩, n2⟩ := h2
  refine ⟨⟨D2.app D1, ?_⟩, fun h => by rw [Fx.nd_app, Fx.nd_app, n1 h, n2 h]⟩
  -- dB ++ dA ++ Pin ~ dB ++ (dMA ++ Pmid ++ D1) ~ (dB ++ Pmid) ++ dMA ++ D1 ~ (dMB ++ Pout ++ D2) ++ dMA ++ D1
  have s1 : Fx.Perm ((dB.app dA).app Pin) (dB.app (dMA.app (Pmid.app D1))) := by
    simpa using Fx.Perm.app (Fx.Perm.refl dB) p1
  have s2 : Fx.Perm (dB.app (dMA.app (Pmid.app D1))) ((dB.app Pmid).app (dMA.app D1)) := by
    simpa [Fx.flat] using Fx.rearr [dB, dMA, Pmid, D1] [0, 1, 2, 3] [0, 2, 1, 3] (by decide)
  have s3 : Fx.Perm ((dB.app Pmid).app (dMA.app D1)) ((dMB.app (Pout.app D2)).app (dMA.app D1)) :=
    Fx.Perm.app p2 (Fx.Perm.refl _)
  have s4 : Fx.Perm ((dMB.app (Pout.app D2)).app (dMA.app D1)) ((dMB.app dMA).app (Pout.app (D2.app D1))) := by
    simpa [Fx.flat] using Fx.rearr [dMB, Pout, D2, dMA, D1] [0, 1, 2, 3, 4] [0, 3, 1, 2, 4] (by decide)
  exact (s1.trans s2).trans (s3.trans s4)

/-- what is untouched stays pending -/
theorem acct_frame {dS dM Pin Pout : Fx} {dfr : Bool} (R : Fx) (h : Acct dS dM Pin Pout dfr) :
    Acct dS dM (R.app Pin) (R.app Pout) dfr := by
  obtain ⟨⟨D, p⟩, n⟩ := h
  refine ⟨⟨D, ?_⟩, n⟩
  have s1 : Fx.Perm (dS.app (R.app Pin)) (R.app (dS.app Pin)) := by
    simpa [Fx.flat] using Fx.rearr [dS, R, Pin] [0, 1, 2] [1, 0, 2] (by decide)
  have s2 : Fx.Perm (R.app (dS.app Pin)) (R.app (dM.app (Pout.app D))) := Fx.Perm.app (Fx.Perm.refl R) p
  have s3 : Fx.Perm (R.app (dM.app (Pout.app D))) (dM.app ((R.app Pout).app D)) := by
    simpa [Fx.flat] using Fx.rearr [R, dM, Pout, D] [0, 1, 2, 3] [1, 0, 2, 3] (by decide)
  exact s1.trans (s2.trans s3)

/-- a failure drops everything that was pending -/
theorem acct_drop {dS dM Pin Pout : Fx} {dfr : Bool} (h : Acct dS dM Pin Pout dfr) : Acct dS dM Pin Fx.nil dfr := by
  obtain ⟨⟨D, p⟩, n⟩ := h
  exact ⟨⟨Pout.app D, by simpa using p⟩, n⟩

theorem acct_drop_in {dS dM Pout : Fx} {dfr : Bool} (Pin : Fx) (h : Acct dS dM Fx.nil Pout dfr) :
    Acct dS dM Pin Fx.nil dfr := by
  have := acct_drop (acct_frame Pin h)
  simpa using this

/-! ## S: the delta of a run -/

theorem sDelta_groups (c : Ctx) (fuel : Nat) {dfr rt src path groups acc st r st'}
    (h : execGroups c fuel dfr rt src path groups acc st = (r, st')) : ∃ d, st' = St.app d st := by
  obtain ⟨r0, d, hd⟩ := (stP c fuel).groups dfr rt src path groups acc
  rw [hd st] at h; exact ⟨d, (Prod.mk.inj h).2.symm⟩
theorem sDelta_field (c : Ctx) (fuel : Nat) {dfr rt src p fd nodes st r st'}
    (h : execField c fuel dfr rt src p fd nodes st = (r, st')) : ∃ d, st' = St.app d st := by
  obtain ⟨r0, d, hd⟩ := (stP c fuel).field dfr rt src p fd nodes
  rw [hd st] at h; exact ⟨d, (Prod.mk.inj h).2.symm⟩
theorem sDelta_complete (c : Ctx) (fuel : Nat) {dfr t rt fname nodes p v st r st'}
    (h : complete c fuel dfr t rt fname nodes p v st = (r, st')) : ∃ d, st' = St.app d st := by
  obtain ⟨r0, d, hd⟩ := (stP c fuel).complete dfr t rt fname nodes p v
  rw [hd st] at h; exact ⟨d, (Prod.mk.inj h).2.symm⟩
theorem sDelta_items (c : Ctx) (fuel : Nat) {dfr item rt fname nodes p xs i acc st r st'}
    (h : completeItems c fuel dfr item rt fname nodes p xs i acc st = (r, st')) : ∃ d, st' = St.app d st := by
  obtain ⟨r0, d, hd⟩ := (stP c fuel).items dfr item rt fname nodes p xs i acc
  rw [hd st] at h; exact ⟨d, (Prod.mk.inj h).2.symm⟩

/-- a run from any state is the run from the empty state, shifted -/
theorem complete_from_empty (c : Ctx) (fuel : Nat) {dfr t rt fname nodes p v st r st'}
    (h : complete c fuel dfr t rt fname nodes p v st = (r, st')) :
    ∃ d, complete c fuel dfr t rt fname nodes p v St.empty = (r, d) ∧ st' = St.app d st := by
  obtain ⟨r0, d, hd⟩ := (stP c fuel).complete dfr t rt fname nodes p v
  have h1 := hd st
  rw [h] at h1
  obtain ⟨hr, hs⟩ := Prod.mk.inj h1
  refine ⟨d, ?_, hs⟩
  rw [hd St.empty, St.app_empty, hr]

/-- what is pending in a result -/
def resPend {α : Type} (pendOf : α → Fx) : Res α → Fx
  | .ok x => pendOf x
  | _ => Fx.nil

@[simp] theorem resPend_ok {α : Type} (pendOf : α → Fx) (x : α) : resPend pendOf (.ok x) = pendOf x := rfl
@[simp] theorem resPend_fail {α : Type} (pendOf : α → Fx) : resPend pendOf (.fail : Res α) = Fx.nil := rfl
@[simp] theorem resPend_fuelOut {α : Type} (pendOf : α → Fx) : resPend pendOf (.fuelOut : Res α) = Fx.nil := rfl

/-- the outcome of one of the four functions of M against the algorithm's run `st ↦ stS`, effects only -/
def FxOut {α : Type} (dfr : Bool) (st stS : St) (mst : MSt) (Pin : Fx) (out : Res α × MSt) (pendOf : α → Fx) : Prop :=
  ∃ dS dM, stS = St.app dS st ∧ MExt mst out.2 dM ∧ Acct (fxS dS) dM Pin (resPend pendOf out.1) dfr

end GqlModel.Plan
