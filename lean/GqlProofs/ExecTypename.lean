import GqlProofs.ExecResolved
import GqlProofs.ExecState
import GqlProofs.ExecConforms
/-! C10 / C20: `__typename` always names the RUNTIME object type: wherever the response holds an object at the place of a
legitimate position (`Position`), the value under every response key that selects `__typename` is the name of that
position's runtime type (for an abstract position: the type `runtimeTypeOf` chose). Same hereditary scheme as
`ExecResolved`. -/
namespace GqlModel.Exec
open GqlModel.Coerce

/-- the typename entries of the object `fs` found at the place of a position of runtime type `rt` -/
def TypenameOK (rt : String) (groups : Groups) (fs : List (String × JVal)) : Prop :=
  ∀ k nodes node x, (k, nodes) ∈ groups → nodes.head? = some node → node.name = "__typename" → (k, x) ∈ fs →
    x = .str rt

def HeredT (c : Ctx) (t : GType) (p : Path) (v : GoVal) (nodes : List FieldNode) (j : JVal) : Prop :=
  ∀ ot o p', ObjAt c t p v ot o p' →
    ∀ rt' src' path' G', PosFrom c ot o p' (collectMerged c ot nodes) rt' src' path' G' →
      ∀ rel fs', path' = p ++ rel → ValAt j rel (.obj fs') → TypenameOK rt' G' fs'

theorem HeredT.null {c : Ctx} {t : GType} {p : Path} {v : GoVal} {nodes : List FieldNode} : HeredT c t p v nodes .null :=
  fun _ _ _ _ _ _ _ _ _ _ _ _ hval => (ValAt.null_obj hval).elim

def GroupsT (c : Ctx) (rt : String) (src : GoVal) (path : Path) (groups : Groups) (fs : List (String × JVal)) : Prop :=
  ∀ k nodes node fd, Selected c rt groups k nodes node fd →
    ∀ v, c.world.outcome src fd.name = .value v →
      ∃ x, (k, x) ∈ fs ∧ HeredT c fd.type (path ++ [.key k]) v nodes x

/-- a successful selection set holds `.str rt` under every `__typename` key -/
theorem execGroups_typename (c : Ctx) (fuel : Nat) (dfr : Bool) (rt : String) (src : GoVal) (path : Path)
    (groups : Groups) (st st' : St) (fs : List (String × JVal))
    (h : execGroups c fuel dfr rt src path groups [] st = (.ok fs, st')) (hn : (fs.map (·.1)).Nodup) :
    TypenameOK rt groups fs := by
  intro k nodes node x hm hnode hname hx
  have hfd : fieldDef? c.schema rt node.name = some { name := "__typename", type := .nonNull (.named "String"), args := [] } := by
    simp [fieldDef?, hname]
  obtain ⟨v, hv, hall⟩ := execGroups_field_values c fuel dfr rt src path groups [] st fs st' h k nodes node _ hm hnode hfd
  have := mem_unique_of_keys_nodup hn hv hx
  subst this
  cases fuel with
  | zero => simp [execGroups] at h
  | succ fuel =>
    have := hall St.empty
    simp only [execField, beq_self_eq_true, if_true, Res.ok.injEq] at this
    exact this.symm

theorem GroupsT.hered {c : Ctx} {rt : String} {src : GoVal} {path : Path} {groups : Groups}
    {fs : List (String × JVal)} (hg : GroupsT c rt src path groups fs) (hbase : TypenameOK rt groups fs)
    (hn : (fs.map (·.1)).Nodup)
    {rt' : String} {src' : GoVal} {path' : Path} {G' : Groups}
    (hpos : PosFrom c rt src path groups rt' src' path' G') {rel : Path} {fs' : List (String × JVal)}
    (hrel : path' = path ++ rel) (hval : ValAt (.obj fs) rel (.obj fs')) : TypenameOK rt' G' fs' := by
  rcases hpos.head_cases with ⟨rfl, rfl, rfl, rfl⟩ | ⟨k, nodes, node, fd, v, ot, o, p', hsel, hout, hobj, hbelow⟩
  · have : rel = [] := by simpa using hrel.symm
    subst this
    cases hval
    exact hbase
  · obtain ⟨x, hx, hh⟩ := hg k nodes node fd hsel v hout
    have hpre : (path ++ [.key k]) <+: path' := List.IsPrefix.trans hobj.prefix hbelow.prefix
    obtain ⟨rel', rfl⟩ := rel_cons_of_prefix hrel hpre
    obtain ⟨x', hx', hval'⟩ := hval.obj_cons
    have := mem_unique_of_keys_nodup hn hx hx'
    subst this
    exact hh ot o p' hobj rt' src' path' G' hbelow rel' fs' (by rw [hrel]; simp) hval'

structure TnP (c : Ctx) (fuel : Nat) : Prop where
  groups : ∀ dfr rt src path groups acc st fs st',
    execGroups c fuel dfr rt src path groups acc st = (.ok fs, st') → GroupsT c rt src path groups fs
  field : ∀ dfr rt src p fd nodes st j st',
    execField c fuel dfr rt src p fd nodes st = (.ok j, st') → fd.name ≠ "__typename" →
    ∀ v, c.world.outcome src fd.name = .value v → HeredT c fd.type p v nodes j
  complete : ∀ dfr t rt fname nodes p v st j st',
    complete c fuel dfr t rt fname nodes p v st = (.ok j, st') → HeredT c t p v nodes j
  items : ∀ dfr item rt fname nodes p xs i acc st js st',
    completeItems c fuel dfr item rt fname nodes p xs i acc st = (.ok js, st') → i = acc.length →
    ∀ m x, xs[m]? = some x → ∃ y, js[i + m]? = some y ∧ HeredT c item (p ++ [.idx (i + m)]) x nodes y

theorem tnP_zero (c : Ctx) : TnP c 0 := by
  refine ⟨?_, ?_, ?_, ?_⟩
  · intro dfr rt src path groups acc st fs st' h; simp [execGroups] at h
  · intro dfr rt src p fd nodes st j st' h; simp [execField] at h
  · intro dfr t rt fname nodes p v st j st' h; simp [complete] at h
  · intro dfr item rt fname nodes p xs i acc st js st' h; simp [completeItems] at h

theorem tnP_groups (c : Ctx) (fuel : Nat) (ih : TnP c fuel) :
    ∀ dfr rt src path groups acc st fs st',
    execGroups c (fuel + 1) dfr rt src path groups acc st = (.ok fs, st') → GroupsT c rt src path groups fs := by
  intro dfr rt src path groups acc st fs st' h
  cases groups with
  | nil => intro k nodes node fd hsel; cases hsel.1
  | cons g rest =>
    obtain ⟨key, nodes0⟩ := g
    simp only [execGroups] at h
    have hrest : ∀ acc1 st1, execGroups c fuel dfr rt src path rest acc1 st1 = (.ok fs, st') →
        GroupsT c rt src path rest fs := fun acc1 st1 h1 => ih.groups _ _ _ _ _ _ _ _ _ h1
    split at h
    · rename_i hh
      intro k nodes node fd hsel
      rcases List.mem_cons.mp hsel.1 with hm | hm
      · cases hm; have := hsel.2.1; rw [hh] at this; cases this
      · exact hrest _ _ h k nodes node fd ⟨hm, hsel.2⟩
    · rename_i node0 hh
      split at h
      · rename_i hfd
        intro k nodes node fd hsel
        rcases List.mem_cons.mp hsel.1 with hm | hm
        · cases hm
          have : node = node0 := by have := hsel.2.1; rw [hh] at this; cases this; rfl
          subst this
          have := hsel.2.2.1; rw [hfd] at this; cases this
        · exact hrest _ _ h k nodes node fd ⟨hm, hsel.2⟩
      · rename_i fd0 hfd
        rcases hf : execField c fuel dfr rt src (path ++ [.key key]) fd0 nodes0 st with ⟨r1, st1⟩
        rw [hf] at h
        cases r1 with
        | ok v0 =>
          simp only at h
          intro k nodes node fd hsel
          rcases List.mem_cons.mp hsel.1 with hm | hm
          · cases hm
            have hnode : node = node0 := by have := hsel.2.1; rw [hh] at this; cases this; rfl
            subst hnode
            have hfd' : fd = fd0 := by have := hsel.2.2.1; rw [hfd] at this; cases this; rfl
            subst hfd'
            obtain ⟨_, -, -, hok⟩ := (errP c fuel).groups _ _ _ _ _ _ _ _ _ h
            obtain ⟨⟨more, hmore⟩, -⟩ := hok fs rfl
            intro v hv
            exact ⟨v0, by rw [hmore]; simp, ih.field _ _ _ _ _ _ _ _ _ hf hsel.2.2.2 v hv⟩
          · exact hrest _ _ h k nodes node fd ⟨hm, hsel.2⟩
        | fail => simp at h
        | fuelOut => simp at h

theorem tnP_field (c : Ctx) (fuel : Nat) (ih : TnP c fuel) :
    ∀ dfr rt src p fd nodes st j st',
    execField c (fuel + 1) dfr rt src p fd nodes st = (.ok j, st') → fd.name ≠ "__typename" →
    ∀ v, c.world.outcome src fd.name = .value v → HeredT c fd.type p v nodes j := by
  intro dfr rt src p fd nodes st j st' h hn v hv
  have hn' : (fd.name == "__typename") = false := by simpa using hn
  simp only [execField, hn', Bool.false_eq_true, if_false, hv] at h
  generalize hst0 : ({ st with log := _ :: st.log } : St) = st0 at h
  rcases hc : complete c fuel dfr fd.type rt fd.name nodes p v st0 with ⟨r1, st1⟩
  rw [hc] at h
  cases r1 with
  | ok j1 =>
    simp only [Prod.mk.injEq, Res.ok.injEq] at h
    rw [← h.1]
    exact ih.complete _ _ _ _ _ _ _ _ _ _ hc
  | fail =>
    simp only at h
    split at h
    · simp at h
    · simp only [Prod.mk.injEq, Res.ok.injEq] at h
      rw [← h.1]; exact HeredT.null
  | fuelOut => simp at h

theorem tnP_items (c : Ctx) (fuel : Nat) (ih : TnP c fuel) :
    ∀ dfr item rt fname nodes p xs i acc st js st',
    completeItems c (fuel + 1) dfr item rt fname nodes p xs i acc st = (.ok js, st') → i = acc.length →
    ∀ m x, xs[m]? = some x → ∃ y, js[i + m]? = some y ∧ HeredT c item (p ++ [.idx (i + m)]) x nodes y := by
  intro dfr item rt fname nodes p xs i acc st js st' h hi m x hm
  cases xs with
  | nil => simp at hm
  | cons x0 xs =>
    simp only [completeItems] at h
    rcases hc : complete c fuel dfr item rt fname nodes (p ++ [.idx i]) x0 st with ⟨r1, st1⟩
    rw [hc] at h
    have hgo : ∀ (y0 : JVal), HeredT c item (p ++ [.idx i]) x0 nodes y0 →
        completeItems c fuel dfr item rt fname nodes p xs (i + 1) (acc ++ [y0]) st1 = (.ok js, st') →
        ∃ y, js[i + m]? = some y ∧ HeredT c item (p ++ [.idx (i + m)]) x nodes y := by
      intro y0 hy0 h
      obtain ⟨_, -, -, hok⟩ := (errP c fuel).items _ _ _ _ _ _ _ _ _ _ _ _ h
      obtain ⟨⟨more, hmore⟩, -⟩ := hok js rfl
      cases m with
      | zero =>
        simp only [List.getElem?_cons_zero, Option.some.injEq] at hm
        subst hm
        refine ⟨y0, ?_, hy0⟩
        rw [hmore, hi]; simp
      | succ m =>
        simp only [List.getElem?_cons_succ] at hm
        obtain ⟨y, hy, hh⟩ := ih.items _ _ _ _ _ _ _ _ _ _ _ _ h (by simp [hi]) m x hm
        have he : i + 1 + m = i + (m + 1) := by omega
        rw [he] at hy hh
        exact ⟨y, hy, hh⟩
    cases r1 with
    | ok j0 => exact hgo j0 (ih.complete _ _ _ _ _ _ _ _ _ _ hc) h
    | fail =>
      simp only at h
      split at h
      · simp at h
      · exact hgo .null HeredT.null h
    | fuelOut => simp at h

theorem tnP_complete (c : Ctx) (fuel : Nat) (ih : TnP c fuel) :
    ∀ dfr t rt fname nodes p v st j st',
    complete c (fuel + 1) dfr t rt fname nodes p v st = (.ok j, st') → HeredT c t p v nodes j := by
  intro dfr t rt fname nodes p v st j st' h
  have hobject : ∀ (n ot : String) (fs : List (String × JVal)) (stx : St),
      execGroups c fuel dfr ot v p (collectMerged c ot nodes) [] st = (.ok fs, stx) →
      (∀ ot' o p', ObjAt c (.named n) p v ot' o p' → ot' = ot ∧ o = v ∧ p' = p) →
      HeredT c (.named n) p v nodes (.obj fs) := by
    intro n ot fs stx hg hinv ot' o p' ho rt' src' path' G' hpos rel fs' hrel hval
    obtain ⟨rfl, rfl, rfl⟩ := hinv ot' o p' ho
    have hkeys : (fs.map (·.1)).Nodup := by
      rw [execGroups_ok_keys c fuel _ _ _ _ _ _ _ _ _ hg]
      simp only [List.map_nil, List.nil_append]
      exact List.Nodup.sublist (List.Sublist.map _ List.filter_sublist) (collectMerged_keys_nodup c ot' nodes)
    exact (ih.groups _ _ _ _ _ _ _ _ _ hg).hered (execGroups_typename c fuel _ _ _ _ _ _ _ _ hg hkeys) hkeys hpos hrel hval
  simp only [complete] at h
  split at h
  · split at h
    · simp at h
    · rename_i v'
      rcases hc : complete c fuel true t rt fname nodes p v' st with ⟨r1, st1⟩
      rw [hc] at h
      cases r1 with
      | ok j1 =>
        simp only [Prod.mk.injEq, Res.ok.injEq] at h
        rw [← h.1]
        intro ot o p' ho
        exact ih.complete _ _ _ _ _ _ _ _ _ _ hc ot o p' ho.of_thunk
      | fail => simp at h
      | fuelOut => simp at h
  · simp at h
  · rename_i hnt hnb
    have hfun : v.isFunc = false := by
      cases v <;> first | rfl | (exfalso; first | exact hnt _ rfl | exact hnb rfl)
    split at h
    · rename_i inner
      rcases hc : complete c fuel dfr inner rt fname nodes p v st with ⟨r1, st1⟩
      rw [hc] at h
      split at h
      · simp at h
      · simp only [Prod.mk.injEq] at h
        obtain ⟨rfl, rfl⟩ := h
        intro ot o p' ho
        exact ih.complete _ _ _ _ _ _ _ _ _ _ hc ot o p' (ho.of_nonNull hfun)
    · rename_i item
      split at h
      · simp only [Prod.mk.injEq, Res.ok.injEq] at h
        rw [← h.1]; exact HeredT.null
      · split at h
        · rename_i xs _
          rcases hi : completeItems c fuel dfr item rt fname nodes p xs 0 [] st with ⟨r1, st1⟩
          rw [hi] at h
          cases r1 with
          | ok js =>
            simp only [Prod.mk.injEq, Res.ok.injEq] at h
            rw [← h.1]
            intro ot o p' ho rt' src' path' G' hpos rel fs' hrel hval
            cases ho with
            | item hx hox =>
              rename_i i x
              obtain ⟨y, hy, hh⟩ := ih.items _ _ _ _ _ _ _ _ _ _ _ _ hi rfl i x hx
              simp only [Nat.zero_add] at hy hh
              have hpre : (p ++ [.idx i]) <+: path' := List.IsPrefix.trans hox.prefix hpos.prefix
              obtain ⟨rel', rfl⟩ := rel_cons_of_prefix hrel hpre
              obtain ⟨y', hy', hval'⟩ := hval.list_cons
              rw [hy] at hy'; cases hy'
              exact hh ot o p' hox rt' src' path' G' hpos rel' fs' (by rw [hrel]; simp) hval'
          | fail => simp at h
          | fuelOut => simp at h
        · simp at h
    · rename_i n
      split at h
      · simp only [Prod.mk.injEq, Res.ok.injEq] at h
        rw [← h.1]; exact HeredT.null
      · split at h
        · rename_i hleaf
          intro ot o p' ho
          cases ho with
          | thunk => simp [GoVal.isFunc] at hfun
          | object _ _ hobj => rw [isLeaf_not_object hleaf] at hobj; cases hobj
          | abstract _ _ habs => rw [isLeaf_not_abstract hleaf] at habs; cases habs
        · split at h
          · rename_i habs
            split at h
            · simp at h
            · rename_i ot hot
              split at h
              · simp at h
              · rcases hg : execGroups c fuel dfr ot v p (collectMerged c ot nodes) [] st with ⟨r1, st1⟩
                rw [hg] at h
                cases r1 with
                | ok fs =>
                  simp only [Prod.mk.injEq, Res.ok.injEq] at h
                  rw [← h.1]
                  refine hobject n ot fs _ hg ?_
                  intro ot' o p' ho
                  cases ho with
                  | thunk => simp [GoVal.isFunc] at hfun
                  | object _ _ hobj => rw [isAbstract_not_object habs] at hobj; cases hobj
                  | abstract _ _ _ hrt => rw [hot] at hrt; cases hrt; exact ⟨rfl, rfl, rfl⟩
                | fail => simp at h
                | fuelOut => simp at h
          · rename_i hnabs
            split at h
            · split at h
              · simp at h
              · rcases hg : execGroups c fuel dfr n v p (collectMerged c n nodes) [] st with ⟨r1, st1⟩
                rw [hg] at h
                cases r1 with
                | ok fs =>
                  simp only [Prod.mk.injEq, Res.ok.injEq] at h
                  rw [← h.1]
                  refine hobject n n fs _ hg ?_
                  intro ot' o p' ho
                  cases ho with
                  | thunk => simp [GoVal.isFunc] at hfun
                  | object => exact ⟨rfl, rfl, rfl⟩
                  | abstract _ _ habs => exact absurd habs hnabs
                | fail => simp at h
                | fuelOut => simp at h
            · simp at h

theorem tnP (c : Ctx) : ∀ fuel, TnP c fuel
  | 0 => tnP_zero c
  | fuel + 1 =>
    have ih := tnP c fuel
    ⟨tnP_groups c fuel ih, tnP_field c fuel ih, tnP_complete c fuel ih, tnP_items c fuel ih⟩

end GqlModel.Exec
