import GqlProofs.RoundTripItems
/-! # C08 byte level — combinators for the invariant `LexK`

`G items`: the invariant holds whenever a delimiter (or nothing) follows the list; `A items`: it holds whatever follows
(lists ending in a punctuator or a separator).  Closure under `++`, `joinI`, `wrapI`, `indentI`, `blockI`, descriptions. -/
namespace GqlModel.RoundTrip
open GqlModel GqlModel.Lexer GqlModel.Printer

/-- non-empty and starting with a delimiter -/
def SD1 (cs : Chars) : Prop :=
  match cs with
  | [] => False
  | c :: _ => isDelimChar c = true

instance (cs : Chars) : Decidable (StartsDelim cs) := by cases cs <;> simp only [StartsDelim] <;> infer_instance
instance (cs : Chars) : Decidable (SD1 cs) := by cases cs <;> simp only [SD1] <;> infer_instance

theorem sd1_append {a : Chars} (h : SD1 a) (b : Chars) : SD1 (a ++ b) := by
  cases a with
  | nil => exact absurd h id
  | cons c r => exact h

theorem sd_of_sd1 {a : Chars} (h : SD1 a) : StartsDelim a := by
  cases a with
  | nil => trivial
  | cons c r => exact h

theorem sd_append {a b : Chars} (ha : StartsDelim a) (hb : StartsDelim b) : StartsDelim (a ++ b) := by
  cases a with
  | nil => exact hb
  | cons c r => exact ha

theorem sd_nil : StartsDelim [] := trivial

/-! ## `LexK` and `++` -/

theorem lexK_append : ∀ (a b : List Item) (rest : Chars),
    LexK (a ++ b) rest ↔ LexK a (render b ++ rest) ∧ LexK b rest
  | [], b, rest => by simp [LexK]
  | .sep t :: a, b, rest => by
    simp only [List.cons_append, LexK, lexK_append a b rest, and_assoc]
  | .tok k v t :: a, b, rest => by
    simp only [List.cons_append, LexK, lexK_append a b rest, render_append, List.append_assoc, and_assoc]

def G (is : List Item) : Prop := ∀ rest, StartsDelim rest → LexK is rest
def A (is : List Item) : Prop := ∀ rest, LexK is rest

theorem A.toG {is : List Item} (h : A is) : G is := fun rest _ => h rest

theorem G_nil : G [] := fun _ _ => trivial
theorem A_nil : A [] := fun _ => trivial

theorem G_app {a b : List Item} (ha : G a) (hb : G b) (hs : StartsDelim (render b)) : G (a ++ b) := by
  intro rest hr
  exact (lexK_append a b rest).mpr ⟨ha _ (sd_append hs hr), hb rest hr⟩

theorem AG_app {a b : List Item} (ha : A a) (hb : G b) : G (a ++ b) := by
  intro rest hr
  exact (lexK_append a b rest).mpr ⟨ha _, hb rest hr⟩

theorem GA_app {a b : List Item} (ha : G a) (hb : A b) (hs : SD1 (render b)) : A (a ++ b) := by
  intro rest
  exact (lexK_append a b rest).mpr ⟨ha _ (sd_of_sd1 (sd1_append hs rest)), hb rest⟩

theorem AA_app {a b : List Item} (ha : A a) (hb : A b) : A (a ++ b) := by
  intro rest
  exact (lexK_append a b rest).mpr ⟨ha _, hb rest⟩

/-! ## leaves -/

theorem A_pI {k : TokenKind} {c : Char} (h : punctChar k = some c) : A (pI k [c]) := by
  intro rest
  have hs : sticky k = false := by cases k <;> simp [punctChar] at h <;> rfl
  refine ⟨?_, by simp [hs], trivial⟩
  cases k <;> simp only [punctChar, Option.some.injEq, reduceCtorEq] at h <;> subst h <;> exact ⟨rfl, _, rfl, rfl⟩

theorem A_spreadI : A spreadI := by
  intro rest
  exact ⟨⟨rfl, rfl⟩, by simp [sticky], trivial⟩

theorem A_sI {t : Chars} (h : t.all isIgnoredChar = true) : A (sI t) := fun _ => ⟨h, trivial⟩

theorem A_spI : A spI := A_sI rfl
theorem A_commaSpI : A commaSpI := A_sI rfl
theorem A_nlI : A (sI ['\n']) := A_sI rfl
theorem A_colonSpI : A colonSpI := AA_app (A_pI rfl) A_spI

theorem G_tok {k : TokenKind} {v : String} {t : Chars} (h : TokText k v t) : G [.tok k v t] := by
  intro rest hr
  exact ⟨h, fun _ => by simpa using hr, trivial⟩

theorem G_nI {s : String} (h : Reader.isNameC s.toList = true) : G (nI s) := G_tok ⟨rfl, h⟩

theorem G_kI {s : Chars} (h : Reader.isNameC s = true) : G (kI s) :=
  G_tok ⟨by simp, h⟩

theorem A_kI_sp {s : Chars} (h : Reader.isNameC s = true) : A (kI s ++ spI) := GA_app (G_kI h) A_spI (by decide)

/-! ## `wrapI`, `joinI` -/

theorem G_wrapI {a m b : List Item} (h : G (a ++ m ++ b)) : G (wrapI a m b) := by
  simp only [wrapI]; split
  · exact G_nil
  · exact h

theorem A_wrapI {a m b : List Item} (h : A (a ++ m ++ b)) : A (wrapI a m b) := by
  simp only [wrapI]; split
  · exact A_nil
  · exact h

theorem G_interI {sep : List Item} (hs : A sep) (hd : SD1 (render sep)) : ∀ xs : List (List Item),
    (∀ x ∈ xs, G x) → G (interI sep xs)
  | [], _ => G_nil
  | [x], h => by simpa [interI] using h x (by simp)
  | x :: y :: rest, h => by
    have h1 := h x (by simp)
    have h2 := G_interI hs hd (y :: rest) (fun z hz => h z (by simp at hz ⊢; right; exact hz))
    simp only [interI]
    exact AG_app (GA_app h1 hs hd) h2

theorem G_joinI {sep : List Item} (hs : A sep) (hd : SD1 (render sep)) (xs : List (List Item))
    (h : ∀ x ∈ xs, G x) : G (joinI xs sep) :=
  G_interI hs hd _ (fun x hx => h x (List.mem_filter.mp hx).1)

theorem G_map {α : Type} (f : α → List Item) (P : α → Prop) (h : ∀ x, P x → G (f x)) (xs : List α) (hx : ∀ x ∈ xs, P x) :
    ∀ y ∈ xs.map f, G y := by
  intro y hy
  obtain ⟨x, hm, rfl⟩ := List.mem_map.mp hy
  exact h x (hx x hm)

/-- `joinI [a, b] []` (operation name directly followed by the variable definitions) -/
theorem G_join2_nil {a b : List Item} (ha : G a) (hb : G b) (hs : StartsDelim (render b)) : G (joinI [a, b] []) := by
  simp only [joinI, List.filter]
  by_cases h1 : (render a).isEmpty <;> by_cases h2 : (render b).isEmpty <;> simp only [h1, h2, Bool.not_true, Bool.not_false, interI]
  · exact G_nil
  · exact hb
  · exact ha
  · simpa using G_app ha hb hs

/-- first non-empty element decides how a join starts -/
theorem sd_joinC (sep : Chars) : ∀ xs : List Chars, (∀ x ∈ xs, StartsDelim x) → StartsDelim (joinC xs sep) := by
  intro xs h
  simp only [joinC]
  have : ∀ ys : List Chars, (∀ y ∈ ys, StartsDelim y ∧ y ≠ []) → StartsDelim (interC sep ys) := by
    intro ys hy
    match ys, hy with
    | [], _ => trivial
    | [y], hy => simpa [interC] using (hy y (by simp)).1
    | y :: z :: r, hy =>
      simp only [interC, List.append_assoc]
      obtain ⟨h1, h2⟩ := hy y (by simp)
      cases y with
      | nil => exact absurd rfl h2
      | cons c cs => exact h1
  apply this
  intro y hy
  obtain ⟨h1, h2⟩ := List.mem_filter.mp hy
  refine ⟨h y h1, ?_⟩
  intro e; subst e; simp at h2

end GqlModel.RoundTrip
