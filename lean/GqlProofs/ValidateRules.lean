import GqlProofs.ValidateCycles
/-! # Helper lemmas for C02: from the `ValidationContext` helpers to the four rules built on them -/
namespace GqlModel.Validate.Graph

/-- keys of `fragmentNameUsed` = names of defined fragments reachable from some operation -/
theorem mem_usedFragNames (tbl : List Frag) (ops : List SelectionSet) (n : String) :
    n ∈ usedFragNames tbl ops ↔ ∃ sel, sel ∈ ops ∧ FragUsed tbl sel n ∧ Defined tbl n := by
  simp only [usedFragNames, List.mem_flatMap, List.mem_map]
  constructor
  · rintro ⟨sel, hsel, f, hf, rfl⟩
    have := ((rrf_spec tbl sel).2 f).1 hf
    exact ⟨sel, hsel, this.1, lookupFrag_mem_names this.2⟩
  · rintro ⟨sel, hsel, hu, hd⟩
    rcases lookupFrag_of_mem_names hd with ⟨f, hf⟩
    have hn := (lookupFrag_some hf).2
    refine ⟨sel, hsel, f, ((rrf_spec tbl sel).2 f).2 ⟨hn ▸ hu, hn ▸ hf⟩, hn⟩

/-- `RecursiveVariableUsages(operation)` = usages in the operation and in every fragment it reaches -/
theorem mem_recursiveUsages (s : Schema) (tbl : List Frag) (o : Op) (u : Usage) :
    u ∈ recursiveUsages s tbl o ↔ UsageIn s tbl o u := by
  simp only [recursiveUsages, UsageIn, List.mem_append, List.mem_flatMap]
  constructor
  · rintro (h | ⟨f, hf, hu⟩)
    · exact .inl h
    · have := ((rrf_spec tbl o.sel).2 f).1 hf
      exact .inr ⟨f, f.name.value, this.1, this.2, hu⟩
  · rintro (h | ⟨f, x, hx, hf, hu⟩)
    · exact .inl h
    · have hn := (lookupFrag_some hf).2
      exact .inr ⟨f, ((rrf_spec tbl o.sel).2 f).2 ⟨hn ▸ hx, hn ▸ hf⟩, hu⟩

theorem mem_usedVars (us : List Usage) (v : String) : v ∈ usedVars us ↔ v ≠ "" ∧ ∃ u, u ∈ us ∧ u.name = v := by
  simp only [usedVars, List.mem_filter, List.mem_map, bne_iff_ne, ne_eq]
  constructor
  · rintro ⟨⟨u, hu, rfl⟩, h⟩; exact ⟨h, u, hu, rfl⟩
  · rintro ⟨h, u, hu, rfl⟩; exact ⟨⟨u, hu, rfl⟩, h⟩

end GqlModel.Validate.Graph
