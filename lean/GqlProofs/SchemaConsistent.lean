import GqlProofs.SchemaBuild
/-! C11, part 2: from the depth-first specification to `Consistent (dump …)`.

* §D0 what the steps of a closed entry are (no parked error ⇒ the lazy members evaluated fine and every reference was
      visited), what `defineFieldMap` guarantees about the fields it returns, facts about `dump`
* §D1 … §D6 one lemma per clause of `Consistent` -/
set_option linter.unusedSectionVars false
set_option linter.unusedVariables false
namespace GqlModel.SchemaBuild

variable (cfg : Config)

/-! ## §D0 -/

def NoFail (steps : List Step) : Prop := ∀ s ∈ steps, ∃ t, s = .visit t

theorem NoFail.of_append_left {a b : List Step} (h : NoFail (a ++ b)) : NoFail a :=
  fun s hs => h s (List.mem_append_left _ hs)
theorem NoFail.of_append_right {a b : List Step} (h : NoFail (a ++ b)) : NoFail b :=
  fun s hs => h s (List.mem_append_right _ hs)

theorem ClosedE.noFail {tm : TM} {i : Nat} (h : ClosedE cfg tm i) : NoFail (stepsOf cfg i) := by
  intro s hs
  obtain ⟨t, ht, _⟩ := h s hs
  exact ⟨t, ht⟩

theorem fieldSteps_mem {fs : List BField} {f : BField} (hf : f ∈ fs) :
    Step.visit f.type ∈ fieldSteps fs ∧ ∀ a ∈ f.args, Step.visit a.type ∈ fieldSteps fs := by
  induction fs with
  | nil => cases hf
  | cons g rest ih =>
    simp only [fieldSteps]
    cases hf with
    | head =>
      refine ⟨by simp, ?_⟩
      intro a ha
      apply List.mem_append_left
      exact List.mem_map.mpr ⟨a, ha, rfl⟩
    | tail _ h =>
      obtain ⟨h1, h2⟩ := ih h
      refine ⟨?_, ?_⟩
      · apply List.mem_append_right; exact List.mem_cons_of_mem _ h1
      · intro a ha; apply List.mem_append_right; exact List.mem_cons_of_mem _ (h2 a ha)

theorem memberSteps_noFail {ms : List Nat} (h : NoFail (memberSteps cfg ms)) :
    ∀ m ∈ ms, ctorErr cfg m = none ∧ Step.visit (.ref m) ∈ memberSteps cfg ms := by
  induction ms with
  | nil => intro m hm; cases hm
  | cons x rest ih =>
    intro m hm
    cases hc : ctorErr cfg x with
    | some e =>
      have : Step.fail e ∈ memberSteps cfg (x :: rest) := by simp [memberSteps, hc]
      obtain ⟨t, ht⟩ := h _ this
      cases ht
    | none =>
      have heq : memberSteps cfg (x :: rest) = .visit (.ref x) :: memberSteps cfg rest := by simp [memberSteps, hc]
      rw [heq] at h ⊢
      cases hm with
      | head => exact ⟨hc, by simp⟩
      | tail _ hm' =>
        have h' : NoFail (memberSteps cfg rest) := fun s hs => h s (List.mem_cons_of_mem _ hs)
        obtain ⟨h1, h2⟩ := ih h' m hm'
        exact ⟨h1, List.mem_cons_of_mem _ h2⟩

theorem exceptSteps_noFail {α : Type} {r : Except Err α} {k : α → List Step} (h : NoFail (exceptSteps r k)) :
    ∃ a, r = .ok a ∧ exceptSteps r k = k a := by
  cases r with
  | error e =>
    have : Step.fail e ∈ exceptSteps (Except.error e) k := by simp [exceptSteps]
    obtain ⟨t, ht⟩ := h _ this
    cases ht
  | ok a => exact ⟨a, rfl, rfl⟩

theorem stepsOf_object {i : Nat} (hk : kindOf cfg i = .object) (h : NoFail (stepsOf cfg i)) :
    ∃ is fs, interfacesOf cfg i = .ok is ∧ fieldsOf cfg i = .ok fs ∧
      stepsOf cfg i = memberSteps cfg is ++ fieldSteps fs := by
  unfold stepsOf at h ⊢
  simp only [hk] at h ⊢
  cases hi : interfacesOf cfg i with
  | error e =>
    simp only [hi] at h
    obtain ⟨t, ht⟩ := h (.fail e) (by simp)
    cases ht
  | ok is =>
    simp only [hi] at h ⊢
    obtain ⟨fs, hfs, heq⟩ := exceptSteps_noFail h.of_append_right
    exact ⟨is, fs, rfl, hfs, by rw [heq]⟩

theorem stepsOf_interface {i : Nat} (hk : kindOf cfg i = .interface) (h : NoFail (stepsOf cfg i)) :
    ∃ fs, fieldsOf cfg i = .ok fs ∧ stepsOf cfg i = fieldSteps fs := by
  unfold stepsOf at h ⊢
  simp only [hk] at h ⊢
  obtain ⟨fs, hfs, heq⟩ := exceptSteps_noFail h
  exact ⟨fs, hfs, heq⟩

theorem stepsOf_union {i : Nat} (hk : kindOf cfg i = .union) (h : NoFail (stepsOf cfg i)) :
    ∃ ms, membersOf cfg i = .ok ms ∧ stepsOf cfg i = memberSteps cfg ms := by
  unfold stepsOf at h ⊢
  simp only [hk] at h ⊢
  obtain ⟨ms, hms, heq⟩ := exceptSteps_noFail h
  exact ⟨ms, hms, heq⟩

theorem stepsOf_inputObject {i : Nat} (hk : kindOf cfg i = .inputObject) (h : NoFail (stepsOf cfg i)) :
    ∃ fs, inputFieldsOf cfg i = .ok fs ∧ stepsOf cfg i = fs.map (fun f => Step.visit f.type) := by
  unfold stepsOf at h ⊢
  simp only [hk] at h ⊢
  obtain ⟨fs, hfs, heq⟩ := exceptSteps_noFail h
  exact ⟨fs, hfs, heq⟩

/-- every type reference of the dumped type object `i` is the target of a visit step -/
theorem typeRefs_visited {i : Nat} (h : NoFail (stepsOf cfg i)) :
    ∀ t ∈ BuiltSchema.typeRefs (builtType cfg i), Step.visit t ∈ stepsOf cfg i := by
  intro t ht
  unfold BuiltSchema.typeRefs at ht
  rw [List.mem_append] at ht
  cases hk : kindOf cfg i with
  | object =>
    obtain ⟨is, fs, hi, hf, heq⟩ := stepsOf_object cfg hk h
    rcases ht with ht | ht
    · simp only [builtType, hk, hf, orNil] at ht
      simp only [beq_self_eq_true, Bool.true_or, if_true, List.mem_flatMap] at ht
      obtain ⟨f, hfm, htf⟩ := ht
      obtain ⟨h1, h2⟩ := fieldSteps_mem hfm
      rw [heq]
      apply List.mem_append_right
      rcases List.mem_cons.mp htf with rfl | hta
      · exact h1
      · obtain ⟨a, ha, rfl⟩ := List.mem_map.mp hta
        exact h2 a ha
    · simp [builtType, hk] at ht
  | interface =>
    obtain ⟨fs, hf, heq⟩ := stepsOf_interface cfg hk h
    rcases ht with ht | ht
    · simp only [builtType, hk, hf, orNil] at ht
      simp only [beq_self_eq_true, Bool.or_true, if_true, List.mem_flatMap] at ht
      obtain ⟨f, hfm, htf⟩ := ht
      obtain ⟨h1, h2⟩ := fieldSteps_mem hfm
      rw [heq]
      rcases List.mem_cons.mp htf with rfl | hta
      · exact h1
      · obtain ⟨a, ha, rfl⟩ := List.mem_map.mp hta
        exact h2 a ha
    · simp [builtType, hk] at ht
  | inputObject =>
    obtain ⟨fs, hf, heq⟩ := stepsOf_inputObject cfg hk h
    rcases ht with ht | ht
    · simp [builtType, hk] at ht
    · simp only [builtType, hk, hf, orNil, beq_self_eq_true, if_true] at ht
      obtain ⟨a, ha, rfl⟩ := List.mem_map.mp ht
      rw [heq]
      exact List.mem_map.mpr ⟨a, ha, rfl⟩
  | scalar => rcases ht with ht | ht <;> simp [builtType, hk] at ht
  | union => rcases ht with ht | ht <;> simp [builtType, hk] at ht
  | enum => rcases ht with ht | ht <;> simp [builtType, hk] at ht
  | list => rcases ht with ht | ht <;> simp [builtType, hk] at ht
  | nonNull => rcases ht with ht | ht <;> simp [builtType, hk] at ht

/-! what `defineFieldMap` guarantees -/

theorem mem_insertBy {α : Type} (lt : α → α → Bool) (x y : α) (l : List α) :
    y ∈ insertBy lt x l ↔ y = x ∨ y ∈ l := by
  induction l with
  | nil => simp [insertBy]
  | cons z zs ih =>
    simp only [insertBy]
    split
    · simp
    · simp only [List.mem_cons, ih]
      constructor
      · rintro (h | h | h)
        · exact Or.inr (Or.inl h)
        · exact Or.inl h
        · exact Or.inr (Or.inr h)
      · rintro (h | h | h)
        · exact Or.inr (Or.inl h)
        · exact Or.inl h
        · exact Or.inr (Or.inr h)

theorem mem_sortBy {α : Type} (lt : α → α → Bool) (y : α) (l : List α) : y ∈ sortBy lt l ↔ y ∈ l := by
  induction l with
  | nil => simp [sortBy]
  | cons z zs ih => simp only [sortBy, mem_insertBy, ih, List.mem_cons]

theorem isOutputType_named {t : TRef} (h : isOutputType cfg t = true) :
    ∃ j, t.strip = .named j ∧ (kindOf cfg j).isOutput = true := by
  unfold isOutputType leafKind at h
  cases hs : t.strip with
  | named j => exact ⟨j, rfl, by simpa [hs] using h⟩
  | nil => simp [hs] at h
  | nilPtr k => simp [hs] at h
  | badList => simp [hs] at h
  | badNonNull => simp [hs] at h

theorem isInputType_named {t : TRef} (h : isInputType cfg t = true) :
    ∃ j, t.strip = .named j ∧ (kindOf cfg j).isInput = true := by
  unfold isInputType leafKind at h
  cases hs : t.strip with
  | named j => exact ⟨j, rfl, by simpa [hs] using h⟩
  | nil => simp [hs] at h
  | nilPtr k => simp [hs] at h
  | badList => simp [hs] at h
  | badNonNull => simp [hs] at h

theorem defineArgs_spec : ∀ (as : List ArgCfg) (bs : List BArg), defineArgs cfg as = .ok bs →
    ∀ b ∈ bs, isInputType cfg b.type = true := by
  intro as
  induction as with
  | nil => intro bs h b hb; simp [defineArgs] at h; subst h; cases hb
  | cons a rest ih =>
    intro bs h b hb
    simp only [defineArgs] at h
    split at h
    · cases h
    · split at h
      · cases h
      · split at h
        · cases h
        · split at h
          · cases h
          · rename_i hin
            cases hr : defineArgs cfg rest with
            | error e => simp [hr] at h
            | ok bs' =>
              simp only [hr, Except.ok.injEq] at h
              subst h
              cases hb with
              | head => simpa using hin
              | tail _ hb' => exact ih bs' hr b hb'

theorem defineFieldsLoop_spec : ∀ (fs : List FieldCfg) (bs : List BField), defineFieldsLoop cfg fs = .ok bs →
    ∀ b ∈ bs, isOutputType cfg b.type = true ∧ ∀ a ∈ b.args, isInputType cfg a.type = true := by
  intro fs
  induction fs with
  | nil => intro bs h b hb; simp [defineFieldsLoop] at h; subst h; cases hb
  | cons f rest ih =>
    intro bs h b hb
    simp only [defineFieldsLoop] at h
    split at h
    · exact ih bs h b hb
    · split at h
      · cases h
      · split at h
        · cases h
        · split at h
          · cases h
          · rename_i hout
            split at h
            · cases h
            · split at h
              · cases h
              · rename_i as has
                cases hr : defineFieldsLoop cfg rest with
                | error e => simp [hr] at h
                | ok bs' =>
                  simp only [hr, Except.ok.injEq] at h
                  subst h
                  cases hb with
                  | head => exact ⟨by simpa using hout, defineArgs_spec cfg _ as has⟩
                  | tail _ hb' => exact ih bs' hr b hb'

theorem defineFieldsLoop_complete : ∀ (fs : List FieldCfg) (bs : List BField), defineFieldsLoop cfg fs = .ok bs →
    ∀ f ∈ fs, f.present = true → ∃ b ∈ bs, b.type = f.type.build := by
  intro fs
  induction fs with
  | nil => intro bs h f hf; cases hf
  | cons g rest ih =>
    intro bs h f hf hp
    simp only [defineFieldsLoop] at h
    split at h
    · rename_i hnp
      cases hf with
      | head => simp [hp] at hnp
      | tail _ hf' => exact ih bs h f hf' hp
    · split at h
      · cases h
      · split at h
        · cases h
        · split at h
          · cases h
          · split at h
            · cases h
            · split at h
              · cases h
              · rename_i as has
                cases hr : defineFieldsLoop cfg rest with
                | error e => simp [hr] at h
                | ok bs' =>
                  simp only [hr, Except.ok.injEq] at h
                  subst h
                  cases hf with
                  | head => exact ⟨_, List.mem_cons_self .., rfl⟩
                  | tail _ hf' =>
                    obtain ⟨b, hb, hbt⟩ := ih bs' hr f hf' hp
                    exact ⟨b, List.mem_cons_of_mem _ hb, hbt⟩

theorem defineInputLoop_spec : ∀ (fs : List ArgCfg) (bs : List BArg), defineInputLoop cfg fs = .ok bs →
    ∀ b ∈ bs, isInputType cfg b.type = true := by
  intro fs
  induction fs with
  | nil => intro bs h b hb; simp [defineInputLoop] at h; subst h; cases hb
  | cons f rest ih =>
    intro bs h b hb
    simp only [defineInputLoop] at h
    split at h
    · exact ih bs h b hb
    · split at h
      · exact ih bs h b hb
      · split at h
        · cases h
        · split at h
          · cases h
          · rename_i hin
            cases hr : defineInputLoop cfg rest with
            | error e => simp [hr] at h
            | ok bs' =>
              simp only [hr, Except.ok.injEq] at h
              subst h
              cases hb with
              | head => simpa using hin
              | tail _ hb' => exact ih bs' hr b hb'

theorem fieldsOf_spec {i : Nat} {fs : List BField} (h : fieldsOf cfg i = .ok fs) :
    ∀ b ∈ fs, isOutputType cfg b.type = true ∧ ∀ a ∈ b.args, isInputType cfg a.type = true := by
  unfold fieldsOf at h
  simp only at h
  by_cases he : (if formGiven (cfg.get i).form = true then (cfg.get i).fields else []).isEmpty = true
  · rw [if_pos he] at h; cases h
  · rw [if_neg he] at h; exact defineFieldsLoop_spec cfg _ fs h

theorem inputFieldsOf_spec {i : Nat} {fs : List BArg} (h : inputFieldsOf cfg i = .ok fs) :
    ∀ b ∈ fs, isInputType cfg b.type = true := by
  unfold inputFieldsOf at h
  simp only at h
  by_cases he : (if formGiven (cfg.get i).form = true then (cfg.get i).inputFields else []).isEmpty = true
  · rw [if_pos he] at h; cases h
  · rw [if_neg he] at h; exact defineInputLoop_spec cfg _ fs h

/-- the positions of the dumped type `i` hold types of the right kind (D-11c repaired) -/
theorem builtType_positions (i : Nat) :
    (∀ f ∈ (builtType cfg i).fields, isOutputType cfg f.type = true ∧ ∀ a ∈ f.args, isInputType cfg a.type = true) ∧
    (∀ f ∈ (builtType cfg i).inputFields, isInputType cfg f.type = true) := by
  refine ⟨?_, ?_⟩
  · intro f hf
    simp only [builtType] at hf
    split at hf
    · cases hfo : fieldsOf cfg i with
      | error e => simp [hfo, orNil] at hf
      | ok fs => simp only [hfo, orNil] at hf; exact fieldsOf_spec cfg hfo f hf
    · cases hf
  · intro f hf
    simp only [builtType] at hf
    split at hf
    · cases hfo : inputFieldsOf cfg i with
      | error e => simp [hfo, orNil] at hf
      | ok fs => simp only [hfo, orNil] at hf; exact inputFieldsOf_spec cfg hfo f hf
    · cases hf

theorem typeRefs_named {i : Nat} : ∀ t ∈ BuiltSchema.typeRefs (builtType cfg i), ∃ j, t.strip = .named j := by
  intro t ht
  obtain ⟨h1, h2⟩ := builtType_positions cfg i
  unfold BuiltSchema.typeRefs at ht
  rw [List.mem_append] at ht
  rcases ht with ht | ht
  · rw [List.mem_flatMap] at ht
    obtain ⟨f, hf, htf⟩ := ht
    rcases List.mem_cons.mp htf with rfl | hta
    · obtain ⟨j, hj, _⟩ := isOutputType_named cfg (h1 f hf).1
      exact ⟨j, hj⟩
    · obtain ⟨a, ha, rfl⟩ := List.mem_map.mp hta
      obtain ⟨j, hj, _⟩ := isInputType_named cfg ((h1 f hf).2 a ha)
      exact ⟨j, hj⟩
  · obtain ⟨a, ha, rfl⟩ := List.mem_map.mp ht
    obtain ⟨j, hj, _⟩ := isInputType_named cfg (h2 a ha)
    exact ⟨j, hj⟩

/-! facts about `dump` -/

theorem get_out_of_range {i : Nat} (h : ¬ i < cfg.size) : cfg.get i = dfltType := by
  unfold Config.get
  rw [List.getElem?_eq_none (by unfold Config.size at h; omega)]
  rfl

theorem nameOf_lt {i : Nat} (h : nameOf cfg i ≠ "") : i < cfg.size := by
  by_cases hi : i < cfg.size
  · exact hi
  · exfalso
    apply h
    unfold nameOf
    rw [get_out_of_range cfg hi]
    decide

theorem dump_get (s : St) (i : Nat) : (dump cfg s).get i = builtType cfg i := by
  unfold BuiltSchema.get dump
  simp only
  by_cases h : i < cfg.size
  · simp [h]
  · have : ((List.range cfg.size).map (builtType cfg))[i]? = none := by
      apply List.getElem?_eq_none
      simp only [List.length_map, List.length_range]
      omega
    rw [this]
    have hg := get_out_of_range cfg h
    have hk : dfltType.kind = Kind.scalar := rfl
    have hn : (if validName dfltType.name = true then dfltType.name else "") = "" := by decide
    simp only [Option.getD_none, builtType, kindOf, nameOf, hg, hk, hn]
    rfl

theorem dump_typeMap (s : St) : (dump cfg s).typeMap = s.tm.map (fun i => (nameOf cfg i, i)) := rfl

theorem dump_ids (s : St) : (dump cfg s).ids = s.tm := by
  unfold BuiltSchema.ids
  rw [dump_typeMap, List.map_map]
  exact List.map_id _

theorem dump_lookup (s : St) (n : String) : (dump cfg s).lookup n = TM.lookup cfg s.tm n := by
  unfold BuiltSchema.lookup TM.lookup
  rw [dump_typeMap, List.find?_map]
  have : ((fun p : String × Nat => p.1 == n) ∘ fun i => (nameOf cfg i, i)) = (fun i => nameOf cfg i == n) := by
    funext x; rfl
  rw [this]
  cases List.find? (fun i => nameOf cfg i == n) s.tm <;> rfl

theorem dump_inMap {s : St} (hinv : Inv cfg s.tm) {j : Nat} (h : j ∈ s.tm) : (dump cfg s).inMap j = true := by
  unfold BuiltSchema.inMap
  rw [dump_get, dump_lookup]
  have : (builtType cfg j).name = nameOf cfg j := rfl
  rw [this, lookup_of_mem cfg hinv.2 h]
  simp

/-! what Go's typing guarantees -/

theorem get_mem_or (i : Nat) : cfg.get i = dfltType ∨ cfg.get i ∈ cfg.table := by
  unfold Config.get
  cases h : cfg.table[i]? with
  | none => exact Or.inl rfl
  | some t => exact Or.inr (List.mem_of_getElem? h)

theorem builtin_facts : builtinTypes.all (fun t => t.kind.isNamed && t.refs.isEmpty) = true := by decide

theorem table_forall {P : TypeCfg → Prop} (hd : P dfltType) (hb : ∀ t ∈ builtinTypes, P t) (hu : ∀ t ∈ cfg.types, P t)
    (i : Nat) : P (cfg.get i) := by
  rcases get_mem_or cfg i with h | h
  · rw [h]; exact hd
  · unfold Config.table at h
    rw [List.mem_append] at h
    rcases h with h | h
    · exact hb _ h
    · exact hu _ h

theorem wellTyped_named (hwt : cfg.wellTyped = true) (i : Nat) : (kindOf cfg i).isNamed = true := by
  unfold kindOf
  apply table_forall cfg (P := fun t => t.kind.isNamed = true) rfl
  · intro t ht
    have := List.all_eq_true.mp builtin_facts t ht
    simp only [Bool.and_eq_true] at this
    exact this.1
  · intro t ht
    simp only [Config.wellTyped, Bool.and_eq_true, List.all_eq_true] at hwt
    exact (hwt.1.1.1 t ht).1

/-- `Interfaces` of an object are interfaces, `Types` of a union are objects -/
theorem wellTyped_refs (hwt : cfg.wellTyped = true) (i j : Nat) (hj : some j ∈ (cfg.get i).refs) :
    (kindOf cfg i = .object → kindOf cfg j = .interface) ∧ (kindOf cfg i = .union → kindOf cfg j = .object) := by
  revert hj
  unfold kindOf
  apply table_forall cfg (P := fun t => some j ∈ t.refs →
    (t.kind = .object → (cfg.get j).kind = .interface) ∧ (t.kind = .union → (cfg.get j).kind = .object))
  · intro h; simp [dfltType] at h
  · intro t ht h
    have := List.all_eq_true.mp builtin_facts t ht
    simp only [Bool.and_eq_true, List.isEmpty_iff] at this
    rw [this.2] at h
    cases h
  · intro t ht h
    simp only [Config.wellTyped, Bool.and_eq_true, List.all_eq_true] at hwt
    have := (hwt.1.1.1 t ht).2 (some j) h
    simp only [Bool.and_eq_true, Bool.or_eq_true, bne_iff_ne, ne_eq, beq_iff_eq] at this
    refine ⟨fun hk => ?_, fun hk => ?_⟩
    · rcases this.1 with h1 | h1
      · exact absurd hk h1
      · exact h1
    · rcases this.2 with h1 | h1
      · exact absurd hk h1
      · exact h1

theorem ifaceLoop_mem : ∀ (l : List (Option Nat)) (seen : List String) (r : List Nat), ifaceLoop cfg seen l = .ok r →
    ∀ j ∈ r, some j ∈ l := by
  intro l
  induction l with
  | nil => intro seen r h j hj; simp [ifaceLoop] at h; subst h; cases hj
  | cons x rest ih =>
    intro seen r h j hj
    cases x with
    | none => simp [ifaceLoop] at h
    | some v =>
      simp only [ifaceLoop] at h
      split at h
      · cases h
      · cases hr : ifaceLoop cfg (nameOf cfg v :: seen) rest with
        | error e => simp [hr] at h
        | ok l' =>
          simp only [hr, Except.ok.injEq] at h
          subst h
          cases hj with
          | head => exact List.mem_cons_self ..
          | tail _ hj' => exact List.mem_cons_of_mem _ (ih _ l' hr j hj')

theorem interfacesOf_mem {i : Nat} {is : List Nat} (h : interfacesOf cfg i = .ok is) : ∀ j ∈ is, some j ∈ (cfg.get i).refs := by
  unfold interfacesOf at h
  simp only at h
  split at h
  · cases h
  · simp only [Except.ok.injEq] at h; subst h; intro j hj; cases hj
  · exact ifaceLoop_mem cfg _ _ is h

theorem unionLoop_mem {rt : Bool} : ∀ (l : List (Option Nat)) (seen : List String) (ms : List Nat),
    unionLoop cfg rt seen l = .ok ms → ∀ j ∈ ms, some j ∈ l := by
  intro l
  induction l with
  | nil => intro seen ms h j hj; simp [unionLoop] at h; subst h; cases hj
  | cons x rest ih =>
    intro seen ms h j hj
    cases x with
    | none => simp [unionLoop] at h
    | some v =>
      simp only [unionLoop] at h
      split at h
      · cases h
      · split at h
        · cases h
        · cases hr : unionLoop cfg rt (nameOf cfg v :: seen) rest with
          | error e => simp [hr] at h
          | ok l' =>
            simp only [hr, Except.ok.injEq] at h
            subst h
            cases hj with
            | head => exact List.mem_cons_self ..
            | tail _ hj' => exact List.mem_cons_of_mem _ (ih _ l' hr j hj')

theorem membersOf_mem {i : Nat} {ms : List Nat} (h : membersOf cfg i = .ok ms) : ∀ j ∈ ms, some j ∈ (cfg.get i).refs := by
  unfold membersOf at h
  simp only at h
  split at h
  · cases h
  · cases h
  · split at h
    · cases h
    · exact unionLoop_mem cfg _ _ ms h

/-! ## The invariant of a finished schema -/

/-- what `NewSchema` / `AppendType` establish about the type map they return -/
structure Good (tm : TM) : Prop where
  inv : Inv cfg tm
  closed : ∀ i ∈ tm, ClosedE cfg tm i
  query : ∃ q, cfg.query = some q ∧ q ∈ tm
  mutation : ∀ q, cfg.mutation = some q → q ∈ tm
  subscription : ∀ q, cfg.subscription = some q → q ∈ tm
  schemaType : idSchema ∈ tm
  dirArgs : ∀ t ∈ dirArgTypes cfg, isInputType cfg t = true ∧ Resolved cfg tm t
  asserted : assertAll cfg tm = none

variable {cfg}

/-- every type reference of a registered type resolves to a registered type -/
theorem Good.typeRef_resolved {tm : TM} (g : Good cfg tm) {i : Nat} (hi : i ∈ tm) {t : TRef}
    (ht : t ∈ BuiltSchema.typeRefs (builtType cfg i)) : Resolved cfg tm t := by
  have hc := g.closed i hi
  have hv := typeRefs_visited cfg hc.noFail t ht
  obtain ⟨t', ht', hvis⟩ := hc _ hv
  cases ht'
  rcases hvis with h | h
  · obtain ⟨j, hj⟩ := typeRefs_named cfg t ht
    rw [hj] at h; cases h
  · exact h

theorem Good.iface_mem {tm : TM} (g : Good cfg tm) {o : Nat} (ho : o ∈ tm) (hk : kindOf cfg o = .object) :
    ∃ is, interfacesOf cfg o = .ok is ∧ ∀ j ∈ is, j ∈ tm ∧ nameOf cfg j ≠ "" := by
  have hc := g.closed o ho
  obtain ⟨is, fs, hi, hf, heq⟩ := stepsOf_object cfg hk hc.noFail
  refine ⟨is, hi, ?_⟩
  intro j hj
  have hnf : NoFail (memberSteps cfg is) := by
    have := hc.noFail; rw [heq] at this; exact this.of_append_left
  obtain ⟨hce, hv⟩ := memberSteps_noFail cfg hnf j hj
  have hv' : Step.visit (.ref j) ∈ stepsOf cfg o := by rw [heq]; exact List.mem_append_left _ hv
  obtain ⟨t', ht', hvis⟩ := hc _ hv'
  cases ht'
  rcases hvis with h | h
  · simp [TRef.strip] at h
  · obtain ⟨j', hj', hn, hm⟩ := h
    simp only [TRef.strip, Leaf.named.injEq] at hj'
    subst hj'
    exact ⟨hm, hn⟩

theorem Good.member_mem {tm : TM} (g : Good cfg tm) {u : Nat} (hu : u ∈ tm) (hk : kindOf cfg u = .union) :
    ∃ ms, membersOf cfg u = .ok ms ∧ ∀ j ∈ ms, j ∈ tm ∧ nameOf cfg j ≠ "" := by
  have hc := g.closed u hu
  obtain ⟨ms, hm, heq⟩ := stepsOf_union cfg hk hc.noFail
  refine ⟨ms, hm, ?_⟩
  intro j hj
  have hnf : NoFail (memberSteps cfg ms) := by
    have := hc.noFail; rw [heq] at this; exact this
  obtain ⟨hce, hv⟩ := memberSteps_noFail cfg hnf j hj
  have hv' : Step.visit (.ref j) ∈ stepsOf cfg u := by rw [heq]; exact hv
  obtain ⟨t', ht', hvis⟩ := hc _ hv'
  cases ht'
  rcases hvis with h | h
  · simp [TRef.strip] at h
  · obtain ⟨j', hj', hn, hm⟩ := h
    simp only [TRef.strip, Leaf.named.injEq] at hj'
    subst hj'
    exact ⟨hm, hn⟩

/-! ## §D1  unique legal names -/

theorem keysDistinct_of_pairwise : ∀ (tm : TM), tm.Pairwise (fun a b => nameOf cfg a ≠ nameOf cfg b) →
    BuiltSchema.keysDistinct (tm.map (fun i => (nameOf cfg i, i))) = true := by
  intro tm
  induction tm with
  | nil => intro _; rfl
  | cons x rest ih =>
    intro h
    rw [List.pairwise_cons] at h
    simp only [List.map_cons, BuiltSchema.keysDistinct, Bool.and_eq_true, Bool.not_eq_true', List.any_eq_false]
    refine ⟨?_, ih h.2⟩
    intro q hq
    obtain ⟨y, hy, rfl⟩ := List.mem_map.mp hq
    have := h.1 y hy
    simpa using fun heq => this heq.symm

theorem Good.namesOk {tm : TM} (g : Good cfg tm) (hwt : cfg.wellTyped = true) : (dump cfg ⟨tm⟩).namesOk = true := by
  unfold BuiltSchema.namesOk
  rw [Bool.and_eq_true]
  refine ⟨?_, ?_⟩
  · rw [List.all_eq_true]
    intro p hp
    rw [dump_typeMap] at hp
    obtain ⟨i, hi, rfl⟩ := List.mem_map.mp hp
    have hn := ctorErr_none_name cfg (g.inv.1 i hi)
    obtain ⟨hv, hname⟩ := nameOf_eq_of_ne cfg hn
    simp only [dump_get, Bool.and_eq_true, beq_iff_eq]
    refine ⟨⟨?_, rfl⟩, wellTyped_named cfg hwt i⟩
    rw [hname]; exact hv
  · rw [dump_typeMap]
    exact keysDistinct_of_pairwise tm g.inv.2

/-! ## §D2  closed under reference -/

theorem Good.closedOk {tm : TM} (g : Good cfg tm) : (dump cfg ⟨tm⟩).closed = true := by
  unfold BuiltSchema.closed
  simp only [Bool.and_eq_true]
  refine ⟨⟨⟨⟨?_, ?_⟩, ?_⟩, ?_⟩, ?_⟩
  · rw [List.all_eq_true, dump_ids]
    intro i hi
    simp only [dump_get, Bool.and_eq_true, List.all_eq_true]
    refine ⟨⟨?_, ?_⟩, ?_⟩
    · intro t ht
      obtain ⟨j, hj, _, hm⟩ := g.typeRef_resolved hi ht
      unfold BuiltSchema.refOk
      rw [hj]
      exact dump_inMap cfg (s := ⟨tm⟩) g.inv hm
    · intro j hj
      simp only [builtType] at hj
      split at hj
      · rename_i hk
        obtain ⟨is, his, hall⟩ := g.iface_mem hi (by simpa using hk)
        simp only [his, orNil] at hj
        exact dump_inMap cfg (s := ⟨tm⟩) g.inv (hall j hj).1
      · cases hj
    · intro j hj
      simp only [builtType] at hj
      split at hj
      · rename_i hk
        obtain ⟨ms, hms, hall⟩ := g.member_mem hi (by simpa using hk)
        simp only [hms, orNil] at hj
        exact dump_inMap cfg (s := ⟨tm⟩) g.inv (hall j hj).1
      · cases hj
  · obtain ⟨q, hq, hm⟩ := g.query
    have : (dump cfg ⟨tm⟩).query = some q := hq
    rw [this]
    exact dump_inMap cfg (s := ⟨tm⟩) g.inv hm
  · cases hq : cfg.mutation with
    | none => have : (dump cfg ⟨tm⟩).mutation = none := hq
              rw [this]
    | some q => have : (dump cfg ⟨tm⟩).mutation = some q := hq
                rw [this]
                exact dump_inMap cfg (s := ⟨tm⟩) g.inv (g.mutation q hq)
  · cases hq : cfg.subscription with
    | none => have : (dump cfg ⟨tm⟩).subscription = none := hq
              rw [this]
    | some q => have : (dump cfg ⟨tm⟩).subscription = some q := hq
                rw [this]
                exact dump_inMap cfg (s := ⟨tm⟩) g.inv (g.subscription q hq)
  · rw [List.all_eq_true]
    intro t ht
    have ht' : t ∈ dirArgTypes cfg := ht
    obtain ⟨_, j, hj, _, hm⟩ := g.dirArgs t ht'
    unfold BuiltSchema.refOk
    rw [hj]
    exact dump_inMap cfg (s := ⟨tm⟩) g.inv hm

/-! ## §D3  the built-in introspection types are registered -/

theorem get_builtin (cfg : Config) {i : Nat} (h : i < nBuiltin) : cfg.get i = (builtinTypes[i]?).getD dfltType := by
  unfold Config.get Config.table
  rw [List.getElem?_append_left (by have : builtinTypes.length = 13 := rfl; unfold nBuiltin at h; omega)]

def builtinEdge (i j : Nat) : Bool :=
  let t := (builtinTypes[i]?).getD dfltType
  t.kind == .object && formGiven t.form && t.fields.any (fun f => f.present && f.type.build.strip == .named j)

def builtinName (k : Nat) : String :=
  let t := (builtinTypes[k]?).getD dfltType
  if validName t.name then t.name else ""

theorem nameOf_builtin (cfg : Config) {k : Nat} (h : k < nBuiltin) : nameOf cfg k = builtinName k := by
  unfold nameOf builtinName
  rw [get_builtin cfg h]

theorem fieldsOf_complete {i : Nat} {fs : List BField} (h : fieldsOf cfg i = .ok fs)
    (hform : formGiven (cfg.get i).form = true) :
    ∀ f ∈ (cfg.get i).fields, f.present = true → ∃ b ∈ fs, b.type = f.type.build := by
  unfold fieldsOf at h
  simp only [hform, if_true] at h
  by_cases he : (cfg.get i).fields.isEmpty = true
  · rw [if_pos he] at h; cases h
  · rw [if_neg he] at h; exact defineFieldsLoop_complete cfg _ fs h

theorem Good.builtin_step {tm : TM} (g : Good cfg tm) {i j : Nat} (he : builtinEdge i j = true) (hlt : i < nBuiltin)
    (hi : i ∈ tm) : j ∈ tm := by
  unfold builtinEdge at he
  simp only [Bool.and_eq_true, beq_iff_eq, List.any_eq_true] at he
  obtain ⟨⟨hk, hform⟩, f, hf, hp, hs⟩ := he
  rw [← get_builtin cfg hlt] at hk hform hf
  have hc := g.closed i hi
  obtain ⟨is, fs, _, hfs, heq⟩ := stepsOf_object cfg hk hc.noFail
  obtain ⟨b, hb, hbt⟩ := fieldsOf_complete hfs hform f hf hp
  have hv : Step.visit b.type ∈ stepsOf cfg i := by
    rw [heq]; exact List.mem_append_right _ (fieldSteps_mem hb).1
  obtain ⟨t', ht', hvis⟩ := hc _ hv
  cases ht'
  rw [hbt] at hvis
  rcases hvis with h | h
  · rw [hs] at h; cases h
  · obtain ⟨j', hj', _, hm⟩ := h
    rw [hs] at hj'
    cases hj'
    exact hm

theorem Good.hasBuiltins {tm : TM} (g : Good cfg tm) : (dump cfg ⟨tm⟩).hasBuiltins = true := by
  have look : ∀ k n, k ∈ tm → k < nBuiltin → builtinName k = n → ((dump cfg ⟨tm⟩).lookup n).isSome = true := by
    intro k n hk hlt hn
    rw [dump_lookup, ← hn, ← nameOf_builtin cfg hlt, lookup_of_mem cfg g.inv.2 hk]
    rfl
  have h5 : idSchema ∈ tm := g.schemaType
  have h6 : idType ∈ tm := g.builtin_step (i := idSchema) (by decide) (by decide) h5
  have h11 : idDirective ∈ tm := g.builtin_step (i := idSchema) (by decide) (by decide) h5
  have h7 : idTypeKind ∈ tm := g.builtin_step (i := idType) (by decide) (by decide) h6
  have h0 : idString ∈ tm := g.builtin_step (i := idType) (by decide) (by decide) h6
  have h8 : idField ∈ tm := g.builtin_step (i := idType) (by decide) (by decide) h6
  have h9 : idInputValue ∈ tm := g.builtin_step (i := idType) (by decide) (by decide) h6
  have h10 : idEnumValue ∈ tm := g.builtin_step (i := idType) (by decide) (by decide) h6
  have h12 : idDirectiveLocation ∈ tm := g.builtin_step (i := idDirective) (by decide) (by decide) h11
  have h3 : idBoolean ∈ tm := g.builtin_step (i := idField) (by decide) (by decide) h8
  unfold BuiltSchema.hasBuiltins
  simp only [introspectionNames, List.all_cons, List.all_nil, Bool.and_true, Bool.and_eq_true]
  exact ⟨look _ _ h5 (by decide) (by decide), look _ _ h6 (by decide) (by decide), look _ _ h7 (by decide) (by decide),
    look _ _ h8 (by decide) (by decide), look _ _ h9 (by decide) (by decide), look _ _ h10 (by decide) (by decide),
    look _ _ h11 (by decide) (by decide), look _ _ h12 (by decide) (by decide), look _ _ h0 (by decide) (by decide),
    look _ _ h3 (by decide) (by decide)⟩

/-! ## §D4  output / input position discipline -/

theorem dump_leafKind (s : St) (t : TRef) : (dump cfg s).leafKindB t = leafKind cfg t := by
  unfold BuiltSchema.leafKindB leafKind
  cases t.strip <;> simp [dump_get, builtType]

theorem dump_outputRef (s : St) (t : TRef) : (dump cfg s).outputRef t = isOutputType cfg t := by
  unfold BuiltSchema.outputRef isOutputType; rw [dump_leafKind]

theorem dump_inputRef (s : St) (t : TRef) : (dump cfg s).inputRef t = isInputType cfg t := by
  unfold BuiltSchema.inputRef isInputType; rw [dump_leafKind]

theorem builtType_interfaces_kind (hwt : cfg.wellTyped = true) (i : Nat) :
    ∀ j ∈ (builtType cfg i).interfaces, kindOf cfg j = .interface := by
  intro j hj
  simp only [builtType] at hj
  split at hj
  · rename_i hk
    cases hi : interfacesOf cfg i with
    | error e => simp [hi, orNil] at hj
    | ok is =>
      simp only [hi, orNil] at hj
      exact (wellTyped_refs cfg hwt i j (interfacesOf_mem cfg hi j hj)).1 (by simpa using hk)
  · cases hj

theorem builtType_members_kind (hwt : cfg.wellTyped = true) (i : Nat) :
    ∀ j ∈ (builtType cfg i).members, kindOf cfg j = .object := by
  intro j hj
  simp only [builtType] at hj
  split at hj
  · rename_i hk
    cases hi : membersOf cfg i with
    | error e => simp [hi, orNil] at hj
    | ok ms =>
      simp only [hi, orNil] at hj
      exact (wellTyped_refs cfg hwt i j (membersOf_mem cfg hi j hj)).2 (by simpa using hk)
  · cases hj

theorem Good.positionsOk {tm : TM} (g : Good cfg tm) (hwt : cfg.wellTyped = true) :
    (dump cfg ⟨tm⟩).positionsOk = true := by
  unfold BuiltSchema.positionsOk
  rw [Bool.and_eq_true, List.all_eq_true, List.all_eq_true]
  refine ⟨?_, ?_⟩
  · intro i _
    obtain ⟨h1, h2⟩ := builtType_positions cfg i
    simp only [dump_get, Bool.and_eq_true, List.all_eq_true, dump_outputRef, dump_inputRef, beq_iff_eq]
    refine ⟨⟨⟨?_, h2⟩, ?_⟩, ?_⟩
    · intro f hf
      exact ⟨(h1 f hf).1, (h1 f hf).2⟩
    · intro j hj
      exact builtType_interfaces_kind hwt i j hj
    · intro j hj
      exact builtType_members_kind hwt i j hj
  · intro t ht
    have ht' : t ∈ dirArgTypes cfg := ht
    rw [dump_inputRef]
    exact (g.dirArgs t ht').1

/-! ## possible types: the tables agree with the declarations -/

theorem mem_objects {tm : TM} {o : Nat} : o ∈ TM.objects cfg tm ↔ o ∈ tm ∧ kindOf cfg o = .object := by
  unfold TM.objects; simp [List.mem_filter]

theorem mem_abstracts {tm : TM} {a : Nat} : a ∈ TM.abstracts cfg tm ↔ a ∈ tm ∧ (kindOf cfg a).isAbstract = true := by
  unfold TM.abstracts; simp [List.mem_filter]

theorem mem_implsOf {tm : TM} {n : String} {p : Nat} :
    p ∈ implsOf cfg tm n ↔ (p ∈ tm ∧ kindOf cfg p = .object) ∧ ∃ j ∈ orNil (interfacesOf cfg p), nameOf cfg j = n := by
  unfold implsOf TM.sortedObjects
  simp only [List.mem_flatMap, List.mem_map, List.mem_filter, mem_sortBy, mem_objects, beq_iff_eq]
  constructor
  · rintro ⟨o, ho, j, ⟨hj, hn⟩, rfl⟩
    exact ⟨ho, j, hj, hn⟩
  · rintro ⟨ho, j, hj, hn⟩
    exact ⟨p, ho, j, ⟨hj, hn⟩, rfl⟩

/-- the implementers recorded for a registered interface are exactly the registered objects declaring it -/
theorem Good.mem_impls {tm : TM} (g : Good cfg tm) {a p : Nat} (ha : a ∈ tm) :
    p ∈ implsOf cfg tm (nameOf cfg a) ↔ (p ∈ tm ∧ kindOf cfg p = .object) ∧ a ∈ orNil (interfacesOf cfg p) := by
  rw [mem_implsOf]
  constructor
  · rintro ⟨⟨hp, hk⟩, j, hj, hn⟩
    refine ⟨⟨hp, hk⟩, ?_⟩
    obtain ⟨is, his, hall⟩ := g.iface_mem hp hk
    rw [his] at hj ⊢
    simp only [orNil] at hj ⊢
    have := inv_name_inj cfg g.inv (hall j hj).1 ha hn
    rw [← this]; exact hj
  · rintro ⟨hp, hj⟩
    exact ⟨hp, a, hj, rfl⟩

/-- declared subtyping, read off the configuration -/
def declaredB (cfg : Config) (a o : Nat) : Bool :=
  match kindOf cfg a with
  | .interface => (orNil (interfacesOf cfg o)).contains a
  | .union => (orNil (membersOf cfg a)).contains o
  | _ => false

theorem dump_declared (s : St) {a o : Nat} (hko : kindOf cfg o = .object) :
    (dump cfg s).declaredPossible a o = declaredB cfg a o := by
  unfold BuiltSchema.declaredPossible declaredB
  simp only [dump_get]
  have hk : (builtType cfg a).kind = kindOf cfg a := rfl
  rw [hk]
  cases hka : kindOf cfg a <;> simp [builtType, hko, hka]

theorem Good.possibleTypes_mem {tm : TM} (g : Good cfg tm) (hwt : cfg.wellTyped = true) {a p : Nat} (ha : a ∈ tm)
    (hp : p ∈ possibleTypesOf cfg tm a) :
    p ∈ tm ∧ kindOf cfg p = .object ∧ declaredB cfg a p = true := by
  unfold possibleTypesOf at hp
  unfold declaredB
  cases hka : kindOf cfg a with
  | interface =>
    simp only [hka] at hp ⊢
    obtain ⟨⟨h1, h2⟩, h3⟩ := (g.mem_impls ha).mp hp
    exact ⟨h1, h2, by simpa using h3⟩
  | union =>
    simp only [hka] at hp ⊢
    obtain ⟨ms, hms, hall⟩ := g.member_mem ha hka
    rw [hms] at hp ⊢
    simp only [orNil] at hp ⊢
    exact ⟨(hall p hp).1, (wellTyped_refs cfg hwt a p (membersOf_mem cfg hms p hp)).2 hka, by simpa using hp⟩
  | scalar => simp [hka] at hp
  | object => simp [hka] at hp
  | enum => simp [hka] at hp
  | inputObject => simp [hka] at hp
  | list => simp [hka] at hp
  | nonNull => simp [hka] at hp

/-- `PossibleTypes(a)` holds a registered object iff the object declares `a` / is listed by the union `a` -/
theorem Good.possibleTypes_iff {tm : TM} (g : Good cfg tm) {a o : Nat} (ha : a ∈ tm) (ho : o ∈ tm)
    (hko : kindOf cfg o = .object) : (possibleTypesOf cfg tm a).contains o = declaredB cfg a o := by
  unfold possibleTypesOf declaredB
  cases hka : kindOf cfg a with
  | interface =>
    simp only
    rw [Bool.eq_iff_iff]
    simp only [List.contains_iff_mem]
    rw [g.mem_impls ha]
    exact ⟨fun h => h.2, fun h => ⟨⟨ho, hko⟩, h⟩⟩
  | union => rfl
  | scalar => simp
  | object => simp
  | enum => simp
  | inputObject => simp
  | list => simp
  | nonNull => simp

/-- the by-name scan used while the schema is being built agrees with the declarations -/
theorem Good.scan_agree {tm : TM} (g : Good cfg tm) (hwt : cfg.wellTyped = true) {a o : Nat} (ha : a ∈ tm) (ho : o ∈ tm)
    (hko : kindOf cfg o = .object) : isPossibleScan cfg tm a o = declaredB cfg a o := by
  rw [← g.possibleTypes_iff ha ho hko]
  unfold isPossibleScan
  rw [Bool.eq_iff_iff]
  simp only [List.any_eq_true, beq_iff_eq, List.contains_iff_mem]
  constructor
  · rintro ⟨p, hp, hn⟩
    obtain ⟨hpm, _, _⟩ := g.possibleTypes_mem hwt ha hp
    have := inv_name_inj cfg g.inv hpm ho hn
    rw [← this]; exact hp
  · intro h
    exact ⟨o, h, rfl⟩

theorem find_map_key {α β : Type} [BEq α] [LawfulBEq α] (f : α → β) (l : List α) (a : α) (ha : a ∈ l) :
    (l.map (fun x => (x, f x))).find? (fun p => p.1 == a) = some (a, f a) := by
  induction l with
  | nil => cases ha
  | cons x xs ih =>
    simp only [List.map_cons, List.find?_cons]
    by_cases hx : x = a
    · subst hx; simp
    · have : (x == a) = false := by simpa using hx
      simp only [this]
      cases ha with
      | head => exact absurd rfl hx
      | tail _ h => exact ih h

theorem dump_possibleOf {tm : TM} {a : Nat} (ha : a ∈ TM.abstracts cfg tm) :
    (dump cfg ⟨tm⟩).possibleOf a = possibleTypesOf cfg tm a := by
  unfold BuiltSchema.possibleOf
  have : (dump cfg ⟨tm⟩).possibleTypes = (TM.abstracts cfg tm).map (fun a => (a, possibleTypesOf cfg tm a)) := rfl
  rw [this, find_map_key _ _ a ha]
  rfl

/-- the finished table `possibleTypeMap` answers like the scan -/
theorem Good.final_eq_scan {tm : TM} (g : Good cfg tm) {a o : Nat} (ha : a ∈ TM.abstracts cfg tm) :
    isPossibleFinal cfg tm a o = isPossibleScan cfg tm a o := by
  unfold isPossibleFinal possibleMap
  have hfind : ((TM.abstracts cfg tm).map (fun a => (nameOf cfg a, (possibleTypesOf cfg tm a).map (nameOf cfg)))).find?
      (fun p => p.1 == nameOf cfg a) = some (nameOf cfg a, (possibleTypesOf cfg tm a).map (nameOf cfg)) := by
    have hsub : ∀ x ∈ TM.abstracts cfg tm, x ∈ tm := fun x hx => ((mem_abstracts (cfg := cfg)).mp hx).1
    have ham := hsub a ha
    generalize TM.abstracts cfg tm = l at ha hsub
    induction l with
    | nil => cases ha
    | cons x xs ih =>
      simp only [List.map_cons, List.find?_cons]
      by_cases hx : nameOf cfg x = nameOf cfg a
      · have := inv_name_inj cfg g.inv (hsub x (List.mem_cons_self ..)) ham hx
        subst this
        simp
      · have : (nameOf cfg x == nameOf cfg a) = false := by simpa using hx
        simp only [this]
        cases ha with
        | head => exact absurd rfl hx
        | tail _ h => exact ih h (fun y hy => hsub y (List.mem_cons_of_mem _ hy))
  rw [hfind]
  unfold isPossibleScan
  rw [Bool.eq_iff_iff]
  simp only [List.contains_iff_mem, List.mem_map, List.any_eq_true, beq_iff_eq]

/-! ## §D5  interface conformance -/

theorem strip_nonNull_named {a : TRef} {x : Nat} (h : a.strip = .named x) : (TRef.nonNull a).strip = .named x := by
  simp [TRef.strip, h]
theorem strip_list_named {a : TRef} {x : Nat} (h : a.strip = .named x) : (TRef.list a).strip = .named x := by
  simp [TRef.strip, h]

/-- `isTypeSubTypeOf` consults `IsPossibleType` only for (abstract, object) pairs of named leaves -/
theorem isSubType_congr (k : Nat → Kind) (p1 p2 : Nat → Nat → Bool) : ∀ (t1 t2 : TRef),
    (∀ a o, t1.strip = .named o → t2.strip = .named a → (k a).isAbstract = true → k o = .object → p1 a o = p2 a o) →
    isSubType k p1 t1 t2 = isSubType k p2 t1 t2 := by
  intro t1
  induction t1 with
  | nil => intro t2 _; cases t2 <;> simp [isSubType]
  | nilPtr _ => intro t2 _; cases t2 <;> simp [isSubType]
  | ref i =>
    intro t2 H
    cases t2 with
    | ref j =>
      simp only [isSubType]
      by_cases hc : (k j).isAbstract = true ∧ k i = .object
      · rw [H j i rfl rfl hc.1 hc.2]
      · by_cases h1 : (k j).isAbstract = true
        · have : (k i == Kind.object) = false := by
            simp only [beq_eq_false_iff_ne, ne_eq]; exact fun h => hc ⟨h1, h⟩
          simp [this]
        · simp [h1]
    | nil => simp [isSubType]
    | nilPtr _ => simp [isSubType]
    | list _ => simp [isSubType]
    | nonNull _ => simp [isSubType]
  | list a ih =>
    intro t2 H
    cases t2 with
    | list b =>
      simp only [isSubType]
      exact ih b (fun x o ho hx => H x o (strip_list_named ho) (strip_list_named hx))
    | nil => simp [isSubType]
    | nilPtr _ => simp [isSubType]
    | ref _ => simp [isSubType]
    | nonNull _ => simp [isSubType]
  | nonNull a ih =>
    intro t2 H
    cases t2 with
    | nonNull b =>
      simp only [isSubType]
      exact ih b (fun x o ho hx => H x o (strip_nonNull_named ho) (strip_nonNull_named hx))
    | nil => simp only [isSubType]; exact ih _ (fun x o ho hx => H x o (strip_nonNull_named ho) hx)
    | nilPtr _ => simp only [isSubType]; exact ih _ (fun x o ho hx => H x o (strip_nonNull_named ho) hx)
    | ref _ => simp only [isSubType]; exact ih _ (fun x o ho hx => H x o (strip_nonNull_named ho) hx)
    | list _ => simp only [isSubType]; exact ih _ (fun x o ho hx => H x o (strip_nonNull_named ho) hx)

theorem findSome?_congr {α β : Type} {f g : α → Option β} : ∀ (l : List α), (∀ x ∈ l, f x = g x) →
    l.findSome? f = l.findSome? g := by
  intro l
  induction l with
  | nil => intro _; rfl
  | cons x xs ih =>
    intro h
    simp only [List.findSome?_cons, h x (List.mem_cons_self ..)]
    cases g x with
    | some _ => rfl
    | none => exact ih (fun y hy => h y (List.mem_cons_of_mem _ hy))

theorem field_type_mem_typeRefs {t : BType} {f : BField} (hf : f ∈ t.fields) : f.type ∈ BuiltSchema.typeRefs t := by
  unfold BuiltSchema.typeRefs
  apply List.mem_append_left
  rw [List.mem_flatMap]
  exact ⟨f, hf, List.mem_cons_self ..⟩

theorem Good.conformanceOk {tm : TM} (g : Good cfg tm) (hwt : cfg.wellTyped = true) :
    (dump cfg ⟨tm⟩).conformanceOk = true := by
  unfold BuiltSchema.conformanceOk
  rw [List.all_eq_true]
  intro o ho
  unfold BuiltSchema.objectIds at ho
  rw [List.mem_filter, dump_ids, dump_get] at ho
  obtain ⟨hom, hko⟩ := ho
  have hko' : kindOf cfg o = .object := by simpa [builtType] using hko
  rw [List.all_eq_true]
  intro i hi
  rw [dump_get] at hi
  have hkfun : (fun j => ((dump cfg ⟨tm⟩).get j).kind) = kindOf cfg := by
    funext j; rw [dump_get]; rfl
  rw [hkfun, dump_get, dump_get]
  -- what the model asserted
  have hass := g.asserted
  unfold assertAll at hass
  rw [List.findSome?_eq_none_iff] at hass
  have h1 := hass o ((mem_objects (cfg := cfg)).mpr ⟨hom, hko'⟩)
  rw [List.findSome?_eq_none_iff] at h1
  have hi' : i ∈ orNil (interfacesOf cfg o) := by simpa [builtType, hko'] using hi
  have h2 := h1 i hi'
  obtain ⟨is, his, hall⟩ := g.iface_mem hom hko'
  have him : i ∈ tm := by rw [his] at hi'; exact (hall i hi').1
  -- transfer to the declared relation
  have : conformsTo (kindOf cfg) (dump cfg ⟨tm⟩).declaredPossible (builtType cfg o) (builtType cfg i) =
      conformsTo (kindOf cfg) (isPossibleScan cfg tm) (builtType cfg o) (builtType cfg i) := by
    unfold conformsTo
    apply findSome?_congr
    intro f hf
    unfold fieldConforms
    cases hfind : (builtType cfg o).fields.find? (fun g => g.name == f.name) with
    | none => rfl
    | some ofield =>
      have hofm : ofield ∈ (builtType cfg o).fields := List.mem_of_find?_eq_some hfind
      have hsub : isSubType (kindOf cfg) (dump cfg ⟨tm⟩).declaredPossible ofield.type f.type =
          isSubType (kindOf cfg) (isPossibleScan cfg tm) ofield.type f.type := by
        apply isSubType_congr
        intro a x hx ha hka hkx
        obtain ⟨x', hx', _, hxm⟩ := g.typeRef_resolved hom (field_type_mem_typeRefs hofm)
        obtain ⟨a', ha', _, ham⟩ := g.typeRef_resolved him (field_type_mem_typeRefs hf)
        rw [hx] at hx'; cases hx'
        rw [ha] at ha'; cases ha'
        rw [dump_declared _ hkx, g.scan_agree hwt ham hxm hkx]
      simp only [hsub]
  rw [this, h2]
  rfl

/-! ## §D6  possible-type coherence -/

theorem dump_objectIds (tm : TM) : (dump cfg ⟨tm⟩).objectIds = TM.objects cfg tm := by
  unfold BuiltSchema.objectIds TM.objects
  rw [dump_ids]
  apply List.filter_congr
  intro i _
  rw [dump_get]; rfl

theorem dump_abstractIds (tm : TM) : (dump cfg ⟨tm⟩).abstractIds = TM.abstracts cfg tm := by
  unfold BuiltSchema.abstractIds TM.abstracts
  rw [dump_ids]
  apply List.filter_congr
  intro i _
  rw [dump_get]; rfl

theorem dump_isPossible_mem {tm : TM} {a o : Nat} (ha : a ∈ TM.abstracts cfg tm) (ho : o ∈ TM.objects cfg tm) :
    (dump cfg ⟨tm⟩).isPossible.contains (a, o) = isPossibleFinal cfg tm a o := by
  have : (dump cfg ⟨tm⟩).isPossible = (TM.abstracts cfg tm).flatMap (fun a =>
      ((TM.objects cfg tm).filter (isPossibleFinal cfg tm a)).map (fun o => (a, o))) := rfl
  rw [this, Bool.eq_iff_iff]
  simp only [List.contains_iff_mem, List.mem_flatMap, List.mem_map, List.mem_filter, Prod.mk.injEq]
  constructor
  · rintro ⟨a', _, o', ⟨_, hf⟩, rfl, rfl⟩
    exact hf
  · intro h
    exact ⟨a, ha, o, ⟨ho, h⟩, rfl, rfl⟩

theorem Good.possibleOk {tm : TM} (g : Good cfg tm) (hwt : cfg.wellTyped = true) : (dump cfg ⟨tm⟩).possibleOk = true := by
  unfold BuiltSchema.possibleOk
  rw [List.all_eq_true]
  intro a ha
  rw [dump_abstractIds] at ha
  have ham : a ∈ tm := ((mem_abstracts (cfg := cfg)).mp ha).1
  rw [Bool.and_eq_true, List.all_eq_true, List.all_eq_true]
  refine ⟨?_, ?_⟩
  · intro o ho
    rw [dump_objectIds] at ho
    obtain ⟨hom, hko⟩ := (mem_objects (cfg := cfg)).mp ho
    rw [dump_possibleOf ha, dump_declared _ hko, g.possibleTypes_iff ham hom hko, dump_isPossible_mem ha ho,
      g.final_eq_scan ha, g.scan_agree hwt ham hom hko]
    simp
  · intro p hp
    rw [dump_possibleOf ha] at hp
    obtain ⟨_, hkp, hd⟩ := g.possibleTypes_mem hwt ham hp
    rw [dump_declared _ hkp]
    exact hd

/-! ## NewSchema / AppendType establish the invariant -/

structure RootsSpec (tm : TM) (roots : List TRef) (tm' : TM) : Prop where
  ext : ∃ l, tm' = tm ++ l
  inv : Inv cfg tm'
  closed : ∀ i ∈ tm', ClosedE cfg tm' i
  visited : ∀ t ∈ roots, Visited cfg tm' t
  reach : ∀ e ∈ tm', e ∉ tm → ∃ t ∈ roots, ∃ r, t.strip = .named r ∧ Reach cfg r e
  topOk : ∀ t ∈ roots, t = .nil ∨ topErr cfg t = none

theorem reduceRoots_spec : ∀ (roots : List TRef) (tm tm' : TM), reduceRoots cfg tm roots = .ok tm' → Inv cfg tm →
    (∀ i ∈ tm, ClosedE cfg tm i) → RootsSpec (cfg := cfg) tm roots tm' := by
  intro roots
  induction roots with
  | nil =>
    intro tm tm' h hinv hcl
    simp only [reduceRoots, Except.ok.injEq] at h
    subst h
    exact ⟨⟨[], by simp⟩, hinv, hcl, fun t ht => (by cases ht), fun e he hne => absurd he hne, fun t ht => (by cases ht)⟩
  | cons t rest ih =>
    intro tm tm' h hinv hcl
    simp only [reduceRoots] at h
    by_cases hnil : t = .nil
    · subst hnil
      simp only [beq_self_eq_true, if_true] at h
      have sp := ih tm tm' h hinv hcl
      refine ⟨sp.ext, sp.inv, sp.closed, ?_, ?_, ?_⟩
      · intro t' ht'
        cases ht' with
        | head => exact Or.inl rfl
        | tail _ h' => exact sp.visited t' h'
      · intro e he hne
        obtain ⟨t', ht', r⟩ := sp.reach e he hne
        exact ⟨t', List.mem_cons_of_mem _ ht', r⟩
      · intro t' ht'
        cases ht' with
        | head => exact Or.inl rfl
        | tail _ h' => exact sp.topOk t' h'
    · have : (t == TRef.nil) = false := by simpa using hnil
      simp only [this, Bool.false_eq_true, if_false] at h
      cases hte : topErr cfg t with
      | some e => simp [hte] at h
      | none =>
        simp only [hte] at h
        cases hr : reduce cfg (cfg.size + 1) tm t with
        | error e => simp [hr] at h
        | ok tm1 =>
          simp only [hr] at h
          have s1 := reduce_spec cfg _ tm t tm1 hr hinv
          obtain ⟨l1, hl1⟩ := s1.ext
          have sub0 : ∀ e ∈ tm, e ∈ tm1 := by intro e he; rw [hl1]; exact List.mem_append_left _ he
          have hcl1 : ∀ i ∈ tm1, ClosedE cfg tm1 i := by
            intro i hi
            by_cases him : i ∈ tm
            · exact (hcl i him).mono cfg sub0
            · exact s1.closed i hi him
          have sp := ih tm1 tm' h s1.inv hcl1
          obtain ⟨l2, hl2⟩ := sp.ext
          have sub1 : ∀ e ∈ tm1, e ∈ tm' := by intro e he; rw [hl2]; exact List.mem_append_left _ he
          refine ⟨⟨l1 ++ l2, by rw [hl2, hl1, List.append_assoc]⟩, sp.inv, sp.closed, ?_, ?_, ?_⟩
          · intro t' ht'
            cases ht' with
            | head => exact s1.visited.mono cfg sub1
            | tail _ h' => exact sp.visited t' h'
          · intro e he hne
            by_cases h1m : e ∈ tm1
            · obtain ⟨r, hr', hre⟩ := s1.reach e h1m hne
              exact ⟨t, List.mem_cons_self .., r, hr', hre⟩
            · obtain ⟨t', ht', r⟩ := sp.reach e he h1m
              exact ⟨t', List.mem_cons_of_mem _ ht', r⟩
          · intro t' ht'
            cases ht' with
            | head => exact Or.inr hte
            | tail _ h' => exact sp.topOk t' h'

theorem visited_ref {tm : TM} {i : Nat} (h : Visited cfg tm (.ref i)) : i ∈ tm := by
  rcases h with h | h
  · simp [TRef.strip] at h
  · obtain ⟨j, hj, _, hm⟩ := h
    simp only [TRef.strip, Leaf.named.injEq] at hj
    subst hj; exact hm

theorem dirArgsErr_none : ∀ (as : List ArgCfg), dirArgsErr cfg as = none → ∀ a ∈ as, isInputType cfg a.type.build = true := by
  intro as
  induction as with
  | nil => intro _ a ha; cases ha
  | cons x rest ih =>
    intro h a ha
    simp only [dirArgsErr] at h
    split at h
    · cases h
    · split at h
      · cases h
      · split at h
        · cases h
        · split at h
          · cases h
          · rename_i hin
            cases ha with
            | head => simpa using hin
            | tail _ ha' => exact ih h a ha'

theorem specified_input (cfg : Config) :
    isInputType cfg (.nonNull (.ref idBoolean)) = true ∧ isInputType cfg (.ref idString) = true := by
  unfold isInputType leafKind kindOf
  simp only [TRef.strip]
  rw [get_builtin cfg (i := idBoolean) (by decide), get_builtin cfg (i := idString) (by decide)]
  decide

theorem dirArgTypes_input (h : cfg.directives.findSome? (dirErr cfg) = none) :
    ∀ t ∈ dirArgTypes cfg, isInputType cfg t = true := by
  intro t ht
  unfold dirArgTypes at ht
  rw [List.mem_flatMap] at ht
  obtain ⟨dd, hdd, htd⟩ := ht
  unfold dirDefs at hdd
  split at hdd
  · obtain ⟨h1, h2⟩ := specified_input cfg
    simp only [List.mem_cons, List.not_mem_nil, or_false] at hdd
    rcases hdd with rfl | rfl | rfl
    · simp only [List.map_cons, List.map_nil, List.mem_singleton] at htd; rw [htd]; exact h1
    · simp only [List.map_cons, List.map_nil, List.mem_singleton] at htd; rw [htd]; exact h1
    · simp only [List.map_cons, List.map_nil, List.mem_singleton] at htd; rw [htd]; exact h2
  · rw [List.mem_filterMap] at hdd
    obtain ⟨d, hd, hde'⟩ := hdd
    rw [List.findSome?_eq_none_iff] at h
    have hde := h d hd
    cases d with
    | none => cases hde'
    | some d =>
      simp only [Option.some.injEq] at hde'
      subst hde'
      simp only [List.map_map, List.mem_map, Function.comp] at htd
      obtain ⟨a, ha, rfl⟩ := htd
      simp only [dirErr, dirCtorErr] at hde
      split at hde
      · cases hde
      · split at hde
        · cases hde
        · exact dirArgsErr_none _ hde a ha

theorem newSchemaTM_roots {tm : TM} {more : List TRef} (h : newSchemaTM cfg more = .ok tm) :
    RootsSpec (cfg := cfg) [] (rootRefs cfg more) tm ∧ (∃ q, cfg.query = some q) ∧
      ∀ t ∈ dirArgTypes cfg, isInputType cfg t = true := by
  unfold newSchemaTM at h
  cases hq : cfg.query with
  | none => simp [hq] at h
  | some q =>
    simp only [hq] at h
    split at h
    · cases h
    · split at h
      · cases h
      · split at h
        · cases h
        · rename_i hd
          exact ⟨reduceRoots_spec _ [] tm h ⟨fun i hi => (by cases hi), List.Pairwise.nil⟩ (fun i hi => (by cases hi)),
            ⟨q, rfl⟩, dirArgTypes_input hd⟩

theorem newSchema_good {s : St} {more : List TRef} (h : newSchema cfg more = .ok s) : Good cfg s.tm := by
  unfold newSchema at h
  cases htm : newSchemaTM cfg more with
  | error e => simp [htm] at h
  | ok tm =>
    simp only [htm] at h
    unfold finishTM at h
    cases ha : assertAll cfg tm with
    | some e => simp [ha] at h
    | none =>
      simp only [ha, Except.ok.injEq] at h
      subst h
      obtain ⟨sp, ⟨q, hq⟩, hdir⟩ := newSchemaTM_roots htm
      have hroot : ∀ i, TRef.ref i ∈ rootRefs cfg more → i ∈ tm := fun i hi => visited_ref (sp.visited _ hi)
      refine ⟨sp.inv, sp.closed, ⟨q, hq, hroot q ?_⟩, ?_, ?_, hroot idSchema ?_, ?_, ha⟩
      · simp [rootRefs, optRoot, hq]
      · intro m hm; apply hroot; simp [rootRefs, optRoot, hm]
      · intro m hm; apply hroot; simp [rootRefs, optRoot, hm]
      · simp [rootRefs]
      · intro t ht
        refine ⟨hdir t ht, ?_⟩
        have hv := sp.visited t (by simp only [rootRefs, List.mem_append]; exact Or.inr ht)
        obtain ⟨j, hj, _⟩ := isInputType_named cfg (hdir t ht)
        rcases hv with hv | hv
        · rw [hj] at hv; cases hv
        · exact hv

theorem appendType_good {s s' : St} {t : TRef} (g : Good cfg s.tm) (h : appendType cfg s t = .ok s') :
    Good cfg s'.tm := by
  unfold appendType at h
  cases ha : appendTM cfg s t with
  | error e => simp [ha] at h
  | ok r =>
    cases r with
    | none => simp only [ha, Except.ok.injEq] at h; subst h; exact g
    | some tm' =>
      simp only [ha] at h
      unfold finishTM at h
      cases has : assertAll cfg tm' with
      | some e => simp [has] at h
      | none =>
        simp only [has, Except.ok.injEq] at h
        subst h
        unfold appendTM at ha
        simp only at ha
        split at ha
        · cases ha
        · split at ha
          · cases ha
          · cases hr : reduce cfg (cfg.size + 1) s.tm t.build with
            | error e => simp [hr] at ha
            | ok tm1 =>
              simp only [hr, Except.ok.injEq, Option.some.injEq] at ha
              subst ha
              have sp := reduce_spec cfg _ s.tm _ tm1 hr g.inv
              obtain ⟨l, hl⟩ := sp.ext
              have sub : ∀ e ∈ s.tm, e ∈ tm1 := by intro e he; rw [hl]; exact List.mem_append_left _ he
              obtain ⟨q, hq, hqm⟩ := g.query
              refine ⟨sp.inv, ?_, ⟨q, hq, sub q hqm⟩, fun m hm => sub m (g.mutation m hm),
                fun m hm => sub m (g.subscription m hm), sub _ g.schemaType,
                fun t ht => ⟨(g.dirArgs t ht).1, (g.dirArgs t ht).2.mono cfg sub⟩, has⟩
              intro i hi
              by_cases him : i ∈ s.tm
              · exact (g.closed i him).mono cfg sub
              · exact sp.closed i hi him

theorem appendAll_good : ∀ (ts : List TRef) (s s' : St), Good cfg s.tm → appendAll cfg s ts = .ok s' → Good cfg s'.tm := by
  intro ts
  induction ts with
  | nil => intro s s' g h; simp only [appendAll, Except.ok.injEq] at h; subst h; exact g
  | cons t rest ih =>
    intro s s' g h
    simp only [appendAll] at h
    cases h1 : appendType cfg s t with
    | error e => simp [h1] at h
    | ok s1 =>
      simp only [h1] at h
      exact ih s1 s' (appendType_good g h1) h

/-! ## Good ⇒ Consistent -/

theorem Good.consistent {tm : TM} (g : Good cfg tm) (hwt : cfg.wellTyped = true) : (dump cfg ⟨tm⟩).Consistent = true := by
  unfold BuiltSchema.Consistent
  rw [g.namesOk hwt, g.closedOk, g.hasBuiltins, g.positionsOk hwt, g.conformanceOk hwt, g.possibleOk hwt]
  rfl

end GqlModel.SchemaBuild
