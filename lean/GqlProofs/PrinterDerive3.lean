import GqlProofs.PrinterDerive2
/-! Derivations for the type-system definitions and the document. -/
namespace GqlModel.Printer
open GqlModel GqlModel.Grammar GqlModel.Reader

/-- what may follow a definition -/
structure FollowDef (k : List KV) : Prop where
  hAt : NextNe .at k
  hParenL : NextNe .parenL k
  hPipe : NextNe .pipe k

theorem followDef_cons {kd : TokenKind} {v : String} {r : List KV} (h1 : kd ≠ .at) (h2 : kd ≠ .parenL) (h3 : kd ≠ .pipe) :
    FollowDef ((kd, v) :: r) := ⟨nextNe_cons h1, nextNe_cons h2, nextNe_cons h3⟩

theorem followDef_nil : FollowDef [] := ⟨nextNe_nil _, nextNe_nil _, nextNe_nil _⟩

theorem derive_implements (ifs : List TypeRef) (hwf : WFNamedTypes ifs) {p : Pos} {k : List KV}
    (h : kvs p = implementsT ifs ++ k) (hf1 : NextNotName "implements" k) (hf2 : NextNe .amp k) :
    ∃ ifs' p', DImplements p ifs' p' ∧ kvs p' = k ∧ ifs'.map TypeRef.stripLoc = ifs.map TypeRef.stripLoc := by
  cases ifs with
  | nil =>
    have hk : kvs p = k := by simpa [implementsT] using h
    exact ⟨[], p, DImplements.none (not_isName_of_next hk hf1), hk, rfl⟩
  | cons t ts =>
    simp only [implementsT, List.append_assoc] at h
    obtain ⟨p1, hkw, h1⟩ := derive_kw h
    have hamp : p1.kind ≠ .amp := by
      refine kind_ne_of_next h1 ?_ (by decide)
      cases t with
      | named n l => cases ts <;> simp only [List.map_cons, List.map_nil, sepByT, typeT, List.append_assoc] <;> exact nextNe_nT (by decide) _ _
      | list t l => exact absurd hwf.1 (by simp [WFNamedType])
      | nonNull t l => exact absurd hwf.1 (by simp [WFNamedType])
    obtain ⟨ts', p2, hts, h2, hs⟩ := derive_sepBy_namedTypes .amp (by decide) t ts hwf p1 k h1 hf2
    exact ⟨ts', p2, DImplements.plain hkw hamp hts, h2, hs⟩

theorem nextNotName_pT (s : String) (c : TokenKind) (hc : c ≠ .name) (k : List KV) : NextNotName s (pT c ++ k) := by
  simp only [pT, List.cons_append, List.nil_append]; exact nextNotName_cons_kind hc

theorem nextNotName_directivesT (s : String) (ds : List Directive) {k : List KV} (hk : NextNotName s k) :
    NextNotName s (directivesT ds ++ k) := by
  cases ds with
  | nil => simpa [directivesT] using hk
  | cons d ds =>
    obtain ⟨r, hr⟩ := directivesT_cons_head d ds k
    rw [hr]; exact nextNotName_cons_kind (by decide)

theorem derive_objectDef (d : ObjectDef) (hwf : WFObjectDef d) {p : Pos} {k : List KV} (h : kvs p = objectDefT d ++ k) :
    ∃ d' p', DObjectDef p d' p' ∧ kvs p' = k ∧ d'.stripLoc = d.stripLoc := by
  obtain ⟨_, hi, hd, hfd⟩ := hwf
  simp only [objectDefT, List.append_assoc] at h
  obtain ⟨p1, hdesc, h1⟩ := derive_description d.description h (nextNe_nT (by decide) _ _) (nextNe_nT (by decide) _ _)
  obtain ⟨p2, hkw, h2⟩ := derive_kw h1
  obtain ⟨nm, p3, hn, h3, hnv⟩ := derive_name h2
  obtain ⟨ifs', p4, hid, h4, hsi⟩ := derive_implements d.interfaces hi h3
    (nextNotName_directivesT _ d.dirs (nextNotName_pT _ _ (by decide) _))
    (nextNe_directivesT (by decide) d.dirs (nextNe_pT (by decide) _))
  obtain ⟨ds', p5, hdd, h5, hsd⟩ := derive_directives d.dirs hd p4 _ h4 (nextNe_pT (by decide) _) (nextNe_pT (by decide) _)
  obtain ⟨fs', p6, hfs, h6, hsf⟩ := derive_fieldBlock d.fields hfd h5
  exact ⟨_, p6, DObjectDef.mk hdesc hkw hn hid hdd hfs, h6,
    by simp [ObjectDef.stripLoc, Name.stripLoc, hnv, hsi, hsd, hsf]⟩

theorem derive_definition : ∀ d : Definition, WFDefinition d → ∀ (p : Pos) (k : List KV), kvs p = definitionT d ++ k →
    FollowDef k → ∃ d' p', DDefinition p d' p' ∧ kvs p' = k ∧ d'.stripLoc = d.stripLoc
  | .operation op name vars dirs sel l, hwf, p, k, h, _ => derive_operation op name vars dirs sel l hwf h
  | .fragment name tc dirs sel l, hwf, p, k, h, _ => derive_fragment name tc dirs sel l hwf h
  | .schema dirs ops l, hwf, p, k, h, _ => by
    obtain ⟨hd, hne, hops⟩ := hwf
    simp only [definitionT, schemaT, List.append_assoc] at h
    obtain ⟨p1, hkw, h1⟩ := derive_kw h
    obtain ⟨ds', p2, hdd, h2, hsd⟩ := derive_directives dirs hd p1 _ h1 (nextNe_pT (by decide) _) (nextNe_pT (by decide) _)
    obtain ⟨o, p3, ho, h3⟩ := derive_punct h2
    obtain ⟨ops', p4, hod, h4, hso⟩ := derive_opTypeDefList ops hops p3 _ h3
    obtain ⟨cl, p5, hcl, h5⟩ := derive_punct h4
    have hne' : ops' ≠ [] := by
      cases ops with
      | nil => exact absurd rfl hne
      | cons o os => exact ne_nil_of_map_eq hso
    exact ⟨_, p5, DDefinition.schema hkw hdd ho hod hne' hcl, h5, by simp [Definition.stripLoc, hsd, hso]⟩
  | .scalar desc name dirs l, hwf, p, k, h, hf => by
    simp only [definitionT, scalarT, List.append_assoc] at h
    obtain ⟨p1, hdesc, h1⟩ := derive_description desc h (nextNe_nT (by decide) _ _) (nextNe_nT (by decide) _ _)
    obtain ⟨p2, hkw, h2⟩ := derive_kw h1
    obtain ⟨nm, p3, hn, h3, hnv⟩ := derive_name h2
    obtain ⟨ds', p4, hdd, h4, hsd⟩ := derive_directives dirs hwf.2 p3 k h3 hf.hAt hf.hParenL
    exact ⟨_, p4, DDefinition.scalar hdesc hkw hn hdd, h4, by simp [Definition.stripLoc, Name.stripLoc, hnv, hsd]⟩
  | .object d, hwf, p, k, h, _ => by
    obtain ⟨d', p', hd, hk, hs⟩ := derive_objectDef d hwf (by simpa [definitionT] using h)
    exact ⟨_, p', DDefinition.object hd, hk, by simp [Definition.stripLoc, hs]⟩
  | .interface desc name dirs fields l, hwf, p, k, h, _ => by
    obtain ⟨_, hd, hfd⟩ := hwf
    simp only [definitionT, interfaceT, List.append_assoc] at h
    obtain ⟨p1, hdesc, h1⟩ := derive_description desc h (nextNe_nT (by decide) _ _) (nextNe_nT (by decide) _ _)
    obtain ⟨p2, hkw, h2⟩ := derive_kw h1
    obtain ⟨nm, p3, hn, h3, hnv⟩ := derive_name h2
    obtain ⟨ds', p4, hdd, h4, hsd⟩ := derive_directives dirs hd p3 _ h3 (nextNe_pT (by decide) _) (nextNe_pT (by decide) _)
    obtain ⟨fs', p5, hfs, h5, hsf⟩ := derive_fieldBlock fields hfd h4
    exact ⟨_, p5, DDefinition.interface hdesc hkw hn hdd hfs, h5,
      by simp [Definition.stripLoc, Name.stripLoc, hnv, hsd, hsf]⟩
  | .union desc name dirs types l, hwf, p, k, h, hf => by
    obtain ⟨_, hd, hne, hts⟩ := hwf
    simp only [definitionT, unionT, List.append_assoc] at h
    obtain ⟨p1, hdesc, h1⟩ := derive_description desc h (nextNe_nT (by decide) _ _) (nextNe_nT (by decide) _ _)
    obtain ⟨p2, hkw, h2⟩ := derive_kw h1
    obtain ⟨nm, p3, hn, h3, hnv⟩ := derive_name h2
    obtain ⟨ds', p4, hdd, h4, hsd⟩ := derive_directives dirs hd p3 _ h3 (nextNe_pT (by decide) _) (nextNe_pT (by decide) _)
    obtain ⟨q, p5, hq, h5⟩ := derive_punct h4
    cases types with
    | nil => exact absurd rfl hne
    | cons t ts =>
      obtain ⟨ts', p6, htd, h6, hst⟩ := derive_sepBy_namedTypes .pipe (by decide) t ts hts p5 k h5 hf.hPipe
      exact ⟨_, p6, DDefinition.union hdesc hkw hn hdd hq htd, h6,
        by simp only [Definition.stripLoc, hst, hsd]; simp [Name.stripLoc, hnv]⟩
  | .enum desc name dirs values l, hwf, p, k, h, _ => by
    obtain ⟨_, hd, hvs⟩ := hwf
    simp only [definitionT, enumT, List.append_assoc] at h
    obtain ⟨p1, hdesc, h1⟩ := derive_description desc h (nextNe_nT (by decide) _ _) (nextNe_nT (by decide) _ _)
    obtain ⟨p2, hkw, h2⟩ := derive_kw h1
    obtain ⟨nm, p3, hn, h3, hnv⟩ := derive_name h2
    obtain ⟨ds', p4, hdd, h4, hsd⟩ := derive_directives dirs hd p3 _ h3 (nextNe_pT (by decide) _) (nextNe_pT (by decide) _)
    obtain ⟨o, p5, ho, h5⟩ := derive_punct h4
    obtain ⟨vs', p6, hvd, h6, hsv⟩ := derive_enumValueDefList values hvs p5 k h5
    obtain ⟨cl, p7, hcl, h7⟩ := derive_punct h6
    exact ⟨_, p7, DDefinition.enum hdesc hkw hn hdd (Braced.mk ho hvd hcl), h7,
      by simp [Definition.stripLoc, Name.stripLoc, hnv, hsd, hsv]⟩
  | .inputObject desc name dirs fields l, hwf, p, k, h, _ => by
    obtain ⟨_, hd, hfd⟩ := hwf
    simp only [definitionT, inputObjectT, List.append_assoc] at h
    obtain ⟨p1, hdesc, h1⟩ := derive_description desc h (nextNe_nT (by decide) _ _) (nextNe_nT (by decide) _ _)
    obtain ⟨p2, hkw, h2⟩ := derive_kw h1
    obtain ⟨nm, p3, hn, h3, hnv⟩ := derive_name h2
    obtain ⟨ds', p4, hdd, h4, hsd⟩ := derive_directives dirs hd p3 _ h3 (nextNe_pT (by decide) _) (nextNe_pT (by decide) _)
    obtain ⟨fs', p5, hfs, h5, hsf⟩ := derive_inputBlock fields hfd h4
    exact ⟨_, p5, DDefinition.inputObject hdesc hkw hn hdd hfs, h5,
      by simp [Definition.stripLoc, Name.stripLoc, hnv, hsd, hsf]⟩
  | .extend d l, hwf, p, k, h, _ => by
    simp only [definitionT, extendT, List.append_assoc] at h
    obtain ⟨p1, hkw, h1⟩ := derive_kw h
    obtain ⟨d', p2, hd, h2, hs⟩ := derive_objectDef d hwf h1
    exact ⟨_, p2, DDefinition.extend hkw hd, h2, by simp [Definition.stripLoc, hs]⟩
  | .directive desc name args locations l, hwf, p, k, h, hf => by
    obtain ⟨_, ha, hne, _⟩ := hwf
    simp only [definitionT, directiveDefT, List.append_assoc] at h
    obtain ⟨p1, hdesc, h1⟩ := derive_description desc h (nextNe_nT (by decide) _ _) (nextNe_nT (by decide) _ _)
    obtain ⟨p2, hkw, h2⟩ := derive_kw h1
    obtain ⟨a, p3, hat, h3⟩ := derive_punct h2
    obtain ⟨nm, p4, hn, h4, hnv⟩ := derive_name h3
    obtain ⟨as', p5, had, h5, hsa⟩ := derive_argDefs args ha h4 (fun _ => nextNe_nT (by decide) _ _)
    obtain ⟨p6, hon, h6⟩ := derive_kw h5
    cases locations with
    | nil => exact absurd rfl hne
    | cons n ns =>
      obtain ⟨ns', p7, hnd, h7, hsn⟩ := derive_sepBy_names .pipe (by decide) n ns p6 k h6 hf.hPipe
      exact ⟨_, p7, DDefinition.directive hdesc hkw hat hn had hon hnd, h7,
        by simp only [Definition.stripLoc, hsn, hsa]; simp [Name.stripLoc, hnv]⟩

/-- a definition starts with `{`, a keyword or a description -/
theorem definitionT_head (d : Definition) (hwf : WFDefinition d) (k : List KV) :
    ∃ kd v r, definitionT d ++ k = (kd, v) :: r ∧ (kd = .braceL ∨ kd = .name ∨ kd = .string ∨ kd = .blockString) := by
  have hdesc : ∀ (desc : Option String) (kw : String) (k' : List KV),
      ∃ kd v r, descT desc ++ (nT kw ++ k') = (kd, v) :: r ∧ (kd = .braceL ∨ kd = .name ∨ kd = .string ∨ kd = .blockString) := by
    intro desc kw k'
    obtain ⟨kd, v, r, hr, hk⟩ := member_head desc kw k'
    exact ⟨kd, v, r, hr, by rcases hk with h | h | h <;> simp [h]⟩
  cases d with
  | operation op name vars dirs sel l =>
    simp only [definitionT, operationT]
    split
    · obtain ⟨r, hr⟩ := selSetT_head sel k
      exact ⟨_, _, r, hr, Or.inl rfl⟩
    · simp only [nT, List.cons_append, List.nil_append, List.append_assoc]
      exact ⟨_, _, _, rfl, Or.inr (Or.inl rfl)⟩
  | fragment name tc dirs sel l =>
    simp only [definitionT, fragmentT, nT, List.cons_append, List.nil_append, List.append_assoc]
    exact ⟨_, _, _, rfl, Or.inr (Or.inl rfl)⟩
  | schema dirs ops l =>
    simp only [definitionT, schemaT, nT, List.cons_append, List.nil_append, List.append_assoc]
    exact ⟨_, _, _, rfl, Or.inr (Or.inl rfl)⟩
  | scalar desc name dirs l => simpa [definitionT, scalarT, List.append_assoc] using hdesc desc "scalar" _
  | object d => simpa [definitionT, objectDefT, List.append_assoc] using hdesc d.description "type" _
  | interface desc name dirs fields l => simpa [definitionT, interfaceT, List.append_assoc] using hdesc desc "interface" _
  | union desc name dirs types l => simpa [definitionT, unionT, List.append_assoc] using hdesc desc "union" _
  | «enum» desc name dirs values l => simpa [definitionT, enumT, List.append_assoc] using hdesc desc "enum" _
  | inputObject desc name dirs fields l => simpa [definitionT, inputObjectT, List.append_assoc] using hdesc desc "input" _
  | extend d l =>
    simp only [definitionT, extendT, nT, List.cons_append, List.nil_append, List.append_assoc]
    exact ⟨_, _, _, rfl, Or.inr (Or.inl rfl)⟩
  | directive desc name args locations l =>
    simpa [definitionT, directiveDefT, List.append_assoc] using hdesc desc "directive" _

theorem followDef_definitionListT : ∀ ds : List Definition, WFDefinitions ds → FollowDef (definitionListT ds)
  | [], _ => followDef_nil
  | d :: ds, hwf => by
    obtain ⟨kd, v, r, hr, hk⟩ := definitionT_head d hwf.1 (definitionListT ds)
    simp only [definitionListT]
    rw [hr]
    rcases hk with rfl | rfl | rfl | rfl <;> exact followDef_cons (by decide) (by decide) (by decide)

theorem derive_definitionList : ∀ ds : List Definition, WFDefinitions ds → ∀ (p : Pos), kvs p = definitionListT ds →
    ∃ ds' p', Many DDefinition p ds' p' ∧ p'.ts = [] ∧ ds'.map Definition.stripLoc = ds.map Definition.stripLoc
  | [], _, p, h => by
    refine ⟨[], p, Many.nil, ?_, rfl⟩
    simpa [kvs, definitionListT] using h
  | d :: ds, hwf, p, h => by
    simp only [definitionListT] at h
    obtain ⟨d', p1, hd, h1, hs1⟩ := derive_definition d hwf.1 p _ h (followDef_definitionListT ds hwf.2)
    obtain ⟨ds', p2, hds, h2, hs2⟩ := derive_definitionList ds hwf.2 p1 h1
    exact ⟨d' :: ds', p2, Many.cons hd hds, h2, by simp [hs1, hs2]⟩

/-- The plain token sequence of a well-formed document, placed at arbitrary offsets, is a sentence of the grammar
and denotes the same document, locations aside. -/
theorem derivesDoc_docT (d : Document) (hwf : WFDocument d) (toks : List Token) (eofPos : Nat)
    (h : toks.map kvOf = docT d) : ∃ d', DerivesDoc toks eofPos d' ∧ d'.stripLoc = d.stripLoc := by
  obtain ⟨ds', p', hds, hts, hs⟩ := derive_definitionList d.defs hwf.2 ⟨0, toks⟩ (by simpa [kvs, docT] using h)
  obtain ⟨e, ts⟩ := p'
  simp only at hts; subst hts
  have hne : ds' ≠ [] := by
    intro e'; subst e'
    cases hd : d.defs with
    | nil => exact hwf.1 hd
    | cons x xs => rw [hd] at hs; simp at hs
  exact ⟨_, DerivesDoc.mk hds hne, by simp [Document.stripLoc, hs]⟩

end GqlModel.Printer
