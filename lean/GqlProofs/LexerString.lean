import GqlProofs.LexerIgnored
/-! M = S, part 3: `readString` (lexer.go:218-310) = `Spec.stringBody`. -/
namespace GqlModel.Lexer
open GqlModel.Utf8 GqlModel.Lexer.Spec

@[simp] theorem pre_ok (bs : Bytes) (e : Nat) (v : Bytes) : pre bs (.ok (e, v)) = .ok (e, bs ++ v) := rfl
@[simp] theorem pre_error (bs : Bytes) (e : LexErr) : pre bs (.error e) = .error e := rfl
@[simp] theorem adv_ok (k : Nat) (bs : Bytes) (len : Nat) (v : Bytes) : adv k bs (.ok (len, v)) = .ok (len + k, bs ++ v) := rfl
@[simp] theorem adv_error (k : Nat) (bs : Bytes) (o : Nat) (e : ErrKind) : adv k bs (.error (o, e)) = .error (o + k, e) := rfl

theorem adv_adv (k1 k2 : Nat) (b1 b2 : Bytes) (x : Scan) : adv k1 b1 (adv k2 b2 x) = adv (k2 + k1) (b1 ++ b2) x := by
  match x with
  | .ok (len, v) => simp [Nat.add_assoc]
  | .error (o, e) => simp [Nat.add_assoc]

theorem stringBody_cons (c : UInt8) (r : Bytes) : stringBody (c :: r) =
    if c = 34 then .ok (1, [])
    else if c = 10 ∨ c = 13 then .error (0, .unterminated)
    else if c.toNat < 32 ∧ c ≠ 9 then .error (0, .invalidCharInString)
    else if c = 92 then
      match r with
      | [] => .error (1, .badEscape)
      | e :: r1 =>
        match escapedCharacter e with
        | some b => adv 2 [b] (stringBody r1)
        | none =>
          if e = 117 then
            match r1 with
            | h1 :: h2 :: h3 :: h4 :: r2 =>
              match escapedUnicode h1 h2 h3 h4 with
              | some bs => adv 6 bs (stringBody r2)
              | none => .error (1, .badUnicodeEscape)
            | _ => .error (1, .badUnicodeEscape)
          else .error (1, .badEscape)
    else adv 1 [c] (stringBody r) := by
  rw [stringBody.eq_def]; rfl

/-- a byte ≥ 0x80 is an ordinary string character -/
theorem stringBody_high_cons (c : UInt8) (r : Bytes) (h : 128 ≤ c.toNat) : stringBody (c :: r) = adv 1 [c] (stringBody r) := by
  rw [stringBody_cons]
  have h1 : ¬ c = 34 := by bnorm; omega
  have h2 : ¬ (c = 10 ∨ c = 13) := by bnorm; omega
  have h3 : ¬ (c.toNat < 32 ∧ c ≠ 9) := by omega
  have h4 : ¬ c = 92 := by bnorm; omega
  rw [if_neg h1, if_neg h2, if_neg h3, if_neg h4]

theorem stringBody_high : ∀ (hi tail : Bytes), (∀ b ∈ hi, 128 ≤ b.toNat) →
    stringBody (hi ++ tail) = adv hi.length hi (stringBody tail) := by
  intro hi
  induction hi with
  | nil => intro tail _; match stringBody tail with
    | .ok (len, v) => simp
    | .error (o, e) => simp
  | cons c hi ih =>
    intro tail hall
    rw [List.cons_append, stringBody_high_cons c _ (hall c (by simp)), ih tail (fun b hb => hall b (by simp [hb])), adv_adv]
    simp

theorem simpleEscape_eq (e : UInt8) (r1 : Bytes) : simpleEscape (runeAt (e :: r1)).1 = escapedCharacter e := by
  by_cases h1 : e = 34; · subst h1; rfl
  by_cases h2 : e = 47; · subst h2; rfl
  by_cases h3 : e = 92; · subst h3; rfl
  by_cases h4 : e = 98; · subst h4; rfl
  by_cases h5 : e = 102; · subst h5; rfl
  by_cases h6 : e = 110; · subst h6; rfl
  by_cases h7 : e = 114; · subst h7; rfl
  by_cases h8 : e = 116; · subst h8; rfl
  have hc := e.toNat_lt
  unfold simpleEscape escapedCharacter
  simp (disch := omega) only [code_eq]
  have g1 : ¬ (e.toNat : Int) = 34 := by bnorm at h1; omega
  have g2 : ¬ (e.toNat : Int) = 47 := by bnorm at h2; omega
  have g3 : ¬ (e.toNat : Int) = 92 := by bnorm at h3; omega
  have g4 : ¬ (e.toNat : Int) = 98 := by bnorm at h4; omega
  have g5 : ¬ (e.toNat : Int) = 102 := by bnorm at h5; omega
  have g6 : ¬ (e.toNat : Int) = 110 := by bnorm at h6; omega
  have g7 : ¬ (e.toNat : Int) = 114 := by bnorm at h7; omega
  have g8 : ¬ (e.toNat : Int) = 116 := by bnorm at h8; omega
  simp only [g1, g2, g3, g4, g5, g6, g7, g8, h1, h2, h3, h4, h5, h6, h7, h8, if_false]

theorem escapedCharacter_ascii {e b : UInt8} (h : escapedCharacter e = some b) : e.toNat < 128 := by
  unfold escapedCharacter at h
  by_cases h1 : e = 34; · subst h1; decide
  by_cases h2 : e = 47; · subst h2; decide
  by_cases h3 : e = 92; · subst h3; decide
  by_cases h4 : e = 98; · subst h4; decide
  by_cases h5 : e = 102; · subst h5; decide
  by_cases h6 : e = 110; · subst h6; decide
  by_cases h7 : e = 114; · subst h7; decide
  by_cases h8 : e = 116; · subst h8; decide
  simp [h1, h2, h3, h4, h5, h6, h7, h8] at h

theorem char2hex_eq (a : UInt8) : char2hex a = hexValue a := rfl

theorem escapedUnicode_eq (a b c d : UInt8) : escapedUnicode a b c d = (uniCharCode a b c d).map encodeRune := by
  unfold escapedUnicode uniCharCode
  simp only [char2hex_eq]
  cases hexValue a <;> cases hexValue b <;> cases hexValue c <;> cases hexValue d <;> simp
  congr 1; omega

/-- the scan loop of `readString` against the spec's `StringCharacter* "`: same value and length; on failure the
same error site, and the same offset as long as no byte ≥ 0x80 precedes the offending byte -/
theorem readStringLoop_spec : ∀ (f : Nat) (rest : Bytes) (p rp : Nat), rest.length < f →
    match stringBody rest with
    | .ok (len, v) => readStringLoop f rest p rp = .ok (p + len, v)
    | .error (o, k) => ∃ q, readStringLoop f rest p rp = .error ⟨q, k⟩ ∧ (hasHigh (rest.take o) = false → q = rp + o) := by
  intro f
  induction f with
  | zero => intro rest p rp h; omega
  | succ f ih =>
    intro rest p rp hlen
    match rest with
    | [] => simp [stringBody, readStringLoop, runeAt]
    | c :: r =>
      have hc := c.toNat_lt
      simp only [List.length_cons] at hlen
      rw [stringBody_cons]
      simp only [readStringLoop, ne_eq, reduceCtorEq, not_false_eq_true, true_and]
      simp (disch := omega) only [code_eq, code_lt]
      by_cases h34 : c = 34
      · have g : (c.toNat : Int) = 34 := by bnorm at h34; omega
        simp [h34]
      have g34 : ¬ (c.toNat : Int) = 34 := by bnorm at h34; omega
      rw [if_neg h34]
      by_cases hlt : c = 10 ∨ c = 13
      · have g : ¬ (¬ (c.toNat : Int) = 10 ∧ ¬ (c.toNat : Int) = 13 ∧ ¬ (c.toNat : Int) = 34) := by bnorm at hlt; omega
        rw [if_neg g, if_pos hlt]
        simp [g34]
      have glt : (¬ (c.toNat : Int) = 10 ∧ ¬ (c.toNat : Int) = 13 ∧ ¬ (c.toNat : Int) = 34) := by bnorm at hlt; omega
      rw [if_pos glt, if_neg hlt]
      by_cases hctl : c.toNat < 32 ∧ c ≠ 9
      · have g : ((c.toNat : Int) < 32 ∧ ¬ (c.toNat : Int) = 9) := by bnorm at hctl; omega
        rw [if_pos g, if_pos hctl]
        exact ⟨rp, rfl, fun _ => rfl⟩
      have gctl : ¬ ((c.toNat : Int) < 32 ∧ ¬ (c.toNat : Int) = 9) := by bnorm at hctl; omega
      rw [if_neg gctl, if_neg hctl]
      by_cases hbs : c = 92
      · -- escape sequence
        have g : (c.toNat : Int) = 92 := by bnorm at hbs; omega
        have hasc : c.toNat < 128 := by omega
        rw [if_pos g, if_pos hbs, width_ascii c r hasc]
        simp only [List.drop_succ_cons, List.drop_zero]
        match r with
        | [] => exact ⟨rp + 1, by simp [runeAt, simpleEscape], fun _ => rfl⟩
        | e :: r1 =>
          have he := e.toNat_lt
          simp only [List.length_cons] at hlen
          simp only [simpleEscape_eq]
          cases hesc : escapedCharacter e with
          | some b =>
            simp only
            have heasc := escapedCharacter_ascii hesc
            rw [width_ascii e r1 heasc]
            simp only [List.drop_succ_cons, List.drop_zero]
            have := ih r1 (p + 1 + 1) (rp + 1 + 1) (by omega)
            match hsb : stringBody r1 with
            | .ok (len, v) =>
              rw [hsb] at this; simp only at this
              simp only [adv_ok, this, pre_ok]
              congr 2; omega
            | .error (o, k) =>
              rw [hsb] at this; simp only at this
              obtain ⟨q, hq, hpos⟩ := this
              simp only [adv_error]
              refine ⟨q, by rw [hq]; rfl, ?_⟩
              intro hh
              rw [List.take_succ_cons, List.take_succ_cons, hasHigh_cons, hasHigh_cons] at hh
              simp only [Bool.or_eq_false_iff] at hh
              have := hpos hh.2.2; omega
          | none =>
            simp only
            simp (disch := omega) only [code_eq]
            by_cases hu : e = 117
            · have gu : (e.toNat : Int) = 117 := by bnorm at hu; omega
              have heasc : e.toNat < 128 := by omega
              rw [if_pos gu, if_pos hu, width_ascii e r1 heasc]
              match r1 with
              | h1 :: h2 :: h3 :: h4 :: r2 =>
                simp only [List.length_cons] at hlen
                simp only [escapedUnicode_eq]
                cases huc : uniCharCode h1 h2 h3 h4 with
                | none => exact ⟨rp + 1, rfl, fun _ => rfl⟩
                | some cp =>
                  simp only [Option.map_some]
                  have := ih r2 (p + 1 + 4 + 1) (rp + 1 + 4 + 1) (by omega)
                  match hsb : stringBody r2 with
                  | .ok (len, v) =>
                    rw [hsb] at this; simp only at this
                    simp only [adv_ok, this, pre_ok]
                    congr 2; omega
                  | .error (o, k) =>
                    rw [hsb] at this; simp only at this
                    obtain ⟨q, hq, hpos⟩ := this
                    simp only [adv_error]
                    refine ⟨q, by rw [hq]; rfl, ?_⟩
                    intro hh
                    simp only [List.take_succ_cons, hasHigh_cons, Bool.or_eq_false_iff] at hh
                    have := hpos hh.2.2.2.2.2.2; omega
              | [] => exact ⟨rp + 1, rfl, fun _ => rfl⟩
              | [_] => exact ⟨rp + 1, rfl, fun _ => rfl⟩
              | [_, _] => exact ⟨rp + 1, rfl, fun _ => rfl⟩
              | [_, _, _] => exact ⟨rp + 1, rfl, fun _ => rfl⟩
            · have gu : ¬ (e.toNat : Int) = 117 := by bnorm at hu; omega
              rw [if_neg gu, if_neg hu]
              exact ⟨rp + 1, rfl, fun _ => rfl⟩
      · -- an ordinary character: one rune of n bytes
        have g : ¬ (c.toNat : Int) = 92 := by bnorm at hbs; omega
        rw [if_neg g, if_neg hbs]
        rcases runeAt_spec c r with ⟨hasc, hr⟩ | ⟨hge, code, n, hr, hcode, hn1, hn2, hall, -, -⟩
        · rw [hr]; simp only [List.drop_succ_cons, List.drop_zero, List.take_succ_cons, List.take_zero]
          have := ih r (p + 1) (rp + 1) (by omega)
          match hsb : stringBody r with
          | .ok (len, v) =>
            rw [hsb] at this; simp only at this
            simp only [adv_ok, this, pre_ok]
            congr 2; omega
          | .error (o, k) =>
            rw [hsb] at this; simp only at this
            obtain ⟨q, hq, hpos⟩ := this
            simp only [adv_error]
            refine ⟨q, by rw [hq]; rfl, ?_⟩
            intro hh
            simp only [List.take_succ_cons, hasHigh_cons, Bool.or_eq_false_iff] at hh
            have := hpos hh.2; omega
        · rw [hr]; simp only
          have hsplit : c :: r = (c :: r).take n ++ (c :: r).drop n := (List.take_append_drop n (c :: r)).symm
          have hS : stringBody (c :: r) = adv n ((c :: r).take n) (stringBody ((c :: r).drop n)) := by
            conv => lhs; rw [hsplit]
            rw [stringBody_high _ _ hall]
            congr 1; simp; omega
          have hS' : adv 1 [c] (stringBody r) = adv n ((c :: r).take n) (stringBody ((c :: r).drop n)) := by
            rw [← hS, stringBody_high_cons c r hge]
          rw [hS']
          have := ih ((c :: r).drop n) (p + n) (rp + 1) (by simp only [List.length_drop, List.length_cons]; omega)
          match hsb : stringBody ((c :: r).drop n) with
          | .ok (len, v) =>
            rw [hsb] at this; simp only at this
            simp only [adv_ok, this, pre_ok]
            congr 2; omega
          | .error (o, k) =>
            rw [hsb] at this; simp only at this
            obtain ⟨q, hq, -⟩ := this
            simp only [adv_error]
            refine ⟨q, by rw [hq]; rfl, ?_⟩
            intro hh
            have : hasHigh ((c :: r).take (o + n)) = true := by
              apply hasHigh_of_mem (b := c) _ hge
              obtain ⟨m, rfl⟩ : ∃ m, n = m + 1 := ⟨n - 1, by omega⟩
              rw [← Nat.add_assoc, List.take_succ_cons]; simp
            rw [this] at hh; exact absurd hh (by simp)

end GqlModel.Lexer
