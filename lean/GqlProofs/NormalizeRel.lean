import GqlProofs.NormalizeVars
/-! C06 (normaliser), pieces 2a/3 of the end-to-end proof: the relation "same selection up to argument lists that
evaluate alike at the type the selection is executed at" (`RSel`/`ROpt`/`RSet`/`RList`), the identity case, and the
theorem that the normaliser's walk establishes it (threading lexer-shaped literals, agreement on mentioned variables
and realisation of the synthetic variables through `normSel`/`normOpt`/`normSet`/`normList`). -/
set_option linter.unusedSimpArgs false
set_option linter.unusedVariables false
set_option linter.unusedSectionVars false
namespace GqlModel.Normalize
open GqlModel GqlModel.Coerce

/-! ## arguments evaluate alike when the variable maps agree on what they mention -/

theorem optVars_argLookup (as : List Argument) (k : String) : ∀ x ∈ optVars (argLookup as k), x ∈ argsVars as := by
  induction as with
  | nil => intro x hx; simp [argLookup, optVars] at hx
  | cons a as ih =>
    intro x hx
    simp only [argLookup] at hx
    simp only [argsVars, List.flatMap_cons, List.mem_append]
    cases hl : argLookup as k with
    | some w => rw [hl] at hx; exact Or.inr (by have := ih x (by rw [hl]; exact hx); simpa [argsVars] using this)
    | none =>
      rw [hl] at hx
      by_cases hk : (a.name.value == k) = true
      · simp only [hk, if_true, optVars] at hx; exact Or.inl hx
      · simp [hk, optVars] at hx

theorem getArgumentValues_congr (s : Schema) (defs : List ArgDef) (as : List Argument) (vars1 vars2 : Vars)
    (h : ∀ x ∈ argsVars as, lookupD vars1 x = lookupD vars2 x) :
    getArgumentValues s defs as vars1 = getArgumentValues s defs as vars2 := by
  unfold getArgumentValues
  congr 1
  apply filterMap_congr'
  intro d _
  simp only [argEntry]
  rw [valueFromAST_congr s d.type _ vars1 vars2 (fun x hx => h x (optVars_argLookup as d.name x hx))]

theorem mem_dirsVars {ds : List Directive} {d : Directive} (hd : d ∈ ds) {x : String} (hx : x ∈ argsVars d.args) :
    x ∈ dirsVars ds := by
  simp only [dirsVars, List.mem_flatMap]
  exact ⟨d, hd, hx⟩

/-- `@skip`/`@include` evaluate alike -/
theorem included_congr (s : Schema) (vars1 vars2 : Vars) (dirs : List Directive)
    (h : ∀ x ∈ dirsVars dirs, lookupD vars1 x = lookupD vars2 x) :
    Exec.included s vars1 dirs = Exec.included s vars2 dirs := by
  have key : ∀ d ∈ dirs, getArgumentValues s Exec.ifArg d.args vars1 = getArgumentValues s Exec.ifArg d.args vars2 :=
    fun d hd => getArgumentValues_congr s _ _ _ _ (fun x hx => h x (mem_dirsVars hd hx))
  have lastMem : ∀ (n : String) (d : Directive), (dirs.filter (fun d => d.name.value == n)).getLast? = some d → d ∈ dirs := by
    intro n d hd
    have := List.mem_of_getLast? hd
    exact (List.mem_filter.mp this).1
  unfold Exec.included
  simp only []
  cases hs : (dirs.filter (fun d => d.name.value == "skip")).getLast? with
  | none =>
    cases hi : (dirs.filter (fun d => d.name.value == "include")).getLast? with
    | none => rfl
    | some di => simp only [key di (lastMem _ di hi)]
  | some ds =>
    cases hi : (dirs.filter (fun d => d.name.value == "include")).getLast? with
    | none => simp only [key ds (lastMem _ ds hs)]
    | some di => simp only [key ds (lastMem _ ds hs), key di (lastMem _ di hi)]

/-! ## the relation -/

section Rel
variable (s : Schema) (vars vars' : Vars)

/-- the two variable maps agree on `x` -/
def Ag (x : String) : Prop := lookupD vars' x = lookupD vars x

mutual
/-- `RSel P x y`: `y` is `x` up to source locations, with argument lists (and nested selections) replaced by ones that
evaluate alike when the selection is executed at runtime object type `P`, and directives that decide inclusion alike -/
def RSel : String → Selection → Selection → Prop
  | P, .field al nm args dirs sel _, y =>
    ∃ al' nm' args' dirs' sel' loc', y = .field al' nm' args' dirs' sel' loc' ∧
      al'.map (·.value) = al.map (·.value) ∧ nm'.value = nm.value ∧
      Exec.included s vars' dirs' = Exec.included s vars dirs ∧
      ∀ fd, Exec.fieldDef? s P nm.value = some fd →
        getArgumentValues s fd.args args' vars' = getArgumentValues s fd.args args vars ∧
        ∀ T, (s.isObject fd.type.namedName = true → T = fd.type.namedName) → ROpt T sel sel'
  | P, .inline tc dirs ss _, y =>
    ∃ tc' dirs' ss' loc', y = .inline tc' dirs' ss' loc' ∧
      (∀ Q, Exec.condApplies s tc' Q = Exec.condApplies s tc Q) ∧
      Exec.included s vars' dirs' = Exec.included s vars dirs ∧
      (Exec.condApplies s tc P = true → RSet P ss ss')
  | _, .spread n d _, y =>
    ∃ n' d' l', y = .spread n' d' l' ∧ n'.value = n.value ∧ Exec.included s vars' d' = Exec.included s vars d
def ROpt : String → Option SelectionSet → Option SelectionSet → Prop
  | _, none, y => y = none
  | P, some ss, y => ∃ ss', y = some ss' ∧ RSet P ss ss'
def RSet : String → SelectionSet → SelectionSet → Prop
  | P, .mk sels _, y => ∃ sels' loc', y = .mk sels' loc' ∧ RList P sels sels'
def RList : String → List Selection → List Selection → Prop
  | _, [], y => y = []
  | P, x :: xs, y => ∃ x' xs', y = x' :: xs' ∧ RSel P x x' ∧ RList P xs xs'
end

/-! ## identity: an untouched selection is related to itself at every type -/

mutual
theorem RSel_refl : ∀ (x : Selection) (P : String), (∀ v ∈ selVars x, Ag vars vars' v) → RSel s vars vars' P x x
  | .field al nm args dirs sel loc, P, h => by
    simp only [selVars, List.mem_append] at h
    simp only [RSel]
    refine ⟨al, nm, args, dirs, sel, loc, rfl, rfl, rfl,
      included_congr s vars' vars dirs (fun v hv => h v (Or.inl (Or.inr hv))), fun fd _ => ⟨?_, fun T _ => ?_⟩⟩
    · exact getArgumentValues_congr s fd.args args vars' vars (fun v hv => h v (Or.inl (Or.inl hv)))
    · exact ROpt_refl sel T (fun v hv => h v (Or.inr hv))
  | .inline tc dirs ss loc, P, h => by
    simp only [selVars, List.mem_append] at h
    simp only [RSel]
    exact ⟨tc, dirs, ss, loc, rfl, fun _ => rfl, included_congr s vars' vars dirs (fun v hv => h v (Or.inl hv)),
      fun _ => RSet_refl ss P (fun v hv => h v (Or.inr hv))⟩
  | .spread n d l, P, h => by
    simp only [selVars] at h
    simp only [RSel]
    exact ⟨n, d, l, rfl, rfl, included_congr s vars' vars d h⟩
theorem ROpt_refl : ∀ (x : Option SelectionSet) (P : String), (∀ v ∈ optSetVars x, Ag vars vars' v) → ROpt s vars vars' P x x
  | none, P, _ => by simp [ROpt]
  | some ss, P, h => by
    simp only [optSetVars] at h
    simp only [ROpt]
    exact ⟨ss, rfl, RSet_refl ss P h⟩
theorem RSet_refl : ∀ (x : SelectionSet) (P : String), (∀ v ∈ setVars x, Ag vars vars' v) → RSet s vars vars' P x x
  | .mk sels loc, P, h => by
    simp only [setVars] at h
    simp only [RSet]
    exact ⟨sels, loc, rfl, RList_refl sels P h⟩
theorem RList_refl : ∀ (xs : List Selection) (P : String), (∀ v ∈ selsVars xs, Ag vars vars' v) → RList s vars vars' P xs xs
  | [], P, _ => by simp [RList]
  | x :: xs, P, h => by
    simp only [selsVars, List.mem_append] at h
    simp only [RList]
    exact ⟨x, xs, rfl, RSel_refl x P (fun v hv => h v (Or.inl hv)), RList_refl xs P (fun v hv => h v (Or.inr hv))⟩
end

end Rel

/-! ## premises on the operation and the schema -/

mutual
/-- every field-argument value is well-formed (`Reader.WFValue`: names are GraphQL names, number tokens have the
lexer's shape — what the parser produces, C03) -/
def LexSel : Selection → Prop
  | .field _ _ args _ sel _ => (∀ a ∈ args, Reader.WFValue a.value) ∧ LexOpt sel
  | .inline _ _ ss _ => LexSet ss
  | .spread _ _ _ => True
def LexOpt : Option SelectionSet → Prop
  | none => True
  | some ss => LexSet ss
def LexSet : SelectionSet → Prop
  | .mk sels _ => LexList sels
def LexList : List Selection → Prop
  | [] => True
  | x :: xs => LexSel x ∧ LexList xs
end

/-- what schema construction guarantees (C11) and the normaliser relies on: argument names of a field are distinct,
argument types are input types whose names are GraphQL names (and `!` is never doubled), and no user field shadows
the introspection entry points -/
def SchemaOK (s : Schema) : Prop :=
  (∀ P nm fd, fieldDefN s P nm = some fd → (fd.args.map (·.name)).Nodup ∧
    ∀ d ∈ fd.args, isInputType s d.type = true ∧ Reader.WFType (typeRefOf d.type)) ∧
  (∀ P nm fd, Exec.fieldDef? s P nm = some fd → fieldDefN s P nm = some fd)

/-! ## the walk establishes the relation -/

section Walk
variable (s : Schema) (hcc : customLti s) (hsch : SchemaOK s) (vars vars' : Vars)
include hcc hsch

omit hcc hsch in
theorem argsOK_of_lex (defs : List ArgDef)
    (hdefs : ∀ d ∈ defs, isInputType s d.type = true ∧ Reader.WFType (typeRefOf d.type)) (as : List Argument)
    (hl : ∀ a ∈ as, Reader.WFValue a.value) : ArgsOK s defs as := by
  intro a ha d hd
  have := hdefs d (List.mem_of_find?_eq_some hd)
  exact ⟨⟨hl a ha, this.2⟩, this.1⟩

/-- the statement proved for each of the four walk functions -/
def WalkGoal (P : String) (st st' : NState) (rel : Prop) : Prop :=
  rel ∧ EntriesOK s st'.entries ∧ ∃ es, st'.entries = st.entries ++ es

mutual
theorem normSel_rel : ∀ (x : Selection) (P : String) (st : NState) (final : List Entry),
    EntriesOK s st.entries → LexSel x → (∀ v ∈ selVars x, Ag vars vars' v) →
    (∃ es, final = (normSel s keep P x st).2.entries ++ es) → Realises s vars' final →
    WalkGoal s P st (normSel s keep P x st).2 (RSel s vars vars' P x (normSel s keep P x st).1)
  | .field al nm args dirs sel loc, P, st, final, hes, hlex, hag, hfin, hre => by
    simp only [selVars, List.mem_append] at hag
    simp only [LexSel] at hlex
    have hdirs : Exec.included s vars' dirs = Exec.included s vars dirs :=
      included_congr s vars' vars dirs (fun v hv => hag v (Or.inl (Or.inr hv)))
    cases hfd : fieldDefN s P nm.value with
    | none =>
      simp only [normSel, hfd, WalkGoal, RSel]
      refine ⟨⟨al, nm, args, dirs, sel, loc, rfl, rfl, rfl, hdirs, fun fd hfd' => ?_⟩, hes, [], by simp⟩
      rw [hsch.2 P nm.value fd hfd'] at hfd; cases hfd
    | some fd =>
      obtain ⟨hnd, hin⟩ := hsch.1 P nm.value fd hfd
      -- the argument part, for both kinds of field (arguments kept because the response key occurs in a fragment
      -- definition / arguments extracted against the field's definitions)
      have hargs : ∃ esA, (normArgs s (argDefsFor keep (respKey al nm) fd) args st).2.entries = st.entries ++ esA ∧
          EntriesOK s (normArgs s (argDefsFor keep (respKey al nm) fd) args st).2.entries ∧
          (Realises s vars' (normArgs s (argDefsFor keep (respKey al nm) fd) args st).2.entries →
            getArgumentValues s fd.args (normArgs s (argDefsFor keep (respKey al nm) fd) args st).1 vars' =
              getArgumentValues s fd.args args vars) := by
        rcases argDefsFor_cases keep (respKey al nm) fd with ⟨_, hD⟩ | ⟨_, hD⟩
        · rw [hD, normArgs_nil]
          exact ⟨[], by simp, hes, fun _ =>
            getArgumentValues_congr s fd.args args vars' vars (fun v hv => hag v (Or.inl (Or.inl hv)))⟩
        · rw [hD]
          have haok := argsOK_of_lex s fd.args hin args hlex.1
          obtain ⟨⟨esA, hesA⟩, _, _⟩ := normArgs_entries s fd.args args st
          exact ⟨esA, hesA, normArgs_entriesOK s fd.args args st hes haok, fun hreA =>
            normalize_args_transparent_core s hcc fd.args hnd args st vars vars' hes haok
              (fun v hv => hag v (Or.inl (Or.inl hv))) hreA⟩
      obtain ⟨esA, hesA, hesOK1, hargsT⟩ := hargs
      by_cases ho : s.isObject fd.type.namedName = true
      · simp only [normSel, hfd, ho, if_true] at hfin
        simp only [normSel, hfd, ho, if_true, WalkGoal, RSel]
        obtain ⟨esF, hesF⟩ := hfin
        have ihO := normOpt_rel sel fd.type.namedName (normArgs s (argDefsFor keep (respKey al nm) fd) args st).2 final hesOK1 hlex.2
          (fun v hv => hag v (Or.inr hv)) ⟨esF, hesF⟩ hre
        obtain ⟨hrel, hesOK2, esO, hesO⟩ := ihO
        have hreA : Realises s vars' (normArgs s (argDefsFor keep (respKey al nm) fd) args st).2.entries := by
          rw [hesF, hesO, List.append_assoc] at hre; exact realises_prefix hre
        refine ⟨⟨al, nm, _, dirs, _, loc, rfl, rfl, rfl, hdirs, fun fd' hfd' => ?_⟩, hesOK2, esA ++ esO,
          by rw [hesO, hesA, List.append_assoc]⟩
        have : fd' = fd := by
          have := hsch.2 P nm.value fd' hfd'; rw [hfd] at this; exact (Option.some.inj this).symm
        subst this
        refine ⟨hargsT hreA, fun T hT => ?_⟩
        rw [hT ho]; exact hrel
      · simp only [normSel, hfd, ho, Bool.false_eq_true, if_false] at hfin
        simp only [normSel, hfd, ho, Bool.false_eq_true, if_false, WalkGoal, RSel]
        obtain ⟨esF, hesF⟩ := hfin
        have hreA : Realises s vars' (normArgs s (argDefsFor keep (respKey al nm) fd) args st).2.entries := by
          rw [hesF] at hre; exact realises_prefix hre
        refine ⟨⟨al, nm, _, dirs, _, loc, rfl, rfl, rfl, hdirs, fun fd' hfd' => ?_⟩, hesOK1, esA, hesA⟩
        have : fd' = fd := by
          have := hsch.2 P nm.value fd' hfd'; rw [hfd] at this; exact (Option.some.inj this).symm
        subst this
        exact ⟨hargsT hreA, fun T _ => ROpt_refl s vars vars' sel T (fun v hv => hag v (Or.inr hv))⟩
  | .inline tc dirs ss loc, P, st, final, hes, hlex, hag, hfin, hre => by
    simp only [selVars, List.mem_append] at hag
    simp only [LexSel] at hlex
    simp only [normSel] at hfin
    simp only [normSel, WalkGoal, RSel]
    obtain ⟨hrel, hesOK, es, hes'⟩ := normSet_rel ss (inlineParent s P tc) st final hes hlex
      (fun v hv => hag v (Or.inr hv)) hfin hre
    refine ⟨⟨tc, dirs, _, loc, rfl, fun _ => rfl,
      included_congr s vars' vars dirs (fun v hv => hag v (Or.inl hv)), fun hc => ?_⟩, hesOK, es, hes'⟩
    -- when the condition applies at P, the walk's parent is P
    have : inlineParent s P tc = P := by
      cases tc with
      | none => rfl
      | some t =>
        simp only [inlineParent]
        by_cases ho : s.isObject t.namedName = true
        · simp only [ho, if_true]
          simp only [Exec.condApplies, Bool.and_eq_true, Bool.or_eq_true, beq_iff_eq] at hc
          rcases hc.2 with h | h
          · exact h
          · exfalso
            have hab := h.1
            simp only [Schema.isAbstract, Schema.isInterface, Schema.isUnion, Schema.isObject] at hab ho
            cases hf : s.find? t.namedName with
            | none => simp [hf] at ho
            | some td => cases td <;> simp [hf] at ho hab
        · simp [ho]
    have key : ∀ Q, Q = P → RSet s vars vars' Q ss (normSet s keep (inlineParent s P tc) ss st).1 →
        RSet s vars vars' P ss (normSet s keep (inlineParent s P tc) ss st).1 := by
      intro Q hQ h; subst hQ; exact h
    exact key _ this hrel
  | .spread n d l, P, st, final, hes, hlex, hag, hfin, hre => by
    simp only [selVars] at hag
    simp only [normSel, WalkGoal, RSel]
    exact ⟨⟨n, d, l, rfl, rfl, included_congr s vars' vars d hag⟩, hes, [], by simp⟩
theorem normOpt_rel : ∀ (x : Option SelectionSet) (P : String) (st : NState) (final : List Entry),
    EntriesOK s st.entries → LexOpt x → (∀ v ∈ optSetVars x, Ag vars vars' v) →
    (∃ es, final = (normOpt s keep P x st).2.entries ++ es) → Realises s vars' final →
    WalkGoal s P st (normOpt s keep P x st).2 (ROpt s vars vars' P x (normOpt s keep P x st).1)
  | none, P, st, final, hes, _, _, _, _ => by
    simp only [normOpt, WalkGoal]
    exact ⟨by simp [ROpt], hes, [], by simp⟩
  | some ss, P, st, final, hes, hlex, hag, hfin, hre => by
    simp only [optSetVars] at hag
    simp only [LexOpt] at hlex
    simp only [normOpt] at hfin
    simp only [normOpt, WalkGoal, ROpt]
    obtain ⟨hrel, hesOK, es, hes'⟩ := normSet_rel ss P st final hes hlex hag hfin hre
    exact ⟨⟨_, rfl, hrel⟩, hesOK, es, hes'⟩
theorem normSet_rel : ∀ (x : SelectionSet) (P : String) (st : NState) (final : List Entry),
    EntriesOK s st.entries → LexSet x → (∀ v ∈ setVars x, Ag vars vars' v) →
    (∃ es, final = (normSet s keep P x st).2.entries ++ es) → Realises s vars' final →
    WalkGoal s P st (normSet s keep P x st).2 (RSet s vars vars' P x (normSet s keep P x st).1)
  | .mk sels loc, P, st, final, hes, hlex, hag, hfin, hre => by
    simp only [setVars] at hag
    simp only [LexSet] at hlex
    simp only [normSet] at hfin
    simp only [normSet, WalkGoal, RSet]
    obtain ⟨hrel, hesOK, es, hes'⟩ := normList_rel sels P st final hes hlex hag hfin hre
    exact ⟨⟨_, loc, rfl, hrel⟩, hesOK, es, hes'⟩
theorem normList_rel : ∀ (xs : List Selection) (P : String) (st : NState) (final : List Entry),
    EntriesOK s st.entries → LexList xs → (∀ v ∈ selsVars xs, Ag vars vars' v) →
    (∃ es, final = (normList s keep P xs st).2.entries ++ es) → Realises s vars' final →
    WalkGoal s P st (normList s keep P xs st).2 (RList s vars vars' P xs (normList s keep P xs st).1)
  | [], P, st, final, hes, _, _, _, _ => by
    simp only [normList, WalkGoal]
    exact ⟨by simp [RList], hes, [], by simp⟩
  | x :: xs, P, st, final, hes, hlex, hag, hfin, hre => by
    simp only [selsVars, List.mem_append] at hag
    simp only [LexList] at hlex
    simp only [normList] at hfin
    simp only [normList, WalkGoal, RList]
    obtain ⟨esF, hesF⟩ := hfin
    -- the tail first (it knows the final list), then the head
    have hentX : ∃ es, (normList s keep P xs (normSel s keep P x st).2).2.entries = (normSel s keep P x st).2.entries ++ es := by
      exact normList_entries_ext s xs P (normSel s keep P x st).2
    obtain ⟨esT, hesT⟩ := hentX
    have hX := normSel_rel x P st final hes hlex.1 (fun v hv => hag v (Or.inl hv))
      ⟨esT ++ esF, by rw [hesF, hesT, List.append_assoc]⟩ hre
    obtain ⟨hrelX, hesOKX, esX, hesX⟩ := hX
    have hT := normList_rel xs P (normSel s keep P x st).2 final hesOKX hlex.2 (fun v hv => hag v (Or.inr hv))
      ⟨esF, hesF⟩ hre
    obtain ⟨hrelT, hesOKT, esT', hesT'⟩ := hT
    exact ⟨⟨_, _, rfl, hrelX, hrelT⟩, hesOKT, esX ++ esT', by rw [hesT', hesX, List.append_assoc]⟩
end

end Walk

end GqlModel.Normalize
