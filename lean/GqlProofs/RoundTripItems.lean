import GqlProofs.RoundTripLex4
import GqlProofs.LexerRelex
import GqlProofs.PrinterTokens
/-! # C08 byte level — lexing an item list

`LexK items rest` is the invariant the printer's token view satisfies: every separator consists of space / newline /
comma, every token item carries a text that is a lexeme of its kind with its value (`TokText`), and a token that
maximal munch could extend (NAME, INT, FLOAT; strings and block strings for uniformity) is followed — in the rendered
text, `rest` being what comes after the whole list — by nothing or by a delimiter character (`StartsDelim`).

`lexLoopG_items`: under `LexK items []`, C03's spec tokeniser on the UTF-8 bytes of `render items` yields exactly
`lexItems items`: each token with kind, value (UTF-8 of the item's value), byte offsets, and the Ignored gap before it;
then EOF.  All gaps are ASCII. -/
namespace GqlModel.RoundTrip
open GqlModel GqlModel.Lexer GqlModel.Lexer.Spec GqlModel.Printer

/-! ## delimiters on characters -/

def isDelimChar (c : Char) : Bool :=
  c == ' ' || c == '\n' || c == ',' || c == '!' || c == '$' || c == '&' || c == '(' || c == ')' || c == ':' || c == '=' ||
    c == '@' || c == '[' || c == ']' || c == '{' || c == '|' || c == '}'

/-- empty, or the first character is an Ignored character or a one-character punctuator -/
def StartsDelim (cs : Chars) : Prop :=
  match cs with
  | [] => True
  | c :: _ => isDelimChar c = true

theorem delimB_of_startsDelim {cs : Chars} (h : StartsDelim cs) : DelimB (utf8 cs) := by
  cases cs with
  | nil => trivial
  | cons c r =>
    simp only [StartsDelim, isDelimChar, Bool.or_eq_true, beq_iff_eq] at h
    have e : ∀ d : Char, d.toNat < 128 → utf8 (d :: r) = B d :: utf8 r := fun d hd => utf8_cons_ascii d r hd
    rcases h with ((((((((((((((rfl | rfl) | rfl) | rfl) | rfl) | rfl) | rfl) | rfl) | rfl) | rfl) | rfl) | rfl) | rfl) | rfl) | rfl) | rfl
    all_goals (rw [e _ (by decide)]; show isDelimByte _; decide)

/-! ## token texts -/

/-- the character a one-character punctuator is written with -/
def punctChar : TokenKind → Option Char
  | .bang => some '!' | .dollar => some '$' | .amp => some '&' | .parenL => some '(' | .parenR => some ')'
  | .colon => some ':' | .equals => some '=' | .at => some '@' | .bracketL => some '[' | .bracketR => some ']'
  | .braceL => some '{' | .pipe => some '|' | .braceR => some '}'
  | _ => none

/-- kinds whose lexeme maximal munch could extend into the next characters -/
def sticky : TokenKind → Bool
  | .name | .int | .float | .string | .blockString => true
  | _ => false

/-- `t` is a way of writing a token of kind `k` with value `v` that the printer uses -/
def TokText (k : TokenKind) (v : String) (t : Chars) : Prop :=
  match k with
  | .name => t = v.toList ∧ Reader.isNameC t = true
  | .int => t = v.toList ∧ Reader.isIntLit t = true
  | .float => t = v.toList ∧ Reader.IsFloatLit t
  | .string => t = quoteC v.toList
  | .blockString => descBlockSafeC v.toList = true ∧ ∃ j, t = indentIter j (descText v.toList)
  | .spread => v = "" ∧ t = ['.', '.', '.']
  | .eof => False
  | k => v = "" ∧ ∃ c, punctChar k = some c ∧ t = [c]

theorem punctChar_byte {k : TokenKind} {c : Char} (h : punctChar k = some c) :
    utf8 [c] = [B c] ∧ punctuatorByte (B c) = some k := by
  cases k <;> simp only [punctChar, Option.some.injEq, reduceCtorEq] at h <;> subst h <;>
    exact ⟨by decide, by decide⟩

theorem utf8_empty_string : utf8 ("" : String).toList = [] := by decide

/-- **one token**: the spec tokeniser on the text of a token item followed by the rest of the rendered text -/
theorem tokText_token {k : TokenKind} {v : String} {t : Chars} (h : TokText k v t) (restB : List UInt8)
    (hr : sticky k = true → DelimB restB) :
    token (utf8 t ++ restB) = .ok (k, (utf8 t).length, utf8 v.toList) ∧ 0 < (utf8 t).length := by
  have hq : DelimB restB → restB.head? ≠ some 34 := by
    intro hd
    cases restB with
    | nil => simp
    | cons b r =>
      simp only [List.head?_cons, ne_eq, Option.some.injEq]
      exact (delim_not_num (show isDelimByte b from hd)).2.2.2
  have pun : ∀ k' : TokenKind, (v = "" ∧ ∃ c, punctChar k' = some c ∧ t = [c]) →
      token (utf8 t ++ restB) = .ok (k', (utf8 t).length, utf8 v.toList) ∧ 0 < (utf8 t).length := by
    rintro k' ⟨rfl, c, hc, rfl⟩
    obtain ⟨hb, hp⟩ := punctChar_byte hc
    rw [hb, utf8_empty_string]
    exact ⟨token_punct_lit (B c) k' hp restB, by simp⟩
  cases k with
  | name =>
    obtain ⟨rfl, hn⟩ := h
    refine ⟨token_name_lit _ restB hn (hr rfl), ?_⟩
    match v.toList, hn with
    | c :: r, _ => rw [utf8_cons]; have := enc_length_pos c; simp only [List.length_append]; omega
  | int =>
    obtain ⟨rfl, hn⟩ := h
    refine ⟨token_int_lit _ restB hn (hr rfl), ?_⟩
    match v.toList, hn with
    | c :: r, _ => rw [utf8_cons]; have := enc_length_pos c; simp only [List.length_append]; omega
  | float =>
    obtain ⟨rfl, hn⟩ := h
    refine ⟨token_float_lit _ restB hn (hr rfl), ?_⟩
    obtain ⟨ip, fp, ep, e, hip, _⟩ := hn
    rw [e]
    match ip, hip with
    | c :: r, _ => simp only [List.cons_append, utf8_cons]; have := enc_length_pos c; simp only [List.length_append]; omega
  | string =>
    have ht : t = quoteC v.toList := h
    subst ht
    refine ⟨token_string_lit _ restB (hq (hr rfl)), ?_⟩
    simp [quoteC, enc_quote]
  | blockString =>
    obtain ⟨hs, j, rfl⟩ := h
    refine ⟨token_block_lit j _ restB hs, ?_⟩
    rw [utf8_descText]; simp [Block.blockText]
  | spread =>
    obtain ⟨rfl, rfl⟩ := h
    have e : utf8 ['.', '.', '.'] = [46, 46, 46] := by decide
    rw [e, utf8_empty_string]
    exact ⟨token_spread_lit restB, by simp⟩
  | eof => exact absurd h id
  | bang => exact pun _ h
  | dollar => exact pun _ h
  | amp => exact pun _ h
  | parenL => exact pun _ h
  | parenR => exact pun _ h
  | colon => exact pun _ h
  | equals => exact pun _ h
  | «at» => exact pun _ h
  | bracketL => exact pun _ h
  | bracketR => exact pun _ h
  | braceL => exact pun _ h
  | pipe => exact pun _ h
  | braceR => exact pun _ h

/-! ## the invariant -/

def LexK : List Item → Chars → Prop
  | [], _ => True
  | .sep t :: is, rest => t.all isIgnoredChar = true ∧ LexK is rest
  | .tok k v t :: is, rest => TokText k v t ∧ (sticky k = true → StartsDelim (render is ++ rest)) ∧ LexK is rest

/-- what the tokeniser is expected to produce: (gap, token) pairs, then EOF -/
def lexItems : List Item → List UInt8 → Nat → List (List UInt8 × LTok)
  | [], g, off => [(g, ⟨.eof, off + g.length, off + g.length, []⟩)]
  | .sep t :: is, g, off => lexItems is (g ++ utf8 t) off
  | .tok k v t :: is, g, off =>
    (g, ⟨k, off + g.length, off + g.length + (utf8 t).length, utf8 v.toList⟩) ::
      lexItems is [] (off + g.length + (utf8 t).length)

/-- a run of space / newline / comma bytes -/
def IgnB (g : List UInt8) : Prop := ∀ b ∈ g, b = 32 ∨ b = 10 ∨ b = 44

theorem ignB_utf8 {t : Chars} (h : t.all isIgnoredChar = true) : IgnB (utf8 t) := by
  induction t with
  | nil => intro b hb; simp at hb
  | cons c cs ih =>
    simp only [List.all_cons, Bool.and_eq_true] at h
    intro b hb
    have hc : c = ' ' ∨ c = '\n' ∨ c = ',' := by
      have := h.1; simp only [isIgnoredChar, Bool.or_eq_true, beq_iff_eq] at this
      rcases this with (h | h) | h
      · exact Or.inl h
      · exact Or.inr (Or.inl h)
      · exact Or.inr (Or.inr h)
    rw [utf8_cons] at hb
    rcases List.mem_append.mp hb with hb | hb
    · rcases hc with rfl | rfl | rfl
      · have e : String.utf8EncodeChar ' ' = [32] := by decide
        rw [e] at hb; simp at hb; exact Or.inl hb
      · have e : String.utf8EncodeChar '\n' = [10] := by decide
        rw [e] at hb; simp at hb; exact Or.inr (Or.inl hb)
      · have e : String.utf8EncodeChar ',' = [44] := by decide
        rw [e] at hb; simp at hb; exact Or.inr (Or.inr hb)
    · exact ih h.2 b hb

theorem ignB_append {a b : List UInt8} (ha : IgnB a) (hb : IgnB b) : IgnB (a ++ b) := by
  intro x hx
  rcases List.mem_append.mp hx with h | h
  · exact ha x h
  · exact hb x h

theorem ignoredLen_gap : ∀ (g X : List UInt8), IgnB g → ignoredLen false (g ++ X) = g.length + ignoredLen false X
  | [], X, _ => by simp
  | b :: g, X, h => by
    have hb : b = 9 ∨ b = 32 ∨ b = 10 ∨ b = 13 ∨ b = 44 := by
      rcases h b (by simp) with h | h | h
      · exact Or.inr (Or.inl h)
      · exact Or.inr (Or.inr (Or.inl h))
      · exact Or.inr (Or.inr (Or.inr (Or.inr h)))
    rw [List.cons_append, ignoredLen_false_cons, if_pos hb, ignoredLen_gap g X (fun x hx => h x (by simp [hx]))]
    simp only [List.length_cons]; omega

theorem hasHigh_ignB {g : List UInt8} (h : IgnB g) : hasHigh g = false := by
  simp only [hasHigh, List.any_eq_false, decide_eq_true_eq, Nat.not_le]
  intro b hb
  rcases h b hb with rfl | rfl | rfl <;> decide

/-- **the token stream of rendered items** (spec tokeniser) -/
theorem lexLoopG_items : ∀ (is : List Item) (g : List UInt8) (off f : Nat), LexK is [] → IgnB g →
    (g ++ utf8 (render is)).length < f →
    lexLoopG f (g ++ utf8 (render is)) off = ⟨lexItems is g off, none⟩
  | [], g, off, f, _, hg, hf => by
    match f, hf with
    | f + 1, _ =>
      simp only [render_nil, utf8_nil, List.append_nil]
      have hi : ignoredLen false g = g.length := by
        have := ignoredLen_gap g [] hg
        simpa [ignoredLen] using this
      have hd : g.drop (ignoredLen false g) = [] := by rw [hi]; exact List.drop_length
      rw [lexLoopG_eof f g off hd, hi, List.take_length]
      rfl
  | .sep t :: is, g, off, f, hk, hg, hf => by
    have e : g ++ utf8 (render (.sep t :: is)) = (g ++ utf8 t) ++ utf8 (render is) := by
      simp [Item.text]
    rw [e] at hf ⊢
    exact lexLoopG_items is (g ++ utf8 t) off f hk.2 (ignB_append hg (ignB_utf8 hk.1)) hf
  | .tok k v t :: is, g, off, f, hk, hg, hf => by
    obtain ⟨ht, hfollow, hrest⟩ := hk
    have hr : sticky k = true → DelimB (utf8 (render is)) := by
      intro hs
      have := hfollow hs
      rw [List.append_nil] at this
      exact delimB_of_startsDelim this
    obtain ⟨htok, hpos⟩ := tokText_token ht (utf8 (render is)) hr
    have e : g ++ utf8 (render (.tok k v t :: is)) = g ++ (utf8 t ++ utf8 (render is)) := by
      simp [Item.text]
    rw [e] at hf ⊢
    match hX : utf8 t ++ utf8 (render is), htok with
    | [], htok => simp [token] at htok
    | c :: r, htok =>
      match f, hf with
      | f + 1, hf =>
        have hi : ignoredLen false (g ++ c :: r) = g.length := by
          rw [ignoredLen_gap g _ hg, token_ok_ignoredLen htok]; rfl
        have hd : (g ++ c :: r).drop (ignoredLen false (g ++ c :: r)) = c :: r := by
          rw [hi]; exact List.drop_left
        rw [lexLoopG_ok f (g ++ c :: r) off hd htok, hi]
        have hdrop : (c :: r).drop (utf8 t).length = [] ++ utf8 (render is) := by
          rw [← hX]; simp
        have hlen : ([] ++ utf8 (render is)).length < f := by
          simp only [List.nil_append]
          simp only [List.length_append] at hf
          omega
        rw [hdrop, lexLoopG_items is [] _ f hrest (by intro b hb; simp at hb) hlen]
        simp only [List.take_left', lexItems, makeToken]

/-- every gap of the expected stream is ASCII -/
theorem lexItems_gaps : ∀ (is : List Item) (g : List UInt8) (off : Nat), LexK is [] → IgnB g →
    ∀ gt ∈ lexItems is g off, hasHigh gt.1 = false
  | [], g, off, _, hg, gt, hgt => by
    simp only [lexItems, List.mem_cons, List.mem_nil_iff, or_false] at hgt
    subst hgt; exact hasHigh_ignB hg
  | .sep t :: is, g, off, hk, hg, gt, hgt =>
    lexItems_gaps is (g ++ utf8 t) off hk.2 (ignB_append hg (ignB_utf8 hk.1)) gt hgt
  | .tok k v t :: is, g, off, hk, hg, gt, hgt => by
    simp only [lexItems, List.mem_cons] at hgt
    rcases hgt with rfl | hgt
    · exact hasHigh_ignB hg
    · exact lexItems_gaps is [] _ hk.2.2 (by intro b hb; simp at hb) gt hgt

end GqlModel.RoundTrip
