import GqlProofs.CoerceArgs
/-! C05: every Int-typed position of a coerced value holds null or an integer within 32 bits (structural
version of `int_range`): lists, non-null wrappers, nested input objects; values copied from schema defaults are
covered by a premise on the schema (the library copies them uncoerced). -/
set_option linter.unusedSimpArgs false
namespace GqlModel.Coerce

def intOK : JVal → Bool
  | .null => true
  | .int i => inInt32 i
  | _ => false

/-- every position of declared type Int inside `r` (read against type `t`) holds null or a 32-bit integer -/
def rangeStep (s : Schema) (self : GType → JVal → Bool) : GType → JVal → Bool
  | .nonNull t, r => rangeStep s self t r
  | .list t, r =>
    match r with
    | .list xs => xs.all (rangeStep s self t)
    | _ => true
  | .named n, r =>
    match s.find? n with
    | some (.scalar _ .int _) => intOK r
    | some (.inputObject _ fields _) =>
      match r with
      | .obj kv => fields.all (fun f => self f.type (lookupD kv f.name))
      | _ => true
    | _ => true

def intsInRangeF (s : Schema) : Nat → GType → JVal → Bool := iter (fun _ _ => true) (rangeStep s)

/-- fuel-free: any fuel above the nesting depth of `r` -/
def intsInRange (s : Schema) (t : GType) (r : JVal) : Bool := intsInRangeF s (odepth r + 1) t r

/-- schema premise: the configured input-field defaults respect the Int range -/
def defaultsInRange (s : Schema) : Prop :=
  ∀ n nm fields d, s.find? n = some (.inputObject nm fields d) →
    ∀ f ∈ fields, ∀ dv, f.default = some dv → ∀ m, intsInRangeF s m f.type dv = true

theorem rangeStep_null (s : Schema) (self : GType → JVal → Bool) (t : GType) : rangeStep s self t .null = true := by
  induction t with
  | nonNull t ih => simpa [rangeStep] using ih
  | list t ih => simp [rangeStep]
  | named n =>
    simp only [rangeStep]
    split <;> simp [intOK]

theorem intsInRangeF_null (s : Schema) (n : Nat) (t : GType) : intsInRangeF s n t .null = true := by
  cases n with
  | zero => rfl
  | succ n => exact rangeStep_null s _ t

theorem intOK_coerceInt (v : JVal) : intOK (coerceInt v) = true := by
  cases h : coerceInt v with
  | int i => exact coerceInt_range v i h
  | null => rfl
  | _ =>
    exfalso
    cases v <;> simp only [coerceInt, intOfDec] at h <;> (repeat' split at h) <;> cases h

theorem fieldEntry_cases (f : InputFieldS) (c : JVal) :
    (c.isNull = false ∧ fieldEntry f c = some (f.name, c)) ∨
    (c.isNull = true ∧ (f.default.getD .null).isNull = false ∧ fieldEntry f c = some (f.name, f.default.getD .null)) ∨
    (c.isNull = true ∧ (f.default.getD .null).isNull = true ∧ fieldEntry f c = none) := by
  unfold fieldEntry entryOf
  cases hc : c.isNull
  · left; simp [hc]
  · right
    cases hd : (f.default.getD .null).isNull
    · left; simp [hd]
    · right; simp [hd]

/-! ## lookup in a map built by assignments -/

theorem lookup_insertSorted (k : String) (v : JVal) (l : List (String × JVal)) (k' : String) :
    JVal.lookup (JVal.insertSorted k v l) k' = if k == k' then some v else JVal.lookup l k' := by
  induction l with
  | nil =>
    simp only [JVal.insertSorted, JVal.lookup, List.find?]
    by_cases h : (k == k') = true <;> simp [h]
  | cons p ps ih =>
    obtain ⟨k0, v0⟩ := p
    simp only [JVal.insertSorted]
    by_cases hlt : k < k0
    · simp only [hlt, if_true, JVal.lookup, List.find?]
      by_cases h : (k == k') = true <;> simp [h]
    · simp only [hlt, if_false]
      by_cases heq : (k == k0) = true
      · simp only [heq, if_true, JVal.lookup, List.find?]
        have : k0 = k := (beq_iff_eq.mp heq).symm
        subst this
        by_cases h : (k0 == k') = true <;> simp [h]
      · simp only [heq, Bool.false_eq_true, if_false]
        simp only [JVal.lookup, List.find?] at ih ⊢
        by_cases h0 : (k0 == k') = true
        · have hk : (k == k') = false := by
            have e0 : k0 = k' := beq_iff_eq.mp h0
            subst e0
            simpa using heq
          simp [h0, hk]
        · simp only [h0]
          exact ih

theorem lookupD_insertSorted (k : String) (v : JVal) (l : List (String × JVal)) (k' : String) :
    lookupD (JVal.insertSorted k v l) k' = if k == k' then v else lookupD l k' := by
  simp only [lookupD, lookup_insertSorted]
  by_cases h : (k == k') = true <;> simp [h]

theorem lookupD_foldl_not_mem (es : List (String × JVal)) (acc : List (String × JVal)) (k : String)
    (h : ∀ e ∈ es, e.1 ≠ k) :
    lookupD (es.foldl (fun acc e => JVal.insertSorted e.1 e.2 acc) acc) k = lookupD acc k := by
  induction es generalizing acc with
  | nil => rfl
  | cons e es ih =>
    simp only [List.foldl_cons]
    rw [ih _ (fun e' he' => h e' (by simp [he']))]
    rw [lookupD_insertSorted]
    have : (e.1 == k) = false := by simpa using h e (by simp)
    simp [this]

theorem lookupD_entries (fields : List InputFieldS) (c : InputFieldS → JVal) (acc : List (String × JVal))
    (hnd : (fields.map (·.name)).Nodup) (f : InputFieldS) (hf : f ∈ fields) :
    lookupD ((fields.filterMap (fun f => fieldEntry f (c f))).foldl (fun acc e => JVal.insertSorted e.1 e.2 acc) acc) f.name =
      match fieldEntry f (c f) with
      | some e => e.2
      | none => lookupD acc f.name := by
  have hkey : ∀ (g : InputFieldS) (e : String × JVal), fieldEntry g (c g) = some e → e.1 = g.name := by
    intro g e he
    rcases fieldEntry_cases g (c g) with ⟨_, h⟩ | ⟨_, _, h⟩ | ⟨_, _, h⟩ <;> rw [h] at he
    · cases he; rfl
    · cases he; rfl
    · cases he
  induction fields generalizing acc with
  | nil => cases hf
  | cons f0 fs ih =>
    simp only [List.map_cons, List.nodup_cons] at hnd
    have hnot : ∀ (k : String), k ∉ fs.map (·.name) → ∀ e ∈ fs.filterMap (fun f => fieldEntry f (c f)), e.1 ≠ k := by
      intro k hk e he
      obtain ⟨g, hg, hge⟩ := List.mem_filterMap.mp he
      rw [hkey g e hge]
      intro heq
      exact hk (heq ▸ List.mem_map.mpr ⟨g, hg, rfl⟩)
    rcases List.mem_cons.mp hf with rfl | hmem
    · cases he : fieldEntry f (c f) with
      | none =>
        simp only [List.filterMap_cons, he]
        exact lookupD_foldl_not_mem _ _ _ (hnot f.name hnd.1)
      | some e =>
        simp only [List.filterMap_cons, he, List.foldl_cons]
        rw [lookupD_foldl_not_mem _ _ _ (hnot f.name hnd.1), lookupD_insertSorted, hkey f e he]
        simp
    · have hne : f0.name ≠ f.name := fun e => hnd.1 (e ▸ List.mem_map.mpr ⟨f, hmem, rfl⟩)
      cases he : fieldEntry f0 (c f0) with
      | none =>
        simp only [List.filterMap_cons, he]
        exact ih acc hnd.2 hmem
      | some e =>
        simp only [List.filterMap_cons, he, List.foldl_cons]
        rw [ih _ hnd.2 hmem]
        cases fieldEntry f (c f) with
        | some e' => rfl
        | none =>
          simp only
          rw [lookupD_insertSorted, hkey f0 e he]
          have : (f0.name == f.name) = false := by simpa using hne
          simp [this]

/-! ## the step and the theorem -/

theorem rangeStep_coerce (s : Schema) (hwf : inputFieldsNodup s)
    (selfC : GType → JVal → JVal) (selfR : GType → JVal → Bool)
    (ihC : ∀ t v, selfR t (selfC t v) = true) (ihN : ∀ t, selfR t .null = true)
    (ihD : ∀ n nm fields d, s.find? n = some (.inputObject nm fields d) →
      ∀ f ∈ fields, ∀ dv, f.default = some dv → selfR f.type dv = true) :
    ∀ t v, rangeStep s selfR t (coerceStep s selfC t v) = true := by
  intro t
  induction t with
  | nonNull t ih =>
    intro v
    simp only [coerceStep, rangeStep]
    split
    · exact rangeStep_null s selfR t
    · exact ih v
  | list t ih =>
    intro v
    cases v with
    | null => simp [coerceStep, rangeStep]
    | list xs =>
      simp only [coerceStep, rangeStep, List.all_eq_true, List.mem_map]
      rintro r ⟨x, _, rfl⟩
      exact ih x
    | _ => simp [coerceStep, rangeStep, ih]
  | named n =>
    intro v
    simp only [coerceStep]
    split
    · exact rangeStep_null s selfR _
    · simp only [rangeStep]
      cases hf : s.find? n with
      | none => rfl
      | some td =>
        cases td with
        | scalar nm k d =>
          cases k <;> simp only [parseValue]
          exact intOK_coerceInt v
        | inputObject nm fields d =>
          have hentry : ∀ (c : InputFieldS → JVal), (∀ f, selfR f.type (c f) = true) →
              fields.all (fun f => selfR f.type
                (lookupD (mkObj (fields.filterMap (fun f => fieldEntry f (c f)))) f.name)) = true := by
            intro c hc
            simp only [List.all_eq_true]
            intro f hfm
            rw [mkObj, lookupD_entries fields c [] (hwf n nm fields d hf) f hfm]
            rcases fieldEntry_cases f (c f) with ⟨_, h⟩ | ⟨_, hdn, h⟩ | ⟨_, _, h⟩ <;> rw [h]
            · exact hc f
            · simp only
              cases hdv : f.default with
              | none => rw [hdv] at hdn; simp [JVal.isNull] at hdn
              | some dv => simpa using ihD n nm fields d hf f hfm dv hdv
            · simpa [lookupD, JVal.lookup] using ihN f.type
          cases v with
          | obj kv => exact hentry (fun f => selfC f.type (lookupD kv f.name)) (fun f => ihC _ _)
          | _ => exact hentry (fun _ => .null) (fun f => ihN f.type)
        | _ => rfl

theorem coerceValueF_intsInRange (s : Schema) (hwf : inputFieldsNodup s) (hd : defaultsInRange s) :
    ∀ (n : Nat) (t : GType) (v : JVal), intsInRangeF s n t (coerceValueF s n t v) = true := by
  intro n
  induction n with
  | zero => intro t v; rfl
  | succ n ih =>
    intro t v
    exact rangeStep_coerce s hwf _ _ ih (intsInRangeF_null s n) (fun n' nm fields d hf f hfm dv hdv => hd n' nm fields d hf f hfm dv hdv n) t v

end GqlModel.Coerce
