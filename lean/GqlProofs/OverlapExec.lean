import GqlProofs.ValidateOverlapComplete
import GqlModel.Exec
/-! # Bridge C02 → C01/C06, part 1: what the executor's `CollectFields` collects are fields of the flattened set

`Exec.collect c rt sel` (runtime object type `rt`) only collects field nodes that *represent* (`Rep`) fields of the
flattened field set `Overlap.flat` of `sel` — through inline fragments and named spreads whose type conditions admit
`rt` — and the static parent type of each collected field admits `rt` (`Adm`): if it is an object type it IS `rt`, if
it is an interface, it is `rt` itself or `rt` implements it. `GInv` is the invariant of the collected groups. -/
namespace GqlModel.OverlapExec
open GqlModel GqlModel.Validate GqlModel.Validate.Graph GqlModel.Validate.Overlap

abbrev ENode := GqlModel.Exec.FieldNode

/-- the executor's field node is this field occurrence -/
def Rep (a : FieldOcc) (n : ENode) : Prop :=
  a.node.alias.map (·.value) = n.alias ∧ a.node.name.value = n.name ∧ a.node.args = n.args ∧
  a.node.sel = n.sel ∧ a.node.loc = n.loc

theorem Rep.key {a : FieldOcc} {n : ENode} (h : Rep a n) : a.node.key = n.key := by
  rcases h with ⟨h1, h2, _⟩
  unfold Overlap.FieldNode.key Exec.FieldNode.key
  rw [← h1, ← h2]
  cases a.node.alias <;> rfl

/-- the static parent type `m` admits the runtime object type `rt` -/
def Adm (s : Schema) (rt m : String) : Prop :=
  (s.objectT m = true → m = rt) ∧ (s.isInterface m = true → m = rt ∨ s.isPossibleType m rt = true)

def PtAdm (s : Schema) (rt : String) (pt : Option String) : Prop := ∀ m, pt = some m → Adm s rt m

theorem isObject_of_objectT {s : Schema} {m : String} (h : s.objectT m = true) (hf : (s.find? m).isSome = true) :
    s.isObject m = true := by
  unfold Schema.objectT Schema.lookup at h
  unfold Schema.isObject
  cases hfm : s.find? m with
  | none => rw [hfm] at hf; cases hf
  | some td =>
    rw [hfm] at h
    simp only at h
    by_cases hc : (isSpecScalarDef td && !(m == "String" || m == "Boolean" || s.referenced.contains m)) = true
    · rw [if_pos hc] at h; cases h
    · rw [if_neg hc] at h
      cases td <;> simp_all

theorem adm_of_cond {s : Schema} {rt : String} {t : TypeRef} {m : String}
    (hn : namedOf s t = some m) (hc : Exec.condApplies s (some t) rt = true) : Adm s rt m := by
  have hm : t.namedName = m := by
    cases t with
    | named n l =>
      simp only [namedOf] at hn
      split at hn
      · simpa [TypeRef.namedName] using hn
      · cases hn
    | list _ _ => simp [namedOf] at hn
    | nonNull _ _ => simp [namedOf] at hn
  simp only [Exec.condApplies, hm, Bool.and_eq_true, Bool.or_eq_true, beq_iff_eq] at hc
  obtain ⟨hfind, hor⟩ := hc
  constructor
  · intro hobj
    have hio := isObject_of_objectT hobj hfind
    rcases hor with h | h
    · exact h
    · exfalso
      have : s.isAbstract m = true := h.1
      unfold Schema.isAbstract Schema.isInterface Schema.isUnion at this
      unfold Schema.isObject at hio
      cases hfm : s.find? m with
      | none => simp [hfm] at hio
      | some td => cases td <;> simp_all
  · intro _
    rcases hor with h | h
    · exact .inl h
    · exact .inr h.2

variable (s : Schema) (d : Document)

/-- invariant of collected groups: every node sits under its response key, represents a field of the universe `U`,
and its static parent type admits the runtime type -/
def GInv (U : FieldOcc → Prop) (rt : String) (g : Exec.Groups) : Prop :=
  ∀ p, p ∈ g → ∀ n, n ∈ p.2 → n.key = p.1 ∧ ∃ a, Rep a n ∧ U a ∧ PtAdm s rt a.parent

theorem ginv_add {U : FieldOcc → Prop} {rt : String} {g : Exec.Groups} (hg : GInv s U rt g) (f : ENode) (a : FieldOcc)
    (hr : Rep a f) (hu : U a) (hp : PtAdm s rt a.parent) : GInv s U rt (g.add f) := by
  intro p hp' n hn
  unfold Exec.Groups.add at hp'
  split at hp'
  · rcases List.mem_map.1 hp' with ⟨q, hq, rfl⟩
    by_cases hk : (q.1 == f.key) = true
    · simp only [hk, if_true] at hn ⊢
      rcases List.mem_append.1 hn with hn | hn
      · exact hg q hq n hn
      · simp only [List.mem_singleton] at hn
        subst hn
        exact ⟨(by simpa using hk : q.1 = n.key).symm, a, hr, hu, hp⟩
    · simp only [hk, if_false] at hn ⊢
      exact hg q hq n hn
  · rcases List.mem_append.1 hp' with hp' | hp'
    · exact hg p hp' n hn
    · simp only [List.mem_singleton] at hp'
      subst hp'
      simp only [List.mem_singleton] at hn
      subst hn
      exact ⟨rfl, a, hr, hu, hp⟩

abbrev e : Env := envM s d

/-- the traversal position stays inside the universe -/
def SubSel (U : FieldOcc → Prop) (pt : Option String) (x : Selection) : Prop :=
  (∀ a, a ∈ directSel (e s d) pt x → U a) ∧ (∀ r, r ∈ shallowSel x → ∀ a, FlatFrag (e s d) r a → U a)
def SubSet (U : FieldOcc → Prop) (pt : Option String) (x : SelectionSet) : Prop :=
  (∀ a, a ∈ directSet (e s d) pt x → U a) ∧ (∀ r, r ∈ shallowSet x → ∀ a, FlatFrag (e s d) r a → U a)
def SubSels (U : FieldOcc → Prop) (pt : Option String) (x : List Selection) : Prop :=
  (∀ a, a ∈ directSels (e s d) pt x → U a) ∧ (∀ r, r ∈ shallowSels x → ∀ a, FlatFrag (e s d) r a → U a)

/-- what the expansion of a named spread must preserve -/
def ExpandOK (U : FieldOcc → Prop) (rt : String)
    (expand : String → Exec.Groups × List String → Exec.Groups × List String) : Prop :=
  ∀ r acc, (∀ a, FlatFrag (e s d) r a → U a) → GInv s U rt acc.1 → GInv s U rt (expand r acc).1

mutual
theorem collectSel_inv (c : Exec.Ctx) (hs : c.schema = s) (U : FieldOcc → Prop) (rt : String)
    (expand : String → Exec.Groups × List String → Exec.Groups × List String) (hex : ExpandOK s d U rt expand) :
    ∀ (x : Selection) (pt : Option String) (acc : Exec.Groups × List String), PtAdm s rt pt → SubSel s d U pt x →
      GInv s U rt acc.1 → GInv s U rt (Exec.collectSel c rt expand x acc).1
  | .field al nm args dirs sel loc, pt, (g, vis), hpt, hsub, hg => by
    simp only [Exec.collectSel]
    split
    · refine ginv_add s hg _ ⟨pt, ⟨al, nm, args, sel, loc⟩, pt.bind (fun p => (e s d).lk p nm.value)⟩
        ⟨rfl, rfl, rfl, rfl, rfl⟩ (hsub.1 _ (by simp [directSel])) hpt
    · exact hg
  | .inline tc dirs ss loc, pt, acc, hpt, hsub, hg => by
    simp only [Exec.collectSel]
    split
    · rename_i hcond
      simp only [Bool.and_eq_true] at hcond
      refine collectSet_inv c hs U rt expand hex ss _ acc ?_ ⟨fun a ha => hsub.1 a ha, fun r hr => hsub.2 r hr⟩ hg
      cases tc with
      | none => exact hpt
      | some t =>
        intro m hm
        exact adm_of_cond hm (hs ▸ hcond.2)
    · exact hg
  | .spread nm dirs loc, pt, acc, hpt, hsub, hg => by
    simp only [Exec.collectSel]
    split
    · exact hex nm.value acc (hsub.2 nm.value (by simp [shallowSel])) hg
    · exact hg
theorem collectSet_inv (c : Exec.Ctx) (hs : c.schema = s) (U : FieldOcc → Prop) (rt : String)
    (expand : String → Exec.Groups × List String → Exec.Groups × List String) (hex : ExpandOK s d U rt expand) :
    ∀ (x : SelectionSet) (pt : Option String) (acc : Exec.Groups × List String), PtAdm s rt pt → SubSet s d U pt x →
      GInv s U rt acc.1 → GInv s U rt (Exec.collectSet c rt expand x acc).1
  | .mk sels l, pt, acc, hpt, hsub, hg => by
    simp only [Exec.collectSet]
    exact collectList_inv c hs U rt expand hex sels pt acc hpt hsub hg
theorem collectList_inv (c : Exec.Ctx) (hs : c.schema = s) (U : FieldOcc → Prop) (rt : String)
    (expand : String → Exec.Groups × List String → Exec.Groups × List String) (hex : ExpandOK s d U rt expand) :
    ∀ (x : List Selection) (pt : Option String) (acc : Exec.Groups × List String), PtAdm s rt pt → SubSels s d U pt x →
      GInv s U rt acc.1 → GInv s U rt (Exec.collectList c rt expand x acc).1
  | [], pt, acc, _, _, hg => by simpa [Exec.collectList] using hg
  | x :: xs, pt, acc, hpt, hsub, hg => by
    simp only [Exec.collectList]
    refine collectList_inv c hs U rt expand hex xs pt _ hpt
      ⟨fun a ha => hsub.1 a (by simp [directSels, ha]), fun r hr => hsub.2 r (by simp [shallowSels, hr])⟩ ?_
    exact collectSel_inv c hs U rt expand hex x pt acc hpt
      ⟨fun a ha => hsub.1 a (by simp [directSels, ha]), fun r hr => hsub.2 r (by simp [shallowSels, hr])⟩ hg
end

/-- the executor's fragment map and `ValidationContext.Fragment` agree (unique fragment names) -/
theorem frag_lookup (hnd : (fragNames (fragDefs d)).Nodup) (c : Exec.Ctx) (hf : c.frags = d.fragments) {n : String}
    {tc : TypeRef} {sel : SelectionSet} (h : c.frag? n = some (tc, sel)) :
    ∃ f, lookupFrag (fragDefs d) n = some f ∧ f.typeCond = tc ∧ f.sel = sel := by
  unfold Exec.Ctx.frag? at h
  cases hl : (c.frags.filter (fun p => p.1 == n)).getLast? with
  | none => simp [hl] at h
  | some p =>
    obtain ⟨k, df⟩ := p
    rw [hl] at h
    have hm := List.mem_filter.mp (List.mem_of_getLast? hl)
    have hk : k = n := by simpa using hm.2
    subst hk
    cases df with
    | fragment nm t ds sl l =>
      simp only [Option.some.injEq, Prod.mk.injEq] at h
      obtain ⟨rfl, rfl⟩ := h
      have hmem : (k, Definition.fragment nm t ds sl l) ∈ d.fragments := hf ▸ hm.1
      simp only [Document.fragments, List.mem_filterMap] at hmem
      rcases hmem with ⟨df, hdf, hmatch⟩
      cases df with
      | fragment nm' t' ds' sl' l' =>
        simp at hmatch
        obtain ⟨hk, h1, h2, h3, h4, h5⟩ := hmatch
        have hin : (⟨nm', t', ds', sl', l'⟩ : Frag) ∈ fragDefs d := by
          simp only [fragDefs, List.mem_filterMap]
          exact ⟨_, hdf, rfl⟩
        have := lookupFrag_self hnd hin
        simp only at this
        rw [hk] at this
        exact ⟨_, this, h2, h4⟩
      | _ => simp at hmatch
    | _ => simp at h

theorem expandSpread_ok (hnd : (fragNames (fragDefs d)).Nodup) (c : Exec.Ctx) (hs : c.schema = s)
    (hf : c.frags = d.fragments) (U : FieldOcc → Prop) (rt : String) :
    ∀ fuel, ExpandOK s d U rt (Exec.expandSpread c rt fuel) := by
  intro fuel
  induction fuel with
  | zero => intro r acc _ hg; simpa [Exec.expandSpread] using hg
  | succ fuel ih =>
    intro r acc hU hg
    obtain ⟨g, vis⟩ := acc
    simp only [Exec.expandSpread]
    split
    · exact hg
    · cases hfr : c.frag? r with
      | none => exact hg
      | some p =>
        obtain ⟨tc, sel⟩ := p
        simp only
        rcases frag_lookup d hnd c hf hfr with ⟨f, hl, rfl, rfl⟩
        split
        · rename_i hcond
          refine collectSet_inv s d c hs U rt _ ih f.sel (namedOf s f.typeCond) _ ?_ ⟨?_, ?_⟩ hg
          · intro m hm
            exact adm_of_cond hm (hs ▸ hcond)
          · intro a ha
            exact hU a ⟨r, f, .refl _, hl, ha⟩
          · intro g' hg' a ha
            exact hU a (ha.step (shEdge_iff.2 ⟨f, hl, hg'⟩))
        · exact hg

/-- **CollectFields collects fields of the flattened set whose parent types admit the runtime type** -/
theorem collect_inv (hnd : (fragNames (fragDefs d)).Nodup) (c : Exec.Ctx) (hs : c.schema = s)
    (hf : c.frags = d.fragments) (U : FieldOcc → Prop) (rt : String) (sel : SelectionSet) (pt : Option String)
    (acc : Exec.Groups × List String) (hpt : PtAdm s rt pt) (hsub : SubSet s d U pt sel) (hg : GInv s U rt acc.1) :
    GInv s U rt (Exec.collect c rt sel acc).1 :=
  collectSet_inv s d c hs U rt _ (expandSpread_ok s d hnd c hs hf U rt _) sel pt acc hpt hsub hg

/-- a selection set is inside the universe of its own flattened field set -/
theorem subSet_flat (pt : Option String) (sel : SelectionSet) :
    SubSet s d (fun a => a ∈ flat (e s d) pt sel) pt sel :=
  ⟨fun _ ha => mem_flat_of_direct ha, fun _ hr _ ha => mem_flat_of_flatFrag pt hr ha⟩

end GqlModel.OverlapExec
