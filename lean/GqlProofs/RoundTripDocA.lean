import GqlProofs.RoundTripLexK2
import GqlModel.PrinterWF
/-! # C08 byte level — the invariant `LexK` for types, values, arguments, directives, selections

One lemma per printer function (token view `…I`), for well-formed input (`WF…` of GqlModel/PrinterWF.lean): names are
GraphQL names, number texts are well-formed.  The "separators between two name-like tokens are never empty" property
of the printer is what the `G`/`A` bookkeeping establishes: a NAME / number / string token is always followed by a
separator, a punctuator, or the end of the enclosing list. -/
namespace GqlModel.RoundTrip
open GqlModel GqlModel.Lexer GqlModel.Printer GqlModel.Reader

/-! ## how renders start -/

theorem sd_wrapI {a : List Item} (ha : SD1 (render a)) (m b : List Item) : StartsDelim (render (wrapI a m b)) := by
  simp only [wrapI]; split
  · trivial
  · simp only [render_append, List.append_assoc]; exact sd_of_sd1 (sd1_append ha _)

theorem sd_joinI (xs : List (List Item)) (sep : List Item) (h : ∀ x ∈ xs, StartsDelim (render x)) :
    StartsDelim (render (joinI xs sep)) := by
  rw [render_joinI]
  apply sd_joinC
  intro y hy
  obtain ⟨x, hx, rfl⟩ := List.mem_map.mp hy
  exact h x hx

theorem sd_head {a : List Item} (ha : SD1 (render a)) (b : List Item) : StartsDelim (render (a ++ b)) := by
  rw [render_append]; exact sd_of_sd1 (sd1_append ha _)

/-! ## membership forms of the list predicates -/

theorem wfValues_mem : ∀ {vs : List Value}, WFValues vs → ∀ v ∈ vs, WFValue v
  | [], _, v, hv => by simp at hv
  | x :: xs, h, v, hv => by
    rcases List.mem_cons.mp hv with rfl | hv
    · exact h.1
    · exact wfValues_mem h.2 v hv

theorem wfArguments_mem : ∀ {as : List Argument}, WFArguments as → ∀ a ∈ as, WFArgument a
  | [], _, v, hv => by simp at hv
  | x :: xs, h, v, hv => by
    rcases List.mem_cons.mp hv with rfl | hv
    · exact h.1
    · exact wfArguments_mem h.2 v hv

theorem wfDirectives_mem : ∀ {ds : List Directive}, WFDirectives ds → ∀ d ∈ ds, WFDirective d
  | [], _, v, hv => by simp at hv
  | x :: xs, h, v, hv => by
    rcases List.mem_cons.mp hv with rfl | hv
    · exact h.1
    · exact wfDirectives_mem h.2 v hv

/-! ## types -/

theorem G_typeI : ∀ t : TypeRef, WFType t → G (typeI t)
  | .named _ _, h => G_nI h
  | .list t _, h => G_app (AG_app (A_pI rfl) (G_typeI t h)) (A_pI rfl).toG (by decide)
  | .nonNull t _, h => G_app (G_typeI t h.1) (A_pI rfl).toG (by decide)

theorem G_namedTypeI : ∀ t : TypeRef, WFNamedType t → G (typeI t)
  | .named _ _, h => G_nI h
  | .list _ _, h => absurd h id
  | .nonNull _ _, h => absurd h id

/-! ## values -/

mutual
theorem G_valueI : ∀ v : Value, WFValue v → G (valueI v)
  | .var _ _, h => AG_app (A_pI rfl) (G_nI h)
  | .int _ _, h => G_tok ⟨rfl, h⟩
  | .float _ _, h => G_tok ⟨rfl, h⟩
  | .str _ _, _ => G_tok rfl
  | .bool b _, _ => by cases b <;> exact G_kI (by decide)
  | .enum _ _, h => G_nI h.1
  | .list vs _, h =>
    G_app (AG_app (A_pI rfl) (G_joinI A_commaSpI (by decide) _ (G_valuesI vs h))) (A_pI rfl).toG (by decide)
  | .obj fs _, h =>
    G_app (AG_app (A_pI rfl) (G_joinI A_commaSpI (by decide) _ (G_fieldsI fs h))) (A_pI rfl).toG (by decide)
theorem G_valuesI : ∀ vs : List Value, WFValues vs → ∀ x ∈ valuesI vs, G x
  | [], _, x, hx => by simp [valuesI] at hx
  | v :: vs, h, x, hx => by
    simp only [valuesI, List.mem_cons] at hx
    rcases hx with rfl | hx
    · exact G_valueI v h.1
    · exact G_valuesI vs h.2 x hx
theorem G_fieldI : ∀ f : ObjField, WFField f → G (fieldI f)
  | .mk _ v _, h => AG_app (GA_app (G_nI h.1) A_colonSpI (by decide)) (G_valueI v h.2)
theorem G_fieldsI : ∀ fs : List ObjField, WFFields fs → ∀ x ∈ fieldsI fs, G x
  | [], _, x, hx => by simp [fieldsI] at hx
  | f :: fs, h, x, hx => by
    simp only [fieldsI, List.mem_cons] at hx
    rcases hx with rfl | hx
    · exact G_fieldI f h.1
    · exact G_fieldsI fs h.2 x hx
end

theorem G_optValueI (v : Option Value) (h : ∀ x, v = some x → WFValue x) : G (optValueI v) := by
  cases v with
  | none => exact G_nil
  | some x => exact G_valueI x (h x rfl)

/-! ## arguments, directives -/

theorem G_argI (a : Argument) (h : WFArgument a) : G (argI a) :=
  AG_app (GA_app (G_nI h.1) A_colonSpI (by decide)) (G_valueI a.value h.2)

theorem G_argsParen (args : List Argument) (h : WFArguments args) :
    G (wrapI (pI .parenL ['(']) (joinI (args.map argI) commaSpI) (pI .parenR [')'])) :=
  G_wrapI (G_app (AG_app (A_pI rfl) (G_joinI A_commaSpI (by decide) _
    (G_map argI WFArgument G_argI args (wfArguments_mem h)))) (A_pI rfl).toG (by decide))

theorem sd_argsParen (m : List Item) : StartsDelim (render (wrapI (pI .parenL ['(']) m (pI .parenR [')']))) :=
  sd_wrapI (by decide) _ _

theorem G_directiveI (d : Directive) (h : WFDirective d) : G (directiveI d) :=
  G_app (AG_app (A_pI rfl) (G_nI h.1)) (G_argsParen d.args h.2) (sd_argsParen _)

theorem sd_directiveI (d : Directive) : StartsDelim (render (directiveI d)) := by
  simp only [directiveI, List.append_assoc]; exact sd_head (by decide) _

theorem G_directivesI (ds : List Directive) (h : WFDirectives ds) : G (directivesI ds) :=
  G_joinI A_spI (by decide) _ (G_map directiveI WFDirective G_directiveI ds (wfDirectives_mem h))

theorem sd_directivesI (ds : List Directive) : StartsDelim (render (directivesI ds)) := by
  apply sd_joinI
  intro x hx
  obtain ⟨d, _, rfl⟩ := List.mem_map.mp hx
  exact sd_directiveI d

theorem G_optNameI (n : Option Name) (h : WFOptName n) : G (optNameI n) := by
  cases n with
  | none => exact G_nil
  | some n => exact G_nI h

/-! ## selections -/

theorem G_optTypeCondI (tc : Option TypeRef) (h : WFTypeCond tc) : G (optTypeI tc) := by
  cases tc with
  | none => exact G_nil
  | some t => exact G_namedTypeI t h

/-- ` @d1 @d2` or nothing -/
theorem G_spDirectives (ds : List Directive) (h : WFDirectives ds) : G (wrapI spI (directivesI ds) []) :=
  G_wrapI (G_app (AG_app A_spI (G_directivesI ds h)) G_nil sd_nil)

theorem sd_spDirectives (ds : List Directive) : StartsDelim (render (wrapI spI (directivesI ds) [])) :=
  sd_wrapI (by decide) _ _

mutual
theorem G_selectionI : ∀ s : Selection, WFSelection s → G (selectionI s)
  | .field alias name args dirs sel _, h => by
    obtain ⟨ha, hn, hargs, hd, hs⟩ := h
    apply G_joinI A_spI (by decide)
    intro x hx
    simp only [List.mem_cons, List.mem_nil_iff, or_false] at hx
    rcases hx with rfl | rfl | rfl
    · have hal : A (wrapI [] (optNameI alias) colonSpI) :=
        A_wrapI (by simpa using GA_app (G_optNameI alias ha) A_colonSpI (by decide))
      exact G_app (AG_app hal (G_nI hn)) (G_argsParen args hargs) (sd_argsParen _)
    · exact G_directivesI dirs hd
    · exact G_optSelSetI sel hs
  | .spread name dirs _, h =>
    G_app (AG_app A_spreadI (G_nI h.1)) (G_spDirectives dirs h.2.2) (sd_spDirectives dirs)
  | .inline tc dirs sel _, h => by
    obtain ⟨ht, hd, hs⟩ := h
    apply G_joinI A_spI (by decide)
    intro x hx
    simp only [List.mem_cons, List.mem_nil_iff, or_false] at hx
    rcases hx with rfl | rfl | rfl | rfl
    · exact A_spreadI.toG
    · exact G_wrapI (G_app (AG_app (A_kI_sp (by decide)) (G_optTypeCondI tc ht)) G_nil sd_nil)
    · exact G_directivesI dirs hd
    · exact (A_selSetI sel hs).toG
theorem A_selSetI : ∀ s : SelectionSet, WFSelSet s → A (selSetI s)
  | .mk sels _, h => A_blockI _ (G_selectionsI sels h.2)
theorem G_optSelSetI : ∀ s : Option SelectionSet, WFOptSelSet s → G (optSelSetI s)
  | none, _ => G_nil
  | some s, h => (A_selSetI s h).toG
theorem G_selectionsI : ∀ ss : List Selection, WFSelections ss → ∀ x ∈ selectionsI ss, G x
  | [], _, x, hx => by simp [selectionsI] at hx
  | s :: ss, h, x, hx => by
    simp only [selectionsI, List.mem_cons] at hx
    rcases hx with rfl | hx
    · exact G_selectionI s h.1
    · exact G_selectionsI ss h.2 x hx
end

end GqlModel.RoundTrip
