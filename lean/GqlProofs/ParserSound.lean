import GqlProofs.ParserBasics
/-! Soundness of the parser model M w.r.t. the grammar S (C03): whatever an action of M returns is derivable,
and the only thing it changes in the state is the position.  `SndN` for the actions that cannot raise the
`bad` flag, `Snd` (under `σ'.bad = false`) for those that call `parseType`. -/
set_option linter.unusedSimpArgs false

namespace GqlModel.Parser
open GqlModel GqlModel.Grammar

def SndN {α} (m : P α) (D : Pos → α → Pos → Prop) : Prop :=
  ∀ σ a σ', m σ = .ok (a, σ') → D σ.pos a σ'.pos ∧ σ' = σ.at σ'.pos

def Snd {α} (m : P α) (D : Pos → α → Pos → Prop) : Prop :=
  ∀ σ a σ', m σ = .ok (a, σ') → σ'.bad = false → D σ.pos a σ'.pos ∧ σ' = σ.at σ'.pos

theorem SndN.snd {α} {m : P α} {D : Pos → α → Pos → Prop} (h : SndN m D) : Snd m D :=
  fun σ a σ' hm _ => h σ a σ' hm

theorem at_trans {σ σ1 σ2 : PState} (h1 : σ1 = σ.at σ1.pos) (h2 : σ2 = σ1.at σ2.pos) : σ2 = σ.at σ2.pos := by
  rw [h2, h1]; rfl

theorem bad_of_at {σ σ1 : PState} (h1 : σ1 = σ.at σ1.pos) : σ1.bad = σ.bad := by rw [h1]; rfl

theorem tok_cur {k : TokenKind} {σ : PState} {t : Token} {p' : Pos} (h : Tok k σ.pos t p') :
    σ.cur = t ∧ σ.pos.start = t.start ∧ σ.cur.kind = k := by
  obtain ⟨hk, hts, _⟩ := tok_iff.mp h
  have hc : σ.cur = t := cur_cons hts
  exact ⟨hc, (tok_kind h).2, by rw [hc]; exact hk⟩

/-- consuming the current token when its kind is known -/
theorem adv_tok {k : TokenKind} (hk : k ≠ .eof) {σ : PState} (h : σ.cur.kind = k) :
    Tok k σ.pos σ.cur σ.adv.pos ∧ σ.adv = σ.at σ.adv.pos := by
  have : expect k σ = .ok (σ.cur, σ.adv) := by unfold expect; rw [if_pos h]
  exact (expect_ok hk).mp this

/-! ## the loop of `reverse` -/

theorem many_sndN {α} {close : TokenKind} (hc : close ≠ .eof) {item : P α} {D : Pos → α → Pos → Prop}
    {L : Pos → List α → Pos → Prop} (hnil : ∀ p, L p [] p)
    (hcons : ∀ p x p1 xs p2, D p x p1 → L p1 xs p2 → L p (x :: xs) p2) (hitem : SndN item D) :
    ∀ k σ xs σ', many close item k σ = .ok (xs, σ') →
      ∃ p cl, L σ.pos xs p ∧ Tok close p cl σ'.pos ∧ σ' = σ.at σ'.pos := by
  intro k
  induction k with
  | zero => intro σ xs σ' h; simp [many] at h
  | succ k ih =>
    intro σ xs σ' h
    simp only [many] at h
    rw [bind_ok] at h
    obtain ⟨b, σ1, hs, h⟩ := h
    cases b
    · simp only [Bool.false_eq_true, if_false] at h
      simp only [bind_ok, pure_ok] at h
      obtain ⟨x, σ2, hx, xs', σ3, hm, rfl, rfl⟩ := h
      obtain ⟨_, rfl⟩ := skip_false.mp hs
      obtain ⟨hD, h2⟩ := hitem _ _ _ hx
      obtain ⟨p, cl, hL, ht, h3⟩ := ih _ _ _ hm
      exact ⟨p, cl, hcons _ _ _ _ _ hD hL, ht, at_trans h2 h3⟩
    · simp only [if_true, pure_ok] at h
      obtain ⟨rfl, rfl⟩ := h
      obtain ⟨t, ht, h1⟩ := (skip_true hc).mp hs
      exact ⟨σ.pos, t, hnil _, ht, h1⟩

/-- bad-aware version -/
theorem many_snd {α} {close : TokenKind} (hc : close ≠ .eof) {item : P α} {D : Pos → α → Pos → Prop}
    (hitem : Snd item D) :
    ∀ k σ xs σ', many close item k σ = .ok (xs, σ') → σ'.bad = false →
      ∃ p cl, Many D σ.pos xs p ∧ Tok close p cl σ'.pos ∧ σ' = σ.at σ'.pos := by
  intro k
  induction k with
  | zero => intro σ xs σ' h; simp [many] at h
  | succ k ih =>
    intro σ xs σ' h hb
    simp only [many] at h
    rw [bind_ok] at h
    obtain ⟨b, σ1, hs, h⟩ := h
    cases b
    · simp only [Bool.false_eq_true, if_false] at h
      simp only [bind_ok, pure_ok] at h
      obtain ⟨x, σ2, hx, xs', σ3, hm, rfl, rfl⟩ := h
      obtain ⟨_, rfl⟩ := skip_false.mp hs
      obtain ⟨p, cl, hL, ht, h3⟩ := ih _ _ _ hm hb
      obtain ⟨hD, h2⟩ := hitem _ _ _ hx (by rw [← bad_of_at h3]; exact hb)
      exact ⟨p, cl, .cons hD hL, ht, at_trans h2 h3⟩
    · simp only [if_true, pure_ok] at h
      obtain ⟨rfl, rfl⟩ := h
      obtain ⟨t, ht, h1⟩ := (skip_true hc).mp hs
      exact ⟨σ.pos, t, .nil, ht, h1⟩

/-! ## names, variables -/

theorem parseName_snd : SndN parseName DName := by
  intro σ n σ' h
  simp only [parseName, bind_ok, expect_ok (by decide : TokenKind.name ≠ .eof), loc_run, pure_ok,
    Except.ok.injEq, Prod.mk.injEq] at h
  obtain ⟨t, σ1, ⟨ht, hσ1⟩, l, σ2, ⟨rfl, rfl⟩, rfl, rfl⟩ := h
  refine ⟨?_, hσ1⟩
  have := DName.mk ht
  rw [(tok_kind ht).2] at this
  exact this

theorem parseVariable_snd : SndN parseVariable DVariable := by
  intro σ r σ' h
  simp only [parseVariable, bind_ok, expect_ok (by decide : TokenKind.dollar ≠ .eof), cur_run, loc_run, pure_ok,
    Except.ok.injEq, Prod.mk.injEq] at h
  obtain ⟨_, _, ⟨rfl, rfl⟩, d, σ1, ⟨hd, h1⟩, n, σ2, hn, l, σ3, ⟨rfl, rfl⟩, rfl, rfl⟩ := h
  obtain ⟨hN, h2⟩ := parseName_snd _ _ _ hn
  refine ⟨?_, at_trans h1 h2⟩
  have := DVariable.mk hd hN
  rw [(tok_cur hd).2.1, ← (tok_cur hd).1] at this
  exact this

theorem dname_start {σ : PState} {n : Name} {p' : Pos} (h : DName σ.pos n p') : σ.pos.start = σ.cur.start := by
  cases h with
  | mk ht => rw [(tok_cur ht).2.1, ← (tok_cur ht).1]

theorem tok_start {k : TokenKind} {σ : PState} {t : Token} {p' : Pos} (h : Tok k σ.pos t p') : σ.pos.start = σ.cur.start := by
  rw [(tok_cur h).2.1, ← (tok_cur h).1]

/-! ## values -/

theorem parseObjectFieldWith_snd {c : Bool} {value : P Value} (hv : SndN value (DValue c)) :
    SndN (parseObjectFieldWith value) (DObjField c) := by
  intro σ f σ' h
  simp only [parseObjectFieldWith, bind_ok, expect_ok (by decide : TokenKind.colon ≠ .eof), cur_run, loc_run, pure_ok,
    Except.ok.injEq, Prod.mk.injEq] at h
  obtain ⟨_, _, ⟨rfl, rfl⟩, n, σ1, hn, cl, σ2, ⟨hc, h2⟩, v, σ3, hval, l, σ4, ⟨rfl, rfl⟩, rfl, rfl⟩ := h
  obtain ⟨hN, h1⟩ := parseName_snd _ _ _ hn
  obtain ⟨hV, h3⟩ := hv _ _ _ hval
  refine ⟨?_, at_trans (at_trans h1 h2) h3⟩
  have := DObjField.mk hN hc hV
  rw [dname_start hN] at this
  exact this

theorem reverse_sndN {α} {opn close : TokenKind} (ho : opn ≠ .eof) (hc : close ≠ .eof) {item : P α}
    {D : Pos → α → Pos → Prop} {L : Pos → List α → Pos → Prop} (hnil : ∀ p, L p [] p)
    (hcons : ∀ p x p1 xs p2, D p x p1 → L p1 xs p2 → L p (x :: xs) p2) (hitem : SndN item D) {z : Bool}
    {σ : PState} {xs : List α} {σ' : PState} (h : reverse opn item close z σ = .ok (xs, σ')) :
    ∃ o p1 p2 cl, Tok opn σ.pos o p1 ∧ L p1 xs p2 ∧ Tok close p2 cl σ'.pos ∧ σ' = σ.at σ'.pos ∧ (z = true → xs ≠ []) := by
  simp only [reverse, bind_ok, expect_ok ho, cur_run, Except.ok.injEq, Prod.mk.injEq] at h
  obtain ⟨o, σ1, ⟨hO, h1⟩, _, _, ⟨rfl, rfl⟩, h⟩ := h
  split at h
  · simp at h
  simp only [bind_ok, loopFuel_run, Except.ok.injEq, Prod.mk.injEq] at h
  obtain ⟨k, _, ⟨rfl, rfl⟩, nodes, σ2, hm, h⟩ := h
  obtain ⟨p, cl, hL, hC, h2⟩ := many_sndN hc hnil hcons hitem _ _ _ _ hm
  split at h
  · simp at h
  · rename_i hz
    obtain ⟨rfl, rfl⟩ := pure_ok.mp h
    refine ⟨o, _, p, cl, hO, hL, hC, at_trans h1 h2, ?_⟩
    intro hzt
    subst hzt
    intro he
    subst he
    simp at hz

theorem parseValueLiteral_snd (c : Bool) : ∀ n, SndN (parseValueLiteral c n) (DValue c) := by
  intro n
  induction n with
  | zero => intro σ v σ' h; simp [parseValueLiteral] at h
  | succ n ih =>
    intro σ v σ' h
    simp only [parseValueLiteral] at h
    rw [bind_ok] at h
    obtain ⟨tok, σ0, hcur, h⟩ := h
    simp only [cur_run, Except.ok.injEq, Prod.mk.injEq] at hcur
    obtain ⟨rfl, rfl⟩ := hcur
    cases hk : σ.cur.kind <;> simp only [hk] at h
    case bracketL =>
      simp only [bind_ok, loc_run, pure_ok, Except.ok.injEq, Prod.mk.injEq] at h
      obtain ⟨vs, σ1, hr, l, σ2, ⟨rfl, rfl⟩, rfl, rfl⟩ := h
      obtain ⟨o, p1, p2, cl, hO, hL, hC, h1, _⟩ :=
        reverse_sndN (by decide) (by decide) (L := DValues c) (fun _ => .nil) (fun _ _ _ _ _ => .cons) ih hr
      refine ⟨?_, h1⟩
      have := DValue.list hO hL hC
      rw [tok_start hO] at this
      exact this
    case braceL =>
      simp only [bind_ok, loc_run, loopFuel_run, expect_ok (by decide : TokenKind.braceL ≠ .eof), pure_ok,
        Except.ok.injEq, Prod.mk.injEq] at h
      obtain ⟨o, σ1, ⟨hO, h1⟩, k, _, ⟨rfl, rfl⟩, fs, σ2, hm, l, σ3, ⟨rfl, rfl⟩, rfl, rfl⟩ := h
      obtain ⟨p, cl, hL, hC, h2⟩ := many_sndN (by decide) (L := DObjFields c) (fun _ => .nil) (fun _ _ _ _ _ => .cons)
        (parseObjectFieldWith_snd ih) _ _ _ _ hm
      refine ⟨?_, at_trans h1 h2⟩
      have := DValue.obj hO hL hC
      rw [tok_start hO] at this
      exact this
    case int =>
      simp only [bind_ok, advance_run, loc_run, pure_ok, Except.ok.injEq, Prod.mk.injEq] at h
      obtain ⟨_, _, ⟨_, rfl⟩, l, _, ⟨rfl, rfl⟩, rfl, rfl⟩ := h
      obtain ⟨ht, h1⟩ := adv_tok (by decide) hk
      exact ⟨by have := DValue.int (c := c) ht; rw [tok_start ht] at this; exact this, h1⟩
    case float =>
      simp only [bind_ok, advance_run, loc_run, pure_ok, Except.ok.injEq, Prod.mk.injEq] at h
      obtain ⟨_, _, ⟨_, rfl⟩, l, _, ⟨rfl, rfl⟩, rfl, rfl⟩ := h
      obtain ⟨ht, h1⟩ := adv_tok (by decide) hk
      exact ⟨by have := DValue.float (c := c) ht; rw [tok_start ht] at this; exact this, h1⟩
    case string =>
      simp only [bind_ok, advance_run, loc_run, pure_ok, Except.ok.injEq, Prod.mk.injEq] at h
      obtain ⟨_, _, ⟨_, rfl⟩, l, _, ⟨rfl, rfl⟩, rfl, rfl⟩ := h
      obtain ⟨ht, h1⟩ := adv_tok (by decide) hk
      exact ⟨by have := DValue.string (c := c) ht; rw [tok_start ht] at this; exact this, h1⟩
    case blockString =>
      simp only [bind_ok, advance_run, loc_run, pure_ok, Except.ok.injEq, Prod.mk.injEq] at h
      obtain ⟨_, _, ⟨_, rfl⟩, l, _, ⟨rfl, rfl⟩, rfl, rfl⟩ := h
      obtain ⟨ht, h1⟩ := adv_tok (by decide) hk
      exact ⟨by have := DValue.blockString (c := c) ht; rw [tok_start ht] at this; exact this, h1⟩
    case name =>
      obtain ⟨ht, h1⟩ := adv_tok (by decide) hk
      split at h
      · rename_i hv
        simp only [bind_ok, advance_run, loc_run, pure_ok, Except.ok.injEq, Prod.mk.injEq] at h
        obtain ⟨_, _, ⟨_, rfl⟩, l, _, ⟨rfl, rfl⟩, rfl, rfl⟩ := h
        exact ⟨by have := DValue.tru (c := c) (Kw.mk ht hv); rw [tok_start ht] at this; exact this, h1⟩
      · split at h
        · rename_i hv
          simp only [bind_ok, advance_run, loc_run, pure_ok, Except.ok.injEq, Prod.mk.injEq] at h
          obtain ⟨_, _, ⟨_, rfl⟩, l, _, ⟨rfl, rfl⟩, rfl, rfl⟩ := h
          exact ⟨by have := DValue.fls (c := c) (Kw.mk ht hv); rw [tok_start ht] at this; exact this, h1⟩
        · split at h
          · simp at h
          · rename_i h1' h2' h3'
            simp only [bind_ok, advance_run, loc_run, pure_ok, Except.ok.injEq, Prod.mk.injEq] at h
            obtain ⟨_, _, ⟨_, rfl⟩, l, _, ⟨rfl, rfl⟩, rfl, rfl⟩ := h
            exact ⟨by have := DValue.enum (c := c) ht h1' h2' h3'; rw [tok_start ht] at this; exact this, h1⟩
    case dollar =>
      split at h
      · simp at h
      · rename_i hc
        simp only [bind_ok, pure_ok] at h
        obtain ⟨⟨n, l⟩, σ1, hv, rfl, rfl⟩ := h
        obtain ⟨hV, h1⟩ := parseVariable_snd _ _ _ hv
        have hcf : c = false := by
          cases c with
          | false => rfl
          | true => exact absurd rfl hc
        subst hcf
        exact ⟨DValue.var hV, h1⟩
    all_goals simp at h

theorem parseValue_snd (c : Bool) : SndN (parseValue c) (DValue c) :=
  fun σ v σ' h => parseValueLiteral_snd c _ σ v σ' h

/-! ## arguments, directives -/

theorem parseArgument_snd : SndN parseArgument DArgument := by
  intro σ a σ' h
  simp only [parseArgument, bind_ok, expect_ok (by decide : TokenKind.colon ≠ .eof), cur_run, loc_run, pure_ok,
    Except.ok.injEq, Prod.mk.injEq] at h
  obtain ⟨_, _, ⟨rfl, rfl⟩, n, σ1, hn, cl, σ2, ⟨hc, h2⟩, v, σ3, hval, l, σ4, ⟨rfl, rfl⟩, rfl, rfl⟩ := h
  obtain ⟨hN, h1⟩ := parseName_snd _ _ _ hn
  obtain ⟨hV, h3⟩ := parseValue_snd false _ _ _ hval
  refine ⟨?_, at_trans (at_trans h1 h2) h3⟩
  have := DArgument.mk hN hc hV
  rw [dname_start hN] at this
  exact this

theorem parseArguments_snd : SndN parseArguments DArguments := by
  intro σ as σ' h
  simp only [parseArguments, bind_ok, peek_run, Except.ok.injEq, Prod.mk.injEq] at h
  obtain ⟨b, _, ⟨rfl, rfl⟩, h⟩ := h
  split at h
  · obtain ⟨o, p1, p2, cl, hO, hL, hC, h1, hne⟩ :=
      reverse_sndN (by decide) (by decide) (L := Many DArgument) (fun _ => .nil) (fun _ _ _ _ _ => .cons) parseArgument_snd h
    exact ⟨DArguments.some hO hL (hne rfl) hC, h1⟩
  · rename_i hk
    obtain ⟨rfl, rfl⟩ := pure_ok.mp h
    refine ⟨DArguments.none ?_, rfl⟩
    rw [pos_kind_eq]
    simpa using hk

theorem parseDirective_snd : SndN parseDirective DDirective := by
  intro σ d σ' h
  simp only [parseDirective, bind_ok, expect_ok (by decide : TokenKind.at ≠ .eof), cur_run, loc_run, pure_ok,
    Except.ok.injEq, Prod.mk.injEq] at h
  obtain ⟨_, _, ⟨rfl, rfl⟩, a, σ1, ⟨ha, h1⟩, n, σ2, hn, args, σ3, hargs, l, σ4, ⟨rfl, rfl⟩, rfl, rfl⟩ := h
  obtain ⟨hN, h2⟩ := parseName_snd _ _ _ hn
  obtain ⟨hA, h3⟩ := parseArguments_snd _ _ _ hargs
  refine ⟨?_, at_trans (at_trans h1 h2) h3⟩
  have := DDirective.mk ha hN hA
  rw [tok_start ha] at this
  exact this

theorem parseDirectivesLoop_snd : ∀ k, SndN (parseDirectivesLoop k) DDirectives := by
  intro k
  induction k with
  | zero => intro σ ds σ' h; simp [parseDirectivesLoop] at h
  | succ k ih =>
    intro σ ds σ' h
    simp only [parseDirectivesLoop, bind_ok, peek_run, Except.ok.injEq, Prod.mk.injEq] at h
    obtain ⟨b, _, ⟨rfl, rfl⟩, h⟩ := h
    split at h
    · simp only [bind_ok, pure_ok] at h
      obtain ⟨d, σ1, hd, ds', σ2, hl, rfl, rfl⟩ := h
      obtain ⟨hD, h1⟩ := parseDirective_snd _ _ _ hd
      obtain ⟨hL, h2⟩ := ih _ _ _ hl
      exact ⟨.cons hD hL, at_trans h1 h2⟩
    · rename_i hk
      obtain ⟨rfl, rfl⟩ := pure_ok.mp h
      refine ⟨DDirectives.nil ?_, rfl⟩
      rw [pos_kind_eq]
      simpa using hk

theorem parseDirectives_snd : SndN parseDirectives DDirectives := by
  intro σ ds σ' h
  simp only [parseDirectives, bind_ok, loopFuel_run, Except.ok.injEq, Prod.mk.injEq] at h
  obtain ⟨k, _, ⟨rfl, rfl⟩, h⟩ := h
  exact parseDirectivesLoop_snd _ _ _ _ h

/-! ## types -/

theorem parseNamed_snd : SndN parseNamed DNamedType := by
  intro σ t σ' h
  simp only [parseNamed, bind_ok, cur_run, loc_run, pure_ok, Except.ok.injEq, Prod.mk.injEq] at h
  obtain ⟨_, _, ⟨rfl, rfl⟩, n, σ1, hn, l, _, ⟨rfl, rfl⟩, rfl, rfl⟩ := h
  obtain ⟨hN, h1⟩ := parseName_snd _ _ _ hn
  refine ⟨?_, h1⟩
  have := DNamedType.mk hN
  rw [dname_start hN] at this
  exact this

@[simp] theorem adv_bad (σ : PState) : σ.adv.bad = σ.bad := by
  cases h : σ.toks <;> simp [PState.adv, h]

theorem parseTypeFuel_snd : ∀ n σ ot σ', parseTypeFuel n σ = .ok (ot, σ') → σ'.bad = false →
    ∃ t, ot = some t ∧ DType σ.pos t σ'.pos ∧ σ' = σ.at σ'.pos := by
  intro n
  induction n with
  | zero => intro σ t σ' h; simp [parseTypeFuel] at h
  | succ n ih =>
    intro σ t σ' h hb
    simp only [parseTypeFuel] at h
    rw [bind_ok] at h
    obtain ⟨tok, σ0, hcur, h⟩ := h
    simp only [cur_run, Except.ok.injEq, Prod.mk.injEq] at hcur
    obtain ⟨rfl, rfl⟩ := hcur
    rw [bind_ok] at h
    obtain ⟨base, σ1, hbase, h⟩ := h
    -- the tail: an optional `!`
    have htail : σ1.bad = false ∧ ((t = base ∧ σ' = σ1 ∧ σ1.pos.kind ≠ .bang) ∨
        (∃ b, Tok .bang σ1.pos b σ'.pos ∧ σ' = σ1.at σ'.pos ∧
          t = some (.nonNull (base.getD nilType) ⟨σ.cur.start, σ'.prevEnd⟩))) := by
      rw [bind_ok] at h
      obtain ⟨b, σ2, hs, h⟩ := h
      cases b
      · simp only [Bool.false_eq_true, if_false, pure_ok] at h
        obtain ⟨rfl, rfl⟩ := h
        obtain ⟨hk, rfl⟩ := skip_false.mp hs
        exact ⟨hb, .inl ⟨rfl, rfl, hk⟩⟩
      · simp only [if_true, bind_ok, loc_run, pure_ok, Except.ok.injEq, Prod.mk.injEq] at h
        obtain ⟨l, _, ⟨rfl, rfl⟩, rfl, rfl⟩ := h
        obtain ⟨b, hB, h2⟩ := (skip_true (by decide)).mp hs
        exact ⟨by rw [← bad_of_at h2]; exact hb, .inr ⟨b, hB, h2, rfl⟩⟩
    obtain ⟨hb1, htail⟩ := htail
    -- the base: NamedType | ListType
    have hbaseD : ∃ bt, base = some bt ∧ DBaseType σ.pos bt σ1.pos ∧ σ1 = σ.at σ1.pos := by
      unfold parseTypeBaseWith at hbase
      cases hk : σ.cur.kind <;> simp only [hk] at hbase
      case bracketL =>
        simp only [bind_ok, advance_run, cur_run, Except.ok.injEq, Prod.mk.injEq] at hbase
        obtain ⟨_, _, ⟨_, rfl⟩, inner, σ2, hin, c, _, ⟨rfl, rfl⟩, hbase⟩ := hbase
        obtain ⟨hO, h0⟩ := adv_tok (by decide) hk
        split at hbase
        · rename_i hcl
          simp only [bind_ok, advance_run, loc_run, pure_ok, Except.ok.injEq, Prod.mk.injEq] at hbase
          obtain ⟨_, _, ⟨_, rfl⟩, l, _, ⟨rfl, rfl⟩, rfl, rfl⟩ := hbase
          obtain ⟨hC, h2⟩ := adv_tok (by decide) hcl
          obtain ⟨it, rfl, hI, h1⟩ := ih _ _ _ hin (by simpa using hb1)
          refine ⟨_, rfl, ?_, at_trans (at_trans h0 h1) h2⟩
          have := DBaseType.list hO hI hC
          rw [tok_start hO] at this
          exact this
        · simp only [bind_ok, flagBad_run, advance_run, loc_run, pure_ok, Except.ok.injEq, Prod.mk.injEq] at hbase
          obtain ⟨_, _, ⟨_, rfl⟩, _, _, ⟨_, rfl⟩, l, _, ⟨rfl, rfl⟩, rfl, rfl⟩ := hbase
          simp at hb1
      case bracketR =>
        simp only [bind_ok, flagBad_run, advance_run, loc_run, pure_ok, Except.ok.injEq, Prod.mk.injEq] at hbase
        obtain ⟨_, _, ⟨_, rfl⟩, _, _, ⟨_, rfl⟩, l, _, ⟨rfl, rfl⟩, rfl, rfl⟩ := hbase
        simp at hb1
      case name =>
        simp only [bind_ok, pure_ok] at hbase
        obtain ⟨nt, σ2, hnt, rfl, rfl⟩ := hbase
        obtain ⟨hN, h1⟩ := parseNamed_snd _ _ _ hnt
        exact ⟨_, rfl, .named hN, h1⟩
      all_goals
        simp only [bind_ok, flagBad_run, pure_ok, Except.ok.injEq, Prod.mk.injEq] at hbase
        obtain ⟨_, _, ⟨_, rfl⟩, rfl, rfl⟩ := hbase
        simp at hb1
    obtain ⟨bt, rfl, hB, h1⟩ := hbaseD
    rcases htail with ⟨rfl, rfl, hk⟩ | ⟨b, hBang, h2, rfl⟩
    · exact ⟨_, rfl, .plain hB hk, h1⟩
    · refine ⟨_, rfl, ?_, at_trans h1 h2⟩
      have := DType.nonNull hB hBang
      have hs : σ.pos.start = σ.cur.start := by
        cases hB with
        | named hN => cases hN with | mk hN => exact dname_start hN
        | list hO _ _ => exact tok_start hO
      rw [hs] at this
      exact this

theorem parseTypeOpt_snd {σ : PState} {ot : Option TypeRef} {σ' : PState} (h : parseTypeOpt σ = .ok (ot, σ'))
    (hb : σ'.bad = false) : ∃ t, ot = some t ∧ DType σ.pos t σ'.pos ∧ σ' = σ.at σ'.pos :=
  parseTypeFuel_snd _ σ ot σ' h hb

theorem parseType_snd : Snd parseType DType := by
  intro σ t σ' h hb
  simp only [parseType, bind_ok, pure_ok] at h
  obtain ⟨ot, σ1, ht, rfl, rfl⟩ := h
  obtain ⟨t, rfl, hT, h1⟩ := parseTypeOpt_snd ht hb
  exact ⟨hT, h1⟩

/-! ## selection sets -/

theorem isName_cur {σ : PState} {s : String} (h : σ.pos.isName s) : σ.cur.kind = .name ∧ σ.cur.value = s := by
  cases ht : σ.toks with
  | nil => simp [Pos.isName, PState.pos, ht] at h
  | cons t r => simpa [Pos.isName, PState.pos, ht, cur_cons ht] using h

theorem isName_of_cur {σ : PState} {s : String} (hk : σ.cur.kind = .name) (hv : σ.cur.value = s) : σ.pos.isName s := by
  obtain ⟨r, hr⟩ := toks_of_cur_kind (by decide) hk
  simp only [Pos.isName, PState.pos, hr]
  exact ⟨hk, hv⟩

theorem parseFragmentName_snd : SndN parseFragmentName DFragmentName := by
  intro σ n σ' h
  simp only [parseFragmentName, bind_ok, cur_run, Except.ok.injEq, Prod.mk.injEq] at h
  obtain ⟨_, _, ⟨rfl, rfl⟩, h⟩ := h
  split at h
  · simp at h
  · rename_i hv
    obtain ⟨hN, h1⟩ := parseName_snd _ _ _ h
    refine ⟨.mk hN ?_, h1⟩
    cases hN with
    | mk ht => rw [← (tok_cur ht).1]; exact hv

theorem parseFieldRest_snd {selSet : P SelectionSet} (hs : SndN selSet DSelectionSet) {start : Nat} {alias : Option Name}
    {name : Name} {σ : PState} {s : Selection} {σ' : PState} (h : parseFieldRest selSet start alias name σ = .ok (s, σ')) :
    ∃ args p2 dirs p3 sel, DArguments σ.pos args p2 ∧ DDirectives p2 dirs p3 ∧ DOptSelectionSet p3 sel σ'.pos ∧
      s = .field alias name args dirs sel ⟨start, σ'.prevEnd⟩ ∧ σ' = σ.at σ'.pos := by
  simp only [parseFieldRest, bind_ok, peek_run, Except.ok.injEq, Prod.mk.injEq] at h
  obtain ⟨args, σ1, ha, dirs, σ2, hd, b, _, ⟨rfl, rfl⟩, h⟩ := h
  obtain ⟨hA, h1⟩ := parseArguments_snd _ _ _ ha
  obtain ⟨hD, h2⟩ := parseDirectives_snd _ _ _ hd
  split at h
  · simp only [bind_ok, loc_run, pure_ok, Except.ok.injEq, Prod.mk.injEq] at h
    obtain ⟨ss, σ3, hss, l, _, ⟨rfl, rfl⟩, rfl, rfl⟩ := h
    obtain ⟨hS, h3⟩ := hs _ _ _ hss
    exact ⟨args, _, dirs, _, some ss, hA, hD, .some hS, rfl, at_trans (at_trans h1 h2) h3⟩
  · rename_i hk
    simp only [bind_ok, loc_run, pure_ok, Except.ok.injEq, Prod.mk.injEq] at h
    obtain ⟨l, _, ⟨rfl, rfl⟩, rfl, rfl⟩ := h
    refine ⟨args, _, dirs, _, none, hA, hD, .none ?_, rfl, at_trans h1 h2⟩
    rw [pos_kind_eq]
    simpa using hk

theorem parseFieldWith_snd {selSet : P SelectionSet} (hs : SndN selSet DSelectionSet) :
    SndN (parseFieldWith selSet) DSelection := by
  intro σ s σ' h
  simp only [parseFieldWith, bind_ok, cur_run, Except.ok.injEq, Prod.mk.injEq] at h
  obtain ⟨_, _, ⟨rfl, rfl⟩, first, σ1, hf, b, σ2, hsk, h⟩ := h
  obtain ⟨hF, h1⟩ := parseName_snd _ _ _ hf
  have hst := dname_start hF
  cases b
  · simp only [Bool.false_eq_true, if_false] at h
    obtain ⟨hk, rfl⟩ := skip_false.mp hsk
    obtain ⟨args, p2, dirs, p3, sel, hA, hD, hS, rfl, h2⟩ := parseFieldRest_snd hs h
    refine ⟨?_, at_trans h1 h2⟩
    have := DSelection.field hF hk hA hD hS
    rw [hst] at this
    exact this
  · simp only [if_true, bind_ok] at h
    obtain ⟨name, σ3, hn, h⟩ := h
    obtain ⟨cl, hC, h2⟩ := (skip_true (by decide)).mp hsk
    obtain ⟨hN, h3⟩ := parseName_snd _ _ _ hn
    obtain ⟨args, p2, dirs, p3, sel, hA, hD, hS, rfl, h4⟩ := parseFieldRest_snd hs h
    refine ⟨?_, at_trans (at_trans (at_trans h1 h2) h3) h4⟩
    have := DSelection.aliased hF hC hN hA hD hS
    rw [hst] at this
    exact this

theorem parseInlineRest_snd {selSet : P SelectionSet} (hs : SndN selSet DSelectionSet) {start : Nat} {tc : Option TypeRef}
    {σ : PState} {s : Selection} {σ' : PState} (h : parseInlineRest selSet start tc σ = .ok (s, σ')) :
    ∃ dirs p2 sel, DDirectives σ.pos dirs p2 ∧ DSelectionSet p2 sel σ'.pos ∧
      s = .inline tc dirs sel ⟨start, σ'.prevEnd⟩ ∧ σ' = σ.at σ'.pos := by
  simp only [parseInlineRest, bind_ok, loc_run, pure_ok, Except.ok.injEq, Prod.mk.injEq] at h
  obtain ⟨dirs, σ1, hd, ss, σ2, hss, l, _, ⟨rfl, rfl⟩, rfl, rfl⟩ := h
  obtain ⟨hD, h1⟩ := parseDirectives_snd _ _ _ hd
  obtain ⟨hS, h2⟩ := hs _ _ _ hss
  exact ⟨dirs, _, ss, hD, hS, rfl, at_trans h1 h2⟩

theorem parseFragmentWith_snd {selSet : P SelectionSet} (hs : SndN selSet DSelectionSet) :
    SndN (parseFragmentWith selSet) DSelection := by
  intro σ s σ' h
  simp only [parseFragmentWith, bind_ok, cur_run, expect_ok (by decide : TokenKind.spread ≠ .eof),
    Except.ok.injEq, Prod.mk.injEq] at h
  obtain ⟨_, _, ⟨rfl, rfl⟩, sp, σ1, ⟨hSp, h1⟩, tok, _, ⟨rfl, rfl⟩, h⟩ := h
  have hst := tok_start hSp
  split at h
  · -- fragment spread
    simp only [bind_ok, loc_run, pure_ok, Except.ok.injEq, Prod.mk.injEq] at h
    obtain ⟨n, σ2, hn, dirs, σ3, hd, l, _, ⟨rfl, rfl⟩, rfl, rfl⟩ := h
    obtain ⟨hN, h2⟩ := parseFragmentName_snd _ _ _ hn
    obtain ⟨hD, h3⟩ := parseDirectives_snd _ _ _ hd
    refine ⟨?_, at_trans (at_trans h1 h2) h3⟩
    have := DSelection.spread hSp hN hD
    rw [hst] at this
    exact this
  · split at h
    · -- `on` NamedType
      rename_i _ hon
      simp only [bind_ok, advance_run, Except.ok.injEq, Prod.mk.injEq] at h
      obtain ⟨_, _, ⟨_, rfl⟩, tc, σ3, htc, h⟩ := h
      obtain ⟨hOn, h2⟩ := adv_tok (by decide) hon.1
      obtain ⟨hT, h3⟩ := parseNamed_snd _ _ _ htc
      obtain ⟨dirs, p2, sel, hD, hS, rfl, h4⟩ := parseInlineRest_snd hs h
      refine ⟨?_, at_trans (at_trans (at_trans h1 h2) h3) h4⟩
      have := DSelection.inline hSp (.some (Kw.mk hOn hon.2) hT) hD hS
      rw [hst] at this
      exact this
    · rename_i hn1 hn2
      obtain ⟨dirs, p2, sel, hD, hS, rfl, h4⟩ := parseInlineRest_snd hs h
      refine ⟨?_, at_trans h1 h4⟩
      have hno : ¬ σ1.pos.isName "on" := fun hi => hn2 (isName_cur hi)
      have := DSelection.inline hSp (.none hno) hD hS
      rw [hst] at this
      exact this

theorem parseSelectionWith_snd {selSet : P SelectionSet} (hs : SndN selSet DSelectionSet) :
    SndN (parseSelectionWith selSet) DSelection := by
  intro σ s σ' h
  simp only [parseSelectionWith, bind_ok, peek_run, Except.ok.injEq, Prod.mk.injEq] at h
  obtain ⟨b, _, ⟨rfl, rfl⟩, h⟩ := h
  split at h
  · exact parseFragmentWith_snd hs _ _ _ h
  · exact parseFieldWith_snd hs _ _ _ h

theorem parseSelectionSetFuel_snd : ∀ n, SndN (parseSelectionSetFuel n) DSelectionSet := by
  intro n
  induction n with
  | zero => intro σ s σ' h; simp [parseSelectionSetFuel] at h
  | succ n ih =>
    intro σ s σ' h
    simp only [parseSelectionSetFuel, bind_ok, cur_run, loc_run, pure_ok, Except.ok.injEq, Prod.mk.injEq] at h
    obtain ⟨_, _, ⟨rfl, rfl⟩, sels, σ1, hr, l, _, ⟨rfl, rfl⟩, rfl, rfl⟩ := h
    obtain ⟨o, p1, p2, cl, hO, hL, hC, h1, hne⟩ :=
      reverse_sndN (by decide) (by decide) (L := DSelections) (fun _ => .nil) (fun _ _ _ _ _ => .cons)
        (parseSelectionWith_snd ih) hr
    refine ⟨?_, h1⟩
    have := DSelectionSet.mk hO hL (hne rfl) hC
    rw [tok_start hO] at this
    exact this

theorem parseSelectionSet_snd : SndN parseSelectionSet DSelectionSet :=
  fun σ s σ' h => parseSelectionSetFuel_snd _ σ s σ' h

/-! ## operations, fragments -/

theorem reverse_snd {α} {opn close : TokenKind} (ho : opn ≠ .eof) (hc : close ≠ .eof) {item : P α}
    {D : Pos → α → Pos → Prop} (hitem : Snd item D) {z : Bool}
    {σ : PState} {xs : List α} {σ' : PState} (h : reverse opn item close z σ = .ok (xs, σ')) (hb : σ'.bad = false) :
    ∃ o p1 p2 cl, Tok opn σ.pos o p1 ∧ Many D p1 xs p2 ∧ Tok close p2 cl σ'.pos ∧ σ' = σ.at σ'.pos ∧ (z = true → xs ≠ []) := by
  simp only [reverse, bind_ok, expect_ok ho, cur_run, Except.ok.injEq, Prod.mk.injEq] at h
  obtain ⟨o, σ1, ⟨hO, h1⟩, _, _, ⟨rfl, rfl⟩, h⟩ := h
  split at h
  · simp at h
  simp only [bind_ok, loopFuel_run, Except.ok.injEq, Prod.mk.injEq] at h
  obtain ⟨k, _, ⟨rfl, rfl⟩, nodes, σ2, hm, h⟩ := h
  split at h
  · simp at h
  · rename_i hz
    obtain ⟨rfl, rfl⟩ := pure_ok.mp h
    obtain ⟨p, cl, hL, hC, h2⟩ := many_snd hc hitem _ _ _ _ hm hb
    refine ⟨o, _, p, cl, hO, hL, hC, at_trans h1 h2, ?_⟩
    intro hzt
    subst hzt
    intro he
    subst he
    simp at hz

theorem expectKeyword_ok {s : String} {σ σ' : PState} {t : Token} (h : expectKeyword s σ = .ok (t, σ')) :
    Kw s σ.pos σ'.pos ∧ σ' = σ.at σ'.pos ∧ σ.pos.start = σ.cur.start := by
  unfold expectKeyword at h
  split at h
  · rename_i hc
    simp only [Except.ok.injEq, Prod.mk.injEq] at h
    obtain ⟨rfl, rfl⟩ := h
    obtain ⟨ht, h1⟩ := adv_tok (by decide) hc.1
    exact ⟨Kw.mk ht hc.2, h1, tok_start ht⟩
  · simp at h

theorem kw_start {s : String} {σ : PState} {p' : Pos} (h : Kw s σ.pos p') : σ.pos.start = σ.cur.start := by
  cases h with
  | mk ht _ => exact tok_start ht

theorem parseOperationType_snd : SndN parseOperationType DOpType := by
  intro σ op σ' h
  simp only [parseOperationType, bind_ok, cur_run, Except.ok.injEq, Prod.mk.injEq] at h
  obtain ⟨_, _, ⟨rfl, rfl⟩, h⟩ := h
  split at h
  · simp at h
  · rename_i hc
    simp only [bind_ok, expect_ok (by decide : TokenKind.name ≠ .eof)] at h
    obtain ⟨t, σ1, ⟨ht, h1⟩, h⟩ := h
    obtain ⟨hcur, _, hk⟩ := tok_cur ht
    have hv : σ.cur.value = "query" ∨ σ.cur.value = "mutation" ∨ σ.cur.value = "subscription" :=
      Decidable.not_not.mp (fun hn => hc ⟨hk, hn⟩)
    rw [hcur] at hv h
    split at h
    · rename_i hq
      obtain ⟨rfl, rfl⟩ := pure_ok.mp h
      exact ⟨.query (Kw.mk ht hq), h1⟩
    · split at h
      · rename_i hm
        obtain ⟨rfl, rfl⟩ := pure_ok.mp h
        exact ⟨.mutation (Kw.mk ht hm), h1⟩
      · rename_i hq hm
        obtain ⟨rfl, rfl⟩ := pure_ok.mp h
        rcases hv with hv | hv | hv
        · exact absurd hv hq
        · exact absurd hv hm
        · exact ⟨.subscription (Kw.mk ht hv), h1⟩

theorem dvariable_start {σ : PState} {r : Name × Loc} {p' : Pos} (h : DVariable σ.pos r p') : σ.pos.start = σ.cur.start := by
  cases h with
  | mk hd _ => exact tok_start hd

theorem parseVariableDefinition_snd : Snd parseVariableDefinition DVarDef := by
  intro σ vd σ' h hb
  simp only [parseVariableDefinition, bind_ok, cur_run, expect_ok (by decide : TokenKind.colon ≠ .eof),
    Except.ok.injEq, Prod.mk.injEq] at h
  obtain ⟨_, _, ⟨rfl, rfl⟩, ⟨n, vl⟩, σ1, hv, cl, σ2, ⟨hC, h2⟩, ot, σ3, hty, b, σ4, hsk, h⟩ := h
  obtain ⟨hV, h1⟩ := parseVariable_snd _ _ _ hv
  have hst := dvariable_start hV
  cases b
  · simp only [Bool.false_eq_true, if_false, bind_ok, loc_run, pure_ok, Except.ok.injEq, Prod.mk.injEq] at h
    obtain ⟨l, _, ⟨rfl, rfl⟩, rfl, rfl⟩ := h
    obtain ⟨hk, rfl⟩ := skip_false.mp hsk
    obtain ⟨t, rfl, hT, h3⟩ := parseTypeOpt_snd hty hb
    refine ⟨?_, at_trans (at_trans h1 h2) h3⟩
    have := DVarDef.mk hV hC hT (.none hk)
    rw [hst] at this
    exact this
  · simp only [if_true, bind_ok, loc_run, pure_ok, Except.ok.injEq, Prod.mk.injEq] at h
    obtain ⟨d, σ5, hd, l, _, ⟨rfl, rfl⟩, rfl, rfl⟩ := h
    obtain ⟨q, hQ, h4⟩ := (skip_true (by decide)).mp hsk
    obtain ⟨hDv, h5⟩ := parseValue_snd true _ _ _ hd
    have hb3 : σ3.bad = false := by rw [← bad_of_at h4, ← bad_of_at h5]; exact hb
    obtain ⟨t, rfl, hT, h3⟩ := parseTypeOpt_snd hty hb3
    refine ⟨?_, at_trans (at_trans (at_trans (at_trans h1 h2) h3) h4) h5⟩
    have := DVarDef.mk hV hC hT (.some hQ hDv)
    rw [hst] at this
    exact this

theorem parseVariableDefinitions_snd : Snd parseVariableDefinitions DVarDefs := by
  intro σ vs σ' h hb
  simp only [parseVariableDefinitions, bind_ok, peek_run, Except.ok.injEq, Prod.mk.injEq] at h
  obtain ⟨b, _, ⟨rfl, rfl⟩, h⟩ := h
  split at h
  · obtain ⟨o, p1, p2, cl, hO, hL, hC, h1, hne⟩ :=
      reverse_snd (by decide) (by decide) parseVariableDefinition_snd h hb
    exact ⟨DVarDefs.some hO hL (hne rfl) hC, h1⟩
  · rename_i hk
    obtain ⟨rfl, rfl⟩ := pure_ok.mp h
    refine ⟨DVarDefs.none ?_, rfl⟩
    rw [pos_kind_eq]
    simpa using hk

theorem dselectionSet_start {σ : PState} {s : SelectionSet} {p' : Pos} (h : DSelectionSet σ.pos s p') :
    σ.pos.start = σ.cur.start := by
  cases h with
  | mk hO _ _ _ => exact tok_start hO

theorem dopType_start {σ : PState} {op : OpType} {p' : Pos} (h : DOpType σ.pos op p') : σ.pos.start = σ.cur.start := by
  cases h <;> (rename_i hk; exact kw_start hk)

theorem parseOptName_snd : SndN parseOptName DOptName := by
  intro σ name σ' h
  simp only [parseOptName, bind_ok, peek_run, Except.ok.injEq, Prod.mk.injEq] at h
  obtain ⟨b, _, ⟨rfl, rfl⟩, h⟩ := h
  split at h
  · simp only [bind_ok, pure_ok] at h
    obtain ⟨n, σ2, hn, rfl, rfl⟩ := h
    obtain ⟨hN, h2⟩ := parseName_snd _ _ _ hn
    exact ⟨.some hN, h2⟩
  · rename_i hk
    obtain ⟨rfl, rfl⟩ := pure_ok.mp h
    refine ⟨.none ?_, rfl⟩
    rw [pos_kind_eq]
    simpa using hk

theorem parseOperationDefinition_snd : Snd parseOperationDefinition DDefinition := by
  intro σ d σ' h hb
  simp only [parseOperationDefinition, bind_ok, cur_run, peek_run, Except.ok.injEq, Prod.mk.injEq] at h
  obtain ⟨_, _, ⟨rfl, rfl⟩, b, _, ⟨rfl, rfl⟩, h⟩ := h
  split at h
  · simp only [bind_ok, loc_run, pure_ok, Except.ok.injEq, Prod.mk.injEq] at h
    obtain ⟨sel, σ1, hs, l, _, ⟨rfl, rfl⟩, rfl, rfl⟩ := h
    obtain ⟨hS, h1⟩ := parseSelectionSet_snd _ _ _ hs
    refine ⟨?_, h1⟩
    have := DDefinition.query hS
    rw [dselectionSet_start hS] at this
    exact this
  · simp only [bind_ok, loc_run, peek_run, pure_ok, Except.ok.injEq, Prod.mk.injEq] at h
    obtain ⟨op, σ1, hop, name, σ2, hname, vars, σ3, hvars, dirs, σ4, hdirs, sel, σ5, hsel, l, _, ⟨rfl, rfl⟩, rfl, rfl⟩ := h
    obtain ⟨hOp, h1⟩ := parseOperationType_snd _ _ _ hop
    obtain ⟨hSel, h5⟩ := parseSelectionSet_snd _ _ _ hsel
    obtain ⟨hDirs, h4⟩ := parseDirectives_snd _ _ _ hdirs
    have hb3 : σ3.bad = false := by rw [← bad_of_at h4, ← bad_of_at h5]; exact hb
    obtain ⟨hVars, h3⟩ := parseVariableDefinitions_snd _ _ _ hvars hb3
    have hName := parseOptName_snd _ _ _ hname
    obtain ⟨hName, h2⟩ := hName
    refine ⟨?_, at_trans (at_trans (at_trans (at_trans h1 h2) h3) h4) h5⟩
    have := DDefinition.operation hOp hName hVars hDirs hSel
    rw [dopType_start hOp] at this
    exact this

theorem parseFragmentDefinition_snd : SndN parseFragmentDefinition DDefinition := by
  intro σ d σ' h
  simp only [parseFragmentDefinition, bind_ok, cur_run, loc_run, pure_ok, Except.ok.injEq, Prod.mk.injEq] at h
  obtain ⟨_, _, ⟨rfl, rfl⟩, t1, σ1, hk1, n, σ2, hn, t2, σ3, hk2, tc, σ4, htc, dirs, σ5, hd, sel, σ6, hs, l, _,
    ⟨rfl, rfl⟩, rfl, rfl⟩ := h
  obtain ⟨hK1, h1, hst⟩ := expectKeyword_ok hk1
  obtain ⟨hN, h2⟩ := parseFragmentName_snd _ _ _ hn
  obtain ⟨hK2, h3, _⟩ := expectKeyword_ok hk2
  obtain ⟨hT, h4⟩ := parseNamed_snd _ _ _ htc
  obtain ⟨hD, h5⟩ := parseDirectives_snd _ _ _ hd
  obtain ⟨hS, h6⟩ := parseSelectionSet_snd _ _ _ hs
  refine ⟨?_, at_trans (at_trans (at_trans (at_trans (at_trans h1 h2) h3) h4) h5) h6⟩
  have := DDefinition.fragment hK1 hN hK2 hT hD hS
  rw [hst] at this
  exact this

/-! ## type system definitions -/

theorem parseDescription_snd : SndN parseDescription DDescription := by
  intro σ d σ' h
  simp only [parseDescription, bind_ok, cur_run, Except.ok.injEq, Prod.mk.injEq] at h
  obtain ⟨_, _, ⟨rfl, rfl⟩, h⟩ := h
  split at h
  · rename_i hk
    simp only [bind_ok, advance_run, pure_ok, Except.ok.injEq, Prod.mk.injEq] at h
    obtain ⟨_, _, ⟨_, rfl⟩, rfl, rfl⟩ := h
    rcases hk with hk | hk
    · obtain ⟨ht, h1⟩ := adv_tok (by decide) hk
      exact ⟨.string ht, h1⟩
    · obtain ⟨ht, h1⟩ := adv_tok (by decide) hk
      exact ⟨.blockString ht, h1⟩
  · rename_i hk
    obtain ⟨rfl, rfl⟩ := pure_ok.mp h
    refine ⟨.none ?_ ?_, rfl⟩ <;> rw [pos_kind_eq] <;> intro hh <;> exact hk (by simp [hh])

theorem tok_ne {k : TokenKind} {p : Pos} {t : Token} {p' : Pos} (h : Tok k p t p') : p.ts ≠ [] := by
  cases h; simp

theorem kw_ne {s : String} {p p' : Pos} (h : Kw s p p') : p.ts ≠ [] := by
  cases h with
  | mk ht _ => exact tok_ne ht

theorem dname_ne {p : Pos} {n : Name} {p' : Pos} (h : DName p n p') : p.ts ≠ [] := by
  cases h with
  | mk ht => exact tok_ne ht

theorem ddesc_start {σ : PState} {d : Option String} {p1 : Pos} (h : DDescription σ.pos d p1) (hne : p1.ts ≠ []) :
    σ.pos.start = σ.cur.start := by
  cases h with
  | none _ _ => exact pos_start_eq (by simpa using hne)
  | string ht => exact tok_start ht
  | blockString ht => exact tok_start ht

theorem parseOperationTypeDefinition_snd : SndN parseOperationTypeDefinition DOpTypeDef := by
  intro σ d σ' h
  simp only [parseOperationTypeDefinition, bind_ok, cur_run, loc_run, expect_ok (by decide : TokenKind.colon ≠ .eof),
    pure_ok, Except.ok.injEq, Prod.mk.injEq] at h
  obtain ⟨_, _, ⟨rfl, rfl⟩, op, σ1, hop, cl, σ2, ⟨hC, h2⟩, t, σ3, ht, l, _, ⟨rfl, rfl⟩, rfl, rfl⟩ := h
  obtain ⟨hOp, h1⟩ := parseOperationType_snd _ _ _ hop
  obtain ⟨hT, h3⟩ := parseNamed_snd _ _ _ ht
  refine ⟨?_, at_trans (at_trans h1 h2) h3⟩
  have := DOpTypeDef.mk hOp hC hT
  rw [dopType_start hOp] at this
  exact this

theorem parseSchemaDefinition_snd : SndN parseSchemaDefinition DDefinition := by
  intro σ d σ' h
  simp only [parseSchemaDefinition, bind_ok, cur_run, loc_run, pure_ok, Except.ok.injEq, Prod.mk.injEq] at h
  obtain ⟨_, _, ⟨rfl, rfl⟩, t1, σ1, hk1, dirs, σ2, hd, ops, σ3, hr, l, _, ⟨rfl, rfl⟩, rfl, rfl⟩ := h
  obtain ⟨hK1, h1, hst⟩ := expectKeyword_ok hk1
  obtain ⟨hD, h2⟩ := parseDirectives_snd _ _ _ hd
  obtain ⟨o, p1, p2, cl, hO, hL, hC, h3, hne⟩ :=
    reverse_sndN (by decide) (by decide) (L := Many DOpTypeDef) (fun _ => .nil) (fun _ _ _ _ _ => .cons)
      parseOperationTypeDefinition_snd hr
  refine ⟨?_, at_trans (at_trans h1 h2) h3⟩
  have := DDefinition.schema hK1 hD hO hL (hne rfl) hC
  rw [hst] at this
  exact this

theorem parseScalarTypeDefinition_snd : SndN parseScalarTypeDefinition DDefinition := by
  intro σ d σ' h
  simp only [parseScalarTypeDefinition, bind_ok, cur_run, loc_run, pure_ok, Except.ok.injEq, Prod.mk.injEq] at h
  obtain ⟨_, _, ⟨rfl, rfl⟩, desc, σ1, hdesc, t1, σ2, hk1, n, σ3, hn, dirs, σ4, hd, l, _, ⟨rfl, rfl⟩, rfl, rfl⟩ := h
  obtain ⟨hDe, h1⟩ := parseDescription_snd _ _ _ hdesc
  obtain ⟨hK1, h2, _⟩ := expectKeyword_ok hk1
  obtain ⟨hN, h3⟩ := parseName_snd _ _ _ hn
  obtain ⟨hD, h4⟩ := parseDirectives_snd _ _ _ hd
  refine ⟨?_, at_trans (at_trans (at_trans h1 h2) h3) h4⟩
  have := DDefinition.scalar hDe hK1 hN hD
  rw [ddesc_start hDe (kw_ne hK1)] at this
  exact this

theorem parseNamedSep_snd {sep : TokenKind} (hsep : sep ≠ .eof) : ∀ k, SndN (parseNamedSep sep k) (SepBy sep DNamedType) := by
  intro k
  induction k with
  | zero => intro σ ts σ' h; simp [parseNamedSep] at h
  | succ k ih =>
    intro σ ts σ' h
    simp only [parseNamedSep, bind_ok] at h
    obtain ⟨t, σ1, ht, b, σ2, hsk, h⟩ := h
    obtain ⟨hT, h1⟩ := parseNamed_snd _ _ _ ht
    cases b
    · simp only [Bool.false_eq_true, if_false, pure_ok] at h
      obtain ⟨rfl, rfl⟩ := h
      obtain ⟨hk, rfl⟩ := skip_false.mp hsk
      exact ⟨.one hT hk, h1⟩
    · simp only [if_true, bind_ok, pure_ok] at h
      obtain ⟨ts', σ3, hrest, rfl, rfl⟩ := h
      obtain ⟨sp, hS, h2⟩ := (skip_true hsep).mp hsk
      obtain ⟨hR, h3⟩ := ih _ _ _ hrest
      exact ⟨.cons hT hS hR, at_trans (at_trans h1 h2) h3⟩

theorem parseImplementsInterfaces_snd : SndN parseImplementsInterfaces DImplements := by
  intro σ ts σ' h
  simp only [parseImplementsInterfaces, bind_ok, cur_run, Except.ok.injEq, Prod.mk.injEq] at h
  obtain ⟨_, _, ⟨rfl, rfl⟩, h⟩ := h
  split at h
  · rename_i hk
    simp only [bind_ok, advance_run, loopFuel_run, Except.ok.injEq, Prod.mk.injEq] at h
    obtain ⟨_, _, ⟨_, rfl⟩, b, σ2, hsk, k, _, ⟨rfl, rfl⟩, h⟩ := h
    obtain ⟨hI, h1⟩ := adv_tok (by decide) hk.1
    obtain ⟨hR, h3⟩ := parseNamedSep_snd (by decide) _ _ _ _ h
    cases b
    · obtain ⟨hna, rfl⟩ := skip_false.mp hsk
      exact ⟨.plain (Kw.mk hI hk.2) hna hR, at_trans h1 h3⟩
    · obtain ⟨a, hA, h2⟩ := (skip_true (by decide)).mp hsk
      exact ⟨.leadingAmp (Kw.mk hI hk.2) hA hR, at_trans (at_trans h1 h2) h3⟩
  · rename_i hk
    obtain ⟨rfl, rfl⟩ := pure_ok.mp h
    exact ⟨.none (fun hi => hk (isName_cur hi)), rfl⟩

theorem parseDefaultValue_snd : SndN parseDefaultValue DDefault := by
  intro σ d σ' h
  simp only [parseDefaultValue, bind_ok] at h
  obtain ⟨b, σ1, hsk, h⟩ := h
  cases b
  · simp only [Bool.false_eq_true, if_false, pure_ok] at h
    obtain ⟨rfl, rfl⟩ := h
    obtain ⟨hk, rfl⟩ := skip_false.mp hsk
    exact ⟨.none hk, rfl⟩
  · simp only [if_true, bind_ok, pure_ok] at h
    obtain ⟨v, σ2, hv, rfl, rfl⟩ := h
    obtain ⟨q, hQ, h4⟩ := (skip_true (by decide)).mp hsk
    obtain ⟨hV, h5⟩ := parseValue_snd true _ _ _ hv
    exact ⟨.some hQ hV, at_trans h4 h5⟩

theorem parseInputValueDef_snd : Snd parseInputValueDef DInputValueDef := by
  intro σ d σ' h hb
  simp only [parseInputValueDef, bind_ok, cur_run, loc_run, expect_ok (by decide : TokenKind.colon ≠ .eof), pure_ok,
    Except.ok.injEq, Prod.mk.injEq] at h
  obtain ⟨_, _, ⟨rfl, rfl⟩, desc, σ1, hdesc, n, σ2, hn, cl, σ3, ⟨hC, h3⟩, ty, σ4, hty, dflt, σ5, hdf, dirs, σ6, hd, l, _,
    ⟨rfl, rfl⟩, rfl, rfl⟩ := h
  obtain ⟨hDe, h1⟩ := parseDescription_snd _ _ _ hdesc
  obtain ⟨hN, h2⟩ := parseName_snd _ _ _ hn
  obtain ⟨hD, h6⟩ := parseDirectives_snd _ _ _ hd
  have hDf := parseDefaultValue_snd _ _ _ hdf
  obtain ⟨hDf, h5⟩ := hDf
  have hb4 : σ4.bad = false := by rw [← bad_of_at h5, ← bad_of_at h6]; exact hb
  obtain ⟨hT, h4⟩ := parseType_snd _ _ _ hty hb4
  refine ⟨?_, at_trans (at_trans (at_trans (at_trans (at_trans h1 h2) h3) h4) h5) h6⟩
  have := DInputValueDef.mk hDe hN hC hT hDf hD
  rw [ddesc_start hDe (dname_ne hN)] at this
  exact this

theorem parseArgumentDefs_snd : Snd parseArgumentDefs DArgumentDefs := by
  intro σ ds σ' h hb
  simp only [parseArgumentDefs, bind_ok, peek_run, Except.ok.injEq, Prod.mk.injEq] at h
  obtain ⟨b, _, ⟨rfl, rfl⟩, h⟩ := h
  split at h
  · obtain ⟨o, p1, p2, cl, hO, hL, hC, h1, hne⟩ :=
      reverse_snd (by decide) (by decide) parseInputValueDef_snd h hb
    exact ⟨.some hO hL (hne rfl) hC, h1⟩
  · rename_i hk
    obtain ⟨rfl, rfl⟩ := pure_ok.mp h
    refine ⟨.none ?_, rfl⟩
    rw [pos_kind_eq]
    simpa using hk

theorem parseFieldDefinition_snd : Snd parseFieldDefinition DFieldDef := by
  intro σ d σ' h hb
  simp only [parseFieldDefinition, bind_ok, cur_run, loc_run, expect_ok (by decide : TokenKind.colon ≠ .eof), pure_ok,
    Except.ok.injEq, Prod.mk.injEq] at h
  obtain ⟨_, _, ⟨rfl, rfl⟩, desc, σ1, hdesc, n, σ2, hn, args, σ3, hargs, cl, σ4, ⟨hC, h4⟩, ty, σ5, hty, dirs, σ6, hd, l, _,
    ⟨rfl, rfl⟩, rfl, rfl⟩ := h
  obtain ⟨hDe, h1⟩ := parseDescription_snd _ _ _ hdesc
  obtain ⟨hN, h2⟩ := parseName_snd _ _ _ hn
  obtain ⟨hD, h6⟩ := parseDirectives_snd _ _ _ hd
  have hb5 : σ5.bad = false := by rw [← bad_of_at h6]; exact hb
  obtain ⟨hT, h5⟩ := parseType_snd _ _ _ hty hb5
  have hb3 : σ3.bad = false := by rw [← bad_of_at h4, ← bad_of_at h5]; exact hb5
  obtain ⟨hA, h3⟩ := parseArgumentDefs_snd _ _ _ hargs hb3
  refine ⟨?_, at_trans (at_trans (at_trans (at_trans (at_trans h1 h2) h3) h4) h5) h6⟩
  have := DFieldDef.mk hDe hN hA hC hT hD
  rw [ddesc_start hDe (dname_ne hN)] at this
  exact this

theorem braced_snd {α} {item : P α} {D : Pos → α → Pos → Prop} (hitem : Snd item D) {σ : PState} {xs : List α} {σ' : PState}
    (h : reverse .braceL item .braceR false σ = .ok (xs, σ')) (hb : σ'.bad = false) :
    Braced D σ.pos xs σ'.pos ∧ σ' = σ.at σ'.pos := by
  obtain ⟨o, p1, p2, cl, hO, hL, hC, h1, _⟩ := reverse_snd (by decide) (by decide) hitem h hb
  exact ⟨.mk hO hL hC, h1⟩

theorem parseObjectDef_snd : Snd parseObjectDef DObjectDef := by
  intro σ d σ' h hb
  simp only [parseObjectDef, bind_ok, cur_run, loc_run, pure_ok, Except.ok.injEq, Prod.mk.injEq] at h
  obtain ⟨_, _, ⟨rfl, rfl⟩, desc, σ1, hdesc, t1, σ2, hk1, n, σ3, hn, ifs, σ4, hifs, dirs, σ5, hd, fs, σ6, hr, l, _,
    ⟨rfl, rfl⟩, rfl, rfl⟩ := h
  obtain ⟨hDe, h1⟩ := parseDescription_snd _ _ _ hdesc
  obtain ⟨hK1, h2, _⟩ := expectKeyword_ok hk1
  obtain ⟨hN, h3⟩ := parseName_snd _ _ _ hn
  obtain ⟨hI, h4⟩ := parseImplementsInterfaces_snd _ _ _ hifs
  obtain ⟨hD, h5⟩ := parseDirectives_snd _ _ _ hd
  obtain ⟨hB, h6⟩ := braced_snd parseFieldDefinition_snd hr hb
  refine ⟨?_, at_trans (at_trans (at_trans (at_trans (at_trans h1 h2) h3) h4) h5) h6⟩
  have := DObjectDef.mk hDe hK1 hN hI hD hB
  rw [ddesc_start hDe (kw_ne hK1)] at this
  exact this

theorem parseObjectTypeDefinition_snd : Snd parseObjectTypeDefinition DDefinition := by
  intro σ d σ' h hb
  simp only [parseObjectTypeDefinition, bind_ok, pure_ok] at h
  obtain ⟨od, σ1, hod, rfl, rfl⟩ := h
  obtain ⟨hO, h1⟩ := parseObjectDef_snd _ _ _ hod hb
  exact ⟨.object hO, h1⟩

theorem parseInterfaceTypeDefinition_snd : Snd parseInterfaceTypeDefinition DDefinition := by
  intro σ d σ' h hb
  simp only [parseInterfaceTypeDefinition, bind_ok, cur_run, loc_run, pure_ok, Except.ok.injEq, Prod.mk.injEq] at h
  obtain ⟨_, _, ⟨rfl, rfl⟩, desc, σ1, hdesc, t1, σ2, hk1, n, σ3, hn, dirs, σ4, hd, fs, σ5, hr, l, _,
    ⟨rfl, rfl⟩, rfl, rfl⟩ := h
  obtain ⟨hDe, h1⟩ := parseDescription_snd _ _ _ hdesc
  obtain ⟨hK1, h2, _⟩ := expectKeyword_ok hk1
  obtain ⟨hN, h3⟩ := parseName_snd _ _ _ hn
  obtain ⟨hD, h4⟩ := parseDirectives_snd _ _ _ hd
  obtain ⟨hB, h5⟩ := braced_snd parseFieldDefinition_snd hr hb
  refine ⟨?_, at_trans (at_trans (at_trans (at_trans h1 h2) h3) h4) h5⟩
  have := DDefinition.interface hDe hK1 hN hD hB
  rw [ddesc_start hDe (kw_ne hK1)] at this
  exact this

theorem parseUnionTypeDefinition_snd : SndN parseUnionTypeDefinition DDefinition := by
  intro σ d σ' h
  simp only [parseUnionTypeDefinition, bind_ok, cur_run, loc_run, loopFuel_run, expect_ok (by decide : TokenKind.equals ≠ .eof),
    pure_ok, Except.ok.injEq, Prod.mk.injEq] at h
  obtain ⟨_, _, ⟨rfl, rfl⟩, desc, σ1, hdesc, t1, σ2, hk1, n, σ3, hn, dirs, σ4, hd, q, σ5, ⟨hQ, h5⟩, k, _, ⟨rfl, rfl⟩,
    ms, σ6, hms, l, _, ⟨rfl, rfl⟩, rfl, rfl⟩ := h
  obtain ⟨hDe, h1⟩ := parseDescription_snd _ _ _ hdesc
  obtain ⟨hK1, h2, _⟩ := expectKeyword_ok hk1
  obtain ⟨hN, h3⟩ := parseName_snd _ _ _ hn
  obtain ⟨hD, h4⟩ := parseDirectives_snd _ _ _ hd
  obtain ⟨hM, h6⟩ := parseNamedSep_snd (by decide) _ _ _ _ hms
  refine ⟨?_, at_trans (at_trans (at_trans (at_trans (at_trans h1 h2) h3) h4) h5) h6⟩
  have := DDefinition.union hDe hK1 hN hD hQ hM
  rw [ddesc_start hDe (kw_ne hK1)] at this
  exact this

theorem parseEnumValueDefinition_snd : SndN parseEnumValueDefinition DEnumValueDef := by
  intro σ d σ' h
  simp only [parseEnumValueDefinition, bind_ok, cur_run, loc_run, pure_ok, Except.ok.injEq, Prod.mk.injEq] at h
  obtain ⟨_, _, ⟨rfl, rfl⟩, desc, σ1, hdesc, n, σ2, hn, dirs, σ3, hd, l, _, ⟨rfl, rfl⟩, rfl, rfl⟩ := h
  obtain ⟨hDe, h1⟩ := parseDescription_snd _ _ _ hdesc
  obtain ⟨hN, h2⟩ := parseName_snd _ _ _ hn
  obtain ⟨hD, h3⟩ := parseDirectives_snd _ _ _ hd
  refine ⟨?_, at_trans (at_trans h1 h2) h3⟩
  have := DEnumValueDef.mk hDe hN hD
  rw [ddesc_start hDe (dname_ne hN)] at this
  exact this

theorem parseEnumTypeDefinition_snd : SndN parseEnumTypeDefinition DDefinition := by
  intro σ d σ' h
  simp only [parseEnumTypeDefinition, bind_ok, cur_run, loc_run, pure_ok, Except.ok.injEq, Prod.mk.injEq] at h
  obtain ⟨_, _, ⟨rfl, rfl⟩, desc, σ1, hdesc, t1, σ2, hk1, n, σ3, hn, dirs, σ4, hd, vs, σ5, hr, l, _,
    ⟨rfl, rfl⟩, rfl, rfl⟩ := h
  obtain ⟨hDe, h1⟩ := parseDescription_snd _ _ _ hdesc
  obtain ⟨hK1, h2, _⟩ := expectKeyword_ok hk1
  obtain ⟨hN, h3⟩ := parseName_snd _ _ _ hn
  obtain ⟨hD, h4⟩ := parseDirectives_snd _ _ _ hd
  obtain ⟨o, p1, p2, cl, hO, hL, hC, h5, _⟩ :=
    reverse_sndN (by decide) (by decide) (L := Many DEnumValueDef) (fun _ => .nil) (fun _ _ _ _ _ => .cons)
      parseEnumValueDefinition_snd hr
  refine ⟨?_, at_trans (at_trans (at_trans (at_trans h1 h2) h3) h4) h5⟩
  have := DDefinition.enum hDe hK1 hN hD (.mk hO hL hC)
  rw [ddesc_start hDe (kw_ne hK1)] at this
  exact this

theorem parseInputObjectTypeDefinition_snd : Snd parseInputObjectTypeDefinition DDefinition := by
  intro σ d σ' h hb
  simp only [parseInputObjectTypeDefinition, bind_ok, cur_run, loc_run, pure_ok, Except.ok.injEq, Prod.mk.injEq] at h
  obtain ⟨_, _, ⟨rfl, rfl⟩, desc, σ1, hdesc, t1, σ2, hk1, n, σ3, hn, dirs, σ4, hd, fs, σ5, hr, l, _,
    ⟨rfl, rfl⟩, rfl, rfl⟩ := h
  obtain ⟨hDe, h1⟩ := parseDescription_snd _ _ _ hdesc
  obtain ⟨hK1, h2, _⟩ := expectKeyword_ok hk1
  obtain ⟨hN, h3⟩ := parseName_snd _ _ _ hn
  obtain ⟨hD, h4⟩ := parseDirectives_snd _ _ _ hd
  obtain ⟨hB, h5⟩ := braced_snd parseInputValueDef_snd hr hb
  refine ⟨?_, at_trans (at_trans (at_trans (at_trans h1 h2) h3) h4) h5⟩
  have := DDefinition.inputObject hDe hK1 hN hD hB
  rw [ddesc_start hDe (kw_ne hK1)] at this
  exact this

theorem parseTypeExtensionDefinition_snd : Snd parseTypeExtensionDefinition DDefinition := by
  intro σ d σ' h hb
  simp only [parseTypeExtensionDefinition, bind_ok, cur_run, loc_run, pure_ok, Except.ok.injEq, Prod.mk.injEq] at h
  obtain ⟨_, _, ⟨rfl, rfl⟩, t1, σ1, hk1, od, σ2, hod, l, _, ⟨rfl, rfl⟩, rfl, rfl⟩ := h
  obtain ⟨hK1, h1, hst⟩ := expectKeyword_ok hk1
  obtain ⟨hO, h2⟩ := parseObjectDef_snd _ _ _ hod hb
  refine ⟨?_, at_trans h1 h2⟩
  have := DDefinition.extend hK1 hO
  rw [hst] at this
  exact this

theorem parseDirectiveLocations_snd : ∀ k, SndN (parseDirectiveLocations k) (SepBy .pipe DName) := by
  intro k
  induction k with
  | zero => intro σ ts σ' h; simp [parseDirectiveLocations] at h
  | succ k ih =>
    intro σ ts σ' h
    simp only [parseDirectiveLocations, bind_ok] at h
    obtain ⟨t, σ1, ht, b, σ2, hsk, h⟩ := h
    obtain ⟨hT, h1⟩ := parseName_snd _ _ _ ht
    cases b
    · simp only [Bool.false_eq_true, if_false, pure_ok] at h
      obtain ⟨rfl, rfl⟩ := h
      obtain ⟨hk, rfl⟩ := skip_false.mp hsk
      exact ⟨.one hT hk, h1⟩
    · simp only [if_true, bind_ok, pure_ok] at h
      obtain ⟨ts', σ3, hrest, rfl, rfl⟩ := h
      obtain ⟨sp, hS, h2⟩ := (skip_true (by decide)).mp hsk
      obtain ⟨hR, h3⟩ := ih _ _ _ hrest
      exact ⟨.cons hT hS hR, at_trans (at_trans h1 h2) h3⟩

theorem parseDirectiveDefinition_snd : Snd parseDirectiveDefinition DDefinition := by
  intro σ d σ' h hb
  simp only [parseDirectiveDefinition, bind_ok, cur_run, loc_run, loopFuel_run, expect_ok (by decide : TokenKind.at ≠ .eof),
    pure_ok, Except.ok.injEq, Prod.mk.injEq] at h
  obtain ⟨_, _, ⟨rfl, rfl⟩, desc, σ1, hdesc, t1, σ2, hk1, a, σ3, ⟨hA, h3⟩, n, σ4, hn, args, σ5, hargs, t2, σ6, hk2,
    k, _, ⟨rfl, rfl⟩, locs, σ7, hlocs, l, _, ⟨rfl, rfl⟩, rfl, rfl⟩ := h
  obtain ⟨hDe, h1⟩ := parseDescription_snd _ _ _ hdesc
  obtain ⟨hK1, h2, _⟩ := expectKeyword_ok hk1
  obtain ⟨hN, h4⟩ := parseName_snd _ _ _ hn
  obtain ⟨hK2, h6, _⟩ := expectKeyword_ok hk2
  obtain ⟨hL, h7⟩ := parseDirectiveLocations_snd _ _ _ _ hlocs
  have hb5 : σ5.bad = false := by rw [← bad_of_at h6, ← bad_of_at h7]; exact hb
  obtain ⟨hAr, h5⟩ := parseArgumentDefs_snd _ _ _ hargs hb5
  refine ⟨?_, at_trans (at_trans (at_trans (at_trans (at_trans (at_trans h1 h2) h3) h4) h5) h6) h7⟩
  have := DDefinition.directive hDe hK1 hA hN hAr hK2 hL
  rw [ddesc_start hDe (kw_ne hK1)] at this
  exact this

/-! ## definitions, document -/

theorem parseTypeSystemDefinition_snd : Snd parseTypeSystemDefinition DDefinition := by
  intro σ d σ' h hb
  simp only [parseTypeSystemDefinition, keywordToken, bind_ok, cur_run, Except.ok.injEq, Prod.mk.injEq] at h
  obtain ⟨_, _, ⟨rfl, rfl⟩, kw, σ1, ⟨_, _, ⟨rfl, rfl⟩, hkw⟩, h⟩ := h
  have hσ1 : σ1 = σ := by
    split at hkw
    · simp only [bind_ok, lookahead_run, Except.ok.injEq, Prod.mk.injEq] at hkw
      obtain ⟨kw', _, ⟨rfl, rfl⟩, hkw⟩ := hkw
      split at hkw
      · simp at hkw
      · exact (pure_ok.mp hkw).2.symm
    · exact (pure_ok.mp hkw).2.symm
  subst hσ1
  unfold dispatchKeyword at h
  by_cases h0 : kw.kind ≠ .name
  · rw [if_pos h0] at h; simp at h
  rw [if_neg h0] at h
  by_cases c0 : kw.value = "fragment"
  · rw [if_pos c0] at h
    exact (parseFragmentDefinition_snd).snd _ _ _ h hb
  rw [if_neg c0] at h
  by_cases c1 : kw.value = "query" ∨ kw.value = "mutation" ∨ kw.value = "subscription"
  · rw [if_pos c1] at h
    exact parseOperationDefinition_snd _ _ _ h hb
  rw [if_neg c1] at h
  by_cases c2 : kw.value = "schema"
  · rw [if_pos c2] at h
    exact (parseSchemaDefinition_snd).snd _ _ _ h hb
  rw [if_neg c2] at h
  by_cases c3 : kw.value = "scalar"
  · rw [if_pos c3] at h
    exact (parseScalarTypeDefinition_snd).snd _ _ _ h hb
  rw [if_neg c3] at h
  by_cases c4 : kw.value = "type"
  · rw [if_pos c4] at h
    exact parseObjectTypeDefinition_snd _ _ _ h hb
  rw [if_neg c4] at h
  by_cases c5 : kw.value = "interface"
  · rw [if_pos c5] at h
    exact parseInterfaceTypeDefinition_snd _ _ _ h hb
  rw [if_neg c5] at h
  by_cases c6 : kw.value = "union"
  · rw [if_pos c6] at h
    exact (parseUnionTypeDefinition_snd).snd _ _ _ h hb
  rw [if_neg c6] at h
  by_cases c7 : kw.value = "enum"
  · rw [if_pos c7] at h
    exact (parseEnumTypeDefinition_snd).snd _ _ _ h hb
  rw [if_neg c7] at h
  by_cases c8 : kw.value = "input"
  · rw [if_pos c8] at h
    exact parseInputObjectTypeDefinition_snd _ _ _ h hb
  rw [if_neg c8] at h
  by_cases c9 : kw.value = "extend"
  · rw [if_pos c9] at h
    exact parseTypeExtensionDefinition_snd _ _ _ h hb
  rw [if_neg c9] at h
  by_cases c10 : kw.value = "directive"
  · rw [if_pos c10] at h
    exact parseDirectiveDefinition_snd _ _ _ h hb
  rw [if_neg c10] at h
  simp at h

theorem parseDefinition_snd : Snd parseDefinition DDefinition := by
  intro σ d σ' h hb
  simp only [parseDefinition, bind_ok, cur_run, Except.ok.injEq, Prod.mk.injEq] at h
  obtain ⟨_, _, ⟨rfl, rfl⟩, h⟩ := h
  cases hk : σ.cur.kind <;> simp only [hk] at h
  case braceL => exact parseOperationDefinition_snd _ _ _ h hb
  case name => exact parseTypeSystemDefinition_snd _ _ _ h hb
  case string => exact parseTypeSystemDefinition_snd _ _ _ h hb
  case blockString => exact parseTypeSystemDefinition_snd _ _ _ h hb
  all_goals simp at h

theorem ddefinition_ne {p : Pos} {d : Definition} {p' : Pos} (h : DDefinition p d p') : p.ts ≠ [] := by
  have hdesc : ∀ {p desc p1 s p2}, DDescription p desc p1 → Kw s p1 p2 → p.ts ≠ [] := by
    intro p desc p1 s p2 hd hk
    cases hd with
    | none _ _ => exact kw_ne hk
    | string ht => exact tok_ne ht
    | blockString ht => exact tok_ne ht
  cases h with
  | query hS => cases hS with | mk hO _ _ _ => exact tok_ne hO
  | operation hOp _ _ _ _ => cases hOp <;> (rename_i hk; exact kw_ne hk)
  | fragment hK _ _ _ _ _ => exact kw_ne hK
  | schema hK _ _ _ _ _ => exact kw_ne hK
  | scalar hD hK _ _ => exact hdesc hD hK
  | object hO => cases hO with | mk hD hK _ _ _ _ => exact hdesc hD hK
  | interface hD hK _ _ _ => exact hdesc hD hK
  | union hD hK _ _ _ _ => exact hdesc hD hK
  | enum hD hK _ _ _ => exact hdesc hD hK
  | inputObject hD hK _ _ _ => exact hdesc hD hK
  | extend hK _ => exact kw_ne hK
  | directive hD hK _ _ _ _ _ => exact hdesc hD hK

theorem parseDefinitions_snd : ∀ k σ ds σ', parseDefinitions k σ = .ok (ds, σ') → σ'.bad = false →
    ∃ e, Many DDefinition σ.pos ds ⟨e, []⟩ ∧ σ'.prevEnd = σ.eofPos ∧ σ.bad = false := by
  intro k
  induction k with
  | zero => intro σ ds σ' h; simp [parseDefinitions] at h
  | succ k ih =>
    intro σ ds σ' h hb
    simp only [parseDefinitions, bind_ok] at h
    obtain ⟨b, σ1, hs, h⟩ := h
    cases b
    · simp only [Bool.false_eq_true, if_false, bind_ok, pure_ok] at h
      obtain ⟨d, σ2, hd, ds', σ3, hds, rfl, rfl⟩ := h
      have : σ1 = σ := by
        unfold skipEOF at hs
        split at hs <;> simp at hs
        exact hs.symm
      subst this
      obtain ⟨e, hM, hpe, hb2⟩ := ih _ _ _ hds hb
      obtain ⟨hD, h1⟩ := parseDefinition_snd _ _ _ hd hb2
      refine ⟨e, .cons hD hM, ?_, ?_⟩
      · rw [hpe, h1]; rfl
      · rw [← bad_of_at h1]; exact hb2
    · simp only [if_true, pure_ok] at h
      obtain ⟨rfl, rfl⟩ := h
      unfold skipEOF at hs
      split at hs
      · rename_i ht
        simp only [Except.ok.injEq, Prod.mk.injEq, true_and] at hs
        subst hs
        refine ⟨σ.prevEnd, ?_, by simp [PState.adv, ht], by simpa using hb⟩
        have : σ.pos = ⟨σ.prevEnd, []⟩ := by simp [PState.pos, ht]
        rw [this]
        exact .nil
      · simp at hs

/-- soundness of the whole parser: what M accepts without going through a malformed type reference is a
document of the grammar, with exactly the AST (locations included) the productions define -/
theorem parseToks_sound {toks : List Token} {eofPos : Nat} {d : Document}
    (h : parseToks toks eofPos = .ok ⟨d, false⟩) : DerivesDoc toks eofPos d := by
  unfold parseToks at h
  cases hp : parseDocument (initState toks eofPos) with
  | error e => simp [hp] at h
  | ok r =>
    obtain ⟨d', σ'⟩ := r
    simp only [hp, Except.ok.injEq, Parsed.mk.injEq] at h
    obtain ⟨rfl, hb⟩ := h
    simp only [parseDocument, bind_ok, cur_run, loopFuel_run, Except.ok.injEq, Prod.mk.injEq] at hp
    obtain ⟨_, _, ⟨rfl, rfl⟩, k, _, ⟨rfl, rfl⟩, defs, σ1, hdefs, hp⟩ := hp
    split at hp
    · simp at hp
    · rename_i hne
      simp only [bind_ok, loc_run, pure_ok, Except.ok.injEq, Prod.mk.injEq] at hp
      obtain ⟨l, _, ⟨rfl, rfl⟩, rfl, rfl⟩ := hp
      obtain ⟨e, hM, hpe, _⟩ := parseDefinitions_snd _ _ _ _ hdefs hb
      have hne' : defs ≠ [] := by intro he; subst he; simp at hne
      have hst : (initState toks eofPos).cur.start = (Pos.mk 0 toks).start := by
        cases hM with
        | nil => exact absurd rfl hne'
        | cons hD _ =>
          have := ddefinition_ne hD
          exact (pos_start_eq (σ := initState toks eofPos) this).symm
      have := DerivesDoc.mk (eofPos := eofPos) hM hne'
      rw [hst, hpe]
      exact this

end GqlModel.Parser
