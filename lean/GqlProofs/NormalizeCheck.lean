import GqlProofs.NormalizeUniform
/-! C06 (normaliser): decidable checks that imply the schema-side premises of `normalized_transparent`
(`SchemaOK`, `customLti`), so that on a concrete schema they are discharged by `decide`. -/
set_option linter.unusedSimpArgs false
set_option linter.unusedVariables false
namespace GqlModel.Normalize
open GqlModel GqlModel.Coerce GqlModel.Exec

/-- Bool version of `Reader.WFType` -/
def wfTypeB : TypeRef → Bool
  | .named n _ => Reader.isNameC n.toList
  | .list t _ => wfTypeB t
  | .nonNull t _ => wfTypeB t && (match t with | .nonNull _ _ => false | _ => true)

theorem wfType_of_check : ∀ t : TypeRef, wfTypeB t = true → Reader.WFType t
  | .named n _, h => by simpa [Reader.WFType, wfTypeB] using h
  | .list t _, h => by
    simp only [wfTypeB] at h
    simpa [Reader.WFType] using wfType_of_check t h
  | .nonNull t _, h => by
    simp only [wfTypeB, Bool.and_eq_true] at h
    refine ⟨wfType_of_check t h.1, ?_⟩
    cases t <;> simp_all

def fieldsOf : TypeDef → List FieldDefS
  | .object _ _ fs _ _ => fs
  | .interface _ fs _ _ => fs
  | _ => []

def argOKB (s : Schema) (d : ArgDef) : Bool := isInputType s d.type && wfTypeB (typeRefOf d.type)

def fieldOKB (s : Schema) (fd : FieldDefS) : Bool :=
  decide ((fd.args.map (·.name)).Nodup) && fd.args.all (argOKB s) && fd.name != "__schema" && fd.name != "__type"

/-- every field of every object / interface type: distinct argument names, well-formed input-typed arguments, not named
like an introspection entry point; and `String` is an input type (for `__type(name: String!)`) -/
def schemaOKB (s : Schema) : Bool :=
  s.types.all (fun td => (fieldsOf td).all (fieldOKB s)) && s.isInputTypeName "String"

theorem objectFields_mem (s : Schema) (P : String) (fd : FieldDefS) (h : fd ∈ s.objectFields P) :
    ∃ td ∈ s.types, fd ∈ fieldsOf td := by
  unfold Schema.objectFields at h
  cases hf : s.find? P with
  | none => simp [hf] at h
  | some td =>
    have hm : td ∈ s.types := List.mem_of_find?_eq_some hf
    cases td <;> simp [hf] at h
    · exact ⟨_, hm, h⟩
    · exact ⟨_, hm, h⟩

theorem schemaOK_of_check (s : Schema) (h : schemaOKB s = true) : SchemaOK s := by
  simp only [schemaOKB, Bool.and_eq_true, List.all_eq_true] at h
  obtain ⟨hall, hstr⟩ := h
  have hfield : ∀ P fd, fd ∈ s.objectFields P → fieldOKB s fd = true := by
    intro P fd hfd
    obtain ⟨td, htd, hm⟩ := objectFields_mem s P fd hfd
    exact hall td htd fd hm
  have hdef : ∀ P nm fd, Exec.fieldDef? s P nm = some fd →
      (fd.args = [] ∨ (fieldOKB s fd = true ∧ fd.name = nm)) := by
    intro P nm fd hfd
    unfold Exec.fieldDef? at hfd
    split at hfd
    · simp only [Option.some.injEq] at hfd; subst hfd; exact Or.inl rfl
    · have hm := List.mem_of_find?_eq_some hfd
      have hn : fd.name = nm := by simpa using List.find?_some hfd
      exact Or.inr ⟨hfield P fd hm, hn⟩
  have hok : ∀ fd, fieldOKB s fd = true →
      (fd.args.map (·.name)).Nodup ∧ ∀ d ∈ fd.args, isInputType s d.type = true ∧ Reader.WFType (typeRefOf d.type) := by
    intro fd hfd
    simp only [fieldOKB, Bool.and_eq_true, decide_eq_true_eq, List.all_eq_true, argOKB] at hfd
    exact ⟨hfd.1.1.1, fun d hd => ⟨(hfd.1.1.2 d hd).1, wfType_of_check _ (hfd.1.1.2 d hd).2⟩⟩
  refine ⟨?_, ?_⟩
  · intro P nm fd hfd
    unfold fieldDefN at hfd
    split at hfd
    · simp only [Option.some.injEq] at hfd; subst hfd
      exact ⟨by simp, by intro d hd; cases hd⟩
    · split at hfd
      · simp only [Option.some.injEq] at hfd; subst hfd
        refine ⟨by simp, ?_⟩
        intro d hd
        simp only [List.mem_singleton] at hd; subst hd
        refine ⟨?_, ?_⟩
        · simpa [isInputType, GType.namedName] using hstr
        · simp only [typeRefOf, Reader.WFType]
          exact ⟨by decide, trivial⟩
      · rcases hdef P nm fd hfd with h0 | ⟨h1, _⟩
        · rw [h0]; exact ⟨by simp, by intro d hd; cases hd⟩
        · exact hok fd h1
  · intro P nm fd hfd
    unfold fieldDefN
    rcases hdef P nm fd hfd with h0 | ⟨h1, h2⟩
    · -- `__typename` (or a field without arguments): is `nm` an introspection entry point?
      by_cases hs : (nm == "__schema" && P == s.query) = true
      · -- then `fieldDef?` cannot have answered: "__schema" is not "__typename" and no field has that name
        exfalso
        have hnm : nm = "__schema" := by simp only [Bool.and_eq_true, beq_iff_eq] at hs; exact hs.1
        subst hnm
        unfold Exec.fieldDef? at hfd
        simp only [show ("__schema" == "__typename") = false by decide, Bool.false_eq_true, if_false] at hfd
        have hm := List.mem_of_find?_eq_some hfd
        have hn : fd.name = "__schema" := by simpa using List.find?_some hfd
        have := hfield P fd hm
        simp only [fieldOKB, Bool.and_eq_true, bne_iff_ne, ne_eq] at this
        exact this.1.2 hn
      · simp only [hs, Bool.false_eq_true, if_false]
        by_cases ht : (nm == "__type" && P == s.query) = true
        · exfalso
          have hnm : nm = "__type" := by simp only [Bool.and_eq_true, beq_iff_eq] at ht; exact ht.1
          subst hnm
          unfold Exec.fieldDef? at hfd
          simp only [show ("__type" == "__typename") = false by decide, Bool.false_eq_true, if_false] at hfd
          have hm := List.mem_of_find?_eq_some hfd
          have hn : fd.name = "__type" := by simpa using List.find?_some hfd
          have := hfield P fd hm
          simp only [fieldOKB, Bool.and_eq_true, bne_iff_ne, ne_eq] at this
          exact this.2 hn
        · simp only [ht, Bool.false_eq_true, if_false]
          exact hfd
    · have hne1 : (nm == "__schema") = false := by
        simp only [fieldOKB, Bool.and_eq_true, bne_iff_ne, ne_eq] at h1
        rw [← h2]; simpa using h1.1.2
      have hne2 : (nm == "__type") = false := by
        simp only [fieldOKB, Bool.and_eq_true, bne_iff_ne, ne_eq] at h1
        rw [← h2]; simpa using h1.2
      simp only [hne1, hne2, Bool.false_and, Bool.false_eq_true, if_false]
      exact hfd

/-- no custom scalars: `customLti` holds vacuously -/
def noCustomScalarsB (s : Schema) : Bool :=
  s.types.all (fun td => match td with | .scalar _ (.custom _ _ _) _ => false | _ => true)

theorem customLti_of_check (s : Schema) (h : noCustomScalarsB s = true) : customLti s := by
  intro n n' sv pv pl d hf
  have hm := List.mem_of_find?_eq_some hf
  simp only [noCustomScalarsB, List.all_eq_true] at h
  have := h _ hm
  simp at this

end GqlModel.Normalize
