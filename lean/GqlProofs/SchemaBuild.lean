import GqlModel.SchemaBuild
/-! Helper lemmas for C11 (schema construction). Core Lean only.

* §A  names, lookups in a type map with distinct names
* §B  the depth-first specification of `reduce` (`typeMapReducer`): the result extends the map, keeps names
      distinct, every *new* entry is closed (all its steps were visits whose targets are registered), the visited
      type itself is registered, and every new entry is reachable from the visited type -/
set_option linter.unusedSectionVars false
set_option linter.unusedVariables false
namespace GqlModel.SchemaBuild

variable (cfg : Config)

/-! ## §A -/

/-- the reference ends in a registered type object with a (valid) name -/
def Resolved (tm : TM) (t : TRef) : Prop := ∃ j, t.strip = .named j ∧ nameOf cfg j ≠ "" ∧ j ∈ tm

/-- what a successful visit of `t` by the reducer guarantees -/
def Visited (tm : TM) (t : TRef) : Prop := t.strip = .nil ∨ Resolved cfg tm t

/-- every entry is a type object whose constructor succeeded (so it has a valid name) and the names (keys of the Go
map) are pairwise distinct -/
def Inv (tm : TM) : Prop :=
  (∀ i ∈ tm, ctorErr cfg i = none) ∧ tm.Pairwise (fun a b => nameOf cfg a ≠ nameOf cfg b)

/-- all steps `typeMapReducer` takes for the entry were recursive visits (no parked error) of registered types -/
def ClosedE (tm : TM) (i : Nat) : Prop :=
  ∀ s ∈ stepsOf cfg i, ∃ t, s = .visit t ∧ Visited cfg tm t

theorem Resolved.mono {tm tm' : TM} {t : TRef} (h : Resolved cfg tm t) (hs : ∀ e ∈ tm, e ∈ tm') : Resolved cfg tm' t := by
  obtain ⟨j, h1, h2, h3⟩ := h
  exact ⟨j, h1, h2, hs j h3⟩

theorem Visited.mono {tm tm' : TM} {t : TRef} (h : Visited cfg tm t) (hs : ∀ e ∈ tm, e ∈ tm') : Visited cfg tm' t := by
  cases h with
  | inl h => exact Or.inl h
  | inr h => exact Or.inr (h.mono cfg hs)

theorem ClosedE.mono {tm tm' : TM} {i : Nat} (h : ClosedE cfg tm i) (hs : ∀ e ∈ tm, e ∈ tm') : ClosedE cfg tm' i := by
  intro s hsm
  obtain ⟨t, rfl, hv⟩ := h s hsm
  exact ⟨t, rfl, hv.mono cfg hs⟩

theorem validName_ne_empty {s : String} (h : validName s = true) : s ≠ "" := by
  intro hs; subst hs; revert h; decide

theorem nameOf_eq_of_ne {i : Nat} (h : nameOf cfg i ≠ "") :
    validName (cfg.get i).name = true ∧ nameOf cfg i = (cfg.get i).name := by
  unfold nameOf at h ⊢
  by_cases hv : validName (cfg.get i).name = true
  · simp [hv]
  · simp [hv] at h

theorem ctorErrT_none_of_ctorErr {i : Nat} (h : ctorErr cfg i = none) : ctorErrT (cfg.get i) = none := by
  unfold ctorErr at h
  cases hc : ctorErrT (cfg.get i) with
  | none => rfl
  | some e => simp [hc] at h

theorem ctorErr_none_name {i : Nat} (h : ctorErr cfg i = none) : nameOf cfg i ≠ "" := by
  have h := ctorErrT_none_of_ctorErr cfg h
  unfold ctorErrT at h
  by_cases hv : validName (cfg.get i).name = true
  · unfold nameOf; simp only [hv, if_true]; exact validName_ne_empty hv
  · simp [hv] at h

theorem lookup_none {tm : TM} {n : String} (h : TM.lookup cfg tm n = none) : ∀ e ∈ tm, nameOf cfg e ≠ n := by
  intro e he hn
  unfold TM.lookup at h
  rw [List.find?_eq_none] at h
  have := h e he
  simp [hn] at this

theorem lookup_some {tm : TM} {n : String} {e : Nat} (h : TM.lookup cfg tm n = some e) :
    e ∈ tm ∧ nameOf cfg e = n := by
  unfold TM.lookup at h
  have h1 := List.mem_of_find?_eq_some h
  have h2 := List.find?_some h
  exact ⟨h1, by simpa using h2⟩

theorem lookup_of_mem {tm : TM} (hinv : tm.Pairwise (fun a b => nameOf cfg a ≠ nameOf cfg b)) {e : Nat} (he : e ∈ tm) :
    TM.lookup cfg tm (nameOf cfg e) = some e := by
  unfold TM.lookup
  induction tm with
  | nil => cases he
  | cons x xs ih =>
    rw [List.pairwise_cons] at hinv
    rw [List.find?_cons]
    by_cases hx : x = e
    · subst hx; simp
    · have hmem : e ∈ xs := by
        cases he with
        | head => exact absurd rfl hx
        | tail _ h => exact h
      have hne : nameOf cfg x ≠ nameOf cfg e := hinv.1 e hmem
      have : (nameOf cfg x == nameOf cfg e) = false := by simpa using hne
      rw [this]
      exact ih hinv.2 hmem

/-- in a type map with distinct names, two entries with the same name are the same type object -/
theorem inv_name_inj {tm : TM} (hinv : Inv cfg tm) {a b : Nat} (ha : a ∈ tm) (hb : b ∈ tm)
    (h : nameOf cfg a = nameOf cfg b) : a = b := by
  have h1 := lookup_of_mem cfg hinv.2 ha
  have h2 := lookup_of_mem cfg hinv.2 hb
  rw [h] at h1
  rw [h1] at h2
  exact Option.some.inj h2

theorem inv_append_one {tm : TM} {e : Nat} (hinv : Inv cfg tm) (hname : ctorErr cfg e = none)
    (hfresh : ∀ x ∈ tm, nameOf cfg x ≠ nameOf cfg e) : Inv cfg (tm ++ [e]) := by
  refine ⟨?_, ?_⟩
  · intro i hi
    rw [List.mem_append] at hi
    cases hi with
    | inl h => exact hinv.1 i h
    | inr h => rw [List.mem_singleton.mp h]; exact hname
  · rw [List.pairwise_append]
    refine ⟨hinv.2, by simp, ?_⟩
    intro a ha b hb
    have : b = e := by simpa using hb
    subst this
    exact hfresh a ha

theorem mem_append_one {tm : TM} {e x : Nat} (h : e ∈ tm ++ [x]) (hne : e ∉ tm) : e = x := by
  rw [List.mem_append] at h
  cases h with
  | inl h => exact absurd h hne
  | inr h => simpa using h

/-! ## §B  depth-first specification -/

/-- edge of the reference graph: `j` is the type object a step of `i` refers to -/
def Edge (i j : Nat) : Prop := ∃ t, Step.visit t ∈ stepsOf cfg i ∧ t.strip = .named j

inductive Reach : Nat → Nat → Prop where
  | refl (e : Nat) : Reach e e
  | step {a b c : Nat} : Reach a b → Edge cfg b c → Reach a c

theorem Reach.trans {a b c : Nat} (h1 : Reach cfg a b) (h2 : Reach cfg b c) : Reach cfg a c := by
  induction h2 with
  | refl => exact h1
  | step _ he ih => exact Reach.step ih he

theorem Reach.head {a b c : Nat} (he : Edge cfg a b) (h : Reach cfg b c) : Reach cfg a c :=
  Reach.trans cfg (Reach.step (Reach.refl a) he) h

/-- what one call `rec tm t = ok tm'` of the reducer establishes -/
structure Spec (tm : TM) (t : TRef) (tm' : TM) : Prop where
  ext : ∃ l, tm' = tm ++ l
  inv : Inv cfg tm'
  closed : ∀ e ∈ tm', e ∉ tm → ClosedE cfg tm' e
  visited : Visited cfg tm' t
  reach : ∀ e ∈ tm', e ∉ tm → ∃ r, t.strip = .named r ∧ Reach cfg r e

structure StepsSpec (tm : TM) (steps : List Step) (tm' : TM) : Prop where
  ext : ∃ l, tm' = tm ++ l
  inv : Inv cfg tm'
  closed : ∀ e ∈ tm', e ∉ tm → ClosedE cfg tm' e
  visited : ∀ s ∈ steps, ∃ t, s = .visit t ∧ Visited cfg tm' t
  reach : ∀ e ∈ tm', e ∉ tm → ∃ t r, Step.visit t ∈ steps ∧ t.strip = .named r ∧ Reach cfg r e

theorem runSteps_spec (rec : TM → TRef → Except Err TM)
    (hrec : ∀ tm t tm', rec tm t = .ok tm' → Inv cfg tm → Spec cfg tm t tm') :
    ∀ steps tm tm', runSteps rec tm steps = .ok tm' → Inv cfg tm → StepsSpec cfg tm steps tm' := by
  intro steps
  induction steps with
  | nil =>
    intro tm tm' h hinv
    simp only [runSteps, Except.ok.injEq] at h
    subst h
    exact ⟨⟨[], by simp⟩, hinv, fun e he hne => absurd he hne, fun s hs => (by cases hs), fun e he hne => absurd he hne⟩
  | cons s rest ih =>
    intro tm tm' h hinv
    cases s with
    | fail e => simp [runSteps] at h
    | visit t =>
      simp only [runSteps] at h
      cases h1 : rec tm t with
      | error e => simp [h1] at h
      | ok tm1 =>
        simp only [h1] at h
        have s1 := hrec tm t tm1 h1 hinv
        have s2 := ih tm1 tm' h s1.inv
        obtain ⟨l1, hl1⟩ := s1.ext
        obtain ⟨l2, hl2⟩ := s2.ext
        have sub1 : ∀ e ∈ tm1, e ∈ tm' := by
          intro e he; rw [hl2]; exact List.mem_append_left _ he
        refine ⟨⟨l1 ++ l2, by rw [hl2, hl1, List.append_assoc]⟩, s2.inv, ?_, ?_, ?_⟩
        · intro e he hne
          by_cases h1m : e ∈ tm1
          · exact (s1.closed e h1m hne).mono cfg sub1
          · exact s2.closed e he h1m
        · intro s hs
          cases hs with
          | head => exact ⟨t, rfl, s1.visited.mono cfg sub1⟩
          | tail _ hs => exact s2.visited s hs
        · intro e he hne
          by_cases h1m : e ∈ tm1
          · obtain ⟨r, hr, hre⟩ := s1.reach e h1m hne
            exact ⟨t, r, List.mem_cons_self .., hr, hre⟩
          · obtain ⟨t', r, ht', hr, hre⟩ := s2.reach e he h1m
            exact ⟨t', r, List.mem_cons_of_mem _ ht', hr, hre⟩

theorem reduce_spec : ∀ fuel tm t tm', reduce cfg fuel tm t = .ok tm' → Inv cfg tm → Spec cfg tm t tm' := by
  intro fuel
  induction fuel with
  | zero => intro tm t tm' h; simp [reduce] at h
  | succ fuel ih =>
    intro tm t tm' h hinv
    have same : ∀ (hv : Visited cfg tm t), tm' = tm → Spec cfg tm t tm' := by
      intro hv heq
      subst heq
      exact ⟨⟨[], by simp⟩, hinv, fun e he hne => absurd he hne, hv, fun e he hne => absurd he hne⟩
    simp only [reduce] at h
    cases hs : t.strip with
    | nil =>
      simp only [hs, Except.ok.injEq] at h
      exact same (Or.inl hs) h.symm
    | nilPtr k => simp [hs] at h
    | badList => simp [hs] at h
    | badNonNull => simp [hs] at h
    | named i =>
      simp only [hs] at h
      cases hce : ctorErr cfg i with
      | some e => simp [hce] at h
      | none =>
        simp only [hce] at h
        have hn : nameOf cfg i ≠ "" := ctorErr_none_name cfg hce
        have hnb : (nameOf cfg i == "") = false := by simpa using hn
        simp only [hnb, Bool.false_eq_true, if_false] at h
        cases hl : TM.lookup cfg tm (nameOf cfg i) with
        | some x =>
          simp only [hl] at h
          by_cases hx : x = i
          · subst hx
            simp only [beq_self_eq_true, if_true, Except.ok.injEq] at h
            exact same (Or.inr ⟨x, hs, hn, (lookup_some cfg hl).1⟩) h.symm
          · have : (x == i) = false := by simpa using hx
            simp [this] at h
        | none =>
          simp only [hl] at h
          have hfresh := lookup_none cfg hl
          have hinv1 : Inv cfg (tm ++ [i]) := inv_append_one cfg hinv hce hfresh
          have sp := runSteps_spec cfg (reduce cfg fuel) ih (stepsOf cfg i) (tm ++ [i]) tm' h hinv1
          obtain ⟨l, hl'⟩ := sp.ext
          have hi_mem : i ∈ tm' := by rw [hl']; simp
          refine ⟨⟨i :: l, by rw [hl']; simp⟩, sp.inv, ?_, Or.inr ⟨i, hs, hn, hi_mem⟩, ?_⟩
          · intro e he hne
            by_cases h1 : e ∈ tm ++ [i]
            · have : e = i := mem_append_one h1 hne
              subst this
              exact sp.visited
            · exact sp.closed e he h1
          · intro e he hne
            by_cases h1 : e ∈ tm ++ [i]
            · have : e = i := mem_append_one h1 hne
              subst this
              exact ⟨e, hs, Reach.refl _⟩
            · obtain ⟨t', r, ht', hr, hre⟩ := sp.reach e he h1
              exact ⟨i, hs, Reach.head cfg ⟨t', ht', hr⟩ hre⟩

end GqlModel.SchemaBuild
