import GqlModel.Coerce
/-! Helper lemmas for C05: all-or-nothing maps, lookups, depth bounds, generic fuel stability. -/
namespace GqlModel.Coerce
open Spec

/-- `b`/`r`/`c` agree: accepted with result `c`, or rejected -/
def Agree {β : Type} (b : Bool) (r : Except Err β) (c : β) : Prop :=
  (b = true ∧ r = .ok c) ∨ (b = false ∧ ∃ e, r = .error e)

theorem Agree.ok_iff {β : Type} {b : Bool} {r : Except Err β} {c : β} (h : Agree b r c) :
    b = true ↔ ∃ x, r = .ok x := by
  rcases h with ⟨hb, hr⟩ | ⟨hb, e, hr⟩
  · simp [hb, hr]
  · simp [hb, hr]

theorem Agree.eq_ok {β : Type} {b : Bool} {r : Except Err β} {c : β} (h : Agree b r c) (hb : b = true) :
    r = .ok c := by
  rcases h with ⟨_, hr⟩ | ⟨hb', _⟩
  · exact hr
  · rw [hb] at hb'; cases hb'

theorem mapE_agree {α β : Type} (p : α → Bool) (f : α → Except Err β) (g : α → β) (xs : List α)
    (h : ∀ x ∈ xs, Agree (p x) (f x) (g x)) : Agree (xs.all p) (mapE f xs) (xs.map g) := by
  induction xs with
  | nil => left; simp [mapE]
  | cons x xs ih =>
    have hx := h x (by simp)
    have hxs := ih (fun y hy => h y (by simp [hy]))
    rcases hx with ⟨hp, hf⟩ | ⟨hp, e, hf⟩
    · rcases hxs with ⟨hp', hf'⟩ | ⟨hp', e, hf'⟩
      · left; simp [mapE, hp, hf, hp', hf']
      · right; simp [mapE, hp, hf, hp', hf']
    · right; simp [mapE, hp, hf]

theorem filterMap_id_map {α β : Type} (g : α → Option β) (xs : List α) :
    (xs.map g).filterMap id = xs.filterMap g := by
  induction xs with
  | nil => rfl
  | cons x xs ih => cases hg : g x <;> simp [hg, ih]

/-! ## Entries and defaults -/

theorem spec_fieldEntry_eq (f : InputFieldS) (r : JVal) : Spec.fieldEntry f r = Coerce.fieldEntry f r := by
  unfold Spec.fieldEntry Coerce.fieldEntry entryOf
  cases r <;> cases hd : f.default <;> simp [JVal.isNull]
  all_goals (rename_i d; cases d <;> simp [JVal.isNull])

theorem enumInternal_ne_null (ev : EnumValueS) : (enumInternal ev).isNull = false := by
  unfold enumInternal
  split
  · rfl
  · rename_i h; simpa using h

theorem enumByName_isNull (vals : List EnumValueS) (x : String) :
    (enumByName vals x).isNull = (vals.find? (fun ev => ev.name == x)).isNone := by
  unfold enumByName
  cases h : vals.find? (fun ev => ev.name == x) with
  | none => rfl
  | some ev => simp [enumInternal_ne_null]

/-! ## Depth bounds -/

theorem odepth_mem_list {x : JVal} {xs : List JVal} (h : x ∈ xs) : odepth x ≤ odepthList xs := by
  induction xs with
  | nil => cases h
  | cons y ys ih =>
    simp only [odepthList]
    rcases List.mem_cons.mp h with rfl | h'
    · exact Nat.le_max_left _ _
    · exact Nat.le_trans (ih h') (Nat.le_max_right _ _)

theorem odepth_lookupD (kv : List (String × JVal)) (k : String) : odepth (lookupD kv k) ≤ odepthFields kv := by
  induction kv with
  | nil => simp [lookupD, JVal.lookup, odepth]
  | cons p ps ih =>
    obtain ⟨k', v⟩ := p
    simp only [odepthFields]
    unfold lookupD JVal.lookup at *
    by_cases hk : (k' == k) = true
    · simp [List.find?, hk]; exact Nat.le_max_left _ _
    · simp only [List.find?, hk]
      exact Nat.le_trans ih (Nat.le_max_right _ _)

theorem litDepth_mem_list {x : Value} {xs : List Value} (h : x ∈ xs) : litDepth x ≤ litDepthList xs := by
  induction xs with
  | nil => cases h
  | cons y ys ih =>
    simp only [litDepthList]
    rcases List.mem_cons.mp h with rfl | h'
    · exact Nat.le_max_left _ _
    · exact Nat.le_trans (ih h') (Nat.le_max_right _ _)

theorem optLitDepth_litLookup (fs : List ObjField) (k : String) : optLitDepth (litLookup fs k) ≤ litDepthFields fs := by
  induction fs with
  | nil => simp [litLookup, optLitDepth]
  | cons f fs ih =>
    obtain ⟨nm, v, l⟩ := f
    simp only [litLookup, litDepthFields]
    cases h : litLookup fs k with
    | some w => simp only [h] at ih ⊢; exact Nat.le_trans ih (Nat.le_max_right _ _)
    | none =>
      simp only [ObjField.name, ObjField.value]
      by_cases hk : (nm.value == k) = true
      · simp [hk, optLitDepth]; exact Nat.le_max_left _ _
      · simp [hk, optLitDepth]

/-! ## Generic fuel stability -/

/-- If `step` consults `self` only on arguments of strictly smaller depth, then any two fuels above the
depth of the argument give the same result. -/
theorem iter_stable {α β : Type} (depth : α → Nat) (junk : GType → α → β)
    (step : (GType → α → β) → GType → α → β)
    (hloc : ∀ (f g : GType → α → β) (t : GType) (a : α),
      (∀ t' a', depth a' < depth a → f t' a' = g t' a') → step f t a = step g t a) :
    ∀ (n m : Nat) (t : GType) (a : α), depth a < n → depth a < m → iter junk step n t a = iter junk step m t a := by
  intro n
  induction n with
  | zero => intro m t a h; exact absurd h (Nat.not_lt_zero _)
  | succ n ih =>
    intro m t a hn hm
    cases m with
    | zero => exact absurd hm (Nat.not_lt_zero _)
    | succ m =>
      simp only [iter]
      apply hloc
      intro t' a' hlt
      exact ih m t' a' (by omega) (by omega)

end GqlModel.Coerce
