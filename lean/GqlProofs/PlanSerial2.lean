import GqlProofs.PlanSettle2
import GqlProofs.PlanReach
/-! # Mutations: after a top-level field's block nothing of it is left to force; the request level -/
namespace GqlModel.Plan
open GqlModel.Exec GqlModel.Coerce

/-- every value the per-field phase of a mutation stores is closure-free: everything a top-level field deferred was forced within
its block -/
theorem mRootMut_settled {c : Ctx} {alt : Alt} (ha : AltND alt) (dfuel : Nat) (rt : String) :
    ∀ (fuel : Nat) (fps : List FieldPlan) (acc : List (String × PVal)) (st : MSt), (∀ x ∈ acc, NoDef x.2) →
    ∀ fs, (mRootMut c alt dfuel fuel rt fps acc st).1 = .ok fs → ∀ x ∈ fs, NoDef x.2
  | 0, fps, acc, st, _, fs, h => by simp only [mRootMut] at h; cases h
  | fuel + 1, [], acc, st, hacc, fs, h => by simp only [mRootMut, Res.ok.injEq] at h; subst h; exact hacc
  | fuel + 1, fp :: rest, acc, st, hacc, fs, h => by
    simp only [mRootMut] at h
    by_cases hp : (!(fp.pred.eval c.schema c.vars)) = true
    · simp only [hp, if_true] at h; exact mRootMut_settled ha dfuel rt fuel rest acc st hacc fs h
    · simp only [hp, Bool.false_eq_true, if_false] at h
      cases hfd : fp.fieldDef with
      | none => simp only [hfd] at h; exact mRootMut_settled ha dfuel rt fuel rest acc st hacc fs h
      | some fd =>
        simp only [hfd] at h
        have hf2 := (nodupP (c := c) (alt := alt) ha fuel).field false rt .nil [.key fp.key] [(rt, fp.key)] fp fd st
        generalize mField c alt fuel false rt .nil [.key fp.key] [(rt, fp.key)] fp fd st = z at hf2 h
        obtain ⟨r1, st1⟩ := z
        cases r1 with
        | fail => simp only at h; cases h
        | fuelOut => simp only at h; cases h
        | ok v =>
          simp only at h
          have hd := (dfsS (frcFlat_forceAll (c := c) (alt := alt) ha dfuel) dfuel).val v st1 (hf2 v rfl)
          generalize dfsVal (forceAll c alt dfuel) dfuel v st1 = z2 at hd h
          obtain ⟨r2, st2⟩ := z2
          cases r2 with
          | fail => simp only at h; cases h
          | fuelOut => simp only at h; cases h
          | ok v' =>
            simp only at h
            refine mRootMut_settled ha dfuel rt fuel rest _ st2 ?_ fs h
            intro x hx
            rcases List.mem_append.1 hx with hx | hx
            · exact hacc x hx
            · simp only [List.mem_singleton] at hx; rw [hx]; exact hd v' rfl

/-- the walk of a MUTATION plan: the events are one contiguous block per top-level field in plan order, the data is closure-free
and the final `dethunkMapDepthFirst` pass does nothing -/
theorem runPlan_mutation {c : Ctx} {alt : Alt} (q : Plan) (hmut : q.isMutation = true) (fuel : Nat) (st0 : MSt)
    (ha : AltND alt) (r : Res (List (String × PVal))) (st : MSt)
    (h : runPlan c alt q fuel st0 = (r, st)) (hr : r ≠ .fuelOut) :
    (∃ new, st.events = new ++ st0.events ∧ MSerial (q.root.map (·.key)) new.reverse) ∧
    ∀ fs, r = .ok fs → ∀ x ∈ fs, NoDef x.2 := by
  unfold runPlan at h
  simp only [hmut, if_true] at h
  have hser := mRootMut_serial c alt fuel q.rootType fuel q.root [] st0
  have hset := mRootMut_settled (c := c) (alt := alt) ha fuel q.rootType fuel q.root [] st0 (fun _ h => by cases h)
  generalize mRootMut c alt fuel fuel q.rootType q.root [] st0 = z at hser hset h
  obtain ⟨r1, st1⟩ := z
  cases r1 with
  | fail =>
    simp only [Prod.mk.injEq] at h
    obtain ⟨rfl, rfl⟩ := h
    exact ⟨hser, fun _ h => by cases h⟩
  | fuelOut =>
    simp only [Prod.mk.injEq] at h
    exact absurd h.1.symm hr
  | ok fs =>
    simp only at h
    have hnd := hset fs rfl
    rcases (dfsId (frc := forceAll c alt fuel) fuel).fields (sortedKeys fs) fs st1 hnd with h2 | h2
    · rw [h2] at h; simp only [Prod.mk.injEq] at h; exact absurd h.1.symm hr
    · rw [h2] at h
      simp only [Prod.mk.injEq] at h
      obtain ⟨rfl, rfl⟩ := h
      exact ⟨hser, fun gs hg => by simp only [Res.ok.injEq] at hg; subst hg; exact hnd⟩

/-- request level (`PlanQuery` + `ExecutePlan` on a mutation operation) -/
theorem run_mutation_serial (s : Schema) (doc : Document) (opName : String) (inputs : Vars) (w : World) (fuel : Nat)
    (p : Plan) (hp : planQuery s doc opName = .ok p) (hmut : p.isMutation = true)
    (data : Option (List (String × PVal))) (errs : List (Path × Bool)) (events : List Event)
    (h : run s doc opName inputs w fuel = .result data errs events) :
    ∃ keys : List String, keys.Nodup ∧ MSerial keys events ∧ ∀ fs, data = some fs → ∀ x ∈ fs, NoDef x.2 := by
  rw [run_eq_ref s doc opName inputs w fuel p hp] at h
  unfold executePlanRef at h
  cases hvars : getVariableValues p.schema p.varDefs inputs with
  | error e => simp [hvars] at h
  | ok vars =>
    simp only [hvars] at h
    have hroot := planQuery_root_nodup hp
    -- the plan that is walked
    obtain ⟨q, hq, hqm, hqr⟩ : ∃ q : Plan, q = (if p.dynamicDirectives then p.specialise vars else p) ∧
        q.isMutation = true ∧ KeysNodup q.root := by
      refine ⟨_, rfl, ?_, ?_⟩
      · split
        · exact hmut
        · exact hmut
      · split
        · exact specialise_root_nodup p vars
        · exact hroot
    rw [← hq] at h
    generalize hrun : runPlan { schema := q.schema, frags := q.frags, vars := vars, world := w }
      (recompute q.schema q.frags q.planVars) q fuel { errs := [], events := [], memo := [] } = out at h
    obtain ⟨r, st⟩ := out
    have hne : r ≠ .fuelOut := by
      intro hf; subst hf; simp [MResponse.of] at h
    obtain ⟨⟨new, hev, hser⟩, hset⟩ := runPlan_mutation (c := { schema := q.schema, frags := q.frags, vars := vars, world := w })
      q hqm fuel _ (altND_recompute _ _ _) r st hrun hne
    simp only [List.append_nil] at hev
    refine ⟨q.root.map (·.key), (by simpa [KeysNodup] using hqr), ?_, ?_⟩
    · cases r with
      | ok fs => simp only [MResponse.of, MResponse.result.injEq] at h; rw [← h.2.2, hev]; exact hser
      | fail => simp only [MResponse.of, MResponse.result.injEq] at h; rw [← h.2.2, hev]; exact hser
      | fuelOut => exact absurd rfl hne
    · intro fs hfs
      cases r with
      | ok gs =>
        simp only [MResponse.of, MResponse.result.injEq] at h
        rw [hfs] at h
        simp only [Option.some.injEq] at h
        rw [← h.1]
        exact hset gs rfl
      | fail => simp only [MResponse.of, MResponse.result.injEq] at h; rw [hfs] at h; cases h.1
      | fuelOut => exact absurd rfl hne

end GqlModel.Plan
