import GqlProofs.ExecLeaf
/-! C04: every value the execution algorithm produces conforms to schema and query (`response_conforms`),
by simultaneous induction on the fuel of the four mutually recursive functions. -/
namespace GqlModel.Exec
open GqlModel.Coerce

theorem fieldDef?_name {s : Schema} {rt n : String} {fd : FieldDefS} (h : fieldDef? s rt n = some fd) : fd.name = n := by
  unfold fieldDef? at h
  split at h
  · rename_i hn
    simp only [Option.some.injEq] at h
    subst h
    exact (by simpa using hn : n = "__typename").symm
  · have := List.find?_some h
    simpa using this

theorem conforms_null_of_nullable (c : Ctx) {t : GType} (nodes : List FieldNode) (h : t.isNonNull = false) :
    Conforms c t nodes .null := by
  cases t with
  | named n => exact .null
  | list t => exact .listNull
  | nonNull t => simp [GType.isNonNull] at h

/-- the four statements proved together -/
structure ConfP (c : Ctx) (fuel : Nat) : Prop where
  groups : ∀ dfr rt src path groups acc st fs st' (G : Groups),
    execGroups c fuel dfr rt src path groups acc st = (.ok fs, st') →
    (∀ g, g ∈ groups → g ∈ G) → FieldsConform c rt G acc → FieldsConform c rt G fs
  field : ∀ dfr rt src p fd nodes st v st',
    execField c fuel dfr rt src p fd nodes st = (.ok v, st') →
    (fd.name = "__typename" ∧ v = .str rt) ∨ (fd.name ≠ "__typename" ∧ Conforms c fd.type nodes v)
  complete : ∀ dfr t rt fname nodes p v st j st',
    complete c fuel dfr t rt fname nodes p v st = (.ok j, st') → Conforms c t nodes j
  items : ∀ dfr item rt fname nodes p xs i acc st js st',
    completeItems c fuel dfr item rt fname nodes p xs i acc st = (.ok js, st') →
    (∀ x, x ∈ acc → Conforms c item nodes x) → ∀ x, x ∈ js → Conforms c item nodes x

theorem confP_zero (c : Ctx) : ConfP c 0 := by
  refine ⟨?_, ?_, ?_, ?_⟩
  · intro dfr rt src path groups acc st fs st' G h; simp [execGroups] at h
  · intro dfr rt src p fd nodes st v st' h; simp [execField] at h
  · intro dfr t rt fname nodes p v st j st' h; simp [complete] at h
  · intro dfr item rt fname nodes p xs i acc st js st' h; simp [completeItems] at h

theorem confP_groups (c : Ctx) (fuel : Nat) (ih : ConfP c fuel) :
    ∀ dfr rt src path groups acc st fs st' (G : Groups),
    execGroups c (fuel + 1) dfr rt src path groups acc st = (.ok fs, st') →
    (∀ g, g ∈ groups → g ∈ G) → FieldsConform c rt G acc → FieldsConform c rt G fs := by
  intro dfr rt src path groups acc st fs st' G h hG hacc
  cases groups with
  | nil =>
    simp only [execGroups, Prod.mk.injEq, Res.ok.injEq] at h
    rw [← h.1]; exact hacc
  | cons g rest =>
    obtain ⟨key, nodes⟩ := g
    simp only [execGroups] at h
    have hrest : ∀ g, g ∈ rest → g ∈ G := fun g hg => hG g (List.mem_cons_of_mem _ hg)
    split at h
    · exact ih.groups _ _ _ _ _ _ _ _ _ G h hrest hacc
    · rename_i node hnode
      split at h
      · exact ih.groups _ _ _ _ _ _ _ _ _ G h hrest hacc
      · rename_i fd hfd
        split at h
        · rename_i v st1 hf
          refine ih.groups _ _ _ _ _ _ _ _ _ G h hrest ?_
          intro kv hkv
          rcases List.mem_append.mp hkv with hkv | hkv
          · exact hacc kv hkv
          · simp only [List.mem_singleton] at hkv
            subst hkv
            have hname := fieldDef?_name hfd
            rcases ih.field _ _ _ _ _ _ _ _ _ hf with ⟨h1, h2⟩ | ⟨h1, h2⟩
            · subst h2
              exact .typename (hG _ List.mem_cons_self) hnode (hname ▸ h1)
            · exact .field (hG _ List.mem_cons_self) hnode (hname ▸ h1) hfd h2
        · simp at h
        · simp at h

theorem confP_field (c : Ctx) (fuel : Nat) (ih : ConfP c fuel) :
    ∀ dfr rt src p fd nodes st v st',
    execField c (fuel + 1) dfr rt src p fd nodes st = (.ok v, st') →
    (fd.name = "__typename" ∧ v = .str rt) ∨ (fd.name ≠ "__typename" ∧ Conforms c fd.type nodes v) := by
  intro dfr rt src p fd nodes st v st' h
  simp only [execField] at h
  split at h
  · rename_i hn
    simp only [Prod.mk.injEq, Res.ok.injEq] at h
    exact Or.inl ⟨by simpa using hn, h.1.symm⟩
  · rename_i hn
    right
    refine ⟨by simpa using hn, ?_⟩
    split at h
    · -- resolver failed
      split at h
      · simp at h
      · rename_i hnn
        simp only [Prod.mk.injEq, Res.ok.injEq] at h
        rw [← h.1]; exact conforms_null_of_nullable c nodes (by simpa using hnn)
    · split at h
      · rename_i j st1 hc
        simp only [Prod.mk.injEq, Res.ok.injEq] at h
        rw [← h.1]; exact ih.complete _ _ _ _ _ _ _ _ _ _ hc
      · split at h
        · simp at h
        · rename_i hnn
          simp only [Prod.mk.injEq, Res.ok.injEq] at h
          rw [← h.1]; exact conforms_null_of_nullable c nodes (by simpa using hnn)
      · simp at h

theorem confP_items (c : Ctx) (fuel : Nat) (ih : ConfP c fuel) :
    ∀ dfr item rt fname nodes p xs i acc st js st',
    completeItems c (fuel + 1) dfr item rt fname nodes p xs i acc st = (.ok js, st') →
    (∀ x, x ∈ acc → Conforms c item nodes x) → ∀ x, x ∈ js → Conforms c item nodes x := by
  intro dfr item rt fname nodes p xs i acc st js st' h hacc
  cases xs with
  | nil =>
    simp only [completeItems, Prod.mk.injEq, Res.ok.injEq] at h
    rw [← h.1]; exact hacc
  | cons x xs =>
    simp only [completeItems] at h
    split at h
    · rename_i j st1 hc
      refine ih.items _ _ _ _ _ _ _ _ _ _ _ _ h ?_
      intro y hy
      rcases List.mem_append.mp hy with hy | hy
      · exact hacc y hy
      · simp only [List.mem_singleton] at hy
        subst hy; exact ih.complete _ _ _ _ _ _ _ _ _ _ hc
    · split at h
      · simp at h
      · rename_i hnn
        refine ih.items _ _ _ _ _ _ _ _ _ _ _ _ h ?_
        intro y hy
        rcases List.mem_append.mp hy with hy | hy
        · exact hacc y hy
        · simp only [List.mem_singleton] at hy
          subst hy; exact conforms_null_of_nullable c nodes (by simpa using hnn)
    · simp at h

theorem confP_complete (c : Ctx) (fuel : Nat) (ih : ConfP c fuel) :
    ∀ dfr t rt fname nodes p v st j st',
    complete c (fuel + 1) dfr t rt fname nodes p v st = (.ok j, st') → Conforms c t nodes j := by
  intro dfr t rt fname nodes p v st j st' h
  simp only [complete] at h
  split at h
  · -- thunk
    split at h
    · simp at h
    · split at h
      · simp at h
      · rename_i r hr
        exact ih.complete _ _ _ _ _ _ _ _ _ _ h
  · simp at h
  · split at h
    · -- nonNull
      rename_i inner
      split at h
      · simp at h
      · rename_i r hr
        refine .nonNull ?_ (ih.complete _ _ _ _ _ _ _ _ _ _ h)
        intro hj
        subst hj
        exact hr _ h
    · -- list
      rename_i item
      split at h
      · simp only [Prod.mk.injEq, Res.ok.injEq] at h
        rw [← h.1]; exact .listNull
      · split at h
        · split at h
          · rename_i js st1 hi
            simp only [Prod.mk.injEq, Res.ok.injEq] at h
            rw [← h.1]
            exact .list (ih.items _ _ _ _ _ _ _ _ _ _ _ _ hi (by simp))
          · simp at h
          · simp at h
        · simp at h
    · -- named
      rename_i n
      split at h
      · simp only [Prod.mk.injEq, Res.ok.injEq] at h
        rw [← h.1]; exact .null
      · split at h
        · rename_i hleaf
          split at h
          · rename_i j' hs
            simp only [Prod.mk.injEq, Res.ok.injEq] at h
            rw [← h.1]
            rcases serializeLeaf_legal _ _ _ _ hs with h0 | h1
            · rw [h0]; exact .null
            · exact .leaf hleaf h1
          · simp at h
        · split at h
          · rename_i habs
            split at h
            · simp at h
            · rename_i ot hot
              split at h
              · simp at h
              · rename_i hposs
                split at h
                · rename_i fs st1 hg
                  simp only [Prod.mk.injEq, Res.ok.injEq] at h
                  rw [← h.1]
                  have hp : c.schema.isObject ot = true ∧ c.schema.isPossibleType n ot = true := by
                    simpa using hposs
                  exact .abstract habs hp.1 hp.2
                    (ih.groups _ _ _ _ _ _ _ _ _ _ hg (fun g hg => hg) (by intro kv hkv; simp at hkv))
                · simp at h
                · simp at h
          · split at h
            · rename_i hobj
              split at h
              · simp at h
              · split at h
                · rename_i fs st1 hg
                  simp only [Prod.mk.injEq, Res.ok.injEq] at h
                  rw [← h.1]
                  exact .object hobj
                    (ih.groups _ _ _ _ _ _ _ _ _ _ hg (fun g hg => hg) (by intro kv hkv; simp at hkv))
                · simp at h
                · simp at h
            · simp at h

theorem confP (c : Ctx) : ∀ fuel, ConfP c fuel
  | 0 => confP_zero c
  | fuel + 1 =>
    have ih := confP c fuel
    ⟨confP_groups c fuel ih, confP_field c fuel ih, confP_complete c fuel ih, confP_items c fuel ih⟩

end GqlModel.Exec
