import GqlProofs.ValidateOverlapFuel
/-! # C02: soundness of the memoised overlap algorithm w.r.t. the declarative rule — basic facts

* M's argument / type tests imply S's: `sameArgsS → sameArguments` (structural equality implies equal printing),
  `doTypesConflict = ¬ sameShapeTypes`;
* what `getFieldsAndFragmentNames` collects: its fields are `directSet`, filed under their response key; its fragment
  names are `shallowSet`. -/
namespace GqlModel.Validate.Overlap
open GqlModel.Validate GqlModel.Validate.Graph

/-! ## arguments and types -/

mutual
theorem valueEq_print : ∀ v w : Value, valueEq v w = true → Printer.valueC v = Printer.valueC w
  | .var a _, .var b _, h => by simp only [valueEq, beq_iff_eq] at h; simp [Printer.valueC, h]
  | .int a _, .int b _, h => by simp only [valueEq, beq_iff_eq] at h; simp [Printer.valueC, h]
  | .float a _, .float b _, h => by simp only [valueEq, beq_iff_eq] at h; simp [Printer.valueC, h]
  | .str a _, .str b _, h => by simp only [valueEq, beq_iff_eq] at h; simp [Printer.valueC, h]
  | .bool a _, .bool b _, h => by simp only [valueEq, beq_iff_eq] at h; simp [Printer.valueC, h]
  | .enum a _, .enum b _, h => by simp only [valueEq, beq_iff_eq] at h; simp [Printer.valueC, h]
  | .list xs _, .list ys _, h => by
    simp only [valueEq] at h
    simp only [Printer.valueC]
    rw [valuesEq_print xs ys h]
  | .obj xs _, .obj ys _, h => by
    simp only [valueEq] at h
    simp only [Printer.valueC]
    rw [objFieldsEq_print xs ys h]
  | .var .., .int .., h | .var .., .float .., h | .var .., .str .., h | .var .., .bool .., h | .var .., .enum .., h
  | .var .., .list .., h | .var .., .obj .., h => by simp [valueEq] at h
  | .int .., .var .., h | .int .., .float .., h | .int .., .str .., h | .int .., .bool .., h | .int .., .enum .., h
  | .int .., .list .., h | .int .., .obj .., h => by simp [valueEq] at h
  | .float .., .var .., h | .float .., .int .., h | .float .., .str .., h | .float .., .bool .., h
  | .float .., .enum .., h | .float .., .list .., h | .float .., .obj .., h => by simp [valueEq] at h
  | .str .., .var .., h | .str .., .int .., h | .str .., .float .., h | .str .., .bool .., h | .str .., .enum .., h
  | .str .., .list .., h | .str .., .obj .., h => by simp [valueEq] at h
  | .bool .., .var .., h | .bool .., .int .., h | .bool .., .float .., h | .bool .., .str .., h
  | .bool .., .enum .., h | .bool .., .list .., h | .bool .., .obj .., h => by simp [valueEq] at h
  | .enum .., .var .., h | .enum .., .int .., h | .enum .., .float .., h | .enum .., .str .., h
  | .enum .., .bool .., h | .enum .., .list .., h | .enum .., .obj .., h => by simp [valueEq] at h
  | .list .., .var .., h | .list .., .int .., h | .list .., .float .., h | .list .., .str .., h
  | .list .., .bool .., h | .list .., .enum .., h | .list .., .obj .., h => by simp [valueEq] at h
  | .obj .., .var .., h | .obj .., .int .., h | .obj .., .float .., h | .obj .., .str .., h
  | .obj .., .bool .., h | .obj .., .enum .., h | .obj .., .list .., h => by simp [valueEq] at h
theorem valuesEq_print : ∀ xs ys : List Value, valuesEq xs ys = true → Printer.valuesC xs = Printer.valuesC ys
  | [], [], _ => rfl
  | x :: xs, y :: ys, h => by
    simp only [valuesEq, Bool.and_eq_true] at h
    simp only [Printer.valuesC]
    rw [valueEq_print x y h.1, valuesEq_print xs ys h.2]
  | [], _ :: _, h => by simp [valuesEq] at h
  | _ :: _, [], h => by simp [valuesEq] at h
theorem objFieldEq_print : ∀ x y : ObjField, objFieldEq x y = true → Printer.fieldC x = Printer.fieldC y
  | .mk n v _, .mk m w _, h => by
    simp only [objFieldEq, Bool.and_eq_true, beq_iff_eq] at h
    simp only [Printer.fieldC]
    rw [h.1, valueEq_print v w h.2]
theorem objFieldsEq_print : ∀ xs ys : List ObjField, objFieldsEq xs ys = true → Printer.fieldsC xs = Printer.fieldsC ys
  | [], [], _ => rfl
  | x :: xs, y :: ys, h => by
    simp only [objFieldsEq, Bool.and_eq_true] at h
    simp only [Printer.fieldsC]
    rw [objFieldEq_print x y h.1, objFieldsEq_print xs ys h.2]
  | [], _ :: _, h => by simp [objFieldsEq] at h
  | _ :: _, [], h => by simp [objFieldsEq] at h
end

theorem find_arg_of_nodup (ys : List Argument) (hy : (ys.map (·.name.value)).Nodup) (y : Argument) (hmem : y ∈ ys) :
    ys.find? (fun y' => y'.name.value == y.name.value) = some y := by
  induction ys with
  | nil => cases hmem
  | cons z zs ih =>
    simp only [List.map_cons, List.nodup_cons] at hy
    by_cases hz : z.name.value = y.name.value
    · have : y = z := by
        rcases List.mem_cons.1 hmem with h | h
        · exact h
        · exact absurd (List.mem_map.2 ⟨y, h, hz.symm⟩) hy.1
      subst this
      simp
    · have hmem' : y ∈ zs := by
        rcases List.mem_cons.1 hmem with h | h
        · exact absurd (by rw [h]) hz
        · exact h
      have : (z.name.value == y.name.value) = false := by simpa using hz
      rw [List.find?_cons, this]
      exact ih hy.2 hmem'

theorem argsIncl_spec (xs ys : List Argument) (h : argsIncl xs ys = true) :
    ∀ x, x ∈ xs → ∃ y, y ∈ ys ∧ y.name.value = x.name.value ∧ valueEq x.value y.value = true := by
  intro x hx
  simp only [argsIncl, List.all_eq_true, List.any_eq_true, Bool.and_eq_true, beq_iff_eq] at h
  exact h x hx

/-- identical argument sets for S are identical arguments for the code (which compares printed values, first match
by name), provided neither field repeats an argument name -/
theorem sameArguments_of_sameArgsS (xs ys : List Argument) (hx : (xs.map (·.name.value)).Nodup)
    (hy : (ys.map (·.name.value)).Nodup) (h : sameArgsS xs ys = true) : sameArguments xs ys = true := by
  simp only [sameArgsS, Bool.and_eq_true] at h
  have h1 := argsIncl_spec xs ys h.1
  have h2 := argsIncl_spec ys xs h.2
  have hlen : xs.length = ys.length := by
    have l1 := nodup_length_le (xs.map (·.name.value)) (ys.map (·.name.value)) hx (fun n hn => by
      rcases List.mem_map.1 hn with ⟨x, hxm, rfl⟩
      rcases h1 x hxm with ⟨y, hym, hn', _⟩
      exact List.mem_map.2 ⟨y, hym, hn'⟩)
    have l2 := nodup_length_le (ys.map (·.name.value)) (xs.map (·.name.value)) hy (fun n hn => by
      rcases List.mem_map.1 hn with ⟨y, hym, rfl⟩
      rcases h2 y hym with ⟨x, hxm, hn', _⟩
      exact List.mem_map.2 ⟨x, hxm, hn'⟩)
    simp only [List.length_map] at l1 l2
    omega
  simp only [sameArguments, Bool.and_eq_true, List.all_eq_true, beq_iff_eq]
  refine ⟨hlen, fun x hxm => ?_⟩
  rcases h1 x hxm with ⟨y, hym, hn, hv⟩
  have hf := find_arg_of_nodup ys hy y hym
  rw [hn] at hf
  rw [hf]
  simp only [sameValue, decide_eq_true_eq]
  exact valueEq_print _ _ hv

theorem doTypesConflict_eq (s : Schema) : ∀ a b : GType, doTypesConflict s a b = !sameShapeTypes s a b
  | .list a, .list b => by simp only [doTypesConflict, sameShapeTypes]; exact doTypesConflict_eq s a b
  | .list _, .named _ => by simp [doTypesConflict, sameShapeTypes]
  | .list _, .nonNull _ => by simp [doTypesConflict, sameShapeTypes]
  | .named _, .list _ => by simp [doTypesConflict, sameShapeTypes]
  | .nonNull _, .list _ => by simp [doTypesConflict, sameShapeTypes]
  | .nonNull a, .nonNull b => by simp only [doTypesConflict, sameShapeTypes]; exact doTypesConflict_eq s a b
  | .nonNull _, .named _ => by simp [doTypesConflict, sameShapeTypes]
  | .named _, .nonNull _ => by simp [doTypesConflict, sameShapeTypes]
  | .named a, .named b => by
    simp only [doTypesConflict, sameShapeTypes]
    by_cases h : (s.leafT a || s.leafT b) = true
    · simp [h, bne]
    · simp [h]

theorem shapeConflict_of_typesConflict (s : Schema) (a b : FieldOcc) (h : typesConflict s a b = true) :
    shapeConflict s a b = true := by
  unfold typesConflict at h
  unfold shapeConflict
  split at h
  · rw [doTypesConflict_eq] at h
    exact h
  · cases h

/-! ## what `getFieldsAndFragmentNames` collects -/

def occsOf (fields : List (String × List FieldOcc)) : List FieldOcc := fields.flatMap (·.2)

def KeyOK (fields : List (String × List FieldOcc)) : Prop := ∀ kf, kf ∈ fields → ∀ a, a ∈ kf.2 → a.node.key = kf.1

theorem mem_occsOf {fields : List (String × List FieldOcc)} {a : FieldOcc} :
    a ∈ occsOf fields ↔ ∃ kf, kf ∈ fields ∧ a ∈ kf.2 := by
  simp [occsOf, List.mem_flatMap]

theorem addField_occs (m : List (String × List FieldOcc)) (k : String) (o a : FieldOcc)
    (h : a ∈ occsOf (addField m k o)) : a ∈ occsOf m ∨ a = o := by
  induction m with
  | nil => simp [addField, occsOf] at h; exact .inr h
  | cons p rest ih =>
    obtain ⟨k', os⟩ := p
    unfold addField at h
    split at h
    · simp only [occsOf, List.flatMap_cons, List.mem_append] at h ⊢
      rcases h with (h | h) | h
      · exact .inl (.inl h)
      · simp only [List.mem_singleton] at h; exact .inr h
      · exact .inl (.inr h)
    · simp only [occsOf, List.flatMap_cons, List.mem_append] at h ⊢
      rcases h with h | h
      · exact .inl (.inl h)
      · rcases ih h with h | h
        · exact .inl (.inr h)
        · exact .inr h

theorem addField_keyOK (m : List (String × List FieldOcc)) (k : String) (o : FieldOcc) (hm : KeyOK m)
    (ho : o.node.key = k) : KeyOK (addField m k o) := by
  induction m with
  | nil =>
    intro kf hkf a ha
    simp only [addField, List.mem_singleton] at hkf
    subst hkf
    simp only [List.mem_singleton] at ha
    rw [ha]; exact ho
  | cons p rest ih =>
    obtain ⟨k', os⟩ := p
    have hrest : KeyOK rest := fun kf hkf => hm kf (List.mem_cons_of_mem _ hkf)
    unfold addField
    split
    · rename_i hk
      intro kf hkf a ha
      rcases List.mem_cons.1 hkf with rfl | hkf
      · rcases List.mem_append.1 ha with ha | ha
        · exact hm (k', os) List.mem_cons_self a ha
        · simp only [List.mem_singleton] at ha
          rw [ha]; exact ho.trans hk.symm
      · exact hrest kf hkf a ha
    · intro kf hkf a ha
      rcases List.mem_cons.1 hkf with rfl | hkf
      · exact hm (k', os) List.mem_cons_self a ha
      · exact ih hrest kf hkf a ha

/-- what an accumulator holds relative to a starting accumulator and the selections scanned so far -/
structure AccSpec (acc0 acc : Acc) (direct : List FieldOcc) (shallow : List String) : Prop where
  occs : ∀ a, a ∈ occsOf acc.fields → a ∈ occsOf acc0.fields ∨ a ∈ direct
  frags : ∀ n, n ∈ acc.frags → n ∈ acc0.frags ∨ n ∈ shallow
  keys : KeyOK acc0.fields → KeyOK acc.fields

mutual
theorem collectSel_spec (e : Env) : ∀ (pt : Option String) (x : Selection) (acc : Acc),
    AccSpec acc (collectSel e pt x acc) (directSel e pt x) (shallowSel x)
  | pt, .field a nm args ds sel l, acc => by
    simp only [collectSel, directSel, shallowSel]
    refine ⟨fun o ho => ?_, fun n hn => .inl hn, fun hk => addField_keyOK _ _ _ hk rfl⟩
    rcases addField_occs _ _ _ _ ho with h | h
    · exact .inl h
    · exact .inr (by simp [h])
  | pt, .spread nm ds l, acc => by
    simp only [collectSel, directSel, shallowSel]
    split
    · exact ⟨fun o ho => .inl ho, fun n hn => .inl hn, fun hk => hk⟩
    · refine ⟨fun o ho => .inl ho, fun n hn => ?_, fun hk => hk⟩
      rcases List.mem_append.1 hn with hn | hn
      · exact .inl hn
      · exact .inr hn
  | pt, .inline tc ds ss l, acc => by
    simp only [collectSel, directSel, shallowSel]
    exact collectSet_spec e _ ss acc
theorem collectSet_spec (e : Env) : ∀ (pt : Option String) (x : SelectionSet) (acc : Acc),
    AccSpec acc (collectSet e pt x acc) (directSet e pt x) (shallowSet x)
  | pt, .mk sels l, acc => by
    simp only [collectSet, directSet, shallowSet]
    exact collectSels_spec e pt sels acc
theorem collectSels_spec (e : Env) : ∀ (pt : Option String) (x : List Selection) (acc : Acc),
    AccSpec acc (collectSels e pt x acc) (directSels e pt x) (shallowSels x)
  | pt, [], acc => by
    simp only [collectSels, directSels, shallowSels]
    exact ⟨fun o ho => .inl ho, fun n hn => .inl hn, fun hk => hk⟩
  | pt, x :: xs, acc => by
    simp only [collectSels, directSels, shallowSels]
    have h1 := collectSel_spec e pt x acc
    have h2 := collectSels_spec e pt xs (collectSel e pt x acc)
    refine ⟨fun o ho => ?_, fun n hn => ?_, fun hk => h2.keys (h1.keys hk)⟩
    · rcases h2.occs o ho with h | h
      · rcases h1.occs o h with h | h
        · exact .inl h
        · exact .inr (List.mem_append_left _ h)
      · exact .inr (List.mem_append_right _ h)
    · rcases h2.frags n hn with h | h
      · rcases h1.frags n h with h | h
        · exact .inl h
        · exact .inr (List.mem_append_left _ h)
      · exact .inr (List.mem_append_right _ h)
end

theorem collectInfo_spec (e : Env) (pt : Option String) (ss : SelectionSet) :
    (∀ a, a ∈ occsOf (collectInfo e pt ss).fields → a ∈ directSet e pt ss) ∧
    (∀ n, n ∈ (collectInfo e pt ss).frags → n ∈ shallowSet ss) ∧ KeyOK (collectInfo e pt ss).fields := by
  have h := collectSet_spec e pt ss ⟨[], []⟩
  refine ⟨fun a ha => ?_, fun n hn => ?_, h.keys (by intro kf hkf; cases hkf)⟩
  · rcases h.occs a ha with h' | h'
    · simp [occsOf] at h'
    · exact h'
  · rcases h.frags n hn with h' | h'
    · cases h'
    · exact h'

end GqlModel.Validate.Overlap
