import GqlProofs.ExecState
import GqlProofs.ExecLog
import GqlProofs.ExecRoot
import GqlProofs.ExecResolved
/-! C04, two-world form of sibling independence. Two worlds that agree on everything except the outcome of ONE
(object, field) pair: a call (of any of the four functions) that, in the first world, never invokes that resolver
returns the same result and leaves the same state in the second world. -/
namespace GqlModel.Exec
open GqlModel.Coerce

/-- the same context with another resolver world -/
def Ctx.withWorld (c : Ctx) (w : World) : Ctx := { schema := c.schema, frags := c.frags, vars := c.vars, world := w }

/-! ## collection does not look at the world -/

mutual
theorem collectSel_world (c : Ctx) (w : World) (rt : String) (e1 e2 : String → Groups × List String → Groups × List String)
    (he : ∀ n acc, e1 n acc = e2 n acc) :
    ∀ (s : Selection) (acc : Groups × List String), collectSel (c.withWorld w) rt e1 s acc = collectSel c rt e2 s acc
  | .field alias name args dirs sel loc, (g, vis) => by simp only [collectSel]; rfl
  | .inline tc dirs sel _, acc => by
    simp only [collectSel]
    rw [collectSet_world c w rt e1 e2 he sel acc]
    rfl
  | .spread name dirs _, acc => by
    simp only [collectSel, he]
    rfl
theorem collectSet_world (c : Ctx) (w : World) (rt : String) (e1 e2 : String → Groups × List String → Groups × List String)
    (he : ∀ n acc, e1 n acc = e2 n acc) :
    ∀ (s : SelectionSet) (acc : Groups × List String), collectSet (c.withWorld w) rt e1 s acc = collectSet c rt e2 s acc
  | .mk sels _, acc => by
    simp only [collectSet]
    exact collectList_world c w rt e1 e2 he sels acc
theorem collectList_world (c : Ctx) (w : World) (rt : String) (e1 e2 : String → Groups × List String → Groups × List String)
    (he : ∀ n acc, e1 n acc = e2 n acc) :
    ∀ (l : List Selection) (acc : Groups × List String), collectList (c.withWorld w) rt e1 l acc = collectList c rt e2 l acc
  | [], acc => by simp only [collectList]
  | s :: rest, acc => by
    simp only [collectList]
    rw [collectSel_world c w rt e1 e2 he s acc]
    exact collectList_world c w rt e1 e2 he rest _
end

theorem expandSpread_world (c : Ctx) (w : World) (rt : String) :
    ∀ (fuel : Nat) (n : String) (acc : Groups × List String),
      expandSpread (c.withWorld w) rt fuel n acc = expandSpread c rt fuel n acc
  | 0, n, acc => by simp only [expandSpread]
  | fuel + 1, n, (g, vis) => by
    simp only [expandSpread]
    split
    · rfl
    · have hf : (c.withWorld w).frag? n = c.frag? n := rfl
      rw [hf]
      split
      · rfl
      · rename_i tc sel hfr
        have hs : (c.withWorld w).schema = c.schema := rfl
        rw [hs]
        split
        · exact collectSet_world c w rt _ _ (expandSpread_world c w rt fuel) sel _
        · rfl

theorem collect_world (c : Ctx) (w : World) (rt : String) (sel : SelectionSet) (acc : Groups × List String) :
    collect (c.withWorld w) rt sel acc = collect c rt sel acc := by
  unfold collect
  have hf : (c.withWorld w).fragFuel = c.fragFuel := rfl
  rw [hf]
  exact collectSet_world c w rt _ _ (expandSpread_world c w rt _) sel acc

theorem collectMerged_world (c : Ctx) (w : World) (rt : String) (nodes : List FieldNode) :
    collectMerged (c.withWorld w) rt nodes = collectMerged c rt nodes := by
  unfold collectMerged
  congr 1
  congr 1
  funext acc n
  split
  · exact collect_world c w rt _ acc
  · rfl

/-! ## two worlds -/

/-- the worlds agree on every type question and on every resolver outcome except that of `(object id0, field f0)` -/
structure AgreeExcept (w1 w2 : World) (id0 : Nat) (f0 : String) : Prop where
  isTypeOf : ∀ t v, w1.isTypeOfAns t v = w2.isTypeOfAns t v
  resolveType : ∀ t v, w1.resolveTypeAns t v = w2.resolveTypeAns t v
  outcome : ∀ src f, ¬(src = .ref id0 ∧ f = f0) → w1.outcome src f = w2.outcome src f

/-- the invocation `e` is the one of the resolver `(object id0, field f0)` -/
def Touches (id0 : Nat) (f0 : String) (e : LogEntry) : Prop := e.source = .ref id0 ∧ e.fieldName = f0

@[simp] theorem Ctx.withWorld_schema (c : Ctx) (w : World) : (c.withWorld w).schema = c.schema := rfl
@[simp] theorem Ctx.withWorld_world (c : Ctx) (w : World) : (c.withWorld w).world = w := rfl
@[simp] theorem Ctx.withWorld_vars (c : Ctx) (w : World) : (c.withWorld w).vars = c.vars := rfl

theorem runtimeTypeOf_world (c : Ctx) (w2 : World) {id0 : Nat} {f0 : String} (ha : AgreeExcept c.world w2 id0 f0)
    (n : String) (v : GoVal) : runtimeTypeOf (c.withWorld w2) n v = runtimeTypeOf c n v := by
  unfold runtimeTypeOf
  simp only [Ctx.withWorld_schema, Ctx.withWorld_world, ha.resolveType, ha.isTypeOf]
  rfl

structure WP (c : Ctx) (w2 : World) (id0 : Nat) (f0 : String) (fuel : Nat) : Prop where
  groups : ∀ dfr rt src path groups acc st r st',
    execGroups c fuel dfr rt src path groups acc st = (r, st') → (∀ e, e ∈ st'.log → ¬ Touches id0 f0 e) →
    execGroups (c.withWorld w2) fuel dfr rt src path groups acc st = (r, st')
  field : ∀ dfr rt src p fd nodes st r st',
    execField c fuel dfr rt src p fd nodes st = (r, st') → (∀ e, e ∈ st'.log → ¬ Touches id0 f0 e) →
    execField (c.withWorld w2) fuel dfr rt src p fd nodes st = (r, st')
  complete : ∀ dfr t rt fname nodes p v st r st',
    complete c fuel dfr t rt fname nodes p v st = (r, st') → (∀ e, e ∈ st'.log → ¬ Touches id0 f0 e) →
    complete (c.withWorld w2) fuel dfr t rt fname nodes p v st = (r, st')
  items : ∀ dfr item rt fname nodes p xs i acc st r st',
    completeItems c fuel dfr item rt fname nodes p xs i acc st = (r, st') → (∀ e, e ∈ st'.log → ¬ Touches id0 f0 e) →
    completeItems (c.withWorld w2) fuel dfr item rt fname nodes p xs i acc st = (r, st')

variable {c : Ctx} {w2 : World} {id0 : Nat} {f0 : String}

theorem wP_zero : WP c w2 id0 f0 0 := by
  refine ⟨?_, ?_, ?_, ?_⟩
  · intro dfr rt src path groups acc st r st' h _; simp only [execGroups] at h ⊢; exact h
  · intro dfr rt src p fd nodes st r st' h _; simp only [execField] at h ⊢; exact h
  · intro dfr t rt fname nodes p v st r st' h _; simp only [complete] at h ⊢; exact h
  · intro dfr item rt fname nodes p xs i acc st r st' h _; simp only [completeItems] at h ⊢; exact h

/-- no invocation in a later log ⇒ none in an earlier one -/
theorem noTouch_of_suffix {l l' : List LogEntry} (hs : l <:+ l') (h : ∀ e, e ∈ l' → ¬ Touches id0 f0 e) :
    ∀ e, e ∈ l → ¬ Touches id0 f0 e := fun e he => h e (hs.subset he)

theorem wP_groups (fuel : Nat) (ih : WP c w2 id0 f0 fuel) :
    ∀ dfr rt src path groups acc st r st',
    execGroups c (fuel + 1) dfr rt src path groups acc st = (r, st') → (∀ e, e ∈ st'.log → ¬ Touches id0 f0 e) →
    execGroups (c.withWorld w2) (fuel + 1) dfr rt src path groups acc st = (r, st') := by
  intro dfr rt src path groups acc st r st' h hnt
  cases groups with
  | nil => simp only [execGroups] at h ⊢; exact h
  | cons g rest =>
    obtain ⟨key, nodes⟩ := g
    simp only [execGroups, Ctx.withWorld_schema] at h ⊢
    split
    · rename_i hh
      simp only [hh] at h
      exact ih.groups _ _ _ _ _ _ _ _ _ h hnt
    · rename_i node hh
      simp only [hh] at h
      split
      · rename_i hfd
        simp only [hfd] at h
        exact ih.groups _ _ _ _ _ _ _ _ _ h hnt
      · rename_i fd hfd
        simp only [hfd] at h
        rcases hf : execField c fuel dfr rt src (path ++ [.key key]) fd nodes st with ⟨r1, st1⟩
        rw [hf] at h
        cases r1 with
        | ok v =>
          simp only at h
          obtain ⟨new, hl, -⟩ := (logP c fuel).groups _ _ _ _ _ _ _ _ _ h
          rw [ih.field _ _ _ _ _ _ _ _ _ hf (noTouch_of_suffix ⟨new, hl.symm⟩ hnt)]
          exact ih.groups _ _ _ _ _ _ _ _ _ h hnt
        | fail =>
          simp only [Prod.mk.injEq] at h
          rw [ih.field _ _ _ _ _ _ _ _ _ hf (by rw [h.2]; exact hnt)]
          simp only [Prod.mk.injEq]; exact h
        | fuelOut =>
          simp only [Prod.mk.injEq] at h
          rw [ih.field _ _ _ _ _ _ _ _ _ hf (by rw [h.2]; exact hnt)]
          simp only [Prod.mk.injEq]; exact h

theorem wP_items (fuel : Nat) (ih : WP c w2 id0 f0 fuel) :
    ∀ dfr item rt fname nodes p xs i acc st r st',
    completeItems c (fuel + 1) dfr item rt fname nodes p xs i acc st = (r, st') →
    (∀ e, e ∈ st'.log → ¬ Touches id0 f0 e) →
    completeItems (c.withWorld w2) (fuel + 1) dfr item rt fname nodes p xs i acc st = (r, st') := by
  intro dfr item rt fname nodes p xs i acc st r st' h hnt
  cases xs with
  | nil => simp only [completeItems] at h ⊢; exact h
  | cons x xs =>
    simp only [completeItems] at h ⊢
    rcases hc : complete c fuel dfr item rt fname nodes (p ++ [.idx i]) x st with ⟨r1, st1⟩
    rw [hc] at h
    have hrest : ∀ acc', completeItems c fuel dfr item rt fname nodes p xs (i + 1) acc' st1 = (r, st') →
        complete (c.withWorld w2) fuel dfr item rt fname nodes (p ++ [.idx i]) x st = (r1, st1) ∧
        completeItems (c.withWorld w2) fuel dfr item rt fname nodes p xs (i + 1) acc' st1 = (r, st') := by
      intro acc' h
      obtain ⟨new, hl, -⟩ := (logP c fuel).items _ _ _ _ _ _ _ _ _ _ _ _ h
      exact ⟨ih.complete _ _ _ _ _ _ _ _ _ _ hc (noTouch_of_suffix ⟨new, hl.symm⟩ hnt),
        ih.items _ _ _ _ _ _ _ _ _ _ _ _ h hnt⟩
    cases r1 with
    | ok j =>
      simp only at h
      obtain ⟨h1, h2⟩ := hrest _ h
      rw [h1]; exact h2
    | fail =>
      simp only at h
      by_cases hnn : item.isNonNull = true
      · simp only [hnn, if_true, Prod.mk.injEq] at h
        rw [ih.complete _ _ _ _ _ _ _ _ _ _ hc (by rw [h.2]; exact hnt)]
        simp only [hnn, if_true, Prod.mk.injEq]; exact h
      · simp only [hnn, Bool.false_eq_true, if_false] at h
        obtain ⟨h1, h2⟩ := hrest _ h
        rw [h1]; simp only [hnn, Bool.false_eq_true, if_false]; exact h2
    | fuelOut =>
      simp only [Prod.mk.injEq] at h
      rw [ih.complete _ _ _ _ _ _ _ _ _ _ hc (by rw [h.2]; exact hnt)]
      simp only [Prod.mk.injEq]; exact h

theorem wP_field (ha : AgreeExcept c.world w2 id0 f0) (fuel : Nat) (ih : WP c w2 id0 f0 fuel) :
    ∀ dfr rt src p fd nodes st r st',
    execField c (fuel + 1) dfr rt src p fd nodes st = (r, st') → (∀ e, e ∈ st'.log → ¬ Touches id0 f0 e) →
    execField (c.withWorld w2) (fuel + 1) dfr rt src p fd nodes st = (r, st') := by
  intro dfr rt src p fd nodes st r st' h hnt
  by_cases hn : (fd.name == "__typename") = true
  · simp only [execField, hn, if_true] at h ⊢; exact h
  · simp only [execField, hn, Bool.false_eq_true, if_false, Ctx.withWorld_schema, Ctx.withWorld_world,
      Ctx.withWorld_vars] at h ⊢
    -- the invocation is logged in every branch, so it is not the differing resolver
    have hent : ∃ ent : LogEntry, ent.source = src ∧ ent.fieldName = fd.name ∧ ent ∈ st'.log := by
      obtain ⟨new, hl, -⟩ := (logP c (fuel + 1)).field dfr rt src p fd nodes st r st' (by
        simp only [execField, hn, Bool.false_eq_true, if_false]; exact h)
      split at h
      · split at h <;> (simp only [Prod.mk.injEq] at h; exact ⟨_, rfl, rfl, by rw [← h.2]; exact List.mem_cons_self⟩)
      · rename_i v hv
        generalize hst0 : ({ st with log := _ :: st.log } : St) = st0 at h
        obtain ⟨ent, hs, hf, h0⟩ : ∃ ent : LogEntry, ent.source = src ∧ ent.fieldName = fd.name ∧
            st0.log = ent :: st.log := by rw [← hst0]; exact ⟨_, rfl, rfl, rfl⟩
        rcases hc : complete c fuel dfr fd.type rt fd.name nodes p v st0 with ⟨r1, st1⟩
        rw [hc] at h
        obtain ⟨cnew, hcl, -⟩ := (logP c fuel).complete _ _ _ _ _ _ _ _ _ _ hc
        have hmem : ent ∈ st1.log := by rw [hcl, h0]; simp
        refine ⟨ent, hs, hf, ?_⟩
        cases r1 with
        | ok j => simp only [Prod.mk.injEq] at h; rw [← h.2]; exact hmem
        | fail => simp only at h; split at h <;> (simp only [Prod.mk.injEq] at h; rw [← h.2]; exact hmem)
        | fuelOut => simp only [Prod.mk.injEq] at h; rw [← h.2]; exact hmem
    obtain ⟨ent, hs, hf, hmem⟩ := hent
    have hout : c.world.outcome src fd.name = w2.outcome src fd.name := by
      apply ha.outcome
      rintro ⟨h1, h2⟩
      exact hnt ent hmem ⟨hs.trans h1, hf.trans h2⟩
    rw [← hout]
    split
    · rename_i hfail; simp only [hfail] at h; exact h
    · rename_i v hv
      simp only [hv] at h
      generalize hst0 : ({ st with log := _ :: st.log } : St) = st0 at h ⊢
      rcases hc : complete c fuel dfr fd.type rt fd.name nodes p v st0 with ⟨r1, st1⟩
      rw [hc] at h
      have hst1 : st1 = st' := by
        cases r1 with
        | ok j => simp only [Prod.mk.injEq] at h; exact h.2
        | fail => simp only at h; split at h <;> (simp only [Prod.mk.injEq] at h; exact h.2)
        | fuelOut => simp only [Prod.mk.injEq] at h; exact h.2
      rw [ih.complete _ _ _ _ _ _ _ _ _ _ hc (by rw [hst1]; exact hnt)]
      exact h

theorem wP_complete (ha : AgreeExcept c.world w2 id0 f0) (fuel : Nat) (ih : WP c w2 id0 f0 fuel) :
    ∀ dfr t rt fname nodes p v st r st',
    complete c (fuel + 1) dfr t rt fname nodes p v st = (r, st') → (∀ e, e ∈ st'.log → ¬ Touches id0 f0 e) →
    complete (c.withWorld w2) (fuel + 1) dfr t rt fname nodes p v st = (r, st') := by
  intro dfr t rt fname nodes p v st r st' h hnt
  have hgroups : ∀ ot,
      (match execGroups c fuel dfr ot v p (collectMerged c ot nodes) [] st with
        | (.ok fs, st) => ((Res.ok (JVal.obj fs) : Res JVal), st)
        | (.fail, st) => (.fail, st)
        | (.fuelOut, st) => (.fuelOut, st)) = (r, st') →
      (match execGroups (c.withWorld w2) fuel dfr ot v p (collectMerged c ot nodes) [] st with
        | (.ok fs, st) => ((Res.ok (JVal.obj fs) : Res JVal), st)
        | (.fail, st) => (.fail, st)
        | (.fuelOut, st) => (.fuelOut, st)) = (r, st') := by
    intro ot h
    rcases hg : execGroups c fuel dfr ot v p (collectMerged c ot nodes) [] st with ⟨r1, st1⟩
    rw [hg] at h
    have hst1 : st1 = st' := by cases r1 <;> (simp only [Prod.mk.injEq] at h; exact h.2)
    rw [ih.groups _ _ _ _ _ _ _ _ _ hg (by rw [hst1]; exact hnt)]
    exact h
  cases hnf : v.notFunc with
  | false =>
    cases v with
    | thunk tr =>
      cases tr with
      | err => simp only [complete] at h ⊢; exact h
      | ok v' =>
        simp only [complete] at h ⊢
        rcases hc : complete c fuel true t rt fname nodes p v' st with ⟨r1, st1⟩
        rw [hc] at h
        have hl : st1.log = st'.log := by
          cases r1 <;> (simp only [Prod.mk.injEq] at h; rw [← h.2])
        rw [ih.complete _ _ _ _ _ _ _ _ _ _ hc (by rw [hl]; exact hnt)]
        exact h
    | badFunc => simp only [complete] at h ⊢; exact h
    | _ => simp [GoVal.notFunc] at hnf
  | true =>
    rw [complete_succ_notFunc _ _ _ _ _ _ _ _ _ _ hnf] at h ⊢
    cases t with
    | nonNull inner =>
      simp only [completeBody] at h ⊢
      rcases hc : complete c fuel dfr inner rt fname nodes p v st with ⟨r1, st1⟩
      rw [hc] at h
      have hl : st1.log = st'.log := by
        split at h
        · rename_i heq
          simp only [Prod.mk.injEq] at h heq
          rw [← h.2, ← heq.2]; rfl
        · simp only [Prod.mk.injEq] at h; rw [← h.2]
      rw [ih.complete _ _ _ _ _ _ _ _ _ _ hc (by rw [hl]; exact hnt)]
      exact h
    | list item =>
      simp only [completeBody] at h ⊢
      by_cases hnull : v.nullish = true
      · simp only [hnull, if_true] at h ⊢; exact h
      · simp only [hnull, Bool.false_eq_true, if_false] at h ⊢
        cases v with
        | list xs =>
          simp only at h ⊢
          rcases hi : completeItems c fuel dfr item rt fname nodes p xs 0 [] st with ⟨r1, st1⟩
          rw [hi] at h
          have hst1 : st1 = st' := by cases r1 <;> (simp only [Prod.mk.injEq] at h; exact h.2)
          rw [ih.items _ _ _ _ _ _ _ _ _ _ _ _ hi (by rw [hst1]; exact hnt)]
          exact h
        | _ => exact h
    | named n =>
      simp only [completeBody, Ctx.withWorld_schema, Ctx.withWorld_world, runtimeTypeOf_world c w2 ha,
        collectMerged_world, ← ha.isTypeOf] at h ⊢
      by_cases hnull : v.nullish = true
      · simp only [hnull, if_true] at h ⊢; exact h
      · simp only [hnull, Bool.false_eq_true, if_false] at h ⊢
        by_cases hleaf : c.schema.isLeaf n = true
        · simp only [hleaf, if_true] at h ⊢; exact h
        · simp only [hleaf, Bool.false_eq_true, if_false] at h ⊢
          by_cases habs : c.schema.isAbstract n = true
          · simp only [habs, if_true] at h ⊢
            cases hrt : runtimeTypeOf c n v with
            | none => simp only [hrt] at h ⊢; exact h
            | some ot =>
              simp only [hrt] at h ⊢
              by_cases hposs : (!(c.schema.isObject ot && c.schema.isPossibleType n ot)) = true
              · simp only [hposs, if_true] at h ⊢; exact h
              · simp only [hposs, Bool.false_eq_true, if_false] at h ⊢
                exact hgroups ot h
          · simp only [habs, Bool.false_eq_true, if_false] at h ⊢
            by_cases hobj : c.schema.isObject n = true
            · simp only [hobj, if_true] at h ⊢
              by_cases hito : (objectHasIsTypeOf c.schema n && !c.world.isTypeOfAns n v) = true
              · simp only [hito, if_true] at h ⊢; exact h
              · simp only [hito, Bool.false_eq_true, if_false] at h ⊢
                exact hgroups n h
            · simp only [hobj, Bool.false_eq_true, if_false] at h ⊢; exact h

theorem wP (ha : AgreeExcept c.world w2 id0 f0) : ∀ fuel, WP c w2 id0 f0 fuel
  | 0 => wP_zero
  | fuel + 1 =>
    have ih := wP ha fuel
    ⟨wP_groups fuel ih, wP_field ha fuel ih, wP_complete ha fuel ih, wP_items fuel ih⟩

/-- result of a field executed on its own in the second world = in the first, when the first never invokes the
differing resolver -/
theorem execField_two_worlds (ha : AgreeExcept c.world w2 id0 f0) (fuel : Nat) (dfr : Bool) (rt : String) (src : GoVal)
    (p : Path) (fd : FieldDefS) (nodes : List FieldNode)
    (hnt : ∀ e, e ∈ (execField c fuel dfr rt src p fd nodes St.empty).2.log → ¬ Touches id0 f0 e) (st1 st2 : St) :
    (execField (c.withWorld w2) fuel dfr rt src p fd nodes st2).1 = (execField c fuel dfr rt src p fd nodes st1).1 := by
  rcases h0 : execField c fuel dfr rt src p fd nodes St.empty with ⟨r, st'⟩
  rw [h0] at hnt
  have h2 := (wP ha fuel).field _ _ _ _ _ _ _ _ _ h0 hnt
  rw [execField_result_state_independent (c.withWorld w2) fuel dfr rt src p fd nodes st2 St.empty, h2,
    execField_result_state_independent c fuel dfr rt src p fd nodes st1 St.empty, h0]

/-- TWO-WORLD sibling independence at a selection set: if both worlds yield an object there, then under every response
key whose field's own execution (in the first world) never invokes the differing resolver, both objects hold the same
value. -/
theorem execGroups_two_worlds (ha : AgreeExcept c.world w2 id0 f0) (fuel : Nat) (dfr : Bool) (rt : String) (src : GoVal)
    (path : Path) (groups : Groups) (st1 st2 st1' st2' : St) (fs1 fs2 : List (String × JVal))
    (hn : groups.keys.Nodup)
    (h1 : execGroups c fuel dfr rt src path groups [] st1 = (.ok fs1, st1'))
    (h2 : execGroups (c.withWorld w2) fuel dfr rt src path groups [] st2 = (.ok fs2, st2'))
    (k : String) (nodes : List FieldNode) (node : FieldNode) (fd : FieldDefS)
    (hm : (k, nodes) ∈ groups) (hnode : nodes.head? = some node) (hfd : fieldDef? c.schema rt node.name = some fd)
    (hnt : ∀ e, e ∈ (execField c fuel dfr rt src (path ++ [.key k]) fd nodes St.empty).2.log → ¬ Touches id0 f0 e) :
    ∀ v, (k, v) ∈ fs1 ↔ (k, v) ∈ fs2 := by
  have hk1 : (fs1.map (·.1)).Nodup := by
    rw [execGroups_ok_keys c fuel _ _ _ _ _ _ _ _ _ h1]
    simp only [List.map_nil, List.nil_append]
    exact List.Nodup.sublist (List.Sublist.map _ List.filter_sublist) hn
  have hk2 : (fs2.map (·.1)).Nodup := by
    rw [execGroups_ok_keys (c.withWorld w2) fuel _ _ _ _ _ _ _ _ _ h2]
    simp only [List.map_nil, List.nil_append]
    exact List.Nodup.sublist (List.Sublist.map _ List.filter_sublist) hn
  obtain ⟨v1, hv1, hall1⟩ := execGroups_field_values c fuel _ _ _ _ _ _ _ _ _ h1 k nodes node fd hm hnode hfd
  obtain ⟨v2, hv2, hall2⟩ := execGroups_field_values (c.withWorld w2) fuel _ _ _ _ _ _ _ _ _ h2 k nodes node fd hm hnode hfd
  have heq : v1 = v2 := by
    have := execField_two_worlds ha fuel dfr rt src (path ++ [.key k]) fd nodes hnt St.empty St.empty
    rw [hall1 St.empty, hall2 St.empty] at this
    simpa using this.symm
  subst heq
  intro v
  constructor
  · intro hv; rw [mem_unique_of_keys_nodup hk1 hv hv1]; exact hv2
  · intro hv; rw [mem_unique_of_keys_nodup hk2 hv hv2]; exact hv1

/-- every invocation a field makes when executed on its own is in the log of the selection set that yielded an object
(the own execution succeeds, too) -/
theorem execGroups_field_log_subset (c : Ctx) : ∀ fuel dfr rt src path groups acc st fs st',
    execGroups c fuel dfr rt src path groups acc st = (.ok fs, st') →
    ∀ k nodes node fd, (k, nodes) ∈ groups → nodes.head? = some node → fieldDef? c.schema rt node.name = some fd →
      (∃ v, (execField c fuel dfr rt src (path ++ [.key k]) fd nodes St.empty).1 = .ok v) ∧
      ∀ e, e ∈ (execField c fuel dfr rt src (path ++ [.key k]) fd nodes St.empty).2.log → e ∈ st'.log
  | 0, dfr, rt, src, path, groups, acc, st, fs, st', h => by simp [execGroups] at h
  | fuel + 1, dfr, rt, src, path, [], acc, st, fs, st', h => by intro k nodes node fd hm; cases hm
  | fuel + 1, dfr, rt, src, path, (key, nodes0) :: rest, acc, st, fs, st', h => by
    simp only [execGroups] at h
    have hlift : ∀ acc1 st1, execGroups c fuel dfr rt src path rest acc1 st1 = (.ok fs, st') →
        ∀ k nodes node fd, (k, nodes) ∈ rest → nodes.head? = some node → fieldDef? c.schema rt node.name = some fd →
          (∃ v, (execField c (fuel + 1) dfr rt src (path ++ [.key k]) fd nodes St.empty).1 = .ok v) ∧
          ∀ e, e ∈ (execField c (fuel + 1) dfr rt src (path ++ [.key k]) fd nodes St.empty).2.log → e ∈ st'.log := by
      intro acc1 st1 h1 k nodes node fd hm hnode hfd
      obtain ⟨⟨v, hv⟩, hall⟩ := execGroups_field_log_subset c fuel _ _ _ _ _ _ _ _ _ h1 k nodes node fd hm hnode hfd
      rcases hf : execField c fuel dfr rt src (path ++ [.key k]) fd nodes St.empty with ⟨r1, st2⟩
      rw [hf] at hv hall
      simp only at hv
      subst hv
      rw [(fuelP c fuel).field _ _ _ _ _ _ _ _ _ hf (by simp)]
      exact ⟨⟨v, rfl⟩, hall⟩
    intro k nodes node fd hm hnode hfd
    split at h
    · rename_i hh
      rcases List.mem_cons.mp hm with hm | hm
      · cases hm; rw [hh] at hnode; cases hnode
      · exact hlift _ _ h k nodes node fd hm hnode hfd
    · rename_i node0 hh
      split at h
      · rename_i hfd0
        rcases List.mem_cons.mp hm with hm | hm
        · cases hm; rw [hh] at hnode; cases hnode; rw [hfd0] at hfd; cases hfd
        · exact hlift _ _ h k nodes node fd hm hnode hfd
      · rename_i fd0 hfd0
        rcases hf : execField c fuel dfr rt src (path ++ [.key key]) fd0 nodes0 st with ⟨r1, st1⟩
        rw [hf] at h
        cases r1 with
        | ok v0 =>
          simp only at h
          rcases List.mem_cons.mp hm with hm | hm
          · cases hm
            rw [hh] at hnode; cases hnode
            rw [hfd0] at hfd; cases hfd
            have hf' := (fuelP c fuel).field _ _ _ _ _ _ _ _ _ hf (by simp)
            obtain ⟨r0, d0, hst⟩ := (stP c (fuel + 1)).field dfr rt src (path ++ [.key key]) fd nodes0
            rw [hst st] at hf'
            simp only [Prod.mk.injEq] at hf'
            obtain ⟨rfl, rfl⟩ := hf'
            obtain ⟨new, hl, -⟩ := (logP c fuel).groups _ _ _ _ _ _ _ _ _ h
            rw [hst St.empty]
            refine ⟨⟨v0, rfl⟩, ?_⟩
            intro e he
            rw [hl]
            apply List.mem_append_right
            simp only [St.app, St.empty, List.append_nil] at he ⊢
            exact List.mem_append_left _ he
          · exact hlift _ _ h k nodes node fd hm hnode hfd
        | fail => simp at h
        | fuelOut => simp at h

theorem requestCtx_world {s : Schema} {doc : Document} {opName : String} {inputs : Vars} {w1 : World}
    {c : Ctx} {root : String} {sel : SelectionSet} (h : requestCtx s doc opName inputs w1 = some (c, root, sel))
    (w2 : World) : requestCtx s doc opName inputs w2 = some (c.withWorld w2, root, sel) ∧ c.world = w1 := by
  unfold requestCtx at h ⊢
  split at h
  · rename_i op nm varDefs dirs sel' loc hsel
    split at h
    · cases h
    · rename_i root' hroot
      split at h
      · cases h
      · rename_i vars hv
        simp only [Option.some.injEq, Prod.mk.injEq] at h
        obtain ⟨rfl, rfl, rfl⟩ := h
        exact ⟨rfl, rfl⟩
  · cases h

theorem rootGroups_world (c : Ctx) (w : World) (root : String) (sel : SelectionSet) :
    rootGroups (c.withWorld w) root sel = rootGroups c root sel := by
  unfold rootGroups; rw [collect_world]

end GqlModel.Exec
