import GqlModel.Exec
/-! Invariants of collected groups: any property of `Groups` preserved by `Groups.add` holds of everything
`collect` / `collectMerged` build (for every fuel, every fragment table — also cyclic ones). Instances: response keys
pairwise distinct; every group non-empty with all nodes carrying the group's key. -/
set_option linter.unusedSectionVars false
namespace GqlModel.Exec

section generic
variable (X : Groups → Prop) (hadd : ∀ g f, X g → X (Groups.add g f))
include hadd

mutual
theorem collectSel_inv (c : Ctx) (rt : String) (expand : String → Groups × List String → Groups × List String)
    (hexp : ∀ n acc, X acc.1 → X (expand n acc).1) :
    ∀ (s : Selection) (acc : Groups × List String), X acc.1 → X (collectSel c rt expand s acc).1
  | .field alias name args dirs sel loc, (g, vis), h => by
    simp only [collectSel]
    split
    · exact hadd _ _ h
    · exact h
  | .inline tc dirs sel _, acc, h => by
    simp only [collectSel]
    split
    · exact collectSet_inv c rt expand hexp sel acc h
    · exact h
  | .spread name dirs _, acc, h => by
    simp only [collectSel]
    split
    · exact hexp _ _ h
    · exact h
theorem collectSet_inv (c : Ctx) (rt : String) (expand : String → Groups × List String → Groups × List String)
    (hexp : ∀ n acc, X acc.1 → X (expand n acc).1) :
    ∀ (s : SelectionSet) (acc : Groups × List String), X acc.1 → X (collectSet c rt expand s acc).1
  | .mk sels _, acc, h => by
    simp only [collectSet]
    exact collectList_inv c rt expand hexp sels acc h
theorem collectList_inv (c : Ctx) (rt : String) (expand : String → Groups × List String → Groups × List String)
    (hexp : ∀ n acc, X acc.1 → X (expand n acc).1) :
    ∀ (l : List Selection) (acc : Groups × List String), X acc.1 → X (collectList c rt expand l acc).1
  | [], acc, h => by simpa only [collectList] using h
  | s :: rest, acc, h => by
    simp only [collectList]
    exact collectList_inv c rt expand hexp rest _ (collectSel_inv c rt expand hexp s acc h)
end

theorem expandSpread_inv (c : Ctx) (rt : String) :
    ∀ (fuel : Nat) (n : String) (acc : Groups × List String), X acc.1 → X (expandSpread c rt fuel n acc).1
  | 0, n, acc, h => by simpa only [expandSpread] using h
  | fuel + 1, n, (g, vis), h => by
    simp only [expandSpread]
    split
    · exact h
    · split
      · exact h
      · split
        · exact collectSet_inv X hadd c rt _ (expandSpread_inv c rt fuel) _ _ h
        · exact h

theorem collect_inv (c : Ctx) (rt : String) (sel : SelectionSet) (acc : Groups × List String) (h : X acc.1) :
    X (collect c rt sel acc).1 :=
  collectSet_inv X hadd c rt _ (expandSpread_inv X hadd c rt _) sel acc h

theorem collectMerged_inv (c : Ctx) (rt : String) (nodes : List FieldNode) (h0 : X []) : X (collectMerged c rt nodes) := by
  unfold collectMerged
  suffices ∀ (acc : Groups × List String), X acc.1 →
      X (nodes.foldl (fun acc n => match n.sel with
        | some sel => collect c rt sel acc
        | none => acc) acc).1 from this _ h0
  induction nodes with
  | nil => intro acc h; exact h
  | cons n rest ih =>
    intro acc h
    simp only [List.foldl_cons]
    apply ih
    split
    · exact collect_inv X hadd c rt _ acc h
    · exact h

end generic

/-! ## Instances -/

def Groups.keys (g : Groups) : List String := g.map (·.1)

theorem Groups.keys_add (g : Groups) (f : FieldNode) :
    (Groups.add g f).keys = if f.key ∈ g.keys then g.keys else g.keys ++ [f.key] := by
  unfold Groups.add Groups.keys
  by_cases h : g.any (fun p => p.1 == f.key) = true
  · have hm : f.key ∈ g.map (·.1) := by
      rw [List.any_eq_true] at h
      obtain ⟨p, hp, hk⟩ := h
      exact List.mem_map.mpr ⟨p, hp, by simpa using hk⟩
    rw [if_pos h, if_pos hm, List.map_map]
    apply List.map_congr_left
    intro p _
    simp only [Function.comp]
    split <;> rfl
  · have hm : ¬ f.key ∈ g.map (·.1) := by
      intro hm
      apply h
      rw [List.any_eq_true]
      obtain ⟨p, hp, hk⟩ := List.mem_map.mp hm
      exact ⟨p, hp, by simpa using hk⟩
    rw [if_neg h, if_neg hm]
    simp

theorem Groups.keys_nodup_add (g : Groups) (f : FieldNode) (h : g.keys.Nodup) : (Groups.add g f).keys.Nodup := by
  rw [Groups.keys_add]
  split
  · exact h
  · rename_i hm
    rw [List.nodup_append]
    refine ⟨h, by simp, ?_⟩
    intro a ha b hb
    simp only [List.mem_singleton] at hb
    subst hb
    intro hab; subst hab; exact hm ha

/-- response keys of a collected selection set are pairwise distinct -/
theorem collect_keys_nodup (c : Ctx) (rt : String) (sel : SelectionSet) (acc : Groups × List String)
    (h : acc.1.keys.Nodup) : (collect c rt sel acc).1.keys.Nodup :=
  collect_inv (fun g => g.keys.Nodup) Groups.keys_nodup_add c rt sel acc h

theorem collectMerged_keys_nodup (c : Ctx) (rt : String) (nodes : List FieldNode) :
    (collectMerged c rt nodes).keys.Nodup :=
  collectMerged_inv (fun g => g.keys.Nodup) Groups.keys_nodup_add c rt nodes List.nodup_nil

/-- every group is non-empty and all its nodes carry the group's key -/
def Groups.WF (g : Groups) : Prop := ∀ k ns, (k, ns) ∈ g → ns ≠ [] ∧ ∀ n, n ∈ ns → n.key = k

theorem Groups.wf_add (g : Groups) (f : FieldNode) (h : g.WF) : (Groups.add g f).WF := by
  unfold Groups.add
  split
  · intro k ns hm
    rw [List.mem_map] at hm
    obtain ⟨p, hp, he⟩ := hm
    obtain ⟨k', ns'⟩ := p
    have h0 := h k' ns' hp
    split at he
    · rename_i hk
      simp only [Prod.mk.injEq] at he
      obtain ⟨rfl, rfl⟩ := he
      refine ⟨by simp, ?_⟩
      intro n hn
      rcases List.mem_append.mp hn with hn | hn
      · exact h0.2 n hn
      · simp only [List.mem_singleton] at hn
        subst hn
        exact (by simpa using hk : k' = n.key).symm
    · simp only [Prod.mk.injEq] at he
      obtain ⟨rfl, rfl⟩ := he
      exact h0
  · intro k ns hm
    rcases List.mem_append.mp hm with hm | hm
    · exact h k ns hm
    · simp only [List.mem_singleton, Prod.mk.injEq] at hm
      obtain ⟨rfl, rfl⟩ := hm
      simp

theorem collect_wf (c : Ctx) (rt : String) (sel : SelectionSet) (acc : Groups × List String)
    (h : acc.1.WF) : (collect c rt sel acc).1.WF :=
  collect_inv Groups.WF Groups.wf_add c rt sel acc h

theorem collectMerged_wf (c : Ctx) (rt : String) (nodes : List FieldNode) : (collectMerged c rt nodes).WF :=
  collectMerged_inv Groups.WF Groups.wf_add c rt nodes (by intro k ns h; cases h)

end GqlModel.Exec
