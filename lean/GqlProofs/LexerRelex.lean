import GqlProofs.LexerExtra
/-! A token's extent delimits its lexeme: the spec scan of `bytes[start, stop)` alone gives the same token. -/
namespace GqlModel.Lexer
open GqlModel.Utf8 GqlModel.Lexer.Spec

theorem adv_eq_ok {k : Nat} {bs : Bytes} {x : Scan} {len : Nat} {v : Bytes} (h : adv k bs x = .ok (len, v)) :
    ∃ len' v', x = .ok (len', v') ∧ len = len' + k ∧ v = bs ++ v' := by
  match x with
  | .ok (len', v') =>
    simp only [adv_ok, Except.ok.injEq, Prod.mk.injEq] at h
    exact ⟨len', v', rfl, h.1.symm, h.2.symm⟩
  | .error (o, e) => simp at h

theorem head?_take {l : Bytes} {n : Nat} (h : 0 < n) : (l.take n).head? = l.head? := by
  match l, n with
  | [], _ => simp
  | c :: r, n + 1 => simp

theorem head?_drop_take (l : Bytes) (k m : Nat) (h : k < m) : ((l.take m).drop k).head? = (l.drop k).head? := by
  rw [List.drop_take, head?_take (by omega)]

theorem head?_drop_take_of_some (l : Bytes) (k m : Nat) (x : UInt8) (h : ((l.take m).drop k).head? = some x) :
    (l.drop k).head? = some x := by
  by_cases hk : k < m
  · rw [← head?_drop_take l k m hk]; exact h
  · rw [List.drop_take, show m - k = 0 by omega] at h; simp at h

/-! ### strings -/

theorem stringBody_take : ∀ (n : Nat) (bs : Bytes), bs.length ≤ n → ∀ len v, stringBody bs = .ok (len, v) →
    stringBody (bs.take len) = .ok (len, v) := by
  intro n
  induction n with
  | zero => intro bs h len v hs; match bs with
    | [] => simp [stringBody] at hs
  | succ n ih =>
    intro bs hl len v hs
    match bs with
    | [] => simp [stringBody] at hs
    | c :: r =>
      simp only [List.length_cons] at hl
      rw [stringBody_cons] at hs
      by_cases h34 : c = 34
      · rw [if_pos h34] at hs
        simp only [Except.ok.injEq, Prod.mk.injEq] at hs
        obtain ⟨rfl, rfl⟩ := hs
        subst h34
        simp [stringBody_cons]
      rw [if_neg h34] at hs
      by_cases hlt : c = 10 ∨ c = 13
      · rw [if_pos hlt] at hs; simp at hs
      rw [if_neg hlt] at hs
      by_cases hctl : c.toNat < 32 ∧ c ≠ 9
      · rw [if_pos hctl] at hs; simp at hs
      rw [if_neg hctl] at hs
      by_cases hbs : c = 92
      · rw [if_pos hbs] at hs
        match r with
        | [] => simp at hs
        | e :: r1 =>
          simp only [List.length_cons] at hl
          simp only at hs
          cases hesc : escapedCharacter e with
          | some b =>
            rw [hesc] at hs; simp only at hs
            obtain ⟨len', v', hx, rfl, rfl⟩ := adv_eq_ok hs
            have := ih r1 (by omega) len' v' hx
            rw [List.take_succ_cons, List.take_succ_cons, stringBody_cons, if_neg h34, if_neg hlt, if_neg hctl, if_pos hbs]
            simp only [hesc, this, adv_ok]
          | none =>
            rw [hesc] at hs; simp only at hs
            by_cases hu : e = 117
            · rw [if_pos hu] at hs
              subst hu
              match r1 with
              | h1 :: h2 :: h3 :: h4 :: r2 =>
                simp only [List.length_cons] at hl
                simp only at hs
                cases huc : escapedUnicode h1 h2 h3 h4 with
                | none => rw [huc] at hs; simp at hs
                | some u =>
                  rw [huc] at hs; simp only at hs
                  obtain ⟨len', v', hx, rfl, rfl⟩ := adv_eq_ok hs
                  have := ih r2 (by omega) len' v' hx
                  simp only [List.take_succ_cons]
                  rw [stringBody_cons, if_neg h34, if_neg hlt, if_neg hctl, if_pos hbs]
                  simp only [hesc, if_true, huc, this, adv_ok]
              | [] => simp at hs
              | [_] => simp at hs
              | [_, _] => simp at hs
              | [_, _, _] => simp at hs
            · rw [if_neg hu] at hs; simp at hs
      · rw [if_neg hbs] at hs
        obtain ⟨len', v', hx, rfl, rfl⟩ := adv_eq_ok hs
        have := ih r (by omega) len' v' hx
        rw [List.take_succ_cons, stringBody_cons, if_neg h34, if_neg hlt, if_neg hctl, if_neg hbs, this]
        rfl

/-! ### block strings -/

theorem blockBody_ok_len {bs : Bytes} {len : Nat} {v : Bytes} (h : blockBody bs = .ok (len, v)) : 3 ≤ len := by
  have := blockBody_bound _ bs (Nat.le_refl _)
  rw [h] at this; exact this.1

theorem blockBody_take : ∀ (n : Nat) (bs : Bytes), bs.length ≤ n → ∀ len v, blockBody bs = .ok (len, v) →
    blockBody (bs.take len) = .ok (len, v) := by
  intro n
  induction n with
  | zero => intro bs h len v hs; match bs with
    | [] => simp [blockBody] at hs
  | succ n ih =>
    intro bs hl len v hs
    match bs with
    | [] => simp [blockBody] at hs
    | c :: r =>
      simp only [List.length_cons] at hl
      rw [blockBody_cons] at hs
      by_cases hA : c = 34 ∧ r.head? = some 34 ∧ (r.drop 1).head? = some 34
      · rw [if_pos hA] at hs
        simp only [Except.ok.injEq, Prod.mk.injEq] at hs
        obtain ⟨rfl, rfl⟩ := hs
        rw [List.take_succ_cons, blockBody_cons, if_pos]
        exact ⟨hA.1, by rw [head?_take (by omega)]; exact hA.2.1, by rw [head?_drop_take _ _ _ (by omega)]; exact hA.2.2⟩
      rw [if_neg hA] at hs
      by_cases hB : c.toNat < 32 ∧ c ≠ 9 ∧ c ≠ 10 ∧ c ≠ 13
      · rw [if_pos hB] at hs; simp at hs
      rw [if_neg hB] at hs
      by_cases hC : c = 92 ∧ r.head? = some 34 ∧ (r.drop 1).head? = some 34 ∧ (r.drop 2).head? = some 34
      · rw [if_pos hC] at hs
        obtain ⟨len', v', hx, rfl, rfl⟩ := adv_eq_ok hs
        have h3 := blockBody_ok_len hx
        have := ih (r.drop 3) (by simp only [List.length_drop]; omega) len' v' hx
        have e : len' + 4 = (len' + 3) + 1 := by omega
        rw [e, List.take_succ_cons, blockBody_cons]
        have hA' : ¬ (c = 34 ∧ (r.take (len' + 3)).head? = some 34 ∧ ((r.take (len' + 3)).drop 1).head? = some 34) := by
          intro h; have := h.1; rw [hC.1] at this; revert this; decide
        have hC' : c = 92 ∧ (r.take (len' + 3)).head? = some 34 ∧ ((r.take (len' + 3)).drop 1).head? = some 34 ∧
            ((r.take (len' + 3)).drop 2).head? = some 34 :=
          ⟨hC.1, by rw [head?_take (by omega)]; exact hC.2.1, by rw [head?_drop_take _ _ _ (by omega)]; exact hC.2.2.1,
            by rw [head?_drop_take _ _ _ (by omega)]; exact hC.2.2.2⟩
        rw [if_neg hA', if_neg hB, if_pos hC', List.drop_take, show len' + 3 - 3 = len' by omega, this]
        rfl
      · rw [if_neg hC] at hs
        obtain ⟨len', v', hx, rfl, rfl⟩ := adv_eq_ok hs
        have h3 := blockBody_ok_len hx
        have := ih r (by omega) len' v' hx
        rw [List.take_succ_cons, blockBody_cons]
        have hA' : ¬ (c = 34 ∧ (r.take len').head? = some 34 ∧ ((r.take len').drop 1).head? = some 34) := by
          intro h; apply hA
          exact ⟨h.1, by rw [← head?_take (n := len') (by omega)]; exact h.2.1, head?_drop_take_of_some _ _ _ _ h.2.2⟩
        have hC' : ¬ (c = 92 ∧ (r.take len').head? = some 34 ∧ ((r.take len').drop 1).head? = some 34 ∧
            ((r.take len').drop 2).head? = some 34) := by
          intro h; apply hC
          exact ⟨h.1, by rw [← head?_take (n := len') (by omega)]; exact h.2.1, head?_drop_take_of_some _ _ _ _ h.2.2.1,
            head?_drop_take_of_some _ _ _ _ h.2.2.2⟩
        rw [if_neg hA', if_neg hB, if_neg hC', this]
        rfl

/-! ### names and numbers -/

theorem spanLen_take (p : UInt8 → Bool) : ∀ (l : Bytes) (m : Nat), spanLen p l ≤ m → spanLen p (l.take m) = spanLen p l := by
  intro l
  induction l with
  | nil => intro m _; simp [spanLen]
  | cons c r ih =>
    intro m h
    simp only [spanLen] at h ⊢
    cases hp : p c
    · match m with
      | 0 => simp [spanLen]
      | m + 1 => simp [spanLen, hp]
    · simp only [hp, if_true] at h
      match m, h with
      | m + 1, h => simp only [List.take_succ_cons, spanLen, hp, if_true]; rw [ih m (by omega)]

theorem digitsLen_take (l : Bytes) (m : Nat) (h : digitsLen l ≤ m) : digitsLen (l.take m) = digitsLen l := spanLen_take _ l m h
theorem nameLen_take (l : Bytes) (m : Nat) (h : nameLen l ≤ m) : nameLen (l.take m) = nameLen l := spanLen_take _ l m h

theorem integerPart_take {bs : Bytes} {i : Nat} (h : integerPart bs = .ok i) (m : Nat) (hm : i ≤ m) :
    integerPart (bs.take m) = .ok i := by
  have hb := integerPart_bound bs
  rw [h] at hb; simp only [NatOk_ok] at hb
  unfold integerPart at h ⊢
  match bs, m with
  | [], _ => simp at h
  | c :: r, 0 => omega
  | c :: r, m + 1 =>
    simp only [List.take_succ_cons] at h ⊢
    by_cases hmn : c = 45
    · simp only [hmn, if_true, List.drop_succ_cons, List.drop_zero] at h ⊢
      match r, m with
      | [], _ => simp at h
      | c2 :: r2, 0 =>
        exfalso
        simp only at h
        split at h
        · split at h
          · split at h <;> simp at h <;> omega
          · simp at h; omega
        · split at h
          · simp only [Except.ok.injEq] at h
            have : 1 ≤ digitsLen (c2 :: r2) := by rw [digitsLen_cons, if_pos (by assumption)]; omega
            omega
          · simp at h
      | c2 :: r2, m + 1 =>
        simp only [List.take_succ_cons] at h ⊢
        by_cases h0 : c2 = 48
        · simp only [h0, if_true] at h ⊢
          match r2, m with
          | [], _ => simpa using h
          | d :: r3, 0 => simp only at h; split at h <;> simp at h ⊢ <;> exact h
          | d :: r3, m + 1 => simpa using h
        · simp only [h0, if_false] at h ⊢
          by_cases hd : isDigitByte c2
          · simp only [hd, if_true, Except.ok.injEq] at h ⊢
            have := digitsLen_take (c2 :: r2) (m + 1) (by omega)
            rw [List.take_succ_cons] at this
            rw [this]; exact h
          · simp [hd] at h
    · simp only [hmn, if_false, List.drop_zero] at h ⊢
      by_cases h0 : c = 48
      · simp only [h0, if_true] at h ⊢
        match r, m with
        | [], _ => simpa using h
        | d :: r3, 0 => simp only at h; split at h <;> simp at h ⊢ <;> exact h
        | d :: r3, m + 1 => simpa using h
      · simp only [h0, if_false] at h ⊢
        by_cases hd : isDigitByte c
        · simp only [hd, if_true, Except.ok.injEq, Nat.zero_add] at h ⊢
          have := digitsLen_take (c :: r) (m + 1) (by omega)
          rw [List.take_succ_cons] at this
          rw [this]; exact h
        · simp [hd] at h

theorem fractionalPart_take {bs : Bytes} {fl : Nat} (h : fractionalPart bs = .ok fl) (m : Nat) (hm : fl ≤ m) :
    fractionalPart (bs.take m) = .ok fl := by
  unfold fractionalPart at h ⊢
  match bs, m with
  | [], _ => simpa using h
  | c :: r, 0 =>
    simp only at h
    split at h
    · split at h <;> simp at h; omega
    · simpa using h
  | c :: r, m + 1 =>
    simp only [List.take_succ_cons] at h ⊢
    by_cases hd : c = 46
    · simp only [hd, if_true] at h ⊢
      by_cases hz : digitsLen r = 0
      · simp [hz] at h
      · simp only [hz, if_false, Except.ok.injEq] at h
        rw [digitsLen_take r m (by omega)]
        simp only [hz, if_false, Except.ok.injEq]; exact h
    · simp only [hd, if_false] at h ⊢; exact h

theorem exp_take_aux (r : Bytes) (m x : Nat)
    (h : (if digitsLen (r.drop (match r with | s :: _ => if s = 43 ∨ s = 45 then 1 else 0 | [] => 0)) = 0 then
            .error (1 + (match r with | s :: _ => if s = 43 ∨ s = 45 then 1 else 0 | [] => 0), .expectedDigit)
          else .ok (1 + (match r with | s :: _ => if s = 43 ∨ s = 45 then 1 else 0 | [] => 0) +
            digitsLen (r.drop (match r with | s :: _ => if s = 43 ∨ s = 45 then 1 else 0 | [] => 0))) :
          Except (Nat × ErrKind) Nat) = .ok x) (hm : x ≤ m + 1) :
    (if digitsLen ((r.take m).drop (match r.take m with | s :: _ => if s = 43 ∨ s = 45 then 1 else 0 | [] => 0)) = 0 then
        .error (1 + (match r.take m with | s :: _ => if s = 43 ∨ s = 45 then 1 else 0 | [] => 0), .expectedDigit)
      else .ok (1 + (match r.take m with | s :: _ => if s = 43 ∨ s = 45 then 1 else 0 | [] => 0) +
        digitsLen ((r.take m).drop (match r.take m with | s :: _ => if s = 43 ∨ s = 45 then 1 else 0 | [] => 0))) :
      Except (Nat × ErrKind) Nat) = .ok x := by
  match r, m with
  | [], _ => simpa using h
  | s :: r2, 0 =>
    exfalso
    by_cases hs : s = 43 ∨ s = 45
    · simp only [hs, if_true, List.drop_succ_cons, List.drop_zero] at h
      by_cases hz : digitsLen r2 = 0
      · simp [hz] at h
      · simp only [hz, if_false, Except.ok.injEq] at h; omega
    · simp only [hs, if_false, List.drop_zero] at h
      by_cases hz : digitsLen (s :: r2) = 0
      · simp [hz] at h
      · simp only [hz, if_false, Except.ok.injEq] at h; omega
  | s :: r2, m + 1 =>
    simp only [List.take_succ_cons] at h ⊢
    by_cases hs : s = 43 ∨ s = 45
    · simp only [hs, if_true, List.drop_succ_cons, List.drop_zero] at h ⊢
      by_cases hz : digitsLen r2 = 0
      · simp [hz] at h
      · simp only [hz, if_false, Except.ok.injEq] at h
        rw [digitsLen_take r2 m (by omega)]
        simp only [hz, if_false, Except.ok.injEq]; exact h
    · simp only [hs, if_false, List.drop_zero] at h ⊢
      by_cases hz : digitsLen (s :: r2) = 0
      · simp [hz] at h
      · simp only [hz, if_false, Except.ok.injEq] at h
        have := digitsLen_take (s :: r2) (m + 1) (by omega)
        rw [List.take_succ_cons] at this
        rw [this]
        simp only [hz, if_false, Except.ok.injEq]; exact h

theorem exp_ok_pos (r : Bytes) (sign x : Nat)
    (h : (if digitsLen (r.drop sign) = 0 then .error (1 + sign, .expectedDigit)
          else .ok (1 + sign + digitsLen (r.drop sign)) : Except (Nat × ErrKind) Nat) = .ok x) : 0 < x := by
  by_cases hz : digitsLen (r.drop sign) = 0
  · simp [hz] at h
  · simp only [hz, if_false, Except.ok.injEq] at h; omega

theorem exponentPart_take {bs : Bytes} {x : Nat} (h : exponentPart bs = .ok x) (m : Nat) (hm : x ≤ m) :
    exponentPart (bs.take m) = .ok x := by
  unfold exponentPart at h ⊢
  match bs, m with
  | [], _ => simpa using h
  | c :: r, 0 =>
    simp only at h
    by_cases he : c = 69 ∨ c = 101
    · simp only [he, if_true] at h
      have := exp_ok_pos r _ x h
      omega
    · simp only [he, if_false] at h; simpa using h
  | c :: r, m + 1 =>
    simp only [List.take_succ_cons] at h ⊢
    by_cases he : c = 69 ∨ c = 101
    · simp only [he, if_true] at h ⊢
      exact exp_take_aux r m x h hm
    · simp only [he, if_false] at h ⊢; exact h

theorem number_take {bs : Bytes} {k : TokenKind} {len : Nat} (h : number bs = .ok (k, len)) :
    number (bs.take len) = .ok (k, len) := by
  unfold number at h ⊢
  match hi : integerPart bs with
  | .error e => rw [hi] at h; simp at h
  | .ok i =>
    rw [hi] at h; simp only at h
    match hf : fractionalPart (bs.drop i) with
    | .error (o, e) => rw [hf] at h; simp at h
    | .ok fl =>
      rw [hf] at h; simp only at h
      match hx : exponentPart (bs.drop (i + fl)) with
      | .error (o, e) => rw [hx] at h; simp at h
      | .ok x =>
        rw [hx] at h; simp only [Except.ok.injEq, Prod.mk.injEq] at h
        obtain ⟨hk, hlen⟩ := h
        subst hlen
        rw [integerPart_take hi (i + fl + x) (by omega)]
        simp only
        rw [List.drop_take, fractionalPart_take hf (i + fl + x - i) (by omega)]
        simp only
        rw [List.drop_take, exponentPart_take hx (i + fl + x - (i + fl)) (by omega)]
        simp only [hk]

/-! ### one token -/

theorem token_take (c : UInt8) (r : Bytes) {k : TokenKind} {len : Nat} {v : Bytes} (h : token (c :: r) = .ok (k, len, v)) :
    token ((c :: r).take len) = .ok (k, len, v) := by
  have hb := token_bound c r
  rw [h] at hb; simp only [TokOk_ok] at hb
  obtain ⟨m, rfl⟩ : ∃ m, len = m + 1 := ⟨len - 1, by omega⟩
  rw [List.take_succ_cons]
  by_cases hctl : isCtrl c
  · rw [token_ctrl c r hctl] at h; simp at h
  cases hp : punctuatorByte c with
  | some k' =>
    rw [token_punct c r hctl hp] at h
    simp only [Except.ok.injEq, Prod.mk.injEq] at h
    obtain ⟨rfl, hm, rfl⟩ := h
    have : m = 0 := by omega
    subst this
    rw [token_punct c _ hctl hp]
  | none =>
    by_cases hdot : c = 46
    · subst hdot; rw [token_dot] at h
      by_cases hq : r.head? = some 46 ∧ (r.drop 1).head? = some 46
      · rw [if_pos hq] at h
        simp only [Except.ok.injEq, Prod.mk.injEq] at h
        obtain ⟨rfl, hm, rfl⟩ := h
        have : m = 2 := by omega
        subst this
        rw [token_dot, if_pos ⟨by rw [head?_take (by omega)]; exact hq.1, by rw [head?_drop_take _ _ _ (by omega)]; exact hq.2⟩]
      · rw [if_neg hq] at h; simp at h
    by_cases hns : isNameStartByte c
    · rw [token_name c r hctl hp hdot hns] at h
      simp only [Except.ok.injEq, Prod.mk.injEq] at h
      obtain ⟨rfl, hm, rfl⟩ := h
      rw [token_name c _ hctl hp hdot hns]
      have e := nameLen_take (c :: r) (m + 1) (by omega)
      rw [List.take_succ_cons] at e
      rw [e, hm, ← List.take_succ_cons, List.take_take, Nat.min_self]
    by_cases hnum : c = 45 ∨ isDigitByte c
    · rw [token_number c r hctl hp hdot hns hnum] at h
      match hn : number (c :: r) with
      | .error e => rw [hn] at h; simp at h
      | .ok (k', len') =>
        rw [hn] at h; simp only [Except.ok.injEq, Prod.mk.injEq] at h
        obtain ⟨rfl, rfl, rfl⟩ := h
        rw [token_number c _ hctl hp hdot hns hnum]
        have := number_take hn
        rw [List.take_succ_cons] at this
        rw [this]; simp only
        rw [← List.take_succ_cons, List.take_take, Nat.min_self]
    by_cases hq : c = 34
    · subst hq; rw [token_quote] at h
      by_cases hb2 : r.head? = some 34 ∧ (r.drop 1).head? = some 34
      · rw [if_pos hb2] at h
        match hbb : blockBody (r.drop 2) with
        | .error (o, e) => rw [hbb] at h; simp at h
        | .ok (len', raw) =>
          rw [hbb] at h; simp only [Except.ok.injEq, Prod.mk.injEq] at h
          obtain ⟨rfl, hm, rfl⟩ := h
          have h3 := blockBody_ok_len hbb
          have hm' : m = len' + 2 := by omega
          subst hm'
          rw [token_quote, if_pos ⟨by rw [head?_take (by omega)]; exact hb2.1, by rw [head?_drop_take _ _ _ (by omega)]; exact hb2.2⟩]
          rw [List.drop_take, show len' + 2 - 2 = len' by omega, blockBody_take _ _ (Nat.le_refl _) _ _ hbb]
      · rw [if_neg hb2] at h
        match hsb : stringBody r with
        | .error (o, e) => rw [hsb] at h; simp at h
        | .ok (len', v') =>
          rw [hsb] at h; simp only [Except.ok.injEq, Prod.mk.injEq] at h
          obtain ⟨rfl, hm, rfl⟩ := h
          have hm' : m = len' := by omega
          subst hm'
          have hb2' : ¬ ((r.take m).head? = some 34 ∧ ((r.take m).drop 1).head? = some 34) := by
            intro hh; apply hb2
            exact ⟨by have := head?_drop_take_of_some r 0 m 34 (by simpa using hh.1); simpa using this,
              head?_drop_take_of_some r 1 m 34 hh.2⟩
          rw [token_quote, if_neg hb2', stringBody_take _ _ (Nat.le_refl _) _ _ hsb]
    · rw [token_other c r hctl hp hdot hns hnum hq] at h; simp at h

/-- a byte that starts Ignored does not start a token -/
theorem token_ignorable_err (c : UInt8) (r : Bytes)
    (hc : c = 9 ∨ c = 32 ∨ c = 10 ∨ c = 13 ∨ c = 44 ∨ c = 35 ∨ c = 0xEF) : token (c :: r) = .error (0, .unexpectedChar) := by
  rcases hc with rfl | rfl | rfl | rfl | rfl | rfl | rfl <;> rfl

theorem token_ok_ignoredLen {c : UInt8} {r : Bytes} {k : TokenKind} {len : Nat} {v : Bytes}
    (h : token (c :: r) = .ok (k, len, v)) : ignoredLen false (c :: r) = 0 := by
  rw [ignoredLen_false_cons]
  have key : ¬ (c = 9 ∨ c = 32 ∨ c = 10 ∨ c = 13 ∨ c = 44 ∨ c = 35 ∨ c = 0xEF) := by
    intro hc; rw [token_ignorable_err c r hc] at h; simp at h
  have h1 : ¬ (c = 9 ∨ c = 32 ∨ c = 10 ∨ c = 13 ∨ c = 44) := by
    intro hh; apply key; rcases hh with h | h | h | h | h <;> simp [h]
  have h2 : ¬ c = 35 := fun hh => key (by simp [hh])
  have h3 : ¬ c = 0xEF := fun hh => key (by simp [hh])
  rw [if_neg h1, if_neg h2, if_neg h3]

/-- the spec scan of a lexeme alone: that token, then EOF -/
theorem lexAllG_lexeme (l : Bytes) {k : TokenKind} {v : Bytes} (h : token l = .ok (k, l.length, v)) :
    lexAllG l = ⟨[([], makeToken k 0 l.length v), ([], makeToken .eof l.length l.length [])], none⟩ := by
  match l with
  | [] => simp [token] at h
  | c :: r =>
    have hg := token_ok_ignoredLen h
    unfold lexAllG
    have hd : (c :: r).drop (ignoredLen false (c :: r)) = c :: r := by rw [hg]; rfl
    rw [lexLoopG_ok _ (c :: r) 0 hd h, hg]
    have hnil : (c :: r).drop (c :: r).length = [] := List.drop_length
    rw [hnil]
    have hd2 : ([] : Bytes).drop (ignoredLen false []) = [] := rfl
    have e : (c :: r).length = r.length + 1 := rfl
    rw [e, lexLoopG_eof _ [] _ hd2]
    simp [ignoredLen]

/-- every non-EOF token of the spec stream is the spec's token at its start offset -/
theorem lexLoopG_mem : ∀ (f : Nat) (rest : Bytes) (off : Nat) (gt : Bytes × LTok), gt ∈ (lexLoopG f rest off).tokens →
    gt.2.kind ≠ .eof →
    off ≤ gt.2.start ∧ ∃ c r, rest.drop (gt.2.start - off) = c :: r ∧
      token (c :: r) = .ok (gt.2.kind, gt.2.stop - gt.2.start, gt.2.value) := by
  intro f
  induction f with
  | zero => intro rest off gt h; simp [lexLoopG] at h
  | succ f ih =>
    intro rest off gt hgt hk
    match hd : rest.drop (ignoredLen false rest) with
    | [] =>
      rw [lexLoopG_eof f rest off hd] at hgt
      simp only [List.mem_singleton] at hgt
      subst hgt; exact absurd rfl hk
    | c :: r =>
      match ht : token (c :: r) with
      | .error (o, ek) => rw [lexLoopG_err f rest off hd ht] at hgt; simp at hgt
      | .ok (kind, len, v) =>
        rw [lexLoopG_ok f rest off hd ht] at hgt
        rcases List.mem_cons.mp hgt with rfl | hm
        · refine ⟨by simp [makeToken], c, r, ?_, ?_⟩
          · simp only [makeToken]; rw [show off + ignoredLen false rest - off = ignoredLen false rest by omega]; exact hd
          · simp only [makeToken]; rw [show off + ignoredLen false rest + len - (off + ignoredLen false rest) = len by omega]; exact ht
        · obtain ⟨hle, c', r', hdr, htk⟩ := ih _ _ gt hm hk
          refine ⟨by omega, c', r', ?_, htk⟩
          rw [← hdr, ← hd, List.drop_drop, List.drop_drop]
          congr 1; omega

end GqlModel.Lexer
