import GqlProofs.PlanExec
import GqlProofs.PlanMemo2
import GqlProofs.ExecSelectOp
/-! # Worlds without func values, request level: the dethunk passes find nothing to do; `run` = `execute` -/
namespace GqlModel.Plan
open GqlModel.Exec GqlModel.Coerce

/-! ## a finished value contains no closure; the dethunk passes leave it alone -/

def NoDef (v : PVal) : Prop := v.AllCl (fun _ => False)

mutual
theorem noDef_of_toJ? : ∀ (v : PVal) (j : JVal), v.toJ? = some j → NoDef v
  | .leaf _, _, _ => allCl_leaf _
  | .list xs, j, h => by
    unfold NoDef
    simp only [PVal.toJ?] at h
    cases hx : PVal.listToJ? xs with
    | none => simp [hx] at h
    | some js => simp only [PVal.AllCl]; exact noDefList_of_toJ? xs js hx
  | .obj fs, j, h => by
    unfold NoDef
    simp only [PVal.toJ?] at h
    cases hx : PVal.fieldsToJ? fs with
    | none => simp [hx] at h
    | some js => simp only [PVal.AllCl]; exact noDefFields_of_toJ? fs js hx
  | .deferred _, _, h => by simp [PVal.toJ?] at h
theorem noDefList_of_toJ? : ∀ (xs : List PVal) (js : List JVal), PVal.listToJ? xs = some js →
    PVal.AllClList (fun _ => False) xs
  | [], _, _ => by simp [PVal.AllClList]
  | x :: xs, js, h => by
    simp only [PVal.listToJ?] at h
    cases hx : x.toJ? with
    | none => simp [hx] at h
    | some jx =>
      cases hxs : PVal.listToJ? xs with
      | none => simp [hx, hxs] at h
      | some jxs => simp only [PVal.AllClList]; exact ⟨noDef_of_toJ? x jx hx, noDefList_of_toJ? xs jxs hxs⟩
theorem noDefFields_of_toJ? : ∀ (fs : List (String × PVal)) (js : List (String × JVal)), PVal.fieldsToJ? fs = some js →
    PVal.AllClFields (fun _ => False) fs
  | [], _, _ => by simp [PVal.AllClFields]
  | (k, x) :: xs, js, h => by
    simp only [PVal.fieldsToJ?] at h
    cases hx : x.toJ? with
    | none => simp [hx] at h
    | some jx =>
      cases hxs : PVal.fieldsToJ? xs with
      | none => simp [hx, hxs] at h
      | some jxs => simp only [PVal.AllClFields]; exact ⟨noDef_of_toJ? x jx hx, noDefFields_of_toJ? xs jxs hxs⟩
end

variable {frc : Closure → MSt → Res PVal × MSt}

theorem bfsEntries_noDef (p : Path) : ∀ (segs : List PathSeg) (root : PVal) (q : List Path) (st : MSt), NoDef root →
    ∃ q', bfsEntries frc p segs root q st = (.ok (root, q'), st)
  | [], root, q, st, _ => ⟨q, by simp only [bfsEntries]⟩
  | seg :: rest, root, q, st, h => by
    simp only [bfsEntries]
    cases hg : root.getAt (p ++ [seg]) with
    | none => exact bfsEntries_noDef p rest root q st h
    | some x =>
      cases x with
      | deferred cl => exact absurd (allCl_deferred.1 (allCl_getAt _ h hg)) id
      | leaf j => exact bfsEntries_noDef p rest root _ st h
      | list xs => exact bfsEntries_noDef p rest root _ st h
      | obj fs => exact bfsEntries_noDef p rest root _ st h

theorem bfsLoop_noDef : ∀ (fuel : Nat) (root : PVal) (q : List Path) (st : MSt), NoDef root →
    bfsLoop frc fuel root q st = (.fuelOut, st) ∨ bfsLoop frc fuel root q st = (.ok root, st)
  | 0, root, q, st, _ => .inl (by simp only [bfsLoop])
  | fuel + 1, root, [], st, _ => .inr (by simp only [bfsLoop])
  | fuel + 1, root, p :: q, st, h => by
    simp only [bfsLoop]
    cases hg : root.getAt p with
    | none => exact bfsLoop_noDef fuel root q st h
    | some cont =>
      simp only
      obtain ⟨q', hq'⟩ := bfsEntries_noDef (frc := frc) p (childSegs cont) root q st h
      rw [hq']
      exact bfsLoop_noDef fuel root q' st h

/-- the three depth-first functions on finished values: out of fuel, or nothing happens -/
structure DfsId (frc : Closure → MSt → Res PVal × MSt) (fuel : Nat) : Prop where
  val : ∀ v st, NoDef v → dfsVal frc fuel v st = (.fuelOut, st) ∨ dfsVal frc fuel v st = (.ok v, st)
  fields : ∀ ks fs st, (∀ p ∈ fs, NoDef p.2) →
    dfsFields frc fuel ks fs st = (.fuelOut, st) ∨ dfsFields frc fuel ks fs st = (.ok fs, st)
  items : ∀ xs acc st, (∀ x ∈ xs, NoDef x) →
    dfsItems frc fuel xs acc st = (.fuelOut, st) ∨ dfsItems frc fuel xs acc st = (.ok (acc ++ xs), st)

theorem dfsId : ∀ fuel, DfsId frc fuel
  | 0 => ⟨fun _ _ _ => .inl (by simp only [dfsVal]), fun _ _ _ _ => .inl (by simp only [dfsFields]),
          fun _ _ _ _ => .inl (by simp only [dfsItems])⟩
  | fuel + 1 => by
    have ih : DfsId frc fuel := dfsId fuel
    refine ⟨?_, ?_, ?_⟩
    · intro v st h
      cases v with
      | leaf j => exact .inr (by simp only [dfsVal])
      | deferred cl => exact absurd (allCl_deferred.1 h) id
      | obj fs =>
        simp only [dfsVal]
        rcases ih.fields (sortedKeys fs) fs st (allCl_obj.1 h) with h1 | h1 <;> rw [h1]
        · exact .inl rfl
        · exact .inr rfl
      | list xs =>
        simp only [dfsVal]
        rcases ih.items xs [] st (allCl_list.1 h) with h1 | h1 <;> rw [h1]
        · exact .inl rfl
        · exact .inr (by simp)
    · intro ks fs st h
      cases ks with
      | nil => exact .inr (by simp only [dfsFields])
      | cons k ks =>
        simp only [dfsFields]
        cases hl : lookupF fs k with
        | none => exact ih.fields ks fs st h
        | some v =>
          simp only
          rcases ih.val v st (h _ (lookupF_mem hl)) with h1 | h1 <;> rw [h1]
          · exact .inl rfl
          · simp only [setF_lookupF hl]; exact ih.fields ks fs st h
    · intro xs acc st h
      cases xs with
      | nil => exact .inr (by simp only [dfsItems, List.append_nil])
      | cons x xs =>
        simp only [dfsItems]
        rcases ih.val x st (h x List.mem_cons_self) with h1 | h1 <;> rw [h1]
        · exact .inl rfl
        · simp only
          rcases ih.items xs (acc ++ [x]) st (fun y hy => h y (List.mem_cons_of_mem _ hy)) with h2 | h2 <;> rw [h2]
          · exact .inl rfl
          · exact .inr (by simp)

/-! ## the root of a mutation -/

section root
variable {c : Ctx} {pv : Option Vars} {rank : String → Nat}

local notation "alt0" => recompute c.schema c.frags pv

/-- `mRootMut` (every top-level value forced depth-first) against `execGroups` at the root: out of fuel, or corresponding -/
theorem mRootMut_corr (hw : worldFuncFree c.world = true) (hac : Acyclic c.frags rank) (hfr : FragsOK c pv) (dfuel : Nat)
    (rt : String) : ∀ (fuel : Nat) (fps : List FieldPlan) (accS : List (String × JVal)) (acc : List (String × PVal))
    (st : St) (mst : MSt), (∀ fp ∈ fps, FpOK c.schema rt (NodeOK c pv rank) fp) → PVal.fieldsToJ? acc = some accS →
    SRel st mst →
    (mRootMut c alt0 dfuel fuel rt fps acc mst).1 = .fuelOut ∨
    Corr (fun fs pfs => PVal.fieldsToJ? pfs = some fs)
      (execGroups c fuel false rt .nil [] (groupsOf fps) accS st) (mRootMut c alt0 dfuel fuel rt fps acc mst)
  | 0, fps, accS, acc, st, mst, _, _, _ => .inl (by simp only [mRootMut])
  | fuel + 1, [], accS, acc, st, mst, _, hacc, h => by
    simp only [groupsOf, List.map_nil, execGroups, mRootMut]; exact .inr (corr_ok h hacc)
  | fuel + 1, fp :: rest, accS, acc, st, mst, hok, hacc, h => by
    have hfp := hok fp List.mem_cons_self
    have hrest : ∀ fp' ∈ rest, FpOK c.schema rt (NodeOK c pv rank) fp' := fun fp' hm => hok fp' (List.mem_cons_of_mem _ hm)
    obtain ⟨n0, ch0, tl, hnodes, hname, hdef, hargs⟩ := hfp.head
    have hhead : fp.fieldNodes.head? = some n0 := by simp [FieldPlan.fieldNodes, hnodes]
    have hg : groupsOf (fp :: rest) = (fp.key, fp.fieldNodes) :: groupsOf rest := rfl
    rw [hg]
    simp only [execGroups, mRootMut, hhead, hfp.pred, Pred.eval, List.all_nil, Bool.not_true, Bool.false_eq_true, if_false]
    rw [← hdef]
    cases hfd : fp.fieldDef with
    | none => exact mRootMut_corr hw hac hfr dfuel rt fuel rest accS acc st mst hrest hacc h
    | some fd =>
      simp only [List.nil_append]
      have hf := (execP hw hac hfr fuel).field false rt .nil [.key fp.key] [(rt, fp.key)] fp fd st mst hfp hfd h
      generalize hS : execField c fuel false rt .nil [.key fp.key] fd fp.fieldNodes st = xS at hf ⊢
      generalize hM : mField c alt0 fuel false rt .nil [.key fp.key] [(rt, fp.key)] fp fd mst = xM at hf ⊢
      obtain ⟨rS, stS⟩ := xS
      obtain ⟨rM, stM⟩ := xM
      obtain ⟨hr, hst⟩ := hf
      simp only at hr hst
      cases hr with
      | @ok j v hab =>
        simp only
        rcases (dfsId (frc := forceAll c alt0 dfuel) dfuel).val v stM (noDef_of_toJ? v j hab) with h1 | h1 <;> rw [h1]
        · exact .inl rfl
        · simp only
          exact mRootMut_corr hw hac hfr dfuel rt fuel rest _ _ stS stM hrest (fieldsToJ?_append hacc hab) hst
      | fail => exact .inr (corr_fail hst)
      | fuelOut => exact .inl rfl

end root

end GqlModel.Plan
