import GqlModel.Ext
/-! Helper lemmas for C17: what each handler of `GqlModel.Ext` emits (group characterisations), what one
extension sees of it (`proj`), and the per-extension view `view` of a whole run. Core Lean only. -/
namespace GqlModel.Ext

/-! ## Groups -/

theorem didStart_evs (h : Hook) (k : Nat) (xs : List ExtBehaviour) :
    (didStart h k xs).evs = xs.map (fun b => mkEv b h k .none) := by
  induction xs with
  | nil => rfl
  | cons b rest ih => simp only [didStart]; split <;> simp [ih]

theorem didStart_errs_nil (h : Hook) (k : Nat) (xs : List ExtBehaviour) :
    (didStart h k xs).errs.isEmpty = !anyFault xs h := by
  induction xs with
  | nil => rfl
  | cons b rest ih =>
    simp only [didStart]
    split <;> rename_i hb
    · simp [anyFault, hb] at ih ⊢; simpa [anyFault] using ih
    · simp [anyFault, hb]

theorem handleInits_evs (xs : List ExtBehaviour) :
    (handleInits xs).1 = xs.map (fun b => mkEv b .init 0 .none) := by
  induction xs with
  | nil => rfl
  | cons b rest ih => simp only [handleInits]; split <;> simp [ih]

theorem handleInits_errs_nil (xs : List ExtBehaviour) :
    (handleInits xs).2.isEmpty = !anyFault xs .init := by
  induction xs with
  | nil => rfl
  | cons b rest ih =>
    simp only [handleInits]
    split <;> rename_i hb
    · simp [anyFault, hb] at ih ⊢; simpa [anyFault] using ih
    · simp [anyFault, hb]

theorem finish_evs (h : Hook) (k : Nat) (o : Out) (fs : List ExtBehaviour) :
    (finish h k o fs).1 = fs.map (fun b => mkEv b h k o) := by
  induction fs with
  | nil => rfl
  | cons b rest ih => simp only [finish]; split <;> simp [ih]

theorem finish_errs_nil (h : Hook) (k : Nat) (o : Out) (fs : List ExtBehaviour) :
    (finish h k o fs).2.isEmpty = !anyFault fs h := by
  induction fs with
  | nil => rfl
  | cons b rest ih =>
    simp only [finish]
    split <;> rename_i hb
    · simp [anyFault, hb] at ih ⊢; simpa [anyFault] using ih
    · simp [anyFault, hb]

/-- distinct names -/
def NodupNames (xs : List ExtBehaviour) : Prop := (names xs).Nodup

instance (xs : List ExtBehaviour) : Decidable (NodupNames xs) := by unfold NodupNames; infer_instance

theorem didStart_fs_subset (h : Hook) (k : Nat) (xs : List ExtBehaviour) :
    ∀ c ∈ (didStart h k xs).fs, c ∈ xs := by
  induction xs with
  | nil => simp [didStart]
  | cons b rest ih =>
    intro c hc
    simp only [didStart] at hc
    split at hc
    · simp only [registerBefore] at hc
      split at hc
      · rcases List.mem_append.1 hc with hc | hc <;>
          exact List.mem_cons_of_mem _ (ih c (List.mem_filter.1 hc).1)
      · rcases List.mem_cons.1 hc with rfl | hc
        · exact List.mem_cons_self
        · exact List.mem_cons_of_mem _ (ih c hc)
    · exact List.mem_cons_of_mem _ (ih c hc)

/-- with distinct names the finish-function map holds exactly the extensions whose start hook returned -/
theorem didStart_fs (h : Hook) (k : Nat) (xs : List ExtBehaviour) (hnd : NodupNames xs) :
    (didStart h k xs).fs = xs.filter (fun b => b.beh h == .ok) := by
  induction xs with
  | nil => rfl
  | cons b rest ih =>
    have hnd' : NodupNames rest := (List.nodup_cons.1 hnd).2
    have hb : b.name ∉ names rest := (List.nodup_cons.1 hnd).1
    simp only [didStart]
    split <;> rename_i hbeh
    · rw [ih hnd']
      have : (rest.filter (fun b => b.beh h == .ok)).any (fun c => c.name == b.name) = false := by
        rw [Bool.eq_false_iff]
        intro hany
        obtain ⟨c, hc, hcn⟩ := List.any_eq_true.1 hany
        exact hb (by simp only [names, List.mem_map]; exact ⟨c, (List.mem_filter.1 hc).1, by simpa using hcn⟩)
      simp only [registerBefore, this]
      simp [List.filter_cons, hbeh]
    · simp [ih hnd', hbeh]

theorem filter_ok_of_noFault (h : Hook) (xs : List ExtBehaviour) (hf : anyFault xs h = false) :
    xs.filter (fun b => b.beh h == .ok) = xs := by
  rw [List.filter_eq_self]
  intro b hb
  simp only [anyFault, List.any_eq_false] at hf
  simpa using hf b hb

theorem beh_ok_of_noFault {h : Hook} {xs : List ExtBehaviour} (hf : anyFault xs h = false) {b : ExtBehaviour}
    (hb : b ∈ xs) : b.beh h = .ok := by
  simp only [anyFault, List.any_eq_false] at hf
  simpa using hf b hb

/-! ## Projection onto one extension -/

theorem proj_append (a : Nat) (s t : Trace) : proj a (s ++ t) = proj a s ++ proj a t := by
  simp [proj]

theorem proj_nil (a : Nat) : proj a [] = [] := rfl

/-- `g c` only emits hook calls of extension `c` -/
def Own (g : ExtBehaviour → Trace) : Prop := ∀ c e, e ∈ g c → e.ext = c.name ∧ e.hook ≠ .resolver

theorem proj_own_other {g : ExtBehaviour → Trace} (hg : Own g) {c : ExtBehaviour} {a : Nat} (hne : c.name ≠ a) :
    proj a (g c) = [] := by
  simp only [proj, List.filter_eq_nil_iff]
  intro e he
  obtain ⟨h1, h2⟩ := hg c e he
  simp [h1, h2, hne]

theorem proj_own_self {g : ExtBehaviour → Trace} (hg : Own g) (c : ExtBehaviour) :
    proj c.name (g c) = g c := by
  simp only [proj, List.filter_eq_self]
  intro e he
  simp [(hg c e he).1]

theorem proj_flatMap_none {g : ExtBehaviour → Trace} (hg : Own g) (a : Nat) (ys : List ExtBehaviour)
    (hys : ∀ c ∈ ys, c.name ≠ a) : proj a (ys.flatMap g) = [] := by
  induction ys with
  | nil => rfl
  | cons c rest ih =>
    rw [List.flatMap_cons, proj_append, proj_own_other hg (hys c List.mem_cons_self),
      ih (fun d hd => hys d (List.mem_cons_of_mem _ hd))]
    rfl

/-- a group in which every extension of `xs` acts on its own is seen by `b ∈ xs` as `g b` -/
theorem proj_flatMap {g : ExtBehaviour → Trace} (hg : Own g) (xs : List ExtBehaviour) (hnd : NodupNames xs)
    (b : ExtBehaviour) (hb : b ∈ xs) : proj b.name (xs.flatMap g) = g b := by
  induction xs with
  | nil => cases hb
  | cons c rest ih =>
    have hnd' : NodupNames rest := (List.nodup_cons.1 hnd).2
    have hc : c.name ∉ names rest := (List.nodup_cons.1 hnd).1
    rw [List.flatMap_cons, proj_append]
    rcases List.mem_cons.1 hb with rfl | hb'
    · rw [proj_own_self hg, proj_flatMap_none hg]
      · simp
      · intro d hd hdn
        exact hc (by simp only [names, List.mem_map]; exact ⟨d, hd, hdn⟩)
    · have hne : c.name ≠ b.name := fun hcn => hc (by simp only [names, List.mem_map]; exact ⟨b, hb', hcn.symm⟩)
      rw [proj_own_other hg hne, ih hnd' hb']
      rfl

theorem own_single (h : Hook) (hh : h ≠ .resolver) (k : Nat) (o : Out) : Own (fun c => [mkEv c h k o]) := by
  intro c e he
  simp only [List.mem_singleton] at he
  subst he
  exact ⟨rfl, hh⟩

theorem own_cond (p : ExtBehaviour → Bool) (h : Hook) (hh : h ≠ .resolver) (k : Nat) (o : Out) :
    Own (fun c => if p c then [mkEv c h k o] else []) := by
  intro c e he
  dsimp only at he
  split at he
  · simp only [List.mem_singleton] at he
    subst he
    exact ⟨rfl, hh⟩
  · cases he

theorem map_eq_flatMap_single (f : ExtBehaviour → Ev) (xs : List ExtBehaviour) :
    xs.map f = xs.flatMap (fun c => [f c]) := by
  induction xs with
  | nil => rfl
  | cons c rest ih => simp [ih]

theorem filter_map_eq_flatMap_cond (p : ExtBehaviour → Bool) (f : ExtBehaviour → Ev) (xs : List ExtBehaviour) :
    (xs.filter p).map f = xs.flatMap (fun c => if p c then [f c] else []) := by
  induction xs with
  | nil => rfl
  | cons c rest ih => by_cases hp : p c <;> simp [List.filter_cons, hp, ih]

/-- a group `xs.map (mkEv · h k o)` (one call per extension) is seen by `b` as its own call -/
theorem proj_map_mkEv (xs : List ExtBehaviour) (hnd : NodupNames xs) (b : ExtBehaviour) (hb : b ∈ xs)
    (h : Hook) (hh : h ≠ .resolver) (k : Nat) (o : Out) :
    proj b.name (xs.map (fun c => mkEv c h k o)) = [mkEv b h k o] := by
  rw [map_eq_flatMap_single, proj_flatMap (own_single h hh k o) xs hnd b hb]

theorem proj_filter_map_mkEv (xs : List ExtBehaviour) (hnd : NodupNames xs) (b : ExtBehaviour) (hb : b ∈ xs)
    (p : ExtBehaviour → Bool) (h : Hook) (hh : h ≠ .resolver) (k : Nat) (o : Out) :
    proj b.name ((xs.filter p).map (fun c => mkEv c h k o)) = if p b then [mkEv b h k o] else [] := by
  rw [filter_map_eq_flatMap_cond, proj_flatMap (own_cond p h hh k o) xs hnd b hb]

/-! ## The view of one extension -/

theorem bodyOutB_execBody (xs : List ExtBehaviour) (req : RequestOutcomeClass) :
    bodyOutB (execBody xs req) = bodyOut xs req := rfl

def resEvs (b : ExtBehaviour) : Trace :=
  match b.beh .hasResult with
  | .panic _ => [mkEv b .hasResult 0 .none]
  | .ok => if b.hasRes then [mkEv b .hasResult 0 .none, mkEv b .getResult 0 .none] else [mkEv b .hasResult 0 .none]

theorem addExtensionResults_evs (xs : List ExtBehaviour) : (addExtensionResults xs).1 = xs.flatMap resEvs := by
  induction xs with
  | nil => rfl
  | cons b rest ih =>
    simp only [addExtensionResults, List.flatMap_cons, resEvs]
    cases hh : b.beh .hasResult with
    | panic k => simp [ih]
    | ok =>
      by_cases hr : b.hasRes
      · cases hg : b.beh .getResult <;> simp [hr, ih]
      · simp [hr, ih]

theorem own_resEvs : Own resEvs := by
  intro c e he
  simp only [resEvs] at he
  split at he
  · simp only [List.mem_singleton] at he; subst he; exact ⟨rfl, by simp [mkEv]⟩
  · split at he
    · simp only [List.mem_cons, List.not_mem_nil, or_false] at he
      rcases he with rfl | rfl <;> exact ⟨rfl, by simp [mkEv]⟩
    · simp only [List.mem_singleton] at he; subst he; exact ⟨rfl, by simp [mkEv]⟩

def vFinish (b : ExtBehaviour) (hs he : Hook) (k : Nat) (o : Out) : Trace :=
  if b.beh hs == .ok then [mkEv b he k o] else []

def vField (b : ExtBehaviour) (k : Nat) (fo : FieldOutcome) : Trace :=
  [mkEv b .resStart k .none, resolverEv k fo]
    ++ vFinish b .resStart .resEnd k (if fo.failed then .err else .ok)

def vFields (b : ExtBehaviour) : Nat → List FieldOutcome → Trace
  | _, [] => []
  | k, fo :: rest => vField b k fo ++ (if fo.fatal then [] else vFields b (k + 1) rest)

def vBody (b : ExtBehaviour) : RequestOutcomeClass → Trace
  | .exec fields => vFields b 0 fields
  | _ => []

def viewExec (xs : List ExtBehaviour) (b : ExtBehaviour) (req : RequestOutcomeClass) : Trace :=
  [mkEv b .execStart 0 .none] ++
  if anyFault xs .execStart then vFinish b .execStart .execEnd 0 .err else
  vBody b req ++ [mkEv b .execEnd 0 (bodyOut xs req)] ++ resEvs b

/-- what extension `b` (registered in `xs` under a name of its own) sees of `run xs req` -/
def view (xs : List ExtBehaviour) (b : ExtBehaviour) (req : RequestOutcomeClass) : Trace :=
  [mkEv b .init 0 .none] ++
  if anyFault xs .init then [] else
  [mkEv b .parseStart 0 .none] ++
  if anyFault xs .parseStart then vFinish b .parseStart .parseEnd 0 .err else
  if req = .syntaxErr then [mkEv b .parseEnd 0 .err] else
  [mkEv b .parseEnd 0 .ok] ++
  if anyFault xs .parseEnd then [] else
  [mkEv b .valStart 0 .none] ++
  if anyFault xs .valStart then vFinish b .valStart .valEnd 0 .err else
  if req = .validationErr then [mkEv b .valEnd 0 .err] else
  [mkEv b .valEnd 0 .ok] ++
  if anyFault xs .valEnd then [] else
  if req = .operationErr then [] else
  viewExec xs b req

theorem proj_resolverEv (a k : Nat) (fo : FieldOutcome) : proj a [resolverEv k fo] = [resolverEv k fo] := by
  simp [proj, resolverEv]

theorem proj_finish_started (xs : List ExtBehaviour) (hnd : NodupNames xs) (b : ExtBehaviour) (hb : b ∈ xs)
    (hs he : Hook) (hh : he ≠ .resolver) (k k' : Nat) (o : Out) :
    proj b.name (finish he k o (didStart hs k' xs).fs).1 = vFinish b hs he k o := by
  rw [finish_evs, didStart_fs _ _ _ hnd, proj_filter_map_mkEv xs hnd b hb _ _ hh]
  rfl

theorem proj_resolvePlannedField (xs : List ExtBehaviour) (hnd : NodupNames xs) (b : ExtBehaviour) (hb : b ∈ xs)
    (k : Nat) (fo : FieldOutcome) : proj b.name (resolvePlannedField xs k fo).1 = vField b k fo := by
  simp only [resolvePlannedField, proj_append, didStart_evs, proj_resolverEv, vField]
  rw [proj_map_mkEv xs hnd b hb _ (by simp), proj_finish_started xs hnd b hb _ _ (by simp)]
  simp

theorem proj_executeFields (xs : List ExtBehaviour) (hnd : NodupNames xs) (b : ExtBehaviour) (hb : b ∈ xs)
    (k : Nat) (fs : List FieldOutcome) : proj b.name (executeFields xs k fs).1 = vFields b k fs := by
  induction fs generalizing k with
  | nil => rfl
  | cons fo rest ih =>
    simp only [executeFields, vFields]
    by_cases hf : fo.fatal
    · simp [hf, proj_resolvePlannedField xs hnd b hb]
    · simp [hf, proj_append, proj_resolvePlannedField xs hnd b hb, ih]

theorem proj_execBody (xs : List ExtBehaviour) (hnd : NodupNames xs) (b : ExtBehaviour) (hb : b ∈ xs)
    (req : RequestOutcomeClass) : proj b.name (execBody xs req).1 = vBody b req := by
  cases req <;> simp only [execBody, vBody, proj_nil]
  exact proj_executeFields xs hnd b hb 0 _

theorem proj_executePlan (xs : List ExtBehaviour) (hnd : NodupNames xs) (b : ExtBehaviour) (hb : b ∈ xs)
    (req : RequestOutcomeClass) : proj b.name (executePlan xs req).1 = viewExec xs b req := by
  simp only [executePlan, executePlanB, bodyOutB_execBody, viewExec, didStart_errs_nil, Bool.not_not]
  by_cases hf : anyFault xs .execStart = true
  · simp only [hf, if_true, proj_append, didStart_evs, proj_map_mkEv xs hnd b hb _ (by simp : Hook.execStart ≠ .resolver),
      proj_finish_started xs hnd b hb _ _ (by simp : Hook.execEnd ≠ .resolver)]
  · have hf' : anyFault xs .execStart = false := by simpa using hf
    simp only [hf', Bool.false_eq_true, if_false, proj_append, didStart_evs, finish_evs, didStart_fs _ _ _ hnd,
      filter_ok_of_noFault _ _ hf', addExtensionResults_evs]
    rw [proj_map_mkEv xs hnd b hb _ (by simp), proj_map_mkEv xs hnd b hb _ (by simp),
      proj_flatMap own_resEvs xs hnd b hb, proj_execBody xs hnd b hb]
    simp

/-- the part of the log of `run xs req` that extension `b` sees is `view xs b req` -/
theorem proj_run (xs : List ExtBehaviour) (hnd : NodupNames xs) (b : ExtBehaviour) (hb : b ∈ xs)
    (req : RequestOutcomeClass) : proj b.name (run xs req).1 = view xs b req := by
  have P := fun h (hh : h ≠ Hook.resolver) k o => proj_map_mkEv xs hnd b hb h hh k o
  have PF := fun hs he (hh : he ≠ Hook.resolver) o => proj_finish_started xs hnd b hb hs he hh 0 0 o
  simp only [run, runB, view, pre, early, proj_append, proj_nil, handleInits_evs, handleInits_errs_nil, didStart_evs,
    didStart_errs_nil, finish_errs_nil, Bool.not_not]
  rw [P _ (by simp)]
  by_cases h1 : anyFault xs .init = true
  · simp [h1, proj_nil]
  have h1' : anyFault xs .init = false := by simpa using h1
  simp only [h1', Bool.false_eq_true, if_false, proj_append, P _ (by simp : Hook.parseStart ≠ .resolver)]
  by_cases h2 : anyFault xs .parseStart = true
  · simp [h2, proj_nil, proj_append, PF _ _ (by simp : Hook.parseEnd ≠ .resolver)]
  have h2' : anyFault xs .parseStart = false := by simpa using h2
  have e2 : (didStart .parseStart 0 xs).fs = xs := by rw [didStart_fs _ _ _ hnd, filter_ok_of_noFault _ _ h2']
  simp only [h2', Bool.false_eq_true, if_false, e2, finish_evs]
  cases req with
  | syntaxErr => simp [proj_append, proj_nil, P]
  | validationErr | operationErr | variableErr | exec _ =>
    simp only [proj_append, P _ (by simp : Hook.parseEnd ≠ .resolver), reduceCtorEq, if_false]
    by_cases h3 : anyFault xs .parseEnd = true
    · simp [h3, proj_nil]
    have h3' : anyFault xs .parseEnd = false := by simpa using h3
    simp only [h3', Bool.false_eq_true, if_false, proj_append, P _ (by simp : Hook.valStart ≠ .resolver)]
    by_cases h4 : anyFault xs .valStart = true
    · simp [h4, proj_nil, proj_append, ← finish_evs, PF _ _ (by simp : Hook.valEnd ≠ .resolver)]
    have h4' : anyFault xs .valStart = false := by simpa using h4
    have e4 : (didStart .valStart 0 xs).fs = xs := by rw [didStart_fs _ _ _ hnd, filter_ok_of_noFault _ _ h4']
    simp only [h4', Bool.false_eq_true, if_false, e4, proj_append, proj_nil,
      P _ (by simp : Hook.valEnd ≠ .resolver), List.append_nil, reduceCtorEq, if_true]
    first
    | done
    | (by_cases h5 : anyFault xs .valEnd = true
       · simp [h5, proj_nil]
       have h5' : anyFault xs .valEnd = false := by simpa using h5
       simp only [h5', Bool.false_eq_true, if_false, executeB, proj_nil, reduceCtorEq, if_true]
       first
       | done
       | exact congrArg _ (proj_executePlan xs hnd b hb _)
       | (have := proj_executePlan xs hnd b hb; simp only [executePlan] at this; simp [this]))

/-- the ten ways a run can end, as seen by one extension; each with what is then known about the hooks of all
registered extensions -/
theorem view_elim (P : Trace → Prop) (xs : List ExtBehaviour) (b : ExtBehaviour) (req : RequestOutcomeClass)
    (l1 : anyFault xs .init = true → P [mkEv b .init 0 .none])
    (l2 : anyFault xs .init = false → anyFault xs .parseStart = true →
      P ([mkEv b .init 0 .none, mkEv b .parseStart 0 .none] ++ vFinish b .parseStart .parseEnd 0 .err))
    (l3 : anyFault xs .init = false → anyFault xs .parseStart = false → req = .syntaxErr →
      P [mkEv b .init 0 .none, mkEv b .parseStart 0 .none, mkEv b .parseEnd 0 .err])
    (l4 : anyFault xs .init = false → anyFault xs .parseStart = false → req ≠ .syntaxErr →
      anyFault xs .parseEnd = true →
      P [mkEv b .init 0 .none, mkEv b .parseStart 0 .none, mkEv b .parseEnd 0 .ok])
    (l5 : anyFault xs .init = false → anyFault xs .parseStart = false → req ≠ .syntaxErr →
      anyFault xs .parseEnd = false → anyFault xs .valStart = true →
      P ([mkEv b .init 0 .none, mkEv b .parseStart 0 .none, mkEv b .parseEnd 0 .ok, mkEv b .valStart 0 .none]
         ++ vFinish b .valStart .valEnd 0 .err))
    (l6 : anyFault xs .init = false → anyFault xs .parseStart = false → req ≠ .syntaxErr →
      anyFault xs .parseEnd = false → anyFault xs .valStart = false → req = .validationErr →
      P [mkEv b .init 0 .none, mkEv b .parseStart 0 .none, mkEv b .parseEnd 0 .ok, mkEv b .valStart 0 .none,
         mkEv b .valEnd 0 .err])
    (l7 : anyFault xs .init = false → anyFault xs .parseStart = false → req ≠ .syntaxErr →
      anyFault xs .parseEnd = false → anyFault xs .valStart = false → req ≠ .validationErr →
      (anyFault xs .valEnd = true ∨ req = .operationErr) →
      P [mkEv b .init 0 .none, mkEv b .parseStart 0 .none, mkEv b .parseEnd 0 .ok, mkEv b .valStart 0 .none,
         mkEv b .valEnd 0 .ok])
    (l8 : anyFault xs .init = false → anyFault xs .parseStart = false → req ≠ .syntaxErr →
      anyFault xs .parseEnd = false → anyFault xs .valStart = false → req ≠ .validationErr →
      anyFault xs .valEnd = false → req ≠ .operationErr → anyFault xs .execStart = true →
      P ([mkEv b .init 0 .none, mkEv b .parseStart 0 .none, mkEv b .parseEnd 0 .ok, mkEv b .valStart 0 .none,
         mkEv b .valEnd 0 .ok, mkEv b .execStart 0 .none] ++ vFinish b .execStart .execEnd 0 .err))
    (l9 : anyFault xs .init = false → anyFault xs .parseStart = false → req ≠ .syntaxErr →
      anyFault xs .parseEnd = false → anyFault xs .valStart = false → req ≠ .validationErr →
      anyFault xs .valEnd = false → req ≠ .operationErr → anyFault xs .execStart = false →
      P ([mkEv b .init 0 .none, mkEv b .parseStart 0 .none, mkEv b .parseEnd 0 .ok, mkEv b .valStart 0 .none,
          mkEv b .valEnd 0 .ok, mkEv b .execStart 0 .none]
         ++ (vBody b req ++ [mkEv b .execEnd 0 (bodyOut xs req)] ++ resEvs b))) :
    P (view xs b req) := by
  simp only [view, viewExec]
  cases h1 : anyFault xs .init
  case true => simpa using l1 h1
  cases h2 : anyFault xs .parseStart
  case true => simpa using l2 h1 h2
  by_cases hr1 : req = .syntaxErr
  · simpa [hr1] using l3 h1 h2 hr1
  cases h3 : anyFault xs .parseEnd
  case true => simpa [hr1] using l4 h1 h2 hr1 h3
  cases h4 : anyFault xs .valStart
  case true => simpa [hr1] using l5 h1 h2 hr1 h3 h4
  by_cases hr2 : req = .validationErr
  · simpa [hr1, hr2] using l6 h1 h2 hr1 h3 h4 hr2
  cases h5 : anyFault xs .valEnd
  case true => simpa [hr1, hr2] using l7 h1 h2 hr1 h3 h4 hr2 (Or.inl h5)
  by_cases hr3 : req = .operationErr
  · simpa [hr1, hr2, hr3] using l7 h1 h2 hr1 h3 h4 hr2 (Or.inr hr3)
  cases h6 : anyFault xs .execStart
  case true => simpa [hr1, hr2, hr3] using l8 h1 h2 hr1 h3 h4 hr2 h5 hr3 h6
  simpa [hr1, hr2, hr3] using l9 h1 h2 hr1 h3 h4 hr2 h5 hr3 h6

/-! ## PhaseOrder on a view -/

def poMid (s : POState) : Prop := (∃ j, s = .saw .execStart j) ∨ (∃ j, s = .saw .resolver j)

theorem po_vField (b : ExtBehaviour) (k : Nat) (fo : FieldOutcome) (s : POState) (hs : poMid s) :
    (vField b k fo).foldl poStep s = .saw .resolver k := by
  rcases hs with ⟨j, rfl⟩ | ⟨j, rfl⟩ <;>
  · simp only [vField, vFinish]
    by_cases hb : b.beh .resStart = .ok <;> simp [hb, poStep, mkEv, resolverEv]

theorem po_vFields (b : ExtBehaviour) (k : Nat) (fs : List FieldOutcome) (s : POState) (hs : poMid s) :
    poMid ((vFields b k fs).foldl poStep s) := by
  induction fs generalizing k s with
  | nil => simpa [vFields] using hs
  | cons fo rest ih =>
    simp only [vFields, List.foldl_append, po_vField b k fo s hs]
    by_cases hf : fo.fatal
    · simp [hf, poMid]
    · simp only [hf, Bool.false_eq_true, if_false]
      exact ih _ _ (Or.inr ⟨k, rfl⟩)

theorem po_vBody (b : ExtBehaviour) (req : RequestOutcomeClass) (s : POState) (hs : poMid s) :
    poMid ((vBody b req).foldl poStep s) := by
  cases req <;> simp only [vBody, List.foldl_nil] <;> first | exact hs | exact po_vFields b 0 _ s hs

theorem po_resEvs (b : ExtBehaviour) (s : POState) (hs : poMid s) :
    (resEvs b).foldl poStep s ≠ .bad ∧ (resEvs b).foldl poStep s ≠ .fresh := by
  rcases hs with ⟨j, rfl⟩ | ⟨j, rfl⟩ <;>
  · simp only [resEvs]
    cases b.beh .hasResult <;> by_cases hr : b.hasRes <;> simp [hr, poStep, mkEv]

theorem po_view (xs : List ExtBehaviour) (b : ExtBehaviour) (req : RequestOutcomeClass) :
    (view xs b req).foldl poStep .fresh ≠ .bad ∧ (view xs b req).foldl poStep .fresh ≠ .fresh := by
  apply view_elim (fun t => t.foldl poStep .fresh ≠ .bad ∧ t.foldl poStep .fresh ≠ .fresh)
  case l9 =>
    intros
    simp only [List.foldl_append]
    have e0 : [mkEv b .init 0 .none, mkEv b .parseStart 0 .none, mkEv b .parseEnd 0 .ok, mkEv b .valStart 0 .none,
          mkEv b .valEnd 0 .ok, mkEv b .execStart 0 .none].foldl poStep .fresh = .saw .execStart 0 := by
      simp [poStep, mkEv]
    rw [e0]
    have h1 := po_vBody b req (.saw .execStart 0) (Or.inl ⟨0, rfl⟩)
    have h2 : poMid (List.foldl poStep (List.foldl poStep (.saw .execStart 0) (vBody b req)) [mkEv b .execEnd 0 (bodyOut xs req)]) := by
      simpa [poStep, mkEv] using h1
    exact po_resEvs b _ h2
  case l2 => intros; by_cases hx : b.beh .parseStart = .ok <;> simp [poStep, mkEv, vFinish, hx]
  case l5 => intros; by_cases hx : b.beh .valStart = .ok <;> simp [poStep, mkEv, vFinish, hx]
  case l8 => intros; by_cases hx : b.beh .execStart = .ok <;> simp [poStep, mkEv, vFinish, hx]
  all_goals intros; simp [poStep, mkEv]

/-! ## Nested and Balanced on a view -/

theorem nest_vField (b : ExtBehaviour) (k : Nat) (fo : FieldOutcome) :
    (vField b k fo).foldl nestStep .exec = .exec := by
  simp only [vField, vFinish]
  by_cases hb : b.beh .resStart = .ok <;> simp [hb, nestStep, mkEv, resolverEv]

theorem nest_vFields (b : ExtBehaviour) (k : Nat) (fs : List FieldOutcome) :
    (vFields b k fs).foldl nestStep .exec = .exec := by
  induction fs generalizing k with
  | nil => rfl
  | cons fo rest ih =>
    simp only [vFields, List.foldl_append, nest_vField]
    by_cases hf : fo.fatal
    · simp [hf]
    · simp only [hf, Bool.false_eq_true, if_false]
      exact ih _

theorem nest_vBody (b : ExtBehaviour) (req : RequestOutcomeClass) :
    (vBody b req).foldl nestStep .exec = .exec := by
  cases req <;> simp only [vBody, List.foldl_nil]
  exact nest_vFields b 0 _

theorem nest_resEvs (b : ExtBehaviour) : (resEvs b).foldl nestStep .idle ≠ .bad := by
  simp only [resEvs]
  cases b.beh .hasResult <;> by_cases hr : b.hasRes <;> simp [hr, nestStep, mkEv]

theorem nest_view (xs : List ExtBehaviour) (b : ExtBehaviour) (hb : b ∈ xs) (req : RequestOutcomeClass) :
    (view xs b req).foldl nestStep .idle ≠ .bad := by
  have K := fun h (hf : anyFault xs h = false) => beh_ok_of_noFault hf hb
  apply view_elim (fun t => t.foldl nestStep .idle ≠ .bad)
  case l9 =>
    intro h1 h2 hr1 h3 h4 hr2 h5 hr3 h6
    simp only [List.foldl_append]
    have e0 : [mkEv b .init 0 .none, mkEv b .parseStart 0 .none, mkEv b .parseEnd 0 .ok, mkEv b .valStart 0 .none,
          mkEv b .valEnd 0 .ok, mkEv b .execStart 0 .none].foldl nestStep .idle = .exec := by
      simp [nestStep, mkEv, K _ h2, K _ h4, K _ h6]
    rw [e0, nest_vBody b req]
    have : [mkEv b .execEnd 0 (bodyOut xs req)].foldl nestStep .exec = .idle := by simp [nestStep, mkEv]
    rw [this]
    exact nest_resEvs b
  case l1 => intros; simp [nestStep, mkEv]
  case l2 => intro h1 h2; by_cases hx : b.beh .parseStart = .ok <;> simp [nestStep, mkEv, vFinish, hx]
  case l3 => intro h1 h2 _; simp [nestStep, mkEv, K _ h2]
  case l4 => intro h1 h2 _ _; simp [nestStep, mkEv, K _ h2]
  case l5 => intro h1 h2 _ _ _; by_cases hx : b.beh .valStart = .ok <;> simp [nestStep, mkEv, vFinish, K _ h2, hx]
  case l6 => intro h1 h2 _ _ h4 _; simp [nestStep, mkEv, K _ h2, K _ h4]
  case l7 => intro h1 h2 _ _ h4 _ _; simp [nestStep, mkEv, K _ h2, K _ h4]
  case l8 =>
    intro h1 h2 _ _ h4 _ _ _ _
    by_cases hx : b.beh .execStart = .ok <;> simp [nestStep, mkEv, vFinish, K _ h2, K _ h4, hx]

theorem bal_vField (exp : Phase → Out) (b : ExtBehaviour) (k : Nat) (fo : FieldOutcome)
    (hexp : exp (.res k) = if fo.failed then .err else .ok) :
    (vField b k fo).foldl (balStep exp) (some [.exec]) = some [.exec] := by
  simp only [vField, vFinish]
  by_cases hb : b.beh .resStart = .ok
  · simp [hb, balStep, balStart, balEnd, mkEv, resolverEv, hexp]
  · simp [hb, balStep, balStart, mkEv, resolverEv]

theorem bal_vFields (exp : Phase → Out) (b : ExtBehaviour) (k : Nat) (fs : List FieldOutcome)
    (hexp : ∀ j fo, fs[j]? = some fo → exp (.res (k + j)) = if fo.failed then .err else .ok) :
    (vFields b k fs).foldl (balStep exp) (some [.exec]) = some [.exec] := by
  induction fs generalizing k with
  | nil => rfl
  | cons fo rest ih =>
    simp only [vFields, List.foldl_append]
    have h0 := hexp 0 fo (by simp)
    rw [bal_vField exp b k fo h0]
    by_cases hf : fo.fatal
    · simp [hf]
    · simp only [hf, Bool.false_eq_true, if_false]
      refine ih _ ?_
      intro j fo' hj
      have := hexp (j + 1) fo' (by simpa using hj)
      rw [← this]; congr 2; omega

theorem bal_vBody (exp : Phase → Out) (b : ExtBehaviour) (req : RequestOutcomeClass)
    (hres : ∀ k, exp (.res k) = fieldOut req k) :
    (vBody b req).foldl (balStep exp) (some [.exec]) = some [.exec] := by
  cases req <;> simp only [vBody, List.foldl_nil]
  rename_i fs
  refine bal_vFields exp b 0 fs ?_
  intro j fo hj
  rw [Nat.zero_add, hres j]
  simp [fieldOut, hj]

theorem bal_resEvs (exp : Phase → Out) (b : ExtBehaviour) (s : Option (List Phase)) :
    (resEvs b).foldl (balStep exp) s = s := by
  simp only [resEvs]
  cases b.beh .hasResult <;> by_cases hr : b.hasRes <;> simp [hr, balStep, mkEv]

theorem reachesVal_of {xs : List ExtBehaviour} {req : RequestOutcomeClass}
    (h1 : anyFault xs .init = false) (h2 : anyFault xs .parseStart = false) (hr1 : req ≠ .syntaxErr)
    (h3 : anyFault xs .parseEnd = false) : reachesVal xs req = true := by
  simp [reachesVal, reachesParse, h1, h2, h3, hr1]

theorem reachesExec_of {xs : List ExtBehaviour} {req : RequestOutcomeClass}
    (h1 : anyFault xs .init = false) (h2 : anyFault xs .parseStart = false) (hr1 : req ≠ .syntaxErr)
    (h3 : anyFault xs .parseEnd = false) (h4 : anyFault xs .valStart = false) (hr2 : req ≠ .validationErr)
    (h5 : anyFault xs .valEnd = false) (hr3 : req ≠ .operationErr) : reachesExec xs req = true := by
  simp [reachesExec, reachesVal, reachesParse, h1, h2, h3, h4, h5, hr1, hr2, hr3]

theorem reachesBody_of {xs : List ExtBehaviour} {req : RequestOutcomeClass}
    (h1 : anyFault xs .init = false) (h2 : anyFault xs .parseStart = false) (hr1 : req ≠ .syntaxErr)
    (h3 : anyFault xs .parseEnd = false) (h4 : anyFault xs .valStart = false) (hr2 : req ≠ .validationErr)
    (h5 : anyFault xs .valEnd = false) (hr3 : req ≠ .operationErr) (h6 : anyFault xs .execStart = false) :
    reachesBody xs req = true := by
  simp [reachesBody, reachesExec, reachesVal, reachesParse, h1, h2, h3, h4, h5, h6, hr1, hr2, hr3]

/-- `Balanced` on the view of one extension, for any table of expected outcomes that agrees with what the
pipeline hands to the finish functions -/
theorem bal_view (xs : List ExtBehaviour) (b : ExtBehaviour) (hb : b ∈ xs) (req : RequestOutcomeClass)
    (exp : Phase → Out)
    (hparse : reachesParse xs = true →
      exp .parse = if req = .syntaxErr || anyFault xs .parseStart then .err else .ok)
    (hval : reachesVal xs req = true →
      exp .val = if req = .validationErr || anyFault xs .valStart then .err else .ok)
    (hexec : reachesExec xs req = true →
      exp .exec = if anyFault xs .execStart then .err else bodyOut xs req)
    (hres : ∀ k, exp (.res k) = fieldOut req k) :
    (view xs b req).foldl (balStep exp) (some []) = some [] := by
  have K := fun h (hf : anyFault xs h = false) => beh_ok_of_noFault hf hb
  apply view_elim (fun t => t.foldl (balStep exp) (some []) = some [])
  case l1 => intros; simp [balStep, mkEv]
  case l2 =>
    intro h1 h2
    have hp := hparse (by simp [reachesParse, h1])
    simp only [h2, Bool.or_true, if_true] at hp
    by_cases hx : b.beh .parseStart = .ok <;> simp [balStep, balStart, balEnd, mkEv, vFinish, hx, hp]
  case l3 =>
    intro h1 h2 hr1
    have hp := hparse (by simp [reachesParse, h1])
    simp only [hr1, h2, decide_true, Bool.true_or, if_true] at hp
    simp [balStep, balStart, balEnd, mkEv, K _ h2, hp]
  case l4 =>
    intro h1 h2 hr1 _
    have hp := hparse (by simp [reachesParse, h1])
    simp only [hr1, h2, decide_false, Bool.or_self, Bool.false_eq_true, if_false] at hp
    simp [balStep, balStart, balEnd, mkEv, K _ h2, hp]
  case l5 =>
    intro h1 h2 hr1 h3 h4
    have hp := hparse (by simp [reachesParse, h1])
    simp only [hr1, h2, decide_false, Bool.or_self, Bool.false_eq_true, if_false] at hp
    have hv := hval (reachesVal_of h1 h2 hr1 h3)
    simp only [h4, Bool.or_true, if_true] at hv
    by_cases hx : b.beh .valStart = .ok <;>
      simp [balStep, balStart, balEnd, mkEv, vFinish, K _ h2, hp, hx, hv]
  case l6 =>
    intro h1 h2 hr1 h3 h4 hr2
    have hp := hparse (by simp [reachesParse, h1])
    simp only [hr1, h2, decide_false, Bool.or_self, Bool.false_eq_true, if_false] at hp
    have hv := hval (reachesVal_of h1 h2 hr1 h3)
    simp only [hr2, decide_true, Bool.true_or, if_true] at hv
    simp [balStep, balStart, balEnd, mkEv, K _ h2, K _ h4, hp, hv]
  case l7 =>
    intro h1 h2 hr1 h3 h4 hr2 _
    have hp := hparse (by simp [reachesParse, h1])
    simp only [hr1, h2, decide_false, Bool.or_self, Bool.false_eq_true, if_false] at hp
    have hv := hval (reachesVal_of h1 h2 hr1 h3)
    simp only [hr2, h4, decide_false, Bool.or_self, Bool.false_eq_true, if_false] at hv
    simp [balStep, balStart, balEnd, mkEv, K _ h2, K _ h4, hp, hv]
  case l8 =>
    intro h1 h2 hr1 h3 h4 hr2 h5 hr3 h6
    have hp := hparse (by simp [reachesParse, h1])
    simp only [hr1, h2, decide_false, Bool.or_self, Bool.false_eq_true, if_false] at hp
    have hv := hval (reachesVal_of h1 h2 hr1 h3)
    simp only [hr2, h4, decide_false, Bool.or_self, Bool.false_eq_true, if_false] at hv
    have he := hexec (reachesExec_of h1 h2 hr1 h3 h4 hr2 h5 hr3)
    simp only [h6, if_true] at he
    by_cases hx : b.beh .execStart = .ok <;>
      simp [balStep, balStart, balEnd, mkEv, vFinish, K _ h2, K _ h4, hp, hv, hx, he]
  case l9 =>
    intro h1 h2 hr1 h3 h4 hr2 h5 hr3 h6
    have hp := hparse (by simp [reachesParse, h1])
    simp only [hr1, h2, decide_false, Bool.or_self, Bool.false_eq_true, if_false] at hp
    have hv := hval (reachesVal_of h1 h2 hr1 h3)
    simp only [hr2, h4, decide_false, Bool.or_self, Bool.false_eq_true, if_false] at hv
    have he := hexec (reachesExec_of h1 h2 hr1 h3 h4 hr2 h5 hr3)
    simp only [h6, Bool.false_eq_true, if_false] at he
    simp only [List.foldl_append]
    have e0 : [mkEv b .init 0 .none, mkEv b .parseStart 0 .none, mkEv b .parseEnd 0 .ok, mkEv b .valStart 0 .none,
          mkEv b .valEnd 0 .ok, mkEv b .execStart 0 .none].foldl (balStep exp) (some []) = some [.exec] := by
      simp [balStep, balStart, balEnd, mkEv, K _ h2, K _ h4, K _ h6, hp, hv]
    rw [e0, bal_vBody exp b req hres]
    have : [mkEv b .execEnd 0 (bodyOut xs req)].foldl (balStep exp) (some [.exec]) = some [] := by
      simp [balStep, balEnd, mkEv, he]
    rw [this, bal_resEvs]


/-! ## The outcomes the specification expects equal what the finish functions receive -/

theorem isEmpty_append' {α : Type} (a b : List α) : (a ++ b).isEmpty = (a.isEmpty && b.isEmpty) := by
  cases a <;> simp

theorem nil_of_isEmpty {α : Type} {l : List α} (h : l.isEmpty = true) : l = [] := by
  cases l <;> simp_all

theorem any_or' {α : Type} (p q : α → Bool) (l : List α) :
    l.any (fun e => p e || q e) = (l.any p || l.any q) := by
  induction l with
  | nil => rfl
  | cons a rest ih => simp only [List.any_cons, ih]; cases p a <;> cases q a <;> simp

/-- the events of the execution body that make the result an error result -/
def bodyErrEv (e : Ev) : Bool :=
  (e.hook == .resolver && e.out == .err) || ((e.hook == .resStart || e.hook == .resEnd) && e.fault != .ok)

theorem execErrEv_eq : execErrEv = fun e => bodyErrEv e || startFault .execStart e := rfl

/-- hooks whose events never count for `startFault h0` / `bodyErrEv` -/
theorem any_sf_map (ys : List ExtBehaviour) (h : Hook) (k : Nat) (o : Out) (h0 : Hook) :
    (ys.map (fun b => mkEv b h k o)).any (startFault h0) = if h = h0 then anyFault ys h0 else false := by
  by_cases hh : h = h0
  · subst hh
    simp [startFault, mkEv, anyFault, List.any_map, Function.comp_def]
  · have : (h == h0) = false := by simpa using hh
    simp [startFault, mkEv, hh, this]

theorem any_be_map_other (ys : List ExtBehaviour) (h : Hook) (k : Nat) (o : Out)
    (h1 : h ≠ .resolver) (h2 : h ≠ .resStart) (h3 : h ≠ .resEnd) :
    (ys.map (fun b => mkEv b h k o)).any bodyErrEv = false := by
  simp [List.any_eq_false, bodyErrEv, mkEv, h1, h2, h3]

theorem any_be_resStart (xs : List ExtBehaviour) (k : Nat) (o : Out) :
    (xs.map (fun b => mkEv b .resStart k o)).any bodyErrEv = anyFault xs .resStart := by
  have : (Hook.resStart == Hook.resolver) = false := by decide
  simp [List.any_map, bodyErrEv, mkEv, anyFault, Function.comp_def, this]

theorem any_be_resEnd (xs : List ExtBehaviour) (k : Nat) (o : Out) :
    (xs.map (fun b => mkEv b .resEnd k o)).any bodyErrEv = anyFault xs .resEnd := by
  have : (Hook.resEnd == Hook.resolver) = false := by decide
  simp [List.any_map, bodyErrEv, mkEv, anyFault, Function.comp_def, this]

theorem resEvs_hook (b : ExtBehaviour) (e : Ev) (he : e ∈ resEvs b) : e.hook = .hasResult ∨ e.hook = .getResult := by
  simp only [resEvs] at he
  split at he
  · simp only [List.mem_singleton] at he; subst he; simp [mkEv]
  · split at he
    · simp only [List.mem_cons, List.not_mem_nil, or_false] at he; rcases he with rfl | rfl <;> simp [mkEv]
    · simp only [List.mem_singleton] at he; subst he; simp [mkEv]

theorem any_resEvs (Q : Ev → Bool) (hQ : ∀ e, e.hook = .hasResult ∨ e.hook = .getResult → Q e = false)
    (xs : List ExtBehaviour) : (xs.flatMap resEvs).any Q = false := by
  simp only [List.any_eq_false, List.mem_flatMap]
  rintro e ⟨b, _, he⟩
  simpa using hQ e (resEvs_hook b e he)

theorem be_results (e : Ev) (h : e.hook = .hasResult ∨ e.hook = .getResult) : bodyErrEv e = false := by
  rcases h with h | h <;> simp [bodyErrEv, h]

theorem sf_results (h0 : Hook) (h1 : h0 ≠ .hasResult) (h2 : h0 ≠ .getResult) (e : Ev)
    (h : e.hook = .hasResult ∨ e.hook = .getResult) : startFault h0 e = false := by
  have a1 : (Hook.hasResult == h0) = false := by simpa using h1.symm
  have a2 : (Hook.getResult == h0) = false := by simpa using h2.symm
  rcases h with h | h <;> simp [startFault, h, a1, a2]

/-- the execution body only logs resolve hooks and resolver calls -/
theorem executeFields_hooks (xs : List ExtBehaviour) (k : Nat) (fs : List FieldOutcome) :
    ∀ e ∈ (executeFields xs k fs).1, e.hook = .resStart ∨ e.hook = .resEnd ∨ e.hook = .resolver := by
  induction fs generalizing k with
  | nil => intro e he; cases he
  | cons fo rest ih =>
    have hf : ∀ e ∈ (resolvePlannedField xs k fo).1, e.hook = .resStart ∨ e.hook = .resEnd ∨ e.hook = .resolver := by
      intro e he
      simp only [resolvePlannedField, didStart_evs, finish_evs, List.mem_append, List.mem_map, List.mem_singleton] at he
      rcases he with (⟨b, _, rfl⟩ | rfl) | ⟨b, _, rfl⟩ <;> simp [mkEv, resolverEv]
    intro e he
    simp only [executeFields] at he
    split at he
    · exact hf e he
    · rcases List.mem_append.1 he with he | he
      · exact hf e he
      · exact ih _ e he

theorem any_sf_body (xs : List ExtBehaviour) (req : RequestOutcomeClass) (h0 : Hook)
    (h1 : h0 ≠ .resStart) (h2 : h0 ≠ .resEnd) (h3 : h0 ≠ .resolver) :
    (execBody xs req).1.any (startFault h0) = false := by
  cases req <;> simp only [execBody, List.any_nil]
  rw [List.any_eq_false]
  intro e he
  have a1 : (Hook.resStart == h0) = false := by simpa using h1.symm
  have a2 : (Hook.resEnd == h0) = false := by simpa using h2.symm
  have a3 : (Hook.resolver == h0) = false := by simpa using h3.symm
  rcases executeFields_hooks xs 0 _ e he with h | h | h <;> simp [startFault, h, a1, a2, a3]

theorem any_be_resolvePlannedField (xs : List ExtBehaviour) (k : Nat) (fo : FieldOutcome) :
    (resolvePlannedField xs k fo).1.any bodyErrEv = !(resolvePlannedField xs k fo).2.isEmpty := by
  simp only [resolvePlannedField, List.any_append, didStart_evs, any_be_resStart, isEmpty_append',
    didStart_errs_nil, finish_evs, any_be_resEnd, finish_errs_nil]
  have : (Out.ok == Out.err) = false := by decide
  have r1 : (Hook.resolver == Hook.resStart) = false := by decide
  have r2 : (Hook.resolver == Hook.resEnd) = false := by decide
  by_cases hf : fo.failed <;> simp [hf, bodyErrEv, resolverEv, Bool.not_and, this, r1, r2]

theorem any_be_executeFields (xs : List ExtBehaviour) (k : Nat) (fs : List FieldOutcome) :
    (executeFields xs k fs).1.any bodyErrEv = !(executeFields xs k fs).2.1.isEmpty := by
  induction fs generalizing k with
  | nil => rfl
  | cons fo rest ih =>
    simp only [executeFields]
    by_cases hf : fo.fatal
    · simp [hf, any_be_resolvePlannedField]
    · simp [hf, any_be_resolvePlannedField, ih, isEmpty_append', Bool.not_and]

theorem bodyOut_eq (xs : List ExtBehaviour) (req : RequestOutcomeClass) :
    bodyOut xs req = if req = .variableErr || (execBody xs req).1.any bodyErrEv then .err else .ok := by
  cases req with
  | exec fs =>
    simp only [bodyOut, bodyOutB, execBody, any_be_executeFields]
    by_cases h : (executeFields xs 0 fs).2.1.isEmpty = true <;> simp [h]
  | _ => simp [bodyOut, bodyOutB, execBody]


/-! ## The ten ways a run can end, globally -/

/-- one call of hook `h` per registered extension -/
def grp (xs : List ExtBehaviour) (h : Hook) (o : Out) : Trace := xs.map (fun b => mkEv b h 0 o)
/-- the finish functions of the extensions whose start hook `hs` returned -/
def grpF (xs : List ExtBehaviour) (hs he : Hook) (o : Out) : Trace :=
  (xs.filter (fun b => b.beh hs == .ok)).map (fun b => mkEv b he 0 o)

/-- closed form of the log of `runB` (distinct names): the groups of hook calls, in order, with the executor's
log `ev` and the outcome `out` handed to the execution-finish functions -/
def script (xs : List ExtBehaviour) (req : RequestOutcomeClass) (ev : Trace) (out : Out) : Trace :=
  grp xs .init .none ++
  (if anyFault xs .init then [] else
   grp xs .parseStart .none ++
   (if anyFault xs .parseStart then grpF xs .parseStart .parseEnd .err else
    if req = .syntaxErr then grp xs .parseEnd .err else
    grp xs .parseEnd .ok ++
    (if anyFault xs .parseEnd then [] else
     grp xs .valStart .none ++
     (if anyFault xs .valStart then grpF xs .valStart .valEnd .err else
      if req = .validationErr then grp xs .valEnd .err else
      grp xs .valEnd .ok ++
      (if anyFault xs .valEnd then [] else
       if req = .operationErr then [] else
       grp xs .execStart .none ++
       (if anyFault xs .execStart then grpF xs .execStart .execEnd .err else
        ev ++ grp xs .execEnd out ++ xs.flatMap resEvs))))))

theorem runB_trace (xs : List ExtBehaviour) (hnd : NodupNames xs) (req : RequestOutcomeClass) (body : Body) :
    (runB xs req body).1 = script xs req body.1 (bodyOutB body) := by
  simp only [runB, script, pre, early, handleInits_evs, handleInits_errs_nil, didStart_evs, didStart_errs_nil,
    finish_evs, finish_errs_nil, Bool.not_not, didStart_fs _ _ _ hnd, grp, grpF]
  congr 1
  by_cases h1 : anyFault xs .init = true
  · simp [h1]
  have h1' : anyFault xs .init = false := by simpa using h1
  simp only [h1', Bool.false_eq_true, if_false]
  congr 1
  by_cases h2 : anyFault xs .parseStart = true
  · simp [h2]
  have h2' : anyFault xs .parseStart = false := by simpa using h2
  simp only [h2', Bool.false_eq_true, if_false, filter_ok_of_noFault _ _ h2']
  cases req with
  | syntaxErr => simp
  | validationErr | operationErr | variableErr | exec _ =>
    simp only [reduceCtorEq, if_false]
    congr 1
    by_cases h3 : anyFault xs .parseEnd = true
    · simp [h3]
    have h3' : anyFault xs .parseEnd = false := by simpa using h3
    simp only [h3', Bool.false_eq_true, if_false]
    congr 1
    by_cases h4 : anyFault xs .valStart = true
    · simp [h4]
    have h4' : anyFault xs .valStart = false := by simpa using h4
    simp only [h4', Bool.false_eq_true, if_false, filter_ok_of_noFault _ _ h4', reduceCtorEq, if_true]
    first
    | (simp; done)
    | (congr 1
       by_cases h5 : anyFault xs .valEnd = true
       · simp [h5]
       have h5' : anyFault xs .valEnd = false := by simpa using h5
       simp only [h5', Bool.false_eq_true, if_false, executeB, reduceCtorEq, if_true]
       first
       | done
       | (simp only [executePlanB, didStart_errs_nil, Bool.not_not, didStart_evs, finish_evs,
            didStart_fs _ _ _ hnd, addExtensionResults_evs]
          by_cases h6 : anyFault xs .execStart = true
          · simp [h6]
          have h6' : anyFault xs .execStart = false := by simpa using h6
          simp [h6', filter_ok_of_noFault _ _ h6']))

theorem trace_elim (P : Trace → Prop) (xs : List ExtBehaviour) (hnd : NodupNames xs) (req : RequestOutcomeClass)
    (l1 : anyFault xs .init = true → P (grp xs .init .none))
    (l2 : anyFault xs .init = false → anyFault xs .parseStart = true →
      P (grp xs .init .none ++ (grp xs .parseStart .none ++ grpF xs .parseStart .parseEnd .err)))
    (l3 : anyFault xs .init = false → anyFault xs .parseStart = false → req = .syntaxErr →
      P (grp xs .init .none ++ (grp xs .parseStart .none ++ grp xs .parseEnd .err)))
    (l4 : anyFault xs .init = false → anyFault xs .parseStart = false → req ≠ .syntaxErr →
      anyFault xs .parseEnd = true →
      P (grp xs .init .none ++ (grp xs .parseStart .none ++ grp xs .parseEnd .ok)))
    (l5 : anyFault xs .init = false → anyFault xs .parseStart = false → req ≠ .syntaxErr →
      anyFault xs .parseEnd = false → anyFault xs .valStart = true →
      P (grp xs .init .none ++ (grp xs .parseStart .none ++ (grp xs .parseEnd .ok ++
          (grp xs .valStart .none ++ grpF xs .valStart .valEnd .err)))))
    (l6 : anyFault xs .init = false → anyFault xs .parseStart = false → req ≠ .syntaxErr →
      anyFault xs .parseEnd = false → anyFault xs .valStart = false → req = .validationErr →
      P (grp xs .init .none ++ (grp xs .parseStart .none ++ (grp xs .parseEnd .ok ++
          (grp xs .valStart .none ++ grp xs .valEnd .err)))))
    (l7 : anyFault xs .init = false → anyFault xs .parseStart = false → req ≠ .syntaxErr →
      anyFault xs .parseEnd = false → anyFault xs .valStart = false → req ≠ .validationErr →
      (anyFault xs .valEnd = true ∨ req = .operationErr) →
      P (grp xs .init .none ++ (grp xs .parseStart .none ++ (grp xs .parseEnd .ok ++
          (grp xs .valStart .none ++ grp xs .valEnd .ok)))))
    (l8 : anyFault xs .init = false → anyFault xs .parseStart = false → req ≠ .syntaxErr →
      anyFault xs .parseEnd = false → anyFault xs .valStart = false → req ≠ .validationErr →
      anyFault xs .valEnd = false → req ≠ .operationErr → anyFault xs .execStart = true →
      P (grp xs .init .none ++ (grp xs .parseStart .none ++ (grp xs .parseEnd .ok ++
          (grp xs .valStart .none ++ (grp xs .valEnd .ok ++
            (grp xs .execStart .none ++ grpF xs .execStart .execEnd .err)))))))
    (l9 : anyFault xs .init = false → anyFault xs .parseStart = false → req ≠ .syntaxErr →
      anyFault xs .parseEnd = false → anyFault xs .valStart = false → req ≠ .validationErr →
      anyFault xs .valEnd = false → req ≠ .operationErr → anyFault xs .execStart = false →
      P (grp xs .init .none ++ (grp xs .parseStart .none ++ (grp xs .parseEnd .ok ++
          (grp xs .valStart .none ++ (grp xs .valEnd .ok ++
            (grp xs .execStart .none ++ (execBody xs req).1 ++ grp xs .execEnd (bodyOut xs req)
              ++ xs.flatMap resEvs))))))) :
    P (run xs req).1 := by
  have hrun : (run xs req).1 = script xs req (execBody xs req).1 (bodyOut xs req) := runB_trace xs hnd req _
  rw [hrun]
  simp only [script]
  cases h1 : anyFault xs .init
  case true => simpa using l1 h1
  cases h2 : anyFault xs .parseStart
  case true => simpa using l2 h1 h2
  by_cases hr1 : req = .syntaxErr
  · simpa [hr1] using l3 h1 h2 hr1
  cases h3 : anyFault xs .parseEnd
  case true => simpa [hr1] using l4 h1 h2 hr1 h3
  cases h4 : anyFault xs .valStart
  case true => simpa [hr1] using l5 h1 h2 hr1 h3 h4
  by_cases hr2 : req = .validationErr
  · simpa [hr1, hr2] using l6 h1 h2 hr1 h3 h4 hr2
  cases h5 : anyFault xs .valEnd
  case true => simpa [hr1, hr2] using l7 h1 h2 hr1 h3 h4 hr2 (Or.inl h5)
  by_cases hr3 : req = .operationErr
  · simpa [hr1, hr2, hr3] using l7 h1 h2 hr1 h3 h4 hr2 (Or.inr hr3)
  cases h6 : anyFault xs .execStart
  case true => simpa [hr1, hr2, hr3] using l8 h1 h2 hr1 h3 h4 hr2 h5 hr3 h6
  simpa [hr1, hr2, hr3] using l9 h1 h2 hr1 h3 h4 hr2 h5 hr3 h6


/-! ## Which hooks panicked somewhere in the log, in terms of the configuration -/

theorem any_sf_grp (xs : List ExtBehaviour) (h : Hook) (o : Out) (h0 : Hook) :
    (grp xs h o).any (startFault h0) = if h = h0 then anyFault xs h0 else false := any_sf_map xs h 0 o h0

theorem any_sf_grpF (xs : List ExtBehaviour) (hs he : Hook) (o : Out) (h0 : Hook) :
    (grpF xs hs he o).any (startFault h0)
      = if he = h0 then anyFault (xs.filter (fun b => b.beh hs == .ok)) h0 else false :=
  any_sf_map _ he 0 o h0

theorem any_be_grp (xs : List ExtBehaviour) (h : Hook) (o : Out)
    (h1 : h ≠ .resolver) (h2 : h ≠ .resStart) (h3 : h ≠ .resEnd) : (grp xs h o).any bodyErrEv = false :=
  any_be_map_other xs h 0 o h1 h2 h3

theorem any_be_grpF (xs : List ExtBehaviour) (hs he : Hook) (o : Out)
    (h1 : he ≠ .resolver) (h2 : he ≠ .resStart) (h3 : he ≠ .resEnd) : (grpF xs hs he o).any bodyErrEv = false :=
  any_be_map_other _ he 0 o h1 h2 h3

/-- a parse-start hook panicked somewhere in the log iff parse start was reached and some extension's hook panics -/
theorem any_sf_parse (xs : List ExtBehaviour) (hnd : NodupNames xs) (req : RequestOutcomeClass) :
    (run xs req).1.any (startFault .parseStart) = (reachesParse xs && anyFault xs .parseStart) := by
  have R := any_resEvs (startFault .parseStart) (sf_results _ (by simp) (by simp)) xs
  have B := any_sf_body xs req .parseStart (by simp) (by simp) (by simp)
  apply trace_elim (fun t => t.any (startFault .parseStart) = (reachesParse xs && anyFault xs .parseStart)) xs hnd req
  all_goals intros
  all_goals simp only [List.any_append, any_sf_grp, any_sf_grpF, R, B, reduceCtorEq, if_false, if_true, Bool.or_false, Bool.false_or]
  all_goals first | (simp [*, reachesParse]; done) | (rename_i h7; rcases h7 with h7 | h7 <;> simp [*, reachesParse])

theorem any_sf_val (xs : List ExtBehaviour) (hnd : NodupNames xs) (req : RequestOutcomeClass) :
    (run xs req).1.any (startFault .valStart) = (reachesVal xs req && anyFault xs .valStart) := by
  have R := any_resEvs (startFault .valStart) (sf_results _ (by simp) (by simp)) xs
  have B := any_sf_body xs req .valStart (by simp) (by simp) (by simp)
  apply trace_elim (fun t => t.any (startFault .valStart) = (reachesVal xs req && anyFault xs .valStart)) xs hnd req
  all_goals intros
  all_goals simp only [List.any_append, any_sf_grp, any_sf_grpF, R, B, reduceCtorEq, if_false, if_true, Bool.or_false, Bool.false_or]
  all_goals first | (simp [*, reachesVal, reachesParse]; done) | (rename_i h7; rcases h7 with h7 | h7 <;> simp [*, reachesVal, reachesParse])

theorem any_sf_exec (xs : List ExtBehaviour) (hnd : NodupNames xs) (req : RequestOutcomeClass) :
    (run xs req).1.any (startFault .execStart) = (reachesExec xs req && anyFault xs .execStart) := by
  have R := any_resEvs (startFault .execStart) (sf_results _ (by simp) (by simp)) xs
  have B := any_sf_body xs req .execStart (by simp) (by simp) (by simp)
  apply trace_elim (fun t => t.any (startFault .execStart) = (reachesExec xs req && anyFault xs .execStart)) xs hnd req
  all_goals intros
  all_goals simp only [List.any_append, any_sf_grp, any_sf_grpF, R, B, reduceCtorEq, if_false, if_true, Bool.or_false, Bool.false_or]
  all_goals first | (simp [*, reachesExec, reachesVal, reachesParse]; done) | (rename_i h7; rcases h7 with h7 | h7 <;> simp [*, reachesExec, reachesVal, reachesParse])

theorem any_be_run (xs : List ExtBehaviour) (hnd : NodupNames xs) (req : RequestOutcomeClass) :
    (run xs req).1.any bodyErrEv = (reachesBody xs req && (execBody xs req).1.any bodyErrEv) := by
  have R := any_resEvs bodyErrEv be_results xs
  have G := fun h o (h1 : h ≠ Hook.resolver) (h2 : h ≠ Hook.resStart) (h3 : h ≠ Hook.resEnd) => any_be_grp xs h o h1 h2 h3
  have GF := fun hs he o (h1 : he ≠ Hook.resolver) (h2 : he ≠ Hook.resStart) (h3 : he ≠ Hook.resEnd) => any_be_grpF xs hs he o h1 h2 h3
  apply trace_elim (fun t => t.any bodyErrEv = (reachesBody xs req && (execBody xs req).1.any bodyErrEv)) xs hnd req
  all_goals intros
  all_goals simp only [List.any_append, R, Bool.or_false, Bool.false_or,
    G .init _ (by simp) (by simp) (by simp), G .parseStart _ (by simp) (by simp) (by simp),
    G .parseEnd _ (by simp) (by simp) (by simp), G .valStart _ (by simp) (by simp) (by simp),
    G .valEnd _ (by simp) (by simp) (by simp), G .execStart _ (by simp) (by simp) (by simp),
    G .execEnd _ (by simp) (by simp) (by simp),
    GF _ .parseEnd _ (by simp) (by simp) (by simp), GF _ .valEnd _ (by simp) (by simp) (by simp),
    GF _ .execEnd _ (by simp) (by simp) (by simp)]
  all_goals first | (simp [*, reachesBody, reachesExec, reachesVal, reachesParse]; done) | (rename_i h7; rcases h7 with h7 | h7 <;> simp [*, reachesBody, reachesExec, reachesVal, reachesParse])


end GqlModel.Ext
