import GqlProofs.RoundTripUtf8
import GqlModel.Printer
import GqlModel.LexerQuote
/-! # C08 byte level — the printer's character-level `quoteString` is the byte-level one on the UTF-8 encoding

`Printer.quoteC` (characters; what `print` uses) and `Lexer.quoteString` (bytes; what C03's `unquote_quote` is about)
agree through `utf8`: ASCII characters are escaped identically (128 cases, by evaluation), and every byte of a
non-ASCII character is ≥ 0x80 and copied unchanged by either. -/
namespace GqlModel.RoundTrip
open GqlModel GqlModel.Lexer GqlModel.Printer

theorem esc_ascii_table : ∀ n : Fin 128, utf8 (escC (Char.ofNat n.val)) = quoteByte (UInt8.ofNat n.val) := by
  decide +kernel

theorem quoteByte_high (b : UInt8) (h : 128 ≤ b.toNat) : quoteByte b = [b] := by
  unfold quoteByte
  rw [if_neg (by bnorm; omega), if_neg (by bnorm; omega), if_neg (by bnorm; omega), if_neg (by bnorm; omega),
    if_neg (by bnorm; omega), if_neg (by bnorm; omega), if_neg (by bnorm; omega), if_neg (by bnorm; omega)]

theorem quoteBody_high : ∀ bs : Bytes, (∀ b ∈ bs, 128 ≤ b.toNat) → quoteBody bs = bs
  | [], _ => rfl
  | b :: bs, h => by
    simp only [quoteBody, quoteByte_high b (h b (by simp)), quoteBody_high bs (fun x hx => h x (by simp [hx]))]
    rfl

theorem quoteBody_append (a b : Bytes) : quoteBody (a ++ b) = quoteBody a ++ quoteBody b := by
  induction a with
  | nil => rfl
  | cons x xs ih => simp [quoteBody, ih]

theorem escC_high (c : Char) (h : 128 ≤ c.toNat) : escC c = [c] := by
  have hne : ∀ k : Nat, k < 128 → c ≠ Char.ofNat k := by
    intro k hk he
    rw [he] at h
    have t : ∀ k : Fin 128, (Char.ofNat k.val).toNat = k.val := by decide +kernel
    have := t ⟨k, hk⟩
    simp only at this
    omega
  unfold escC
  rw [if_neg (hne 34 (by omega)), if_neg (hne 92 (by omega)), if_neg (by omega), if_neg (by omega),
    if_neg (hne 10 (by omega)), if_neg (hne 13 (by omega)), if_neg (hne 9 (by omega)), if_neg (by omega)]

/-- one character -/
theorem utf8_escC (c : Char) : utf8 (escC c) = quoteBody (String.utf8EncodeChar c) := by
  by_cases h : c.toNat < 128
  · have := esc_ascii_table ⟨c.toNat, h⟩
    simp only [Char.ofNat_toNat] at this
    rw [this, enc_ascii c h]
    simp [quoteBody]
  · have h' : 128 ≤ c.toNat := by omega
    rw [escC_high c h', quoteBody_high _ (enc_high c h')]
    simp

theorem utf8_quoteBodyC : ∀ cs : Chars, utf8 (quoteBodyC cs) = quoteBody (utf8 cs)
  | [] => rfl
  | c :: cs => by
    simp only [quoteBodyC, utf8_append, utf8_cons, quoteBody_append, utf8_escC, utf8_quoteBodyC cs]

/-- **the bridge for string tokens**: the printed form of a string value, as bytes, is the byte-level `quoteString` of the
UTF-8 encoding of the value -/
theorem utf8_quoteC (cs : Chars) : utf8 (quoteC cs) = Lexer.quoteString (utf8 cs) := by
  have e : String.utf8EncodeChar '"' = [34] := by decide
  simp only [quoteC, utf8_cons, utf8_append, utf8_nil, utf8_quoteBodyC, Lexer.quoteString, e]
  simp

/-- the printed form of a string contains no newline (so `indent` leaves it alone) -/
theorem escC_no_nl (c : Char) : '\n' ∉ escC c := by
  by_cases h : c.toNat < 128
  · have : ∀ n : Fin 128, '\n' ∉ escC (Char.ofNat n.val) := by decide +kernel
    have := this ⟨c.toNat, h⟩
    simpa only [Char.ofNat_toNat] using this
  · rw [escC_high c (by omega)]
    intro hm
    simp only [List.mem_cons, List.mem_nil_iff, or_false] at hm
    rw [← hm] at h
    exact h (by decide)

theorem quoteC_no_nl (cs : Chars) : '\n' ∉ quoteC cs := by
  have hb : ∀ cs : Chars, '\n' ∉ quoteBodyC cs := by
    intro cs
    induction cs with
    | nil => simp [quoteBodyC]
    | cons c cs ih => simp only [quoteBodyC, List.mem_append, not_or]; exact ⟨escC_no_nl c, ih⟩
  have h1 : ('\n' : Char) ≠ '"' := by decide
  simp only [quoteC, List.mem_cons, List.mem_append, List.mem_nil_iff, or_false, not_or]
  exact ⟨⟨h1, hb cs⟩, h1⟩

end GqlModel.RoundTrip
