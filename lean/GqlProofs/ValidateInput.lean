import GqlProofs.Validate
/-! # UniqueInputFieldNames: the visitor with its `knownNameStack` = the recursive per-object report

`valueErrs v` is the report written by plain recursion over the value (each object literal starts from an empty
name map; nested values are reported between the fields, in visitor order). `fold_value` shows that the fold of
`uifStep` over the event stream — push on ObjectValue enter, pop on leave — computes exactly that and restores the
stack and the current map: the stack discipline is right. `mem_valueErrs` relates the report to the declarative
reading "every object literal at any depth". -/
namespace GqlModel.Validate

def uifRule : String := "UniqueInputFieldNames"

/-- the name map after one more field name -/
def knownPlus (known : NameMap) (nm : Name) : NameMap :=
  match known.get? nm.value with
  | some _ => known
  | none => known ++ [nm]

def fieldErr (known : NameMap) (nm : Name) : List VErr :=
  match known.get? nm.value with
  | some f => [⟨uifRule, [f.loc, nm.loc]⟩]
  | none => []

mutual
def valueErrs : Value → List VErr
  | .obj fs _ => fieldsErrs [] fs
  | .list vs _ => listErrs vs
  | _ => []
def listErrs : List Value → List VErr
  | [] => []
  | v :: vs => valueErrs v ++ listErrs vs
def fieldsErrs (known : NameMap) : List ObjField → List VErr
  | [] => []
  | .mk nm v _ :: fs => fieldErr known nm ++ valueErrs v ++ fieldsErrs (knownPlus known nm) fs
end

def knownAfter (known : NameMap) : List ObjField → NameMap
  | [] => known
  | .mk nm _ _ :: fs => knownAfter (knownPlus known nm) fs

theorem uifStep_objField (st : UifState) (nm : Name) :
    uifStep st (.objField nm) = ⟨st.knownNameStack, knownPlus st.knownNames nm, st.errs ++ fieldErr st.knownNames nm⟩ := by
  simp only [uifStep, uniqStep, knownPlus, fieldErr]
  cases h : NameMap.get? st.knownNames nm.value <;> simp [uifRule]

mutual
theorem fold_value (v : Value) (st : UifState) :
    (inputEvents v).foldl uifStep st = ⟨st.knownNameStack, st.knownNames, st.errs ++ valueErrs v⟩ := by
  match v with
  | .obj fs lc =>
    unfold inputEvents valueErrs
    simp only [List.foldl_cons, List.foldl_append, List.foldl_nil]
    rw [fold_fields fs]
    simp [uifStep]
  | .list vs lc =>
    unfold inputEvents valueErrs
    exact fold_list vs st
  | .var _ _ => simp [inputEvents, valueErrs]
  | .int _ _ => simp [inputEvents, valueErrs]
  | .float _ _ => simp [inputEvents, valueErrs]
  | .str _ _ => simp [inputEvents, valueErrs]
  | .bool _ _ => simp [inputEvents, valueErrs]
  | .enum _ _ => simp [inputEvents, valueErrs]
theorem fold_list (vs : List Value) (st : UifState) :
    (inputEventsList vs).foldl uifStep st = ⟨st.knownNameStack, st.knownNames, st.errs ++ listErrs vs⟩ := by
  match vs with
  | [] => simp [inputEventsList, listErrs]
  | v :: rest =>
    unfold inputEventsList listErrs
    rw [List.foldl_append, fold_value v, fold_list rest]
    simp [List.append_assoc]
theorem fold_fields (fs : List ObjField) (st : UifState) :
    (inputEventsFields fs).foldl uifStep st
      = ⟨st.knownNameStack, knownAfter st.knownNames fs, st.errs ++ fieldsErrs st.knownNames fs⟩ := by
  match fs with
  | [] => simp [inputEventsFields, fieldsErrs, knownAfter]
  | .mk nm v lc :: rest =>
    unfold inputEventsFields fieldsErrs knownAfter
    rw [List.foldl_cons, List.foldl_append, uifStep_objField, fold_value v, fold_fields rest]
    simp [List.append_assoc]
end

theorem fold_values (vs : List Value) (st : UifState) :
    ((vs.flatMap inputEvents).foldl uifStep st) = ⟨st.knownNameStack, st.knownNames, st.errs ++ vs.flatMap valueErrs⟩ := by
  induction vs generalizing st with
  | nil => simp
  | cons v rest ih =>
    simp only [List.flatMap_cons, List.foldl_append]
    rw [fold_value, ih]
    simp [List.append_assoc]

theorem uniqueInputFieldNames_M_eq_rec (s : Schema) (d : Document) :
    uniqueInputFieldNames_M s d = (topValues s d).flatMap valueErrs := by
  unfold uniqueInputFieldNames_M
  rw [fold_values]
  simp

/-! ## declarative reading -/

theorem fieldErr_knownPlus (known : NameMap) (nm : Name) (names : List Name) :
    dupErrsFrom uifRule known (nm :: names) = fieldErr known nm ++ dupErrsFrom uifRule (knownPlus known nm) names := by
  unfold fieldErr knownPlus NameMap.get?
  rw [dupErrsFrom]
  cases h : List.find? (fun y => y.value == nm.value) known <;> simp

mutual
theorem mem_valueErrs (e : VErr) (v : Value) :
    e ∈ valueErrs v ↔ ∃ fs ∈ objectsDeep v, e ∈ dupErrs uifRule (fs.map (·.name)) := by
  match v with
  | .obj fs lc =>
    unfold valueErrs objectsDeep
    rw [mem_fieldsErrs e [] fs]
    simp [dupErrs]
  | .list vs lc =>
    unfold valueErrs objectsDeep
    exact mem_listErrs e vs
  | .var _ _ => simp [valueErrs, objectsDeep]
  | .int _ _ => simp [valueErrs, objectsDeep]
  | .float _ _ => simp [valueErrs, objectsDeep]
  | .str _ _ => simp [valueErrs, objectsDeep]
  | .bool _ _ => simp [valueErrs, objectsDeep]
  | .enum _ _ => simp [valueErrs, objectsDeep]
theorem mem_listErrs (e : VErr) (vs : List Value) :
    e ∈ listErrs vs ↔ ∃ fs ∈ objectsDeepList vs, e ∈ dupErrs uifRule (fs.map (·.name)) := by
  match vs with
  | [] => simp [listErrs, objectsDeepList]
  | v :: rest =>
    unfold listErrs objectsDeepList
    rw [List.mem_append, mem_valueErrs e v, mem_listErrs e rest]
    simp only [List.mem_append]
    constructor
    · rintro (⟨fs, h1, h2⟩ | ⟨fs, h1, h2⟩)
      · exact ⟨fs, Or.inl h1, h2⟩
      · exact ⟨fs, Or.inr h1, h2⟩
    · rintro ⟨fs, h1 | h1, h2⟩
      · exact Or.inl ⟨fs, h1, h2⟩
      · exact Or.inr ⟨fs, h1, h2⟩
theorem mem_fieldsErrs (e : VErr) (known : NameMap) (fs : List ObjField) :
    e ∈ fieldsErrs known fs ↔
      e ∈ dupErrsFrom uifRule known (fs.map (·.name)) ∨ ∃ gs ∈ objectsDeepFields fs, e ∈ dupErrs uifRule (gs.map (·.name)) := by
  match fs with
  | [] => simp [fieldsErrs, objectsDeepFields, dupErrsFrom]
  | .mk nm v lc :: rest =>
    unfold fieldsErrs objectsDeepFields
    simp only [List.map_cons, ObjField.name]
    rw [fieldErr_knownPlus, List.mem_append, List.mem_append, List.mem_append, mem_valueErrs e v,
      mem_fieldsErrs e (knownPlus known nm) rest]
    simp only [List.mem_append]
    constructor
    · rintro ((h | ⟨gs, h1, h2⟩) | (h | ⟨gs, h1, h2⟩))
      · exact Or.inl (Or.inl h)
      · exact Or.inr ⟨gs, Or.inl h1, h2⟩
      · exact Or.inl (Or.inr h)
      · exact Or.inr ⟨gs, Or.inr h1, h2⟩
    · rintro ((h | h) | ⟨gs, h1 | h1, h2⟩)
      · exact Or.inl (Or.inl h)
      · exact Or.inr (Or.inl h)
      · exact Or.inl (Or.inr ⟨gs, h1, h2⟩)
      · exact Or.inr (Or.inr ⟨gs, h1, h2⟩)
end

theorem uniqueInputFieldNames_M_mem (s : Schema) (d : Document) (e : VErr) :
    e ∈ uniqueInputFieldNames_M s d ↔
      ∃ fs ∈ (topValues s d).flatMap objectsDeep, e ∈ dupErrs uifRule (fs.map (·.name)) := by
  rw [uniqueInputFieldNames_M_eq_rec]
  simp only [List.mem_flatMap, mem_valueErrs]
  constructor
  · rintro ⟨v, hv, fs, hfs, he⟩; exact ⟨fs, ⟨v, hv, hfs⟩, he⟩
  · rintro ⟨fs, ⟨v, hv, hfs⟩, he⟩; exact ⟨v, hv, fs, hfs, he⟩

theorem uniqueInputFieldNames_M_mem_iff_S (s : Schema) (d : Document) (e : VErr) :
    e ∈ uniqueInputFieldNames_M s d ↔ e ∈ uniqueInputFieldNames_S s d := by
  rw [uniqueInputFieldNames_M_mem]
  unfold uniqueInputFieldNames_S
  simp only [List.mem_flatMap]
  rfl

theorem uniqueInputFieldNames_M_nil_iff (s : Schema) (d : Document) :
    uniqueInputFieldNames_M s d = [] ↔
      ∀ fs ∈ (topValues s d).flatMap objectsDeep, (fs.map (·.name.value)).Nodup := by
  rw [List.eq_nil_iff_forall_not_mem]
  simp only [uniqueInputFieldNames_M_mem, not_exists, not_and]
  constructor
  · intro h fs hfs
    have : dupErrs uifRule (fs.map (·.name)) = [] := by
      rw [List.eq_nil_iff_forall_not_mem]; intro e he; exact h e fs hfs he
    have := (dupErrs_eq_nil _ _).1 this
    rw [List.map_map] at this
    exact this
  · intro h e fs hfs he
    have hn := h fs hfs
    have : dupErrs uifRule (fs.map (·.name)) = [] := by
      rw [dupErrs_eq_nil, List.map_map]; exact hn
    rw [this] at he
    simp at he

theorem uniqueInputFieldNames_M_sound (s : Schema) (d : Document) (e : VErr) (h : e ∈ uniqueInputFieldNames_M s d) :
    ∃ fs ∈ (topValues s d).flatMap objectsDeep, ∃ pre x post f,
      fs.map (·.name) = pre ++ x :: post ∧ f ∈ pre ∧ f.value = x.value ∧ e = ⟨"UniqueInputFieldNames", [f.loc, x.loc]⟩ := by
  obtain ⟨fs, hfs, he⟩ := (uniqueInputFieldNames_M_mem s d e).1 h
  exact ⟨fs, hfs, dupErrs_sound _ _ e he⟩

end GqlModel.Validate
