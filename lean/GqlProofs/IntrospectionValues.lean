import GqlProofs.IntrospectionDefaults
import GqlProofs.Introspection
/-! # Helper lemmas for C10's `default_roundtrip`, part 2: values

`coerceLit t (astFromValue t v) = v` for every conformant `v` (mutual induction over the value): leaves by case analysis
over the named type (numbers through the rendering lemmas of part 1, enums through the uniqueness of value names, custom
scalars through the conformance condition on their `parseLiteral` table), lists element-wise, input objects through
`assemble_id` (the loop over the declared fields gives back a canonical object). -/
namespace GqlModel.Introspection
open GqlModel

mutual
theorem JVal.eq_of_beq : ∀ (a b : JVal), JVal.beq a b = true → a = b
  | .null, .null, _ => rfl
  | .bool a, .bool b, h => by simp [JVal.beq] at h; rw [h]
  | .int a, .int b, h => by simp [JVal.beq] at h; rw [h]
  | .dec a e, .dec b f, h => by simp [JVal.beq] at h; rw [h.1, h.2]
  | .str a, .str b, h => by simp [JVal.beq] at h; rw [h]
  | .list a, .list b, h => by simp only [JVal.beq] at h; rw [JVal.eq_of_beqList a b h]
  | .obj a, .obj b, h => by simp only [JVal.beq] at h; rw [JVal.eq_of_beqFields a b h]
  | .null, .bool _, h | .null, .int _, h | .null, .dec _ _, h | .null, .str _, h | .null, .list _, h | .null, .obj _, h => by simp [JVal.beq] at h
  | .bool _, .null, h | .bool _, .int _, h | .bool _, .dec _ _, h | .bool _, .str _, h | .bool _, .list _, h | .bool _, .obj _, h => by simp [JVal.beq] at h
  | .int _, .null, h | .int _, .bool _, h | .int _, .dec _ _, h | .int _, .str _, h | .int _, .list _, h | .int _, .obj _, h => by simp [JVal.beq] at h
  | .dec _ _, .null, h | .dec _ _, .bool _, h | .dec _ _, .int _, h | .dec _ _, .str _, h | .dec _ _, .list _, h | .dec _ _, .obj _, h => by simp [JVal.beq] at h
  | .str _, .null, h | .str _, .bool _, h | .str _, .int _, h | .str _, .dec _ _, h | .str _, .list _, h | .str _, .obj _, h => by simp [JVal.beq] at h
  | .list _, .null, h | .list _, .bool _, h | .list _, .int _, h | .list _, .dec _ _, h | .list _, .str _, h | .list _, .obj _, h => by simp [JVal.beq] at h
  | .obj _, .null, h | .obj _, .bool _, h | .obj _, .int _, h | .obj _, .dec _ _, h | .obj _, .str _, h | .obj _, .list _, h => by simp [JVal.beq] at h
theorem JVal.eq_of_beqList : ∀ (a b : List JVal), JVal.beqList a b = true → a = b
  | [], [], _ => rfl
  | x :: xs, y :: ys, h => by
    simp only [JVal.beqList, Bool.and_eq_true] at h
    rw [JVal.eq_of_beq x y h.1, JVal.eq_of_beqList xs ys h.2]
  | [], _ :: _, h => by simp [JVal.beqList] at h
  | _ :: _, [], h => by simp [JVal.beqList] at h
theorem JVal.eq_of_beqFields : ∀ (a b : List (String × JVal)), JVal.beqFields a b = true → a = b
  | [], [], _ => rfl
  | (k, x) :: xs, (l, y) :: ys, h => by
    simp only [JVal.beqFields, Bool.and_eq_true, beq_iff_eq] at h
    rw [h.1.1, JVal.eq_of_beq x y h.1.2, JVal.eq_of_beqFields xs ys h.2]
  | [], _ :: _, h => by simp [JVal.beqFields] at h
  | _ :: _, [], h => by simp [JVal.beqFields] at h
end

theorem findType_mem_all' {all : List TypeDef} {n : String} {td : TypeDef} (h : findType all n = some td) : td ∈ all :=
  List.mem_of_find?_eq_some h

theorem JVal.eq_of_beq' {a b : JVal} (h : (a == b) = true) : a = b := JVal.eq_of_beq a b h

/-! ### leaves -/

theorem stripNN_named {t : GType} {n : String} (h : GType.stripNN t = .named n) : t.namedName = n ∧ GType.listDepth t = 0 := by
  induction t with
  | named m => simp [GType.stripNN] at h; simp [GType.namedName, GType.listDepth, h]
  | list t _ => simp [GType.stripNN] at h
  | nonNull t ih => simp only [GType.stripNN] at h; simpa [GType.namedName, GType.listDepth] using ih h

theorem stripNN_not_nonNull (t u : GType) : GType.stripNN t ≠ .nonNull u := by
  induction t with
  | named m => simp [GType.stripNN]
  | list t _ => simp [GType.stripNN]
  | nonNull t ih => simpa [GType.stripNN] using ih

theorem stripNN_list {t it : GType} (h : GType.stripNN t = .list it) : GType.listDepth t = GType.listDepth it + 1 := by
  induction t with
  | named m => simp [GType.stripNN] at h
  | list t _ => simp [GType.stripNN] at h; simp [GType.listDepth, h]
  | nonNull t ih => simp only [GType.stripNN] at h; simpa [GType.listDepth] using ih h

theorem numText_ok (cs : Chars) (hv : (parseNum cs).isSome = true) (hall : ∀ c ∈ cs, isNumChar c = true)
    (hhead : numHead cs = true) :
    litOK (.num (String.ofList cs)) = true := by
  simp only [litOK, String.toList_ofList, validNumText, hv, Bool.true_and, Bool.and_eq_true, List.all_eq_true]
  exact ⟨hall, hhead⟩

theorem digit_isNumChar {c : Char} (h : isDigit c = true) : isNumChar c = true := by simp [isNumChar, h]

theorem natChars_head (n : Nat) : ∃ c cs, natChars n = c :: cs ∧ isDigit c = true := by
  obtain ⟨hne, hall, _⟩ := natChars_spec n
  obtain ⟨c, cs, h⟩ := List.exists_cons_of_ne_nil hne
  exact ⟨c, cs, h, hall c (by simp [h])⟩

theorem intChars_ok (i : Int) (suffix : Chars) (hs : ∀ c ∈ suffix, isNumChar c = true)
    (hv : (parseNum (intChars i ++ suffix)).isSome = true) : litOK (.num (String.ofList (intChars i ++ suffix))) = true := by
  obtain ⟨hne, hall, _⟩ := natChars_spec i.natAbs
  obtain ⟨c, cs, hc, hd⟩ := natChars_head i.natAbs
  apply numText_ok _ hv
  · intro x hx
    rcases List.mem_append.mp hx with h | h
    · rw [intChars_eq] at h
      rcases List.mem_append.mp h with h | h
      · by_cases hi : i < 0
        · simp [hi] at h; subst h; decide
        · simp [hi] at h
      · exact digit_isNumChar (hall x h)
    · exact hs x h
  · rw [intChars_eq, hc]
    by_cases hi : i < 0
    · simp [hi, numHead]
    · simp [hi, hd, numHead]

theorem decChars_ok (m : Int) (e : Nat) (he : e > 0) : litOK (.num (String.ofList (decChars m e))) = true := by
  obtain ⟨ip, fs, heq, hne, hall, hlen, hfall, hval⟩ := decChars_eq m e
  have hv : (parseNum (decChars m e)).isSome = true := by rw [parseNum_decChars m e he]; rfl
  apply numText_ok _ hv
  · rw [heq]
    intro x hx
    simp only [List.mem_append, List.mem_cons] at hx
    rcases hx with (h | h) | h | h
    · by_cases hi : m < 0
      · simp [hi] at h; subst h; decide
      · simp [hi] at h
    · exact digit_isNumChar (hall x h)
    · subst h; decide
    · exact digit_isNumChar (hfall x h)
  · rw [heq]
    obtain ⟨c, cs, hc⟩ := List.exists_cons_of_ne_nil hne
    by_cases hi : m < 0
    · simp [hi, numHead]
    · simp [hi, hc, hall c (by simp [hc]), numHead]

theorem find_by_name_of_nodup (vals : List EnumValueS) (ev : EnumValueS) (hn : (vals.map (·.name)).Nodup) (hm : ev ∈ vals) :
    vals.find? (fun e => e.name == ev.name) = some ev := by
  induction vals with
  | nil => simp at hm
  | cons a vals ih =>
    simp only [List.map_cons, List.nodup_cons] at hn
    rcases List.mem_cons.mp hm with rfl | hm'
    · simp
    · have hne : a.name ≠ ev.name := fun h => hn.1 (h ▸ List.mem_map.mpr ⟨ev, hm', rfl⟩)
      rw [List.find?_cons_of_neg (by simpa using hne)]
      exact ih hn.2 hm'

def leafLit : Lit → Bool
  | .list _ => false
  | .obj _ => false
  | _ => true

theorem astLeaf_leafLit (all : List TypeDef) (n : String) (v : JVal) : leafLit (astLeaf all n v) = true := by
  unfold astLeaf
  cases v with
  | int i => by_cases h : isFloatName all n = true <;> simp [h, leafLit]
  | str x => by_cases h : isEnumName all n = true <;> simp [h, leafLit]
  | _ => simp [leafLit]

theorem astNamed_leafLit {all : List TypeDef} {n : String} {v : JVal} {l : Lit} (h : astNamed all n v = some l) :
    leafLit l = true := by
  unfold astNamed at h
  split at h
  · rename_i vals _ _
    rcases hx : enumNameOf vals v with _ | x
    · simp [hx] at h
    · simp [hx] at h; subst h; rfl
  · simp at h
  · simp at h; subst h; exact astLeaf_leafLit all n v

theorem leaf_roundtrip (all : List TypeDef) (hwf : wfInputTypes all = true) (n : String) (v : JVal)
    (hc : conformsLeaf all n v = true) :
    ∃ l, astNamed all n v = some l ∧ litOK l = true ∧ coerceNamed all n l = v := by
  unfold conformsLeaf at hc
  unfold astNamed coerceNamed
  rcases hf : findType all n with _ | td
  · simp [hf] at hc
  · simp only [hf] at hc ⊢
    have hwtd : wfInputType td = true := List.all_eq_true.mp hwf td (findType_mem_all' hf)
    cases td with
    | scalar sn k d =>
      cases k with
      | int =>
        cases v with
        | int i =>
          simp only [decide_eq_true_eq] at hc
          refine ⟨_, rfl, ?_, ?_⟩
          · simp only [astLeaf, isFloatName, hf]
            have := intChars_ok i [] (by simp) (by rw [List.append_nil, parseNum_intChars]; rfl)
            simpa using this
          · simp only [astLeaf, isFloatName, hf, coerceLeaf, Bool.false_eq_true, ↓reduceIte, String.toList_ofList]
            rw [parseNum_intChars]
            have : ¬ (i < -2147483648 ∨ i > 2147483647) := by omega
            simp only [signed_natAbs]
            simp [this]
        | _ => simp at hc
      | float =>
        cases v with
        | int i =>
          refine ⟨_, rfl, ?_, ?_⟩
          · simp only [astLeaf, isFloatName, hf]
            exact intChars_ok i ['.', '0'] (by decide) (by rw [parseNum_intChars_dot0]; rfl)
          · simp only [astLeaf, isFloatName, hf, coerceLeaf, Bool.false_eq_true, ↓reduceIte, String.toList_ofList]
            rw [parseNum_intChars_dot0]
            simp only [numToJVal_int10]
        | dec m e =>
          simp only [decide_eq_true_eq] at hc
          refine ⟨_, rfl, ?_, ?_⟩
          · simp only [astLeaf]; exact decChars_ok m e hc.1
          · simp only [astLeaf, coerceLeaf, hf, String.toList_ofList]
            rw [parseNum_decChars m e hc.1]
            simp only [numToJVal_dec m e hc.1 hc.2]
        | _ => simp at hc
      | string =>
        cases v with
        | str x => exact ⟨_, rfl, by simp [astLeaf, isEnumName, hf, litOK], by simp [astLeaf, isEnumName, hf, coerceLeaf]⟩
        | _ => simp at hc
      | boolean =>
        cases v with
        | bool b => exact ⟨_, rfl, by simp [astLeaf, litOK], by simp [astLeaf, coerceLeaf, hf]⟩
        | _ => simp at hc
      | id =>
        cases v with
        | str x => exact ⟨_, rfl, by simp [astLeaf, isEnumName, hf, litOK], by simp [astLeaf, isEnumName, hf, coerceLeaf]⟩
        | _ => simp at hc
      | custom ser pv pl =>
        cases v with
        | int i =>
          simp only [JVal.isNull, Bool.not_false, Bool.true_and] at hc
          refine ⟨_, rfl, ?_, ?_⟩
          · simp only [astLeaf, isFloatName, hf]
            have := intChars_ok i [] (by simp) (by rw [List.append_nil, parseNum_intChars]; rfl)
            simpa using this
          · simp only [coerceLeaf, hf]; exact JVal.eq_of_beq' hc
        | str x =>
          simp only [JVal.isNull, Bool.not_false, Bool.true_and] at hc
          exact ⟨_, rfl, by simp [astLeaf, isEnumName, hf, litOK], by simp only [coerceLeaf, hf]; exact JVal.eq_of_beq' hc⟩
        | bool b =>
          simp only [JVal.isNull, Bool.not_false, Bool.true_and] at hc
          exact ⟨_, rfl, by simp [astLeaf, litOK], by simp only [coerceLeaf, hf]; exact JVal.eq_of_beq' hc⟩
        | _ => simp at hc
    | «enum» en vals d =>
      rcases hx : enumNameOf vals v with _ | x
      · simp [hx] at hc
      · unfold enumNameOf at hx
        rcases hfind : vals.find? (fun ev => enumInternal ev == v) with _ | ev
        · simp [hfind] at hx
        · simp only [hfind, Option.map_some, Option.some.injEq] at hx
          have hmem : ev ∈ vals := List.mem_of_find?_eq_some hfind
          have hint : enumInternal ev = v := JVal.eq_of_beq' (by have := List.find?_some hfind; exact this)
          simp only [wfInputType, Bool.and_eq_true, List.all_eq_true, decide_eq_true_eq] at hwtd
          have hnm := hwtd.1 ev hmem
          simp only [literalLikeName, Bool.not_eq_true', Bool.or_eq_false_iff, beq_eq_false_iff_ne, ne_eq] at hnm
          refine ⟨.enum x, by simp [enumNameOf, hfind, hx], ?_, ?_⟩
          · simp only [litOK, Bool.and_eq_true, bne_iff_ne, ne_eq]
            rw [← hx]
            exact ⟨⟨⟨hnm.1, hnm.2.1.1⟩, hnm.2.1.2⟩, hnm.2.2⟩
          · simp only [coerceLeaf, hf]
            rw [← hx, find_by_name_of_nodup vals ev hwtd.2 hmem]
            exact hint
    | object => simp at hc
    | interface => simp at hc
    | union => simp at hc
    | inputObject => simp at hc

theorem coerceLit_leaf (all : List TypeDef) (t : GType) (l : Lit) (h : leafLit l = true) :
    coerceLit all t l = wrapSingle (GType.listDepth t) (coerceNamed all t.namedName l) := by
  cases l <;> simp [leafLit] at h <;> simp [coerceLit]

/-! ### input objects: the assembly loop gives back a canonical object -/

theorem nodup_reverse' {α : Type} {l : List α} (h : l.Nodup) : l.reverse.Nodup := by
  unfold List.Nodup at *
  rw [List.pairwise_reverse]
  exact h.imp (fun hab heq => hab heq.symm)

theorem nodup_filter' {α : Type} {l : List α} (p : α → Bool) (h : l.Nodup) : (l.filter p).Nodup := by
  unfold List.Nodup at *
  exact List.Pairwise.filter p h

def present (fs : List (String × JVal)) (k : String) : Bool := fs.any (fun p => p.1 == k)

theorem find_pair_of_nodup {β : Type} (l : List (String × β)) (p : String × β) (hn : (l.map (·.1)).Nodup) (hm : p ∈ l) :
    l.find? (fun q => q.1 == p.1) = some p := by
  induction l with
  | nil => simp at hm
  | cons a l ih =>
    simp only [List.map_cons, List.nodup_cons] at hn
    rcases List.mem_cons.mp hm with rfl | hm'
    · simp
    · have hne : a.1 ≠ p.1 := fun h => hn.1 (h ▸ List.mem_map.mpr ⟨p, hm', rfl⟩)
      rw [List.find?_cons_of_neg (by simpa using hne)]
      exact ih hn.2 hm'

theorem lookupLast_of_nodup (fs : List (String × JVal)) (p : String × JVal) (hn : (fs.map (·.1)).Nodup) (hm : p ∈ fs) :
    lookupLast fs p.1 = some p.2 := by
  unfold lookupLast
  rw [find_pair_of_nodup fs.reverse p (by rw [List.map_reverse]; exact nodup_reverse' hn) (List.mem_reverse.mpr hm)]
  rfl

theorem lookupLast_absent (fs : List (String × JVal)) (k : String) (h : present fs k = false) : lookupLast fs k = none := by
  unfold lookupLast
  have : fs.reverse.find? (fun p => p.1 == k) = none := by
    rw [List.find?_eq_none]
    intro p hp hpk
    have hm : p ∈ fs := List.mem_reverse.mp hp
    have : present fs k = true := List.any_eq_true.mpr ⟨p, hm, hpk⟩
    rw [h] at this; exact absurd this (by simp)
  rw [this]; rfl

def assembleField (given : List (String × JVal)) (f : InputFieldS) : Option (String × JVal) :=
  let v := match lookupLast given f.name with
    | some x => if x.isNull then (f.default.getD .null) else x
    | none => f.default.getD .null
  if v.isNull then none else some (f.name, v)

theorem assembleObj_eq (decl : List InputFieldS) (given : List (String × JVal)) :
    assembleObj decl given = (sortOn (·.name) decl).filterMap (assembleField given) := rfl

theorem assemble_aux (G : List (String × JVal)) : ∀ (D : List InputFieldS) (fs : List (String × JVal)),
    fs.map (·.1) = (D.map (·.name)).filter (present G) →
    (∀ p ∈ fs, lookupLast G p.1 = some p.2 ∧ p.2.isNull = false) →
    (∀ f ∈ D, present G f.name = true ∨ (f.default.getD .null).isNull = true) →
    D.filterMap (assembleField G) = fs := by
  intro D
  induction D with
  | nil => intro fs h _ _; simp at h; simp [h]
  | cons f D ih =>
    intro fs hk hv hd
    by_cases hp : present G f.name = true
    · simp only [List.map_cons, List.filter_cons, hp, if_true] at hk
      rcases fs with _ | ⟨p, fs⟩
      · simp at hk
      · simp only [List.map_cons, List.cons.injEq] at hk
        obtain ⟨hl, hnn⟩ := hv p (by simp)
        have hf : assembleField G f = some p := by
          unfold assembleField
          rw [← hk.1, hl]
          simp [hnn]
        rw [List.filterMap_cons, hf]
        simp only
        congr 1
        exact ih fs hk.2 (fun q hq => hv q (List.mem_cons_of_mem _ hq)) (fun g hg => hd g (List.mem_cons_of_mem _ hg))
    · have hp' : present G f.name = false := by simpa using hp
      simp only [List.map_cons, List.filter_cons, hp', Bool.false_eq_true, if_false] at hk
      have hdn : (f.default.getD .null).isNull = true := by
        rcases hd f (by simp) with h | h
        · rw [hp'] at h; exact absurd h (by simp)
        · exact h
      have hf : assembleField G f = none := by
        unfold assembleField
        rw [lookupLast_absent G f.name hp']
        simp [hdn]
      rw [List.filterMap_cons, hf]
      simp only
      exact ih fs hk hv (fun g hg => hd g (List.mem_cons_of_mem _ hg))

theorem sortOn_names (decl : List InputFieldS) :
    (sortOn (·.name) decl).map (·.name) = sortOn id (decl.map (·.name)) :=
  sortOn_map (·.name) id (·.name) (fun _ => rfl) decl

theorem conformant_not_null (all : List TypeDef) (t : GType) (v : JVal) (h : conformant all t v = true) : v.isNull = false := by
  cases v <;> simp_all [conformant, JVal.isNull]

theorem conformantFields_values (all : List TypeDef) (decl : List InputFieldS) : ∀ (fs : List (String × JVal)),
    conformantFields all decl fs = true → ∀ p ∈ fs, p.2.isNull = false := by
  intro fs
  induction fs with
  | nil => intro _ p hp; simp at hp
  | cons q fs ih =>
    obtain ⟨k, x⟩ := q
    intro h p hp
    simp only [conformantFields, Bool.and_eq_true] at h
    rcases List.mem_cons.mp hp with rfl | hp'
    · rcases hft : inputFieldType decl k with _ | ft
      · simp [hft] at h
      · simp only [hft] at h
        exact conformant_not_null all ft x h.1
    · exact ih h.2 p hp'

theorem assemble_id (decl : List InputFieldS) (fs : List (String × JVal)) (hn : (decl.map (·.name)).Nodup)
    (hk : keysInDeclOrder decl fs = true) (hv : ∀ p ∈ fs, p.2.isNull = false)
    (hd : decl.all (fun f => (fs.any (fun p => p.1 == f.name)) ||
           (!f.type.isNonNull && (match f.default with | none => true | some d => d.isNull))) = true) :
    assembleObj decl fs = fs := by
  rw [assembleObj_eq]
  have hkeys : fs.map (·.1) = ((sortOn (·.name) decl).map (·.name)).filter (present fs) := by
    have := hk
    simp only [keysInDeclOrder, beq_iff_eq] at this
    rw [this]; rfl
  have hnod : (fs.map (·.1)).Nodup := by
    rw [hkeys, sortOn_names]
    exact nodup_filter' _ (nodup_sortOn _ _ hn)
  apply assemble_aux fs _ fs hkeys
  · intro p hp
    exact ⟨lookupLast_of_nodup fs p hnod hp, hv p hp⟩
  · intro f hf
    have hf' : f ∈ decl := (mem_sortOn _ f decl).mp hf
    have := List.all_eq_true.mp hd f hf'
    simp only [Bool.or_eq_true, Bool.and_eq_true] at this
    rcases this with h | h
    · left; exact h
    · right
      rcases hdf : f.default with _ | d
      · rfl
      · simpa [hdf] using h.2

theorem inputFieldType_name {decl : List InputFieldS} {k : String} {ft : GType} (h : inputFieldType decl k = some ft) :
    ∃ f ∈ decl, f.name = k := by
  unfold inputFieldType at h
  rcases hf : decl.find? (fun f => f.name == k) with _ | f
  · simp [hf] at h
  · exact ⟨f, List.mem_of_find?_eq_some hf, by simpa using List.find?_some hf⟩

mutual
theorem value_roundtrip (all : List TypeDef) (hwf : wfInputTypes all = true) : ∀ (v : JVal) (t : GType),
    conformant all t v = true → ∃ l, astFromValue all t v = some l ∧ litOK l = true ∧ coerceLit all t l = v
  | .null, t, h => by simp [conformant] at h
  | .list xs, t, h => by
    simp only [conformant] at h
    simp only [astFromValue]
    rcases hs : GType.stripNN t with n | it | u
    · simp only [hs] at h ⊢
      obtain ⟨l, hl, hok, hco⟩ := leaf_roundtrip all hwf n (.list xs) (by simpa [GType.namedName] using h)
      refine ⟨l, by simpa [GType.namedName] using hl, hok, ?_⟩
      rw [coerceLit_leaf all t l (astNamed_leafLit hl), (stripNN_named hs).1, (stripNN_named hs).2]
      exact hco
    · simp only [hs] at h ⊢
      obtain ⟨hok, hco⟩ := values_roundtrip all hwf xs it h
      exact ⟨_, rfl, by simpa [litOK] using hok, by simp only [coerceLit, hs, hco]⟩
    · exact absurd hs (stripNN_not_nonNull t u)
  | .obj fs, t, h => by
    simp only [conformant] at h
    rcases hs : GType.stripNN t with n | it | u
    · simp only [hs] at h
      obtain ⟨hn1, hn2⟩ := stripNN_named hs
      simp only [astFromValue, hn1]
      rcases hf : findType all n with _ | td
      · simp [hf, conformsLeaf] at h
      · cases td with
        | inputObject tn decl d =>
          simp only [hf, Bool.and_eq_true] at h ⊢
          have hwtd : wfInputType (.inputObject tn decl d) = true := List.all_eq_true.mp hwf _ (findType_mem_all' hf)
          simp only [wfInputType, Bool.and_eq_true, List.all_eq_true, decide_eq_true_eq] at hwtd
          obtain ⟨hok, hco⟩ := fields_roundtrip all hwf fs decl hwtd.1 h.1.2
          refine ⟨_, rfl, by simpa [litOK] using hok, ?_⟩
          simp only [coerceLit, hn1, hn2, hf, wrapSingle, hco]
          rw [assemble_id decl fs hwtd.2 h.1.1 (conformantFields_values all decl fs h.1.2) h.2]
        | scalar sn k d =>
          simp only [hf] at h ⊢
          obtain ⟨l, hl, hok, hco⟩ := leaf_roundtrip all hwf n (.obj fs) h
          refine ⟨l, hl, hok, ?_⟩
          rw [coerceLit_leaf all t l (astNamed_leafLit hl), hn1, hn2]; exact hco
        | «enum» en vals d =>
          simp only [hf] at h ⊢
          obtain ⟨l, hl, hok, hco⟩ := leaf_roundtrip all hwf n (.obj fs) h
          refine ⟨l, hl, hok, ?_⟩
          rw [coerceLit_leaf all t l (astNamed_leafLit hl), hn1, hn2]; exact hco
        | object => simp [hf, conformsLeaf] at h
        | interface => simp [hf, conformsLeaf] at h
        | union => simp [hf, conformsLeaf] at h
    · simp [hs] at h
    · exact absurd hs (stripNN_not_nonNull t u)
  | .bool b, t, h => by
    simp only [conformant] at h
    rcases hs : GType.stripNN t with n | it | u
    · simp only [hs] at h
      obtain ⟨hn1, hn2⟩ := stripNN_named hs
      obtain ⟨l, hl, hok, hco⟩ := leaf_roundtrip all hwf n _ h
      refine ⟨l, by simpa [astFromValue, hn1] using hl, hok, ?_⟩
      rw [coerceLit_leaf all t l (astNamed_leafLit hl), hn1, hn2]; exact hco
    · simp [hs] at h
    · exact absurd hs (stripNN_not_nonNull t u)
  | .int i, t, h => by
    simp only [conformant] at h
    rcases hs : GType.stripNN t with n | it | u
    · simp only [hs] at h
      obtain ⟨hn1, hn2⟩ := stripNN_named hs
      obtain ⟨l, hl, hok, hco⟩ := leaf_roundtrip all hwf n _ h
      refine ⟨l, by simpa [astFromValue, hn1] using hl, hok, ?_⟩
      rw [coerceLit_leaf all t l (astNamed_leafLit hl), hn1, hn2]; exact hco
    · simp [hs] at h
    · exact absurd hs (stripNN_not_nonNull t u)
  | .dec m e, t, h => by
    simp only [conformant] at h
    rcases hs : GType.stripNN t with n | it | u
    · simp only [hs] at h
      obtain ⟨hn1, hn2⟩ := stripNN_named hs
      obtain ⟨l, hl, hok, hco⟩ := leaf_roundtrip all hwf n _ h
      refine ⟨l, by simpa [astFromValue, hn1] using hl, hok, ?_⟩
      rw [coerceLit_leaf all t l (astNamed_leafLit hl), hn1, hn2]; exact hco
    · simp [hs] at h
    · exact absurd hs (stripNN_not_nonNull t u)
  | .str x, t, h => by
    simp only [conformant] at h
    rcases hs : GType.stripNN t with n | it | u
    · simp only [hs] at h
      obtain ⟨hn1, hn2⟩ := stripNN_named hs
      obtain ⟨l, hl, hok, hco⟩ := leaf_roundtrip all hwf n _ h
      refine ⟨l, by simpa [astFromValue, hn1] using hl, hok, ?_⟩
      rw [coerceLit_leaf all t l (astNamed_leafLit hl), hn1, hn2]; exact hco
    · simp [hs] at h
    · exact absurd hs (stripNN_not_nonNull t u)
theorem values_roundtrip (all : List TypeDef) (hwf : wfInputTypes all = true) : ∀ (xs : List JVal) (it : GType),
    conformantAll all it xs = true →
    litsOK (astFromValues all it xs) = true ∧ coerceLits all it (astFromValues all it xs) = xs
  | [], it, _ => by simp [astFromValues, litsOK, coerceLits]
  | x :: xs, it, h => by
    simp only [conformantAll, Bool.and_eq_true] at h
    obtain ⟨l, hl, hok, hco⟩ := value_roundtrip all hwf x it h.1
    obtain ⟨hoks, hcos⟩ := values_roundtrip all hwf xs it h.2
    simp only [astFromValues, hl, litsOK, hok, hoks, coerceLits, hco, hcos, Bool.and_self, and_self]
theorem fields_roundtrip (all : List TypeDef) (hwf : wfInputTypes all = true) : ∀ (fs : List (String × JVal)) (decl : List InputFieldS),
    (∀ f ∈ decl, validName f.name = true) → conformantFields all decl fs = true →
    fieldsOK (astFromFields all decl fs) = true ∧ coerceFields all decl (astFromFields all decl fs) = fs
  | [], decl, _, _ => by simp [astFromFields, fieldsOK, coerceFields]
  | (k, x) :: fs, decl, hv, h => by
    simp only [conformantFields, Bool.and_eq_true] at h
    rcases hft : inputFieldType decl k with _ | ft
    · simp [hft] at h
    · simp only [hft] at h
      obtain ⟨l, hl, hok, hco⟩ := value_roundtrip all hwf x ft h.1
      obtain ⟨hoks, hcos⟩ := fields_roundtrip all hwf fs decl hv h.2
      obtain ⟨f, hfm, hfn⟩ := inputFieldType_name hft
      have hvk : validName k = true := hfn ▸ hv f hfm
      simp only [astFromFields, hft, hl, fieldsOK, hvk, hok, hoks, coerceFields, hco, hcos, Bool.and_self, and_self]
end

/-! ### the pinned function agrees with the repaired one on scalar-like defaults -/

theorem astNamed_scalar (all : List TypeDef) (n : String) (v : JVal) (h : isScalarName all n = true) :
    astNamed all n v = some (astLeaf all n v) := by
  unfold isScalarName at h
  unfold astNamed
  rcases hf : findType all n with _ | td
  · simp [hf] at h
  · cases td <;> simp [hf] at h ⊢

mutual
theorem pinned_eq_on_scalarLike (all : List TypeDef) : ∀ (v : JVal) (t : GType), scalarLike all t v = true →
    astFromValuePinned all t v = astFromValue all t v
  | .null, t, _ => by simp [astFromValuePinned, astFromValue]
  | .list xs, t, h => by
    simp only [scalarLike] at h
    simp only [astFromValuePinned, astFromValue]
    rcases hs : GType.stripNN t with n | it | u
    · simp only [hs] at h ⊢
      rw [astNamed_scalar all _ _ h]
    · simp only [hs] at h ⊢
      rw [pinneds_eq_on_scalarLike all xs it h]
    · simp only [hs] at h ⊢
      rw [astNamed_scalar all _ _ h]
  | .obj fs, t, h => by
    simp only [scalarLike] at h
    simp only [astFromValuePinned, astFromValue]
    have := astNamed_scalar all t.namedName (.obj fs) h
    unfold isScalarName at h
    rcases hf : findType all t.namedName with _ | td
    · simp [hf] at h
    · cases td <;> simp [hf] at h ⊢
      exact this.symm
  | .bool b, t, h => by
    simp only [scalarLike] at h
    simp only [astFromValuePinned, astFromValue, astNamed_scalar all _ _ h]
  | .int i, t, h => by
    simp only [scalarLike] at h
    simp only [astFromValuePinned, astFromValue, astNamed_scalar all _ _ h]
  | .dec m e, t, h => by
    simp only [scalarLike] at h
    simp only [astFromValuePinned, astFromValue, astNamed_scalar all _ _ h]
  | .str x, t, h => by
    simp only [scalarLike] at h
    simp only [astFromValuePinned, astFromValue, astNamed_scalar all _ _ h]
theorem pinneds_eq_on_scalarLike (all : List TypeDef) : ∀ (xs : List JVal) (it : GType), scalarLikeAll all it xs = true →
    astFromValuesPinned all it xs = astFromValues all it xs
  | [], it, _ => by simp [astFromValuesPinned, astFromValues]
  | x :: xs, it, h => by
    simp only [scalarLikeAll, Bool.and_eq_true] at h
    simp only [astFromValuesPinned, astFromValues, pinned_eq_on_scalarLike all x it h.1, pinneds_eq_on_scalarLike all xs it h.2]
end

end GqlModel.Introspection
