import GqlModel.Conforms
import GqlProofs.CoerceRange
/-! C04 helper lemmas: whatever a resolver returns, `serializeLeaf` yields `null` or a legal serialisation. -/
namespace GqlModel.Exec
open GqlModel.Coerce

def isNumber : JVal → Bool
  | .int _ => true
  | .dec _ _ => true
  | _ => false

theorem normDec_isNumber (m : Int) (e : Nat) : isNumber (normDec m e) = true := by
  induction e generalizing m with
  | zero => rfl
  | succ e ih =>
    simp only [normDec]
    split
    · exact ih _
    · rfl

theorem coerceFloat_cases (v : JVal) : coerceFloat v = .null ∨ isNumber (coerceFloat v) = true := by
  cases v <;> simp only [coerceFloat, isNumber, or_true, true_or]
  · split
    · exact Or.inl rfl
    · split
      · exact Or.inr (normDec_isNumber _ _)
      · exact Or.inl rfl

theorem coerceInt_cases (v : JVal) : coerceInt v = .null ∨ ∃ i, coerceInt v = .int i ∧ inInt32 i = true := by
  have h := intOK_coerceInt v
  cases hc : coerceInt v with
  | null => exact Or.inl rfl
  | int i => rw [hc] at h; exact Or.inr ⟨i, rfl, h⟩
  | _ => rw [hc] at h; simp [intOK] at h

theorem coerceBool_cases (v : JVal) : ∃ b, coerceBool v = .bool b := by
  cases v <;> simp [coerceBool]

theorem JVal.beq_refl' (v : JVal) : (v == v) = true := by
  show JVal.beq v v = true
  exact JVal.rec (motive_1 := fun v => JVal.beq v v = true)
    (motive_2 := fun xs => JVal.beqList xs xs = true)
    (motive_3 := fun fs => JVal.beqFields fs fs = true)
    (motive_4 := fun kv => JVal.beq kv.2 kv.2 = true)
    (by simp [JVal.beq]) (by intro b; simp [JVal.beq]) (by intro i; simp [JVal.beq]) (by intro m e; simp [JVal.beq])
    (by intro s; simp [JVal.beq]) (by intro xs ih; simpa [JVal.beq] using ih) (by intro fs ih; simpa [JVal.beq] using ih)
    (by simp [JVal.beqList]) (by intro x xs ih1 ih2; simp [JVal.beqList, ih1, ih2])
    (by simp [JVal.beqFields]) (by intro kv fs ih1 ih2; obtain ⟨k, x⟩ := kv; simp [JVal.beqFields, ih2]; exact ih1)
    (by intro k x ih; exact ih) v

theorem tableLookup_cases (tbl : List (JVal × JVal)) (v : JVal) :
    tableLookup tbl v = .null ∨ tbl.any (fun p => p.2 == tableLookup tbl v) = true := by
  unfold tableLookup
  split
  · rename_i p hp
    right
    rw [List.any_eq_true]
    exact ⟨p, List.mem_of_find?_eq_some hp, JVal.beq_refl' _⟩
  · exact Or.inl rfl

theorem enumSerialize_cases (vals : List EnumValueS) (v : JVal) :
    enumSerialize vals v = .null ∨ ∃ x, enumSerialize vals v = .str x ∧ vals.any (fun ev => ev.name == x) = true := by
  unfold enumSerialize
  split
  · rename_i ev hev
    right
    refine ⟨ev.name, rfl, ?_⟩
    rw [List.any_eq_true]
    exact ⟨ev, List.mem_of_find?_eq_some hev, by simp⟩
  · exact Or.inl rfl

/-- every output of leaf serialisation is `null` or a legal value of the leaf type -/
theorem serializeLeaf_legal (s : Schema) (n : String) (v : GoVal) (j : JVal) (h : serializeLeaf s n v = some j) :
    j = .null ∨ legalLeaf s n j = true := by
  unfold serializeLeaf at h
  unfold legalLeaf
  split at h
  · rename_i nm k d hf
    rw [hf]
    split at h
    · rename_i j' hj
      by_cases hp : leafPanics k j' = true
      · rw [if_pos hp] at h; cases h
      rw [if_neg hp] at h
      simp only [Option.some.injEq] at h
      subst h
      cases k with
      | int =>
        rcases coerceInt_cases j' with h0 | ⟨i, hi, hr⟩
        · exact Or.inl h0
        · right; simp only; rw [hi]; exact hr
      | float =>
        rcases coerceFloat_cases j' with h0 | h1
        · exact Or.inl h0
        · right; simp only
          cases hc : coerceFloat j' <;> rw [hc] at h1 <;> simp_all [isNumber]
      | string => right; rfl
      | id => right; rfl
      | boolean =>
        obtain ⟨b, hb⟩ := coerceBool_cases j'
        right; simp only; rw [hb]
      | custom ser pv pl =>
        rcases tableLookup_cases ser j' with h0 | h1
        · exact Or.inl h0
        · right; exact h1
    · simp only [Option.some.injEq] at h
      subst h
      cases k with
      | int => exact Or.inl rfl
      | float => exact Or.inl rfl
      | string => right; simp only; cases fmtGo v <;> rfl
      | id => right; simp only; cases fmtGo v <;> rfl
      | boolean => right; rfl
      | custom ser pv pl => exact Or.inl rfl
  · rename_i nm vals d hf
    rw [hf]
    split at h
    · cases h
    · split at h
      · rename_i j' hj
        simp only [Option.some.injEq] at h
        subst h
        rcases enumSerialize_cases vals j' with h0 | ⟨x, hx, hv⟩
        · exact Or.inl h0
        · right; simp only; rw [hx]; exact hv
      · simp only [Option.some.injEq] at h
        exact Or.inl h.symm
  · simp only [Option.some.injEq] at h
    exact Or.inl h.symm

end GqlModel.Exec
