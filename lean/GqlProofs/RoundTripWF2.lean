import GqlProofs.RoundTripWF1
/-! # C08 `parse_ok_WF`, grammar half (2): definitions and the document -/
namespace GqlModel.RoundTrip
open GqlModel GqlModel.Grammar GqlModel.Printer GqlModel.Reader

theorem ddefault_wf {p : Pos} {d : Option Value} {p' : Pos} (h : DDefault p d p') (a : AllWF p) : WFDefault d ∧ AllWF p' := by
  cases h with
  | none _ => exact ⟨trivial, a⟩
  | some hq hv =>
    obtain ⟨_, a1⟩ := tok_wf hq a
    obtain ⟨⟨w, c⟩, a2⟩ := DValue.wf hv a1
    exact ⟨⟨w, c rfl⟩, a2⟩

theorem dvarDef_wf {p : Pos} {v : VarDef} {p' : Pos} (h : DVarDef p v p') (a : AllWF p) : WFVarDef v ∧ AllWF p' := by
  cases h with
  | mk hv hc ht hd =>
    cases hv with
    | mk hdl hn =>
      obtain ⟨_, a0⟩ := tok_wf hdl a
      obtain ⟨wn, a1⟩ := dname_wf hn a0
      obtain ⟨_, a2⟩ := tok_wf hc a1
      obtain ⟨wt, a3⟩ := DType.wf ht a2
      obtain ⟨wd, a4⟩ := ddefault_wf hd a3
      exact ⟨⟨wn, ⟨_, rfl, wt⟩, wd⟩, a4⟩

theorem dvarDefs_wf {p : Pos} {vs : List VarDef} {p' : Pos} (h : DVarDefs p vs p') (a : AllWF p) : WFVarDefs vs ∧ AllWF p' := by
  cases h with
  | none _ => exact ⟨trivial, a⟩
  | some ho hm _ hc =>
    obtain ⟨_, a1⟩ := tok_wf ho a
    obtain ⟨w, a2⟩ := many_wf (QL := WFVarDefs) trivial (fun _ _ x y => ⟨x, y⟩) (fun _ _ _ => dvarDef_wf) hm a1
    obtain ⟨_, a3⟩ := tok_wf hc a2
    exact ⟨w, a3⟩

theorem doptName_wf {p : Pos} {n : Option Name} {p' : Pos} (h : DOptName p n p') (a : AllWF p) : WFOptName n ∧ AllWF p' := by
  cases h with
  | none _ => exact ⟨trivial, a⟩
  | some hn => exact dname_wf hn a

theorem dopType_wf {p : Pos} {op : OpType} {p' : Pos} (h : DOpType p op p') (a : AllWF p) : AllWF p' := by
  cases h with
  | query hk => exact kw_wf hk a
  | mutation hk => exact kw_wf hk a
  | subscription hk => exact kw_wf hk a

theorem ddescription_wf {p : Pos} {d : Option String} {p' : Pos} (h : DDescription p d p') (a : AllWF p) : AllWF p' := by
  cases h with
  | none _ _ => exact a
  | string ht => exact (tok_wf ht a).2
  | blockString ht => exact (tok_wf ht a).2

theorem dopTypeDef_wf {p : Pos} {d : OpTypeDef} {p' : Pos} (h : DOpTypeDef p d p') (a : AllWF p) : WFOpTypeDef d ∧ AllWF p' := by
  cases h with
  | mk hop hc ht =>
    obtain ⟨_, a2⟩ := tok_wf hc (dopType_wf hop a)
    obtain ⟨⟨w, _⟩, a3⟩ := dnamedType_wf ht a2
    exact ⟨w, a3⟩

theorem namedTypes_item : ∀ p x p', DNamedType p x p' → AllWF p → WFNamedType x ∧ AllWF p' := by
  intro p x p' h a
  obtain ⟨⟨w, _⟩, a1⟩ := dnamedType_wf h a
  exact ⟨w, a1⟩

theorem dimplements_wf {p : Pos} {ts : List TypeRef} {p' : Pos} (h : DImplements p ts p') (a : AllWF p) :
    WFNamedTypes ts ∧ AllWF p' := by
  cases h with
  | none _ => exact ⟨trivial, a⟩
  | plain hk _ hs =>
    obtain ⟨⟨w, _⟩, a2⟩ := sepBy_wf (QL := WFNamedTypes) trivial (fun _ _ x y => ⟨x, y⟩) namedTypes_item hs (kw_wf hk a)
    exact ⟨w, a2⟩
  | leadingAmp hk ha hs =>
    obtain ⟨_, a1⟩ := tok_wf ha (kw_wf hk a)
    obtain ⟨⟨w, _⟩, a2⟩ := sepBy_wf (QL := WFNamedTypes) trivial (fun _ _ x y => ⟨x, y⟩) namedTypes_item hs a1
    exact ⟨w, a2⟩

theorem dinputValueDef_wf {p : Pos} {d : InputValueDef} {p' : Pos} (h : DInputValueDef p d p') (a : AllWF p) :
    WFInputValueDef d ∧ AllWF p' := by
  cases h with
  | mk hdesc hn hc ht hd hdirs =>
    obtain ⟨wn, a1⟩ := dname_wf hn (ddescription_wf hdesc a)
    obtain ⟨_, a2⟩ := tok_wf hc a1
    obtain ⟨wt, a3⟩ := DType.wf ht a2
    obtain ⟨wd, a4⟩ := ddefault_wf hd a3
    obtain ⟨wdirs, a5⟩ := ddirectives_wf hdirs a4
    exact ⟨⟨wn, wt, wd, wdirs⟩, a5⟩

theorem dargumentDefs_wf {p : Pos} {ds : List InputValueDef} {p' : Pos} (h : DArgumentDefs p ds p') (a : AllWF p) :
    WFInputValueDefs ds ∧ AllWF p' := by
  cases h with
  | none _ => exact ⟨trivial, a⟩
  | some ho hm _ hc =>
    obtain ⟨_, a1⟩ := tok_wf ho a
    obtain ⟨w, a2⟩ := many_wf (QL := WFInputValueDefs) trivial (fun _ _ x y => ⟨x, y⟩) (fun _ _ _ => dinputValueDef_wf) hm a1
    obtain ⟨_, a3⟩ := tok_wf hc a2
    exact ⟨w, a3⟩

theorem dfieldDef_wf {p : Pos} {d : FieldDef} {p' : Pos} (h : DFieldDef p d p') (a : AllWF p) : WFFieldDef d ∧ AllWF p' := by
  cases h with
  | mk hdesc hn hargs hc ht hdirs =>
    obtain ⟨wn, a1⟩ := dname_wf hn (ddescription_wf hdesc a)
    obtain ⟨wa, a2⟩ := dargumentDefs_wf hargs a1
    obtain ⟨_, a3⟩ := tok_wf hc a2
    obtain ⟨wt, a4⟩ := DType.wf ht a3
    obtain ⟨wdirs, a5⟩ := ddirectives_wf hdirs a4
    exact ⟨⟨wn, wa, wt, wdirs⟩, a5⟩

theorem fieldsBraced_wf {p : Pos} {fs : List FieldDef} {p' : Pos} (h : Braced DFieldDef p fs p') (a : AllWF p) :
    WFFieldDefs fs ∧ AllWF p' :=
  braced_wf (QL := WFFieldDefs) trivial (fun _ _ x y => ⟨x, y⟩) (fun _ _ _ => dfieldDef_wf) h a

theorem dobjectDef_wf {p : Pos} {d : ObjectDef} {p' : Pos} (h : DObjectDef p d p') (a : AllWF p) : WFObjectDef d ∧ AllWF p' := by
  cases h with
  | mk hdesc hk hn hi hdirs hf =>
    obtain ⟨wn, a1⟩ := dname_wf hn (kw_wf hk (ddescription_wf hdesc a))
    obtain ⟨wi, a2⟩ := dimplements_wf hi a1
    obtain ⟨wd, a3⟩ := ddirectives_wf hdirs a2
    obtain ⟨wf, a4⟩ := fieldsBraced_wf hf a3
    exact ⟨⟨wn, wi, wd, wf⟩, a4⟩

theorem denumValueDef_wf {p : Pos} {d : EnumValueDef} {p' : Pos} (h : DEnumValueDef p d p') (a : AllWF p) :
    WFEnumValueDef d ∧ AllWF p' := by
  cases h with
  | mk hdesc hn hdirs =>
    obtain ⟨wn, a1⟩ := dname_wf hn (ddescription_wf hdesc a)
    obtain ⟨wd, a2⟩ := ddirectives_wf hdirs a1
    exact ⟨⟨wn, wd⟩, a2⟩

theorem ddefinition_wf {p : Pos} {d : Definition} {p' : Pos} (h : DDefinition p d p') (a : AllWF p) :
    WFDefinition d ∧ AllWF p' := by
  cases h with
  | query hs =>
    obtain ⟨w, a1⟩ := DSelectionSet.wf hs a
    exact ⟨⟨trivial, trivial, trivial, w⟩, a1⟩
  | operation hop hn hv hd hs =>
    obtain ⟨wn, a1⟩ := doptName_wf hn (dopType_wf hop a)
    obtain ⟨wv, a2⟩ := dvarDefs_wf hv a1
    obtain ⟨wd, a3⟩ := ddirectives_wf hd a2
    obtain ⟨ws, a4⟩ := DSelectionSet.wf hs a3
    exact ⟨⟨wn, wv, wd, ws⟩, a4⟩
  | fragment hk hn hon ht hd hs =>
    obtain ⟨⟨wn, hne⟩, a1⟩ := dfragmentName_wf hn (kw_wf hk a)
    obtain ⟨⟨wt, _⟩, a2⟩ := dnamedType_wf ht (kw_wf hon a1)
    obtain ⟨wd, a3⟩ := ddirectives_wf hd a2
    obtain ⟨ws, a4⟩ := DSelectionSet.wf hs a3
    exact ⟨⟨wn, hne, wt, wd, ws⟩, a4⟩
  | schema hk hd ho hm hne hc =>
    obtain ⟨wd, a1⟩ := ddirectives_wf hd (kw_wf hk a)
    obtain ⟨_, a2⟩ := tok_wf ho a1
    obtain ⟨wo, a3⟩ := many_wf (QL := WFOpTypeDefs) trivial (fun _ _ x y => ⟨x, y⟩) (fun _ _ _ => dopTypeDef_wf) hm a2
    obtain ⟨_, a4⟩ := tok_wf hc a3
    exact ⟨⟨wd, hne, wo⟩, a4⟩
  | scalar hdesc hk hn hd =>
    obtain ⟨wn, a1⟩ := dname_wf hn (kw_wf hk (ddescription_wf hdesc a))
    obtain ⟨wd, a2⟩ := ddirectives_wf hd a1
    exact ⟨⟨wn, wd⟩, a2⟩
  | object ho => exact dobjectDef_wf ho a
  | interface hdesc hk hn hd hf =>
    obtain ⟨wn, a1⟩ := dname_wf hn (kw_wf hk (ddescription_wf hdesc a))
    obtain ⟨wd, a2⟩ := ddirectives_wf hd a1
    obtain ⟨wf, a3⟩ := fieldsBraced_wf hf a2
    exact ⟨⟨wn, wd, wf⟩, a3⟩
  | union hdesc hk hn hd hq hs =>
    obtain ⟨wn, a1⟩ := dname_wf hn (kw_wf hk (ddescription_wf hdesc a))
    obtain ⟨wd, a2⟩ := ddirectives_wf hd a1
    obtain ⟨_, a3⟩ := tok_wf hq a2
    obtain ⟨⟨wt, hne⟩, a4⟩ := sepBy_wf (QL := WFNamedTypes) trivial (fun _ _ x y => ⟨x, y⟩) namedTypes_item hs a3
    exact ⟨⟨wn, wd, hne, wt⟩, a4⟩
  | «enum» hdesc hk hn hd hv =>
    obtain ⟨wn, a1⟩ := dname_wf hn (kw_wf hk (ddescription_wf hdesc a))
    obtain ⟨wd, a2⟩ := ddirectives_wf hd a1
    obtain ⟨wv, a3⟩ := braced_wf (QL := WFEnumValueDefs) trivial (fun _ _ x y => ⟨x, y⟩) (fun _ _ _ => denumValueDef_wf) hv a2
    exact ⟨⟨wn, wd, wv⟩, a3⟩
  | inputObject hdesc hk hn hd hf =>
    obtain ⟨wn, a1⟩ := dname_wf hn (kw_wf hk (ddescription_wf hdesc a))
    obtain ⟨wd, a2⟩ := ddirectives_wf hd a1
    obtain ⟨wf, a3⟩ := braced_wf (QL := WFInputValueDefs) trivial (fun _ _ x y => ⟨x, y⟩) (fun _ _ _ => dinputValueDef_wf) hf a2
    exact ⟨⟨wn, wd, wf⟩, a3⟩
  | extend hk ho => exact dobjectDef_wf ho (kw_wf hk a)
  | directive hdesc hk hat hn hargs hon hlocs =>
    obtain ⟨_, a0⟩ := tok_wf hat (kw_wf hk (ddescription_wf hdesc a))
    obtain ⟨wn, a1⟩ := dname_wf hn a0
    obtain ⟨wa, a2⟩ := dargumentDefs_wf hargs a1
    obtain ⟨⟨wl, hne⟩, a3⟩ := sepBy_wf (QL := WFNames) trivial (fun _ _ x y => ⟨x, y⟩) (fun _ _ _ => dname_wf) hlocs (kw_wf hon a2)
    exact ⟨⟨wn, wa, hne, wl⟩, a3⟩

/-- **grammar half of `parse_ok_WF`**: a document derived from well-formed tokens is a `WFDocument` -/
theorem derivesDoc_wf {toks : List Token} {eofPos : Nat} {d : Document} (h : DerivesDoc toks eofPos d)
    (hw : ∀ t ∈ toks, TokWF t) : WFDocument d := by
  cases h with
  | mk hm hne =>
    obtain ⟨w, _⟩ := many_wf (QL := WFDefinitions) trivial (fun _ _ x y => ⟨x, y⟩) (fun _ _ _ => ddefinition_wf) hm hw
    exact ⟨hne, w⟩

end GqlModel.RoundTrip
