import GqlProofs.NormalizeLti
import GqlProofs.PrinterReadValue
/-! C06 (normaliser): the `byLiteral` key `(rendered type, printed literal)` is sound — equal keys mean the same type
and literals that evaluate alike. Discharges the former hypothesis `KeySound` from C08's read-back theorems
(`readTypeTop_typeC`, `readValueTop_valueC`) for well-formed types and values, plus "evaluation ignores locations". -/
set_option linter.unusedSimpArgs false
set_option linter.unusedVariables false
namespace GqlModel.Normalize
open GqlModel GqlModel.Coerce GqlModel.Printer GqlModel.Reader

/-! ## evaluation ignores locations -/

theorem stripLocList_eq_map (vs : List Value) : Value.stripLocList vs = vs.map Value.stripLoc := by
  induction vs with
  | nil => rfl
  | cons v vs ih => simp [Value.stripLocList, ih]

theorem litLookup_strip (fs : List ObjField) (k : String) :
    litLookup (ObjField.stripLocList fs) k = (litLookup fs k).map Value.stripLoc := by
  induction fs with
  | nil => rfl
  | cons f fs ih =>
    obtain ⟨nm, v, l⟩ := f
    simp only [ObjField.stripLocList, ObjField.stripLoc, litLookup, ih, ObjField.name, ObjField.value, Name.stripLoc]
    cases litLookup fs k with
    | some w => rfl
    | none =>
      simp only [Option.map_none]
      by_cases h : (nm.value == k) = true <;> simp [h]

theorem litWire_strip (l : Value) : litWire l.stripLoc = litWire l := by
  cases l <;> simp [Value.stripLoc, litWire]

theorem parseLiteral_strip (k : ScalarKind) (l : Value) : parseLiteral k l.stripLoc = parseLiteral k l := by
  cases k with
  | custom sv pv pl => simp only [parseLiteral, litWire_strip]
  | _ => cases l <;> simp [Value.stripLoc, parseLiteral]

theorem enumParseLiteral_strip (vals : List EnumValueS) (l : Value) :
    enumParseLiteral vals l.stripLoc = enumParseLiteral vals l := by
  cases l <;> simp [Value.stripLoc, enumParseLiteral]

mutual
theorem litDepth_strip : ∀ v : Value, litDepth v.stripLoc = litDepth v
  | .var _ _ => rfl
  | .int _ _ => rfl
  | .float _ _ => rfl
  | .str _ _ => rfl
  | .bool _ _ => rfl
  | .enum _ _ => rfl
  | .list vs _ => by simp only [Value.stripLoc, litDepth, litDepthList_strip vs]
  | .obj fs _ => by simp only [Value.stripLoc, litDepth, litDepthFields_strip fs]
theorem litDepthList_strip : ∀ vs : List Value, litDepthList (Value.stripLocList vs) = litDepthList vs
  | [] => rfl
  | v :: vs => by simp only [Value.stripLocList, litDepthList, litDepth_strip v, litDepthList_strip vs]
theorem litDepthFields_strip : ∀ fs : List ObjField, litDepthFields (ObjField.stripLocList fs) = litDepthFields fs
  | [] => rfl
  | (.mk n v l) :: fs => by
    simp only [ObjField.stripLocList, ObjField.stripLoc, litDepthFields, litDepth_strip v, litDepthFields_strip fs]
end

theorem fromASTStep_strip (s : Schema) (vars : Vars) (f g : GType → Option Value → JVal)
    (ih : ∀ t l, f t (l.map Value.stripLoc) = g t l) :
    ∀ t l, fromASTStep s vars f t (l.map Value.stripLoc) = fromASTStep s vars g t l := by
  intro t
  induction t with
  | nonNull t iht =>
    intro l
    cases l with
    | none => rfl
    | some l =>
      cases l with
      | var x loc => simp [Value.stripLoc, fromASTStep]
      | list ls loc => simpa [Value.stripLoc, fromASTStep] using iht (some (.list ls loc))
      | obj fs loc => simpa [Value.stripLoc, fromASTStep] using iht (some (.obj fs loc))
      | int r loc => simpa [Value.stripLoc, fromASTStep] using iht (some (.int r loc))
      | float r loc => simpa [Value.stripLoc, fromASTStep] using iht (some (.float r loc))
      | str r loc => simpa [Value.stripLoc, fromASTStep] using iht (some (.str r loc))
      | bool r loc => simpa [Value.stripLoc, fromASTStep] using iht (some (.bool r loc))
      | «enum» r loc => simpa [Value.stripLoc, fromASTStep] using iht (some (.enum r loc))
  | list t iht =>
    intro l
    cases l with
    | none => rfl
    | some l =>
      cases l with
      | var x loc => simp [Value.stripLoc, fromASTStep]
      | list ls loc =>
        simp only [Option.map_some, Value.stripLoc, fromASTStep, stripLocList_eq_map, List.map_map]
        congr 1
        apply map_congr'
        intro x _
        exact iht (some x)
      | obj fs loc =>
        have := iht (some (.obj fs loc))
        simp only [Option.map_some, Value.stripLoc] at this
        simp only [Option.map_some, Value.stripLoc, fromASTStep, this]
      | int r loc =>
        have := iht (some (.int r loc))
        simp only [Option.map_some, Value.stripLoc] at this
        simp only [Option.map_some, Value.stripLoc, fromASTStep, this]
      | float r loc =>
        have := iht (some (.float r loc))
        simp only [Option.map_some, Value.stripLoc] at this
        simp only [Option.map_some, Value.stripLoc, fromASTStep, this]
      | str r loc =>
        have := iht (some (.str r loc))
        simp only [Option.map_some, Value.stripLoc] at this
        simp only [Option.map_some, Value.stripLoc, fromASTStep, this]
      | bool r loc =>
        have := iht (some (.bool r loc))
        simp only [Option.map_some, Value.stripLoc] at this
        simp only [Option.map_some, Value.stripLoc, fromASTStep, this]
      | «enum» r loc =>
        have := iht (some (.enum r loc))
        simp only [Option.map_some, Value.stripLoc] at this
        simp only [Option.map_some, Value.stripLoc, fromASTStep, this]
  | named n =>
    intro l
    cases l with
    | none => rfl
    | some l =>
      cases hf : s.find? n with
      | none => cases l <;> simp [Value.stripLoc, fromASTStep, hf]
      | some td =>
        cases td with
        | scalar nm k d =>
          have := parseLiteral_strip k l
          cases l <;> simp_all [Value.stripLoc, fromASTStep, hf]
        | «enum» nm vals d =>
          have := enumParseLiteral_strip vals l
          cases l <;> simp_all [Value.stripLoc, fromASTStep, hf]
        | inputObject nm fields d =>
          cases l with
          | obj fs loc =>
            simp only [Option.map_some, Value.stripLoc, fromASTStep, hf]
            congr 2
            apply filterMap_congr'
            intro fl _
            rw [litLookup_strip, ih]
          | _ => simp [Value.stripLoc, fromASTStep, hf]
        | object _ _ _ _ _ => cases l <;> simp [Value.stripLoc, fromASTStep, hf]
        | interface _ _ _ _ => cases l <;> simp [Value.stripLoc, fromASTStep, hf]
        | union _ _ _ _ => cases l <;> simp [Value.stripLoc, fromASTStep, hf]

theorem valueFromASTF_strip (s : Schema) (vars : Vars) : ∀ (n : Nat) (t : GType) (l : Option Value),
    valueFromASTF s vars n t (l.map Value.stripLoc) = valueFromASTF s vars n t l := by
  intro n
  induction n with
  | zero => intro t l; rfl
  | succ n ih => intro t l; exact fromASTStep_strip s vars _ _ ih t l

/-- evaluation of a literal does not look at source locations -/
theorem valueFromAST_strip (s : Schema) (t : GType) (v : Value) (vars : Vars) :
    valueFromAST s t (some v.stripLoc) vars = valueFromAST s t (some v) vars := by
  unfold valueFromAST
  have hd : optLitDepth (some v.stripLoc) = optLitDepth (some v) := by simp [optLitDepth, litDepth_strip]
  rw [hd]
  exact valueFromASTF_strip s vars _ t (some v)

theorem valueFromAST_of_same_shape (s : Schema) (t : GType) (v w : Value) (vars : Vars) (h : v.stripLoc = w.stripLoc) :
    valueFromAST s t (some v) vars = valueFromAST s t (some w) vars := by
  rw [← valueFromAST_strip s t v, ← valueFromAST_strip s t w, h]

/-! ## the key -/

theorem render_toList (t : GType) : t.render.toList = typeC (typeRefOf t) := by
  induction t with
  | named n => rfl
  | list t ih => simp [GType.render, typeRefOf, typeC, String.toList_append, ih]
  | nonNull t ih => simp [GType.render, typeRefOf, typeC, String.toList_append, ih]

theorem typeRefOf_stripLoc (t : GType) : (typeRefOf t).stripLoc = typeRefOf t := by
  induction t with
  | named n => rfl
  | list t ih => simp [typeRefOf, TypeRef.stripLoc, ih, Loc.none]
  | nonNull t ih => simp [typeRefOf, TypeRef.stripLoc, ih, Loc.none]

theorem typeOfRef_typeRefOf' (t : GType) : typeOfRef (typeRefOf t) = t := by
  induction t with
  | named n => rfl
  | list t ih => simp [typeRefOf, typeOfRef, ih]
  | nonNull t ih => simp [typeRefOf, typeOfRef, ih]

theorem litKey_toList (t : GType) (v : Value) :
    (litKey t v).toList = typeC (typeRefOf t) ++ (Char.ofNat 0 :: valueC v) := by
  have hs : (String.singleton (Char.ofNat 0)).toList = [Char.ofNat 0] := by decide
  unfold litKey
  rw [String.toList_append, String.toList_append, render_toList, hs]
  simp only [printValue, String.toList_ofList, List.append_assoc, List.singleton_append]

/-- **the dedupe key is sound**: for well-formed types and literals, equal keys mean the same type and literals that
evaluate alike under every variable map -/
theorem litKey_sound (s : Schema) (t t' : GType) (v v' : Value)
    (ht : WFType (typeRefOf t)) (ht' : WFType (typeRefOf t')) (hv : WFValue v) (hv' : WFValue v')
    (h : litKey t v = litKey t' v') :
    t = t' ∧ ∀ vars, valueFromAST s t (some v) vars = valueFromAST s t' (some v') vars := by
  have hl : (litKey t v).toList = (litKey t' v').toList := by rw [h]
  rw [litKey_toList, litKey_toList] at hl
  have hdelim : ∀ rest : List Char, TypeDelim (Char.ofNat 0 :: rest) := by
    intro rest
    refine ⟨⟨by decide, by decide⟩, ?_⟩
    have : skipIgnored (Char.ofNat 0 :: rest) = Char.ofNat 0 :: rest := by
      simp only [skipIgnored]
      have : isIgnored (Char.ofNat 0) = false := by decide
      simp [this]
    rw [this]
    show Char.ofNat 0 ≠ '!'
    decide
  have r1 := readTypeTop_typeC (typeRefOf t) ht _ (hdelim (valueC v))
  have r2 := readTypeTop_typeC (typeRefOf t') ht' _ (hdelim (valueC v'))
  rw [hl, r2] at r1
  simp only [Option.some.injEq, Prod.mk.injEq, List.cons.injEq, true_and] at r1
  obtain ⟨htt, hvv⟩ := r1
  rw [typeRefOf_stripLoc, typeRefOf_stripLoc] at htt
  have hteq : t = t' := by
    have := congrArg typeOfRef htt
    rw [typeOfRef_typeRefOf', typeOfRef_typeRefOf'] at this
    exact this.symm
  have v1 := readValueTop_valueC v hv [] trivial
  have v2 := readValueTop_valueC v' hv' [] trivial
  rw [hvv, v1] at v2
  simp only [Option.some.injEq, Prod.mk.injEq, and_true] at v2
  subst hteq
  exact ⟨rfl, fun vars => valueFromAST_of_same_shape s t v v' vars v2⟩

/-! ## well-formed values have lexer-shaped Int tokens -/

theorem isDigit_iff (c : Char) : Reader.isDigit c = c.isDigit := by
  unfold Reader.isDigit Char.isDigit
  have h1 : (48 ≤ c.toNat) = (c.val ≥ '0'.val) := by
    apply propext
    constructor <;> intro h
    · exact (UInt32.le_iff_toNat_le).mpr h
    · exact (UInt32.le_iff_toNat_le).mp h
  have h2 : (c.toNat ≤ 57) = (c.val ≤ '9'.val) := by
    apply propext
    constructor <;> intro h
    · exact (UInt32.le_iff_toNat_le).mpr h
    · exact (UInt32.le_iff_toNat_le).mp h
  simp only [h1, h2]

theorem natOfDigits_isSome_of_body {cs : List Char} (h : isIntBody cs = true) : (natOfDigits cs).isSome = true := by
  cases cs with
  | nil => simp [isIntBody] at h
  | cons c r =>
    have hall : allDigits (c :: r) = true := by
      simp only [isIntBody] at h
      simp only [allDigits, List.isEmpty_cons, Bool.not_false, Bool.true_and, List.all_cons, Bool.and_eq_true]
      by_cases hc : c = '0'
      · subst hc
        simp only [if_true, List.isEmpty_iff] at h
        subst h
        exact ⟨by decide, by simp⟩
      · simp only [hc, if_false, Bool.and_eq_true] at h
        refine ⟨by rw [← isDigit_iff]; exact h.1, ?_⟩
        simp only [List.all_eq_true] at h ⊢
        intro x hx
        rw [← isDigit_iff]; exact h.2 x hx
    simp [natOfDigits, hall]

theorem intOfChars_isSome_of_lit {cs : List Char} (h : isIntLit cs = true) : (intOfChars cs).isSome = true := by
  cases cs with
  | nil => simp [isIntLit] at h
  | cons c r =>
    simp only [isIntLit] at h
    by_cases hc : c = '-'
    · subst hc
      simp only [if_true] at h
      have := natOfDigits_isSome_of_body h
      cases hn : natOfDigits r with
      | none => simp [hn] at this
      | some n => simp [intOfChars, hn]
    · simp only [hc, if_false] at h
      have := natOfDigits_isSome_of_body h
      have hi : intOfChars (c :: r) = (natOfDigits (c :: r)).map (fun n => (n : Int)) := by
        unfold intOfChars
        split
        · rename_i heq; simp at heq; exact absurd heq.1 hc
        · rfl
      cases hn : natOfDigits (c :: r) with
      | none => simp [hn] at this
      | some n => simp [hi, hn]

mutual
theorem canonInts_of_wf : ∀ v : Value, WFValue v → canonInts v = true
  | .var _ _, _ => rfl
  | .int r _, h => by simp only [WFValue] at h; simp only [canonInts]; exact intOfChars_isSome_of_lit h
  | .float _ _, _ => rfl
  | .str _ _, _ => rfl
  | .bool _ _, _ => rfl
  | .enum _ _, _ => rfl
  | .list vs _, h => by simp only [WFValue] at h; simp only [canonInts]; exact canonIntsList_of_wf vs h
  | .obj fs _, h => by simp only [WFValue] at h; simp only [canonInts]; exact canonIntsFields_of_wf fs h
theorem canonIntsList_of_wf : ∀ vs : List Value, WFValues vs → canonIntsList vs = true
  | [], _ => rfl
  | v :: vs, h => by
    simp only [WFValues] at h
    simp only [canonIntsList, canonInts_of_wf v h.1, canonIntsList_of_wf vs h.2, Bool.and_self]
theorem canonIntsFields_of_wf : ∀ fs : List ObjField, WFFields fs → canonIntsFields fs = true
  | [], _ => rfl
  | (.mk n v l) :: fs, h => by
    simp only [WFFields, WFField] at h
    simp only [canonIntsFields, canonInts_of_wf v h.1.2, canonIntsFields_of_wf fs h.2, Bool.and_self]
end

end GqlModel.Normalize
