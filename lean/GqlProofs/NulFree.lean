import GqlProofs.LexerRelex
import GqlProofs.LexerProgress
import GqlProofs.LexerGrammar
import GqlModel.ParseBytes

/-!
# Text that lexes contains no NUL byte

The lexer model (`Lexer.lexAll`, the bug-faithful model of lexer.go) accepts a text only if every byte of it was read by
one of its scanners, and every scanner rejects the byte 0: Ignored is TAB / LF / CR / space / comma / BOM / comments
(comment bytes are TAB or ≥ 0x20), a token never starts with a control character other than TAB / LF / CR, names and
numbers are made of letters, digits and a few punctuation bytes, strings and block strings reject control characters
other than TAB (and LF / CR in block strings). Hence `parseBytes b = .ok _ → 0 ∉ b` (`parseBytes_nz`).

The proof goes through the spec scanners (`Spec.ignoredLen`, `Spec.token`) and the UNCONDITIONAL step theorem
`readToken_spec` (the D-03a rune/byte mixture only makes a NAME token END EARLIER than its lexeme, so the next scan
re-reads bytes, it never skips any).

C06 uses it for the `"\x00"` separator of the normalising plan-cache key.
-/

namespace GqlModel.Lexer
open GqlModel.Utf8 GqlModel.Lexer.Spec

/-- no byte is 0 -/
def NZ (bs : Bytes) : Prop := ∀ b ∈ bs, b ≠ 0

theorem NZ_nil : NZ [] := fun _ h => by cases h

theorem NZ_cons {c : UInt8} {r : Bytes} (hc : c ≠ 0) (hr : NZ r) : NZ (c :: r) := by
  intro b hb
  rcases List.mem_cons.mp hb with rfl | hb
  · exact hc
  · exact hr b hb

theorem NZ_append {a b : Bytes} (ha : NZ a) (hb : NZ b) : NZ (a ++ b) := by
  intro x hx
  rcases List.mem_append.mp hx with h | h
  · exact ha x h
  · exact hb x h

theorem NZ_take_le {l : Bytes} {m n : Nat} (h : NZ (l.take n)) (hmn : m ≤ n) : NZ (l.take m) := by
  intro b hb
  apply h b
  have : l.take m = (l.take n).take m := by rw [List.take_take, Nat.min_eq_left hmn]
  rw [this] at hb
  exact List.mem_of_mem_take hb

theorem take_succ_cons_nz {c : UInt8} {r : Bytes} {n : Nat} (hc : c ≠ 0) (hr : NZ (r.take n)) : NZ ((c :: r).take (n + 1)) := by
  rw [List.take_succ_cons]; exact NZ_cons hc hr

/-! ## Ignored -/

theorem ignored_nz : ∀ (n : Nat) (fl : Bool) (rest : Bytes), rest.length ≤ n → NZ (rest.take (ignoredLen fl rest)) := by
  intro n
  induction n with
  | zero =>
    intro fl rest h
    match rest with
    | [] => cases fl <;> simp [ignoredLen, NZ_nil]
  | succ n ih =>
    intro fl rest h
    match rest with
    | [] => cases fl <;> simp [ignoredLen, NZ_nil]
    | c :: r =>
      simp only [List.length_cons] at h
      have hr : r.length ≤ n := by omega
      cases fl with
      | true =>
        rw [ignoredLen_true_cons]
        split
        · rename_i hc
          exact take_succ_cons_nz (by rcases hc with rfl | rfl <;> decide) (ih false r hr)
        · split
          · rename_i hc
            refine take_succ_cons_nz ?_ (ih true r hr)
            intro h0; subst h0; simp [isCommentByte] at hc
          · simp [NZ_nil]
      | false =>
        rw [ignoredLen_false_cons]
        split
        · rename_i hc
          exact take_succ_cons_nz (by rcases hc with rfl | rfl | rfl | rfl | rfl <;> decide) (ih false r hr)
        · split
          · rename_i hc
            exact take_succ_cons_nz (by subst hc; decide) (ih true r hr)
          · split
            · rename_i hc
              match r with
              | b1 :: b2 :: r' =>
                simp only
                split
                · rename_i hb
                  simp only [List.length_cons] at hr
                  have := ih false r' (by omega)
                  show NZ ((c :: b1 :: b2 :: r').take (ignoredLen false r' + 3))
                  rw [show ignoredLen false r' + 3 = (ignoredLen false r' + 1 + 1) + 1 from rfl,
                    List.take_succ_cons, List.take_succ_cons, List.take_succ_cons]
                  exact NZ_cons (by subst hc; decide) (NZ_cons (by rw [hb.1]; decide) (NZ_cons (by rw [hb.2]; decide) this))
                · simp [NZ_nil]
              | [] => simp [NZ_nil]
              | [_] => simp [NZ_nil]
            · simp [NZ_nil]

/-! ## Tokens -/

theorem span_nz (p : UInt8 → Bool) (hp : ∀ c, p c = true → c ≠ 0) (l : Bytes) : NZ (l.take (spanLen p l)) :=
  fun b hb => hp b (spanLen_take_all p l b hb)

theorem digit_ne_zero {c : UInt8} (h : isDigitByte c) : c ≠ 0 := by
  intro h0; subst h0; simp [isDigitByte] at h

theorem nameCont_ne_zero {c : UInt8} (h : isNameContByte c) : c ≠ 0 := by
  intro h0; subst h0; simp [isNameContByte, isNameStartByte, isDigitByte] at h

theorem allDigits_nz {l : Bytes} (h : AllDigits l) : NZ l := fun b hb => digit_ne_zero (h b hb)

theorem integerPart_nz {l : Bytes} (h : IsIntegerPart l) : NZ l := by
  obtain ⟨sign, body, rfl, hs, hb⟩ := h
  refine NZ_append ?_ ?_
  · rcases hs with rfl | rfl
    · exact NZ_nil
    · exact NZ_cons (by decide) NZ_nil
  · rcases hb with rfl | ⟨d, ds, rfl, hd, _, hds⟩
    · exact NZ_cons (by decide) NZ_nil
    · exact NZ_cons (digit_ne_zero hd) (allDigits_nz hds)

theorem fractionalPart_nz {l : Bytes} (h : IsFractionalPart l) : NZ l := by
  obtain ⟨ds, rfl, _, hds⟩ := h
  exact NZ_cons (by decide) (allDigits_nz hds)

theorem exponentPart_nz {l : Bytes} (h : IsExponentPart l) : NZ l := by
  obtain ⟨e, sign, ds, rfl, he, hs, _, hds⟩ := h
  refine NZ_cons (by rcases he with rfl | rfl <;> decide) (NZ_append ?_ (allDigits_nz hds))
  rcases hs with rfl | rfl | rfl
  · exact NZ_nil
  · exact NZ_cons (by decide) NZ_nil
  · exact NZ_cons (by decide) NZ_nil

theorem number_nz {bs : Bytes} {k : TokenKind} {len : Nat} (h : number bs = .ok (k, len)) : NZ (bs.take len) := by
  rcases number_sound h with ⟨_, hi⟩ | ⟨_, hf⟩
  · exact integerPart_nz hi
  · obtain ⟨i, f, x, heq, hi, hfx⟩ := hf
    rw [heq]
    refine NZ_append (NZ_append (integerPart_nz hi) ?_) ?_
    · rcases hfx with ⟨hf, _⟩ | ⟨rfl, _⟩ | ⟨hf, _⟩
      · exact fractionalPart_nz hf
      · exact NZ_nil
      · exact fractionalPart_nz hf
    · rcases hfx with ⟨_, rfl⟩ | ⟨_, hx⟩ | ⟨_, hx⟩
      · exact NZ_nil
      · exact exponentPart_nz hx
      · exact exponentPart_nz hx

theorem stringBody_nz : ∀ (n : Nat) (bs : Bytes), bs.length ≤ n → ∀ len v, stringBody bs = .ok (len, v) → NZ (bs.take len) := by
  intro n
  induction n with
  | zero =>
    intro bs h len v hs
    match bs with
    | [] => simp [stringBody] at hs
  | succ n ih =>
    intro bs h len v hs
    match bs with
    | [] => simp [stringBody] at hs
    | c :: r =>
      simp only [List.length_cons] at h
      rw [stringBody_cons] at hs
      split at hs
      · rename_i hc
        simp only [Except.ok.injEq, Prod.mk.injEq] at hs
        rw [← hs.1]
        exact take_succ_cons_nz (n := 0) (by subst hc; decide) (by simp [NZ_nil])
      split at hs
      · simp at hs
      split at hs
      · simp at hs
      rename_i hq hnl hctl
      have hc0 : c ≠ 0 := by
        intro h0; subst h0; exact hctl ⟨by decide, by decide⟩
      split at hs
      · match r, hs with
        | [], hs => simp at hs
        | e :: r1, hs =>
          simp only [List.length_cons] at h
          simp only at hs
          cases he : escapedCharacter e with
          | some b =>
            rw [he] at hs; simp only at hs
            obtain ⟨len', v', hx, hlen, _⟩ := adv_eq_ok hs
            have := ih r1 (by omega) len' v' hx
            rw [hlen, show len' + 2 = (len' + 1) + 1 from rfl]
            refine take_succ_cons_nz hc0 (take_succ_cons_nz ?_ this)
            intro h0; subst h0; simp [escapedCharacter] at he
          | none =>
            rw [he] at hs; simp only at hs
            split at hs
            · rename_i hu
              match r1, hs with
              | h1 :: h2 :: h3 :: h4 :: r2, hs =>
                simp only [List.length_cons] at h
                simp only at hs
                cases hun : escapedUnicode h1 h2 h3 h4 with
                | none => rw [hun] at hs; simp at hs
                | some u =>
                  rw [hun] at hs; simp only at hs
                  obtain ⟨len', v', hx, hlen, _⟩ := adv_eq_ok hs
                  have := ih r2 (by omega) len' v' hx
                  have hhex : ∀ x : UInt8, hexValue x ≠ none → x ≠ 0 := by
                    intro x hx h0; subst h0; exact hx (by decide)
                  have hh : hexValue h1 ≠ none ∧ hexValue h2 ≠ none ∧ hexValue h3 ≠ none ∧ hexValue h4 ≠ none := by
                    unfold escapedUnicode at hun
                    cases a1 : hexValue h1 <;> cases a2 : hexValue h2 <;> cases a3 : hexValue h3 <;>
                      cases a4 : hexValue h4 <;> simp [a1, a2, a3, a4] at hun ⊢
                  rw [hlen, show len' + 6 = (((((len' + 1) + 1) + 1) + 1) + 1) + 1 from rfl]
                  exact take_succ_cons_nz hc0 (take_succ_cons_nz (by subst hu; decide)
                    (take_succ_cons_nz (hhex _ hh.1) (take_succ_cons_nz (hhex _ hh.2.1)
                      (take_succ_cons_nz (hhex _ hh.2.2.1) (take_succ_cons_nz (hhex _ hh.2.2.2) this)))))
              | [], hs => simp at hs
              | [_], hs => simp at hs
              | [_, _], hs => simp at hs
              | [_, _, _], hs => simp at hs
            · simp at hs
      · obtain ⟨len', v', hx, hlen, _⟩ := adv_eq_ok hs
        have := ih r (by omega) len' v' hx
        rw [hlen]
        exact take_succ_cons_nz hc0 this

theorem blockBody_nz : ∀ (n : Nat) (bs : Bytes), bs.length ≤ n → ∀ len v, blockBody bs = .ok (len, v) → NZ (bs.take len) := by
  intro n
  induction n with
  | zero =>
    intro bs h len v hs
    match bs with
    | [] => simp [blockBody] at hs
  | succ n ih =>
    intro bs h len v hs
    match bs with
    | [] => simp [blockBody] at hs
    | c :: r =>
      simp only [List.length_cons] at h
      rw [blockBody_cons] at hs
      split at hs
      · rename_i hq
        simp only [Except.ok.injEq, Prod.mk.injEq] at hs
        rw [← hs.1]
        match r, hq with
        | q1 :: q2 :: r3, hq =>
          simp only [List.head?_cons, Option.some.injEq, List.drop_succ_cons, List.drop_zero] at hq
          show NZ ((c :: q1 :: q2 :: r3).take 3)
          simp only [List.take_succ_cons, List.take_zero]
          exact NZ_cons (by rw [hq.1]; decide) (NZ_cons (by rw [hq.2.1]; decide) (NZ_cons (by rw [hq.2.2]; decide) NZ_nil))
        | [q1], hq => simp at hq
        | [], hq => simp at hq
      split at hs
      · simp at hs
      rename_i hq hctl
      have hc0 : c ≠ 0 := by
        intro h0; subst h0; exact hctl ⟨by decide, by decide, by decide, by decide⟩
      split at hs
      · rename_i hq4
        match r, hq4, hs with
        | q1 :: q2 :: q3 :: r3, hq4, hs =>
          simp only [List.length_cons] at h
          simp only [List.head?_cons, Option.some.injEq, List.drop_succ_cons, List.drop_zero] at hq4 hs
          obtain ⟨len', v', hx, hlen, _⟩ := adv_eq_ok hs
          have := ih r3 (by omega) len' v' hx
          rw [hlen, show len' + 4 = (((len' + 1) + 1) + 1) + 1 from rfl]
          exact take_succ_cons_nz hc0 (take_succ_cons_nz (by rw [hq4.2.1]; decide)
            (take_succ_cons_nz (by rw [hq4.2.2.1]; decide) (take_succ_cons_nz (by rw [hq4.2.2.2]; decide) this)))
        | [_, _], hq4, _ => simp at hq4
        | [_], hq4, _ => simp at hq4
        | [], hq4, _ => simp at hq4
      · obtain ⟨len', v', hx, hlen, _⟩ := adv_eq_ok hs
        have := ih r (by omega) len' v' hx
        rw [hlen]
        exact take_succ_cons_nz hc0 this

/-- the lexeme of a token contains no NUL byte -/
theorem token_nz {bs : Bytes} {k : TokenKind} {len : Nat} {v : Bytes} (h : token bs = .ok (k, len, v)) : NZ (bs.take len) := by
  match bs with
  | [] => simp [token] at h
  | c :: r =>
    by_cases hctl : isCtrl c
    · rw [token_ctrl c r hctl] at h; simp at h
    have hc0 : c ≠ 0 := by
      intro h0; subst h0; exact hctl ⟨by decide, by decide, by decide, by decide⟩
    cases hp : punctuatorByte c with
    | some k' =>
      rw [token_punct c r hctl hp] at h
      simp only [Except.ok.injEq, Prod.mk.injEq] at h
      rw [← h.2.1]
      exact take_succ_cons_nz (n := 0) hc0 (by simp [NZ_nil])
    | none =>
      by_cases hdot : c = 46
      · subst hdot
        rw [token_dot] at h
        split at h
        · rename_i hd
          simp only [Except.ok.injEq, Prod.mk.injEq] at h
          rw [← h.2.1]
          match r, hd with
          | d1 :: d2 :: r', hd =>
            simp only [List.head?_cons, Option.some.injEq, List.drop_succ_cons, List.drop_zero] at hd
            simp only [List.take_succ_cons, List.take_zero]
            exact NZ_cons hc0 (NZ_cons (by rw [hd.1]; decide) (NZ_cons (by rw [hd.2]; decide) NZ_nil))
          | [_], hd => simp at hd
          | [], hd => simp at hd
        · simp at h
      by_cases hn : isNameStartByte c
      · rw [token_name c r hctl hp hdot hn] at h
        simp only [Except.ok.injEq, Prod.mk.injEq] at h
        rw [← h.2.1]
        exact span_nz _ (fun x hx => nameCont_ne_zero (of_decide_eq_true hx)) (c :: r)
      by_cases hnum : c = 45 ∨ isDigitByte c
      · rw [token_number c r hctl hp hdot hn hnum] at h
        cases hnb : number (c :: r) with
        | error e => rw [hnb] at h; simp at h
        | ok kl =>
          obtain ⟨k', len'⟩ := kl
          rw [hnb] at h
          simp only [Except.ok.injEq, Prod.mk.injEq] at h
          rw [← h.2.1]
          exact number_nz hnb
      by_cases hq : c = 34
      · subst hq
        rw [token_quote] at h
        split at h
        · rename_i hqq
          cases hb : blockBody (r.drop 2) with
          | error e => obtain ⟨o, e⟩ := e; rw [hb] at h; simp at h
          | ok lv =>
            obtain ⟨len', raw⟩ := lv
            rw [hb] at h
            simp only [Except.ok.injEq, Prod.mk.injEq] at h
            rw [← h.2.1]
            have := blockBody_nz (r.drop 2).length (r.drop 2) (Nat.le_refl _) len' raw hb
            match r, hqq, this with
            | q1 :: q2 :: r3, hqq, this =>
              simp only [List.head?_cons, Option.some.injEq, List.drop_succ_cons, List.drop_zero] at hqq this
              rw [show len' + 3 = ((len' + 1) + 1) + 1 from rfl]
              exact take_succ_cons_nz hc0 (take_succ_cons_nz (by rw [hqq.1]; decide) (take_succ_cons_nz (by rw [hqq.2]; decide) this))
            | [_], hqq, _ => simp at hqq
            | [], hqq, _ => simp at hqq
        · cases hsb : stringBody r with
          | error e => obtain ⟨o, e⟩ := e; rw [hsb] at h; simp at h
          | ok lv =>
            obtain ⟨len', v'⟩ := lv
            rw [hsb] at h
            simp only [Except.ok.injEq, Prod.mk.injEq] at h
            rw [← h.2.1]
            exact take_succ_cons_nz hc0 (stringBody_nz r.length r (Nat.le_refl _) len' v' hsb)
      · rw [token_other c r hctl hp hdot hn hnum hq] at h; simp at h

/-! ## The token stream -/

theorem take_add_nz {l : Bytes} {a b : Nat} (h1 : NZ (l.take a)) (h2 : NZ ((l.drop a).take b)) : NZ (l.take (a + b)) := by
  rw [List.take_add]; exact NZ_append h1 h2

/-- if the bytes before the scan position are NUL-free and the model lexes the rest without error, the whole text is
NUL-free (any fuel; D-03a's early NAME ends only make the next scan re-read bytes) -/
theorem lexLoop_nz (body : Bytes) : ∀ (f off : Nat), NZ (body.take off) → (lexLoop f body off).err = none → NZ body := by
  intro f
  induction f with
  | zero => intro off _ h; simp [lexLoop] at h
  | succ f ih =>
    intro off hpre herr
    obtain ⟨k, hle, _, hstep⟩ := readToken_spec body off
    have hign : NZ ((body.drop off).take (ignoredLen false (body.drop off))) :=
      ignored_nz _ false (body.drop off) (Nat.le_refl _)
    match hd : (body.drop off).drop (ignoredLen false (body.drop off)) with
    | [] =>
      have hall : NZ (body.take (off + ignoredLen false (body.drop off))) := take_add_nz hpre hign
      have hlen : body.length ≤ off + ignoredLen false (body.drop off) := by
        have := congrArg List.length hd
        simp only [List.length_drop, List.length_nil] at this
        omega
      rw [List.take_of_length_le hlen] at hall
      exact hall
    | c :: r =>
      rw [hd] at hstep; simp only at hstep
      match ht : token (c :: r) with
      | .ok (kind, len, v) =>
        rw [ht] at hstep; simp only at hstep
        have hne : kind ≠ .eof := token_ne_eof ht
        simp only [lexLoop, hstep, makeToken, hne, if_false] at herr
        refine ih _ ?_ herr
        have htok : NZ (((body.drop off).drop (ignoredLen false (body.drop off))).take len) := by
          rw [hd]; exact token_nz ht
        have hall : NZ (body.take (off + ignoredLen false (body.drop off) + len)) :=
          take_add_nz (take_add_nz hpre hign) (by rw [List.drop_drop] at htok; exact htok)
        refine NZ_take_le hall ?_
        split <;> omega
      | .error (o, ek) =>
        rw [ht] at hstep; simp only at hstep
        obtain ⟨q, hq, _⟩ := hstep
        simp [lexLoop, hq] at herr

/-- **text the lexer model accepts contains no NUL byte** -/
theorem lexAll_nz (body : Bytes) (h : (lexAll body).err = none) : NZ body :=
  lexLoop_nz body _ 0 (by simp [NZ_nil]) h

end GqlModel.Lexer

namespace GqlModel

/-- **text that parses contains no NUL byte** (`parseBytes` = lexer model + parser model) -/
theorem parseBytes_nz (b : Lexer.Bytes) (p : Parser.Parsed) (h : parseBytes b = .ok p) : ∀ x ∈ b, x ≠ 0 := by
  unfold parseBytes at h
  cases he : (Lexer.lexAll b).err with
  | some e => rw [he] at h; simp at h
  | none => exact Lexer.lexAll_nz b he

end GqlModel
