import GqlProofs.ParserErrPos
/-! Prefix determinism of the parser model (C18, "not later"): the outcome of an action up to its first syntax error
depends only on the tokens it consumed plus the one it looks at.  `Loc2 B' m m'`: whatever `m` does on `σ` (success
having consumed `c` tokens, or a syntax error blaming the token at index `d`), `m'` does on every `σ'` that agrees with
`σ` on the first `c + 1` (resp. `d + 1`) tokens.  `m'` is `m` itself except for the fuelled recursions, where the two
sides run on different fuel (`B'` bounds the tokens of `σ'`, as in `NFb`). -/
namespace GqlModel.Parser
open GqlModel GqlModel.Grammar

set_option linter.unusedSimpArgs false
set_option linter.unusedVariables false
set_option synthInstance.maxSize 2048
set_option synthInstance.maxHeartbeats 400000

theorem bind_run' {α β} (m : P α) (f : α → P β) (σ : PState) :
    (m >>= f) σ = (match m σ with | .error e => .error e | .ok (a, σ1) => f a σ1) := rfl

/-- `σ` and `σ'` have the same parser registers and the same first `j` tokens (both have at least `j`) -/
structure Agree (j : Nat) (σ σ' : PState) : Prop where
  pe : σ.prevEnd = σ'.prevEnd
  bad : σ.bad = σ'.bad
  le : j ≤ σ.toks.length
  le' : j ≤ σ'.toks.length
  tk : σ.toks.take j = σ'.toks.take j

theorem Agree.mono {i j : Nat} {σ σ' : PState} (h : Agree j σ σ') (hij : i ≤ j) : Agree i σ σ' :=
  ⟨h.pe, h.bad, Nat.le_trans hij h.le, Nat.le_trans hij h.le', by
    have := congrArg (List.take i) h.tk
    simpa [List.take_take, Nat.min_eq_left hij] using this⟩

theorem Agree.cons {j : Nat} {σ σ' : PState} (h : Agree j σ σ') (hj : 1 ≤ j) :
    ∃ t r r', σ.toks = t :: r ∧ σ'.toks = t :: r' ∧ r.take (j - 1) = r'.take (j - 1) := by
  obtain ⟨pe, bad, le, le', tk⟩ := h
  cases hs : σ.toks with
  | nil => rw [hs] at le; simp at le; omega
  | cons t r =>
    cases hs' : σ'.toks with
    | nil => rw [hs'] at le'; simp at le'; omega
    | cons t' r' =>
      rw [hs, hs'] at tk
      obtain ⟨i, rfl⟩ : ∃ i, j = i + 1 := ⟨j - 1, by omega⟩
      simp only [List.take_succ_cons, List.cons.injEq] at tk
      exact ⟨t, r, r', rfl, by rw [tk.1], by simpa using tk.2⟩

theorem Agree.cur {j : Nat} {σ σ' : PState} (h : Agree j σ σ') (hj : 1 ≤ j) : σ.cur = σ'.cur := by
  obtain ⟨t, r, r', hs, hs', _⟩ := h.cons hj
  rw [cur_cons hs, cur_cons hs']

theorem Agree.adv {j : Nat} {σ σ' : PState} (h : Agree j σ σ') (hj : 1 ≤ j) :
    Agree (j - 1) σ.adv σ'.adv ∧ σ.adv.toks.length + 1 = σ.toks.length ∧ σ'.adv.toks.length + 1 = σ'.toks.length := by
  obtain ⟨t, r, r', hs, hs', htk⟩ := h.cons hj
  have hle := h.le; have hle' := h.le'
  rw [hs] at hle; rw [hs'] at hle'
  simp at hle hle'
  refine ⟨⟨by simp [PState.adv, hs, hs'], by simp [PState.adv, hs, hs', h.bad], by simp [PState.adv, hs]; omega,
    by simp [PState.adv, hs']; omega, by simpa [PState.adv, hs, hs'] using htk⟩, by simp [PState.adv, hs], by simp [PState.adv, hs']⟩

theorem Agree.next {j : Nat} {σ σ' : PState} (h : Agree j σ σ') (hj : 2 ≤ j) : σ.adv.cur = σ'.adv.cur := by
  obtain ⟨h1, _, _⟩ := h.adv (by omega)
  exact h1.cur (by omega)

/-- the `left` of a syntax error never exceeds the tokens at hand -/
class ErrLe {α} (m : P α) : Prop where
  le : ∀ σ pos b l, m σ = .error (.syntax pos b l) → l ≤ σ.toks.length

instance (priority := low) ErrAt.errLe {α} {m : P α} [h : ErrAt m] : ErrLe m := ⟨fun σ pos b l hm => (h.err σ pos b l hm).1⟩

instance {α} (a : α) : ErrLe (pure a : P α) := ⟨fun σ pos b l h => by simp at h⟩
instance {α} (p : Nat) : ErrLe (fail p : P α) := ⟨fun σ pos b l h => by simp at h; omega⟩
instance {α} (a : Bool) (p : Nat) : ErrLe (failAt a p : P α) := ⟨fun σ pos b l h => by
  simp at h; obtain ⟨_, _, rfl⟩ := h; cases a <;> simp⟩
instance ErrLe.bind {α β} {m : P α} {f : α → P β} [hm : ErrLe m] [mm : Mono m] [hf : ∀ a, ErrLe (f a)] : ErrLe (m >>= f) :=
  ⟨fun σ pos b l h => by
    rcases bind_error.mp h with h1 | ⟨a, σ1, h1, h2⟩
    · exact hm.le _ _ _ _ h1
    · exact Nat.le_trans ((hf a).le _ _ _ _ h2) (mm.le _ _ _ h1)⟩
instance {α} {c : Prop} [Decidable c] {a b : P α} [ErrLe a] [ErrLe b] : ErrLe (if c then a else b) := by
  split <;> infer_instance

class Loc2 {α} (B' : Nat) (m m' : P α) : Prop where
  ok : ∀ σ σ' j a σ1, σ'.toks.length ≤ B' → Agree j σ σ' → m σ = .ok (a, σ1) →
        (σ.toks.length - σ1.toks.length) + 1 ≤ j →
        ∃ σ1', m' σ' = .ok (a, σ1') ∧ σ'.toks.length - σ1'.toks.length = σ.toks.length - σ1.toks.length ∧
          Agree (j - (σ.toks.length - σ1.toks.length)) σ1 σ1'
  err : ∀ σ σ' j pos b l, σ'.toks.length ≤ B' → Agree j σ σ' → m σ = .error (.syntax pos b l) →
        (σ.toks.length - l) + 1 ≤ j →
        ∃ l', m' σ' = .error (.syntax pos b l') ∧ σ'.toks.length - l' = σ.toks.length - l ∧ l' ≤ σ'.toks.length

/-! ### combinators -/

instance {α} {B'} (a : α) : Loc2 B' (pure a : P α) (pure a) :=
  ⟨fun σ σ' j x σ1 _ hA h hj => by
      obtain ⟨rfl, rfl⟩ := pure_ok.mp h
      exact ⟨σ', rfl, by simp, by simpa using hA⟩,
   fun σ σ' j pos b l _ _ h _ => by simp at h⟩

instance Loc2.bind {α β} {B'} {m m' : P α} {f f' : α → P β} [hm : Loc2 B' m m'] [mm : Mono m] [mm' : Mono m']
    [hf : ∀ a, Loc2 B' (f a) (f' a)] [mf : ∀ a, Mono (f a)] [mf' : ∀ a, Mono (f' a)] [ef : ∀ a, ErrLe (f a)] :
    Loc2 B' (m >>= f) (m' >>= f') := by
  constructor
  · intro σ σ' j b σ2 hB hA h hj
    obtain ⟨a, σ1, h1, h2⟩ := bind_ok.mp h
    have l1 := mm.le _ _ _ h1
    have l2 := (mf a).le _ _ _ h2
    obtain ⟨σ1', g1, e1, A1⟩ := hm.ok σ σ' j a σ1 hB hA h1 (by omega)
    have l1' := mm'.le _ _ _ g1
    obtain ⟨σ2', g2, e2, A2⟩ := (hf a).ok σ1 σ1' _ b σ2 (by omega) A1 h2 (by omega)
    have l2' := (mf' a).le _ _ _ g2
    refine ⟨σ2', by rw [bind_eq_of_ok g1]; exact g2, by omega, ?_⟩
    have : j - (σ.toks.length - σ2.toks.length) = j - (σ.toks.length - σ1.toks.length) - (σ1.toks.length - σ2.toks.length) := by omega
    rw [this]; exact A2
  · intro σ σ' j pos b l hB hA h hj
    rcases bind_error.mp h with h1 | ⟨a, σ1, h1, h2⟩
    · obtain ⟨l', g, e, hl⟩ := hm.err σ σ' j pos b l hB hA h1 hj
      refine ⟨l', ?_, e, hl⟩
      show P.bind m' f' σ' = _
      unfold P.bind; rw [g]
    · have l1 := mm.le _ _ _ h1
      have hl := (ef a).le _ _ _ _ h2
      obtain ⟨σ1', g1, e1, A1⟩ := hm.ok σ σ' j a σ1 hB hA h1 (by omega)
      have l1' := mm'.le _ _ _ g1
      obtain ⟨l', g2, e2, hl'⟩ := (hf a).err σ1 σ1' _ pos b l (by omega) A1 h2 (by omega)
      exact ⟨l', by rw [bind_eq_of_ok g1]; exact g2, by omega, by omega⟩

instance {α} {B'} {c : Prop} [Decidable c] {a b a' b' : P α} [Loc2 B' a a'] [Loc2 B' b b'] :
    Loc2 B' (if c then a else b) (if c then a' else b') := by
  split <;> infer_instance

/-! ### primitives -/

instance {B'} : Loc2 B' cur cur :=
  ⟨fun σ σ' j a σ1 _ hA h hj => by
      simp at h; obtain ⟨rfl, rfl⟩ := h
      exact ⟨σ', by simp [hA.cur (by omega)], by simp, by simpa using hA⟩,
   fun σ σ' j pos b l _ _ h _ => by simp at h⟩

instance {B'} (k : TokenKind) : Loc2 B' (peek k) (peek k) :=
  ⟨fun σ σ' j a σ1 _ hA h hj => by
      simp at h; obtain ⟨rfl, rfl⟩ := h
      exact ⟨σ', by simp [hA.cur (by omega)], by simp, by simpa using hA⟩,
   fun σ σ' j pos b l _ _ h _ => by simp at h⟩

instance {B'} (s : Nat) : Loc2 B' (loc s) (loc s) :=
  ⟨fun σ σ' j a σ1 _ hA h hj => by
      simp at h; obtain ⟨rfl, rfl⟩ := h
      exact ⟨σ', by simp [hA.pe], by simp, by simpa using hA⟩,
   fun σ σ' j pos b l _ _ h _ => by simp at h⟩

instance {B'} : Loc2 B' flagBad flagBad :=
  ⟨fun σ σ' j a σ1 _ hA h hj => by
      simp at h; subst h
      exact ⟨{ σ' with bad := true }, rfl, by simp, ⟨hA.pe, rfl, by simpa using hA.le, by simpa using hA.le', by simpa using hA.tk⟩⟩,
   fun σ σ' j pos b l _ _ h _ => by simp at h⟩

instance {B'} : Loc2 B' advance advance :=
  ⟨fun σ σ' j a σ1 _ hA h hj => by
      simp at h; subst h
      obtain ⟨A1, e1, e2⟩ := hA.adv (by omega)
      refine ⟨σ'.adv, rfl, by omega, ?_⟩
      have : j - (σ.toks.length - σ.adv.toks.length) = j - 1 := by omega
      rw [this]; exact A1,
   fun σ σ' j pos b l _ _ h _ => by simp at h⟩

instance {α} {B'} : Loc2 B' (outOfFuel : P α) outOfFuel :=
  ⟨fun σ σ' j a σ1 _ _ h _ => by simp at h, fun σ σ' j pos b l _ _ h _ => by simp at h⟩

instance {α} {B'} : Loc2 B' (unexpected : P α) unexpected :=
  ⟨fun σ σ' j a σ1 _ _ h _ => by simp at h,
   fun σ σ' j pos b l _ hA h hj => by
      simp at h; obtain ⟨rfl, rfl, rfl⟩ := h
      exact ⟨σ'.toks.length, by simp [hA.cur (by omega), hA.bad], by simp, Nat.le_refl _⟩⟩

instance {α} {B'} (a : Bool) (p : Nat) : Loc2 B' (failAt a p : P α) (failAt a p) :=
  ⟨fun σ σ' j x σ1 _ _ h _ => by simp at h,
   fun σ σ' j pos b l _ hA h hj => by
      simp at h; obtain ⟨rfl, rfl, rfl⟩ := h
      have := hA.le; have := hA.le'
      refine ⟨if a then σ'.toks.length - 1 else σ'.toks.length, by simp [hA.bad], ?_, ?_⟩
      · cases a <;> simp at hj ⊢ <;> omega
      · cases a <;> simp⟩

instance {α} {B'} (p : Nat) : Loc2 B' (fail p : P α) (fail p) :=
  ⟨fun σ σ' j x σ1 _ _ h _ => by simp at h,
   fun σ σ' j pos b l _ hA h hj => by
      simp at h; obtain ⟨rfl, rfl, rfl⟩ := h
      exact ⟨σ'.toks.length, by simp [hA.bad], by simp, Nat.le_refl _⟩⟩

instance {B'} (k : TokenKind) : Loc2 B' (skip k) (skip k) := by
  constructor
  · intro σ σ' j a σ1 _ hA h hj
    have hc := hA.cur (by omega)
    unfold skip at h ⊢
    split at h
    · rename_i hk
      simp at h; obtain ⟨rfl, rfl⟩ := h
      obtain ⟨A1, e1, e2⟩ := hA.adv (by omega)
      refine ⟨σ'.adv, by rw [← hc, if_pos hk], by omega, ?_⟩
      have : j - (σ.toks.length - σ.adv.toks.length) = j - 1 := by omega
      rw [this]; exact A1
    · rename_i hk
      simp at h; obtain ⟨rfl, rfl⟩ := h
      exact ⟨σ', by rw [← hc, if_neg hk], by simp, by simpa using hA⟩
  · intro σ σ' j pos b l _ _ h _
    unfold skip at h; split at h <;> simp at h

instance {B'} (k : TokenKind) : Loc2 B' (expect k) (expect k) := by
  constructor
  · intro σ σ' j a σ1 _ hA h hj
    have hc := hA.cur (by omega)
    unfold expect at h ⊢
    split at h
    · rename_i hk
      simp at h; obtain ⟨rfl, rfl⟩ := h
      obtain ⟨A1, e1, e2⟩ := hA.adv (by omega)
      refine ⟨σ'.adv, by rw [← hc, if_pos hk], by omega, ?_⟩
      have : j - (σ.toks.length - σ.adv.toks.length) = j - 1 := by omega
      rw [this]; exact A1
    · simp at h
  · intro σ σ' j pos b l _ hA h hj
    have hc := hA.cur (by omega)
    unfold expect at h ⊢
    split at h
    · simp at h
    · rename_i hk
      simp at h; obtain ⟨rfl, rfl, rfl⟩ := h
      exact ⟨σ'.toks.length, by rw [← hc, if_neg hk, hA.bad], by simp, Nat.le_refl _⟩

instance {B'} (s : String) : Loc2 B' (expectKeyword s) (expectKeyword s) := by
  constructor
  · intro σ σ' j a σ1 _ hA h hj
    have hc := hA.cur (by omega)
    unfold expectKeyword at h ⊢
    split at h
    · rename_i hk
      simp at h; obtain ⟨rfl, rfl⟩ := h
      obtain ⟨A1, e1, e2⟩ := hA.adv (by omega)
      refine ⟨σ'.adv, by rw [← hc, if_pos hk], by omega, ?_⟩
      have : j - (σ.toks.length - σ.adv.toks.length) = j - 1 := by omega
      rw [this]; exact A1
    · simp at h
  · intro σ σ' j pos b l _ hA h hj
    have hc := hA.cur (by omega)
    unfold expectKeyword at h ⊢
    split at h
    · simp at h
    · rename_i hk
      simp at h; obtain ⟨rfl, rfl, rfl⟩ := h
      exact ⟨σ'.toks.length, by rw [← hc, if_neg hk, hA.bad], by simp, Nat.le_refl _⟩

instance {B'} : Loc2 B' skipEOF skipEOF := by
  constructor
  · intro σ σ' j a σ1 _ hA h hj
    obtain ⟨t, r, r', hs, hs', _⟩ := hA.cons (by omega)
    unfold skipEOF at h ⊢
    rw [hs] at h; simp at h; obtain ⟨rfl, rfl⟩ := h
    exact ⟨σ', by rw [hs'], by simp, by simpa using hA⟩
  · intro σ σ' j pos b l _ _ h _
    unfold skipEOF at h; split at h <;> simp at h

/-- after `cur` (which does not touch the state) -/
theorem Loc2.bind_cur {β} {B'} {f f' : Token → P β} (h : ∀ t, Loc2 B' (f t) (f' t)) : Loc2 B' (cur >>= f) (cur >>= f') := by
  constructor
  · intro σ σ' j b σ2 hB hA hr hj
    have hr' : f σ.cur σ = .ok (b, σ2) := by rw [bind_eq_of_ok (f := f) (cur_run σ)] at hr; exact hr
    have hj1 : 1 ≤ j := by omega
    obtain ⟨σ2', g, e, A⟩ := (h σ.cur).ok σ σ' j b σ2 hB hA hr' hj
    exact ⟨σ2', by rw [bind_eq_of_ok (f := f') (cur_run σ'), ← hA.cur hj1]; exact g, e, A⟩
  · intro σ σ' j pos b l hB hA hr hj
    have hr' : f σ.cur σ = .error (.syntax pos b l) := by rw [bind_eq_of_ok (f := f) (cur_run σ)] at hr; exact hr
    have hj1 : 1 ≤ j := by omega
    obtain ⟨l', g, e, hl⟩ := (h σ.cur).err σ σ' j pos b l hB hA hr' hj
    exact ⟨l', by rw [bind_eq_of_ok (f := f') (cur_run σ'), ← hA.cur hj1]; exact g, e, hl⟩

/-! ### bounds, guarded recursion, loops -/

theorem Loc2.anti {α} {B' B'' : Nat} {m m' : P α} (h : Loc2 B' m m') (hb : B'' ≤ B') : Loc2 B'' m m' :=
  ⟨fun σ σ' j a σ1 hB => h.ok σ σ' j a σ1 (Nat.le_trans hB hb), fun σ σ' j pos b l hB => h.err σ σ' j pos b l (Nat.le_trans hB hb)⟩

/-- sequencing after an action that consumes: the continuation is only needed on strictly smaller bounds -/
theorem Loc2.bind_strict {α β} {B'} {m m' : P α} {f f' : α → P β} (hm : Loc2 B' m m') [mm : Mono m] [sm' : Strict m']
    (hf : ∀ B'', B'' < B' → ∀ a, Loc2 B'' (f a) (f' a)) [mf : ∀ a, Mono (f a)] [mf' : ∀ a, Mono (f' a)] [ef : ∀ a, ErrLe (f a)] :
    Loc2 B' (m >>= f) (m' >>= f') := by
  constructor
  · intro σ σ' j b σ2 hB hA h hj
    obtain ⟨a, σ1, h1, h2⟩ := bind_ok.mp h
    have l1 := mm.le _ _ _ h1
    have l2 := (mf a).le _ _ _ h2
    obtain ⟨σ1', g1, e1, A1⟩ := hm.ok σ σ' j a σ1 hB hA h1 (by omega)
    have l1' := sm'.lt _ _ _ g1
    obtain ⟨σ2', g2, e2, A2⟩ := (hf σ1'.toks.length (by omega) a).ok σ1 σ1' _ b σ2 (Nat.le_refl _) A1 h2 (by omega)
    have l2' := (mf' a).le _ _ _ g2
    refine ⟨σ2', by rw [bind_eq_of_ok g1]; exact g2, by omega, ?_⟩
    have : j - (σ.toks.length - σ2.toks.length) = j - (σ.toks.length - σ1.toks.length) - (σ1.toks.length - σ2.toks.length) := by omega
    rw [this]; exact A2
  · intro σ σ' j pos b l hB hA h hj
    rcases bind_error.mp h with h1 | ⟨a, σ1, h1, h2⟩
    · obtain ⟨l', g, e, hl⟩ := hm.err σ σ' j pos b l hB hA h1 hj
      refine ⟨l', ?_, e, hl⟩
      show P.bind m' f' σ' = _
      unfold P.bind; rw [g]
    · have l1 := mm.le _ _ _ h1
      have hl := (ef a).le _ _ _ _ h2
      obtain ⟨σ1', g1, e1, A1⟩ := hm.ok σ σ' j a σ1 hB hA h1 (by omega)
      have l1' := sm'.lt _ _ _ g1
      obtain ⟨l', g2, e2, hl'⟩ := (hf σ1'.toks.length (by omega) a).err σ1 σ1' _ pos b l (Nat.le_refl _) A1 h2 (by omega)
      exact ⟨l', by rw [bind_eq_of_ok g1]; exact g2, by omega, by omega⟩

/-- a fuelled loop started with more fuel than `σ'` has tokens -/
class LoopLoc2 {α} (B' : Nat) (loop loop' : Nat → P α) : Prop where
  loc : ∀ k k' B'', B'' < k' → B'' ≤ B' → Loc2 B'' (loop k) (loop' k')

instance loop_loc2 {α β} {B'} {loop loop' : Nat → P α} {f f' : α → P β} [hl : LoopLoc2 B' loop loop']
    [ml : ∀ k, Mono (loop k)] [ml' : ∀ k, Mono (loop' k)] [hf : ∀ x, Loc2 B' (f x) (f' x)] [mf : ∀ x, Mono (f x)]
    [mf' : ∀ x, Mono (f' x)] [ef : ∀ x, ErrLe (f x)] :
    Loc2 B' (loopFuel >>= fun k => loop k >>= f) (loopFuel >>= fun k => loop' k >>= f') := by
  constructor
  · intro σ σ' j b σ2 hB hA h hj
    simp only [bind_ok, loopFuel_run, Except.ok.injEq, Prod.mk.injEq] at h
    obtain ⟨k, _, ⟨rfl, rfl⟩, h⟩ := h
    haveI := hl.loc (σ.toks.length + 1) (σ'.toks.length + 1) σ'.toks.length (by omega) hB
    haveI : ∀ x, Loc2 σ'.toks.length (f x) (f' x) := fun x => (hf x).anti hB
    have key := (inferInstance : Loc2 σ'.toks.length (loop (σ.toks.length + 1) >>= f) (loop' (σ'.toks.length + 1) >>= f')).ok
      σ σ' j b σ2 (Nat.le_refl _) hA (bind_ok.mpr h) hj
    obtain ⟨σ2', g, e, A⟩ := key
    exact ⟨σ2', by rw [bind_eq_of_ok (loopFuel_run σ')]; exact g, e, A⟩
  · intro σ σ' j pos b l hB hA h hj
    simp only [bind_error, loopFuel_run, Except.ok.injEq, Prod.mk.injEq, reduceCtorEq, false_or] at h
    obtain ⟨k, _, ⟨rfl, rfl⟩, h⟩ := h
    haveI := hl.loc (σ.toks.length + 1) (σ'.toks.length + 1) σ'.toks.length (by omega) hB
    haveI : ∀ x, Loc2 σ'.toks.length (f x) (f' x) := fun x => (hf x).anti hB
    have key := (inferInstance : Loc2 σ'.toks.length (loop (σ.toks.length + 1) >>= f) (loop' (σ'.toks.length + 1) >>= f')).err
      σ σ' j pos b l (Nat.le_refl _) hA (bind_error.mpr h) hj
    obtain ⟨l', g, e, hl'⟩ := key
    exact ⟨l', by rw [bind_eq_of_ok (loopFuel_run σ')]; exact g, e, hl'⟩

instance loop_loc2' {α} {B'} {loop loop' : Nat → P α} [hl : LoopLoc2 B' loop loop'] :
    Loc2 B' (loopFuel >>= fun k => loop k) (loopFuel >>= fun k => loop' k) := by
  constructor
  · intro σ σ' j b σ2 hB hA h hj
    simp only [bind_ok, loopFuel_run, Except.ok.injEq, Prod.mk.injEq] at h
    obtain ⟨k, _, ⟨rfl, rfl⟩, h⟩ := h
    obtain ⟨σ2', g, e, A⟩ := (hl.loc (σ.toks.length + 1) (σ'.toks.length + 1) σ'.toks.length (by omega) hB).ok
      σ σ' j b σ2 (Nat.le_refl _) hA h hj
    exact ⟨σ2', by rw [bind_eq_of_ok (loopFuel_run σ')]; exact g, e, A⟩
  · intro σ σ' j pos b l hB hA h hj
    simp only [bind_error, loopFuel_run, Except.ok.injEq, Prod.mk.injEq, reduceCtorEq, false_or] at h
    obtain ⟨k, _, ⟨rfl, rfl⟩, h⟩ := h
    obtain ⟨l', g, e, hl'⟩ := (hl.loc (σ.toks.length + 1) (σ'.toks.length + 1) σ'.toks.length (by omega) hB).err
      σ σ' j pos b l (Nat.le_refl _) hA h hj
    exact ⟨l', by rw [bind_eq_of_ok (loopFuel_run σ')]; exact g, e, hl'⟩

/-- the loop of `reverse` -/
theorem many_loc2 {α} {close : TokenKind} {item item' : P α} [Mono item] [Mono item'] [Strict item'] [ErrAt item] :
    ∀ (k k' B' : Nat), B' < k' → (∀ B'', B'' ≤ B' → Loc2 B'' item item') →
      Loc2 B' (many close item k) (many close item' k') := by
  intro k
  induction k with
  | zero =>
    intro k' B' _ _
    unfold many
    exact ⟨fun σ σ' j a σ1 _ _ h _ => by simp at h, fun σ σ' j pos b l _ _ h _ => by simp at h⟩
  | succ k ih =>
    intro k' B' hk hi
    obtain ⟨k'', rfl⟩ : ∃ k'', k' = k'' + 1 := ⟨k' - 1, by omega⟩
    simp only [many]
    haveI : ∀ b : Bool, Loc2 B' (if b = true then (pure [] : P (List α)) else item >>= fun x => many close item k >>= fun xs => pure (x :: xs))
        (if b = true then pure [] else item' >>= fun x => many close item' k'' >>= fun xs => pure (x :: xs)) := by
      intro b
      split
      · infer_instance
      · refine Loc2.bind_strict (hi B' (Nat.le_refl _)) (fun B'' hB'' x => ?_)
        haveI := ih k'' B'' (by omega) (fun B3 h3 => hi B3 (by omega))
        infer_instance
    infer_instance

instance many_loopLoc2 {α} {B'} {close : TokenKind} {item item' : P α} [Mono item] [Mono item'] [Strict item'] [ErrAt item]
    [hi : ∀ B'', Loc2 B'' item item'] : LoopLoc2 B' (many close item) (many close item') :=
  ⟨fun k k' B'' hk _ => many_loc2 k k' B'' hk (fun B3 _ => hi B3)⟩

/-- `reverse`, the item being needed only on strictly smaller bounds (it runs after the opening token) -/
theorem reverse_loc2 {α} {opn close : TokenKind} {item item' : P α} {z : Bool} [NotEOF opn] [Mono item] [Mono item'] [Strict item']
    [ErrAt item] {B' : Nat} (hi : ∀ B'', B'' < B' → Loc2 B'' item item') :
    Loc2 B' (reverse opn item close z) (reverse opn item' close z) := by
  unfold reverse
  refine Loc2.bind_strict (inferInstance : Loc2 B' (expect opn) (expect opn)) (fun B'' hB'' _ => ?_)
  haveI : LoopLoc2 B'' (many close item) (many close item') :=
    ⟨fun k k' B3 hk h3 => many_loc2 k k' B3 hk (fun B4 h4 => hi B4 (by omega))⟩
  infer_instance

instance reverse_loc2' {α} {B'} {opn close : TokenKind} {item item' : P α} {z : Bool} [NotEOF opn] [Mono item] [Mono item']
    [Strict item'] [ErrAt item] [hi : ∀ B'', Loc2 B'' item item'] : Loc2 B' (reverse opn item close z) (reverse opn item' close z) :=
  reverse_loc2 (fun B'' _ => hi B'')

/-! ### the parser's functions -/

instance {B'} : Loc2 B' parseName parseName := by unfold parseName; infer_instance
instance {B'} : Loc2 B' parseVariable parseVariable := by unfold parseVariable; infer_instance

instance {B'} {v v' : P Value} [Loc2 B' v v'] [Mono v] [Mono v'] [ErrLe v] :
    Loc2 B' (parseObjectFieldWith v) (parseObjectFieldWith v') := by unfold parseObjectFieldWith; infer_instance

theorem parseValueLiteral_loc2 (c : Bool) : ∀ (n n' B' : Nat), B' < n' → Loc2 B' (parseValueLiteral c n) (parseValueLiteral c n') := by
  intro n
  induction n with
  | zero =>
    intro n' B' _
    exact ⟨fun σ σ' j a σ1 _ _ h _ => by simp [parseValueLiteral] at h, fun σ σ' j pos b l _ _ h _ => by simp [parseValueLiteral] at h⟩
  | succ n ih =>
    intro n' B' hn
    obtain ⟨m, rfl⟩ : ∃ m, n' = m + 1 := ⟨n' - 1, by omega⟩
    unfold parseValueLiteral
    refine Loc2.bind_cur (fun tok => ?_)
    split
    · haveI : Loc2 B' (reverse .bracketL (parseValueLiteral c n) .bracketR false) (reverse .bracketL (parseValueLiteral c m) .bracketR false) :=
        reverse_loc2 (fun B'' hB'' => ih m B'' (by omega))
      infer_instance
    · refine Loc2.bind_strict (inferInstance : Loc2 B' (expect .braceL) (expect .braceL)) (fun B'' hB'' _ => ?_)
      haveI : LoopLoc2 B'' (many .braceR (parseObjectFieldWith (parseValueLiteral c n))) (many .braceR (parseObjectFieldWith (parseValueLiteral c m))) :=
        ⟨fun k k' B3 hk h3 => many_loc2 k k' B3 hk (fun B4 h4 => by haveI := ih m B4 (by omega); infer_instance)⟩
      infer_instance
    all_goals infer_instance

instance {B'} (c : Bool) : Loc2 B' (parseValue c) (parseValue c) :=
  ⟨fun σ σ' j a σ1 hB hA h hj =>
      (parseValueLiteral_loc2 c (σ.toks.length + 1) (σ'.toks.length + 1) σ'.toks.length (by omega)).ok σ σ' j a σ1 (Nat.le_refl _) hA h hj,
   fun σ σ' j pos b l hB hA h hj =>
      (parseValueLiteral_loc2 c (σ.toks.length + 1) (σ'.toks.length + 1) σ'.toks.length (by omega)).err σ σ' j pos b l (Nat.le_refl _) hA h hj⟩

instance {B'} : Loc2 B' parseArgument parseArgument := by unfold parseArgument; infer_instance
instance {B'} : Loc2 B' parseArguments parseArguments := by unfold parseArguments; infer_instance
instance {B'} : Loc2 B' parseDirective parseDirective := by unfold parseDirective; infer_instance

instance (k : Nat) : Mono (parseDirectivesLoop k) := by
  induction k with
  | zero => unfold parseDirectivesLoop; infer_instance
  | succ k ih => unfold parseDirectivesLoop; infer_instance

theorem parseDirectivesLoop_loc2 : ∀ (k k' B' : Nat), B' < k' → Loc2 B' (parseDirectivesLoop k) (parseDirectivesLoop k') := by
  intro k
  induction k with
  | zero =>
    intro k' B' _
    exact ⟨fun σ σ' j a σ1 _ _ h _ => by simp [parseDirectivesLoop] at h, fun σ σ' j pos b l _ _ h _ => by simp [parseDirectivesLoop] at h⟩
  | succ k ih =>
    intro k' B' hk
    obtain ⟨m, rfl⟩ : ∃ m, k' = m + 1 := ⟨k' - 1, by omega⟩
    simp only [parseDirectivesLoop]
    haveI : ∀ b : Bool, Loc2 B' (if b = true then parseDirective >>= fun d => parseDirectivesLoop k >>= fun ds => pure (d :: ds) else pure [])
        (if b = true then parseDirective >>= fun d => parseDirectivesLoop m >>= fun ds => pure (d :: ds) else pure []) := by
      intro b
      split
      · refine Loc2.bind_strict (inferInstance : Loc2 B' parseDirective parseDirective) (fun B'' hB'' d => ?_)
        haveI := ih m B'' (by omega)
        infer_instance
      · infer_instance
    infer_instance

instance {B'} : LoopLoc2 B' parseDirectivesLoop parseDirectivesLoop := ⟨fun k k' B'' hk _ => parseDirectivesLoop_loc2 k k' B'' hk⟩
instance {B'} : Loc2 B' parseDirectives parseDirectives := by unfold parseDirectives; infer_instance
instance {B'} : Loc2 B' parseNamed parseNamed := by unfold parseNamed; infer_instance

/-! ### types (the recursion sits behind a bare `advance`, so this one is by hand) -/

theorem parseTypeFuel_loc2 : ∀ (n n' B' : Nat), B' < n' → Loc2 B' (parseTypeFuel n) (parseTypeFuel n') := by
  intro n
  induction n with
  | zero =>
    intro n' B' _
    exact ⟨fun σ σ' j a σ1 _ _ h _ => by simp [parseTypeFuel] at h, fun σ σ' j pos b l _ _ h _ => by simp [parseTypeFuel] at h⟩
  | succ n ih =>
    intro n' B' hn
    obtain ⟨m, rfl⟩ : ∃ m, n' = m + 1 := ⟨n' - 1, by omega⟩
    -- the base part, per pair of states
    have hbase : ∀ (tok : Token), Loc2 B' (parseTypeBaseWith (parseTypeFuel n) tok) (parseTypeBaseWith (parseTypeFuel m) tok) := by
      intro tok
      unfold parseTypeBaseWith
      split
      · -- `[`: the recursive call runs after `advance`; on every state where something is left to consume it is strict
        constructor
        · intro σ σ' j a σ2 hB hA h hj
          obtain ⟨_, σa, h1, h2⟩ := bind_ok.mp h
          simp only [advance_run, Except.ok.injEq, Prod.mk.injEq] at h1
          obtain ⟨_, rfl⟩ := h1
          obtain ⟨A1, e1, e2⟩ := hA.adv (by omega)
          haveI := ih m σ'.adv.toks.length (by omega)
          have l2 := (inferInstance : Mono (parseTypeFuel n >>= fun t => (do
              if (← cur).kind = .bracketR then pure () else flagBad
              advance
              pure (some (TypeRef.list (t.getD nilType) (← loc tok.start))) : P (Option TypeRef)))).le _ _ _ h2
          obtain ⟨σ2', g, e, A⟩ := (inferInstance : Loc2 σ'.adv.toks.length (parseTypeFuel n >>= fun t => (do
              if (← cur).kind = .bracketR then pure () else flagBad
              advance
              pure (some (TypeRef.list (t.getD nilType) (← loc tok.start))) : P (Option TypeRef)))
            (parseTypeFuel m >>= fun t => (do
              if (← cur).kind = .bracketR then pure () else flagBad
              advance
              pure (some (TypeRef.list (t.getD nilType) (← loc tok.start))) : P (Option TypeRef)))).ok
            σ.adv σ'.adv (j - 1) a σ2 (Nat.le_refl _) A1 h2 (by omega)
          have l2' := (inferInstance : Mono (parseTypeFuel m >>= fun t => (do
              if (← cur).kind = .bracketR then pure () else flagBad
              advance
              pure (some (TypeRef.list (t.getD nilType) (← loc tok.start))) : P (Option TypeRef)))).le _ _ _ g
          refine ⟨σ2', by rw [bind_eq_of_ok (advance_run σ')]; exact g, by omega, ?_⟩
          have : j - (σ.toks.length - σ2.toks.length) = j - 1 - (σ.adv.toks.length - σ2.toks.length) := by omega
          rw [this]; exact A
        · intro σ σ' j pos b l hB hA h hj
          rcases bind_error.mp h with h1 | ⟨_, σa, h1, h2⟩
          · simp at h1
          · simp only [advance_run, Except.ok.injEq, Prod.mk.injEq] at h1
            obtain ⟨_, rfl⟩ := h1
            have hl := (inferInstance : ErrLe (parseTypeFuel n >>= fun t => (do
              if (← cur).kind = .bracketR then pure () else flagBad
              advance
              pure (some (TypeRef.list (t.getD nilType) (← loc tok.start))) : P (Option TypeRef)))).le _ _ _ _ h2
            have hj1 : 1 ≤ j := by omega
            obtain ⟨A1, e1, e2⟩ := hA.adv hj1
            haveI := ih m σ'.adv.toks.length (by omega)
            obtain ⟨l', g, e, hl'⟩ := (inferInstance : Loc2 σ'.adv.toks.length (parseTypeFuel n >>= fun t => (do
                if (← cur).kind = .bracketR then pure () else flagBad
                advance
                pure (some (TypeRef.list (t.getD nilType) (← loc tok.start))) : P (Option TypeRef)))
              (parseTypeFuel m >>= fun t => (do
                if (← cur).kind = .bracketR then pure () else flagBad
                advance
                pure (some (TypeRef.list (t.getD nilType) (← loc tok.start))) : P (Option TypeRef)))).err
              σ.adv σ'.adv (j - 1) pos b l (Nat.le_refl _) A1 h2 (by omega)
            exact ⟨l', by rw [bind_eq_of_ok (advance_run σ')]; exact g, by omega, by omega⟩
      all_goals infer_instance
    unfold parseTypeFuel
    refine Loc2.bind_cur (fun tok => ?_)
    haveI := hbase tok
    infer_instance

instance {B'} : Loc2 B' parseTypeOpt parseTypeOpt :=
  ⟨fun σ σ' j a σ1 hB hA h hj =>
      (parseTypeFuel_loc2 (σ.toks.length + 1) (σ'.toks.length + 1) σ'.toks.length (by omega)).ok σ σ' j a σ1 (Nat.le_refl _) hA h hj,
   fun σ σ' j pos b l hB hA h hj =>
      (parseTypeFuel_loc2 (σ.toks.length + 1) (σ'.toks.length + 1) σ'.toks.length (by omega)).err σ σ' j pos b l (Nat.le_refl _) hA h hj⟩
instance {B'} : Loc2 B' parseType parseType := by unfold parseType; infer_instance

/-! ### selection sets -/

instance {B'} : Loc2 B' parseFragmentName parseFragmentName := by unfold parseFragmentName; infer_instance

instance {B'} {s s' : P SelectionSet} [Loc2 B' s s'] [Mono s] [Mono s'] [ErrLe s] {st : Nat} {al : Option Name} {nm : Name} :
    Loc2 B' (parseFieldRest s st al nm) (parseFieldRest s' st al nm) := by unfold parseFieldRest; infer_instance
instance {s : P SelectionSet} [Mono s] {st : Nat} {al : Option Name} {nm : Name} : Mono (parseFieldRest s st al nm) := by
  unfold parseFieldRest; infer_instance
instance {s : P SelectionSet} [Mono s] {st : Nat} {tc : Option TypeRef} : Mono (parseInlineRest s st tc) := by
  unfold parseInlineRest; infer_instance
instance {s : P SelectionSet} [ErrLe s] [Mono s] {st : Nat} {al : Option Name} {nm : Name} : ErrLe (parseFieldRest s st al nm) := by
  unfold parseFieldRest; infer_instance
instance {s : P SelectionSet} [ErrLe s] [Mono s] {st : Nat} {tc : Option TypeRef} : ErrLe (parseInlineRest s st tc) := by
  unfold parseInlineRest; infer_instance
instance {s : P SelectionSet} [Mono s] : Mono (parseFieldWith s) := by unfold parseFieldWith; infer_instance
instance {s : P SelectionSet} [Mono s] : Mono (parseFragmentWith s) := by unfold parseFragmentWith; infer_instance
instance {s : P SelectionSet} [ErrLe s] [Mono s] : ErrLe (parseFieldWith s) := by unfold parseFieldWith; infer_instance
instance {s : P SelectionSet} [ErrLe s] [Mono s] : ErrLe (parseFragmentWith s) := by unfold parseFragmentWith; infer_instance
instance {B'} {s s' : P SelectionSet} [Loc2 B' s s'] [Mono s] [Mono s'] [ErrLe s] :
    Loc2 B' (parseFieldWith s) (parseFieldWith s') := by unfold parseFieldWith; infer_instance
instance {B'} {s s' : P SelectionSet} [Loc2 B' s s'] [Mono s] [Mono s'] [ErrLe s] {st : Nat} {tc : Option TypeRef} :
    Loc2 B' (parseInlineRest s st tc) (parseInlineRest s' st tc) := by unfold parseInlineRest; infer_instance
instance {B'} {s s' : P SelectionSet} [Loc2 B' s s'] [Mono s] [Mono s'] [ErrLe s] :
    Loc2 B' (parseFragmentWith s) (parseFragmentWith s') := by unfold parseFragmentWith; infer_instance
instance {B'} {s s' : P SelectionSet} [Loc2 B' s s'] [Mono s] [Mono s'] [ErrLe s] :
    Loc2 B' (parseSelectionWith s) (parseSelectionWith s') := by unfold parseSelectionWith; infer_instance

theorem parseSelectionSetFuel_loc2 : ∀ (n n' B' : Nat), B' < n' → Loc2 B' (parseSelectionSetFuel n) (parseSelectionSetFuel n') := by
  intro n
  induction n with
  | zero =>
    intro n' B' _
    exact ⟨fun σ σ' j a σ1 _ _ h _ => by simp [parseSelectionSetFuel] at h, fun σ σ' j pos b l _ _ h _ => by simp [parseSelectionSetFuel] at h⟩
  | succ n ih =>
    intro n' B' hn
    obtain ⟨m, rfl⟩ : ∃ m, n' = m + 1 := ⟨n' - 1, by omega⟩
    unfold parseSelectionSetFuel
    haveI : Loc2 B' (reverse .braceL (parseSelectionWith (parseSelectionSetFuel n)) .braceR true)
        (reverse .braceL (parseSelectionWith (parseSelectionSetFuel m)) .braceR true) :=
      reverse_loc2 (fun B'' hB'' => by haveI := ih m B'' (by omega); infer_instance)
    infer_instance

instance {B'} : Loc2 B' parseSelectionSet parseSelectionSet :=
  ⟨fun σ σ' j a σ1 hB hA h hj =>
      (parseSelectionSetFuel_loc2 (σ.toks.length + 1) (σ'.toks.length + 1) σ'.toks.length (by omega)).ok σ σ' j a σ1 (Nat.le_refl _) hA h hj,
   fun σ σ' j pos b l hB hA h hj =>
      (parseSelectionSetFuel_loc2 (σ.toks.length + 1) (σ'.toks.length + 1) σ'.toks.length (by omega)).err σ σ' j pos b l (Nat.le_refl _) hA h hj⟩

/-! ### operations, type system -/

instance {B'} : Loc2 B' parseOperationType parseOperationType := by unfold parseOperationType; infer_instance
instance {B'} : Loc2 B' parseVariableDefinition parseVariableDefinition := by unfold parseVariableDefinition; infer_instance
instance {B'} : Loc2 B' parseVariableDefinitions parseVariableDefinitions := by unfold parseVariableDefinitions; infer_instance
instance {B'} : Loc2 B' parseOptName parseOptName := by unfold parseOptName; infer_instance
instance {B'} : Loc2 B' parseOperationDefinition parseOperationDefinition := by unfold parseOperationDefinition; infer_instance
instance {B'} : Loc2 B' parseFragmentDefinition parseFragmentDefinition := by unfold parseFragmentDefinition; infer_instance
instance {B'} : Loc2 B' parseDescription parseDescription := by unfold parseDescription; infer_instance
instance {B'} : Loc2 B' parseOperationTypeDefinition parseOperationTypeDefinition := by unfold parseOperationTypeDefinition; infer_instance
instance {B'} : Loc2 B' parseSchemaDefinition parseSchemaDefinition := by unfold parseSchemaDefinition; infer_instance
instance {B'} : Loc2 B' parseScalarTypeDefinition parseScalarTypeDefinition := by unfold parseScalarTypeDefinition; infer_instance

theorem parseNamedSep_loc2 (sep : TokenKind) : ∀ (k k' B' : Nat), B' < k' → Loc2 B' (parseNamedSep sep k) (parseNamedSep sep k') := by
  intro k
  induction k with
  | zero =>
    intro k' B' _
    exact ⟨fun σ σ' j a σ1 _ _ h _ => by simp [parseNamedSep] at h, fun σ σ' j pos b l _ _ h _ => by simp [parseNamedSep] at h⟩
  | succ k ih =>
    intro k' B' hk
    obtain ⟨m, rfl⟩ : ∃ m, k' = m + 1 := ⟨k' - 1, by omega⟩
    simp only [parseNamedSep]
    refine Loc2.bind_strict (inferInstance : Loc2 B' parseNamed parseNamed) (fun B'' hB'' t => ?_)
    haveI := ih m B'' (by omega)
    infer_instance

instance {B'} (sep : TokenKind) : LoopLoc2 B' (parseNamedSep sep) (parseNamedSep sep) :=
  ⟨fun k k' B'' hk _ => parseNamedSep_loc2 sep k k' B'' hk⟩

theorem parseDirectiveLocations_loc2 : ∀ (k k' B' : Nat), B' < k' → Loc2 B' (parseDirectiveLocations k) (parseDirectiveLocations k') := by
  intro k
  induction k with
  | zero =>
    intro k' B' _
    exact ⟨fun σ σ' j a σ1 _ _ h _ => by simp [parseDirectiveLocations] at h, fun σ σ' j pos b l _ _ h _ => by simp [parseDirectiveLocations] at h⟩
  | succ k ih =>
    intro k' B' hk
    obtain ⟨m, rfl⟩ : ∃ m, k' = m + 1 := ⟨k' - 1, by omega⟩
    simp only [parseDirectiveLocations]
    refine Loc2.bind_strict (inferInstance : Loc2 B' parseName parseName) (fun B'' hB'' t => ?_)
    haveI := ih m B'' (by omega)
    infer_instance

instance {B'} : LoopLoc2 B' parseDirectiveLocations parseDirectiveLocations :=
  ⟨fun k k' B'' hk _ => parseDirectiveLocations_loc2 k k' B'' hk⟩

instance {B'} : Loc2 B' parseImplementsInterfaces parseImplementsInterfaces := by unfold parseImplementsInterfaces; infer_instance
instance {B'} : Loc2 B' parseDefaultValue parseDefaultValue := by unfold parseDefaultValue; infer_instance
instance {B'} : Loc2 B' parseInputValueDef parseInputValueDef := by unfold parseInputValueDef; infer_instance
instance {B'} : Loc2 B' parseArgumentDefs parseArgumentDefs := by unfold parseArgumentDefs; infer_instance
instance {B'} : Loc2 B' parseFieldDefinition parseFieldDefinition := by unfold parseFieldDefinition; infer_instance
instance {B'} : Loc2 B' parseObjectDef parseObjectDef := by unfold parseObjectDef; infer_instance
instance {B'} : Loc2 B' parseObjectTypeDefinition parseObjectTypeDefinition := by unfold parseObjectTypeDefinition; infer_instance
instance {B'} : Loc2 B' parseInterfaceTypeDefinition parseInterfaceTypeDefinition := by unfold parseInterfaceTypeDefinition; infer_instance
instance {B'} : Loc2 B' parseUnionTypeDefinition parseUnionTypeDefinition := by unfold parseUnionTypeDefinition; infer_instance
instance {B'} : Loc2 B' parseEnumValueDefinition parseEnumValueDefinition := by unfold parseEnumValueDefinition; infer_instance
instance {B'} : Loc2 B' parseEnumTypeDefinition parseEnumTypeDefinition := by unfold parseEnumTypeDefinition; infer_instance
instance {B'} : Loc2 B' parseInputObjectTypeDefinition parseInputObjectTypeDefinition := by unfold parseInputObjectTypeDefinition; infer_instance
instance {B'} : Loc2 B' parseTypeExtensionDefinition parseTypeExtensionDefinition := by unfold parseTypeExtensionDefinition; infer_instance
instance {B'} : Loc2 B' parseDirectiveDefinition parseDirectiveDefinition := by unfold parseDirectiveDefinition; infer_instance

/-! ### keyword dispatch (the one place with two tokens of look-ahead) -/

instance {B'} (a : Bool) (kw : Token) : Loc2 B' (dispatchKeyword a kw) (dispatchKeyword a kw) := by
  unfold dispatchKeyword; infer_instance

/-- an action that starts by consuming a description, on a state whose current token is one -/
def DescFirst {α} (m : P α) : Prop :=
  ∀ σ, (σ.cur.kind = .string ∨ σ.cur.kind = .blockString) →
    (∀ a σ1, m σ = .ok (a, σ1) → σ1.toks.length + 1 ≤ σ.toks.length) ∧
    (∀ pos b l, m σ = .error (.syntax pos b l) → l + 1 ≤ σ.toks.length)

theorem descFirst {α} (rest : Token → Option String → P α) [mr : ∀ t d, Mono (rest t d)] [er : ∀ t d, ErrLe (rest t d)] :
    DescFirst (cur >>= fun st => parseDescription >>= fun d => rest st d) := by
  intro σ hk
  have hne : σ.toks ≠ [] := by
    intro he; rw [cur_nil he] at hk; simp [eofToken] at hk
  have hadv : σ.adv.toks.length + 1 = σ.toks.length := by
    cases ht : σ.toks with
    | nil => exact absurd ht hne
    | cons t r => simp [PState.adv, ht]
  have hd : parseDescription σ = .ok (some σ.cur.value, σ.adv) := by
    simp only [parseDescription, bind_run', cur_run, if_pos hk, advance_run, pure_run]
  constructor
  · intro a σ1 h
    rw [bind_eq_of_ok (cur_run σ), bind_eq_of_ok hd] at h
    have := (mr σ.cur (some σ.cur.value)).le _ _ _ h
    omega
  · intro pos b l h
    rw [bind_eq_of_ok (cur_run σ), bind_eq_of_ok hd] at h
    have := (er σ.cur (some σ.cur.value)).le _ _ _ _ h
    omega

theorem descFirst_scalar : DescFirst parseScalarTypeDefinition := by unfold parseScalarTypeDefinition; exact descFirst _
theorem descFirst_objectDef : DescFirst parseObjectDef := by unfold parseObjectDef; exact descFirst _
theorem descFirst_interface : DescFirst parseInterfaceTypeDefinition := by unfold parseInterfaceTypeDefinition; exact descFirst _
theorem descFirst_union : DescFirst parseUnionTypeDefinition := by unfold parseUnionTypeDefinition; exact descFirst _
theorem descFirst_enum : DescFirst parseEnumTypeDefinition := by unfold parseEnumTypeDefinition; exact descFirst _
theorem descFirst_input : DescFirst parseInputObjectTypeDefinition := by unfold parseInputObjectTypeDefinition; exact descFirst _
theorem descFirst_directive : DescFirst parseDirectiveDefinition := by unfold parseDirectiveDefinition; exact descFirst _

theorem descFirst_object : DescFirst parseObjectTypeDefinition := by
  intro σ hk
  obtain ⟨h1, h2⟩ := descFirst_objectDef σ hk
  unfold parseObjectTypeDefinition
  constructor
  · intro a σ1 h
    obtain ⟨d, σ2, g1, g2⟩ := bind_ok.mp h
    obtain ⟨_, rfl⟩ := pure_ok.mp g2
    exact h1 _ _ g1
  · intro pos b l h
    rcases bind_error.mp h with g | ⟨d, σ2, g1, g2⟩
    · exact h2 _ _ _ g
    · simp at g2

/-- after a description, whatever `dispatchKeyword` does involves the token after it -/
theorem dispatch_descFirst (kw : Token) (hkw : kw.kind ≠ .name ∨ kw.value = "scalar" ∨ kw.value = "type" ∨ kw.value = "interface" ∨
    kw.value = "union" ∨ kw.value = "enum" ∨ kw.value = "input" ∨ kw.value = "directive") : DescFirst (dispatchKeyword true kw) := by
  intro σ hk
  have hne : σ.toks ≠ [] := by
    intro he; rw [cur_nil he] at hk; simp [eofToken] at hk
  have hlen : 1 ≤ σ.toks.length := by
    cases ht : σ.toks with
    | nil => exact absurd ht hne
    | cons t r => simp
  unfold dispatchKeyword
  by_cases h0 : kw.kind ≠ .name
  · rw [if_pos h0]
    exact ⟨fun a σ1 h => by simp at h, fun pos b l h => by simp at h; omega⟩
  rw [if_neg h0]
  have hv : kw.value = "scalar" ∨ kw.value = "type" ∨ kw.value = "interface" ∨ kw.value = "union" ∨ kw.value = "enum" ∨
      kw.value = "input" ∨ kw.value = "directive" := by
    rcases hkw with h | h
    · exact absurd h h0
    · exact h
  rcases hv with hv | hv | hv | hv | hv | hv | hv <;> simp only [hv, String.reduceEq, if_false, if_true, false_or, or_false, or_self]
  · exact descFirst_scalar σ hk
  · exact descFirst_object σ hk
  · exact descFirst_interface σ hk
  · exact descFirst_union σ hk
  · exact descFirst_enum σ hk
  · exact descFirst_input σ hk
  · exact descFirst_directive σ hk

/-- `keywordToken`: either an error blaming the next token, or the keyword token with the state untouched -/
theorem keywordToken_cases (σ : PState) :
    (¬ (σ.cur.kind = .string ∨ σ.cur.kind = .blockString) ∧ keywordToken σ = .ok (σ.cur, σ)) ∨
    ((σ.cur.kind = .string ∨ σ.cur.kind = .blockString) ∧
      ((keywordToken σ = .error (.syntax σ.adv.cur.start σ.bad (σ.toks.length - 1))) ∨
       (keywordToken σ = .ok (σ.adv.cur, σ) ∧ (σ.adv.cur.kind ≠ .name ∨ σ.adv.cur.value = "scalar" ∨ σ.adv.cur.value = "type" ∨
          σ.adv.cur.value = "interface" ∨ σ.adv.cur.value = "union" ∨ σ.adv.cur.value = "enum" ∨ σ.adv.cur.value = "input" ∨
          σ.adv.cur.value = "directive")))) := by
  unfold keywordToken
  by_cases hk : σ.cur.kind = .string ∨ σ.cur.kind = .blockString
  · refine .inr ⟨hk, ?_⟩
    simp only [bind_run', cur_run, if_pos hk, lookahead_run]
    split
    · exact .inl (by simp)
    · rename_i hc
      refine .inr ⟨by simp, ?_⟩
      by_cases hn : σ.adv.cur.kind = .name
      · exact .inr (Classical.byContradiction fun hv => hc ⟨hn, hv⟩)
      · exact .inl hn
  · exact .inl ⟨hk, by simp only [bind_run', cur_run, if_neg hk, pure_run]⟩

instance {B'} : Loc2 B' parseTypeSystemDefinition parseTypeSystemDefinition := by
  have hunf : ∀ σ, parseTypeSystemDefinition σ =
      (match keywordToken σ with
       | .error e => .error e
       | .ok (kw, σ1) => dispatchKeyword (decide (σ.cur.kind = .string ∨ σ.cur.kind = .blockString)) kw σ1) := by
    intro σ; simp only [parseTypeSystemDefinition, bind_run', cur_run]
    cases keywordToken σ with
    | error e => rfl
    | ok p => cases p; rfl
  constructor
  · intro σ σ' j a σ2 hB hA h hj
    have hj1 : 1 ≤ j := by omega
    have hcur := hA.cur hj1
    rw [hunf] at h
    rw [hunf]
    rcases keywordToken_cases σ with ⟨hk, hkt⟩ | ⟨hk, hkt | ⟨hkt, hkw⟩⟩
    · have hkt' : keywordToken σ' = .ok (σ'.cur, σ') := by
        rcases keywordToken_cases σ' with ⟨_, g⟩ | ⟨hk', _⟩
        · exact g
        · rw [← hcur] at hk'; exact absurd hk' hk
      rw [hkt] at h; rw [hkt', ← hcur]
      simp only [hk, decide_false] at h ⊢
      exact (inferInstance : Loc2 B' (dispatchKeyword false σ.cur) (dispatchKeyword false σ.cur)).ok σ σ' j a σ2 hB hA h hj
    · rw [hkt] at h; simp at h
    · rw [hkt] at h
      simp only [hk, decide_true] at h
      have hc := ((dispatch_descFirst _ hkw) σ hk).1 a σ2 h
      have hj2 : 2 ≤ j := by omega
      have hnext := hA.next hj2
      have hk' : σ'.cur.kind = .string ∨ σ'.cur.kind = .blockString := by rw [← hcur]; exact hk
      have hkt' : keywordToken σ' = .ok (σ'.adv.cur, σ') := by
        rcases keywordToken_cases σ' with ⟨hn, _⟩ | ⟨_, g | ⟨g, _⟩⟩
        · exact absurd hk' hn
        · exfalso
          -- the same look-ahead token fails the same test
          have : keywordToken σ = .error (.syntax σ.adv.cur.start σ.bad (σ.toks.length - 1)) ∨ True := .inr trivial
          unfold keywordToken at g hkt
          simp only [bind_run', cur_run, if_pos hk, if_pos hk', lookahead_run, ← hnext] at g hkt
          split at hkt
          · simp at hkt
          · rename_i hc2; rw [if_neg hc2] at g; simp at g
        · exact g
      rw [hkt', ← hnext]
      simp only [hk', decide_true]
      exact (inferInstance : Loc2 B' (dispatchKeyword true σ.adv.cur) (dispatchKeyword true σ.adv.cur)).ok σ σ' j a σ2 hB hA h hj
  · intro σ σ' j pos b l hB hA h hj
    have hj1 : 1 ≤ j := by omega
    have hcur := hA.cur hj1
    rw [hunf] at h
    rw [hunf]
    rcases keywordToken_cases σ with ⟨hk, hkt⟩ | ⟨hk, hkt | ⟨hkt, hkw⟩⟩
    · have hkt' : keywordToken σ' = .ok (σ'.cur, σ') := by
        rcases keywordToken_cases σ' with ⟨_, g⟩ | ⟨hk', _⟩
        · exact g
        · rw [← hcur] at hk'; exact absurd hk' hk
      rw [hkt] at h; rw [hkt', ← hcur]
      simp only [hk, decide_false] at h ⊢
      exact (inferInstance : Loc2 B' (dispatchKeyword false σ.cur) (dispatchKeyword false σ.cur)).err σ σ' j pos b l hB hA h hj
    · -- the look-ahead token itself is rejected: it is token 1
      rw [hkt] at h
      simp only [Except.error.injEq, PErr.syntax.injEq] at h
      obtain ⟨rfl, rfl, rfl⟩ := h
      have hle := hA.le
      have hj2 : 2 ≤ j := by omega
      have hnext := hA.next hj2
      have hk' : σ'.cur.kind = .string ∨ σ'.cur.kind = .blockString := by rw [← hcur]; exact hk
      have hkt' : keywordToken σ' = .error (.syntax σ'.adv.cur.start σ'.bad (σ'.toks.length - 1)) := by
        rcases keywordToken_cases σ' with ⟨hn, _⟩ | ⟨_, g | ⟨g, _⟩⟩
        · exact absurd hk' hn
        · exact g
        · exfalso
          unfold keywordToken at g hkt
          simp only [bind_run', cur_run, if_pos hk, if_pos hk', lookahead_run, ← hnext] at g hkt
          split at hkt
          · rename_i hc2; rw [if_pos hc2] at g; simp at g
          · simp at hkt
      have hle' := hA.le'
      rw [hkt']
      exact ⟨σ'.toks.length - 1, by rw [← hnext, hA.bad], by omega, by omega⟩
    · rw [hkt] at h
      simp only [hk, decide_true] at h
      have hc := ((dispatch_descFirst _ hkw) σ hk).2 pos b l h
      have hj2 : 2 ≤ j := by omega
      have hnext := hA.next hj2
      have hk' : σ'.cur.kind = .string ∨ σ'.cur.kind = .blockString := by rw [← hcur]; exact hk
      have hkt' : keywordToken σ' = .ok (σ'.adv.cur, σ') := by
        rcases keywordToken_cases σ' with ⟨hn, _⟩ | ⟨_, g | ⟨g, _⟩⟩
        · exact absurd hk' hn
        · exfalso
          unfold keywordToken at g hkt
          simp only [bind_run', cur_run, if_pos hk, if_pos hk', lookahead_run, ← hnext] at g hkt
          split at hkt
          · simp at hkt
          · rename_i hc2; rw [if_neg hc2] at g; simp at g
        · exact g
      rw [hkt', ← hnext]
      simp only [hk', decide_true]
      exact (inferInstance : Loc2 B' (dispatchKeyword true σ.adv.cur) (dispatchKeyword true σ.adv.cur)).err σ σ' j pos b l hB hA h hj

/-! ### definitions, document -/

instance {B'} : Loc2 B' parseDefinition parseDefinition := by
  unfold parseDefinition
  refine Loc2.bind_cur (fun tok => ?_)
  split <;> infer_instance

theorem parseDefinitions_loc2 : ∀ (k k' B' : Nat), B' < k' → Loc2 B' (parseDefinitions k) (parseDefinitions k') := by
  intro k
  induction k with
  | zero =>
    intro k' B' _
    exact ⟨fun σ σ' j a σ1 _ _ h _ => by simp [parseDefinitions] at h, fun σ σ' j pos b l _ _ h _ => by simp [parseDefinitions] at h⟩
  | succ k ih =>
    intro k' B' hk
    obtain ⟨m, rfl⟩ : ∃ m, k' = m + 1 := ⟨k' - 1, by omega⟩
    simp only [parseDefinitions]
    haveI : ∀ b : Bool, Loc2 B' (if b = true then (pure [] : P (List Definition)) else parseDefinition >>= fun d => parseDefinitions k >>= fun ds => pure (d :: ds))
        (if b = true then pure [] else parseDefinition >>= fun d => parseDefinitions m >>= fun ds => pure (d :: ds)) := by
      intro b
      split
      · infer_instance
      · refine Loc2.bind_strict (inferInstance : Loc2 B' parseDefinition parseDefinition) (fun B'' hB'' d => ?_)
        haveI := ih m B'' (by omega)
        infer_instance
    infer_instance

instance {B'} : LoopLoc2 B' parseDefinitions parseDefinitions := ⟨fun k k' B'' hk _ => parseDefinitions_loc2 k k' B'' hk⟩

instance {B'} : Loc2 B' parseDocument parseDocument := by unfold parseDocument; infer_instance

/-- **prefix determinism of the whole parser**: if M rejects `toks` blaming token `k` (`k = |toks| - left < |toks|`), it
rejects in the same way every token list that starts with `toks[0..k]` -/
theorem parseToks_error_local {toks : List Token} {eofPos pos : Nat} {b : Bool} {l : Nat}
    (h : parseToks toks eofPos = .error (.syntax pos b l)) (hl : 0 < l) (rest : List Token) (eofPos' : Nat) :
    ∃ l', parseToks (toks.take (toks.length - l + 1) ++ rest) eofPos' = .error (.syntax pos b l') ∧
      (toks.take (toks.length - l + 1) ++ rest).length - l' = toks.length - l ∧
      l' ≤ (toks.take (toks.length - l + 1) ++ rest).length := by
  have hdoc : parseDocument (initState toks eofPos) = .error (.syntax pos b l) := by
    unfold parseToks at h
    cases hp : parseDocument (initState toks eofPos) with
    | ok r => obtain ⟨d, σ⟩ := r; simp [hp] at h
    | error e => simpa [hp] using h
  have hle : l ≤ toks.length := ((inferInstance : ErrAt parseDocument).err _ _ _ _ hdoc).1
  let k := toks.length - l
  have hk : k + 1 ≤ toks.length := by show toks.length - l + 1 ≤ toks.length; omega
  have hA : Agree (k + 1) (initState toks eofPos) (initState (toks.take (k + 1) ++ rest) eofPos') := by
    refine ⟨rfl, rfl, hk, ?_, ?_⟩
    · simp [initState]; omega
    · simp only [initState]
      rw [List.take_append_of_le_length (by simp; omega), List.take_take]
      simp
  obtain ⟨l', g, hidx, hl'⟩ := (inferInstance : Loc2 (toks.take (k + 1) ++ rest).length parseDocument parseDocument).err
    (initState toks eofPos) (initState (toks.take (k + 1) ++ rest) eofPos') (k + 1) pos b l (Nat.le_refl _) hA hdoc
    (by show toks.length - l + 1 ≤ k + 1; omega)
  refine ⟨l', ?_, hidx, hl'⟩
  show parseToks (toks.take (k + 1) ++ rest) eofPos' = _
  unfold parseToks
  rw [g]

/-- cutting the input right before the blamed token leaves a text that M accepts or rejects only at its end -/
theorem parseToks_truncated {toks : List Token} {eofPos pos : Nat} {b : Bool} {l : Nat}
    (h : parseToks toks eofPos = .error (.syntax pos b l)) (eofPos' pos' : Nat) (b' : Bool) (l' : Nat)
    (h' : parseToks (toks.take (toks.length - l)) eofPos' = .error (.syntax pos' b' l')) : l' = 0 := by
  have hdoc : parseDocument (initState toks eofPos) = .error (.syntax pos b l) := by
    unfold parseToks at h
    cases hp : parseDocument (initState toks eofPos) with
    | ok r => obtain ⟨d, σ⟩ := r; simp [hp] at h
    | error e => simpa [hp] using h
  have hle : l ≤ toks.length := ((inferInstance : ErrAt parseDocument).err _ _ _ _ hdoc).1
  cases l' with
  | zero => rfl
  | succ m =>
    exfalso
    let T := toks.take (toks.length - l)
    have hT : T.length = toks.length - l := by simp [T]
    obtain ⟨l'', g, hidx, hl''⟩ := parseToks_error_local (toks := T) h' (Nat.succ_pos m) (toks.drop (T.length - (m + 1) + 1)) eofPos
    have hdoc' : parseDocument (initState T eofPos') = .error (.syntax pos' b' (m + 1)) := by
      unfold parseToks at h'
      cases hp : parseDocument (initState T eofPos') with
      | ok r => obtain ⟨d, σ⟩ := r; simp [hp, T] at h'
      | error e => simpa [hp, T] using h'
    have hm : m + 1 ≤ T.length := ((inferInstance : ErrAt parseDocument).err _ _ _ _ hdoc').1
    have hlist : T.take (T.length - (m + 1) + 1) ++ toks.drop (T.length - (m + 1) + 1) = toks := by
      have hle2 : T.length - (m + 1) + 1 ≤ toks.length - l := by omega
      have : T.take (T.length - (m + 1) + 1) = toks.take (T.length - (m + 1) + 1) := by
        show (toks.take (toks.length - l)).take (T.length - (m + 1) + 1) = _
        rw [List.take_take, Nat.min_eq_left hle2]
      rw [this, List.take_append_drop]
    rw [hlist] at g hidx hl''
    rw [h] at g
    simp only [Except.error.injEq, PErr.syntax.injEq] at g
    omega

/-! ### the same two theorems for any action started on a fresh state (used for `parser.ParseValue`) -/

theorem action_error_local {α} (m : P α) [hm : ∀ B', Loc2 B' m m] [em : ErrAt m] {toks : List Token} {eofPos pos : Nat} {b : Bool} {l : Nat}
    (h : m (initState toks eofPos) = .error (.syntax pos b l)) (hl : 0 < l) (rest : List Token) (eofPos' : Nat) :
    ∃ l', m (initState (toks.take (toks.length - l + 1) ++ rest) eofPos') = .error (.syntax pos b l') ∧
      (toks.take (toks.length - l + 1) ++ rest).length - l' = toks.length - l ∧
      l' ≤ (toks.take (toks.length - l + 1) ++ rest).length := by
  have hle : l ≤ toks.length := (em.err _ _ _ _ h).1
  let k := toks.length - l
  have hk : k + 1 ≤ toks.length := by show toks.length - l + 1 ≤ toks.length; omega
  have hA : Agree (k + 1) (initState toks eofPos) (initState (toks.take (k + 1) ++ rest) eofPos') := by
    refine ⟨rfl, rfl, hk, ?_, ?_⟩
    · simp [initState]; omega
    · simp only [initState]
      rw [List.take_append_of_le_length (by simp; omega), List.take_take]
      simp
  exact (hm (toks.take (k + 1) ++ rest).length).err
    (initState toks eofPos) (initState (toks.take (k + 1) ++ rest) eofPos') (k + 1) pos b l (Nat.le_refl _) hA h
    (by show toks.length - l + 1 ≤ k + 1; omega)

theorem action_truncated {α} (m : P α) [hm : ∀ B', Loc2 B' m m] [em : ErrAt m] {toks : List Token} {eofPos pos : Nat} {b : Bool} {l : Nat}
    (h : m (initState toks eofPos) = .error (.syntax pos b l)) (eofPos' pos' : Nat) (b' : Bool) (l' : Nat)
    (h' : m (initState (toks.take (toks.length - l)) eofPos') = .error (.syntax pos' b' l')) : l' = 0 := by
  have hle : l ≤ toks.length := (em.err _ _ _ _ h).1
  cases l' with
  | zero => rfl
  | succ j =>
    exfalso
    let T := toks.take (toks.length - l)
    have hT : T.length = toks.length - l := by simp [T]
    obtain ⟨l'', g, hidx, hl''⟩ := action_error_local m (toks := T) h' (Nat.succ_pos j) (toks.drop (T.length - (j + 1) + 1)) eofPos
    have hm' : j + 1 ≤ T.length := (em.err _ _ _ _ h').1
    have hlist : T.take (T.length - (j + 1) + 1) ++ toks.drop (T.length - (j + 1) + 1) = toks := by
      have hle2 : T.length - (j + 1) + 1 ≤ toks.length - l := by omega
      have : T.take (T.length - (j + 1) + 1) = toks.take (T.length - (j + 1) + 1) := by
        show (toks.take (toks.length - l)).take (T.length - (j + 1) + 1) = _
        rw [List.take_take, Nat.min_eq_left hle2]
      rw [this, List.take_append_drop]
    rw [hlist] at g hidx hl''
    rw [h] at g
    simp only [Except.error.injEq, PErr.syntax.injEq] at g
    omega

end GqlModel.Parser
