import GqlProofs.ValidateOverlapSound
/-! # C02 completeness, part 1: `getFieldsAndFragmentNames` misses nothing

Every field of `directSet` is filed under its response key, the keys of the field map are pairwise different (so
`lookup` finds the entry), every name of `shallowSet` is among the fragment names. Hence the call lists of
`collectConflictsBetween` / `collectConflictsWithin` contain every pair with one response key. -/
namespace GqlModel.Validate.Overlap
open GqlModel.Validate GqlModel.Validate.Graph

def InFields (fields : List (String × List FieldOcc)) (a : FieldOcc) : Prop :=
  ∃ fs, (a.node.key, fs) ∈ fields ∧ a ∈ fs

def KeysNodup (fields : List (String × List FieldOcc)) : Prop := (fields.map (·.1)).Nodup

theorem addField_keys (m : List (String × List FieldOcc)) (k : String) (o : FieldOcc) :
    (addField m k o).map (·.1) = if k ∈ m.map (·.1) then m.map (·.1) else m.map (·.1) ++ [k] := by
  induction m with
  | nil => simp [addField]
  | cons p rest ih =>
    obtain ⟨k', os⟩ := p
    unfold addField
    by_cases h : k' = k
    · subst h; simp
    · have hne : k ≠ k' := fun e => h e.symm
      simp only [h, if_false, List.map_cons, ih, List.mem_cons, hne, false_or]
      split <;> simp

theorem addField_keysNodup (m : List (String × List FieldOcc)) (k : String) (o : FieldOcc) (h : KeysNodup m) :
    KeysNodup (addField m k o) := by
  unfold KeysNodup at *
  rw [addField_keys]
  split
  · exact h
  · rename_i hk
    exact List.nodup_append.2 ⟨h, by simp, by
      intro a ha b hb
      simp only [List.mem_singleton] at hb
      subst hb
      exact fun e => hk (e ▸ ha)⟩

theorem addField_new (m : List (String × List FieldOcc)) (o : FieldOcc) :
    InFields (addField m o.node.key o) o := by
  induction m with
  | nil => exact ⟨[o], by simp [addField], by simp⟩
  | cons p rest ih =>
    obtain ⟨k', os⟩ := p
    unfold addField
    split
    · rename_i hk
      exact ⟨os ++ [o], by rw [hk]; exact List.mem_cons_self, by simp⟩
    · rcases ih with ⟨fs, h1, h2⟩
      exact ⟨fs, List.mem_cons_of_mem _ h1, h2⟩

theorem addField_old (m : List (String × List FieldOcc)) (k : String) (o a : FieldOcc) (h : InFields m a) :
    InFields (addField m k o) a := by
  induction m with
  | nil => rcases h with ⟨fs, h1, _⟩; cases h1
  | cons p rest ih =>
    obtain ⟨k', os⟩ := p
    rcases h with ⟨fs, h1, h2⟩
    unfold addField
    split
    · rcases List.mem_cons.1 h1 with he | h1
      · cases he
        exact ⟨os ++ [o], List.mem_cons_self, List.mem_append_left _ h2⟩
      · exact ⟨fs, List.mem_cons_of_mem _ h1, h2⟩
    · rcases List.mem_cons.1 h1 with he | h1
      · cases he
        exact ⟨os, List.mem_cons_self, h2⟩
      · rcases ih ⟨fs, h1, h2⟩ with ⟨fs', h1', h2'⟩
        exact ⟨fs', List.mem_cons_of_mem _ h1', h2'⟩

/-- completeness of one scan relative to its start -/
structure AccFull (acc0 acc : Acc) (direct : List FieldOcc) (shallow : List String) : Prop where
  old : ∀ a, InFields acc0.fields a → InFields acc.fields a
  new : ∀ a, a ∈ direct → InFields acc.fields a
  oldF : ∀ n, n ∈ acc0.frags → n ∈ acc.frags
  newF : ∀ n, n ∈ shallow → n ∈ acc.frags
  keys : KeysNodup acc0.fields → KeysNodup acc.fields

mutual
theorem collectSel_full (e : Env) : ∀ (pt : Option String) (x : Selection) (acc : Acc),
    AccFull acc (collectSel e pt x acc) (directSel e pt x) (shallowSel x)
  | pt, .field a nm args ds sel l, acc => by
    simp only [collectSel, directSel, shallowSel]
    exact {
      old := fun o ho => addField_old _ _ _ _ ho
      new := by
        intro o ho
        simp only [List.mem_singleton] at ho
        subst ho
        exact addField_new _ _
      oldF := fun n hn => hn
      newF := by intro n hn; cases hn
      keys := fun hk => addField_keysNodup _ _ _ hk }
  | pt, .spread nm ds l, acc => by
    simp only [collectSel, directSel, shallowSel]
    split
    · rename_i hmem
      exact {
        old := fun o ho => ho
        new := by intro o ho; cases ho
        oldF := fun n hn => hn
        newF := by
          intro n hn
          simp only [List.mem_singleton] at hn
          rw [hn]; exact hmem
        keys := fun hk => hk }
    · exact {
        old := fun o ho => ho
        new := by intro o ho; cases ho
        oldF := fun n hn => List.mem_append_left _ hn
        newF := fun n hn => List.mem_append_right _ hn
        keys := fun hk => hk }
  | pt, .inline tc ds ss l, acc => by
    simp only [collectSel, directSel, shallowSel]
    exact collectSet_full e _ ss acc
theorem collectSet_full (e : Env) : ∀ (pt : Option String) (x : SelectionSet) (acc : Acc),
    AccFull acc (collectSet e pt x acc) (directSet e pt x) (shallowSet x)
  | pt, .mk sels l, acc => by
    simp only [collectSet, directSet, shallowSet]
    exact collectSels_full e pt sels acc
theorem collectSels_full (e : Env) : ∀ (pt : Option String) (x : List Selection) (acc : Acc),
    AccFull acc (collectSels e pt x acc) (directSels e pt x) (shallowSels x)
  | pt, [], acc => by
    simp only [collectSels, directSels, shallowSels]
    exact {
      old := fun o ho => ho
      new := by intro o ho; cases ho
      oldF := fun n hn => hn
      newF := by intro n hn; cases hn
      keys := fun hk => hk }
  | pt, x :: xs, acc => by
    simp only [collectSels, directSels, shallowSels]
    have h1 := collectSel_full e pt x acc
    have h2 := collectSels_full e pt xs (collectSel e pt x acc)
    exact {
      old := fun o ho => h2.old o (h1.old o ho)
      new := by
        intro o ho
        rcases List.mem_append.1 ho with ho | ho
        · exact h2.old o (h1.new o ho)
        · exact h2.new o ho
      oldF := fun n hn => h2.oldF n (h1.oldF n hn)
      newF := by
        intro n hn
        rcases List.mem_append.1 hn with hn | hn
        · exact h2.oldF n (h1.newF n hn)
        · exact h2.newF n hn
      keys := fun hk => h2.keys (h1.keys hk) }
end

theorem collectInfo_full (e : Env) (pt : Option String) (ss : SelectionSet) :
    (∀ a, a ∈ directSet e pt ss → InFields (collectInfo e pt ss).fields a) ∧
    (∀ n, n ∈ shallowSet ss → n ∈ (collectInfo e pt ss).frags) ∧ KeysNodup (collectInfo e pt ss).fields := by
  have h := collectSet_full e pt ss ⟨[], []⟩
  exact ⟨h.new, h.newF, h.keys (by simp [KeysNodup])⟩

theorem lookup_of_keysNodup (fields : List (String × List FieldOcc)) (h : KeysNodup fields) (k : String)
    (fs : List FieldOcc) (hm : (k, fs) ∈ fields) : fields.lookup k = some fs := by
  induction fields with
  | nil => cases hm
  | cons p rest ih =>
    obtain ⟨k', os⟩ := p
    simp only [KeysNodup, List.map_cons, List.nodup_cons] at h
    rcases List.mem_cons.1 hm with he | hm
    · cases he; simp [List.lookup_cons]
    · have hne : k ≠ k' := fun e => h.1 (e ▸ List.mem_map.2 ⟨(k, fs), hm, rfl⟩)
      have : (k == k') = false := by simpa using hne
      rw [List.lookup_cons, this]
      exact ih h.2 hm

/-- `collectConflictsBetween` compares every pair with one response key -/
theorem betweenCalls_full (e : Env) (excl : Bool) (p1 p2 : Option String) (s1 s2 : SelectionSet) (a b : FieldOcc)
    (ha : a ∈ directSet e p1 s1) (hb : b ∈ directSet e p2 s2) (hk : a.node.key = b.node.key) :
    Call.fc excl a.node.key a b ∈ betweenCalls excl (collectInfo e p1 s1) (collectInfo e p2 s2) := by
  rcases (collectInfo_full e p1 s1).1 a ha with ⟨fs1, h1, h1'⟩
  rcases (collectInfo_full e p2 s2).1 b hb with ⟨fs2, h2, h2'⟩
  rw [← hk] at h2
  have hl := lookup_of_keysNodup _ (collectInfo_full e p2 s2).2.2 _ _ h2
  simp only [betweenCalls, List.mem_flatMap]
  refine ⟨(a.node.key, fs1), h1, ?_⟩
  simp only [hl, List.mem_flatMap, List.mem_map]
  exact ⟨a, h1', b, h2', rfl⟩

theorem mem_pairsLt_total {α : Type} (l : List α) (a b : α) (ha : a ∈ l) (hb : b ∈ l) :
    (a, b) ∈ pairsLt l ∨ (b, a) ∈ pairsLt l ∨ a = b := by
  induction l with
  | nil => cases ha
  | cons x xs ih =>
    simp only [pairsLt, List.mem_append, List.mem_map]
    rcases List.mem_cons.1 ha with rfl | ha' <;> rcases List.mem_cons.1 hb with rfl | hb'
    · exact .inr (.inr rfl)
    · exact .inl (.inl ⟨b, hb', rfl⟩)
    · exact .inr (.inl (.inl ⟨a, ha', rfl⟩))
    · rcases ih ha' hb' with h | h | h
      · exact .inl (.inr h)
      · exact .inr (.inl (.inr h))
      · exact .inr (.inr h)

/-- `collectConflictsWithin` compares every two fields with one response key, in one order or the other -/
theorem withinCalls_full (e : Env) (pt : Option String) (ss : SelectionSet) (a b : FieldOcc)
    (ha : a ∈ directSet e pt ss) (hb : b ∈ directSet e pt ss) (hk : a.node.key = b.node.key) :
    Call.fc false a.node.key a b ∈ withinCalls (collectInfo e pt ss) ∨
    Call.fc false a.node.key b a ∈ withinCalls (collectInfo e pt ss) ∨ a = b := by
  rcases (collectInfo_full e pt ss).1 a ha with ⟨fs1, h1, h1'⟩
  rcases (collectInfo_full e pt ss).1 b hb with ⟨fs2, h2, h2'⟩
  rw [← hk] at h2
  have e1 := lookup_of_keysNodup _ (collectInfo_full e pt ss).2.2 _ _ h1
  have e2 := lookup_of_keysNodup _ (collectInfo_full e pt ss).2.2 _ _ h2
  have : fs1 = fs2 := by rw [e1] at e2; exact Option.some.inj e2
  subst this
  simp only [withinCalls, List.mem_flatMap, List.mem_map]
  rcases mem_pairsLt_total fs1 a b h1' h2' with h | h | h
  · exact .inl ⟨_, h1, (a, b), h, rfl⟩
  · exact .inr (.inl ⟨_, h1, (b, a), h, rfl⟩)
  · exact .inr (.inr h)

end GqlModel.Validate.Overlap
