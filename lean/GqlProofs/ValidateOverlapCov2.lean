import GqlProofs.ValidateOverlapCov
/-! # C02 completeness, part 2 (operational, continued): the three bodies, the recursion, the visitor -/
namespace GqlModel.Validate.Overlap
open GqlModel.Validate GqlModel.Validate.Graph

variable {d : Document} {e : Env} {π : SelectionSet → Option String}

theorem cI_id (X : SelectionSet) : (cI e π X).id = X.loc := rfl

/-- finishing the body of a fields/fragment comparison: its key stops being pending -/
theorem KInv.closeFF {S : OState} {P : Pending} {key : Loc × String × Bool}
    (h : KInv d e π S ⟨key :: P.ff, P.bf⟩)
    (hch : ∀ X, X ∈ allSets d → X.loc = key.1 → ∀ f, lookupFrag e.tbl key.2.1 = some f → X.loc ≠ f.sel.loc →
      ∀ c, c ∈ ffCalls e π key.2.2 X f → Cov e π S c) : KInv d e π S P := by
  refine ⟨h.cache, h.tbl, ⟨fun k hk hp X hX hl f hf hne c hc => ?_, h.hist.bf⟩⟩
  by_cases hkk : k = key
  · subst hkk; exact hch X hX hl f hf hne c hc
  · exact h.hist.ff k hk (by simp [hkk, hp]) X hX hl f hf hne c hc

theorem KInv.closeBF {S : OState} {P : Pending} {key : String × String × Bool}
    (h : KInv d e π S ⟨P.ff, key :: P.bf⟩)
    (hch : ∀ f1 f2, lookupFrag e.tbl key.1 = some f1 → lookupFrag e.tbl key.2.1 = some f2 →
      ∀ c, c ∈ bfCalls e π key.2.2 key.1 key.2.1 f1 f2 → Cov e π S c) : KInv d e π S P := by
  refine ⟨h.cache, h.tbl, ⟨h.hist.ff, fun k hk hp f1 f2 h1 h2 c hc => ?_⟩⟩
  by_cases hkk : k = key
  · subst hkk; exact hch f1 f2 h1 h2 c hc
  · exact h.hist.bf k hk (by simp [hkk, hp]) f1 f2 h1 h2 c hc

/-- entering the body: the key is logged, entered in the table and pending -/
theorem KInv.openFF {st : OState} {P : Pending} (h : KInv d e π st P) (id : Loc) (frag : String) (x : Bool)
    (hnew : memoHas st.cmpFF (id, frag) x = false) :
    KInv d e π { st with cmpFF := ((id, frag), x) :: st.cmpFF, logFF := (id, frag, x) :: st.logFF }
      ⟨(id, frag, x) :: P.ff, P.bf⟩ ∧
    Mono st { st with cmpFF := ((id, frag), x) :: st.cmpFF, logFF := (id, frag, x) :: st.logFF } := by
  have hm : Mono st { st with cmpFF := ((id, frag), x) :: st.cmpFF, logFF := (id, frag, x) :: st.logFF } :=
    ⟨fun k y hy => memoHas_insert_mono _ _ _ _ _ hnew hy, fun _ _ hy => hy⟩
  refine ⟨⟨h.cache, ⟨fun p hp => ?_, h.tbl.bf, h.tbl.sym⟩, ⟨fun k hk hp X hX hl f hf hne c hc => ?_, fun k hk hp f1 f2 h1 h2 c hc => ?_⟩⟩, hm⟩
  · rcases List.mem_cons.1 hp with rfl | hp
    · exact List.mem_cons_self
    · exact List.mem_cons_of_mem _ (h.tbl.ff p hp)
  · have hk' : k ∈ st.logFF := by
      rcases List.mem_cons.1 hk with rfl | hk
      · exact absurd List.mem_cons_self hp
      · exact hk
    exact (h.hist.ff k hk' (fun hh => hp (List.mem_cons_of_mem _ hh)) X hX hl f hf hne c hc).mono hm
  · exact (h.hist.bf k hk hp f1 f2 h1 h2 c hc).mono hm

theorem ffBody_cov (hc : Coh d e π) {rec : Rec} (hst : Sticky rec) (hrec : CSpec d e π rec) (x : Bool)
    {info : FieldsInfo} (hi : InfoCoh d e π info) (frag : String) (st : OState) (P : Pending)
    (hk : KInv d e π st P) (hnil : (ffBody e rec x info frag st).2 = [])
    (hoof : (ffBody e rec x info frag st).1.oof = false) :
    KInv d e π (ffBody e rec x info frag st).1 P ∧ Cov e π (ffBody e rec x info frag st).1 (.ff x info frag) ∧
    Mono st (ffBody e rec x info frag st).1 := by
  rcases hi with ⟨X0, hX0, rfl⟩
  have hinfo : collectInfo e (π X0) X0 = cI e π X0 := rfl
  rw [hinfo] at hnil hoof ⊢
  by_cases hHas : memoHas st.cmpFF ((cI e π X0).id, frag) x = true
  · have hres : ffBody e rec x (cI e π X0) frag st = (st, []) := by
      unfold ffBody; rw [if_pos hHas]
    rw [hres]
    exact ⟨hk, .ff hHas, Mono.refl _⟩
  · have hnew : memoHas st.cmpFF ((cI e π X0).id, frag) x = false := by simpa using hHas
    have ho := hk.openFF (cI e π X0).id frag x hnew
    have hself := memoHas_insert_self st.cmpFF ((cI e π X0).id, frag) x
    cases hl : lookupFrag e.tbl frag with
    | none =>
      have hres : ffBody e rec x (cI e π X0) frag st =
          ({ st with cmpFF := (((cI e π X0).id, frag), x) :: st.cmpFF,
                     logFF := ((cI e π X0).id, frag, x) :: st.logFF }, []) := by
        unfold ffBody; rw [if_neg hHas]; simp only [hl]
      rw [hres]
      refine ⟨ho.1.closeFF (fun X _ _ f hf => ?_), .ff hself, ho.2⟩
      rw [hl] at hf; cases hf
    | some f =>
      have hf := (lookupFrag_some hl).1
      have g := getInfo_kinv hc ho.1 (hc.fragSets f hf)
      rw [hc.frag f hf] at g
      by_cases hid : ((cI e π X0).id == (cI e π f.sel).id) = true
      · have hres : ffBody e rec x (cI e π X0) frag st =
            ((getInfo e (namedOf e.s f.typeCond) f.sel
              { st with cmpFF := (((cI e π X0).id, frag), x) :: st.cmpFF,
                        logFF := ((cI e π X0).id, frag, x) :: st.logFF }).1, []) := by
          unfold ffBody; rw [if_neg hHas]; simp only [hl, getRefInfo, g.1, hid, if_true]
        rw [hres]
        refine ⟨g.2.1.closeFF (fun X _ hXl f' hf' hne => ?_), .ff (g.2.2.1.1 _ _ hself), ho.2.trans g.2.2.1⟩
        rw [hl] at hf'; cases hf'
        exfalso; apply hne
        have : (cI e π X0).id = (cI e π f.sel).id := by simpa using hid
        rw [hXl]; exact this
      · have hres : ffBody e rec x (cI e π X0) frag st =
            seqCalls rec (ffCalls e π x X0 f)
              (getInfo e (namedOf e.s f.typeCond) f.sel
                { st with cmpFF := (((cI e π X0).id, frag), x) :: st.cmpFF,
                          logFF := ((cI e π X0).id, frag, x) :: st.logFF }).1 := by
          unfold ffBody; rw [if_neg hHas]; simp only [hl, getRefInfo, g.1, hid]
          rfl
        rw [hres] at hnil hoof ⊢
        have hcalls : ∀ c, c ∈ ffCalls e π x X0 f → SCall d e π c := by
          intro c hcm
          rcases List.mem_append.1 hcm with hcm | hcm
          · exact (between_sem hc x ⟨X0, hX0, rfl⟩ ⟨f.sel, hc.fragSets f hf, rfl⟩ hcm).choose_spec.choose_spec.choose_spec.2.2.2.2
          · rcases List.mem_map.1 hcm with ⟨n, _, rfl⟩
            exact ⟨X0, hX0, rfl⟩
        have hs := seqCalls_cov hst hrec _ _ _ hcalls g.2.1 hnil hoof
        refine ⟨hs.1.closeFF (fun X hX hXl f' hf' _ c hcm => ?_), .ff (hs.2.2.1 _ _ (g.2.2.1.1 _ _ hself)),
          (ho.2.trans g.2.2.1).trans hs.2.2⟩
        rw [hl] at hf'; cases hf'
        have : X = X0 := eq_of_loc_eq (of_decide_eq_true hc.locs) hX hX0 hXl
        subst this
        exact hs.2.1 c hcm

theorem KInv.openBF {st : OState} {P : Pending} (h : KInv d e π st P) (n1 n2 : String) (x : Bool) (hne : n1 ≠ n2)
    (hnew : memoHas st.cmpBF (n1, n2) x = false) :
    KInv d e π { st with cmpBF := ((n1, n2), x) :: ((n2, n1), x) :: st.cmpBF, logBF := (n1, n2, x) :: st.logBF }
      ⟨P.ff, (n1, n2, x) :: P.bf⟩ ∧
    Mono st { st with cmpBF := ((n1, n2), x) :: ((n2, n1), x) :: st.cmpBF, logBF := (n1, n2, x) :: st.logBF } := by
  have hnew' : memoHas st.cmpBF (n2, n1) x = false := by
    simp only [memoHas] at hnew ⊢
    rw [← h.tbl.sym n1 n2]; exact hnew
  have hnew2 : memoHas (((n2, n1), x) :: st.cmpBF) (n1, n2) x = false := by
    have he : (n1, n2) ≠ (n2, n1) := fun he => hne (by cases he; rfl)
    have : ((n1, n2) == (n2, n1)) = false := by simpa using he
    simpa [memoHas, List.lookup_cons, this] using hnew
  have hm : Mono st { st with cmpBF := ((n1, n2), x) :: ((n2, n1), x) :: st.cmpBF,
                              logBF := (n1, n2, x) :: st.logBF } :=
    ⟨fun _ _ hy => hy, fun k y hy => memoHas_insert_mono _ _ _ _ _ hnew2 (memoHas_insert_mono _ _ _ _ _ hnew' hy)⟩
  refine ⟨⟨h.cache, ⟨h.tbl.ff, fun p hp => ?_, fun a b => ?_⟩,
    ⟨fun k hk hp X hX hl f hf hne' c hc => ?_, fun k hk hp f1 f2 h1 h2 c hc => ?_⟩⟩, hm⟩
  · rcases List.mem_cons.1 hp with rfl | hp
    · exact .inl List.mem_cons_self
    · rcases List.mem_cons.1 hp with rfl | hp
      · exact .inr List.mem_cons_self
      · rcases h.tbl.bf p hp with h' | h'
        · exact .inl (List.mem_cons_of_mem _ h')
        · exact .inr (List.mem_cons_of_mem _ h')
  · show List.lookup (a, b) (((n1, n2), x) :: ((n2, n1), x) :: st.cmpBF) =
      List.lookup (b, a) (((n1, n2), x) :: ((n2, n1), x) :: st.cmpBF)
    rw [lookup_two, lookup_two, h.tbl.sym a b]
    have : ((a, b) = (n1, n2) ∨ (a, b) = (n2, n1)) ↔ ((b, a) = (n1, n2) ∨ (b, a) = (n2, n1)) := by
      simp only [Prod.mk.injEq]
      constructor
      · rintro (⟨rfl, rfl⟩ | ⟨rfl, rfl⟩) <;> simp
      · rintro (⟨rfl, rfl⟩ | ⟨rfl, rfl⟩) <;> simp
    by_cases hc : (a, b) = (n1, n2) ∨ (a, b) = (n2, n1)
    · rw [if_pos hc, if_pos (this.1 hc)]
    · rw [if_neg hc, if_neg (fun h' => hc (this.2 h'))]
  · exact (h.hist.ff k hk hp X hX hl f hf hne' c hc).mono hm
  · have hk' : k ∈ st.logBF := by
      rcases List.mem_cons.1 hk with rfl | hk
      · exact absurd List.mem_cons_self hp
      · exact hk
    exact (h.hist.bf k hk' (fun hh => hp (List.mem_cons_of_mem _ hh)) f1 f2 h1 h2 c hc).mono hm

theorem bfCalls_scall (hc : Coh d e π) (x : Bool) (n1 n2 : String) {f1 f2 : Frag} (h1 : f1 ∈ e.tbl)
    (h2 : f2 ∈ e.tbl) : ∀ c, c ∈ bfCalls e π x n1 n2 f1 f2 → SCall d e π c := by
  intro c hcm
  simp only [bfCalls, List.mem_append, List.mem_map] at hcm
  rcases hcm with (hcm | ⟨n, _, rfl⟩) | ⟨n, _, rfl⟩
  · exact (between_sem hc x ⟨f1.sel, hc.fragSets f1 h1, rfl⟩ ⟨f2.sel, hc.fragSets f2 h2, rfl⟩ hcm).choose_spec.choose_spec.choose_spec.2.2.2.2
  · trivial
  · trivial

theorem bfBody_cov (hc : Coh d e π) {rec : Rec} (hst : Sticky rec) (hrec : CSpec d e π rec) (x : Bool)
    (n1 n2 : String) (st : OState) (P : Pending) (hk : KInv d e π st P)
    (hnil : (bfBody e rec x n1 n2 st).2 = []) (hoof : (bfBody e rec x n1 n2 st).1.oof = false) :
    KInv d e π (bfBody e rec x n1 n2 st).1 P ∧ Cov e π (bfBody e rec x n1 n2 st).1 (.bf x n1 n2) ∧
    Mono st (bfBody e rec x n1 n2 st).1 := by
  cases hl1 : lookupFrag e.tbl n1 with
  | none =>
    have hres : bfBody e rec x n1 n2 st = (st, []) := by unfold bfBody; simp only [hl1]
    rw [hres]; exact ⟨hk, .bf (.inl hl1), Mono.refl _⟩
  | some f1 =>
    cases hl2 : lookupFrag e.tbl n2 with
    | none =>
      have hres : bfBody e rec x n1 n2 st = (st, []) := by unfold bfBody; simp only [hl1, hl2]
      rw [hres]; exact ⟨hk, .bf (.inr (.inl hl2)), Mono.refl _⟩
    | some f2 =>
      by_cases hn : n1 = n2
      · have hres : bfBody e rec x n1 n2 st = (st, []) := by
          unfold bfBody; simp only [hl1, hl2]; rw [if_pos (by simpa using hn)]
        rw [hres]; exact ⟨hk, .bf (.inr (.inr (.inl hn))), Mono.refl _⟩
      · have hnb : ¬ ((n1 == n2) = true) := by simpa using hn
        by_cases hHas : memoHas st.cmpBF (n1, n2) x = true
        · have hres : bfBody e rec x n1 n2 st = (st, []) := by
            unfold bfBody; simp only [hl1, hl2]; rw [if_neg hnb, if_pos hHas]
          rw [hres]; exact ⟨hk, .bf (.inr (.inr (.inr hHas))), Mono.refl _⟩
        · have hnew : memoHas st.cmpBF (n1, n2) x = false := by simpa using hHas
          have ho := hk.openBF n1 n2 x hn hnew
          have hself := memoHas_insert_self (((n2, n1), x) :: st.cmpBF) (n1, n2) x
          have hf1 := (lookupFrag_some hl1).1
          have hf2 := (lookupFrag_some hl2).1
          have g1 := getInfo_kinv hc ho.1 (hc.fragSets f1 hf1)
          rw [hc.frag f1 hf1] at g1
          have g2 := getInfo_kinv hc g1.2.1 (hc.fragSets f2 hf2)
          rw [hc.frag f2 hf2] at g2
          have hres : bfBody e rec x n1 n2 st =
              seqCalls rec (bfCalls e π x n1 n2 f1 f2)
                (getInfo e (namedOf e.s f2.typeCond) f2.sel
                  (getInfo e (namedOf e.s f1.typeCond) f1.sel
                    { st with cmpBF := ((n1, n2), x) :: ((n2, n1), x) :: st.cmpBF,
                              logBF := (n1, n2, x) :: st.logBF }).1).1 := by
            unfold bfBody; simp only [hl1, hl2]; rw [if_neg hnb, if_neg hHas]
            simp only [getRefInfo, g1.1, g2.1]
            rfl
          rw [hres] at hnil hoof ⊢
          have hs := seqCalls_cov hst hrec _ _ _ (bfCalls_scall hc x n1 n2 hf1 hf2) g2.2.1 hnil hoof
          have hmono := ((ho.2.trans g1.2.2.1).trans g2.2.2.1).trans hs.2.2
          refine ⟨hs.1.closeBF (fun f1' f2' h1' h2' c hcm => ?_), .bf (.inr (.inr (.inr ?_))), hmono⟩
          · rw [hl1] at h1'; rw [hl2] at h2'; cases h1'; cases h2'
            exact hs.2.1 c hcm
          · exact hs.2.2.2 _ _ (g2.2.2.1.2 _ _ (g1.2.2.1.2 _ _ hself))

theorem ssCalls_scall (hc : Coh d e π) (x : Bool) {s1 s2 : SelectionSet} (h1 : s1 ∈ allSets d)
    (h2 : s2 ∈ allSets d) : ∀ c, c ∈ ssCalls e π x s1 s2 → SCall d e π c := by
  intro c hcm
  simp only [ssCalls, List.mem_append, List.mem_map, List.mem_flatMap] at hcm
  rcases hcm with ((hcm | ⟨f, _, rfl⟩) | ⟨f, _, rfl⟩) | ⟨f1, _, f2, _, rfl⟩
  · exact (between_sem hc x ⟨s1, h1, rfl⟩ ⟨s2, h2, rfl⟩ hcm).choose_spec.choose_spec.choose_spec.2.2.2.2
  · exact ⟨s1, h1, rfl⟩
  · exact ⟨s2, h2, rfl⟩
  · trivial

theorem subfield_nil {cs : List Conflict} {key : String} {a b : FieldOcc}
    (h : subfieldConflicts cs key a b = []) : cs = [] := by
  unfold subfieldConflicts at h
  split at h
  · rename_i he; exact List.isEmpty_iff.1 he
  · cases h

theorem fcBody_cov (hc : Coh d e π) {rec : Rec} (hst : Sticky rec) (hrec : CSpec d e π rec) (x : Bool)
    (key : String) {a b : FieldOcc} (ha : OccCoh d π a) (hb : OccCoh d π b) (st : OState) (P : Pending)
    (hk : KInv d e π st P) (hnil : (fcBody e rec x key a b st).2 = [])
    (hoof : (fcBody e rec x key a b st).1.oof = false) :
    KInv d e π (fcBody e rec x key a b st).1 P ∧ Cov e π (fcBody e rec x key a b st).1 (.fc x key a b) ∧
    Mono st (fcBody e rec x key a b st).1 := by
  have hm0 : Mono st { st with nFC := st.nFC + 1 } := Mono.of_eq rfl rfl
  have hk0 : KInv d e π { st with nFC := st.nFC + 1 } P :=
    ⟨hk.cache, ⟨hk.tbl.ff, hk.tbl.bf, hk.tbl.sym⟩, hk.hist.mono hm0 rfl rfl⟩
  by_cases t1 : (!(x || exclusive e.s a.parent b.parent) && a.node.name.value != b.node.name.value) = true
  · exfalso
    have : (fcBody e rec x key a b st).2 = [⟨key, [a.node.loc], [b.node.loc]⟩] := by
      unfold fcBody; simp only []; rw [if_pos t1]
    rw [this] at hnil; cases hnil
  by_cases t2 : (!(x || exclusive e.s a.parent b.parent) && !sameArguments a.node.args b.node.args) = true
  · exfalso
    have : (fcBody e rec x key a b st).2 = [⟨key, [a.node.loc], [b.node.loc]⟩] := by
      unfold fcBody; simp only []; rw [if_neg t1, if_pos t2]
    rw [this] at hnil; cases hnil
  by_cases t3 : typesConflict e.s a b = true
  · exfalso
    have : (fcBody e rec x key a b st).2 = [⟨key, [a.node.loc], [b.node.loc]⟩] := by
      unfold fcBody; simp only []; rw [if_neg t1, if_neg t2, if_pos t3]
    rw [this] at hnil; cases hnil
  have hq : fcQuiet e x a b := by
    unfold fcQuiet exclOf
    exact ⟨by simpa using t1, by simpa using t2, by simpa using t3⟩
  cases hs1 : a.node.sel with
  | none =>
    have hres : fcBody e rec x key a b st = ({ st with nFC := st.nFC + 1 }, []) := by
      unfold fcBody; simp only []; rw [if_neg t1, if_neg t2, if_neg t3]; simp only [hs1]
    rw [hres]
    exact ⟨hk0, .fc hq (fun s1 s2 h1 _ => by rw [hs1] at h1; cases h1), hm0⟩
  | some s1 =>
    cases hs2 : b.node.sel with
    | none =>
      have hres : fcBody e rec x key a b st = ({ st with nFC := st.nFC + 1 }, []) := by
        unfold fcBody; simp only []; rw [if_neg t1, if_neg t2, if_neg t3]; simp only [hs1, hs2]
      rw [hres]
      exact ⟨hk0, .fc hq (fun s1 s2 _ h2 => by rw [hs2] at h2; cases h2), hm0⟩
    | some s2 =>
      have ha1 := ha.2 s1 hs1
      have hb2 := hb.2 s2 hs2
      have g1 := getInfo_kinv hc hk0 ha1.1
      have g2 := getInfo_kinv hc g1.2.1 hb2.1
      have hres : fcBody e rec x key a b st =
          ((seqCalls rec (ssCalls e π (exclOf e x a b) s1 s2)
              (getInfo e (π s2) s2 (getInfo e (π s1) s1 { st with nFC := st.nFC + 1 }).1).1).1,
           subfieldConflicts (seqCalls rec (ssCalls e π (exclOf e x a b) s1 s2)
              (getInfo e (π s2) s2 (getInfo e (π s1) s1 { st with nFC := st.nFC + 1 }).1).1).2 key a b) := by
        unfold fcBody; simp only []; rw [if_neg t1, if_neg t2, if_neg t3]; simp only [hs1, hs2]
        rw [← ha1.2, ← hb2.2]
        simp only [ssBody, g1.1, g2.1]
        rfl
      rw [hres] at hnil hoof ⊢
      simp only at hnil hoof ⊢
      have hnil' := subfield_nil hnil
      have hs := seqCalls_cov hst hrec _ _ _ (ssCalls_scall hc _ ha1.1 hb2.1) g2.2.1 hnil' hoof
      refine ⟨hs.1, .fc hq (fun s1' s2' h1 h2 c hcm => ?_), ((hm0.trans g1.2.2.1).trans g2.2.2.1).trans hs.2.2⟩
      rw [hs1] at h1; rw [hs2] at h2; cases h1; cases h2
      exact hs.2.1 c hcm

theorem body_cov (hc : Coh d e π) {rec : Rec} (hst : Sticky rec) (hrec : CSpec d e π rec) :
    CSpec d e π (body e rec) := by
  intro c st P hcall hk hnil hoof
  cases c with
  | fc x key a b => exact fcBody_cov hc hst hrec x key hcall.1 hcall.2.1 st P hk hnil hoof
  | ff x info frag => exact ffBody_cov hc hst hrec x hcall frag st P hk hnil hoof
  | bf x n1 n2 => exact bfBody_cov hc hst hrec x n1 n2 st P hk hnil hoof

theorem run_cov (hc : Coh d e π) (fuel : Nat) : CSpec d e π (run e fuel) := by
  induction fuel with
  | zero => intro c st P _ _ _ hoof; simp [run] at hoof
  | succ fuel ih => exact body_cov hc (run_sticky fuel) ih

theorem visCalls_scall (hc : Coh d e π) {X : SelectionSet} (hX : X ∈ allSets d) :
    ∀ c, c ∈ visCalls e π X → SCall d e π c := by
  intro c hcm
  have hi : InfoCoh d e π (cI e π X) := ⟨X, hX, rfl⟩
  have hko := (collectInfo_spec e (π X) X).2.2
  rcases List.mem_append.1 hcm with hcm | hcm
  · simp only [withinCalls, List.mem_flatMap, List.mem_map] at hcm
    rcases hcm with ⟨kf, hkf, ab, hab, rfl⟩
    have hm := mem_pairsLt kf.2 ab.1 ab.2 hab
    exact ⟨occ_of_info hc hi (mem_occsOf.2 ⟨kf, hkf, hm.1⟩), occ_of_info hc hi (mem_occsOf.2 ⟨kf, hkf, hm.2⟩),
      hko kf hkf _ hm.1, hko kf hkf _ hm.2⟩
  · have key : ∀ (fs : List String), c ∈ topFragCalls (cI e π X) fs → SCall d e π c := by
      intro fs
      induction fs with
      | nil => intro h; cases h
      | cons f rest ih =>
        intro hmem
        simp only [topFragCalls, List.mem_cons, List.mem_append, List.mem_map] at hmem
        rcases hmem with rfl | ⟨g', _, rfl⟩ | hmem
        · exact hi
        · trivial
        · exact ih hmem
    exact key _ hcm

theorem visitSet_cov (hc : Coh d e π) (fuel : Nat) {X : SelectionSet} (hX : X ∈ allSets d) (st : OState)
    (P : Pending) (hk : KInv d e π st P) (hnil : (visitSet e fuel (π X) X st).2 = [])
    (hoof : (visitSet e fuel (π X) X st).1.oof = false) :
    KInv d e π (visitSet e fuel (π X) X st).1 P ∧ (∀ c, c ∈ visCalls e π X → Cov e π (visitSet e fuel (π X) X st).1 c) ∧
    Mono st (visitSet e fuel (π X) X st).1 := by
  have g := getInfo_kinv hc hk hX
  have hres : visitSet e fuel (π X) X st = seqCalls (run e fuel) (visCalls e π X) (getInfo e (π X) X st).1 := by
    unfold visitSet; simp only [g.1]; rfl
  rw [hres] at hnil hoof ⊢
  have hs := seqCalls_cov (run_sticky fuel) (run_cov hc fuel) _ _ _ (visCalls_scall hc hX) g.2.1 hnil hoof
  exact ⟨hs.1, hs.2.1, g.2.2.1.trans hs.2.2⟩

theorem visitSet_sticky (fuel : Nat) (pt : Option String) (X : SelectionSet) (st : OState) (h : st.oof = true) :
    (visitSet e fuel pt X st).1.oof = true := by
  unfold visitSet
  exact seqCalls_sticky (run_sticky fuel) _ _ (by rw [(getInfo_tables (e := e) pt X st).2.2.2.2]; exact h)

theorem overlapRun_cov_aux (hc : Coh d e π) (fuel : Nat) (sets : List (TCtx × SelectionSet))
    (hsets : ∀ cs, cs ∈ sets → cs.2 ∈ allSets d ∧ π cs.2 = cs.1.parent) :
    ∀ (acc : OState × List Conflict), KInv d e π acc.1 ⟨[], []⟩ →
      (sets.foldl (fun acc cs =>
        ((visitSet e fuel cs.1.parent cs.2 acc.1).1, acc.2 ++ (visitSet e fuel cs.1.parent cs.2 acc.1).2)) acc).2 = [] → (sets.foldl (fun acc cs =>
        ((visitSet e fuel cs.1.parent cs.2 acc.1).1, acc.2 ++ (visitSet e fuel cs.1.parent cs.2 acc.1).2)) acc).1.oof = false →
      (acc.2 = [] ∧ acc.1.oof = false) ∧ KInv d e π (sets.foldl (fun acc cs =>
        ((visitSet e fuel cs.1.parent cs.2 acc.1).1, acc.2 ++ (visitSet e fuel cs.1.parent cs.2 acc.1).2)) acc).1 ⟨[], []⟩ ∧ Mono acc.1 (sets.foldl (fun acc cs =>
        ((visitSet e fuel cs.1.parent cs.2 acc.1).1, acc.2 ++ (visitSet e fuel cs.1.parent cs.2 acc.1).2)) acc).1 ∧
      ∀ cs, cs ∈ sets → ∀ c, c ∈ visCalls e π cs.2 → Cov e π (sets.foldl (fun acc cs =>
        ((visitSet e fuel cs.1.parent cs.2 acc.1).1, acc.2 ++ (visitSet e fuel cs.1.parent cs.2 acc.1).2)) acc).1 c := by
  induction sets with
  | nil =>
    intro acc hk hn ho
    refine ⟨⟨hn, ho⟩, hk, Mono.refl _, ?_⟩
    intro cs hcs; cases hcs
  | cons cs rest ih =>
    intro acc hk hn ho
    simp only [List.foldl_cons] at hn ho ⊢
    have hcs := hsets cs List.mem_cons_self
    have hrest := ih (fun c hc' => hsets c (List.mem_cons_of_mem _ hc'))
    have hmid_nil : acc.2 ++ (visitSet e fuel cs.1.parent cs.2 acc.1).2 = [] := by
      by_cases hne : acc.2 ++ (visitSet e fuel cs.1.parent cs.2 acc.1).2 = []
      · exact hne
      · have grow : ∀ (l : List (TCtx × SelectionSet)) (a : OState × List Conflict), a.2 ≠ [] →
            (l.foldl (fun acc cs =>
              ((visitSet e fuel cs.1.parent cs.2 acc.1).1, acc.2 ++ (visitSet e fuel cs.1.parent cs.2 acc.1).2)) a).2 ≠ [] := by
          intro l
          induction l with
          | nil => intro a ha; exact ha
          | cons y ys ihy =>
            intro a ha
            simp only [List.foldl_cons]
            exact ihy _ (by simp [ha])
        exact absurd hn (grow rest ((visitSet e fuel cs.1.parent cs.2 acc.1).1, acc.2 ++ (visitSet e fuel cs.1.parent cs.2 acc.1).2) hne)
    have hmid_oof : (visitSet e fuel cs.1.parent cs.2 acc.1).1.oof = false := by
      cases hm : (visitSet e fuel cs.1.parent cs.2 acc.1).1.oof with
      | false => rfl
      | true =>
        exfalso
        have stick : ∀ (l : List (TCtx × SelectionSet)) (a : OState × List Conflict), a.1.oof = true →
            (l.foldl (fun acc cs =>
              ((visitSet e fuel cs.1.parent cs.2 acc.1).1, acc.2 ++ (visitSet e fuel cs.1.parent cs.2 acc.1).2)) a).1.oof
              = true := by
          intro l
          induction l with
          | nil => intro a ha; exact ha
          | cons y ys ihy =>
            intro a ha
            simp only [List.foldl_cons]
            exact ihy _ (visitSet_sticky fuel _ _ _ ha)
        rw [stick rest ((visitSet e fuel cs.1.parent cs.2 acc.1).1, acc.2 ++ (visitSet e fuel cs.1.parent cs.2 acc.1).2) hm] at ho
        cases ho
    have hn2 := List.append_eq_nil_iff.1 hmid_nil
    have hacc_oof : acc.1.oof = false := by
      cases hm : acc.1.oof with
      | false => rfl
      | true => rw [visitSet_sticky fuel _ _ _ hm] at hmid_oof; cases hmid_oof
    rw [← hcs.2] at hn2 hmid_oof
    have hv := visitSet_cov hc fuel hcs.1 acc.1 ⟨[], []⟩ hk hn2.2 hmid_oof
    rw [hcs.2] at hv
    have hr := hrest ((visitSet e fuel cs.1.parent cs.2 acc.1).1, acc.2 ++ (visitSet e fuel cs.1.parent cs.2 acc.1).2)
      hv.1 hn ho
    refine ⟨⟨hn2.1, hacc_oof⟩, hr.2.1, hv.2.2.trans hr.2.2.1, fun c hc' x hx => ?_⟩
    rcases List.mem_cons.1 hc' with rfl | hc'
    · exact (hv.2.1 x hx).mono hr.2.2.1
    · exact hr.2.2.2 c hc' x hx

/-- the whole rule, when it reports nothing and fuel did not run out: every executed memo body has all its
comparisons covered, every table entry stems from a logged execution, and every comparison made directly by the
visit of a selection set is covered -/
theorem overlapRun_cov (hc : Coh d e π) (fuel : Nat) (sets : List (TCtx × SelectionSet))
    (hsets : ∀ cs, cs ∈ sets → cs.2 ∈ allSets d ∧ π cs.2 = cs.1.parent)
    (hnil : (overlapRun e fuel sets).2 = []) (hoof : (overlapRun e fuel sets).1.oof = false) :
    KInv d e π (overlapRun e fuel sets).1 ⟨[], []⟩ ∧
    ∀ cs, cs ∈ sets → ∀ c, c ∈ visCalls e π cs.2 → Cov e π (overlapRun e fuel sets).1 c := by
  have hinit : KInv d e π OState.init ⟨[], []⟩ := by
    refine ⟨?_, ⟨?_, ?_, fun _ _ => rfl⟩, ⟨?_, ?_⟩⟩
    · intro p hp; cases hp
    · intro p hp; cases hp
    · intro p hp; cases hp
    · intro k hk; cases hk
    · intro k hk; cases hk
  have := overlapRun_cov_aux hc fuel sets hsets (OState.init, []) hinit hnil hoof
  exact ⟨this.2.1, this.2.2.2⟩

end GqlModel.Validate.Overlap
