import GqlProofs.RoundTripUtf8
/-! # C08 byte level — transferring character predicates to byte predicates through `utf8`

A predicate on characters that is decided by the code below 0x80 and constant above (is it a quote, a backslash, a
newline, white space, a control character …) corresponds to the same predicate on bytes: an ASCII character is one
byte with the same code, every byte of another character is ≥ 0x80.  `Compat P Q` says so; `all`/`any`/`head?`/
`getLast?`/line splitting then commute with `utf8`. -/
namespace GqlModel.RoundTrip
open GqlModel GqlModel.Lexer

theorem enc_cases (c : Char) :
    (c.toNat < 128 ∧ ∃ b : UInt8, String.utf8EncodeChar c = [b] ∧ b.toNat = c.toNat) ∨
    (128 ≤ c.toNat ∧ ∀ b ∈ String.utf8EncodeChar c, 128 ≤ b.toNat) := by
  by_cases h : c.toNat < 128
  · exact Or.inl ⟨h, enc_ascii_toNat c h⟩
  · exact Or.inr ⟨by omega, enc_high c (by omega)⟩

/-- the byte predicate `Q` says on every byte of a character's encoding what `P` says on the character -/
def Compat (P : Char → Bool) (Q : UInt8 → Bool) : Prop := ∀ c, ∀ b ∈ String.utf8EncodeChar c, Q b = P c

theorem compat_of_nat (f : Nat → Bool) (hf : ∀ n, 128 ≤ n → f n = f 128) :
    Compat (fun c => f c.toNat) (fun b => f b.toNat) := by
  intro c b hb
  rcases enc_cases c with ⟨_, b', he, hn⟩ | ⟨hge, hall⟩
  · rw [he] at hb; simp only [List.mem_cons, List.mem_nil_iff, or_false] at hb; subst hb; simp only [hn]
  · simp only [hf _ (hall b hb), hf _ hge]

theorem all_utf8 {P : Char → Bool} {Q : UInt8 → Bool} (h : Compat P Q) : ∀ cs : Chars, (utf8 cs).all Q = cs.all P
  | [] => rfl
  | c :: cs => by
    rw [utf8_cons, List.all_append, List.all_cons, all_utf8 h cs]
    congr 1
    have hne := enc_ne_nil c
    have : ∀ l : Bytes, l ≠ [] → (∀ b ∈ l, Q b = P c) → l.all Q = P c := by
      intro l
      induction l with
      | nil => intro h; exact absurd rfl h
      | cons x xs ih =>
        intro _ hq
        rw [List.all_cons, hq x (by simp)]
        by_cases hx : xs = []
        · subst hx; simp
        · rw [ih hx (fun b hb => hq b (by simp [hb]))]; simp
    exact this _ hne (h c)

theorem any_utf8 {P : Char → Bool} {Q : UInt8 → Bool} (h : Compat P Q) : ∀ cs : Chars, (utf8 cs).any Q = cs.any P
  | [] => rfl
  | c :: cs => by
    rw [utf8_cons, List.any_append, List.any_cons, any_utf8 h cs]
    congr 1
    have hne := enc_ne_nil c
    have : ∀ l : Bytes, l ≠ [] → (∀ b ∈ l, Q b = P c) → l.any Q = P c := by
      intro l
      induction l with
      | nil => intro h; exact absurd rfl h
      | cons x xs ih =>
        intro _ hq
        rw [List.any_cons, hq x (by simp)]
        by_cases hx : xs = []
        · subst hx; simp
        · rw [ih hx (fun b hb => hq b (by simp [hb]))]; simp
    exact this _ hne (h c)

theorem utf8_eq_nil (cs : Chars) : utf8 cs = [] ↔ cs = [] := by
  cases cs with
  | nil => simp
  | cons c cs => simp [enc_ne_nil c]

theorem utf8_isEmpty (cs : Chars) : (utf8 cs).isEmpty = cs.isEmpty := by
  cases cs with
  | nil => rfl
  | cons c cs =>
    have : utf8 (c :: cs) ≠ [] := by simp [enc_ne_nil c]
    cases h : utf8 (c :: cs) with
    | nil => exact absurd h this
    | cons _ _ => rfl

/-- first byte -/
theorem head_utf8 {P : Char → Bool} {Q : UInt8 → Bool} (h : Compat P Q) (c : Char) (cs : Chars) :
    ∃ b bs, utf8 (c :: cs) = b :: bs ∧ Q b = P c := by
  match he : String.utf8EncodeChar c with
  | [] => exact absurd he (enc_ne_nil c)
  | b :: bs => exact ⟨b, bs ++ utf8 cs, by simp [he], h c b (by simp [he])⟩

/-- last byte -/
theorem getLast_utf8 {P : Char → Bool} {Q : UInt8 → Bool} (h : Compat P Q) :
    ∀ cs : Chars, ((utf8 cs).getLast?.map Q) = (cs.getLast?.map P)
  | [] => rfl
  | [c] => by
    simp only [utf8_cons, utf8_nil, List.append_nil, List.getLast?_singleton, Option.map_some]
    match he : String.utf8EncodeChar c with
    | [] => exact absurd he (enc_ne_nil c)
    | b :: bs =>
      have hm : (b :: bs).getLast (by simp) ∈ String.utf8EncodeChar c := by rw [he]; exact List.getLast_mem _
      rw [List.getLast?_eq_some_getLast (by simp), Option.map_some, h c _ hm]
  | c :: d :: cs => by
    have ih := getLast_utf8 h (d :: cs)
    have hne : utf8 (d :: cs) ≠ [] := by simp [enc_ne_nil d]
    have hsome : ∃ x, (utf8 (d :: cs)).getLast? = some x := by
      cases hl : (utf8 (d :: cs)).getLast? with
      | none => exact absurd (List.getLast?_eq_none_iff.mp hl) hne
      | some x => exact ⟨x, rfl⟩
    obtain ⟨x, hx⟩ := hsome
    rw [utf8_cons, List.getLast?_append, List.getLast?_cons_cons, ← ih, hx]
    rfl

/-! ## the predicates used by `blockStringSafe` -/

theorem char_eq_iff (c d : Char) : c = d ↔ c.toNat = d.toNat :=
  ⟨fun h => by rw [h], fun h => by rw [← Char.ofNat_toNat c, ← Char.ofNat_toNat d, h]⟩

/-- "is the character / byte with code `k`" (k < 128) -/
theorem compat_eq (k : Nat) (hk : k < 128) (d : Char) (hd : d.toNat = k) (e : UInt8) (he : e.toNat = k) :
    Compat (fun c => c == d) (fun b => b == e) := by
  have hc := compat_of_nat (fun n => n == k) (by intro n hn; show (n == k) = (128 == k); rw [Bool.eq_iff_iff]; simp only [beq_iff_eq]; omega)
  intro c b hb
  have := hc c b hb
  simp only at this
  have e1 : (b == e) = (b.toNat == k) := by
    rw [Bool.eq_iff_iff]; simp only [beq_iff_eq]; rw [← UInt8.toNat_inj, he]
  have e2 : (c == d) = (c.toNat == k) := by
    rw [Bool.eq_iff_iff]; simp only [beq_iff_eq, char_eq_iff c d, hd]
  show (b == e) = (c == d)
  rw [e1, e2, this]

theorem compat_quote : Compat (fun c => c == '"') (fun b => b == 34) := compat_eq 34 (by omega) _ rfl _ rfl
theorem compat_bslash : Compat (fun c => c == '\\') (fun b => b == 92) := compat_eq 92 (by omega) _ rfl _ rfl
theorem compat_nl : Compat (fun c => c == '\n') (fun b => b == 10) := compat_eq 10 (by omega) _ rfl _ rfl

theorem compat_or {P P' : Char → Bool} {Q Q' : UInt8 → Bool} (h : Compat P Q) (h' : Compat P' Q') :
    Compat (fun c => P c || P' c) (fun b => Q b || Q' b) := by
  intro c b hb; simp only [h c b hb, h' c b hb]

theorem compat_not {P : Char → Bool} {Q : UInt8 → Bool} (h : Compat P Q) : Compat (fun c => !P c) (fun b => !Q b) := by
  intro c b hb; simp only [h c b hb]

theorem compat_ws : Compat (fun c => c == ' ' || c == '\t') (fun b => b == 32 || b == 9) :=
  compat_or (compat_eq 32 (by omega) _ rfl _ rfl) (compat_eq 9 (by omega) _ rfl _ rfl)

theorem compat_ge32 : Compat (fun c => decide (c.toNat ≥ 32)) (fun b => decide (32 ≤ b.toNat)) := by
  have := compat_of_nat (fun n => decide (32 ≤ n)) (by intro n hn; show decide (32 ≤ n) = decide (32 ≤ 128); rw [Bool.eq_iff_iff]; simp only [decide_eq_true_eq]; omega)
  exact this

/-! ## `contains`, lines -/

theorem contains_utf8 {d : Char} {e : UInt8} (h : Compat (fun c => c == d) (fun b => b == e)) (cs : Chars) :
    (utf8 cs).contains e = cs.contains d := by
  have h1 : (utf8 cs).contains e = (utf8 cs).any (fun b => b == e) := by
    rw [List.contains_eq_any_beq]; congr 1; funext b; exact Bool.beq_comm
  have h2 : cs.contains d = cs.any (fun c => c == d) := by
    rw [List.contains_eq_any_beq]; congr 1; funext b; exact Bool.beq_comm
  rw [h1, h2, any_utf8 h]

end GqlModel.RoundTrip
