import GqlProofs.ExecPair
/-! C04 two-world theorem, second paired induction: where the null sits. If, along the way to `p`, one response holds
`null` at a position, the other holds no `null` at any strictly longer prefix of `p` (`MaxOK`); if one call fails and the
other succeeds, the successful value holds no `null` anywhere along the way to `p` (`NNA`). Hence the position `q` of
`sibling_unaffected_two_worlds` is the LONGEST prefix of `p` that holds `null` in either response (or `p`). -/
namespace GqlModel.Exec
open GqlModel.Coerce

theorem getAt_append : ∀ (a b : Path) (j : JVal), j.getAt (a ++ b) = (j.getAt a).bind (fun v => v.getAt b)
  | [], b, j => by simp [getAt_nil]
  | seg :: a, b, j => by
    cases j with
    | obj fs =>
      cases seg with
      | idx i => rfl
      | key k =>
        simp only [List.cons_append, JVal.getAt]
        cases JVal.lookup fs k with
        | none => rfl
        | some x => exact getAt_append a b x
    | list xs =>
      cases seg with
      | key k => rfl
      | idx i =>
        simp only [List.cons_append, JVal.getAt]
        cases xs[i]? with
        | none => rfl
        | some x => exact getAt_append a b x
    | null => cases seg <;> rfl
    | bool _ => cases seg <;> rfl
    | int _ => cases seg <;> rfl
    | dec _ _ => cases seg <;> rfl
    | str _ => cases seg <;> rfl

/-- nothing is addressed strictly below a `null` -/
theorem getAt_below_null {j : JVal} {r' r'' : Path} (hp : r' <+: r'') (hne : r' ≠ r'') (h : j.getAt r' = some .null) :
    j.getAt r'' = none := by
  obtain ⟨t, rfl⟩ := hp
  cases t with
  | nil => simp at hne
  | cons s t => rw [getAt_append, h]; exact getAt_null_cons s t

/-- no `null` at any prefix of `rel` -/
def NNA (rel : Path) (j : JVal) : Prop := ∀ r, r <+: rel → j.getAt r ≠ some .null

/-- a `null` at a prefix of `rel` in one value excludes a `null` at a strictly longer prefix in the other -/
def MaxOK (rel : Path) (j1 j2 : JVal) : Prop :=
  ∀ r' r'', r' <+: r'' → r'' <+: rel → r' ≠ r'' →
    (j1.getAt r' = some .null → j2.getAt r'' ≠ some .null) ∧ (j2.getAt r' = some .null → j1.getAt r'' ≠ some .null)

theorem MaxOK.same (rel : Path) (j : JVal) : MaxOK rel j j := by
  intro r' r'' h1 _ hne
  constructor <;> intro h <;> rw [getAt_below_null h1 hne h] <;> simp

theorem MaxOK.null_left {rel : Path} {b : JVal} (h : NNA rel b) : MaxOK rel .null b := by
  intro r' r'' h1 h2 hne
  constructor
  · intro _; exact h r'' h2
  · intro hb; exact absurd hb (h r' (h1.trans h2))

theorem MaxOK.null_right {rel : Path} {a : JVal} (h : NNA rel a) : MaxOK rel a .null := by
  intro r' r'' h1 h2 hne
  constructor
  · intro ha; exact absurd ha (h r' (h1.trans h2))
  · intro _; exact h r'' h2

theorem NNA.of_maxOK_null_left {rel : Path} {b : JVal} (h : MaxOK rel .null b) (hb : b ≠ .null) : NNA rel b := by
  intro r hr
  cases r with
  | nil => rw [getAt_nil]; intro e; exact hb (Option.some.inj e)
  | cons s t => exact (h [] (s :: t) List.nil_prefix hr (by simp)).1 rfl

theorem NNA.of_maxOK_null_right {rel : Path} {a : JVal} (h : MaxOK rel a .null) (ha : a ≠ .null) : NNA rel a := by
  intro r hr
  cases r with
  | nil => rw [getAt_nil]; intro e; exact ha (Option.some.inj e)
  | cons s t => exact (h [] (s :: t) List.nil_prefix hr (by simp)).2 rfl

/-- the three statements about the results of one call in the two worlds -/
structure Mix (rel : Path) (r1 r2 : Res JVal) : Prop where
  okok : ∀ j1 j2, r1 = .ok j1 → r2 = .ok j2 → MaxOK rel j1 j2
  failok : ∀ j2, r1 = .fail → r2 = .ok j2 → NNA rel j2
  okfail : ∀ j1, r1 = .ok j1 → r2 = .fail → NNA rel j1

theorem Mix.same (rel : Path) (r : Res JVal) : Mix rel r r := by
  refine ⟨?_, ?_, ?_⟩
  · intro j1 j2 h1 h2; rw [h1] at h2; cases h2; exact MaxOK.same _ _
  · intro j2 h1 h2; rw [h1] at h2; cases h2
  · intro j1 h1 h2; rw [h1] at h2; cases h2

theorem Mix.fuelOut_left (rel : Path) (r : Res JVal) : Mix rel .fuelOut r :=
  ⟨fun _ _ h => (by cases h), fun _ h => (by cases h), fun _ h => (by cases h)⟩
theorem Mix.fuelOut_right (rel : Path) (r : Res JVal) : Mix rel r .fuelOut :=
  ⟨fun _ _ _ h => (by cases h), fun _ _ h => (by cases h), fun _ _ h => (by cases h)⟩
theorem Mix.fail_fail (rel : Path) : Mix rel .fail .fail :=
  ⟨fun _ _ h => (by cases h), fun _ _ h => (by cases h), fun _ h => (by cases h)⟩
theorem Mix.ok_ok {rel : Path} {j1 j2 : JVal} (h : MaxOK rel j1 j2) : Mix rel (.ok j1) (.ok j2) :=
  ⟨fun _ _ h1 h2 => (by cases h1; cases h2; exact h), fun _ h => (by cases h), fun _ _ h => (by cases h)⟩
theorem Mix.fail_ok {rel : Path} {j2 : JVal} (h : NNA rel j2) : Mix rel .fail (.ok j2) :=
  ⟨fun _ _ h => (by cases h), fun _ _ h2 => (by cases h2; exact h), fun _ h => (by cases h)⟩
theorem Mix.ok_fail {rel : Path} {j1 : JVal} (h : NNA rel j1) : Mix rel (.ok j1) .fail :=
  ⟨fun _ _ _ h => (by cases h), fun _ h => (by cases h), fun _ h1 _ => (by cases h1; exact h)⟩

/-- absorption of a failure by a nullable position -/
def absorbR (nonNull : Bool) : Res JVal → Res JVal
  | .fail => if nonNull then .fail else .ok .null
  | r => r

theorem Mix.absorb {rel : Path} {r1 r2 : Res JVal} (h : Mix rel r1 r2) (nn : Bool) :
    Mix rel (absorbR nn r1) (absorbR nn r2) := by
  cases nn with
  | true => cases r1 <;> cases r2 <;> simpa [absorbR] using h
  | false =>
    cases r1 with
    | fuelOut => exact Mix.fuelOut_left _ _
    | ok a =>
      cases r2 with
      | fuelOut => exact Mix.fuelOut_right _ _
      | ok b => simpa [absorbR] using h
      | fail => exact Mix.ok_ok (MaxOK.null_right (h.okfail a rfl rfl))
    | fail =>
      cases r2 with
      | fuelOut => exact Mix.fuelOut_right _ _
      | ok b => exact Mix.ok_ok (MaxOK.null_left (h.failok b rfl rfl))
      | fail => exact Mix.ok_ok (MaxOK.same _ _)

/-- the non-null check: a `null` value becomes a failure -/
def nnPostR : Res JVal → Res JVal
  | .ok .null => .fail
  | r => r

theorem nnPostR_ok {a : JVal} (h : a ≠ .null) : nnPostR (.ok a) = .ok a := by
  cases a <;> first | exact absurd rfl h | rfl

theorem Mix.nnPost {rel : Path} {r1 r2 : Res JVal} (h : Mix rel r1 r2) : Mix rel (nnPostR r1) (nnPostR r2) := by
  cases r1 with
  | fuelOut => exact Mix.fuelOut_left _ _
  | fail =>
    cases r2 with
    | fuelOut => exact Mix.fuelOut_right _ _
    | fail => exact Mix.fail_fail _
    | ok b =>
      by_cases hb : b = .null
      · subst hb; exact Mix.fail_fail _
      · rw [nnPostR_ok hb]; exact Mix.fail_ok (h.failok b rfl rfl)
  | ok a =>
    cases r2 with
    | fuelOut => exact Mix.fuelOut_right _ _
    | fail =>
      by_cases ha : a = .null
      · subst ha; exact Mix.fail_fail _
      · rw [nnPostR_ok ha]; exact Mix.ok_fail (h.okfail a rfl rfl)
    | ok b =>
      have hm := h.okok a b rfl rfl
      by_cases ha : a = .null
      · subst ha
        by_cases hb : b = .null
        · subst hb; exact Mix.fail_fail _
        · rw [nnPostR_ok hb]; exact Mix.fail_ok (NNA.of_maxOK_null_left hm hb)
      · rw [nnPostR_ok ha]
        by_cases hb : b = .null
        · subst hb; exact Mix.ok_fail (NNA.of_maxOK_null_right hm ha)
        · rw [nnPostR_ok hb]; exact Mix.ok_ok hm

/-! ## transport along one path segment -/

theorem prefix_cons_cases {s : PathSeg} {rel' r : Path} (h : r <+: s :: rel') :
    r = [] ∨ ∃ r1, r = s :: r1 ∧ r1 <+: rel' := by
  cases r with
  | nil => exact Or.inl rfl
  | cons t r1 =>
    have := List.cons_prefix_cons.mp h
    exact Or.inr ⟨r1, by rw [this.1], this.2⟩

theorem NNA.child {s : PathSeg} {rel' : Path} {J j : JVal} (hJ : J ≠ .null)
    (hc : ∀ r, J.getAt (s :: r) = j.getAt r) (h : NNA rel' j) : NNA (s :: rel') J := by
  intro r hr
  rcases prefix_cons_cases hr with rfl | ⟨r1, rfl, hr1⟩
  · rw [getAt_nil]; intro e; exact hJ (Option.some.inj e)
  · rw [hc]; exact h r1 hr1

theorem MaxOK.child {s : PathSeg} {rel' : Path} {J1 J2 j1 j2 : JVal} (h1 : J1 ≠ .null) (h2 : J2 ≠ .null)
    (hc1 : ∀ r, J1.getAt (s :: r) = j1.getAt r) (hc2 : ∀ r, J2.getAt (s :: r) = j2.getAt r)
    (h : MaxOK rel' j1 j2) : MaxOK (s :: rel') J1 J2 := by
  intro r' r'' hp hr hne
  rcases prefix_cons_cases hr with rfl | ⟨b, rfl, hb⟩
  · have : r' = [] := List.prefix_nil.mp hp
    exact absurd this hne
  · rcases prefix_cons_cases (hp.trans hr) with rfl | ⟨a, rfl, ha⟩
    · constructor
      · rw [getAt_nil]; intro e; exact absurd (Option.some.inj e) h1
      · rw [getAt_nil]; intro e; exact absurd (Option.some.inj e) h2
    · have hab : a <+: b := (List.cons_prefix_cons.mp hp).2
      have hne' : a ≠ b := fun e => hne (by rw [e])
      rw [hc1, hc2, hc1, hc2]
      exact h a b hab hb hne'

theorem obj_ne_null (fs : List (String × JVal)) : JVal.obj fs ≠ .null := fun h => by cases h
theorem list_ne_null (xs : List JVal) : JVal.list xs ≠ .null := fun h => by cases h

theorem getAt_obj_cons_self (k : String) (v : JVal) (m : List (String × JVal)) (r : Path) :
    (JVal.obj ((k, v) :: m)).getAt (.key k :: r) = v.getAt r := by
  rw [getAt_obj_cons]; simp

theorem getAt_obj_cons_other {k k0 : String} (hk : k ≠ k0) (v : JVal) (m : List (String × JVal)) (r : Path) :
    (JVal.obj ((k, v) :: m)).getAt (.key k0 :: r) = (JVal.obj m).getAt (.key k0 :: r) := by
  rw [getAt_obj_cons]
  have : (k == k0) = false := by simpa using hk
  simp [this]

theorem getAt_list_pre_self (pre : List JVal) (y : JVal) (m : List JVal) (r : Path) :
    (JVal.list (pre ++ y :: m)).getAt (.idx pre.length :: r) = y.getAt r := by
  rw [getAt_list_idx, getElem?_append_cons_self]; rfl

/-- transport of `NNA` / `MaxOK` between two containers that look alike along the first segment -/
theorem NNA.congr_head {s : PathSeg} {rel' : Path} {J J' : JVal} (hJ' : J' ≠ .null)
    (hc : ∀ r, J'.getAt (s :: r) = J.getAt (s :: r)) (h : NNA (s :: rel') J) : NNA (s :: rel') J' := by
  intro r hr
  rcases prefix_cons_cases hr with rfl | ⟨r1, rfl, hr1⟩
  · rw [getAt_nil]; intro e; exact hJ' (Option.some.inj e)
  · rw [hc]; exact h _ hr

theorem MaxOK.congr_head {s : PathSeg} {rel' : Path} {J1 J2 J1' J2' : JVal} (h1 : J1' ≠ .null) (h2 : J2' ≠ .null)
    (hc1 : ∀ r, J1'.getAt (s :: r) = J1.getAt (s :: r)) (hc2 : ∀ r, J2'.getAt (s :: r) = J2.getAt (s :: r))
    (h : MaxOK (s :: rel') J1 J2) : MaxOK (s :: rel') J1' J2' := by
  intro r' r'' hp hr hne
  rcases prefix_cons_cases hr with rfl | ⟨b, rfl, hb⟩
  · have : r' = [] := List.prefix_nil.mp hp
    exact absurd this hne
  · rcases prefix_cons_cases (hp.trans hr) with rfl | ⟨a, rfl, ha⟩
    · constructor
      · rw [getAt_nil]; intro e; exact absurd (Option.some.inj e) h1
      · rw [getAt_nil]; intro e; exact absurd (Option.some.inj e) h2
    · rw [hc1, hc2, hc1, hc2]
      exact h _ _ hp hr hne

/-- prepending the same entry under a key other than the one on the way to `p` -/
theorem Mix.obj_same_head {k0 k : String} {rel' : Path} {v : JVal} {rr1 rr2 : Res (List (String × JVal))}
    (h : Mix (.key k0 :: rel') (rr1.mapOk .obj) (rr2.mapOk .obj)) (hk : k ≠ k0) :
    Mix (.key k0 :: rel') ((rr1.mapOk ((k, v) :: ·)).mapOk .obj) ((rr2.mapOk ((k, v) :: ·)).mapOk .obj) := by
  cases rr1 with
  | fuelOut => exact Mix.fuelOut_left _ _
  | fail =>
    cases rr2 with
    | fuelOut => exact Mix.fuelOut_right _ _
    | fail => exact Mix.fail_fail _
    | ok m2 =>
      exact Mix.fail_ok (NNA.congr_head (obj_ne_null _) (getAt_obj_cons_other hk v m2) (h.failok _ rfl rfl))
  | ok m1 =>
    cases rr2 with
    | fuelOut => exact Mix.fuelOut_right _ _
    | fail =>
      exact Mix.ok_fail (NNA.congr_head (obj_ne_null _) (getAt_obj_cons_other hk v m1) (h.okfail _ rfl rfl))
    | ok m2 =>
      exact Mix.ok_ok (MaxOK.congr_head (obj_ne_null _) (obj_ne_null _) (getAt_obj_cons_other hk v m1)
        (getAt_obj_cons_other hk v m2) (h.okok _ _ rfl rfl))

/-! ## the second paired invariant -/

structure MixP (c : Ctx) (w2 : World) (id0 : Nat) (f0 : String) (fuel : Nat) : Prop where
  groups : ∀ dfr rt src path groups rel r1 d1 r2 d2, groups.keys.Nodup →
    execGroups c fuel dfr rt src path groups [] St.empty = (r1, d1) →
    execGroups (c.withWorld w2) fuel dfr rt src path groups [] St.empty = (r2, d2) →
    TouchAt id0 f0 (path ++ rel) d1.log → Mix rel (r1.mapOk .obj) (r2.mapOk .obj)
  field : ∀ dfr rt src pf fd nodes rel r1 d1 r2 d2,
    execField c fuel dfr rt src pf fd nodes St.empty = (r1, d1) →
    execField (c.withWorld w2) fuel dfr rt src pf fd nodes St.empty = (r2, d2) →
    TouchAt id0 f0 (pf ++ rel) d1.log → Mix rel r1 r2
  complete : ∀ dfr t rt fname nodes pos v rel r1 d1 r2 d2,
    complete c fuel dfr t rt fname nodes pos v St.empty = (r1, d1) →
    complete (c.withWorld w2) fuel dfr t rt fname nodes pos v St.empty = (r2, d2) →
    TouchAt id0 f0 (pos ++ rel) d1.log → Mix rel r1 r2
  items : ∀ dfr item rt fname nodes pl xs i rel r1 d1 r2 d2,
    completeItems c fuel dfr item rt fname nodes pl xs i [] St.empty = (r1, d1) →
    completeItems (c.withWorld w2) fuel dfr item rt fname nodes pl xs i [] St.empty = (r2, d2) →
    TouchAt id0 f0 (pl ++ rel) d1.log → ∀ pre : List JVal, pre.length = i →
      Mix rel (r1.mapOk (fun js => .list (pre ++ js))) (r2.mapOk (fun js => .list (pre ++ js)))

variable {c : Ctx} {w2 : World} {id0 : Nat} {f0 : String}

theorem mixP_zero : MixP c w2 id0 f0 0 := by
  refine ⟨?_, ?_, ?_, ?_⟩
  · intro dfr rt src path groups rel r1 d1 r2 d2 _ h1 _ _
    simp only [execGroups, Prod.mk.injEq] at h1; rw [← h1.1]; exact Mix.fuelOut_left _ _
  · intro dfr rt src pf fd nodes rel r1 d1 r2 d2 h1 _ _
    simp only [execField, Prod.mk.injEq] at h1; rw [← h1.1]; exact Mix.fuelOut_left _ _
  · intro dfr t rt fname nodes pos v rel r1 d1 r2 d2 h1 _ _
    simp only [complete, Prod.mk.injEq] at h1; rw [← h1.1]; exact Mix.fuelOut_left _ _
  · intro dfr item rt fname nodes pl xs i rel r1 d1 r2 d2 h1 _ _ pre _
    simp only [completeItems, Prod.mk.injEq] at h1; rw [← h1.1]; exact Mix.fuelOut_left _ _

theorem mixP_groups (ha : AgreeExcept c.world w2 id0 f0) (fuel : Nat) (ih : MixP c w2 id0 f0 fuel) :
    ∀ dfr rt src path groups rel r1 d1 r2 d2, groups.keys.Nodup →
    execGroups c (fuel + 1) dfr rt src path groups [] St.empty = (r1, d1) →
    execGroups (c.withWorld w2) (fuel + 1) dfr rt src path groups [] St.empty = (r2, d2) →
    TouchAt id0 f0 (path ++ rel) d1.log → Mix rel (r1.mapOk .obj) (r2.mapOk .obj) := by
  intro dfr rt src path groups rel r1 d1 r2 d2 hn h1 h2 ht
  by_cases hu : ∀ e, e ∈ d1.log → ¬ Touches id0 f0 e
  · have := (wP ha (fuel + 1)).groups _ _ _ _ _ _ _ _ _ h1 hu
    rw [this] at h2
    simp only [Prod.mk.injEq] at h2
    rw [← h2.1]
    exact Mix.same _ _
  · obtain ⟨e0, he0, ht0⟩ := exists_touch_of_not_untouched hu
    obtain ⟨k0, -, hp0⟩ := groups_log_prefix h1 e0 he0
    obtain ⟨rel', rfl⟩ := rel_cons_of_prefix (ht e0 he0 ht0) hp0
    cases groups with
    | nil => simp only [execGroups, Prod.mk.injEq] at h1; rw [← h1.2] at he0; cases he0
    | cons g rest =>
      obtain ⟨k, nodes⟩ := g
      have hn' : Groups.keys rest |>.Nodup := (List.nodup_cons.mp hn).2
      have hk_rest : k ∉ Groups.keys rest := (List.nodup_cons.mp hn).1
      simp only [execGroups, Ctx.withWorld_schema] at h1 h2
      cases hh : nodes.head? with
      | none =>
        simp only [hh] at h1 h2
        exact ih.groups _ _ _ _ _ _ _ _ _ _ hn' h1 h2 ht
      | some node =>
        cases hfd : fieldDef? c.schema rt node.name with
        | none =>
          simp only [hh, hfd] at h1 h2
          exact ih.groups _ _ _ _ _ _ _ _ _ _ hn' h1 h2 ht
        | some fd =>
          simp only [hh, hfd] at h1 h2
          rcases hf1 : execField c fuel dfr rt src (path ++ [.key k]) fd nodes St.empty with ⟨rf1, df1⟩
          rcases hf2 : execField (c.withWorld w2) fuel dfr rt src (path ++ [.key k]) fd nodes St.empty with ⟨rf2, df2⟩
          rw [hf1] at h1
          rw [hf2] at h2
          -- the field's invocations are part of the whole log
          have hsub : ∀ e, e ∈ df1.log → e ∈ d1.log := by
            intro e he
            cases rf1 with
            | ok v =>
              simp only at h1
              obtain ⟨new, hl, -⟩ := (logP c fuel).groups _ _ _ _ _ _ _ _ _ h1
              rw [hl]; exact List.mem_append_right _ he
            | fail => simp only [Prod.mk.injEq] at h1; rw [← h1.2]; exact he
            | fuelOut => simp only [Prod.mk.injEq] at h1; rw [← h1.2]; exact he
          have htf : ∀ e, e ∈ df1.log → Touches id0 f0 e → e.path = path ++ .key k0 :: rel' :=
            fun e he => ht e (hsub e he)
          by_cases hk : k = k0
          · subst hk
            have hF := ih.field _ _ _ _ _ _ rel' _ _ _ _ hf1 hf2 (fun e he h => by rw [htf e he h]; simp)
            cases rf1 with
            | fuelOut => simp only [Prod.mk.injEq] at h1; rw [← h1.1]; exact Mix.fuelOut_left _ _
            | fail =>
              simp only [Prod.mk.injEq] at h1
              rw [← h1.1]
              cases rf2 with
              | fuelOut => simp only [Prod.mk.injEq] at h2; rw [← h2.1]; exact Mix.fuelOut_right _ _
              | fail => simp only [Prod.mk.injEq] at h2; rw [← h2.1]; exact Mix.fail_fail _
              | ok v2 =>
                simp only at h2
                rw [execGroups_canon] at h2
                simp only [Prod.mk.injEq] at h2
                rw [← h2.1]
                cases (execGroups (c.withWorld w2) fuel dfr rt src path rest [] St.empty).1 with
                | fuelOut => exact Mix.fuelOut_right _ _
                | fail => exact Mix.fail_fail _
                | ok m2 =>
                  exact Mix.fail_ok (NNA.child (obj_ne_null _) (getAt_obj_cons_self k v2 m2) (hF.failok v2 rfl rfl))
            | ok v1 =>
              simp only at h1
              rw [execGroups_canon] at h1
              rcases hr1 : execGroups c fuel dfr rt src path rest [] St.empty with ⟨rr1, dr1⟩
              rw [hr1] at h1
              simp only [Prod.mk.injEq] at h1
              obtain ⟨rfl, rfl⟩ := h1
              have htl : ∀ e, e ∈ dr1.log → Touches id0 f0 e → e.path = path ++ .key k :: rel' :=
                fun e he => ht e (by simp only [St.app]; exact List.mem_append_left _ he)
              have hu' : ∀ e, e ∈ dr1.log → ¬ Touches id0 f0 e := by
                intro e he h
                obtain ⟨k'', hk'', hp⟩ := groups_log_prefix hr1 e he
                rw [htl e he h] at hp
                have hp' : (path ++ [PathSeg.key k]) <+: path ++ PathSeg.key k :: rel' := ⟨rel', by simp⟩
                have := Path.seg_eq_of_prefix hp hp'
                simp only [PathSeg.key.injEq] at this
                subst this
                exact hk_rest hk''
              have hr2 := (wP ha fuel).groups _ _ _ _ _ _ _ _ _ hr1 hu'
              cases rf2 with
              | fuelOut => simp only [Prod.mk.injEq] at h2; rw [← h2.1]; exact Mix.fuelOut_right _ _
              | fail =>
                simp only [Prod.mk.injEq] at h2
                rw [← h2.1]
                cases rr1 with
                | fuelOut => exact Mix.fuelOut_left _ _
                | fail => exact Mix.fail_fail _
                | ok m =>
                  exact Mix.ok_fail (NNA.child (obj_ne_null _) (getAt_obj_cons_self k v1 _) (hF.okfail v1 rfl rfl))
              | ok v2 =>
                simp only at h2
                rw [execGroups_canon, hr2] at h2
                simp only [Prod.mk.injEq] at h2
                rw [← h2.1]
                cases rr1 with
                | fuelOut => exact Mix.fuelOut_left _ _
                | fail => exact Mix.fail_fail _
                | ok m =>
                  exact Mix.ok_ok (MaxOK.child (obj_ne_null _) (obj_ne_null _) (getAt_obj_cons_self k v1 _)
                    (getAt_obj_cons_self k v2 _) (hF.okok v1 v2 rfl rfl))
          · have hu' : ∀ e, e ∈ df1.log → ¬ Touches id0 f0 e := by
              intro e he h
              have hp := field_log_prefix hf1 e he
              rw [htf e he h] at hp
              have hp' : (path ++ [PathSeg.key k0]) <+: path ++ PathSeg.key k0 :: rel' := ⟨rel', by simp⟩
              have := Path.seg_eq_of_prefix hp hp'
              simp only [PathSeg.key.injEq] at this
              exact hk this
            have := (wP ha fuel).field _ _ _ _ _ _ _ _ _ hf1 hu'
            rw [this] at hf2
            simp only [Prod.mk.injEq] at hf2
            obtain ⟨rfl, rfl⟩ := hf2
            cases rf1 with
            | fuelOut => simp only [Prod.mk.injEq] at h1; rw [← h1.1]; exact Mix.fuelOut_left _ _
            | fail =>
              simp only [Prod.mk.injEq] at h1 h2
              rw [← h1.1, ← h2.1]; exact Mix.fail_fail _
            | ok v =>
              simp only at h1 h2
              rw [execGroups_canon] at h1 h2
              rcases hr1 : execGroups c fuel dfr rt src path rest [] St.empty with ⟨rr1, dr1⟩
              rcases hr2 : execGroups (c.withWorld w2) fuel dfr rt src path rest [] St.empty with ⟨rr2, dr2⟩
              rw [hr1] at h1
              rw [hr2] at h2
              simp only [Prod.mk.injEq] at h1 h2
              obtain ⟨rfl, rfl⟩ := h1
              obtain ⟨rfl, rfl⟩ := h2
              have htl : ∀ e, e ∈ dr1.log → Touches id0 f0 e → e.path = path ++ .key k0 :: rel' :=
                fun e he => ht e (by simp only [St.app]; exact List.mem_append_left _ he)
              have hG := ih.groups _ _ _ _ _ _ _ _ _ _ hn' hr1 hr2 htl
              simp only [List.nil_append, List.singleton_append]
              exact Mix.obj_same_head hG hk

theorem mapOk_mapOk {α β γ : Type} (f : α → β) (g : β → γ) (r : Res α) : (r.mapOk f).mapOk g = r.mapOk (fun a => g (f a)) := by
  cases r <;> rfl

/-- the result of a list whose head item stored `s` (or propagated its failure) and whose remaining items gave `rr` -/
def bindL (pre : List JVal) (s : Res JVal) (rr : Res (List JVal)) : Res JVal :=
  match s with
  | .ok y => rr.mapOk (fun js => .list (pre ++ y :: js))
  | .fail => .fail
  | .fuelOut => .fuelOut

/-- the item on the way to `p`: the remaining items are the same in both worlds whenever the first world executes them -/
theorem Mix.list_div {rel' : Path} {pre : List JVal} {s1 s2 : Res JVal} {rrA rrB : Res (List JVal)}
    (h : Mix rel' s1 s2) (hrest : ∀ y1, s1 = .ok y1 → rrB = rrA) :
    Mix (.idx pre.length :: rel') (bindL pre s1 rrA) (bindL pre s2 rrB) := by
  cases s1 with
  | fuelOut => exact Mix.fuelOut_left _ _
  | fail =>
    cases s2 with
    | fuelOut => exact Mix.fuelOut_right _ _
    | fail => exact Mix.fail_fail _
    | ok y2 =>
      cases rrB with
      | fuelOut => exact Mix.fuelOut_right _ _
      | fail => exact Mix.fail_fail _
      | ok m2 => exact Mix.fail_ok (NNA.child (list_ne_null _) (getAt_list_pre_self pre y2 m2) (h.failok y2 rfl rfl))
  | ok y1 =>
    have := hrest y1 rfl
    subst this
    cases s2 with
    | fuelOut => exact Mix.fuelOut_right _ _
    | fail =>
      cases rrB with
      | fuelOut => exact Mix.fuelOut_left _ _
      | fail => exact Mix.fail_fail _
      | ok m => exact Mix.ok_fail (NNA.child (list_ne_null _) (getAt_list_pre_self pre y1 m) (h.okfail y1 rfl rfl))
    | ok y2 =>
      cases rrB with
      | fuelOut => exact Mix.fuelOut_left _ _
      | fail => exact Mix.fail_fail _
      | ok m =>
        exact Mix.ok_ok (MaxOK.child (list_ne_null _) (list_ne_null _) (getAt_list_pre_self pre y1 m)
          (getAt_list_pre_self pre y2 m) (h.okok y1 y2 rfl rfl))

/-- what one step of `completeItems` returns, in terms of the head's result and the canonical run of the rest -/
theorem completeItems_step_result (c : Ctx) (fuel : Nat) (dfr : Bool) (item : GType) (rt fname : String)
    (nodes : List FieldNode) (pl : Path) (x : GoVal) (xs : List GoVal) (i : Nat) (pre : List JVal) :
    ((completeItems c (fuel + 1) dfr item rt fname nodes pl (x :: xs) i [] St.empty).1).mapOk (fun js => JVal.list (pre ++ js)) =
      bindL pre (absorbR item.isNonNull (complete c fuel dfr item rt fname nodes (pl ++ [.idx i]) x St.empty).1)
        (completeItems c fuel dfr item rt fname nodes pl xs (i + 1) [] St.empty).1 := by
  simp only [completeItems]
  rcases hc : complete c fuel dfr item rt fname nodes (pl ++ [.idx i]) x St.empty with ⟨rc, dc⟩
  simp only [hc]
  cases rc with
  | fuelOut => simp only [absorbR, bindL, Res.mapOk]
  | ok j =>
    simp only [absorbR, bindL]
    rw [completeItems_canon]
    simp only [mapOk_mapOk, List.nil_append, List.singleton_append]
  | fail =>
    simp only [absorbR]
    by_cases hnn : item.isNonNull = true
    · simp only [hnn, if_true, bindL, Res.mapOk]
    · simp only [hnn, Bool.false_eq_true, if_false, bindL]
      rw [completeItems_canon]
      simp only [mapOk_mapOk, List.nil_append, List.singleton_append]

theorem mixP_items (ha : AgreeExcept c.world w2 id0 f0) (fuel : Nat) (ih : MixP c w2 id0 f0 fuel) :
    ∀ dfr item rt fname nodes pl xs i rel r1 d1 r2 d2,
    completeItems c (fuel + 1) dfr item rt fname nodes pl xs i [] St.empty = (r1, d1) →
    completeItems (c.withWorld w2) (fuel + 1) dfr item rt fname nodes pl xs i [] St.empty = (r2, d2) →
    TouchAt id0 f0 (pl ++ rel) d1.log → ∀ pre : List JVal, pre.length = i →
      Mix rel (r1.mapOk (fun js => .list (pre ++ js))) (r2.mapOk (fun js => .list (pre ++ js))) := by
  intro dfr item rt fname nodes pl xs i rel r1 d1 r2 d2 h1 h2 ht pre hpre
  by_cases hu : ∀ e, e ∈ d1.log → ¬ Touches id0 f0 e
  · have := (wP ha (fuel + 1)).items _ _ _ _ _ _ _ _ _ _ _ _ h1 hu
    rw [this] at h2
    simp only [Prod.mk.injEq] at h2
    rw [← h2.1]
    exact Mix.same _ _
  · obtain ⟨e0, he0, ht0⟩ := exists_touch_of_not_untouched hu
    obtain ⟨i0, -, hp0⟩ := items_log_prefix h1 e0 he0
    obtain ⟨rel', rfl⟩ := rel_cons_of_prefix (ht e0 he0 ht0) hp0
    cases xs with
    | nil => simp only [completeItems, Prod.mk.injEq] at h1; rw [← h1.2] at he0; cases he0
    | cons x xs =>
      have e1 : r1 = (completeItems c (fuel + 1) dfr item rt fname nodes pl (x :: xs) i [] St.empty).1 := by rw [h1]
      have e2 : r2 = (completeItems (c.withWorld w2) (fuel + 1) dfr item rt fname nodes pl (x :: xs) i [] St.empty).1 := by
        rw [h2]
      rw [e1, e2, completeItems_step_result, completeItems_step_result]
      rcases hc1 : complete c fuel dfr item rt fname nodes (pl ++ [.idx i]) x St.empty with ⟨rc1, dc1⟩
      rcases hc2 : complete (c.withWorld w2) fuel dfr item rt fname nodes (pl ++ [.idx i]) x St.empty with ⟨rc2, dc2⟩
      rcases hr1 : completeItems c fuel dfr item rt fname nodes pl xs (i + 1) [] St.empty with ⟨rr1, dr1⟩
      rcases hr2 : completeItems (c.withWorld w2) fuel dfr item rt fname nodes pl xs (i + 1) [] St.empty with ⟨rr2, dr2⟩
      simp only [hc1, hc2]
      -- how the whole log is made of the head's and the rest's
      simp only [completeItems, hc1] at h1
      have hsub : ∀ e, e ∈ dc1.log → e ∈ d1.log := by
        intro e he
        cases rc1 with
        | ok j =>
          simp only at h1
          obtain ⟨new, hl, -⟩ := (logP c fuel).items _ _ _ _ _ _ _ _ _ _ _ _ h1
          rw [hl]; exact List.mem_append_right _ he
        | fail =>
          simp only at h1
          split at h1
          · simp only [Prod.mk.injEq] at h1; rw [← h1.2]; exact he
          · obtain ⟨new, hl, -⟩ := (logP c fuel).items _ _ _ _ _ _ _ _ _ _ _ _ h1
            rw [hl]; exact List.mem_append_right _ he
        | fuelOut => simp only [Prod.mk.injEq] at h1; rw [← h1.2]; exact he
      have htc : ∀ e, e ∈ dc1.log → Touches id0 f0 e → e.path = pl ++ .idx i0 :: rel' := fun e he => ht e (hsub e he)
      -- when the head stores a value, the rest is executed in the first world
      have hrest_sub : ∀ y1, absorbR item.isNonNull rc1 = .ok y1 → ∀ e, e ∈ dr1.log → e ∈ d1.log := by
        intro y1 hy e he
        have hrun : completeItems c fuel dfr item rt fname nodes pl xs (i + 1) ([] ++ [y1]) dc1 = (r1, d1) := by
          cases rc1 with
          | ok j => simp only [absorbR, Res.ok.injEq] at hy; subst hy; exact h1
          | fail =>
            simp only [absorbR] at hy
            split at hy
            · cases hy
            · rename_i hnn
              simp only [Res.ok.injEq] at hy; subst hy
              simp only [hnn, Bool.false_eq_true, if_false] at h1
              exact h1
          | fuelOut => simp [absorbR] at hy
        rw [completeItems_canon, hr1] at hrun
        simp only [Prod.mk.injEq] at hrun
        rw [← hrun.2]
        simp only [St.app]; exact List.mem_append_left _ he
      by_cases hi : i = i0
      · subst hi
        have hC := ih.complete _ _ _ _ _ _ _ rel' _ _ _ _ hc1 hc2 (fun e he h => by rw [htc e he h]; simp)
        have hA := hC.absorb item.isNonNull
        have hrest : ∀ y1, absorbR item.isNonNull rc1 = .ok y1 → rr2 = rr1 := by
          intro y1 hy
          have hu' : ∀ e, e ∈ dr1.log → ¬ Touches id0 f0 e := by
            intro e he h
            obtain ⟨j, hj, hp⟩ := items_log_prefix hr1 e he
            rw [ht e (hrest_sub y1 hy e he) h] at hp
            have hp' : (pl ++ [PathSeg.idx i]) <+: pl ++ PathSeg.idx i :: rel' := ⟨rel', by simp⟩
            have := Path.seg_eq_of_prefix hp hp'
            simp only [PathSeg.idx.injEq] at this
            omega
          have := (wP ha fuel).items _ _ _ _ _ _ _ _ _ _ _ _ hr1 hu'
          rw [this] at hr2
          simp only [Prod.mk.injEq] at hr2
          exact hr2.1.symm
        rw [← hpre]
        exact Mix.list_div hA hrest
      · have hu' : ∀ e, e ∈ dc1.log → ¬ Touches id0 f0 e := by
          intro e he h
          have hp := (complete_log_below hc1 e he).prefix
          rw [htc e he h] at hp
          have hp' : (pl ++ [PathSeg.idx i0]) <+: pl ++ PathSeg.idx i0 :: rel' := ⟨rel', by simp⟩
          have := Path.seg_eq_of_prefix hp hp'
          simp only [PathSeg.idx.injEq] at this
          exact hi this
        have := (wP ha fuel).complete _ _ _ _ _ _ _ _ _ _ hc1 hu'
        rw [this] at hc2
        simp only [Prod.mk.injEq] at hc2
        obtain ⟨rfl, rfl⟩ := hc2
        cases hs : absorbR item.isNonNull rc1 with
        | fuelOut => exact Mix.fuelOut_left _ _
        | fail => exact Mix.fail_fail _
        | ok y =>
          have htl : ∀ e, e ∈ dr1.log → Touches id0 f0 e → e.path = pl ++ .idx i0 :: rel' :=
            fun e he => ht e (hrest_sub y hs e he)
          have hG := ih.items _ _ _ _ _ _ _ _ _ _ _ _ _ hr1 hr2 htl (pre ++ [y]) (by simp [hpre])
          simp only [bindL]
          simpa only [List.append_assoc, List.singleton_append] using hG

end GqlModel.Exec
