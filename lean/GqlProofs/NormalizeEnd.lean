import GqlProofs.NormalizeExec
/-! C06 (normaliser): assembling the end-to-end theorem — `selectOperation` on the document with one operation
replaced, fragments untouched, variables (piece 1), the walk's relation (piece 3) and the executor simulation (piece 2). -/
set_option linter.unusedSimpArgs false
set_option linter.unusedVariables false
set_option linter.unusedSectionVars false
namespace GqlModel.Normalize
open GqlModel GqlModel.Coerce GqlModel.Exec

/-! ## replacing one operation by an operation of the same name and type -/

/-- `d'` is `d`, or `d` is the operation `o` and `d'` its replacement `n` -/
def QDef (o n d d' : Definition) : Prop := d' = d ∨ (d = o ∧ d' = n)

def QOpt (o n : Definition) : Option Definition → Option Definition → Prop
  | none, none => True
  | some d, some d' => QDef o n d d'
  | _, _ => False

theorem all2_replaceAt (o n : Definition) : ∀ (defs : List Definition) (i : Nat), defs[i]? = some o →
    All2 (QDef o n) defs (replaceAt defs i n) := by
  have hrefl : ∀ defs : List Definition, All2 (QDef o n) defs defs := by
    intro defs
    induction defs with
    | nil => trivial
    | cons d ds ih => exact ⟨Or.inl rfl, ih⟩
  intro defs
  induction defs with
  | nil => intro i h; simp at h
  | cons d ds ih =>
    intro i h
    cases i with
    | zero =>
      simp only [List.getElem?_cons_zero, Option.some.injEq] at h
      subst h
      exact ⟨Or.inr ⟨rfl, rfl⟩, hrefl ds⟩
    | succ i =>
      simp only [List.getElem?_cons_succ] at h
      exact ⟨Or.inl rfl, ih i h⟩

section Select
variable (opName : String) (op : OpType) (name : Option Name) (vars vars2 : List VarDef) (dirs : List Directive)
  (sel sel2 : SelectionSet) (loc : Loc)

theorem go_sim : ∀ (defs defs' : List Definition) (cur cur' : Option Definition),
    All2 (QDef (.operation op name vars dirs sel loc) (.operation op name vars2 dirs sel2 loc)) defs defs' →
    QOpt (.operation op name vars dirs sel loc) (.operation op name vars2 dirs sel2 loc) cur cur' →
    (∃ e, selectOperation.go opName defs cur = .error e ∧ selectOperation.go opName defs' cur' = .error e) ∨
    (∃ r r', selectOperation.go opName defs cur = .ok r ∧ selectOperation.go opName defs' cur' = .ok r' ∧
      QOpt (.operation op name vars dirs sel loc) (.operation op name vars2 dirs sel2 loc) r r') := by
  intro defs
  induction defs with
  | nil =>
    intro defs' cur cur' h hc
    cases defs' with
    | nil => exact Or.inr ⟨cur, cur', rfl, rfl, hc⟩
    | cons _ _ => cases h
  | cons d ds ih =>
    intro defs' cur cur' h hc
    cases defs' with
    | nil => cases h
    | cons d' ds' =>
      obtain ⟨hq, hrest⟩ := h
      have hsome : cur'.isSome = cur.isSome := by
        cases cur <;> cases cur' <;> simp_all [QOpt]
      rcases hq with rfl | ⟨rfl, rfl⟩
      · -- the same definition on both sides
        cases d' with
        | operation o nm vs ds0 sl lc =>
          simp only [selectOperation.go, hsome]
          by_cases h1 : (opName == "" && cur.isSome) = true
          · simp only [h1, if_true]; exact Or.inl ⟨_, rfl, rfl⟩
          · simp only [h1, Bool.false_eq_true, if_false]
            by_cases h2 : (opName == "" || (nm.map (·.value)) == some opName) = true
            · simp only [h2, if_true]
              exact ih ds' _ _ hrest (Or.inl rfl)
            · simp only [h2, Bool.false_eq_true, if_false]
              exact ih ds' _ _ hrest hc
        | fragment a b c0 d0 e0 => simp only [selectOperation.go]; exact ih ds' _ _ hrest hc
        | schema _ _ _ => simp only [selectOperation.go]; exact Or.inl ⟨_, rfl, rfl⟩
        | scalar _ _ _ _ => simp only [selectOperation.go]; exact Or.inl ⟨_, rfl, rfl⟩
        | object _ => simp only [selectOperation.go]; exact Or.inl ⟨_, rfl, rfl⟩
        | interface _ _ _ _ _ => simp only [selectOperation.go]; exact Or.inl ⟨_, rfl, rfl⟩
        | union _ _ _ _ _ => simp only [selectOperation.go]; exact Or.inl ⟨_, rfl, rfl⟩
        | «enum» _ _ _ _ _ => simp only [selectOperation.go]; exact Or.inl ⟨_, rfl, rfl⟩
        | inputObject _ _ _ _ _ => simp only [selectOperation.go]; exact Or.inl ⟨_, rfl, rfl⟩
        | extend _ _ => simp only [selectOperation.go]; exact Or.inl ⟨_, rfl, rfl⟩
        | directive _ _ _ _ _ => simp only [selectOperation.go]; exact Or.inl ⟨_, rfl, rfl⟩
      · -- the replaced operation
        simp only [selectOperation.go, hsome]
        by_cases h1 : (opName == "" && cur.isSome) = true
        · simp only [h1, if_true]; exact Or.inl ⟨_, rfl, rfl⟩
        · simp only [h1, Bool.false_eq_true, if_false]
          by_cases h2 : (opName == "" || (name.map (·.value)) == some opName) = true
          · simp only [h2, if_true]
            exact ih ds' _ _ hrest (Or.inr ⟨rfl, rfl⟩)
          · simp only [h2, Bool.false_eq_true, if_false]
            exact ih ds' _ _ hrest hc

theorem go_mem : ∀ (defs : List Definition) (cur : Option Definition) (d : Definition),
    selectOperation.go opName defs cur = .ok (some d) → d ∈ defs ∨ cur = some d := by
  intro defs
  induction defs with
  | nil => intro cur d h; simp only [selectOperation.go, Except.ok.injEq] at h; exact Or.inr h
  | cons x xs ih =>
    intro cur d h
    cases x with
    | operation o nm vs ds0 sl lc =>
      simp only [selectOperation.go] at h
      split at h
      · cases h
      · split at h
        · rcases ih _ d h with h' | h'
          · exact Or.inl (List.mem_cons_of_mem _ h')
          · simp only [Option.some.injEq] at h'; exact Or.inl (h' ▸ List.mem_cons_self)
        · rcases ih _ d h with h' | h'
          · exact Or.inl (List.mem_cons_of_mem _ h')
          · exact Or.inr h'
    | fragment a b c0 d0 e0 =>
      simp only [selectOperation.go] at h
      rcases ih _ d h with h' | h'
      · exact Or.inl (List.mem_cons_of_mem _ h')
      · exact Or.inr h'
    | schema _ _ _ => simp [selectOperation.go] at h
    | scalar _ _ _ _ => simp [selectOperation.go] at h
    | object _ => simp [selectOperation.go] at h
    | interface _ _ _ _ _ => simp [selectOperation.go] at h
    | union _ _ _ _ _ => simp [selectOperation.go] at h
    | «enum» _ _ _ _ _ => simp [selectOperation.go] at h
    | inputObject _ _ _ _ _ => simp [selectOperation.go] at h
    | extend _ _ => simp [selectOperation.go] at h
    | directive _ _ _ _ _ => simp [selectOperation.go] at h

end Select

/-! ## fragments are untouched -/

def fragOf : Definition → Option (String × Definition)
  | .fragment n t ds s l => some (n.value, .fragment n t ds s l)
  | _ => none

theorem fragments_eq (d : Document) : d.fragments = d.defs.filterMap fragOf := by
  unfold Document.fragments
  congr 1

theorem filterMap_replaceAt {α β : Type} (f : α → Option β) : ∀ (xs : List α) (i : Nat) (x y : α),
    xs[i]? = some x → f x = none → f y = none → (replaceAt xs i y).filterMap f = xs.filterMap f := by
  intro xs
  induction xs with
  | nil => intro i x y h; simp at h
  | cons a as ih =>
    intro i x y h hx hy
    cases i with
    | zero =>
      simp only [List.getElem?_cons_zero, Option.some.injEq] at h
      subst h
      simp [replaceAt, List.filterMap_cons, hx, hy]
    | succ i =>
      simp only [List.getElem?_cons_succ] at h
      simp only [replaceAt, List.filterMap_cons, ih i x y h hx hy]

/-! ## variables mentioned by a definition are among the document's -/

theorem defVars_subset (doc : Document) (d : Definition) (hd : d ∈ doc.defs) : ∀ x ∈ defVars d, x ∈ docVarNames doc := by
  intro x hx
  simp only [docVarNames, List.mem_flatMap]
  exact ⟨d, hd, hx⟩

theorem frag_mem (c : Ctx) (n : String) (tc : TypeRef) (sel : SelectionSet) (h : c.frag? n = some (tc, sel)) :
    ∃ nm ds l, (n, Definition.fragment nm tc ds sel l) ∈ c.frags := by
  unfold Ctx.frag? at h
  cases hl : (c.frags.filter (fun p => p.1 == n)).getLast? with
  | none => simp [hl] at h
  | some p =>
    obtain ⟨k, d⟩ := p
    rw [hl] at h
    have hm := (List.mem_filter.mp (List.mem_of_getLast? hl))
    have hk : k = n := by simpa using hm.2
    subst hk
    cases d with
    | fragment nm t ds s l =>
      simp only [Option.some.injEq, Prod.mk.injEq] at h
      obtain ⟨rfl, rfl⟩ := h
      exact ⟨nm, ds, l, hm.1⟩
    | _ => simp at h

/-! ## the executed operation -/

/-- what `Exec.execute` does once the operation is selected -/
def runOp (s : Schema) (frags : List (String × Definition)) (inputs : Vars) (w : World) (fuel : Nat) : Definition → Response
  | .operation op _ varDefs _ sel _ =>
    (match s.rootFor op.toString with
    | none => .requestError "noRootType"
    | some root =>
      match getVariableValues s varDefs inputs with
      | .error e => .requestError ("variables: " ++ e)
      | .ok vars =>
        let c : Ctx := { schema := s, frags := frags, vars := vars, world := w }
        let groups := (collect c root sel ([], [])).1
        match execGroups c fuel false root .nil [] groups [] St.empty with
        | (.ok fs, st) => .result (some fs) st.errs.reverse st.log.reverse st.kfThunk
        | (.fail, st) => .result none st.errs.reverse st.log.reverse st.kfThunk
        | (.fuelOut, _) => .fuelOut)
  | _ => .requestError "noOperation"

theorem execute_eq (s : Schema) (doc : Document) (opName : String) (inputs : Vars) (w : World) (fuel : Nat) :
    execute s doc opName inputs w fuel =
      match selectOperation doc opName with
      | .error e => .requestError (reprStr e)
      | .ok d => runOp s doc.fragments inputs w fuel d := by
  unfold execute
  cases selectOperation doc opName with
  | error e => rfl
  | ok d => cases d <;> rfl

/-- the premise that stands for OverlappingFieldsCanBeMerged: in the ORIGINAL execution every set of field nodes merged
under one response key has one field name, hereditarily -/
def ExecUniform (s : Schema) (doc : Document) (opName : String) (inputs : Vars) (w : World) : Prop :=
  ∀ op name vars dirs sel loc root v,
    selectOperation doc opName = .ok (.operation op name vars dirs sel loc) →
    s.rootFor op.toString = some root → getVariableValues s vars inputs = .ok v →
    HUAll ⟨s, doc.fragments, v, w⟩ root (collect ⟨s, doc.fragments, v, w⟩ root sel ([], [])).1

/-- every operation's field-argument values are well-formed (`Reader.WFValue`; what the parser produces) -/
def DocLex (doc : Document) : Prop :=
  ∀ op name vars dirs sel loc, Definition.operation op name vars dirs sel loc ∈ doc.defs → LexSet sel

section Main
variable (s : Schema) (hcc : customLti s) (hsch : SchemaOK s)
include hcc hsch

/-- the selected operation, normalised: same response -/
theorem runOp_normalised (doc : Document) (inputs : Vars) (w : World) (fuel : Nat)
    (op : OpType) (name : Option Name) (vars : List VarDef) (dirs : List Directive) (sel : SelectionSet) (loc : Loc)
    (root : String) (hroot : s.rootFor op.toString = some root)
    (hmem : Definition.operation op name vars dirs sel loc ∈ doc.defs) (hlex : LexSet sel)
    (hu : ∀ v, getVariableValues s vars inputs = .ok v →
      HUAll ⟨s, doc.fragments, v, w⟩ root (collect ⟨s, doc.fragments, v, w⟩ root sel ([], [])).1) :
    runOp s doc.fragments ((normalizeOperation s keep root (docVarNames doc) (.operation op name vars dirs sel loc)).2 ++ inputs) w fuel
        (normalizeOperation s keep root (docVarNames doc) (.operation op name vars dirs sel loc)).1 =
      runOp s doc.fragments inputs w fuel (.operation op name vars dirs sel loc) := by
  -- the walk and its name invariant
  have h0 : NamesOK (initState vars (docVarNames doc)) := by
    unfold NamesOK
    exact ⟨by intro e he; simp [initState] at he, by simp [initState]⟩
  obtain ⟨hnames, htaken⟩ := normSet_namesOK s sel root (initState vars (docVarNames doc)) h0
  generalize hst : (normSet s keep root sel (initState vars (docVarNames doc))).2 = st at hnames htaken
  generalize hsel' : (normSet s keep root sel (initState vars (docVarNames doc))).1 = sel'
  have hfresh : ∀ e ∈ st.entries, e.name ∉ userVarNames vars ∧ e.name ∉ docVarNames doc := by
    intro e he
    have := (hnames.1 e he).1
    rw [htaken] at this
    simpa [initState, List.mem_append, not_or] using this
  have hnd := hnames.2
  simp only [normalizeOperation, hst, hsel', runOp, hroot]
  -- the variable maps
  have hsynth : st.synth = st.entries.map (fun e => (e.name, lti e.lit)) := rfl
  rw [hsynth]
  cases hv : getVariableValues s vars inputs with
  | error e =>
    -- no validity facts are needed when the client's own variables fail: the user's definitions come first
    have : getVariableValues s (vars ++ st.entries.map mkVarDef) (st.entries.map (fun e => (e.name, lti e.lit)) ++ inputs) = .error e := by
      unfold getVariableValues at hv ⊢
      rw [getVariableValuesGo_append]
      have hsame : getVariableValuesGo s (st.entries.map (fun e => (e.name, lti e.lit)) ++ inputs) vars [] =
          getVariableValuesGo s inputs vars [] := by
        apply getVariableValuesGo_congr_inputs
        intro d hd
        apply lookupD_append_not_mem
        intro p hp
        obtain ⟨e', he', rfl⟩ := List.mem_map.mp hp
        intro heq
        have heq' : e'.name = d.var.value := heq
        apply (hfresh e' he').1
        rw [heq']
        exact List.mem_map.mpr ⟨d, hd, rfl⟩
      rw [hsame, hv]
    rw [this]
  | ok v =>
    let c : Ctx := ⟨s, doc.fragments, v, w⟩
    let vars' := extendVars s st.entries v
    have hre : Realises s vars' st.entries := realises_extendVars s st.entries v hnd
    have hAg : ∀ x ∈ docVarNames doc, Ag v vars' x := by
      intro x hx
      exact lookupD_extendVars_other s st.entries v x (fun e he heq => (hfresh e he).2 (heq ▸ hx))
    have hsetvars : ∀ x ∈ setVars sel, x ∈ docVarNames doc := by
      intro x hx
      apply defVars_subset doc _ hmem
      simp only [defVars, List.mem_append]
      exact Or.inr hx
    have hwalk := normSet_rel s hcc hsch v vars' sel root (initState vars (docVarNames doc)) st.entries
      (by intro e he; simp [initState] at he) hlex (fun x hx => hAg x (hsetvars x hx))
      ⟨[], by rw [hst]; simp⟩ hre
    rw [hst, hsel'] at hwalk
    obtain ⟨hrel, hesOK, _⟩ := hwalk
    have hok : ∀ e ∈ st.entries, isInputType s e.type = true ∧ isValidInputValue s e.type (lti e.lit) = true := by
      intro e he
      obtain ⟨h1, h2, h3, h4, _, _⟩ := hesOK e he
      exact ⟨h4, (lti_agree s hcc e.type e.lit [] h1 h2 h3).1⟩
    have hgv := getVariableValues_normalised s vars st.entries inputs (fun e he => (hfresh e he).1) hnd hok
    rw [hv] at hgv
    rw [hgv]
    simp only []
    have hfr : FragsRel c vars' c.frags := by
      apply fragsRel_same
      intro n tc sel0 hfrag x hx
      obtain ⟨nm, ds, l, hm⟩ := frag_mem c n tc sel0 hfrag
      have hm' : (n, Definition.fragment nm tc ds sel0 l) ∈ doc.defs.filterMap fragOf := by
        rw [← fragments_eq]; exact hm
      obtain ⟨d, hd, hfo⟩ := List.mem_filterMap.mp hm'
      have hdd : d = Definition.fragment nm tc ds sel0 l := by
        cases d <;> simp [fragOf] at hfo
        obtain ⟨_, h2, h3, h4, h5, h6⟩ := hfo
        subst h2 h3 h4 h5 h6
        rfl
      apply hAg
      apply defVars_subset doc d hd
      rw [hdd]
      simp only [defVars, List.mem_append]
      exact Or.inr hx
    have hcol := collect_sim c vars' c.frags hfr rfl root sel sel' [] [] [] hrel trivial
    have hsim := (sim_all c vars' c.frags hfr rfl fuel).1 false root .nil [] _ _ [] St.empty hcol.1 (hu v hv)
    have hc' : ctx' c vars' c.frags = ⟨s, doc.fragments, extendVars s st.entries v, w⟩ := rfl
    rw [hc'] at hsim
    rw [hsim]

end Main

theorem runOp_extra_inputs (s : Schema) (frags : List (String × Definition)) (inputs extra : Vars) (w : World) (fuel : Nat)
    (d : Definition)
    (h : ∀ op name vars dirs sel loc, d = .operation op name vars dirs sel loc →
      ∀ vd ∈ vars, lookupD (extra ++ inputs) vd.var.value = lookupD inputs vd.var.value) :
    runOp s frags (extra ++ inputs) w fuel d = runOp s frags inputs w fuel d := by
  cases d with
  | operation op name vars dirs sel loc =>
    have : getVariableValues s vars (extra ++ inputs) = getVariableValues s vars inputs := by
      unfold getVariableValues
      exact getVariableValuesGo_congr_inputs s _ _ vars [] (h op name vars dirs sel loc rfl)
    simp only [runOp, this]
  | _ => rfl

section Final
variable (s : Schema) (hcc : customLti s) (hsch : SchemaOK s)
include hcc hsch

/-- **NormalizedTransparent, proved** (see `Props/C06.lean` for the statement with its premises spelled out) -/
theorem normalized_transparent_core (doc doc' : Document) (opName : String) (inputs synth : Vars) (w : World) (fuel : Nat)
    (hnorm : normalizeDocument s doc opName = .ok doc' synth) (hlex : DocLex doc)
    (hu : ExecUniform s doc opName inputs w) :
    execute s doc' opName (synth ++ inputs) w fuel = execute s doc opName inputs w fuel := by
  unfold normalizeDocument at hnorm
  rcases hp : pickOp opName doc.defs 0 (none, 0) with ⟨oi, n⟩
  rw [hp] at hnorm
  cases oi with
  | none => cases hnorm
  | some i =>
    simp only [] at hnorm
    split at hnorm
    · cases hnorm
    · cases hdef : doc.defs[i]? with
      | none => rw [hdef] at hnorm; cases hnorm
      | some opDef =>
        rw [hdef] at hnorm
        simp only [] at hnorm
        cases hroot : s.rootFor (opTypeOf opDef) with
        | none => rw [hroot] at hnorm; cases hnorm
        | some root =>
          rw [hroot] at hnorm
          simp only [] at hnorm
          split at hnorm
          · -- nothing extracted: the document is returned unchanged
            simp only [DocOut.ok.injEq] at hnorm
            obtain ⟨rfl, rfl⟩ := hnorm
            simp
          · rename_i hne
            simp only [DocOut.ok.injEq] at hnorm
            obtain ⟨hdoc', hsynth⟩ := hnorm
            have hmem : opDef ∈ doc.defs := List.mem_of_getElem? hdef
            cases opDef with
            | operation op name vars dirs sel loc =>
              have hroot' : s.rootFor op.toString = some root := hroot
              -- shape of the normalised operation
              have hshape : (normalizeOperation s (fragKeys doc) root (docVarNames doc) (.operation op name vars dirs sel loc)).1 =
                  .operation op name (vars ++ (normSet s (fragKeys doc) root sel (initState vars (docVarNames doc))).2.entries.map mkVarDef) dirs
                    (normSet s (fragKeys doc) root sel (initState vars (docVarNames doc))).1 loc := rfl
              have hfrags : doc'.fragments = doc.fragments := by
                rw [← hdoc', fragments_eq, fragments_eq]
                exact filterMap_replaceAt fragOf doc.defs i _ _ hdef rfl (by rw [hshape]; rfl)
              have hall := all2_replaceAt (.operation op name vars dirs sel loc)
                (normalizeOperation s (fragKeys doc) root (docVarNames doc) (.operation op name vars dirs sel loc)).1 doc.defs i hdef
              rw [hshape] at hall
              have hdefs' : doc'.defs = replaceAt doc.defs i
                  (.operation op name (vars ++ (normSet s (fragKeys doc) root sel (initState vars (docVarNames doc))).2.entries.map mkVarDef) dirs
                    (normSet s (fragKeys doc) root sel (initState vars (docVarNames doc))).1 loc) := by
                rw [← hdoc', hshape]
              rw [execute_eq, execute_eq, hfrags]
              unfold selectOperation
              rw [hdefs']
              rcases go_sim opName op name vars _ dirs sel _ loc doc.defs _ none none hall trivial with
                ⟨e, h1, h2⟩ | ⟨r, r', h1, h2, hq⟩
              · rw [h1, h2]
              · rw [h1, h2]
                cases r with
                | none =>
                  cases r' with
                  | none => rfl
                  | some _ => cases hq
                | some d =>
                  cases r' with
                  | none => cases hq
                  | some d' =>
                    simp only []
                    rcases hq with rfl | ⟨rfl, rfl⟩
                    · -- another operation is the selected one: only the inputs differ, on names no definition uses
                      rw [← hsynth]
                      apply runOp_extra_inputs
                      intro op2 name2 vars2 dirs2 sel2 loc2 hd vd hvd
                      have hdm : d' ∈ doc.defs := by
                        rcases go_mem opName doc.defs none d' h1 with h | h
                        · exact h
                        · cases h
                      apply lookupD_append_not_mem
                      intro p hp
                      -- synthetic names avoid every variable name of the document
                      have h0 : NamesOK (initState vars (docVarNames doc)) := by
                        unfold NamesOK
                        exact ⟨by intro e he; simp [initState] at he, by simp [initState]⟩
                      obtain ⟨hnames, htaken⟩ := normSet_namesOK s sel root (initState vars (docVarNames doc)) h0
                      simp only [normalizeOperation, NState.synth] at hp
                      obtain ⟨e, he, rfl⟩ := List.mem_map.mp hp
                      have hnot := (hnames.1 e he).1
                      rw [htaken] at hnot
                      simp only [initState, List.mem_append, not_or] at hnot
                      intro heq
                      apply hnot.2
                      have heq' : e.name = vd.var.value := heq
                      rw [heq']
                      apply defVars_subset doc d' hdm
                      rw [hd]
                      simp only [defVars, List.mem_append, List.mem_flatMap]
                      exact Or.inl (Or.inl ⟨vd, hvd, List.mem_cons_self⟩)
                    · -- the normalised operation is the selected one
                      rw [← hsynth, ← hshape]
                      apply runOp_normalised s hcc hsch doc inputs w fuel op name vars dirs sel loc root hroot' hmem
                        (hlex op name vars dirs sel loc hmem)
                      intro v hv
                      apply hu op name vars dirs sel loc root v _ hroot' hv
                      unfold selectOperation
                      rw [h1]
            | _ =>
              -- not an operation: nothing is extracted, contradiction with the non-empty SynthArgs
              exfalso; apply hne; rfl

end Final

/-! ## the normalised request inherits `ExecUniform` (needed to apply location independence to normalised documents) -/

section Uniform
variable (s : Schema) (hcc : customLti s) (hsch : SchemaOK s)
include hcc hsch

/-- facts about the normalised operation when the client's variables coerce: the variable map, the fragment relation,
related root groups -/
theorem norm_facts (doc : Document) (inputs : Vars) (w : World)
    (op : OpType) (name : Option Name) (vars : List VarDef) (dirs : List Directive) (sel : SelectionSet) (loc : Loc)
    (root : String) (hmem : Definition.operation op name vars dirs sel loc ∈ doc.defs) (hlex : LexSet sel)
    (v : Vars) (hv : getVariableValues s vars inputs = .ok v) :
    let st := (normSet s (fragKeys doc) root sel (initState vars (docVarNames doc))).2
    let sel' := (normSet s (fragKeys doc) root sel (initState vars (docVarNames doc))).1
    let c : Ctx := ⟨s, doc.fragments, v, w⟩
    let vars' := extendVars s st.entries v
    getVariableValues s (vars ++ st.entries.map mkVarDef) (st.synth ++ inputs) = .ok vars' ∧
    FragsRel c vars' c.frags ∧
    GRel c vars' root (collect c root sel ([], [])).1 (collect (ctx' c vars' c.frags) root sel' ([], [])).1 := by
  intro st sel' c vars'
  have h0 : NamesOK (initState vars (docVarNames doc)) := by
    unfold NamesOK
    exact ⟨by intro e he; simp [initState] at he, by simp [initState]⟩
  obtain ⟨hnames, htaken⟩ := normSet_namesOK s sel root (initState vars (docVarNames doc)) h0
  have hfresh : ∀ e ∈ st.entries, e.name ∉ userVarNames vars ∧ e.name ∉ docVarNames doc := by
    intro e he
    have := (hnames.1 e he).1
    rw [htaken] at this
    simpa [initState, List.mem_append, not_or] using this
  have hnd := hnames.2
  have hre : Realises s vars' st.entries := realises_extendVars s st.entries v hnd
  have hAg : ∀ x ∈ docVarNames doc, Ag v vars' x := by
    intro x hx
    exact lookupD_extendVars_other s st.entries v x (fun e he heq => (hfresh e he).2 (heq ▸ hx))
  have hsetvars : ∀ x ∈ setVars sel, x ∈ docVarNames doc := by
    intro x hx
    apply defVars_subset doc _ hmem
    simp only [defVars, List.mem_append]
    exact Or.inr hx
  have hwalk := normSet_rel (keep := fragKeys doc) s hcc hsch v vars' sel root (initState vars (docVarNames doc)) st.entries
    (by intro e he; simp [initState] at he) hlex (fun x hx => hAg x (hsetvars x hx))
    ⟨[], by simp [st]⟩ hre
  obtain ⟨hrel, hesOK, _⟩ := hwalk
  have hok : ∀ e ∈ st.entries, isInputType s e.type = true ∧ isValidInputValue s e.type (lti e.lit) = true := by
    intro e he
    obtain ⟨h1, h2, h3, h4, _, _⟩ := hesOK e he
    exact ⟨h4, (lti_agree s hcc e.type e.lit [] h1 h2 h3).1⟩
  have hgv := getVariableValues_normalised s vars st.entries inputs (fun e he => (hfresh e he).1) hnd hok
  rw [hv] at hgv
  have hfr : FragsRel c vars' c.frags := by
    apply fragsRel_same
    intro n tc sel0 hfrag x hx
    obtain ⟨nm, ds, l, hm⟩ := frag_mem c n tc sel0 hfrag
    have hm' : (n, Definition.fragment nm tc ds sel0 l) ∈ doc.defs.filterMap fragOf := by
      rw [← fragments_eq]; exact hm
    obtain ⟨d, hd, hfo⟩ := List.mem_filterMap.mp hm'
    have hdd : d = Definition.fragment nm tc ds sel0 l := by
      cases d <;> simp [fragOf] at hfo
      obtain ⟨_, h2, h3, h4, h5, h6⟩ := hfo
      subst h2 h3 h4 h5 h6
      rfl
    apply hAg
    apply defVars_subset doc d hd
    rw [hdd]
    simp only [defVars, List.mem_append]
    exact Or.inr hx
  exact ⟨hgv, hfr, (collect_sim c vars' c.frags hfr rfl root sel sel' [] [] [] hrel trivial).1⟩

/-- **the normalised request inherits `ExecUniform`** -/
theorem execUniform_normalised (doc doc' : Document) (opName : String) (inputs synth : Vars) (w : World)
    (hnorm : normalizeDocument s doc opName = .ok doc' synth) (hlex : DocLex doc)
    (hu : ExecUniform s doc opName inputs w) : ExecUniform s doc' opName (synth ++ inputs) w := by
  unfold normalizeDocument at hnorm
  rcases hp : pickOp opName doc.defs 0 (none, 0) with ⟨oi, n⟩
  rw [hp] at hnorm
  cases oi with
  | none => cases hnorm
  | some i =>
    simp only [] at hnorm
    split at hnorm
    · cases hnorm
    · cases hdef : doc.defs[i]? with
      | none => rw [hdef] at hnorm; cases hnorm
      | some opDef =>
        rw [hdef] at hnorm
        simp only [] at hnorm
        cases hroot : s.rootFor (opTypeOf opDef) with
        | none => rw [hroot] at hnorm; cases hnorm
        | some root =>
          rw [hroot] at hnorm
          simp only [] at hnorm
          split at hnorm
          · simp only [DocOut.ok.injEq] at hnorm
            obtain ⟨rfl, rfl⟩ := hnorm
            simpa using hu
          · rename_i hne
            simp only [DocOut.ok.injEq] at hnorm
            obtain ⟨hdoc', hsynth⟩ := hnorm
            have hmem : opDef ∈ doc.defs := List.mem_of_getElem? hdef
            cases opDef with
            | operation op name vars dirs sel loc =>
              have hroot' : s.rootFor op.toString = some root := hroot
              have hshape : (normalizeOperation s (fragKeys doc) root (docVarNames doc) (.operation op name vars dirs sel loc)).1 =
                  .operation op name (vars ++ (normSet s (fragKeys doc) root sel (initState vars (docVarNames doc))).2.entries.map mkVarDef) dirs
                    (normSet s (fragKeys doc) root sel (initState vars (docVarNames doc))).1 loc := rfl
              have hsyn : synth = (normSet s (fragKeys doc) root sel (initState vars (docVarNames doc))).2.synth := hsynth.symm
              have hfrags : doc'.fragments = doc.fragments := by
                rw [← hdoc', fragments_eq, fragments_eq]
                exact filterMap_replaceAt fragOf doc.defs i _ _ hdef rfl (by rw [hshape]; rfl)
              have hall := all2_replaceAt (.operation op name vars dirs sel loc)
                (normalizeOperation s (fragKeys doc) root (docVarNames doc) (.operation op name vars dirs sel loc)).1 doc.defs i hdef
              rw [hshape] at hall
              have hdefs' : doc'.defs = replaceAt doc.defs i
                  (.operation op name (vars ++ (normSet s (fragKeys doc) root sel (initState vars (docVarNames doc))).2.entries.map mkVarDef) dirs
                    (normSet s (fragKeys doc) root sel (initState vars (docVarNames doc))).1 loc) := by
                rw [← hdoc', hshape]
              intro op2 name2 vars2 dirs2 sel2 loc2 root2 v2 hsel2 hroot2 hv2
              unfold selectOperation at hsel2
              rw [hdefs'] at hsel2
              rw [hfrags]
              rcases go_sim opName op name vars _ dirs sel _ loc doc.defs _ none none hall trivial with
                ⟨e, h1, h2⟩ | ⟨r, r', h1, h2, hq⟩
              · rw [h2] at hsel2; cases hsel2
              · rw [h2] at hsel2
                cases r' with
                | none => cases hsel2
                | some d' =>
                  simp only [Except.ok.injEq] at hsel2
                  subst hsel2
                  cases r with
                  | none => cases hq
                  | some d =>
                    rcases hq with hsame | ⟨rfl, hnew⟩
                    · -- another (unchanged) operation is the selected one
                      subst hsame
                      have hdm : Definition.operation op2 name2 vars2 dirs2 sel2 loc2 ∈ doc.defs := by
                        rcases go_mem opName doc.defs none _ h1 with h | h
                        · exact h
                        · cases h
                      have hsel1 : selectOperation doc opName = .ok (.operation op2 name2 vars2 dirs2 sel2 loc2) := by
                        unfold selectOperation; rw [h1]
                      have hgv : getVariableValues s vars2 (synth ++ inputs) = getVariableValues s vars2 inputs := by
                        unfold getVariableValues
                        apply getVariableValuesGo_congr_inputs
                        intro vd hvd
                        apply lookupD_append_not_mem
                        intro p hp
                        have h0 : NamesOK (initState vars (docVarNames doc)) := by
                          unfold NamesOK
                          exact ⟨by intro e he; simp [initState] at he, by simp [initState]⟩
                        obtain ⟨hnames, htaken⟩ := normSet_namesOK s sel root (initState vars (docVarNames doc)) h0
                        rw [hsyn] at hp
                        simp only [NState.synth] at hp
                        obtain ⟨e, he, rfl⟩ := List.mem_map.mp hp
                        have hnot := (hnames.1 e he).1
                        rw [htaken] at hnot
                        simp only [initState, List.mem_append, not_or] at hnot
                        intro heq
                        apply hnot.2
                        have heq' : e.name = vd.var.value := heq
                        rw [heq']
                        apply defVars_subset doc _ hdm
                        simp only [defVars, List.mem_append, List.mem_flatMap]
                        exact Or.inl (Or.inl ⟨vd, hvd, List.mem_cons_self⟩)
                      rw [hgv] at hv2
                      exact hu op2 name2 vars2 dirs2 sel2 loc2 root2 v2 hsel1 hroot2 hv2
                    · -- the normalised operation is the selected one
                      simp only [Definition.operation.injEq] at hnew
                      obtain ⟨rfl, rfl, rfl, rfl, rfl, rfl⟩ := hnew
                      have hsel1 : selectOperation doc opName = .ok (.operation op2 name2 vars dirs2 sel loc2) := by
                        unfold selectOperation; rw [h1]
                      have hr2 : root2 = root := by rw [hroot'] at hroot2; exact (Option.some.inj hroot2).symm
                      subst hr2
                      -- the client's variables must have coerced, else the normalised ones would not
                      cases hv : getVariableValues s vars inputs with
                      | error e =>
                        exfalso
                        have h0 : NamesOK (initState vars (docVarNames doc)) := by
                          unfold NamesOK
                          exact ⟨by intro e he; simp [initState] at he, by simp [initState]⟩
                        obtain ⟨hnames, htaken⟩ := normSet_namesOK s sel root2 (initState vars (docVarNames doc)) h0
                        have : getVariableValues s
                            (vars ++ (normSet s (fragKeys doc) root2 sel (initState vars (docVarNames doc))).2.entries.map mkVarDef)
                            (synth ++ inputs) = .error e := by
                          unfold getVariableValues at hv ⊢
                          rw [getVariableValuesGo_append]
                          have hsame : getVariableValuesGo s (synth ++ inputs) vars [] = getVariableValuesGo s inputs vars [] := by
                            apply getVariableValuesGo_congr_inputs
                            intro d hd
                            apply lookupD_append_not_mem
                            intro p hp
                            rw [hsyn] at hp
                            simp only [NState.synth] at hp
                            obtain ⟨e', he', rfl⟩ := List.mem_map.mp hp
                            have hnot := (hnames.1 e' he').1
                            rw [htaken] at hnot
                            simp only [initState, List.mem_append, not_or] at hnot
                            intro heq
                            apply hnot.1
                            have heq' : e'.name = d.var.value := heq
                            rw [heq']
                            exact List.mem_map.mpr ⟨d, hd, rfl⟩
                          rw [hsame, hv]
                        rw [this] at hv2; cases hv2
                      | ok v =>
                        obtain ⟨hgv, hfr, hgr⟩ := norm_facts s hcc hsch doc inputs w op2 name2 vars dirs2 sel loc2 root2 hmem
                          (hlex op2 name2 vars dirs2 sel loc2 hmem) v hv
                        rw [← hsyn, hv2] at hgv
                        simp only [Except.ok.injEq] at hgv
                        subst hgv
                        have := HUAll_transfer ⟨s, doc.fragments, v, w⟩ _ doc.fragments hfr rfl root2 _ _ hgr
                          (hu op2 name2 vars dirs2 sel loc2 root2 v hsel1 hroot' hv)
                        exact this
            | _ => exfalso; apply hne; rfl

end Uniform

end GqlModel.Normalize
