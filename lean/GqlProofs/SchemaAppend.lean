import GqlProofs.SchemaConsistent
/-! C11, part 4: appending types after construction, in any order, registers exactly the types that supplying them in
`SchemaConfig.Types` registers, with the same possible-type tables. The argument: both type maps are closed under the
reference graph, contain the same roots, and consist only of entries reachable from those roots. -/
set_option linter.unusedSectionVars false
set_option linter.unusedVariables false
namespace GqlModel.SchemaBuild

variable {cfg : Config}

theorem closed_reach {tm : TM} (hcl : ∀ i ∈ tm, ClosedE cfg tm i) {r e : Nat} (hr : r ∈ tm) (h : Reach cfg r e) : e ∈ tm := by
  induction h with
  | refl => exact hr
  | step _ hedge ih =>
    obtain ⟨t, ht, hs⟩ := hedge
    obtain ⟨t', ht', hv⟩ := hcl _ ih _ ht
    cases ht'
    rcases hv with hv | hv
    · rw [hs] at hv; cases hv
    · obtain ⟨j, hj, _, hm⟩ := hv
      rw [hs] at hj; cases hj
      exact hm

theorem visited_named {tm : TM} {t : TRef} {r : Nat} (hv : Visited cfg tm t) (hs : t.strip = .named r) : r ∈ tm := by
  rcases hv with hv | hv
  · rw [hs] at hv; cases hv
  · obtain ⟨j, hj, _, hm⟩ := hv
    rw [hs] at hj; cases hj
    exact hm

/-- what a sequence of `AppendType` calls establishes -/
structure AppendSpec (s : St) (ys : List TRef) (s' : St) : Prop where
  sub : ∀ e ∈ s.tm, e ∈ s'.tm
  visited : ∀ y ∈ ys, Visited cfg s'.tm y.build
  reach : ∀ e ∈ s'.tm, e ∉ s.tm → ∃ y ∈ ys, ∃ r, y.build.strip = .named r ∧ Reach cfg r e
  topOk : ∀ y ∈ ys, y.build = .nil ∨ topErr cfg y.build = none

theorem appendType_spec {s s' : St} {y : TRef} (g : Good cfg s.tm) (h : appendType cfg s y = .ok s') :
    AppendSpec (cfg := cfg) s [y] s' := by
  unfold appendType at h
  cases ha : appendTM cfg s y with
  | error e => simp [ha] at h
  | ok r =>
    cases r with
    | none =>
      simp only [ha, Except.ok.injEq] at h; subst h
      unfold appendTM at ha
      simp only at ha
      split at ha
      · rename_i hnil
        have hb : y.build = .nil := by simpa using hnil
        refine ⟨fun e he => he, ?_, fun e he hne => absurd he hne, ?_⟩
        · intro y' hy'
          rw [List.mem_singleton.mp hy', hb]
          exact Or.inl rfl
        · intro y' hy'
          rw [List.mem_singleton.mp hy']
          exact Or.inl hb
      · split at ha
        · cases ha
        · cases hr : reduce cfg (cfg.size + 1) s.tm y.build with
          | error e => simp [hr] at ha
          | ok tm1 => simp [hr] at ha
    | some tm' =>
      simp only [ha] at h
      unfold finishTM at h
      cases has : assertAll cfg tm' with
      | some e => simp [has] at h
      | none =>
        simp only [has, Except.ok.injEq] at h
        subst h
        unfold appendTM at ha
        simp only at ha
        split at ha
        · cases ha
        · split at ha
          · cases ha
          · rename_i hte
            cases hr : reduce cfg (cfg.size + 1) s.tm y.build with
            | error e => simp [hr] at ha
            | ok tm1 =>
              simp only [hr, Except.ok.injEq, Option.some.injEq] at ha
              subst ha
              have sp := reduce_spec cfg _ s.tm _ tm1 hr g.inv
              obtain ⟨l, hl⟩ := sp.ext
              refine ⟨fun e he => by rw [hl]; exact List.mem_append_left _ he, ?_, ?_, ?_⟩
              · intro y' hy'
                rw [List.mem_singleton.mp hy']
                exact sp.visited
              · intro e he hne
                obtain ⟨r, hr', hre⟩ := sp.reach e he hne
                exact ⟨y, List.mem_singleton.mpr rfl, r, hr', hre⟩
              · intro y' hy'
                rw [List.mem_singleton.mp hy']
                exact Or.inr hte

theorem appendAll_spec : ∀ (ys : List TRef) (s s' : St), Good cfg s.tm → appendAll cfg s ys = .ok s' →
    AppendSpec (cfg := cfg) s ys s' := by
  intro ys
  induction ys with
  | nil =>
    intro s s' g h
    simp only [appendAll, Except.ok.injEq] at h; subst h
    exact ⟨fun e he => he, fun y hy => (by cases hy), fun e he hne => absurd he hne, fun y hy => (by cases hy)⟩
  | cons y rest ih =>
    intro s s' g h
    simp only [appendAll] at h
    cases h1 : appendType cfg s y with
    | error e => simp [h1] at h
    | ok s1 =>
      simp only [h1] at h
      have sp1 := appendType_spec g h1
      have sp2 := ih s1 s' (appendType_good g h1) h
      refine ⟨fun e he => sp2.sub e (sp1.sub e he), ?_, ?_, ?_⟩
      · intro y' hy'
        cases hy' with
        | head => exact (sp1.visited y (List.mem_singleton.mpr rfl)).mono cfg sp2.sub
        | tail _ hy'' => exact sp2.visited y' hy''
      · intro e he hne
        by_cases h1m : e ∈ s1.tm
        · obtain ⟨y', hy', r⟩ := sp1.reach e h1m hne
          have hyy := List.mem_singleton.mp hy'
          subst hyy
          exact ⟨y', List.mem_cons_self .., r⟩
        · obtain ⟨y', hy', r⟩ := sp2.reach e he h1m
          exact ⟨y', List.mem_cons_of_mem _ hy', r⟩
      · intro y' hy'
        cases hy' with
        | head => exact sp1.topOk y (List.mem_singleton.mpr rfl)
        | tail _ hy'' => exact sp2.topOk y' hy''

theorem mem_rootRefs_more {more : List TRef} {t : TRef} :
    t ∈ rootRefs cfg more ↔ t ∈ rootRefs cfg [] ∨ ∃ x ∈ more, t = x.build := by
  simp only [rootRefs, List.mem_append, List.mem_map, List.append_nil, List.mem_singleton]
  constructor
  · rintro ((h | ⟨x, hx | hx, rfl⟩) | h)
    · exact Or.inl (Or.inl (Or.inl h))
    · exact Or.inl (Or.inl (Or.inr ⟨x, hx, rfl⟩))
    · exact Or.inr ⟨x, hx, rfl⟩
    · exact Or.inl (Or.inr h)
  · rintro (((h | ⟨x, hx, rfl⟩) | h) | ⟨x, hx, rfl⟩)
    · exact Or.inl (Or.inl h)
    · exact Or.inl (Or.inr ⟨x, Or.inl hx, rfl⟩)
    · exact Or.inr h
    · exact Or.inl (Or.inr ⟨x, Or.inr hx, rfl⟩)

/-- the two type maps hold the same type objects -/
theorem append_same_types {xs ys : List TRef} (hperm : ∀ x, x ∈ ys ↔ x ∈ xs) {s1 s0 s2 : St}
    (h1 : newSchema cfg xs = .ok s1) (h0 : newSchema cfg [] = .ok s0) (h2 : appendAll cfg s0 ys = .ok s2) :
    ∀ i, i ∈ s1.tm ↔ i ∈ s2.tm := by
  have g1 := newSchema_good h1
  have g0 := newSchema_good h0
  have g2 := appendAll_good ys s0 s2 g0 h2
  have sp2 := appendAll_spec ys s0 s2 g0 h2
  -- the root specifications
  have r1 : RootsSpec (cfg := cfg) [] (rootRefs cfg xs) s1.tm := by
    unfold newSchema at h1
    cases htm : newSchemaTM cfg xs with
    | error e => simp [htm] at h1
    | ok tm =>
      simp only [htm, finishTM] at h1
      cases ha : assertAll cfg tm with
      | some e => simp [ha] at h1
      | none => simp only [ha, Except.ok.injEq] at h1; subst h1; exact (newSchemaTM_roots htm).1
  have r0 : RootsSpec (cfg := cfg) [] (rootRefs cfg []) s0.tm := by
    unfold newSchema at h0
    cases htm : newSchemaTM cfg [] with
    | error e => simp [htm] at h0
    | ok tm =>
      simp only [htm, finishTM] at h0
      cases ha : assertAll cfg tm with
      | some e => simp [ha] at h0
      | none => simp only [ha, Except.ok.injEq] at h0; subst h0; exact (newSchemaTM_roots htm).1
  intro i
  constructor
  · intro hi
    obtain ⟨t, ht, r, hr, hre⟩ := r1.reach i hi (by simp)
    have hv : Visited cfg s2.tm t := by
      rcases (mem_rootRefs_more (cfg := cfg)).mp ht with h | ⟨x, hx, rfl⟩
      · exact (r0.visited t h).mono cfg sp2.sub
      · exact sp2.visited x ((hperm x).mpr hx)
    exact closed_reach g2.closed (visited_named hv hr) hre
  · intro hi
    by_cases h0m : i ∈ s0.tm
    · obtain ⟨t, ht, r, hr, hre⟩ := r0.reach i h0m (by simp)
      have hv : Visited cfg s1.tm t := r1.visited t ((mem_rootRefs_more (cfg := cfg)).mpr (Or.inl ht))
      exact closed_reach g1.closed (visited_named hv hr) hre
    · obtain ⟨y, hy, r, hr, hre⟩ := sp2.reach i hi h0m
      have hv : Visited cfg s1.tm y.build :=
        r1.visited _ ((mem_rootRefs_more (cfg := cfg)).mpr (Or.inr ⟨y, (hperm y).mp hy, rfl⟩))
      exact closed_reach g1.closed (visited_named hv hr) hre

/-- with the same type objects registered, `PossibleTypes` has the same members -/
theorem possibleTypes_same {tm1 tm2 : TM} (g1 : Good cfg tm1) (g2 : Good cfg tm2) (hsame : ∀ i, i ∈ tm1 ↔ i ∈ tm2)
    {a : Nat} (ha : a ∈ tm1) (p : Nat) : p ∈ possibleTypesOf cfg tm1 a ↔ p ∈ possibleTypesOf cfg tm2 a := by
  unfold possibleTypesOf
  cases hka : kindOf cfg a with
  | interface =>
    simp only
    rw [g1.mem_impls ha, g2.mem_impls ((hsame a).mp ha), hsame p]
  | union => exact Iff.rfl
  | scalar => exact Iff.rfl
  | object => exact Iff.rfl
  | enum => exact Iff.rfl
  | inputObject => exact Iff.rfl
  | list => exact Iff.rfl
  | nonNull => exact Iff.rfl

theorem isPossible_same {tm1 tm2 : TM} (g1 : Good cfg tm1) (g2 : Good cfg tm2) (hsame : ∀ i, i ∈ tm1 ↔ i ∈ tm2)
    {a : Nat} (ha : a ∈ TM.abstracts cfg tm1) (o : Nat) :
    isPossibleFinal cfg tm1 a o = isPossibleFinal cfg tm2 a o := by
  have ha1 : a ∈ tm1 := ((mem_abstracts (cfg := cfg)).mp ha).1
  have ha2 : a ∈ TM.abstracts cfg tm2 :=
    (mem_abstracts (cfg := cfg)).mpr ⟨(hsame a).mp ha1, ((mem_abstracts (cfg := cfg)).mp ha).2⟩
  rw [g1.final_eq_scan ha, g2.final_eq_scan ha2]
  unfold isPossibleScan
  rw [Bool.eq_iff_iff]
  simp only [List.any_eq_true]
  constructor
  · rintro ⟨p, hp, hn⟩; exact ⟨p, (possibleTypes_same g1 g2 hsame ha1 p).mp hp, hn⟩
  · rintro ⟨p, hp, hn⟩; exact ⟨p, (possibleTypes_same g1 g2 hsame ha1 p).mpr hp, hn⟩

theorem lookup_same {tm1 tm2 : TM} (g1 : Good cfg tm1) (g2 : Good cfg tm2) (hsame : ∀ i, i ∈ tm1 ↔ i ∈ tm2)
    (n : String) : TM.lookup cfg tm1 n = TM.lookup cfg tm2 n := by
  cases h1 : TM.lookup cfg tm1 n with
  | some i =>
    obtain ⟨hm, hn⟩ := lookup_some cfg h1
    rw [← hn, lookup_of_mem cfg g2.inv.2 ((hsame i).mp hm)]
  | none =>
    cases h2 : TM.lookup cfg tm2 n with
    | none => rfl
    | some j =>
      obtain ⟨hm, hn⟩ := lookup_some cfg h2
      exact absurd hn (lookup_none cfg h1 j ((hsame j).mpr hm))

end GqlModel.SchemaBuild
