import GqlProofs.PlanFx2
import GqlProofs.PlanDefer6
/-! # Phase one of M against the algorithm, with deferred values: the effects (`FxP`) -/
namespace GqlModel.Plan
open GqlModel.Exec GqlModel.Coerce

section fx
variable {c : Ctx} {pv : Option Vars} {rank : String → Nat} {F : Nat}

local notation "alt0" => recompute c.schema c.frags pv

/-! ## helpers on `FxOut` -/

theorem fxOut_seq {α : Type} {dfr : Bool} {st st1 stS : St} {mst mst1 : MSt} {Pin Pmid : Fx} {out : Res α × MSt}
    {pendOf : α → Fx} {d1 : St} {dM1 : Fx} (e1 : st1 = St.app d1 st) (m1 : MExt mst mst1 dM1)
    (a1 : Acct (fxS d1) dM1 Pin Pmid dfr) (h2 : FxOut dfr st1 stS mst1 Pmid out pendOf) :
    FxOut dfr st stS mst Pin out pendOf := by
  obtain ⟨d2, dM2, e2, m2, a2⟩ := h2
  refine ⟨St.app d2 d1, dM2.app dM1, by rw [e2, e1, St.app_assoc], m1.trans m2, ?_⟩
  rw [fxS_app]
  exact acct_seq a1 a2

/-- nothing happens on either side -/
theorem fxOut_ret {α : Type} {dfr : Bool} {st : St} {mst : MSt} {Pin : Fx} {r : Res α} {pendOf : α → Fx}
    (hP : resPend pendOf r = Pin ∨ resPend pendOf r = Fx.nil) :
    FxOut dfr st st mst Pin (r, mst) pendOf := by
  refine ⟨St.empty, Fx.nil, (St.empty_app st).symm, MExt.refl mst, ?_⟩
  rw [fxS_empty]
  rcases hP with hP | hP
  · simp only [hP]; exact acct_refl Pin dfr
  · simp only [hP]; exact acct_drop (acct_refl Pin dfr)

/-- one error recorded at the same place on both sides, nothing pending afterwards -/
theorem fxOut_err {α : Type} {dfr : Bool} {st : St} {mst : MSt} {r : Res α} {pendOf : α → Fx} (p : Path) (d : Bool)
    (hP : resPend pendOf r = Fx.nil) :
    FxOut dfr st (addErr st p d) mst Fx.nil (r, mst.addErr p d) pendOf := by
  refine ⟨⟨[(p, d)], [], []⟩, ⟨[(p, d)], []⟩, rfl, mExt_addErr mst p d, ?_⟩
  simp only [hP]
  exact acct_same _ _ _

/-- the same value on M's side under another wrapper with the same pending effects -/
theorem fxOut_conv {α β : Type} {dfr : Bool} {st stS : St} {mst : MSt} {Pin : Fx} {r : Res α} {r' : Res β} {m : MSt}
    {pendOf : α → Fx} {pendOf' : β → Fx} (h : FxOut dfr st stS mst Pin (r, m) pendOf)
    (hP : resPend pendOf' r' = resPend pendOf r ∨ resPend pendOf' r' = Fx.nil) :
    FxOut dfr st stS mst Pin (r', m) pendOf' := by
  obtain ⟨dS, dM, e, mm, a⟩ := h
  refine ⟨dS, dM, e, mm, ?_⟩
  rcases hP with hP | hP
  · simp only [hP]; exact a
  · simp only [hP]; exact acct_drop a

/-- M records one more error at the end, the algorithm the same one -/
theorem fxOut_then_err {α β : Type} {dfr : Bool} {st stS : St} {mst m : MSt} {Pin : Fx} {r : Res α} {r' : Res β}
    {pendOf : α → Fx} {pendOf' : β → Fx} (h : FxOut dfr st stS mst Pin (r, m) pendOf) (p : Path) (d : Bool)
    (hP : resPend pendOf' r' = Fx.nil) :
    FxOut dfr st (addErr stS p d) mst Pin (r', m.addErr p d) pendOf' := by
  obtain ⟨dS, dM, e, mm, a⟩ := h
  refine ⟨St.app ⟨[(p, d)], [], []⟩ dS, (Fx.mk [(p, d)] []).app dM, ?_, mm.trans (mExt_addErr m p d), ?_⟩
  · rw [e]; rfl
  · simp only [hP]
    rw [fxS_app]
    have a' := acct_drop a
    have := acct_seq a' (acct_same (fxS ⟨[(p, d)], [], []⟩) Fx.nil dfr)
    exact this

/-! ## the four functions -/

variable (c pv rank F)

structure FxP (fuel : Nat) : Prop where
  groups : ∀ dfr rt src path sid fps accS acc st mst rS stS, (∀ fp ∈ fps, FpOK c.schema rt (NodeOK c pv rank) fp) →
    SVf c pv rank F acc accS → execGroups c fuel dfr rt src path (groupsOf fps) accS st = (rS, stS) → rS ≠ .fuelOut →
    stS.kfThunk = st.kfThunk →
    FxOut dfr st stS mst (pendF c F acc) (mGroups c alt0 fuel dfr rt src path sid fps acc mst) (pendF c F)
  field : ∀ dfr rt src p fid fp fd st mst rS stS, FpOK c.schema rt (NodeOK c pv rank) fp → fp.fieldDef = some fd →
    execField c fuel dfr rt src p fd fp.fieldNodes st = (rS, stS) → rS ≠ .fuelOut → stS.kfThunk = st.kfThunk →
    FxOut dfr st stS mst Fx.nil (mField c alt0 fuel dfr rt src p fid fp fd mst) (pend c F)
  complete : ∀ dfr t rt fid fp p v st mst rS stS, (∀ x ∈ fp.nodes, NodeOK c pv rank x.1 x.2) →
    complete c fuel dfr t rt fp.fieldName fp.fieldNodes p v st = (rS, stS) → rS ≠ .fuelOut → stS.kfThunk = st.kfThunk →
    FxOut dfr st stS mst Fx.nil (mComplete c alt0 fuel dfr t rt fid fp p v mst) (pend c F)
  items : ∀ dfr item rt fid fp p xs i accS acc st mst rS stS, (∀ x ∈ fp.nodes, NodeOK c pv rank x.1 x.2) →
    SVl c pv rank F acc accS →
    completeItems c fuel dfr item rt fp.fieldName fp.fieldNodes p xs i accS st = (rS, stS) → rS ≠ .fuelOut →
    stS.kfThunk = st.kfThunk →
    FxOut dfr st stS mst (pendL c F acc) (mItems c alt0 fuel dfr item rt fid fp p xs i acc mst) (pendL c F)

variable {c pv rank F}

theorem fxP_zero : FxP c pv rank F 0 := by
  refine ⟨?_, ?_, ?_, ?_⟩
  · intro dfr rt src path sid fps accS acc st mst rS stS _ _ h hr _
    simp only [execGroups, Prod.mk.injEq] at h; exact absurd h.1.symm hr
  · intro dfr rt src p fid fp fd st mst rS stS _ _ h hr _
    simp only [execField, Prod.mk.injEq] at h; exact absurd h.1.symm hr
  · intro dfr t rt fid fp p v st mst rS stS _ h hr _
    simp only [complete, Prod.mk.injEq] at h; exact absurd h.1.symm hr
  · intro dfr item rt fid fp p xs i accS acc st mst rS stS _ _ h hr _
    simp only [completeItems, Prod.mk.injEq] at h; exact absurd h.1.symm hr

theorem fxP_groups (hac : Acyclic c.frags rank) (hfr : FragsOK c pv) (fuel : Nat) (hle : fuel ≤ F)
    (ih : FxP c pv rank F fuel) :
    ∀ dfr rt src path sid fps accS acc st mst rS stS, (∀ fp ∈ fps, FpOK c.schema rt (NodeOK c pv rank) fp) →
    SVf c pv rank F acc accS → execGroups c (fuel + 1) dfr rt src path (groupsOf fps) accS st = (rS, stS) → rS ≠ .fuelOut →
    stS.kfThunk = st.kfThunk →
    FxOut dfr st stS mst (pendF c F acc) (mGroups c alt0 (fuel + 1) dfr rt src path sid fps acc mst) (pendF c F) := by
  intro dfr rt src path sid fps accS acc st mst rS stS hok hacc h hr hkf
  cases fps with
  | nil =>
    simp only [groupsOf, List.map_nil, execGroups, Prod.mk.injEq] at h
    obtain ⟨rfl, rfl⟩ := h
    simp only [mGroups]
    exact fxOut_ret (.inl rfl)
  | cons fp rest =>
    have hfp := hok fp List.mem_cons_self
    have hrest : ∀ fp' ∈ rest, FpOK c.schema rt (NodeOK c pv rank) fp' := fun fp' hm => hok fp' (List.mem_cons_of_mem _ hm)
    obtain ⟨n0, ch0, tl, hnodes, hname, hdef, hargs⟩ := hfp.head
    have hhead : fp.fieldNodes.head? = some n0 := by simp [FieldPlan.fieldNodes, hnodes]
    have hg : groupsOf (fp :: rest) = (fp.key, fp.fieldNodes) :: groupsOf rest := rfl
    rw [hg] at h
    simp only [execGroups, hhead] at h
    rw [← hdef] at h
    simp only [mGroups, hfp.pred, Pred.eval, List.all_nil, Bool.not_true, Bool.false_eq_true, if_false]
    cases hfd : fp.fieldDef with
    | none =>
      simp only [hfd] at h
      exact ih.groups _ _ _ _ _ _ _ _ _ mst _ _ hrest hacc h hr hkf
    | some fd =>
      simp only [hfd] at h
      have hk1 := kfExt_field c fuel dfr rt src (path ++ [.key fp.key]) fd fp.fieldNodes st
      rcases hS : execField c fuel dfr rt src (path ++ [.key fp.key]) fd fp.fieldNodes st with ⟨r1, st1⟩
      rw [hS] at h hk1
      simp only at hk1
      rcases hM1 : mField c alt0 fuel dfr rt src (path ++ [.key fp.key]) (sid ++ [(rt, fp.key)]) fp fd mst with ⟨rM1, mst1⟩
      try simp only [hM1]
      cases r1 with
      | ok j =>
        simp only at h
        have hk2 := kfExt_groups c fuel dfr rt src path (groupsOf rest) (accS ++ [(fp.key, j)]) st1
        rw [h] at hk2
        simp only at hk2
        obtain ⟨hkA, hkB⟩ := KfExt.same hk1 hk2 hkf
        have hdat := (genP (F := F) hac hfr fuel hle).field dfr rt src (path ++ [.key fp.key]) (sid ++ [(rt, fp.key)]) fp fd
          st mst _ _ hfp hfd hS (by simp) hkA
        have hfx := ih.field dfr rt src (path ++ [.key fp.key]) (sid ++ [(rt, fp.key)]) fp fd st mst _ _ hfp hfd hS (by simp) hkA
        simp only [hM1] at hdat hfx
        obtain ⟨x, hx, hsv⟩ := hdat
        subst hx
        obtain ⟨d1, dM1, e1, m1, a1⟩ := hfx
        simp only [resPend_ok] at a1
        have a1' := acct_frame (pendF c F acc) a1
        rw [Fx.app_nil, ← pendF_snoc] at a1'
        exact fxOut_seq e1 m1 a1' (ih.groups _ _ _ _ _ _ _ _ _ mst1 _ _ hrest (svf_append hsv hacc) h hr hkB)
      | fail =>
        simp only [Prod.mk.injEq] at h
        obtain ⟨rfl, rfl⟩ := h
        have hdat := (genP (F := F) hac hfr fuel hle).field dfr rt src (path ++ [.key fp.key]) (sid ++ [(rt, fp.key)]) fp fd
          st mst _ _ hfp hfd hS (by simp) hkf
        have hfx := ih.field dfr rt src (path ++ [.key fp.key]) (sid ++ [(rt, fp.key)]) fp fd st mst _ _ hfp hfd hS (by simp) hkf
        simp only [hM1] at hdat hfx
        subst hdat
        obtain ⟨d1, dM1, e1, m1, a1⟩ := hfx
        exact ⟨d1, dM1, e1, m1, acct_drop_in _ a1⟩
      | fuelOut =>
        simp only [Prod.mk.injEq] at h
        exact absurd h.1.symm hr

theorem fxP_field (hac : Acyclic c.frags rank) (hfr : FragsOK c pv) (fuel : Nat) (hle : fuel ≤ F)
    (ih : FxP c pv rank F fuel) :
    ∀ dfr rt src p fid fp fd st mst rS stS, FpOK c.schema rt (NodeOK c pv rank) fp → fp.fieldDef = some fd →
    execField c (fuel + 1) dfr rt src p fd fp.fieldNodes st = (rS, stS) → rS ≠ .fuelOut → stS.kfThunk = st.kfThunk →
    FxOut dfr st stS mst Fx.nil (mField c alt0 (fuel + 1) dfr rt src p fid fp fd mst) (pend c F) := by
  intro dfr rt src p fid fp fd st mst rS stS hfp hfd h hr hkf
  obtain ⟨n0, ch0, tl, hnodes, hname, hdef, hargs⟩ := hfp.head
  have hhead : fp.fieldNodes.head? = some n0 := by simp [FieldPlan.fieldNodes, hnodes]
  have hlen : fp.fieldNodes.length = fp.nodes.length := by simp [FieldPlan.fieldNodes]
  have hargs' : plannedArgs c.schema fp.args c.vars = getArgumentValues c.schema fd.args n0.args c.vars := by
    rw [hargs, ← hdef, hfd]
    exact plannedArgs_eq c.schema fd.args n0.args c.vars
  simp only [execField, hhead, hlen] at h
  simp only [mField, hargs']
  by_cases hn : (fd.name == "__typename") = true
  · simp only [hn, if_true, Prod.mk.injEq] at h ⊢
    obtain ⟨rfl, rfl⟩ := h
    exact fxOut_ret (.inl (by simp [pend]))
  · simp only [hn, Bool.false_eq_true, if_false] at h ⊢
    generalize hle0 : LogEntry.mk p rt fd.name (getArgumentValues c.schema fd.args n0.args c.vars) src fp.nodes.length dfr = le at h ⊢
    -- the invocation is logged on both sides
    have e0 : ({ st with log := le :: st.log } : St) = St.app ⟨[], [le], []⟩ st := rfl
    have m0 : MExt mst (mst.logEv (.call le)) ⟨[], [le]⟩ := mExt_call mst le
    have a0 : Acct (fxS ⟨[], [le], []⟩) ⟨[], [le]⟩ Fx.nil Fx.nil dfr := acct_same _ _ _
    have hk0 : ({ st with log := le :: st.log } : St).kfThunk = st.kfThunk := rfl
    generalize ({ st with log := le :: st.log } : St) = st0 at h e0 hk0
    generalize mst.logEv (.call le) = mst0 at m0 ⊢
    apply fxOut_seq e0 m0 a0
    cases hout : c.world.outcome src fd.name with
    | fail =>
      simp only [hout] at h ⊢
      by_cases hnn : fd.type.isNonNull = true
      · simp only [hnn, if_true, Prod.mk.injEq] at h ⊢
        obtain ⟨rfl, rfl⟩ := h
        exact fxOut_err p dfr rfl
      · simp only [hnn, Bool.false_eq_true, if_false, Prod.mk.injEq] at h ⊢
        obtain ⟨rfl, rfl⟩ := h
        exact fxOut_err p dfr (by simp [pend])
    | value v =>
      simp only [hout] at h ⊢
      have hk1 := kfExt_complete c fuel dfr fd.type rt fd.name fp.fieldNodes p v st0
      rcases hS0 : complete c fuel dfr fd.type rt fd.name fp.fieldNodes p v st0 with ⟨r1, st1⟩
      rw [hS0] at h hk1
      simp only at hk1
      have hS : complete c fuel dfr fd.type rt fp.fieldName fp.fieldNodes p v st0 = (r1, st1) := by
        rw [← fpOK_fieldName hfp hfd]; exact hS0
      rcases hM1 : mComplete c alt0 fuel dfr fd.type rt fid fp p v mst0 with ⟨rM1, mst1⟩
      try simp only [hM1]
      cases r1 with
      | ok j =>
        simp only [Prod.mk.injEq] at h
        obtain ⟨rfl, rfl⟩ := h
        have hkS : st1.kfThunk = st0.kfThunk := by rw [hkf, hk0]
        have hdat := (genP (F := F) hac hfr fuel hle).complete dfr fd.type rt fid fp p v st0 mst0 _ _ hfp.nodes hS (by simp) hkS
        have hfx := ih.complete dfr fd.type rt fid fp p v st0 mst0 _ _ hfp.nodes hS (by simp) hkS
        simp only [CompleteRel, hM1] at hdat hfx
        obtain ⟨x, hx, _⟩ := hdat
        subst hx
        exact hfx
      | fail =>
        simp only at h
        have hkS : st1.kfThunk = st0.kfThunk := by
          by_cases hnn : fd.type.isNonNull = true
          · simp only [hnn, if_true, Prod.mk.injEq] at h; rw [h.2, hkf, hk0]
          · simp only [hnn, Bool.false_eq_true, if_false, Prod.mk.injEq] at h; rw [h.2, hkf, hk0]
        have hdat := (genP (F := F) hac hfr fuel hle).complete dfr fd.type rt fid fp p v st0 mst0 _ _ hfp.nodes hS (by simp) hkS
        have hfx := ih.complete dfr fd.type rt fid fp p v st0 mst0 _ _ hfp.nodes hS (by simp) hkS
        simp only [CompleteRel, hM1] at hdat hfx
        have hst : stS = st1 := by
          by_cases hnn : fd.type.isNonNull = true
          · simp only [hnn, if_true, Prod.mk.injEq] at h; exact h.2.symm
          · simp only [hnn, Bool.false_eq_true, if_false, Prod.mk.injEq] at h; exact h.2.symm
        subst hst
        rcases hdat with hd | ⟨cl, hcl, _, _, _⟩
        · subst hd
          simp only
          by_cases hnn : fd.type.isNonNull = true
          · simp only [hnn, if_true]; exact fxOut_conv hfx (.inr rfl)
          · simp only [hnn, Bool.false_eq_true, if_false]; exact fxOut_conv hfx (.inr (by simp [pend]))
        · subst hcl
          exact hfx
      | fuelOut =>
        simp only [Prod.mk.injEq] at h
        exact absurd h.1.symm hr

theorem fxP_items (hac : Acyclic c.frags rank) (hfr : FragsOK c pv) (fuel : Nat) (hle : fuel ≤ F)
    (ih : FxP c pv rank F fuel) :
    ∀ dfr item rt fid fp p xs i accS acc st mst rS stS, (∀ x ∈ fp.nodes, NodeOK c pv rank x.1 x.2) →
    SVl c pv rank F acc accS →
    completeItems c (fuel + 1) dfr item rt fp.fieldName fp.fieldNodes p xs i accS st = (rS, stS) → rS ≠ .fuelOut →
    stS.kfThunk = st.kfThunk →
    FxOut dfr st stS mst (pendL c F acc) (mItems c alt0 (fuel + 1) dfr item rt fid fp p xs i acc mst) (pendL c F) := by
  intro dfr item rt fid fp p xs i accS acc st mst rS stS hn hacc h hr hkf
  cases xs with
  | nil =>
    simp only [completeItems, Prod.mk.injEq] at h
    obtain ⟨rfl, rfl⟩ := h
    simp only [mItems]
    exact fxOut_ret (.inl rfl)
  | cons x xs =>
    simp only [completeItems] at h
    simp only [mItems]
    have hk1 := kfExt_complete c fuel dfr item rt fp.fieldName fp.fieldNodes (p ++ [.idx i]) x st
    rcases hS : complete c fuel dfr item rt fp.fieldName fp.fieldNodes (p ++ [.idx i]) x st with ⟨r1, st1⟩
    rw [hS] at h hk1
    simp only at hk1
    rcases hM1 : mComplete c alt0 fuel dfr item rt fid fp (p ++ [.idx i]) x mst with ⟨rM1, mst1⟩
    try simp only [hM1]
    -- one more item: what it leaves pending is appended
    have step : ∀ (y : PVal) (jy : JVal), SV c pv rank F y jy → st1.kfThunk = st.kfThunk →
        FxOut dfr st st1 mst Fx.nil ((Res.ok y : Res PVal), mst1) (pend c F) →
        completeItems c fuel dfr item rt fp.fieldName fp.fieldNodes p xs (i + 1) (accS ++ [jy]) st1 = (rS, stS) →
        stS.kfThunk = st1.kfThunk →
        FxOut dfr st stS mst (pendL c F acc) (mItems c alt0 fuel dfr item rt fid fp p xs (i + 1) (acc ++ [y]) mst1) (pendL c F) := by
      intro y jy hsv _ hfx h2 hkB
      obtain ⟨d1, dM1, e1, m1, a1⟩ := hfx
      simp only [resPend_ok] at a1
      have a1' := acct_frame (pendL c F acc) a1
      rw [Fx.app_nil, ← pendL_snoc] at a1'
      exact fxOut_seq e1 m1 a1' (ih.items _ _ _ _ _ _ _ _ _ _ _ mst1 _ _ hn (svl_append hsv hacc) h2 hr hkB)
    cases r1 with
    | ok j =>
      simp only at h
      have hk2 := kfExt_items c fuel dfr item rt fp.fieldName fp.fieldNodes p xs (i + 1) (accS ++ [j]) st1
      rw [h] at hk2
      simp only at hk2
      obtain ⟨hkA, hkB⟩ := KfExt.same hk1 hk2 hkf
      have hdat := (genP (F := F) hac hfr fuel hle).complete dfr item rt fid fp (p ++ [.idx i]) x st mst _ _ hn hS (by simp) hkA
      have hfx := ih.complete dfr item rt fid fp (p ++ [.idx i]) x st mst _ _ hn hS (by simp) hkA
      simp only [CompleteRel, hM1] at hdat hfx
      obtain ⟨y, hy, hsv⟩ := hdat
      subst hy
      exact step y j hsv hkA hfx h hkB
    | fail =>
      simp only at h
      by_cases hnn : item.isNonNull = true
      · simp only [hnn, if_true, Prod.mk.injEq] at h
        obtain ⟨rfl, rfl⟩ := h
        have hdat := (genP (F := F) hac hfr fuel hle).complete dfr item rt fid fp (p ++ [.idx i]) x st mst _ _ hn hS (by simp) hkf
        have hfx := ih.complete dfr item rt fid fp (p ++ [.idx i]) x st mst _ _ hn hS (by simp) hkf
        simp only [CompleteRel, hM1] at hdat hfx
        rcases hdat with hd | ⟨cl, _, _, hnull, _⟩
        · subst hd
          simp only [hnn, if_true]
          obtain ⟨d1, dM1, e1, m1, a1⟩ := hfx
          exact ⟨d1, dM1, e1, m1, acct_drop_in _ a1⟩
        · rw [hnn] at hnull; cases hnull
      · simp only [hnn, Bool.false_eq_true, if_false] at h
        have hk2 := kfExt_items c fuel dfr item rt fp.fieldName fp.fieldNodes p xs (i + 1) (accS ++ [.null]) st1
        rw [h] at hk2
        simp only at hk2
        obtain ⟨hkA, hkB⟩ := KfExt.same hk1 hk2 hkf
        have hdat := (genP (F := F) hac hfr fuel hle).complete dfr item rt fid fp (p ++ [.idx i]) x st mst _ _ hn hS (by simp) hkA
        have hfx := ih.complete dfr item rt fid fp (p ++ [.idx i]) x st mst _ _ hn hS (by simp) hkA
        simp only [CompleteRel, hM1] at hdat hfx
        rcases hdat with hd | ⟨cl, hcl, _, _, hwit⟩
        · subst hd
          simp only [hnn, Bool.false_eq_true, if_false]
          exact step (.leaf .null) .null (.leaf _) hkA (fxOut_conv hfx (.inr (by simp [pend]))) h hkB
        · subst hcl
          simp only
          exact step (.deferred cl) .null (.deferred hwit) hkA hfx h hkB
    | fuelOut =>
      simp only [Prod.mk.injEq] at h
      exact absurd h.1.symm hr

end fx

end GqlModel.Plan
